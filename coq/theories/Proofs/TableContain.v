(* C05, table part (1/3): the symbol table that table::build constructs, as a pure function of the
   declaration list.

   [build_res] threads a result monad (the assert of Identifier::to_error) and returns the decorated
   tree next to the table.  The TABLE it returns does not depend on the decoration: it is
   [table_of (pg_decls p) initialized], where every declaration contributes at most one entry
   ([decl_entry], entered under [decl_key] unless that key is present already - the first declaration
   wins).  The entry of a declaration depends on the table in front of it only through the
   resolution of the type names its type expressions mention ([decl_deps], [tyres]).

   This file: the projection (build_res_table), what an entry depends on (decl_entry_ext), and what
   does not depend on the table at all - everything but the data types (decl_entry_skel). *)
From Coq Require Import Arith Lia List Bool.
From Spl Require Import Model.Errors Proofs.SemProofs.
From Spl Require Proofs.TypingProofs.
Import ListNotations.
Local Open Scope nat_scope.

(* ------------------------------------------------------------------------------------------ *)
(* 1. the data type of a type expression, without the decoration *)

Fixpoint dt_te (l : option ltable) (g : gtable) (c : option text) (t : typeexpr) : option dtype :=
  match t with
  | TNamed name =>
      match lt_lookup l (Some g) (id_val name) with
      | Some (EntType te) => ten_ty te
      | _ => None
      end
  | TArray size base _ =>
      array_type c (match size with Some il => il_val il | None => None end)
        (match base with Some (b, _) => dt_te l g c b | None => None end)
  end.

Definition dt_ote (l : option ltable) (g : gtable) (c : option text) (t : option (typeexpr * nat)) : option dtype :=
  match t with Some (te, _) => dt_te l g c te | None => None end.

Lemma get_data_type_te_dt l g c t : forall t' dt,
  get_data_type_te l (Some g) c t = ROk (t', dt) -> dt = dt_te l g c t.
Proof.
  induction t as [i | size inf | size b off inf IH] using TypingProofs.texpr_ind'; intros t' dt H;
    cbn [get_data_type_te dt_te] in *.
  - destruct (lt_lookup l (Some g) (id_val i)) as [[te|pe|ve|ve]|].
    + injection H as _ <-. reflexivity.
    + destruct (ident_flag i _); cbn [rbind] in H; [|discriminate]. injection H as _ <-. reflexivity.
    + destruct (ident_flag i _); cbn [rbind] in H; [|discriminate]. injection H as _ <-. reflexivity.
    + destruct (ident_flag i _); cbn [rbind] in H; [|discriminate]. injection H as _ <-. reflexivity.
    + destruct (ident_flag i _); cbn [rbind] in H; [|discriminate]. injection H as _ <-. reflexivity.
  - injection H as _ <-. reflexivity.
  - destruct (get_data_type_te l (Some g) c b) as [[b' bt]|] eqn:E; cbn [rbind] in H; [|discriminate].
    injection H as _ <-. rewrite (IH _ _ eq_refl). reflexivity.
Qed.

Lemma get_data_type_dt l g c t t' dt :
  get_data_type l (Some g) c t = ROk (t', dt) -> dt = dt_ote l g c t.
Proof.
  unfold get_data_type, dt_ote. destruct t as [[te off]|]; [|intros [= _ <-]; reflexivity].
  destruct (get_data_type_te l (Some g) c te) as [[te' d]|] eqn:E; cbn [rbind]; [|discriminate].
  intros [= _ <-]. exact (get_data_type_te_dt _ _ _ _ _ _ E).
Qed.

(* ------------------------------------------------------------------------------------------ *)
(* 2. the local table and the parameter list of a procedure *)

Definition param_entry (pn : text) (g : gtable) (p : paramdecl * nat) : option ventry :=
  match fst p with
  | PValid doc is_ref (Some name) ty inf =>
      Some {| ve_name := name; ve_ref := is_ref;
              ve_ty := dt_ote None g (Some (anonymous_creator pn name)) ty;
              ve_range := shift_range (info_range inf) (snd p); ve_doc := get_documentation doc |}
  | _ => None
  end.

Fixpoint params_tab (pn : text) (g : gtable) (ps : list (paramdecl * nat)) (local : ltable) : ltable * list ventry :=
  match ps with
  | [] => (local, [])
  | p :: r =>
      match param_entry pn g p with
      | Some e =>
          let (l2, es) := params_tab pn g r (fst (enter local (id_val (ve_name e)) (LParam e))) in (l2, e :: es)
      | None => params_tab pn g r local
      end
  end.

Definition var_entry (pn : text) (g : gtable) (local : ltable) (v : vardecl * nat) : option ventry :=
  match fst v with
  | VValid doc (Some name) ty inf =>
      Some {| ve_name := name; ve_ref := false;
              ve_ty := dt_ote (Some local) g (Some (anonymous_creator pn name)) ty;
              ve_range := shift_range (info_range inf) (snd v); ve_doc := get_documentation doc |}
  | _ => None
  end.

Fixpoint vars_tab (pn : text) (g : gtable) (vs : list (vardecl * nat)) (local : ltable) : ltable :=
  match vs with
  | [] => local
  | v :: r =>
      vars_tab pn g r
        (match var_entry pn g local v with
         | Some e => fst (enter local (id_val (ve_name e)) (LVar e))
         | None => local
         end)
  end.

Lemma build_parameter_tab p pn g local p' local' oe :
  build_parameter p pn g local = ROk (p', local', oe) ->
  oe = param_entry pn g p /\
  local' = match oe with Some e => fst (enter local (id_val (ve_name e)) (LParam e)) | None => local end.
Proof.
  destruct p as [pd off]. intros H. unfold build_parameter in H. unfold param_entry. cbn [fst snd].
  destruct pd as [doc is_ref [name|] ty inf|inf]; try (injection H as _ <- <-; split; reflexivity).
  destruct (get_data_type None (Some g) (Some (anonymous_creator pn name)) ty) as [[ty' dt]|] eqn:Eg; cbn [rbind] in H; [|discriminate].
  match type of H with rbind ?e _ = _ => destruct e as [name1|] end; cbn [rbind] in H; [|discriminate].
  destruct (enter local (id_val name) _) as [local'' ok] eqn:Een.
  match type of H with rbind ?e _ = _ => destruct e as [name2|] end; cbn [rbind] in H; [|discriminate].
  injection H as _ <- <-. rewrite (get_data_type_dt _ _ _ _ _ _ Eg) in *. cbn [paramdecl_info] in *.
  split; [reflexivity|]. cbn [ve_name]. rewrite Een. reflexivity.
Qed.

Lemma build_parameters_tab pn g : forall ps local ps' local' es,
  build_parameters ps pn g local = ROk (ps', local', es) -> params_tab pn g ps local = (local', es).
Proof.
  induction ps as [|p r IH]; intros local ps' local' es H; cbn [build_parameters params_tab] in *.
  - injection H as _ <- <-. reflexivity.
  - destruct (build_parameter p pn g local) as [[[p1 local1] oe]|] eqn:E1; cbn [rbind] in H; [|discriminate].
    destruct (build_parameters r pn g local1) as [[[r1 local2] es1]|] eqn:E2; cbn [rbind] in H; [|discriminate].
    injection H as _ <- <-. destruct (build_parameter_tab _ _ _ _ _ _ _ E1) as [Ho Hl]. rewrite <- Ho.
    destruct oe as [e|]; subst local1; rewrite (IH _ _ _ _ E2); reflexivity.
Qed.

Lemma build_variable_tab v pn g local v' local' :
  build_variable v pn g local = ROk (v', local') ->
  local' = match var_entry pn g local v with
           | Some e => fst (enter local (id_val (ve_name e)) (LVar e))
           | None => local
           end.
Proof.
  destruct v as [vd off]. intros H. unfold build_variable in H. unfold var_entry. cbn [fst snd].
  destruct vd as [doc [name|] ty inf|inf]; try (injection H as _ <-; reflexivity).
  destruct (get_data_type (Some local) (Some g) (Some (anonymous_creator pn name)) ty) as [[ty' dt]|] eqn:Eg; cbn [rbind] in H; [|discriminate].
  destruct (enter local (id_val name) _) as [local'' ok] eqn:Een.
  match type of H with rbind ?e _ = _ => destruct e as [name2|] end; cbn [rbind] in H; [|discriminate].
  injection H as _ <-. rewrite (get_data_type_dt _ _ _ _ _ _ Eg) in *. cbn [vardecl_info ve_name] in *.
  rewrite Een. reflexivity.
Qed.

Lemma build_variables_tab pn g : forall vs local vs' local',
  build_variables vs pn g local = ROk (vs', local') -> vars_tab pn g vs local = local'.
Proof.
  induction vs as [|v r IH]; intros local vs' local' H; cbn [build_variables vars_tab] in *.
  - injection H as _ <-. reflexivity.
  - destruct (build_variable v pn g local) as [[v1 local1]|] eqn:E1; cbn [rbind] in H; [|discriminate].
    destruct (build_variables r pn g local1) as [[r1 local2]|] eqn:E2; cbn [rbind] in H; [|discriminate].
    injection H as _ <-. rewrite <- (build_variable_tab _ _ _ _ _ _ E1). exact (IH _ _ _ E2).
Qed.

(* ------------------------------------------------------------------------------------------ *)
(* 3. the entry of a global declaration, the key it is entered under, the table of a list *)

(* the key: `type main` is flagged and never entered *)
Definition decl_key (d : gdecl) : option text :=
  match d with
  | GType td =>
      match td_name td with
      | Some name => if text_eqb (id_val name) s_main then None else Some (id_val name)
      | None => None
      end
  | GProc pd => match pd_name pd with Some name => Some (id_val name) | None => None end
  | GError _ => None
  end.

Definition decl_entry (T : gtable) (off : nat) (d : gdecl) : option gentry :=
  match d with
  | GType td =>
      match td_name td with
      | Some name =>
          if text_eqb (id_val name) s_main then None
          else Some (GTypeE {| ten_name := name; ten_ty := dt_ote None T (Some (id_val name)) (td_ty td);
                               ten_range := shift_range (info_range (td_info td)) off;
                               ten_doc := get_documentation (td_doc td) |})
      | None => None
      end
  | GProc pd =>
      match pd_name pd with
      | Some name =>
          let (l1, es) := params_tab (id_val name) T (pd_params pd) [] in
          Some (GProcE {| pe_name := name; pe_local := vars_tab (id_val name) T (pd_vars pd) l1; pe_params := es;
                          pe_range := shift_range (info_range (pd_info pd)) off;
                          pe_doc := get_documentation (pd_doc pd) |})
      | None => None
      end
  | GError _ => None
  end.

Definition table_step (T : gtable) (off : nat) (d : gdecl) : gtable :=
  match decl_key d, decl_entry T off d with
  | Some k, Some e => fst (enter T k e)
  | _, _ => T
  end.

Fixpoint table_of (ds : list (gdecl * nat)) (T : gtable) : gtable :=
  match ds with
  | [] => T
  | (d, off) :: r => table_of r (table_step T off d)
  end.

Definition decl_keys (ds : list (gdecl * nat)) : list text :=
  flat_map (fun go => match decl_key (fst go) with Some k => [k] | None => [] end) ds.

Lemma decl_entry_key T off d : decl_entry T off d = None <-> decl_key d = None.
Proof.
  destruct d as [td|pd|inf]; cbn [decl_entry decl_key]; [| |tauto].
  - destruct (td_name td) as [name|]; [|tauto]. destruct (text_eqb (id_val name) s_main); [tauto|].
    split; discriminate.
  - destruct (pd_name pd) as [name|]; [|tauto]. destruct (params_tab _ _ _ _). split; discriminate.
Qed.

Lemma build_typedecl_table td T off td' T' :
  build_typedecl td T off = ROk (td', T') -> T' = table_step T off (GType td).
Proof.
  intros H. unfold build_typedecl in H. unfold table_step. cbn [decl_key decl_entry].
  destruct (td_name td) as [name|]; [|injection H as _ <-; reflexivity].
  destruct (text_eqb (id_val name) s_main).
  { destruct (ident_flag name _) as [name'|]; cbn [rbind] in H; [|discriminate]. injection H as _ <-. reflexivity. }
  destruct (get_data_type None (Some T) (Some (id_val name)) (td_ty td)) as [[ty' dt]|] eqn:Eg; cbn [rbind] in H; [|discriminate].
  destruct (enter T (id_val name) _) as [table' ok] eqn:Een.
  match type of H with rbind ?e _ = _ => destruct e as [name2|] end; cbn [rbind] in H; [|discriminate].
  injection H as _ <-. rewrite (get_data_type_dt _ _ _ _ _ _ Eg) in Een. rewrite Een. reflexivity.
Qed.

Lemma build_procdecl_table pd T off pd' T' :
  build_procdecl pd T off = ROk (pd', T') -> T' = table_step T off (GProc pd).
Proof.
  intros H. unfold build_procdecl in H. unfold table_step. cbn [decl_key decl_entry].
  destruct (pd_name pd) as [name|]; [|injection H as _ <-; reflexivity].
  destruct (build_parameters (pd_params pd) (id_val name) T []) as [[[params' local1] parameters]|] eqn:Ep; cbn [rbind] in H; [|discriminate].
  destruct (build_variables (pd_vars pd) (id_val name) T local1) as [[vars' local2]|] eqn:Ev; cbn [rbind] in H; [|discriminate].
  destruct (enter T (id_val name) _) as [table' ok] eqn:Een.
  match type of H with rbind ?e _ = _ => destruct e as [name2|] end; cbn [rbind] in H; [|discriminate].
  injection H as _ <-. rewrite (build_parameters_tab _ _ _ _ _ _ _ Ep), (build_variables_tab _ _ _ _ _ _ Ev), Een. reflexivity.
Qed.

Lemma build_gdecl_table d T off d' T' : build_gdecl d T off = ROk (d', T') -> T' = table_step T off d.
Proof.
  destruct d as [td|pd|inf]; cbn [build_gdecl]; intros H.
  - destruct (build_typedecl td T off) as [[td1 T1]|] eqn:E; cbn [rbind] in H; [|discriminate].
    injection H as _ <-. exact (build_typedecl_table _ _ _ _ _ E).
  - destruct (build_procdecl pd T off) as [[pd1 T1]|] eqn:E; cbn [rbind] in H; [|discriminate].
    injection H as _ <-. exact (build_procdecl_table _ _ _ _ _ E).
  - injection H as _ <-. reflexivity.
Qed.

Lemma build_gdecls_table : forall ds T ds' T', build_gdecls ds T 0 = ROk (ds', T') -> T' = table_of ds T.
Proof.
  induction ds as [|[d off] r IH]; intros T ds' T' H; cbn [build_gdecls table_of] in *.
  - injection H as _ <-. reflexivity.
  - cbn [Nat.add] in H.
    destruct (build_gdecl d T off) as [[d1 T1]|] eqn:E1; cbn [rbind] in H; [|discriminate].
    destruct (build_gdecls r T1 0) as [[r1 T2]|] eqn:E2; cbn [rbind] in H; [|discriminate].
    injection H as _ <-. rewrite <- (build_gdecl_table _ _ _ _ _ E1). exact (IH _ _ _ E2).
Qed.

(* the table of table::build is the table of the declaration list *)
Theorem build_res_table p q T : build_res p = ROk (q, T) -> T = table_of (pg_decls p) initialized.
Proof.
  unfold build_res, build_program.
  destruct (build_gdecls (pg_decls p) initialized 0) as [[ds' T1]|] eqn:E; cbn [rbind]; [|discriminate].
  intros H. pose proof (build_gdecls_table _ _ _ _ E) as Hr.
  destruct (lookup T1 s_main) as [[te|main]|].
  - discriminate.
  - destruct (pe_params main).
    + injection H as _ <-. exact Hr.
    + destruct (to_error _ _); cbn [rbind] in H; [|discriminate]. injection H as _ <-. exact Hr.
  - injection H as _ <-. exact Hr.
Qed.

Lemma table_of_app A B T : table_of (A ++ B) T = table_of B (table_of A T).
Proof. revert T. induction A as [|[d off] A IH]; intros T; cbn [table_of app]; [reflexivity | apply IH]. Qed.

Lemma decl_keys_app A B : decl_keys (A ++ B) = decl_keys A ++ decl_keys B.
Proof. unfold decl_keys. apply flat_map_app. Qed.

(* ------------------------------------------------------------------------------------------ *)
(* 4. lookup after enter; the keys of the table of a list *)

Lemma lookup_enter {V} (T : list (text * V)) k v n :
  lookup (fst (enter T k v)) n =
  match lookup T n with
  | Some x => Some x
  | None => if text_eqb k n then Some v else None
  end.
Proof.
  unfold enter. destruct (lookup T k) as [x|] eqn:E; cbn [fst].
  - destruct (lookup T n) as [y|] eqn:En; [reflexivity|].
    destruct (text_eqb k n) eqn:Ek; [|reflexivity]. apply text_eqb_eq in Ek. subst n. congruence.
  - apply lookup_app.
Qed.

Lemma lookup_step T off d n :
  lookup (table_step T off d) n =
  match lookup T n with
  | Some x => Some x
  | None =>
      match decl_key d, decl_entry T off d with
      | Some k, Some e => if text_eqb k n then Some e else None
      | _, _ => None
      end
  end.
Proof.
  unfold table_step. destruct (decl_key d) as [k|]; [|destruct (lookup T n); reflexivity].
  destruct (decl_entry T off d) as [e|]; [|destruct (lookup T n); reflexivity]. apply lookup_enter.
Qed.

Lemma table_of_front : forall ds T n e, lookup T n = Some e -> lookup (table_of ds T) n = Some e.
Proof.
  induction ds as [|[d off] r IH]; intros T n e H; cbn [table_of]; [exact H|].
  apply IH. rewrite lookup_step, H. reflexivity.
Qed.

Lemma table_of_absent : forall ds T n,
  lookup T n = None -> ~ In n (decl_keys ds) -> lookup (table_of ds T) n = None.
Proof.
  induction ds as [|[d off] r IH]; intros T n H Hn; cbn [table_of]; [exact H|].
  unfold decl_keys in Hn. cbn [flat_map fst] in Hn. rewrite in_app_iff in Hn.
  apply IH; [|intros Hi; apply Hn; right; exact Hi].
  rewrite lookup_step, H. destruct (decl_key d) as [k|]; [|reflexivity].
  destruct (decl_entry T off d) as [e|]; [|reflexivity].
  destruct (text_eqb k n) eqn:Ek; [|reflexivity]. apply text_eqb_eq in Ek. subst k.
  exfalso. apply Hn. left. left. reflexivity.
Qed.

Lemma table_of_present : forall ds T n, In n (decl_keys ds) -> lookup (table_of ds T) n <> None.
Proof.
  induction ds as [|[d off] r IH]; intros T n Hn; [destruct Hn|].
  unfold decl_keys in Hn. cbn [flat_map fst] in Hn. rewrite in_app_iff in Hn. cbn [table_of].
  destruct Hn as [Hn|Hn]; [|exact (IH _ _ Hn)].
  destruct (decl_key d) as [k|] eqn:Ek; [|destruct Hn]. destruct Hn as [->|[]].
  destruct (lookup (table_step T off d) n) as [e|] eqn:El; [rewrite (table_of_front _ _ _ _ El); discriminate|].
  exfalso. rewrite lookup_step, Ek in El. destruct (lookup T n); [discriminate|].
  destruct (decl_entry T off d) as [e|] eqn:Ee; [|apply decl_entry_key in Ee; congruence].
  rewrite text_eqb_refl in El. discriminate.
Qed.

(* the keys of the table of a list: those of the start table and those of the declarations *)
Theorem table_of_keys ds T n :
  lookup (table_of ds T) n <> None <-> lookup T n <> None \/ In n (decl_keys ds).
Proof.
  split.
  - intros H. destruct (lookup T n) as [e|] eqn:E; [left; discriminate|].
    destruct (in_dec (list_eq_dec N.eq_dec) n (decl_keys ds)) as [Hi|Hi]; [right; exact Hi|].
    exfalso. apply H. exact (table_of_absent _ _ _ E Hi).
  - intros [H|H]; [|exact (table_of_present _ _ _ H)].
    destruct (lookup T n) as [e|] eqn:E; [|congruence]. rewrite (table_of_front _ _ _ _ E). discriminate.
Qed.
