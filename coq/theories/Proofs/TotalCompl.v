(* C02 / C16, request handlers: the explicit predicate [compl_wf_b] (Model/Completion.v) under which
   textDocument/completion never panics holds for the document of EVERY text.

   1. parser: for every token list and every fuel, a statement the parser returns has the range
      [pos - refp, pos' - refp) of the run that produced it, and every nested statement - each sits
      behind its own Reference, so its range starts at 0 and, by progress (T2), is not empty - ends
      inside it ([stmt_spec], [ref_stmt_spec]); the statements of a procedure declaration end inside
      the declaration's range ([procdecl_stmts]).
   2. table construction keeps the statements and the ranges of the declarations; semantic analysis
      only appends errors to AstInfos: it keeps [stmt_wf] and every statement range ([an_stmt_wf]).
   3. T5 (ParserSync): global declarations start at their Reference, are not empty and end inside
      the token vector. *)
From Coq Require Import Arith Lia List Bool.
From Spl Require Import Model.Completion Proofs.ParserComb Proofs.ParserEqns Proofs.ParserFwd Proofs.ParserDecl
  Proofs.ParserTotal Proofs.ParserSync Proofs.CompletionProofs Proofs.RangeProofs.
Import ListNotations.
Local Open Scope nat_scope.

(* ------------------------------------------------------------------------------------------ *)
(* 0. the predicate, split into head and children                                              *)

Definition kid (len : nat) (o : option (stmt * nat)) : Prop :=
  match o with Some (c, off) => off + i_e (stmt_info c) <= len /\ stmt_wf c | None => True end.

Definition kids (x : stmt) : Prop :=
  match x with
  | SIf _ t e inf => kid (i_e inf) t /\ kid (i_e inf) e
  | SWhile _ b inf => kid (i_e inf) b
  | SBlock body inf => Forall (child_wf (i_e inf)) body
  | _ => True
  end.

Lemma block_go_iff len body :
  (fix go (l : list (stmt * nat)) : Prop :=
     match l with
     | [] => True
     | (c, off) :: r => (off + i_e (stmt_info c) <= len /\ stmt_wf c) /\ go r
     end) body <-> Forall (child_wf len) body.
Proof.
  induction body as [|[c off] r IH]; [split; [constructor | exact (fun _ => I)]|].
  split.
  - intros [H1 H2]. constructor; [exact H1 | apply IH, H2].
  - intros H. inversion H as [|? ? H1 H2]; subst. split; [exact H1 | apply IH, H2].
Qed.

Lemma stmt_wf_split x : stmt_wf x <-> i_s (stmt_info x) = 0 /\ 0 < i_e (stmt_info x) /\ kids x.
Proof.
  destruct x as [inf | v e inf | name args inf | c t e inf | c b inf | body inf | inf];
    cbn [stmt_wf stmt_info kids kid]; try tauto.
  rewrite block_go_iff. tauto.
Qed.

Lemma kid_mono len len' o : len <= len' -> kid len o -> kid len' o.
Proof. destruct o as [[c off]|]; cbn [kid]; [intros H [H1 H2]; split; [lia | exact H2] | auto]. Qed.

Lemma child_wf_mono len len' co : len <= len' -> child_wf len co -> child_wf len' co.
Proof. unfold child_wf. intros H [H1 H2]. split; [lia | exact H2]. Qed.

(* ------------------------------------------------------------------------------------------ *)
(* 1. the parser                                                                               *)

Lemma p_opt_ok {A} (p : parser A) s s' o :
  p_opt p s = POk s' o -> (exists a, p s = POk s' a /\ o = Some a) \/ (s' = s /\ o = None).
Proof.
  unfold p_opt. destruct (p s) as [s1 a|e|]; [intros [= <- <-]; left; eauto | intros [= <- <-]; now right | discriminate].
Qed.

Section Stmts.
Variable toks : list token.
Notation N := (length toks).
Notation Mv0 := (Mv toks sync_none).

(* [mv H M]: from H : q s = POk s' a, the position discipline between s and s' *)
Ltac mv H M :=
  match type of H with
  | ?q ?s = POk ?s' ?a =>
      assert (M : Mv toks sync_none s s');
      [ apply (Fwd_ok toks sync_none q s s' a); [ fwd_solve sync_none_ok | cbn [pos set_ebuf set_refp] in *; lia | exact H ] | ]
  end.

Definition StmtSpec (f : nat) : Prop :=
  forall s s' x, pos s <= N -> refp s <= pos s -> p_stmt toks f s = POk s' x ->
    i_s (stmt_info x) = pos s - refp s /\ i_e (stmt_info x) = pos s' - refp s /\ kids x.

Lemma ref_stmt_spec f : StmtSpec f ->
  forall s s' xo, pos s <= N -> refp s <= pos s -> p_ref (p_stmt toks f) s = POk s' xo ->
    stmt_wf (fst xo) /\ snd xo + i_e (stmt_info (fst xo)) = pos s' - refp s /\ Mv0 s s'.
Proof.
  intros Sp s s' [x off] Hs Hr H. mv H M. split; [|split; [|exact M]]; cbn [fst snd].
  - apply p_ref_ok in H as (s1 & H & -> & Hoff). cbn [fst snd] in *.
    pose proof (Prog_stmt toks f (set_refp s (pos s)) _ _ Hs H) as Hlt. cbn [pos set_refp] in Hlt.
    destruct (Sp (set_refp s (pos s)) _ _ Hs (le_n _) H) as (A & B & C). cbn [pos refp set_refp] in *.
    apply stmt_wf_split. repeat split; [lia | lia | exact C].
  - apply p_ref_ok in H as (s1 & H & -> & Hoff). cbn [fst snd] in *.
    pose proof (Prog_stmt toks f (set_refp s (pos s)) _ _ Hs H) as Hlt. cbn [pos set_refp] in Hlt.
    destruct (Sp (set_refp s (pos s)) _ _ Hs (le_n _) H) as (A & B & C). cbn [pos refp set_refp] in *. lia.
Qed.

Lemma expect_ref_stmt_spec f m : StmtSpec f ->
  forall s s' o, pos s <= N -> refp s <= pos s -> p_expect (p_ref (p_stmt toks f)) m s = POk s' o ->
    kid (pos s' - refp s) o /\ Mv0 s s'.
Proof.
  intros Sp s s' o Hs Hr H. mv H M. split; [|exact M].
  apply p_expect_ok in H as [(a & H & ->)|(e & _ & _ & ->)]; [|exact I].
  destruct (ref_stmt_spec f Sp _ _ _ Hs Hr H) as (A & B & _). destruct a as [c off]. cbn [fst snd kid] in *.
  split; [lia | exact A].
Qed.

Lemma many0_ref_stmt_spec f fuel : StmtSpec f ->
  forall s s' l, pos s <= N -> refp s <= pos s -> p_many0 fuel (p_ref (p_stmt toks f)) s = POk s' l ->
    Forall (child_wf (pos s' - refp s)) l /\ Mv0 s s'.
Proof.
  intros Sp. induction fuel as [|n IH]; intros s s' l Hs Hr H; [discriminate|].
  mv H M. split; [|exact M]. cbn [p_many0] in H.
  destruct (p_ref (p_stmt toks f) s) as [s1 xo|e|] eqn:E1; [| injection H as _ <-; constructor | discriminate].
  destruct (Nat.eqb (pos s1) (pos s)); [discriminate|].
  apply bind_ok in H as (s2 & l2 & H2 & [= -> <-]).
  destruct (ref_stmt_spec f Sp _ _ _ Hs Hr E1) as (A & B & (M1 & M2 & M3 & _)).
  destruct (IH _ _ _ M2 ltac:(lia) H2) as (C & (M4 & M5 & M6 & _)).
  constructor.
  - split; [lia | exact A].
  - rewrite M3 in C. exact C.
Qed.

Lemma stmt_spec : forall f, StmtSpec f.
Proof.
  induction f as [|f IH]; intros s s' x Hs Hr H; [discriminate|].
  rewrite p_stmt_S in H.
  (* ; *)
  apply p_alt_ok in H as [H|[_ H]].
  { apply p_map_ok in H as ([t inf] & H & ->). apply p_info_ok in H as (s1 & _ & -> & Hinf). cbn [fst snd] in Hinf. subst inf. now cbn. }
  (* if *)
  apply p_alt_ok in H as [H|[_ H]].
  { apply p_map_ok in H as ([[kw [lp [c [rp [t e]]]]] inf] & H & ->).
    apply p_info_ok in H as (s1 & H & -> & Hinf). cbn [fst snd] in H, Hinf. subst inf.
    apply p_pair_ok in H as (sa & Ha & H). cbn [fst snd] in Ha, H. mv Ha Ma. destruct Ma as (Ma1 & Ma2 & Ma3 & _).
    apply p_pair_ok in H as (sb & Hb & H). cbn [fst snd] in Hb, H. mv Hb Mb. destruct Mb as (Mb1 & Mb2 & Mb3 & _).
    apply p_pair_ok in H as (sc & Hc & H). cbn [fst snd] in Hc, H. mv Hc Mc. destruct Mc as (Mc1 & Mc2 & Mc3 & _).
    apply p_pair_ok in H as (sd & Hd & H). cbn [fst snd] in Hd, H. mv Hd Md. destruct Md as (Md1 & Md2 & Md3 & _).
    apply p_pair_ok in H as (se & He & H). cbn [fst snd] in He, H.
    cbn [pos refp set_ebuf] in *.
    destruct (expect_ref_stmt_spec f _ IH _ _ _ Md2 ltac:(lia) He) as (Kt & (Me1 & Me2 & Me3 & _)).
    cbn [stmt_info i_s i_e pos refp set_ebuf kids]. split; [reflexivity|]. split; [reflexivity|].
    apply p_opt_ok in H as [(a & H & ->)|(-> & ->)].
    - unfold p_preceded in H. apply p_map_ok in H as ([kwe oe] & H & ->). cbn [snd].
      apply p_pair_ok in H as (sf & Hf & H). cbn [fst snd] in Hf, H. mv Hf Mf. destruct Mf as (Mf1 & Mf2 & Mf3 & _).
      destruct (expect_ref_stmt_spec f _ IH _ _ _ Mf2 ltac:(lia) H) as (Ke & (Mg1 & Mg2 & Mg3 & _)).
      split; [eapply kid_mono; [|exact Kt]; lia | eapply kid_mono; [|exact Ke]; lia].
    - split; [eapply kid_mono; [|exact Kt]; lia | exact I]. }
  (* while *)
  apply p_alt_ok in H as [H|[_ H]].
  { apply p_map_ok in H as ([[kw [lp [c [rp b]]]] inf] & H & ->).
    apply p_info_ok in H as (s1 & H & -> & Hinf). cbn [fst snd] in H, Hinf. subst inf.
    apply p_pair_ok in H as (sa & Ha & H). cbn [fst snd] in Ha, H. mv Ha Ma. destruct Ma as (Ma1 & Ma2 & Ma3 & _).
    apply p_pair_ok in H as (sb & Hb & H). cbn [fst snd] in Hb, H. mv Hb Mb. destruct Mb as (Mb1 & Mb2 & Mb3 & _).
    apply p_pair_ok in H as (sc & Hc & H). cbn [fst snd] in Hc, H. mv Hc Mc. destruct Mc as (Mc1 & Mc2 & Mc3 & _).
    apply p_pair_ok in H as (sd & Hd & H). cbn [fst snd] in Hd, H. mv Hd Md. destruct Md as (Md1 & Md2 & Md3 & _).
    cbn [pos refp set_ebuf] in *.
    destruct (expect_ref_stmt_spec f _ IH _ _ _ Md2 ltac:(lia) H) as (Kb & (Me1 & Me2 & Me3 & _)).
    cbn [stmt_info i_s i_e pos refp set_ebuf kids]. split; [reflexivity|]. split; [reflexivity|].
    eapply kid_mono; [|exact Kb]. lia. }
  (* block *)
  apply p_alt_ok in H as [H|[_ H]].
  { apply p_map_ok in H as ([[body rc] inf] & H & ->).
    apply p_info_ok in H as (s1 & H & -> & Hinf). cbn [fst snd] in H, Hinf. subst inf.
    unfold p_preceded in H. apply p_map_ok in H as ([lc [body' rc']] & H & [= <- <-]).
    apply p_pair_ok in H as (sa & Ha & H). cbn [fst snd] in Ha, H. mv Ha Ma. destruct Ma as (Ma1 & Ma2 & Ma3 & _).
    apply p_pair_ok in H as (sb & Hb & H). cbn [fst snd] in Hb, H.
    cbn [pos refp set_ebuf] in *.
    destruct (many0_ref_stmt_spec f f IH _ _ _ Ma2 ltac:(lia) Hb) as (Kb & (Mb1 & Mb2 & Mb3 & _)).
    mv H Mc. destruct Mc as (Mc1 & Mc2 & Mc3 & _).
    cbn [stmt_info i_s i_e pos refp set_ebuf kids fst snd]. split; [reflexivity|]. split; [reflexivity|].
    eapply Forall_impl; [|exact Kb]. intros co. apply child_wf_mono. lia. }
  (* call *)
  apply p_alt_ok in H as [H|[_ H]].
  { unfold p_call in H. apply p_map_ok in H as ([[name [args u]] inf] & H & ->).
    apply p_info_ok in H as (s1 & _ & -> & Hinf). cbn [fst snd] in Hinf. subst inf. now cbn. }
  (* assignment *)
  apply p_alt_ok in H as [H|[_ H]].
  { unfold p_assign in H. apply p_map_ok in H as ([[v [e u]] inf] & H & ->).
    apply p_info_ok in H as (s1 & _ & -> & Hinf). cbn [fst snd] in Hinf. subst inf. now cbn. }
  (* error *)
  apply p_restore_ok in H. apply p_map_ok in H as ([[cs ign] inf] & H & ->).
  apply p_info_ok in H as (s1 & _ & -> & Hinf). cbn [fst snd] in Hinf. subst inf. now cbn.
Qed.

(* the statements of a procedure declaration end inside the declaration *)
Lemma procdecl_stmts f s s' d :
  pos s <= N -> refp s <= pos s -> p_procdecl toks f s = POk s' d ->
  Forall (child_wf (i_e (pd_info d))) (pd_stmts d).
Proof.
  intros Hs Hr H. unfold p_procdecl in H. apply p_map_ok in H as (r & H & ->).
  destruct r as [[doc [kw [name [lp [params [rp [lc [vars [stmts rc]]]]]]]]] inf].
  apply p_info_ok in H as (s1 & H & -> & Hinf). cbn [fst snd] in H, Hinf. subst inf.
  apply p_pair_ok in H as (sa & Ha & H). cbn [fst snd] in Ha, H. mv Ha Ma. destruct Ma as (Ma1 & Ma2 & Ma3 & _).
  apply p_pair_ok in H as (sb & Hb & H). cbn [fst snd] in Hb, H. mv Hb Mb. destruct Mb as (Mb1 & Mb2 & Mb3 & _).
  apply p_pair_ok in H as (sc & Hc & H). cbn [fst snd] in Hc, H. mv Hc Mc. destruct Mc as (Mc1 & Mc2 & Mc3 & _).
  apply p_pair_ok in H as (sd & Hd & H). cbn [fst snd] in Hd, H. mv Hd Md. destruct Md as (Md1 & Md2 & Md3 & _).
  apply p_pair_ok in H as (se & He & H). cbn [fst snd] in He, H.
  assert (Me : Mv0 sd se).
  { refine (Fwd_ok toks sync_none _ sd se params _ Md2 He).
    apply Fwd_alt; [fwd_solve sync_none_ok|]. apply Fwd_list; [exact sync_none_ok|]. fwd_solve sync_none_ok. }
  destruct Me as (Me1 & Me2 & Me3 & _).
  apply p_pair_ok in H as (sf & Hf & H). cbn [fst snd] in Hf, H. mv Hf Mf. destruct Mf as (Mf1 & Mf2 & Mf3 & _).
  apply p_pair_ok in H as (sg & Hg & H). cbn [fst snd] in Hg, H. mv Hg Mg. destruct Mg as (Mg1 & Mg2 & Mg3 & _).
  apply p_pair_ok in H as (sh & Hh & H). cbn [fst snd] in Hh, H. mv Hh Mh. destruct Mh as (Mh1 & Mh2 & Mh3 & _).
  apply p_pair_ok in H as (si & Hi & H). cbn [fst snd] in Hi, H.
  cbn [pos refp set_ebuf] in *.
  destruct (many0_ref_stmt_spec f f (stmt_spec f) _ _ _ Mh2 ltac:(lia) Hi) as (K & (Mi1 & Mi2 & Mi3 & _)).
  mv H Mj. destruct Mj as (Mj1 & Mj2 & Mj3 & _).
  cbn [pd_stmts pd_info i_e]. eapply Forall_impl; [|exact K]. intros co. apply child_wf_mono. lia.
Qed.

End Stmts.

(* ------------------------------------------------------------------------------------------ *)
(* 1b. every procedure declaration of the tree `parse` returns                                 *)

Definition gstmts_ok (g : gdecl) : Prop :=
  match g with GProc pd => Forall (child_wf (i_e (pd_info pd))) (pd_stmts pd) | _ => True end.

Section Decls.
Variable toks : list token.
Notation N := (length toks).

Lemma gdecl_stmts f s s' g :
  pos s <= N -> refp s <= pos s -> p_gdecl toks f s = POk s' g -> gstmts_ok g.
Proof.
  intros Hs Hr H. unfold p_gdecl in H.
  apply p_alt_ok in H as [H|[_ H]]; [apply p_map_ok in H as (d & _ & ->); exact I|].
  apply p_alt_ok in H as [H|[_ H]].
  - apply p_map_ok in H as (d & H & ->). cbn [gstmts_ok]. exact (procdecl_stmts toks f s s' d Hs Hr H).
  - apply p_map_ok in H as ([ign inf] & _ & ->). exact I.
Qed.

Lemma many0_gdecl_stmts f fuel : forall s s' l,
  pos s <= N -> refp s <= pos s -> p_many0 fuel (p_ref (p_gdecl toks f)) s = POk s' l ->
  Forall (fun go : gdecl * nat => gstmts_ok (fst go)) l.
Proof.
  induction fuel as [|n IH]; intros s s' l Hs Hr H; cbn [p_many0] in H; [discriminate|].
  destruct (p_ref (p_gdecl toks f) s) as [s1 [g off]|e|] eqn:E1; [| injection H as _ <-; constructor | discriminate].
  destruct (Nat.eqb (pos s1) (pos s)); [discriminate|].
  apply bind_ok in H as (s2 & l2 & H2 & [= _ <-]).
  pose proof (Fwd_ok toks sync_none _ _ _ _ (Fwd_ref _ _ _ (Fwd0_gdecl toks f)) Hs E1) as (M1 & M2 & M3 & _).
  constructor; [|apply (IH _ _ _ M2 ltac:(lia) H2)].
  apply p_ref_ok in E1 as (s3 & E1 & _ & _). cbn [fst] in *.
  exact (gdecl_stmts f (set_refp s (pos s)) s3 g Hs (le_n _) E1).
Qed.

Theorem parse_gstmts prog : parse toks = Done prog -> Forall (fun go : gdecl * nat => gstmts_ok (fst go)) (pg_decls prog).
Proof.
  unfold parse.
  destruct (p_program toks (parse_fuel toks) {| pos := 0; refp := 0; ebuf := [] |}) as [s p|e|] eqn:E;
    [|discriminate|discriminate].
  intros [= <-]. unfold p_program in E. apply p_map_ok in E as ([[ds inf] u] & E & ->).
  apply p_pair_ok in E as (s1 & E & _). cbn [fst snd] in E.
  apply p_info_ok in E as (s2 & E & _ & _). cbn [fst] in E. cbn [pg_decls fst].
  apply (many0_gdecl_stmts _ _ (set_ebuf {| pos := 0; refp := 0; ebuf := [] |} []) _ _ (Nat.le_0_l _) (le_n _) E).
Qed.

(* with T5: the Prop form of [compl_wf_b] for the parser's tree *)
Lemma spans_cwf : forall l a b,
  Spans toks a l b -> b <= N -> Forall (fun go : gdecl * nat => gstmts_ok (fst go)) l -> Forall (decl_cwf toks) l.
Proof.
  induction l as [|[g off] r IH]; intros a b Hsp Hb Hg; [constructor|].
  cbn [Spans] in Hsp. destruct Hsp as (-> & Hs0 & Hpos & _ & Hr). pose proof (Spans_le toks _ _ _ Hr) as Hle.
  inversion Hg as [|? ? Hg1 Hg2]; subst. constructor; [|exact (IH _ _ Hr Hb Hg2)].
  unfold decl_cwf. cbn [fst snd] in *. repeat split; [exact Hs0 | exact Hpos | lia |].
  destruct g; exact Hg1 || exact I.
Qed.

Theorem parse_cwf prog : EofLast toks -> parse toks = Done prog -> Forall (decl_cwf toks) (pg_decls prog).
Proof.
  intros HE H. destruct (parse_sync toks prog HE H) as (Hsp & _ & Hsig).
  apply (spans_cwf _ 0 (i_e (pg_info prog)) Hsp); [|exact (parse_gstmts prog H)].
  pose proof (sig_at_ge toks (i_e (pg_info prog))). lia.
Qed.

End Decls.

(* ------------------------------------------------------------------------------------------ *)
(* 2. table construction and semantic analysis keep the predicate                              *)

From Spl Require Import Proofs.TypingProofs.

Section Analysis.
Variable L : option ltable.
Variable G : option gtable.

Definition same_range (a b : stmt) : Prop :=
  i_s (stmt_info a) = i_s (stmt_info b) /\ i_e (stmt_info a) = i_e (stmt_info b).

Definition AnP (s : stmt) : Prop :=
  forall s', an_stmt L G s = ROk s' -> same_range s' s /\ (stmt_wf s -> stmt_wf s').

Lemma wf_of_kids s s' : same_range s' s -> (kids s -> kids s') -> stmt_wf s -> stmt_wf s'.
Proof.
  intros [A B] K H. apply stmt_wf_split in H as (H1 & H2 & H3). apply stmt_wf_split. rewrite A, B. auto.
Qed.

Lemma an_opt_kid len o o' : opt_stmt_P AnP o -> an_opt L G o = ROk o' -> kid len o -> kid len o'.
Proof.
  destruct o as [[x off]|]; cbn [an_opt opt_stmt_P].
  - intros IH H K. destruct (an_stmt L G x) as [x'|] eqn:E; [|discriminate]. cbn [rbind] in H. injection H as <-.
    destruct (IH _ E) as [[A B] W]. cbn [kid] in *. destruct K as [K1 K2]. split; [lia | auto].
  - intros _ [= <-] _. exact I.
Qed.

Lemma an_stmts_wf len : forall l l',
  Forall (fun x : stmt * nat => AnP (fst x)) l -> an_stmts L G l = ROk l' ->
  Forall (child_wf len) l -> Forall (child_wf len) l'.
Proof.
  induction l as [|[x off] r IH]; intros l' HP H K; cbn [an_stmts] in H.
  - injection H as <-. constructor.
  - destruct (an_stmt L G x) as [x'|] eqn:E; [|discriminate]. cbn [rbind] in H.
    destruct (an_stmts L G r) as [r'|] eqn:Er; [|discriminate]. cbn [rbind] in H. injection H as <-.
    inversion HP as [|? ? HP1 HP2]; inversion K as [|? ? K1 K2]; subst.
    constructor; [|exact (IH _ HP2 eq_refl K2)].
    destruct (HP1 _ E) as [[A B] W]. unfold child_wf in *. cbn [fst snd] in *. split; [lia | tauto].
Qed.

Lemma assign_info_range inf a b : i_s (assign_info inf a b) = i_s inf /\ i_e (assign_info inf a b) = i_e inf.
Proof.
  unfold assign_info. destruct a, b; try (split; reflexivity).
  destruct (negb _); [split; reflexivity|]. destruct (negb _); split; reflexivity.
Qed.

Lemma call_info_range name n m inf : i_s (call_info name n m inf) = i_s inf /\ i_e (call_info name n m inf) = i_e inf.
Proof. unfold call_info. destruct (Nat.compare n m); split; reflexivity. Qed.

Lemma an_stmt_wf : forall s, AnP s.
Proof.
  induction s as [inf | v e inf | name args inf | c thn els inf IHt IHe | c b inf IHb | body inf IH | inf] using stmt_ind';
    intros s' H.
  - injection H as <-. split; [split; reflexivity | auto].
  - destruct e as [[e off]|]; [|injection H as <-; split; [split; reflexivity | auto]].
    rewrite an_stmt_assign in H.
    destruct (an_var L G v) as [[v' lty]|]; [|discriminate]. cbn [rbind] in H.
    destruct (an_expr L G e) as [[e' rty]|]; [|discriminate]. cbn [rbind] in H. injection H as <-.
    assert (R : same_range (SAssign v' (Some (e', off)) (assign_info inf lty rty)) (SAssign v (Some (e, off)) inf))
      by exact (assign_info_range inf lty rty).
    split; [exact R | apply (wf_of_kids _ _ R); auto].
  - rewrite an_stmt_call in H.
    destruct (lt_lookup L G (id_val name)) as [en|].
    + destruct en as [te|pe|ve|ve]; try (injection H as <-; split; [split; reflexivity | apply wf_of_kids; [split; reflexivity | auto]]).
      destruct (an_args L G (id_val name) 1 args (pe_params pe)) as [args'|]; [|discriminate]. cbn [rbind] in H.
      injection H as <-.
      assert (R : same_range (SCall name args' (call_info name (length args) (length (pe_params pe)) inf)) (SCall name args inf))
        by exact (call_info_range _ _ _ inf).
      split; [exact R | apply (wf_of_kids _ _ R); auto].
    + injection H as <-. split; [split; reflexivity | apply wf_of_kids; [split; reflexivity | auto]].
  - rewrite an_stmt_if in H.
    destruct (an_cond L G c IfConditionMustBeBoolean) as [c'|]; [|discriminate]. cbn [rbind] in H.
    destruct (an_opt L G thn) as [t'|] eqn:Et; [|discriminate]. cbn [rbind] in H.
    destruct (an_opt L G els) as [e'|] eqn:Ee; [|discriminate]. cbn [rbind] in H. injection H as <-.
    split; [split; reflexivity|]. apply wf_of_kids; [split; reflexivity|]. cbn [kids].
    intros [K1 K2]. split; [exact (an_opt_kid _ _ _ IHt Et K1) | exact (an_opt_kid _ _ _ IHe Ee K2)].
  - rewrite an_stmt_while in H.
    destruct (an_cond L G c WhileConditionMustBeBoolean) as [c'|]; [|discriminate]. cbn [rbind] in H.
    destruct (an_opt L G b) as [b'|] eqn:Eb; [|discriminate]. cbn [rbind] in H. injection H as <-.
    split; [split; reflexivity|]. apply wf_of_kids; [split; reflexivity|]. cbn [kids].
    intros K. exact (an_opt_kid _ _ _ IHb Eb K).
  - rewrite an_stmt_block in H.
    destruct (an_stmts L G body) as [body'|] eqn:Eb; [|discriminate]. cbn [rbind] in H. injection H as <-.
    split; [split; reflexivity|]. apply wf_of_kids; [split; reflexivity|]. cbn [kids].
    intros K. exact (an_stmts_wf _ _ _ IH Eb K).
  - injection H as <-. split; [split; reflexivity | auto].
Qed.

Lemma an_stmts_children len l l' :
  an_stmts L G l = ROk l' -> Forall (child_wf len) l -> Forall (child_wf len) l'.
Proof.
  intros H. apply (an_stmts_wf len l l'); [|exact H].
  apply Forall_forall. intros x _. apply an_stmt_wf.
Qed.

End Analysis.

Lemma build_procdecl_keeps d t off d' t' :
  build_procdecl d t off = ROk (d', t') -> pd_info d' = pd_info d /\ pd_stmts d' = pd_stmts d.
Proof.
  unfold build_procdecl. destruct (pd_name d) as [name|]; [|intros [= <- _]; split; reflexivity].
  destruct (build_parameters _ _ _ _) as [[[ps local1] parameters]|]; cbn [rbind]; [|discriminate].
  destruct (build_variables _ _ _ _) as [[vs local2]|]; cbn [rbind]; [|discriminate].
  destruct (enter _ _ _) as [table2 ok].
  destruct (if ok then _ else _) as [name'|]; cbn [rbind]; [|discriminate].
  intros [= <- _]. split; reflexivity.
Qed.

Lemma build_typedecl_info d t off d' t' : build_typedecl d t off = ROk (d', t') -> td_info d' = td_info d.
Proof.
  unfold build_typedecl. destruct (td_name d) as [name|]; [|intros [= <- _]; reflexivity].
  destruct (text_eqb (id_val name) s_main).
  - destruct (ident_flag name _) as [name'|]; cbn [rbind]; [|discriminate]. intros [= <- _]. reflexivity.
  - destruct (get_data_type _ _ _ _) as [[ty' dt]|]; cbn [rbind]; [|discriminate].
    destruct (enter _ _ _) as [table' ok].
    destruct (if ok then _ else _) as [name'|]; cbn [rbind]; [|discriminate]. intros [= <- _]. reflexivity.
Qed.

Lemma build_gdecl_cwf toks g t off0 g' t' off :
  build_gdecl g t off0 = ROk (g', t') -> decl_cwf toks (g, off) -> decl_cwf toks (g', off).
Proof.
  unfold decl_cwf. cbn [fst snd]. destruct g as [td|pd|inf]; cbn [build_gdecl].
  - destruct (build_typedecl td t off0) as [[td' t1]|] eqn:E; cbn [rbind]; [|discriminate]. intros [= <- _].
    cbn [gdecl_info]. now rewrite (build_typedecl_info _ _ _ _ _ E).
  - destruct (build_procdecl pd t off0) as [[pd' t1]|] eqn:E; cbn [rbind]; [|discriminate]. intros [= <- _].
    cbn [gdecl_info]. destruct (build_procdecl_keeps _ _ _ _ _ E) as [-> ->]. auto.
  - intros [= <- _]. auto.
Qed.

Lemma build_gdecls_cwf toks : forall ds t off ds' t',
  build_gdecls ds t off = ROk (ds', t') -> Forall (decl_cwf toks) ds -> Forall (decl_cwf toks) ds'.
Proof.
  induction ds as [|[g o] ds IH]; intros t off ds' t' H K; cbn [build_gdecls] in H.
  - injection H as <- _. constructor.
  - destruct (build_gdecl g t (off + o)) as [[g' t1]|] eqn:Eg; cbn [rbind] in H; [|discriminate].
    destruct (build_gdecls ds t1 off) as [[r' t2]|] eqn:Er; cbn [rbind] in H; [|discriminate].
    injection H as <- _. inversion K as [|? ? K1 K2]; subst.
    constructor; [exact (build_gdecl_cwf toks _ _ _ _ _ _ Eg K1) | exact (IH _ _ _ _ Er K2)].
Qed.

Lemma build_res_cwf toks p p1 table :
  build_res p = ROk (p1, table) -> Forall (decl_cwf toks) (pg_decls p) -> Forall (decl_cwf toks) (pg_decls p1).
Proof.
  unfold build_res, build_program.
  destruct (build_gdecls (pg_decls p) initialized 0) as [[ds' table']|] eqn:E; cbn [rbind]; [|discriminate].
  intros H K. pose proof (build_gdecls_cwf toks _ _ _ _ _ E K) as Hr.
  destruct (lookup table' s_main) as [[te|main]|].
  - discriminate.
  - destruct (pe_params main).
    + injection H as <- _. exact Hr.
    + destruct (to_error _ _); cbn [rbind] in H; [|discriminate]. injection H as <- _. exact Hr.
  - injection H as <- _. exact Hr.
Qed.

Lemma analyze_gdecl_cwf toks table x x' :
  analyze_gdecl table x = ROk x' -> decl_cwf toks x -> decl_cwf toks x'.
Proof.
  destruct x as [g off]. unfold analyze_gdecl.
  destruct g as [td|pd|inf]; try (intros [= <-]; auto).
  destruct (pd_name pd) as [name|]; [|intros [= <-]; auto].
  destruct (lookup table (id_val name)) as [[te|pe]|]; try discriminate; try (intros [= <-]; auto).
  destruct (negb _); [intros [= <-]; auto|].
  destruct (an_stmts _ _ _) as [stmts'|] eqn:E; cbn [rbind]; [|discriminate]. intros [= <-].
  unfold decl_cwf. cbn [fst snd gdecl_info pd_info pd_stmts]. intros (A & B & C & D).
  repeat split; try assumption. exact (an_stmts_children _ _ _ _ _ E D).
Qed.

Lemma analyze_gdecls_cwf toks table : forall ds ds',
  analyze_gdecls table ds = ROk ds' -> Forall (decl_cwf toks) ds -> Forall (decl_cwf toks) ds'.
Proof.
  induction ds as [|x ds IH]; intros ds' H K; cbn [analyze_gdecls] in H.
  - injection H as <-. constructor.
  - destruct (analyze_gdecl table x) as [x'|] eqn:Ex; cbn [rbind] in H; [|discriminate].
    destruct (analyze_gdecls table ds) as [r'|] eqn:Er; cbn [rbind] in H; [|discriminate].
    injection H as <-. inversion K as [|? ? K1 K2]; subst.
    constructor; [exact (analyze_gdecl_cwf toks _ _ _ Ex K1) | exact (IH _ eq_refl K2)].
Qed.

(* ------------------------------------------------------------------------------------------ *)
(* 3. every document of AnalyzedSource::new                                                    *)

Theorem new_doc_compl_wf_prop t d : new_doc_res t = ODone d -> compl_wf d.
Proof.
  intros H. destruct (new_doc_shape t d H) as (_ & _ & HE & _ & p & p1 & Hp & Hb & Ha).
  unfold compl_wf. unfold analyze_res in Ha.
  destruct (analyze_gdecls (d_table d) (pg_decls p1)) as [ds'|] eqn:E; cbn [rbind] in Ha; [|discriminate].
  injection Ha as Ha. rewrite <- Ha. cbn [pg_decls].
  apply (analyze_gdecls_cwf _ _ _ _ E). apply (build_res_cwf _ _ _ _ Hb). exact (parse_cwf _ _ HE Hp).
Qed.

(* the Prop predicate gives the boolean one back *)
Lemma kid_reflect n (o : option (stmt * nat)) :
  opt_stmt_P (fun s => stmt_wf s -> stmt_wf_b s = true) o ->
  match o with Some (c, off) => off + i_e (stmt_info c) <= n /\ stmt_wf c | None => True end ->
  match o with Some (c, off) => Nat.leb (off + i_e (stmt_info c)) n && stmt_wf_b c | None => true end = true.
Proof.
  destruct o as [[c off]|]; [|reflexivity]. cbn [opt_stmt_P]. intros IH [H1 H2].
  apply andb_true_iff. split; [now apply Nat.leb_le | exact (IH H2)].
Qed.

Lemma stmt_wf_b_complete : forall s, stmt_wf s -> stmt_wf_b s = true.
Proof.
  induction s as [inf | v e inf | name args inf | c thn els inf IHt IHe | c b inf IHb | body inf IH | inf] using stmt_ind';
    cbn [stmt_wf_b stmt_wf stmt_info]; intros (H1 & H2 & H3); rewrite H1; cbn [Nat.eqb andb];
    rewrite (proj2 (Nat.ltb_lt 0 _) H2); cbn [andb]; try reflexivity.
  - destruct H3 as [Ht He]. rewrite (kid_reflect _ thn IHt Ht), (kid_reflect _ els IHe He). reflexivity.
  - exact (kid_reflect _ b IHb H3).
  - revert H3. induction body as [|[x o] r IHr]; intros H3; [reflexivity|].
    inversion IH as [|? ? Hx Hr]; subst. cbn [fst] in Hx. destruct H3 as [[Ha Hb] Hc].
    rewrite (proj2 (Nat.leb_le _ _) Ha), (Hx Hb), (IHr Hr Hc). reflexivity.
Qed.

Lemma compl_wf_complete d : compl_wf d -> compl_wf_b d = true.
Proof.
  unfold compl_wf_b, compl_wf. rewrite forallb_forall, Forall_forall. intros H go Hin. specialize (H go Hin).
  unfold decl_cwf in H. destruct H as (H1 & H2 & H3 & H4). unfold decl_cwf_b.
  rewrite H1. cbn [Nat.eqb andb]. rewrite (proj2 (Nat.ltb_lt 0 _) H2), (proj2 (Nat.leb_le _ _) H3). cbn [andb].
  destruct (fst go) as [td | pd | inf]; try reflexivity.
  apply forallb_forall. intros co Hco. rewrite Forall_forall in H4. destruct (H4 co Hco) as [Ha Hb].
  unfold child_wf_b. rewrite (proj2 (Nat.leb_le _ _) Ha), (stmt_wf_b_complete _ Hb). reflexivity.
Qed.

Theorem new_doc_compl_wf t d : new_doc_res t = ODone d -> compl_wf_b d = true.
Proof. intros H. exact (compl_wf_complete d (new_doc_compl_wf_prop t d H)). Qed.

(* completion answers on every freshly analysed document, at every position *)
Theorem new_doc_propose_total t d line col : new_doc_res t = ODone d -> exists r, propose d line col = ROk r.
Proof. intros H. exact (propose_total d line col (new_doc_compl_wf_prop t d H)). Qed.
