(* COMPLETENESS of the parser: declarations, program, `parse`.

     parse_complete : LitOk toks -> parse toks = Done prog -> tree_errors prog = [] ->
                      exists p, prog_ok p = true /\ map tk toks = flatten p ++ [Eof] /\ prog = expected p

   A token vector whose parse carries no diagnostic is the token sequence of an abstract program
   (it is derivable in the grammar of Spec/Grammar.v), the tree is the one the grammar mandates, and
   the dangling-else discipline holds.  [LitOk]: no literal token is an out-of-range integer (such a
   token carries a lexical error, which errors() does not report: see CompleteFront.v). *)
From Coq Require Import Arith Lia List Bool.
From Spl Require Import Spec.Grammar Model.Parser Model.Errors Proofs.ParserComb Proofs.GrammarBase
  Proofs.GrammarExpr Proofs.GrammarStmt Proofs.CompleteBase Proofs.CompleteExpr Proofs.CompleteStmt.
Import ListNotations.
Local Open Scope nat_scope.

Ltac spec2 :=
  lazymatch goal with
  | |- Grow _ => grow_solve
  | |- CompleteBase.Spec _ (p_pair _ _) _ _ => apply Spec_pair; spec2
  | |- CompleteBase.Spec _ (p_expect _ _) _ _ => apply Spec_expect; spec2
  | |- CompleteBase.Spec _ (p_alt _ _) _ _ => apply Spec_alt; spec2
  | |- CompleteBase.Spec _ (p_confusable _ _) _ _ => apply Spec_confusable
  | |- CompleteBase.Spec _ (p_tag _ _) _ _ => apply Spec_tag'
  | |- CompleteBase.Spec _ (p_ref _) _ _ => apply Spec_ref; spec2
  | |- CompleteBase.Spec _ (p_info _) _ _ => apply Spec_info; spec2
  | |- CompleteBase.Spec _ (p_ident _) _ _ => apply Spec_ident'
  | |- CompleteBase.Spec _ (p_comments _) _ _ => apply Spec_comments'
  | |- CompleteBase.Spec _ (p_many0 _ _) _ _ => apply Spec_many0; spec2
  | |- CompleteBase.Spec _ (p_peek_la _) _ _ => apply Spec_peek
  | |- _ => first [eassumption | idtac]
  end.

(* sequences of References *)
Section Items.
Context {A B : Type} (x0 : A -> B) (fl : A -> list kind) (P : A -> bool) (Q : nat -> nat -> B -> list kind -> Prop).
Hypothesis HQ : forall k b l, Q k k b l -> exists a, b = x0 a /\ l = fl a /\ P a = true.

Fixpoint x_items (o : nat) (l : list A) : list (B * nat) :=
  match l with [] => [] | a :: r => (x0 a, o) :: x_items (o + len (fl a)) r end.

Lemma items_many k1 r items l :
  Many (fun k r (ao : B * nat) l => snd ao = k - r /\ Q k k (fst ao) l) k1 r items l -> r <= k1 ->
  exists l', items = x_items (k1 - r) l' /\ l = flat_map fl l' /\ forallb P l' = true.
Proof.
  intros HM. induction HM as [k1 r|k1 r [b off] la l1 l2 (Hoff & Hb) _ IH]; intros Hr.
  - exists []. repeat split.
  - destruct (IH ltac:(lia)) as (l' & -> & -> & Hl'). cbn [fst snd] in *. apply HQ in Hb as (a & -> & -> & Ha).
    exists (a :: l'). cbn [x_items flat_map forallb]. rewrite Ha, Hl'. repeat split. subst. f_equal. f_equal. lia.
Qed.
End Items.

Lemma x_vardecls_items o vs : x_vardecls o vs = x_items x_vardecl fl_vardecl o vs.
Proof. revert o; induction vs as [|v vs IH]; intros o; cbn; [reflexivity | now rewrite IH]. Qed.
Lemma x_decls_items o ds : x_decls o ds = x_items x_decl fl_decl o ds.
Proof. revert o; induction ds as [|d ds IH]; intros o; cbn; [reflexivity | now rewrite IH]. Qed.

Section Prog.
Variable toks : list token.
Hypothesis HL : LitOk toks.
Notation Spec := (Spec toks).

Lemma opt_texpr_nil (c : option (typeexpr * nat)) : opt_texpr_errors c = [] -> forall a, c = Some a -> NoErr texpr_errors (fst a).
Proof. intros H [e off] ->. cbn in H. now apply shift_es_nil in H. Qed.

(* ---- variable declarations ---- *)
Definition VQ (k r : nat) (res : vardecl) (l : list kind) : Prop := k = r -> exists v, res = x_vardecl v /\ l = fl_vardecl v.

Lemma vardecl_spec f : Spec (p_vardecl toks f) (NoErr vardecl_errors) VQ.
Proof.
  pose proof (type_inv toks HL f) as Htype. unfold TypeInv in Htype.
  unfold p_vardecl. apply Spec_alt.
  - eapply Spec_map.
    + spec2.
    + intros [[doc [t1 [name [t2 [ty t3]]]]] inf] H. unfold NoErr in H. cbn [vardecl_errors] in H.
      apply app_nil_inv in H as [H1 H]. apply app_nil_inv in H as [H2 H3].
      cbn [fst snd]. split; [exact H1|]. repeat split; try (intros ? _; exact I). now apply opt_texpr_nil.
    + intros k r [[doc [t1 [name [t2 [ty t3]]]]] inf] l Hr _
        (Hinf & l0 & l0' & -> & (-> & Hcm) & l1 & l1' & -> & (c1 & -> & Hk1 & Hc1) &
         l2 & l2' & -> & (i & Hi & c2 & x & Hx & -> & _) & l3 & l3' & -> & (t2' & Ht2 & c3 & -> & Hk2 & _) &
         l4 & l4' & -> & ([te ote] & Hty & Hote & at_ & Hxt & ->) & (t3' & Ht3 & c4 & -> & Hk3 & _)) Hkr.
      cbn [fst snd] in *. rewrite cm_length, Hcm in Hc1. subst. apply is_k_eq in Hk1, Hk2, Hk3. rewrite Hk1, Hk2, Hk3.
      rewrite !Nat.sub_diag.
      exists {| v_c1 := doc; v_c2 := c2; v_x := x; v_c3 := c3; v_t := at_; v_c4 := c4 |}.
      unfold x_vardecl, fl_vardecl. cbn [v_c1 v_c2 v_x v_c3 v_t v_c4 cm map app]. split.
      * f_equal; [f_equal; f_equal; lens; lia | f_equal; f_equal; lens; lia | unfold mkinfo; f_equal; lens; lia].
      * repeat (rewrite <- !app_assoc; cbn [app]). reflexivity.
  - apply Spec_map_absurd. intros [ig inf] H. unfold NoErr in H. cbn [vardecl_errors snd] in H.
    exact (info_append_nil _ _ H).
Qed.

(* ---- parameter declarations ---- *)
Definition PQ (k r : nat) (res : paramdecl) (l : list kind) : Prop := k = r -> exists p, res = x_param p /\ l = fl_param p.

Definition name_Q (k r : nat) (rn : bool * option ident) (l : list kind) : Prop :=
  (exists c0 c x, rn = (true, Some (x_ident (k - r + len c0 + 1) c x)) /\ l = cm c0 ++ KRef :: cm c ++ [Ident x]
                  /\ c0 = comments_at toks k) \/
  (exists c x, rn = (false, Some (x_ident (k - r) c x)) /\ l = cm c ++ [Ident x] /\ c = comments_at toks k).

Lemma paramdecl_spec f : Spec (p_paramdecl toks f) (NoErr paramdecl_errors) PQ.
Proof.
  pose proof (type_inv toks HL f) as Htype. unfold TypeInv in Htype.
  unfold p_paramdecl. apply Spec_alt.
  - eapply Spec_map.
    + apply Spec_info. apply Spec_pair; [apply Spec_comments'| | |].
      * apply Spec_pair; [apply Spec_alt with (C := CTrue) (Q := name_Q) | spec2 | |].
        -- eapply Spec_map; [spec2 | intros [t oi] _; cbn [fst snd]; split; [exact I | intros ? _; exact I] |].
           intros k r [t oi] l Hr _ (l1 & l2 & -> & (c0 & -> & Hk & Hc0) & (i & Hi & c & x & Hx & -> & _)).
           cbn [fst snd] in *. subst. apply is_k_eq in Hk. rewrite Hk. left. exists (comments_at toks k), c, x.
           repeat split; [f_equal; f_equal; f_equal; lens; lia | now rewrite <- !app_assoc].
        -- eapply Spec_map; [apply Spec_ident' | intros; exact I |].
           intros k r i l Hr _ (c & x & -> & -> & Hc). right. exists c, x. auto.
        -- grow_solve.
        -- grow_solve.
      * grow_solve.
      * grow_solve.
    + intros [[doc [rn [t1 [ty u]]]] inf] H. unfold NoErr in H. cbn [paramdecl_errors] in H.
      apply app_nil_inv in H as [H1 H]. apply app_nil_inv in H as [H2 H3].
      cbn [fst snd]. split; [exact H1|]. repeat split; try (intros ? _; exact I). now apply opt_texpr_nil.
    + intros k r [[doc [rn [t1 [ty u]]]] inf] l Hr _
        (Hinf & l0 & l0' & -> & (-> & Hcm) & l1 & l1' & -> & Hname &
         l2 & l2' & -> & (t1' & Ht1 & c2 & -> & Hk1 & _) &
         l3 & l3' & -> & ([te ote] & Hty & Hote & at_ & Hxt & ->) & ->) Hkr.
      cbn [fst snd] in *. rewrite cm_length in Hname. subst. apply is_k_eq in Hk1. rewrite Hk1. rewrite !Nat.sub_diag.
      destruct Hname as [(c0 & c & x & -> & -> & Hc0)|(c & x & -> & -> & Hc)].
      * rewrite Hcm in Hc0. subst c0. exists (PRef doc c x c2 at_). cbn [x_param fl_param fst snd cm map app]. split.
        -- f_equal; [f_equal; f_equal; lens; lia | f_equal; f_equal; lens; lia | unfold mkinfo; f_equal; lens; lia].
        -- repeat (rewrite <- !app_assoc; cbn [app]). now rewrite app_nil_r.
      * rewrite Hcm in Hc. subst c. exists (PVal doc x c2 at_). cbn [x_param fl_param fst snd cm map app]. split.
        -- f_equal; [f_equal; f_equal; lens; lia | f_equal; f_equal; lens; lia | unfold mkinfo; f_equal; lens; lia].
        -- repeat (rewrite <- !app_assoc; cbn [app]). now rewrite app_nil_r.
  - apply Spec_map_absurd. intros [ig inf] H. unfold NoErr in H. cbn [paramdecl_errors snd] in H.
    exact (info_append_nil _ _ H).
Qed.

(* ---- type declarations ---- *)
Definition GQ (k r : nat) (res : gdecl) (l : list kind) : Prop :=
  k = r -> exists d, res = x_decl d /\ l = fl_decl d /\ decl_ok d = true.

Lemma typedecl_spec f : Spec (p_map GType (p_typedecl toks f)) (NoErr gdecl_errors) GQ.
Proof.
  pose proof (type_inv toks HL f) as Htype. unfold TypeInv in Htype.
  unfold p_typedecl. eapply Spec_map; [eapply Spec_map; [spec2 | |]| |].
  3:{ intros a H. exact H. }
  3:{ intros k r a l _ _ H. exact H. }
  - intros [[doc [t1 [name [t2 [ty t3]]]]] inf] H. unfold NoErr in H. cbn [gdecl_errors typedecl_errors td_info td_name td_ty] in H.
    apply app_nil_inv in H as [H1 H]. apply app_nil_inv in H as [H2 H3].
    cbn [fst snd]. split; [exact H1|]. repeat split; try (intros ? _; exact I). now apply opt_texpr_nil.
  - intros k r [[doc [t1 [name [t2 [ty t3]]]]] inf] l Hr _
      (Hinf & l0 & l0' & -> & (-> & Hcm) & l1 & l1' & -> & (c1 & -> & Hk1 & Hc1) &
       l2 & l2' & -> & (i & Hi & c2 & x & Hx & -> & _) & l3 & l3' & -> & (t2' & Ht2 & c3 & -> & Hk2 & _) &
       l4 & l4' & -> & ([te ote] & Hty & Hote & at_ & Hxt & ->) & (t3' & Ht3 & c4 & -> & Hk3 & _)) Hkr.
    cbn [fst snd] in *. rewrite cm_length, Hcm in Hc1. subst. apply is_k_eq in Hk1, Hk2, Hk3. rewrite Hk1, Hk2, Hk3.
    rewrite !Nat.sub_diag. exists (DType doc c2 x c3 at_ c4). cbn [x_decl fl_decl decl_ok cm map app]. split; [|split; [|reflexivity]].
    + f_equal. f_equal; [f_equal; f_equal; lens; lia | f_equal; f_equal; lens; lia | unfold mkinfo; f_equal; lens; lia].
    + repeat (rewrite <- !app_assoc; cbn [app]). reflexivity.
Qed.

(* ---- procedure declarations ---- *)
Lemma PQ_diag k b l : PQ k k b l -> exists a, b = x_param a /\ l = fl_param a.
Proof. intros H. exact (H eq_refl). Qed.
Lemma VQ_diag k b l : VQ k k b l -> exists a, b = x_vardecl a /\ l = fl_vardecl a /\ (fun _ => true) a = true.
Proof. intros H. destruct (H eq_refl) as (a & H1 & H2). eauto. Qed.

Lemma procdecl_spec f : Spec (p_map GProc (p_procdecl toks f)) (NoErr gdecl_errors) GQ.
Proof.
  pose proof (stmt_inv toks HL f) as Hstmt. unfold StmtInv in Hstmt.
  pose proof (vardecl_spec f) as Hvar.
  unfold p_procdecl. eapply Spec_map; [eapply Spec_map|intros a H; exact H|intros k r a l _ _ H; exact H].
  - apply Spec_info. apply Spec_pair; [apply Spec_comments'| | |]; [|grow_solve|grow_solve].
    apply Spec_pair; [apply Spec_tag'| | |]; [|grow_solve|grow_solve].
    apply Spec_pair; [spec2| | |]; [|grow_solve|grow_solve].
    apply Spec_pair; [spec2| | |]; [|grow_solve|grow_solve].
    apply Spec_pair; [|spec2| |]; [|grow_solve|grow_solve].
    apply Spec_alt.
    + eapply Spec_map with (C' := Forall (fun ao : paramdecl * nat => NoErr paramdecl_errors (fst ao)))
        (Q' := fun k r (items : list (paramdecl * nat)) l => r <= k -> exists a, items = x_sep fl_param x_param (k - r) a /\ l = fl_sep fl_param a);
        [apply Spec_peek | intros; exact I|].
      intros k r a l _ _ -> _. exists None. split; reflexivity.
    + eapply Spec_conseq; [apply (list_spec toks f _ _ _ (paramdecl_spec f)); grow_solve | intros a H; exact H|].
      intros k r a l Hr _ H _. destruct (sep_conv _ _ _ PQ_diag _ _ _ _ H Hr) as (x & H1 & H2). exists (Some x). auto.
  - intros [[doc [t1 [name [t2 [params [t3 [t4 [vars [stmts t5]]]]]]]]] inf] H. unfold NoErr in H.
    cbn [gdecl_errors procdecl_errors pd_info pd_name pd_params pd_vars pd_stmts] in H.
    apply app_nil_inv in H as [H1 H]. apply app_nil_inv in H as [H2 H]. apply app_nil_inv in H as [H3 H].
    apply app_nil_inv in H as [H4 H5]. apply refs_nil in H3, H4, H5.
    cbn [fst snd]. split; [exact H1|]. repeat split; try (intros ? _; exact I); assumption.
  - intros k r [[doc [t1 [name [t2 [params [t3 [t4 [vars [stmts t5]]]]]]]]] inf] l Hr _
      (Hinf & l0 & l0' & -> & (-> & Hcm) & l1 & l1' & -> & (c1 & -> & Hk1 & Hc1) &
       l2 & l2' & -> & (i & Hi & c2 & x & Hx & -> & _) & l3 & l3' & -> & (t2' & Ht2 & c3 & -> & Hk2 & _) &
       l4 & l4' & -> & Hps & l5 & l5' & -> & (t3' & Ht3 & c4 & -> & Hk3 & _) &
       l6 & l6' & -> & (t4' & Ht4 & c5 & -> & Hk4 & _) & l7 & l7' & -> & HMv & l8 & l8' & -> & HMs &
       (t5' & Ht5 & c6 & -> & Hk5 & _)) Hkr.
    cbn [fst snd] in *. rewrite cm_length, Hcm in Hc1. subst. apply is_k_eq in Hk1, Hk2, Hk3, Hk4, Hk5.
    rewrite Hk1, Hk2, Hk3, Hk4, Hk5.
    destruct (Hps ltac:(lia)) as (ps & -> & ->).
    destruct (items_many x_vardecl fl_vardecl (fun _ => true) VQ VQ_diag _ _ _ _ HMv ltac:(lia)) as (vs & -> & -> & _).
    destruct (stmts_many toks _ _ _ _ HMs ltac:(lia)) as (b & -> & -> & Hb).
    rewrite !Nat.sub_diag. exists (DProc doc c2 x c3 ps c4 c5 vs b c6). cbn [x_decl fl_decl decl_ok cm map app].
    split; [|split; [|exact Hb]].
    + f_equal. rewrite <- x_vardecls_items.
      f_equal; [f_equal; f_equal; lens; lia | f_equal; lens; lia | f_equal; lens; lia | f_equal; lens; lia | unfold mkinfo; f_equal; lens; lia].
    + repeat (rewrite <- !app_assoc; cbn [app]). reflexivity.
Qed.

Lemma gdecl_spec f : Spec (p_gdecl toks f) (NoErr gdecl_errors) GQ.
Proof.
  unfold p_gdecl. apply Spec_alt; [apply typedecl_spec | apply Spec_alt; [apply procdecl_spec|]].
  apply Spec_map_absurd. intros [ig inf] H. unfold NoErr in H. cbn [gdecl_errors] in H.
  exact (info_append_nil _ _ H).
Qed.

(* ---- the program ---- *)
Lemma GQ_diag k b l : GQ k k b l -> exists a, b = x_decl a /\ l = fl_decl a /\ decl_ok a = true.
Proof. intros H. exact (H eq_refl). Qed.

Lemma eof_spec :
  Spec (p_eof_all toks) CTrue (fun k r _ l => exists c, l = cm c ++ [Eof] /\ length toks <= k + len l).
Proof.
  intros s s' u H Hr Hb _. unfold p_eof_all in H. apply bind_ok in H as (s1 & t & H1 & H2).
  destruct (Nat.ltb (pos s1) (length toks)) eqn:E; [discriminate|]. injection H2 as <- <-. apply Nat.ltb_ge in E.
  apply tag_inv in H1 as (Hk & S1 & P1 & R1 & _). apply is_k_eq in Hk. rewrite Hk in S1.
  exists (cm (comments_at toks (pos s)) ++ [Eof]). rewrite app_length, cm_length. cbn [length].
  repeat split; [exact S1 | lia | exact R1 |]. exists (comments_at toks (pos s)). split; [reflexivity | lia].
Qed.

Lemma Grow_eof_all : Grow (p_eof_all toks).
Proof.
  unfold p_eof_all. apply Grow_bind; [apply Grow_tag|]. intros t s. destruct (Nat.ltb (pos s) (length toks)); cbn; lia.
Qed.

Lemma Grow_gdecl f : Grow (p_gdecl toks f).
Proof. unfold p_gdecl, p_typedecl, p_procdecl. grow_solve. Qed.

Definition ProgQ (k r : nat) (res : program) (l : list kind) : Prop :=
  k = r -> exists p, res = expected p /\ l = flatten p ++ [Eof] /\ prog_ok p = true /\ length toks <= k + len l.

Lemma program_spec f : Spec (p_program toks f) (NoErr tree_errors) ProgQ.
Proof.
  unfold p_program. eapply Spec_map.
  - apply Spec_pair; [apply Spec_info, Spec_many0; [apply Spec_ref, gdecl_spec|] | apply eof_spec | |].
    + apply Grow_ref, Grow_gdecl.
    + apply Grow_info.
    + apply Grow_eof_all.
  - intros [[ds inf] u] H. unfold NoErr, tree_errors in H. cbn [pg_info pg_decls fst snd] in H.
    apply app_nil_inv in H as [H1 H2]. apply refs_nil in H2. cbn [fst snd]. split; [split; assumption | exact I].
  - intros k r [[ds inf] u] l Hr _ (l1 & l2 & -> & (Hinf & HM) & (c & -> & Hlen)) Hkr. cbn [fst snd] in *. subst r.
    destruct (items_many x_decl fl_decl decl_ok GQ GQ_diag _ _ _ _ HM (le_n _)) as (dl & -> & -> & Hok).
    exists {| a_decls := dl; a_ceof := c |}. unfold expected, flatten, prog_ok. cbn [a_decls a_ceof].
    rewrite Nat.sub_diag in *. split; [|split; [|split; [exact Hok|]]].
    + rewrite <- x_decls_items. f_equal. subst inf. unfold mkinfo. f_equal. lia.
    + now rewrite <- !app_assoc.
    + rewrite app_length. lia.
Qed.

Theorem parse_complete prog :
  parse toks = Done prog -> tree_errors prog = [] ->
  exists p, prog_ok p = true /\ map tk toks = flatten p ++ [Eof] /\ prog = expected p.
Proof.
  unfold parse. set (s0 := {| pos := 0; refp := 0; ebuf := [] |}).
  destruct (p_program toks (parse_fuel toks) s0) as [s' p| |] eqn:E; try discriminate. intros [= ->] He.
  assert (Hb : eb s' <= eb s0).
  { unfold p_program in E. apply p_map_ok in E as (ab & E & _). apply p_pair_ok in E as (s1 & E1 & E2).
    apply p_info_ok in E1 as (s2 & _ & -> & _). unfold p_eof_all in E2. apply bind_ok in E2 as (s3 & t & E2 & E3).
    destruct (Nat.ltb (pos s3) (length toks)); [discriminate|]. injection E3 as <- _.
    apply tag_inv in E2 as (_ & _ & _ & _ & Hbuf). unfold eb. rewrite Hbuf. cbn. lia. }
  destruct (program_spec _ _ _ _ E (le_n _) Hb He) as (l & [rest Hseg] & Hp & _ & HQ).
  destruct (HQ eq_refl) as (a & -> & -> & Hok & Hlen). exists a. split; [exact Hok|]. split; [|reflexivity].
  cbn [pos s0 skipn] in *. assert (Hl : len (map tk toks) = len ((flatten a ++ [Eof]) ++ rest)) by now rewrite Hseg.
  rewrite map_length, app_length in Hl. destruct rest as [|x rest]; [now rewrite app_nil_r in Hseg|].
  cbn [length] in Hl. lia.
Qed.
End Prog.

Print Assumptions parse_complete.
