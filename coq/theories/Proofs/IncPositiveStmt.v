(* C01, positive part (4b/4): arguments and statements with an old node. *)
From Coq Require Import List Arith Lia.
From Spl Require Import Model.ParserInc Model.Errors Proofs.ParserComb Proofs.ParserFwd Proofs.UpdateDocProofsSim
  Proofs.UpdateDocProofsStrip
  Proofs.IncPositiveMono Proofs.IncPositiveSim Proofs.IncPositiveList Proofs.IncPositiveExpr Proofs.IncPositiveRng
  Proofs.IncPositiveTree.
Import ListNotations.
Local Open Scope nat_scope.

Lemma strip_expr_rng e : i_s (expr_info (strip_expr e)) = i_s (expr_info e) /\ i_e (expr_info (strip_expr e)) = i_e (expr_info e).
Proof. destruct e; try (split; reflexivity). cbn [strip_expr expr_info]. destruct v; split; reflexivity. Qed.

Lemma strip_stmt_rng t : i_s (stmt_info (strip_stmt t)) = i_s (stmt_info t) /\ i_e (stmt_info (strip_stmt t)) = i_e (stmt_info t).
Proof. destruct t; split; reflexivity. Qed.

Definition RS (th t : stmt) : Prop := t = strip_stmt th /\ stmt_errors t = [].

Lemma stmt_block_errors body inf :
  stmt_errors (SBlock body inf) = i_errs inf ++ flat_map (fun x => shift_es (snd x) (stmt_errors (fst x))) body.
Proof.
  cbn [stmt_errors]. f_equal. induction body as [|[x o] r IH]; [reflexivity|]. cbn [flat_map fst snd]. f_equal. exact IH.
Qed.

Ltac opt_triv := match goal with |- match ?o with Some _ => True | None => True end => destruct o; exact I end.

Section S.
Variable toks : list token.
Variable w : nat.
Hypothesis Hncc : NCC toks.
Notation N := (length toks).
Notation FwdT := (Fwd toks sync_none).
Notation WF := (WF toks).
Notation Good := (Good toks).
Notation GoodN := (GoodN toks).
Notation SG := (Stable_Good toks).
Notation Rng := (Rng toks).
Notation Adv := (Adv toks).
Notation QSpair := (QS_pair toks Good SG).
Notation QSinfo := (QS_info toks Good SG).
Notation QSpreceded := (QS_preceded toks Good SG).
Notation QSterminated := (QS_terminated toks Good SG).
Notation QS_ident := (QS_ident toks w).
Notation QS_expr := (QS_expr toks w).
Notation QS_ref_expr := (QS_ref_expr toks w).
Notation QS_variable := (QS_variable toks w).
Notation QS_expect_this := (QS_expect_this toks).
Notation QS_affected' := (QS_affected' toks w).

Ltac fw := fwd_solve sync_none_ok.
Ltac wf := split; [fwd_solve sync_none_ok | mono_solve].

(* ---- arguments ---- *)
Lemma argument_rng f s s1 t :
  refp s <= pos s -> pos s <= N -> p_argument toks f s = POk s1 t -> expr_errors t = [] ->
  i_s (expr_info t) = pos s - refp s /\ i_e (expr_info t) = pos s1 - refp s /\ pos s < pos s1.
Proof.
  intros Hr Hs E Hc. unfold p_argument in E. apply p_alt_ok in E as [E|[_ E]].
  - unfold p_terminated in E. apply p_map_ok in E as ([e u] & E & ->). apply p_pair_ok in E as (sa & E1 & E2). cbn [fst snd] in *.
    unfold p_peek_la in E2. destruct (la_arg toks (pos sa)); [|discriminate]. injection E2 as <-.
    exact (Rng_comparison toks f s sa e Hr Hs E1).
  - exfalso. apply p_map_ok in E as (r & _ & ->). cbn [expr_errors info_append i_errs] in Hc.
    apply app_eq_nil in Hc as [_ Hc]. discriminate Hc.
Qed.

Lemma QS_argument f th : QSg Good (RE th) (p_argument toks f) (i_argument toks w w 0 f (Some th)).
Proof.
  assert (Hv : forall e,
    QSg Good (RE e) (p_argument toks f)
      (i_affected toks w w 0 (Some e) expr_info strip_expr
         (i_alt (i_terminated (i_expr toks w w 0 f (Some e)) (i_peek_la (i_la_param toks)))
            (i_map (fun r : list token * info =>
                      let inf := snd r in
                      EErr (info_append inf {| e_s := i_s inf; e_e := i_e inf; e_m := EParse (ExpectedToken s_expression) |}))
               (i_info (i_ignore0 toks (i_la_param toks))))))).
  { intros e. unfold RE. apply QS_affected'.
    - fw.
    - intros s s1 t Hr Hs E _ Hc. exact (argument_rng f s s1 t Hr Hs E Hc).
    - apply strip_expr_rng.
    - apply strip_expr_rng.
    - intros s s1 t Hg E He [Ht Hc]. unfold p_argument in E. apply p_alt_ok in E as [E|[_ E]].
      + assert (Q : QSg Good (RE e) (p_terminated (p_expr toks f) (p_peek_la (la_arg toks)))
                      (i_terminated (i_expr toks w w 0 f (Some e)) (i_peek_la (i_la_param toks)))).
        { apply QSterminated; [wf | mono_solve | apply QS_expr | apply QS_peek_la]. }
        destruct (Q s s1 t Hg E He (conj Ht Hc)) as (s' & E' & A). exists s'. unfold i_alt at 1. rewrite E'. exact (conj eq_refl A).
      + exfalso. apply p_map_ok in E as (r & _ & Hr). rewrite Hr in Hc. cbn [expr_errors info_append i_errs] in Hc.
        apply app_eq_nil in Hc as [_ Hc]. discriminate Hc. }
  destruct th; unfold i_argument; cbv beta iota zeta; try apply Hv.
  (* the old argument is Expression::Error: parsed without it *)
  intros s s1 t Hg E He [Ht Hc]. unfold p_argument in E. apply p_alt_ok in E as [E|[_ E]].
  - assert (Q : QSg Good (fun e => expr_errors e = []) (p_terminated (p_expr toks f) (p_peek_la (la_arg toks)))
                  (i_terminated (i_expr toks w w 0 f None) (i_peek_la (i_la_param toks)))).
    { apply QSterminated; [wf | mono_solve | apply QS_weaken, (QN_comparison toks w f) | apply QS_peek_la]. }
    destruct (Q s s1 t Hg E He Hc) as (s' & E' & A). exists s'. unfold i_alt at 1. rewrite E'. exact (conj eq_refl A).
  - exfalso. apply p_map_ok in E as (r & _ & Hr). rewrite Hr in Hc. cbn [expr_errors info_append i_errs] in Hc.
    apply app_eq_nil in Hc as [_ Hc]. discriminate Hc.
Qed.

Lemma p_list_nonempty {A} fuel (p : parser A) s s1 l : p_list toks fuel p s = POk s1 l -> l <> [].
Proof.
  unfold p_list. intros E. apply bind_ok in E as (sa & hd & _ & E). apply bind_ok in E as (sb & tl & _ & X).
  injection X as <- <-. discriminate.
Qed.

(* the argument list of a call *)
Lemma QS_args f (a : list (expr * nat)) la :
  QSg Good (fun l => l = map (fun x => (strip_expr (fst x), snd x)) a /\ Forall (fun x => expr_errors (fst x) = []) l)
    (p_alt (p_map (fun _ => []) (p_peek_la la)) (p_list toks f (p_argument toks f)))
    (i_alt (i_map (fun _ => []) (i_peek_la la)) (i_list toks w w 0 (i_argument toks w w 0 f) expr_info f (Some a))).
Proof.
  intros s s1 l Hg E He [Hl Hc]. apply p_alt_ok in E as [E|[[e Ee] E]].
  - assert (Q : QSg Good (fun _ => True) (p_map (fun _ : unit => @nil (expr * nat)) (p_peek_la la)) (i_map (fun _ => []) (i_peek_la la))).
    { apply QS_map, QS_peek_la. }
    destruct (Q s s1 l Hg E He I) as (s' & E' & A). exists s'. unfold i_alt at 1. rewrite E'. exact (conj eq_refl A).
  - assert (Hs : Sim (p_map (fun _ : unit => @nil (expr * nat)) (p_peek_la la)) (i_map (fun _ => []) (i_peek_la la))) by sim_auto.
    specialize (Hs s). rewrite Ee in Hs. unfold i_alt at 1.
    destruct (i_map (fun _ : unit => []) (i_peek_la la) s) as [sx x|sx fl| |]; cbn in Hs; try contradiction.
    assert (Q : QSg Good (fun l => Forall2 (fun o x => snd x = snd o /\ RE (fst o) (fst x)) a l)
                  (p_list toks f (p_argument toks f)) (i_list toks w w 0 (i_argument toks w w 0 f) expr_info f (Some a))).
    { apply (QS_list toks w (p_argument toks f) (i_argument toks w w 0 f) expr_info RE).
      - wf.
      - apply Sim_argument.
      - intros o. apply QS_argument.
      - intros o x s0 s0' [Hx1 Hx2] Hr Hs0 E0. destruct (argument_rng f s0 s0' x Hr Hs0 E0 Hx2) as (R1 & _). rewrite <- R1, Hx1.
        symmetry. apply strip_expr_rng.
      - exact Hncc. }
    apply (Q s s1 l Hg E He). unfold RE. apply (Forall2_of_map strip_expr (fun e => expr_errors e = [])); assumption.
Qed.

(* ---- call and assignment ---- *)
Lemma Adv_variable f : Adv (p_variable toks f).
Proof.
  intros s s1 t Hs E. destruct f as [|f]; [discriminate|]. cbn [p_variable] in E.
  apply bind_ok in E as (s' & r & E & X). destruct r as [[v0 vinfo] acc]. injection X as <- _.
  match type of E with ?p s = _ => assert (Ha : Adv p) end.
  { apply Adv_pair_l; [apply Adv_info, Adv_map, Adv_map, Adv_info, Adv_tag | fw | fw]. }
  exact (Ha s s' _ Hs E).
Qed.

Lemma QS_call f n a inf : QSg Good (RS (SCall n a inf)) (p_call toks f) (i_call toks w w 0 f (Some (SCall n a inf))).
Proof.
  unfold i_call, p_call, RS. cbv beta iota zeta. apply QS_affected'.
  - fw.
  - intros s s1 t Hr Hs E _ _. revert s s1 t Hr Hs E. apply Rng_map_info.
    + intros [n' [a' [rp se]]] i. auto.
    + apply Adv_pair_l; [|fw|fw]. apply Adv_terminated_l; [apply Adv_map, Adv_info, Adv_tag | fw | fw].
  - reflexivity.
  - reflexivity.
  - apply QS_map. eapply QS_impl; cycle 1.
    { apply QSinfo, QSpair; [wf | mono_solve | apply QSterminated; [wf | mono_solve | apply QS_ident | apply QS_tag] |].
      apply QSpair; [wf | mono_solve | apply (QS_args f a) |].
      apply QSpair; [wf | mono_solve | apply (QS_expect0 Good (fun _ => True)); [mono_solve | apply QS_tag] |].
      apply (QS_expect0 Good (fun _ => True)); [mono_solve | apply QS_tag]. }
    intros [[n' [a' [rp se]]] i] [Ht Hc]. cbn [fst snd] in *. cbn [strip_stmt] in Ht. injection Ht as -> -> ->.
    cbn [stmt_errors] in Hc. nil_split Hc.
    split; [assumption|]. split; [reflexivity|]. split; [|split; opt_triv].
    split; [reflexivity|]. apply (flat_map_errors_nil expr_errors) in Hc. exact Hc.
Qed.

Lemma QS_assign f v e inf : QSg Good (RS (SAssign v e inf)) (p_assign toks f) (i_assign toks w w 0 f (Some (SAssign v e inf))).
Proof.
  unfold i_assign, p_assign, RS. cbv beta iota zeta. apply QS_affected'.
  - fw.
  - intros s s1 t Hr Hs E _ _. revert s s1 t Hr Hs E. apply Rng_map_info.
    + intros [v' [e' se]] i. auto.
    + apply Adv_pair_l; [|fw|fw]. apply Adv_terminated_l; [apply Adv_variable | fw | fw].
  - reflexivity.
  - reflexivity.
  - apply QS_map. eapply QS_impl; cycle 1.
    { apply QSinfo, QSpair; [wf | mono_solve | |].
      - apply QSterminated; [wf | mono_solve | apply QS_variable |].
        apply (QS_alt Good); [apply Sim_tag | apply QS_tag | apply QS_confusable_never].
      - apply QSpair; [wf | mono_solve | apply (QS_expect_this e (Rref RE)); [mono_solve | intros th'; apply QS_ref_expr] |].
        apply (QS_expect0 Good (fun _ => True)); [mono_solve | apply QS_tag]. }
    intros [[v' [e' se]] i] [Ht Hc]. cbn [fst snd] in *. cbn [strip_stmt] in Ht. injection Ht as -> -> ->.
    cbn [stmt_errors] in Hc. nil_split Hc.
    split; [assumption|]. split; [split; [reflexivity | assumption]|]. split; [|opt_triv].
    destruct e as [[ee eo]|]; [|exact I]. exists (ee, eo). split; [reflexivity|]. unfold Rref, RE. cbn [fst snd strip_oref].
    split; [reflexivity|]. split; [reflexivity|]. cbn [strip_oref opt_expr_errors] in Hc. exact (shift_es_nil _ _ Hc).
Qed.

(* ---- statements ---- *)
Ltac alts7 E :=
  apply p_alt_ok in E as [E|[_ E]]; [|
  apply p_alt_ok in E as [E|[_ E]]; [|
  apply p_alt_ok in E as [E|[_ E]]; [|
  apply p_alt_ok in E as [E|[_ E]]; [|
  apply p_alt_ok in E as [E|[_ E]]; [|
  apply p_alt_ok in E as [E|[_ E]]]]]]].

Ltac destruct_pairs := repeat match goal with r : (_ * _)%type |- _ => destruct r end.

(* the alternative that produced E cannot have built the node Ht describes *)
Ltac kill E Ht :=
  exfalso; try apply p_restore_ok in E; try unfold p_call in E; try unfold p_assign in E;
  let r := fresh "r" in let Hr := fresh "Hr" in
  apply p_map_ok in E as (r & _ & Hr); destruct_pairs; cbv beta iota in Hr; rewrite Hr in Ht;
  cbn [strip_stmt] in Ht; discriminate Ht.

Lemma stmt_start_at f s s1 t : p_stmt toks f s = POk s1 t -> i_s (stmt_info t) = pos s - refp s.
Proof.
  destruct f as [|f]; [discriminate|]. cbn [p_stmt]. intros E. alts7 E;
    try apply p_restore_ok in E; try unfold p_call in E; try unfold p_assign in E;
    apply p_map_ok in E as (r & E & ->); apply p_info_ok in E as (s0 & _ & _ & Hi); destruct_pairs;
    cbn [snd] in Hi; subst; reflexivity.
Qed.

Lemma stmt_ref_start f (o a : stmt * nat) s s1 :
  Rref RS o a -> refp s <= pos s -> p_ref (p_stmt toks f) s = POk s1 a -> stmt_start o <= pos s.
Proof.
  intros [Ho1 [Ho2 _]] Hr E. apply p_ref_ok in E as (sx & E & _ & Hoff). apply stmt_start_at in E. cbn [pos refp set_refp] in E.
  unfold stmt_start. rewrite <- (proj1 (strip_stmt_rng (fst o))), <- Ho2, E, <- Ho1, Hoff. lia.
Qed.

Lemma QS_stmt : forall f th, QSg Good (RS th) (p_stmt toks f) (i_stmt toks w w 0 f (Some th)).
Proof.
  induction f as [|f IH]; intros th s s1 t Hg E He [Ht Hc]; [discriminate|].
  pose proof (Sim_stmt toks w w 0 f) as Sst.
  assert (Hrefs : forall o, QSg Good (Rref RS o) (p_ref (p_stmt toks f)) (i_ref (Some o) (i_stmt toks w w 0 f))).
  { intros [x off]. unfold Rref. cbn [fst snd]. apply QS_ref_some, IH. }
  cbn [p_stmt] in E.
  destruct th as [inf|v e inf|n a inf|c th el inf|c b inf|body inf|inf]; cbn [i_stmt]; cbv beta iota zeta; alts7 E.
  (* SEmpty *)
  - match type of E with ?p (proj s) = _ =>
      match goal with |- exists s', i_alt ?q _ s = _ /\ _ => assert (Q : QSg Good (fun _ => True) p q) end end.
    { apply QS_map, QS_noincr; [sim_auto | apply NoIncr_info, NoIncr_tag]. }
    destruct (Q s s1 t Hg E He I) as (s' & E' & A). exists s'. unfold i_alt at 1. rewrite E'. exact (conj eq_refl A).
  - kill E Ht.
  - kill E Ht.
  - kill E Ht.
  - kill E Ht.
  - kill E Ht.
  - kill E Ht.
  (* SAssign *)
  - kill E Ht.
  - kill E Ht.
  - kill E Ht.
  - kill E Ht.
  - kill E Ht.
  - exact (QS_assign f v e inf s s1 t Hg E He (conj Ht Hc)).
  - kill E Ht.
  (* SCall *)
  - kill E Ht.
  - kill E Ht.
  - kill E Ht.
  - kill E Ht.
  - exact (QS_call f n a inf s s1 t Hg E He (conj Ht Hc)).
  - kill E Ht.
  - kill E Ht.
  (* SIf *)
  - kill E Ht.
  - match type of E with ?p (proj s) = _ =>
      match goal with |- exists s', ?q s = _ /\ _ => assert (Q : QSg Good (RS (SIf c th el inf)) p q) end end.
    { unfold RS. apply QS_affected'.
      - fw.
      - intros s0 s0' t0 Hr Hs E0 _ _. revert s0 s0' t0 Hr Hs E0. apply Rng_map_info.
        + intros [k [lp [c' [rp [t' e']]]]] i. auto.
        + apply Adv_pair_l; [apply Adv_tag | fw | fw].
      - reflexivity.
      - reflexivity.
      - apply QS_map. eapply QS_impl; cycle 1.
        { apply QSinfo, QSpair; [wf | mono_solve | apply QS_tag |].
          apply QSpair; [wf | mono_solve | apply (QS_expect0 Good (fun _ => True)); [mono_solve | apply QS_tag] |].
          apply QSpair; [wf | mono_solve | apply (QS_expect_this c (Rref RE)); [mono_solve | intros th'; apply QS_ref_expr] |].
          apply QSpair; [wf | mono_solve | apply (QS_expect0 Good (fun _ => True)); [mono_solve | apply QS_tag] |].
          apply QSpair; [wf | mono_solve | apply (QS_expect_this th (Rref RS)); [mono_solve | exact Hrefs] |].
          apply (QS_opt_preceded_tag toks (is_k KElse)); [mono_solve | intros s0 e0; apply p_expect_noerr |].
          apply (QS_expect_this el (Rref RS)); [mono_solve | exact Hrefs]. }
        intros [[k [lp [c' [rp [t' e']]]]] i] [Ht' Hc']. cbn [fst snd] in *. cbn [strip_stmt] in Ht'.
        injection Ht' as -> -> He' ->. cbn [stmt_errors] in Hc'. nil_split Hc'.
        split; [assumption|]. split; [exact I|]. split; [opt_triv|].
        split.
        { destruct c as [[ce co]|]; [|exact I]. exists (ce, co). split; [reflexivity|]. unfold Rref, RE. cbn [fst snd strip_oref].
          split; [reflexivity|]. split; [reflexivity|]. cbn [strip_oref opt_expr_errors] in *. apply (shift_es_nil co). assumption. }
        split; [opt_triv|]. split.
        { destruct th as [[tx to]|]; [|exact I]. exists (tx, to). split; [reflexivity|]. unfold Rref, RS. cbn [fst snd].
          split; [reflexivity|]. split; [reflexivity|]. apply (shift_es_nil to). assumption. }
        destruct e' as [[x|]|]; [|exact I|exact I]. destruct el as [[ex eo]|]; [|discriminate He']. injection He' as ->.
        exists (ex, eo). split; [reflexivity|]. unfold Rref, RS. cbn [fst snd].
        split; [reflexivity|]. split; [reflexivity|]. apply (shift_es_nil eo). assumption. }
    exact (Q s s1 t Hg E He (conj Ht Hc)).
  - kill E Ht.
  - kill E Ht.
  - kill E Ht.
  - kill E Ht.
  - kill E Ht.
  (* SWhile *)
  - kill E Ht.
  - kill E Ht.
  - match type of E with ?p (proj s) = _ =>
      match goal with |- exists s', ?q s = _ /\ _ => assert (Q : QSg Good (RS (SWhile c b inf)) p q) end end.
    { unfold RS. apply QS_affected'.
      - fw.
      - intros s0 s0' t0 Hr Hs E0 _ _. revert s0 s0' t0 Hr Hs E0. apply Rng_map_info.
        + intros [k [lp [c' [rp b']]]] i. auto.
        + apply Adv_pair_l; [apply Adv_tag | fw | fw].
      - reflexivity.
      - reflexivity.
      - apply QS_map. eapply QS_impl; cycle 1.
        { apply QSinfo, QSpair; [wf | mono_solve | apply QS_tag |].
          apply QSpair; [wf | mono_solve | apply (QS_expect0 Good (fun _ => True)); [mono_solve | apply QS_tag] |].
          apply QSpair; [wf | mono_solve | apply (QS_expect_this c (Rref RE)); [mono_solve | intros th'; apply QS_ref_expr] |].
          apply QSpair; [wf | mono_solve | apply (QS_expect0 Good (fun _ => True)); [mono_solve | apply QS_tag] |].
          apply (QS_expect_this b (Rref RS)); [mono_solve | exact Hrefs]. }
        intros [[k [lp [c' [rp b']]]] i] [Ht' Hc']. cbn [fst snd] in *. cbn [strip_stmt] in Ht'.
        injection Ht' as -> -> ->. cbn [stmt_errors] in Hc'. nil_split Hc'.
        split; [assumption|]. split; [exact I|]. split; [opt_triv|].
        split.
        { destruct c as [[ce co]|]; [|exact I]. exists (ce, co). split; [reflexivity|]. unfold Rref, RE. cbn [fst snd strip_oref].
          split; [reflexivity|]. split; [reflexivity|]. cbn [strip_oref opt_expr_errors] in *. apply (shift_es_nil co). assumption. }
        split; [opt_triv|].
        destruct b as [[bx bo]|]; [|exact I]. exists (bx, bo). split; [reflexivity|]. unfold Rref, RS. cbn [fst snd].
        split; [reflexivity|]. split; [reflexivity|]. apply (shift_es_nil bo). assumption. }
    exact (Q s s1 t Hg E He (conj Ht Hc)).
  - kill E Ht.
  - kill E Ht.
  - kill E Ht.
  - kill E Ht.
  (* SBlock *)
  - kill E Ht.
  - kill E Ht.
  - kill E Ht.
  - match type of E with ?p (proj s) = _ =>
      match goal with |- exists s', ?q s = _ /\ _ => assert (Q : QSg Good (RS (SBlock body inf)) p q) end end.
    { unfold RS. apply QS_affected'.
      - fw.
      - intros s0 s0' t0 Hr Hs E0 _ _. revert s0 s0' t0 Hr Hs E0. apply Rng_map_info.
        + intros [b' rc] i. auto.
        + apply Adv_preceded_l; [apply Adv_tag | fw | fw].
      - apply strip_stmt_rng.
      - apply strip_stmt_rng.
      - apply QS_map. eapply QS_impl; cycle 1.
        { apply QSinfo, QSpreceded; [wf | mono_solve | apply QS_tag |].
          apply QSpair; [wf | mono_solve | | apply (QS_expect0 Good (fun _ => True)); [mono_solve | apply QS_tag]].
          apply (QS_many toks w (p_ref (p_stmt toks f)) (fun t => i_ref t (i_stmt toks w w 0 f)) stmt_start (Rref RS));
            [wf | sim_auto | exact Hrefs | intros o a0 s0 s0'; apply stmt_ref_start]. }
        intros [[b' rc] i] [Ht' Hc']. cbn [fst snd] in *. rewrite strip_stmt_block in Ht'. injection Ht' as -> ->.
        rewrite stmt_block_errors in Hc'. apply app_eq_nil in Hc' as [Hc1 Hc2].
        split; [exact Hc1|]. split; [|opt_triv].
        apply (Forall2_of_map strip_stmt (fun x => stmt_errors x = [])); [reflexivity|].
        apply (flat_map_errors_nil stmt_errors). exact Hc2. }
    exact (Q s s1 t Hg E He (conj Ht Hc)).
  - kill E Ht.
  - kill E Ht.
  - kill E Ht.
  (* SError: its info carries a message *)
  - kill E Ht.
  - kill E Ht.
  - kill E Ht.
  - kill E Ht.
  - kill E Ht.
  - kill E Ht.
  - exfalso. apply p_restore_ok in E. apply p_map_ok in E as (r & _ & Hr). destruct_pairs. cbv beta iota in Hr.
    rewrite Hr in Hc. cbn [stmt_errors info_append i_errs] in Hc. apply app_eq_nil in Hc as [_ Hc]. discriminate Hc.
Qed.

End S.
