(* First facts about the model of table::build / table::analyze (Model/Table.v, Build.v, Semantic.v,
   Errors.v):
     - lookup / enter: the first declaration wins, enter never overwrites;
     - `build` never reaches panic!("'main' must be a procedure");
     - `analyze` on the output of `build` never reaches .expect("Named declaration without entry");
     - the only panic site build/analyze can reach at all is the assert of Identifier::to_error. *)
From Spl Require Import Model.Errors.
Local Open Scope nat_scope.

(* ------------------------------------------------------------------------------------------ *)
(* lookup / enter *)

Lemma text_eqb_refl k : text_eqb k k = true.
Proof. apply text_eqb_eq. reflexivity. Qed.

Lemma lookup_app {V} (t : list (text * V)) k v k' :
  lookup (t ++ [(k, v)]) k' =
  match lookup t k' with
  | Some x => Some x
  | None => if text_eqb k k' then Some v else None
  end.
Proof.
  induction t as [|[k0 v0] t IH]; cbn [lookup app]; [reflexivity|].
  destruct (text_eqb k0 k'); [reflexivity | exact IH].
Qed.

(* enter on a present key: Err(KeyAlreadyExists), the table is untouched *)
Lemma enter_present {V} (t : list (text * V)) k v x :
  lookup t k = Some x -> enter t k v = (t, false).
Proof. unfold enter. intros ->. reflexivity. Qed.

(* enter on an absent key: Ok(()), the entry is appended *)
Lemma enter_absent {V} (t : list (text * V)) k v :
  lookup t k = None -> enter t k v = (t ++ [(k, v)], true).
Proof. unfold enter. intros ->. reflexivity. Qed.

(* the flag tells which case happened *)
Lemma enter_flag {V} (t : list (text * V)) k v :
  snd (enter t k v) = match lookup t k with Some _ => false | None => true end.
Proof. unfold enter. destruct (lookup t k); reflexivity. Qed.

(* first declaration wins: a present key keeps its entry *)
Theorem enter_first_wins {V} (t : list (text * V)) k v x :
  lookup t k = Some x -> lookup (fst (enter t k v)) k = Some x.
Proof. intros H. rewrite (enter_present _ _ _ _ H). exact H. Qed.

(* an absent key is bound to the new entry *)
Theorem enter_binds_absent {V} (t : list (text * V)) k v :
  lookup t k = None -> lookup (fst (enter t k v)) k = Some v.
Proof.
  intros H. rewrite (enter_absent _ _ _ H). cbn [fst]. rewrite lookup_app, H, text_eqb_refl. reflexivity.
Qed.

(* enter never overwrites: whatever key is entered, every present key keeps its entry *)
Theorem enter_never_overwrites {V} (t : list (text * V)) k v k' :
  lookup t k' <> None -> lookup (fst (enter t k v)) k' = lookup t k'.
Proof.
  intros H. unfold enter. destruct (lookup t k); cbn [fst]; [reflexivity|].
  rewrite lookup_app. destruct (lookup t k'); [reflexivity | congruence].
Qed.

(* entering k does not touch other keys *)
Theorem enter_other {V} (t : list (text * V)) k v k' :
  k <> k' -> lookup (fst (enter t k v)) k' = lookup t k'.
Proof.
  intros H. unfold enter. destruct (lookup t k); cbn [fst]; [reflexivity|].
  rewrite lookup_app. destruct (lookup t k'); [reflexivity|].
  destruct (text_eqb k k') eqn:E; [apply text_eqb_eq in E; congruence | reflexivity].
Qed.

(* after enter the key is bound, to the old entry if there was one, else to the new one *)
Theorem enter_lookup_same {V} (t : list (text * V)) k v :
  lookup (fst (enter t k v)) k = match lookup t k with Some x => Some x | None => Some v end.
Proof.
  destruct (lookup t k) eqn:E; [apply enter_first_wins | apply enter_binds_absent]; exact E.
Qed.

Corollary enter_mono {V} (t : list (text * V)) k v k' :
  lookup t k' <> None -> lookup (fst (enter t k v)) k' <> None.
Proof. intros H. rewrite enter_never_overwrites; assumption. Qed.

(* ------------------------------------------------------------------------------------------ *)
(* which panic sites a computation can reach *)

Definition fails_only {A} (P : site -> Prop) (r : res A) : Prop := forall s, r = RFail s -> P s.

Lemma fo_ok {A} P (a : A) : fails_only P (ROk a).
Proof. intros s H. discriminate. Qed.

Lemma fo_bind {A B} P (r : res A) (k : A -> res B) :
  fails_only P r -> (forall a, r = ROk a -> fails_only P (k a)) -> fails_only P (rbind r k).
Proof.
  intros Hr Hk s H. destruct r as [a|s']; cbn [rbind] in H.
  - exact (Hk a eq_refl s H).
  - apply Hr. congruence.
Qed.

Definition ident_site (s : site) : Prop := s = SiteIdentEmpty.

Lemma fo_to_error i m : fails_only ident_site (to_error i m).
Proof. unfold to_error. intros s H. destruct (Nat.eqb _ 0); [injection H as <-; reflexivity | discriminate]. Qed.

Lemma fo_ident_flag i m : fails_only ident_site (ident_flag i m).
Proof. unfold ident_flag. apply fo_bind; [apply fo_to_error | intros; apply fo_ok]. Qed.

Lemma ident_flag_val i m i' : ident_flag i m = ROk i' -> id_val i' = id_val i.
Proof.
  unfold ident_flag. destruct (to_error i m); cbn [rbind]; [|discriminate]. intros [= <-]. reflexivity.
Qed.

Ltac fo_step :=
  first
    [ apply fo_ok
    | apply fo_ident_flag
    | apply fo_to_error
    | apply fo_bind; [| intros ? ?] ].

(* ------------------------------------------------------------------------------------------ *)
(* build: sites *)

Lemma fo_get_data_type_te l g c t : fails_only ident_site (get_data_type_te l g c t).
Proof.
  induction t as [n | size base inf]; cbn [get_data_type_te].
  - destruct (lt_lookup l g _) as [[]|]; repeat fo_step; destruct a; apply fo_ok.
  - (* the nested occurrence: redo the induction by hand below *)
    destruct base as [[b off]|]; [|apply fo_ok].
    apply fo_bind.
    + revert b. fix IH 1. intros b. destruct b as [n | size' base' inf']; cbn [get_data_type_te].
      * destruct (lt_lookup l g _) as [[]|]; repeat fo_step; destruct a; apply fo_ok.
      * destruct base' as [[b' off']|]; [|apply fo_ok].
        apply fo_bind; [apply IH | intros [b1 bt] _; apply fo_ok].
    + intros [b1 bt] _. apply fo_ok.
Qed.

Lemma fo_get_data_type l g c t : fails_only ident_site (get_data_type l g c t).
Proof.
  unfold get_data_type. destruct t as [[te off]|]; [|apply fo_ok].
  apply fo_bind; [apply fo_get_data_type_te | intros [te' dt] _; apply fo_ok].
Qed.

Lemma fo_build_typedecl d t off : fails_only ident_site (build_typedecl d t off).
Proof.
  unfold build_typedecl. destruct (td_name d) as [name|]; [|apply fo_ok].
  destruct (text_eqb _ _); [apply fo_bind; [apply fo_ident_flag | intros; apply fo_ok]|].
  apply fo_bind; [apply fo_get_data_type | intros [ty' dt] _].
  destruct (enter _ _ _) as [t' ok].
  apply fo_bind; [destruct ok; [apply fo_ok | apply fo_ident_flag] | intros; apply fo_ok].
Qed.

Lemma fo_build_parameter p pn g l : fails_only ident_site (build_parameter p pn g l).
Proof.
  unfold build_parameter. destruct p as [pd off]. destruct pd as [doc is_ref [name|] ty inf | inf]; try apply fo_ok.
  apply fo_bind; [apply fo_get_data_type | intros [ty' dt] _].
  apply fo_bind.
  - destruct dt as [d|]; [|apply fo_ok]. destruct (_ && _); [apply fo_ident_flag | apply fo_ok].
  - intros name1 _. destruct (enter _ _ _) as [l' ok].
    apply fo_bind; [destruct ok; [apply fo_ok | apply fo_ident_flag] | intros; apply fo_ok].
Qed.

Lemma fo_build_parameters ps pn g l : fails_only ident_site (build_parameters ps pn g l).
Proof.
  revert l. induction ps as [|p r IH]; intros l; cbn [build_parameters]; [apply fo_ok|].
  apply fo_bind; [apply fo_build_parameter | intros [[p' l1] oe] _].
  apply fo_bind; [apply IH | intros [[r' l2] es] _; apply fo_ok].
Qed.

Lemma fo_build_variable v pn g l : fails_only ident_site (build_variable v pn g l).
Proof.
  unfold build_variable. destruct v as [vd off]. destruct vd as [doc [name|] ty inf | inf]; try apply fo_ok.
  apply fo_bind; [apply fo_get_data_type | intros [ty' dt] _].
  destruct (enter _ _ _) as [l' ok].
  apply fo_bind; [destruct ok; [apply fo_ok | apply fo_ident_flag] | intros; apply fo_ok].
Qed.

Lemma fo_build_variables vs pn g l : fails_only ident_site (build_variables vs pn g l).
Proof.
  revert l. induction vs as [|v r IH]; intros l; cbn [build_variables]; [apply fo_ok|].
  apply fo_bind; [apply fo_build_variable | intros [v' l1] _].
  apply fo_bind; [apply IH | intros [r' l2] _; apply fo_ok].
Qed.

Lemma fo_build_procdecl d t off : fails_only ident_site (build_procdecl d t off).
Proof.
  unfold build_procdecl. destruct (pd_name d) as [name|]; [|apply fo_ok].
  apply fo_bind; [apply fo_build_parameters | intros [[ps' l1] params] _].
  apply fo_bind; [apply fo_build_variables | intros [vs' l2] _].
  destruct (enter _ _ _) as [t' ok].
  apply fo_bind; [destruct ok; [apply fo_ok | apply fo_ident_flag] | intros; apply fo_ok].
Qed.

Lemma fo_build_gdecl d t off : fails_only ident_site (build_gdecl d t off).
Proof.
  destruct d as [td | pd | inf]; cbn [build_gdecl]; [| |apply fo_ok].
  - apply fo_bind; [apply fo_build_typedecl | intros [t' tb] _; apply fo_ok].
  - apply fo_bind; [apply fo_build_procdecl | intros [p' tb] _; apply fo_ok].
Qed.

Lemma fo_build_gdecls ds t off : fails_only ident_site (build_gdecls ds t off).
Proof.
  revert t. induction ds as [|[d o] r IH]; intros t; cbn [build_gdecls]; [apply fo_ok|].
  apply fo_bind; [apply fo_build_gdecl | intros [d' t1] _].
  apply fo_bind; [apply IH | intros [r' t2] _; apply fo_ok].
Qed.

(* ------------------------------------------------------------------------------------------ *)
(* build: `main` is never bound to a type *)

Definition main_not_type (t : gtable) : Prop := forall te, lookup t s_main <> Some (GTypeE te).

Lemma main_not_type_initialized : main_not_type initialized.
Proof. intros te. vm_compute. discriminate. Qed.

Lemma build_typedecl_main d t off d' t' :
  build_typedecl d t off = ROk (d', t') -> main_not_type t -> main_not_type t'.
Proof.
  unfold build_typedecl. destruct (td_name d) as [name|]; [|intros [= _ <-]; auto].
  destruct (text_eqb (id_val name) s_main) eqn:E;
    [destruct (ident_flag _ _); cbn [rbind]; [intros [= _ <-]; auto | discriminate]|].
  destruct (get_data_type _ _ _ _) as [[ty' dt]|]; cbn [rbind]; [|discriminate].
  destruct (enter t (id_val name) _) as [t1 ok] eqn:En.
  destruct (if ok then _ else _); cbn [rbind]; [|discriminate].
  intros [= _ <-] H te.
  replace t1 with (fst (enter t (id_val name) (GTypeE {| ten_name := name; ten_ty := dt;
    ten_range := shift_range (info_range (td_info d)) off; ten_doc := get_documentation (td_doc d) |})))
    by (rewrite En; reflexivity).
  rewrite enter_other; [apply H|].
  intros Heq. rewrite Heq, text_eqb_refl in E. discriminate.
Qed.

Lemma build_procdecl_main d t off d' t' :
  build_procdecl d t off = ROk (d', t') -> main_not_type t -> main_not_type t'.
Proof.
  unfold build_procdecl. destruct (pd_name d) as [name|]; [|intros [= _ <-]; auto].
  destruct (build_parameters _ _ _ _) as [[[ps' l1] params]|]; cbn [rbind]; [|discriminate].
  destruct (build_variables _ _ _ _) as [[vs' l2]|]; cbn [rbind]; [|discriminate].
  match goal with |- context [enter t (id_val name) ?v] => set (e := v) end.
  destruct (enter t (id_val name) e) as [t1 ok] eqn:En.
  destruct (if ok then _ else _); cbn [rbind]; [|discriminate].
  intros [= _ <-] H te.
  replace t1 with (fst (enter t (id_val name) e)) by (rewrite En; reflexivity).
  destruct (text_eqb (id_val name) s_main) eqn:E.
  - apply text_eqb_eq in E. rewrite <- E, enter_lookup_same.
    destruct (lookup t (id_val name)) eqn:L.
    + rewrite E in L. rewrite <- L. apply H.
    + subst e. discriminate.
  - rewrite enter_other; [apply H|]. intros Heq. rewrite Heq, text_eqb_refl in E. discriminate.
Qed.

Lemma build_gdecl_main d t off d' t' :
  build_gdecl d t off = ROk (d', t') -> main_not_type t -> main_not_type t'.
Proof.
  destruct d as [td | pd | inf]; cbn [build_gdecl].
  - destruct (build_typedecl td t off) as [[x tb]|] eqn:E; cbn [rbind]; [|discriminate].
    intros [= _ <-]. eapply build_typedecl_main; eassumption.
  - destruct (build_procdecl pd t off) as [[x tb]|] eqn:E; cbn [rbind]; [|discriminate].
    intros [= _ <-]. eapply build_procdecl_main; eassumption.
  - intros [= _ <-]; auto.
Qed.

Lemma build_gdecls_main ds t off ds' t' :
  build_gdecls ds t off = ROk (ds', t') -> main_not_type t -> main_not_type t'.
Proof.
  revert t ds' t'. induction ds as [|[d o] r IH]; intros t ds' t'; cbn [build_gdecls].
  - intros [= _ <-]; auto.
  - destruct (build_gdecl d t (off + o)) as [[d1 t1]|] eqn:E1; cbn [rbind]; [|discriminate].
    destruct (build_gdecls r t1 off) as [[r1 t2]|] eqn:E2; cbn [rbind]; [|discriminate].
    intros [= _ <-] H. eapply IH; [eassumption|]. eapply build_gdecl_main; eassumption.
Qed.

(* (1) `build` never reaches panic!("'main' must be a procedure"): a type declaration named main is
   never entered, and the predefined table has no `main`. *)
Theorem build_main_is_procedure p : build_res p <> RFail SiteMainNotProc.
Proof.
  unfold build_res, build_program.
  destruct (build_gdecls (pg_decls p) initialized 0) as [[ds' t']|s] eqn:E; cbn [rbind].
  - pose proof (build_gdecls_main _ _ _ _ _ E main_not_type_initialized) as H.
    destruct (lookup t' s_main) as [[te|main]|] eqn:L.
    + exfalso. exact (H te L).
    + destruct (pe_params main); [discriminate|].
      destruct (to_error _ _) as [e|s] eqn:Et; cbn [rbind]; [discriminate|].
      intros [= ->]. pose proof (fo_to_error _ _ _ Et) as H1. discriminate H1.
    + discriminate.
  - intros [= ->]. pose proof (fo_build_gdecls _ _ _ _ E) as H. discriminate H.
Qed.

(* the only panic site `build` can reach is the assert of Identifier::to_error *)
Theorem build_sites p : fails_only ident_site (build_res p).
Proof.
  intros s H. pose proof (build_main_is_procedure p) as Hm.
  unfold build_res, build_program in H, Hm.
  destruct (build_gdecls (pg_decls p) initialized 0) as [[ds' t']|s'] eqn:E; cbn [rbind] in H, Hm.
  - destruct (lookup t' s_main) as [[te|main]|] eqn:L.
    + exfalso. apply Hm. reflexivity.
    + destruct (pe_params main); [discriminate|].
      destruct (to_error _ _) as [e|s1] eqn:Et; cbn [rbind] in H; [discriminate|].
      injection H as <-. exact (fo_to_error _ _ _ Et).
    + discriminate.
  - injection H as <-. exact (fo_build_gdecls _ _ _ _ E).
Qed.

(* ------------------------------------------------------------------------------------------ *)
(* analyze: sites of the traversal *)

Section AnalyzeSites.
Variable L : option ltable.
Variable G : option gtable.

Fixpoint fo_an_var (v : variable) : fails_only ident_site (an_var L G v)
with fo_an_expr (e : expr) : fails_only ident_site (an_expr L G e).
Proof.
  - destruct v as [named | arr index inf]; cbn [an_var].
    + destruct (lt_lookup L G _) as [[]|]; repeat fo_step; apply fo_ok.
    + apply fo_bind.
      * destruct index as [[e off]|]; [|apply fo_ok].
        apply fo_bind; [apply fo_an_expr | intros [e' ty] _; apply fo_ok].
      * intros index' _. apply fo_bind; [apply fo_an_var | intros [arr' aty] _].
        destruct aty as [[]|]; apply fo_ok.
  - destruct e as [op l r inf | a inf | i | op a inf | v | inf]; cbn [an_expr]; try apply fo_ok.
    + apply fo_bind; [apply fo_an_expr | intros [l' lt] _].
      apply fo_bind; [apply fo_an_expr | intros [r' rt] _]. apply fo_ok.
    + apply fo_bind; [apply fo_an_expr | intros [a' ty] _; apply fo_ok].
    + apply fo_bind; [apply fo_an_expr | intros [a' ty] _; apply fo_ok].
    + apply fo_bind; [apply fo_an_var | intros [v' ty] _; apply fo_ok].
Qed.

Lemma fo_an_cond c m : fails_only ident_site (an_cond L G c m).
Proof.
  unfold an_cond. destruct c as [[e off]|]; [|apply fo_ok].
  apply fo_bind; [apply fo_an_expr | intros [e' ty] _; apply fo_ok].
Qed.

Lemma fo_an_args cname i args params : fails_only ident_site (an_args L G cname i args params).
Proof.
  revert i params. induction args as [|[a off] ar IH]; intros i params; cbn [an_args]; [apply fo_ok|].
  destruct params as [|p pr]; [apply fo_ok|].
  apply fo_bind; [apply fo_an_expr | intros [a2 ty] _].
  apply fo_bind; [apply IH | intros; apply fo_ok].
Qed.

Fixpoint fo_an_stmt (s : stmt) : fails_only ident_site (an_stmt L G s).
Proof.
  assert (Href : forall r : option (stmt * nat),
             (forall x off, r = Some (x, off) -> fails_only ident_site (an_stmt L G x)) ->
             fails_only ident_site
               (match r with
                | Some (x, off) => do x' <- an_stmt L G x; ROk (Some (x', off))
                | None => ROk None
                end)).
  { intros [[x off]|] H; [|apply fo_ok]. apply fo_bind; [eapply H; reflexivity | intros; apply fo_ok]. }
  destruct s as [inf | v e inf | name args inf | c t e inf | c b inf | body inf | inf]; cbn [an_stmt];
    try apply fo_ok.
  - destruct e as [[e off]|]; [|apply fo_ok].
    apply fo_bind; [apply fo_an_var | intros [v' lty] _].
    apply fo_bind; [apply fo_an_expr | intros [e' rty] _]. apply fo_ok.
  - destruct (lt_lookup L G _) as [[]|]; try apply fo_ok.
    apply fo_bind; [apply fo_an_args | intros; apply fo_ok].
  - apply fo_bind; [apply fo_an_cond | intros c' _].
    apply fo_bind.
    { destruct t as [[x off]|]; [|apply fo_ok]. apply fo_bind; [apply fo_an_stmt | intros; apply fo_ok]. }
    intros t' _. apply fo_bind.
    { destruct e as [[x off]|]; [|apply fo_ok]. apply fo_bind; [apply fo_an_stmt | intros; apply fo_ok]. }
    intros; apply fo_ok.
  - apply fo_bind; [apply fo_an_cond | intros c' _].
    apply fo_bind.
    { destruct b as [[x off]|]; [|apply fo_ok]. apply fo_bind; [apply fo_an_stmt | intros; apply fo_ok]. }
    intros; apply fo_ok.
  - apply fo_bind; [|intros; apply fo_ok].
    induction body as [|[x off] r IHr]; [apply fo_ok|].
    apply fo_bind; [apply fo_an_stmt | intros x' _].
    apply fo_bind; [apply IHr | intros; apply fo_ok].
Qed.

Lemma fo_an_stmts l : fails_only ident_site (an_stmts L G l).
Proof.
  induction l as [|[x off] r IH]; cbn [an_stmts]; [apply fo_ok|].
  apply fo_bind; [apply fo_an_stmt | intros x' _].
  apply fo_bind; [apply IH | intros; apply fo_ok].
Qed.

End AnalyzeSites.

(* ------------------------------------------------------------------------------------------ *)
(* analyze after build: every named procedure declaration has an entry *)

Definition gdecl_name (g : gdecl) : option text :=
  match g with
  | GProc pd => match pd_name pd with Some n => Some (id_val n) | None => None end
  | _ => None
  end.

Definition named_in (t : gtable) (d : gdecl * nat) : Prop :=
  forall k, gdecl_name (fst d) = Some k -> lookup t k <> None.

Definition table_le (t t' : gtable) : Prop := forall k, lookup t k <> None -> lookup t' k <> None.

Lemma table_le_refl t : table_le t t.
Proof. intros k H; exact H. Qed.

Lemma table_le_trans a b c : table_le a b -> table_le b c -> table_le a c.
Proof. intros H1 H2 k H. auto. Qed.

Lemma build_typedecl_le d t off d' t' : build_typedecl d t off = ROk (d', t') -> table_le t t'.
Proof.
  unfold build_typedecl. destruct (td_name d) as [name|]; [|intros [= _ <-]; apply table_le_refl].
  destruct (text_eqb _ _);
    [destruct (ident_flag _ _); cbn [rbind]; [intros [= _ <-]; apply table_le_refl | discriminate]|].
  destruct (get_data_type _ _ _ _) as [[ty' dt]|]; cbn [rbind]; [|discriminate].
  match goal with |- context [enter t (id_val name) ?v] => set (e := v) end.
  destruct (enter t (id_val name) e) as [t1 ok] eqn:En.
  destruct (if ok then _ else _); cbn [rbind]; [|discriminate].
  intros [= _ <-] k H.
  replace t1 with (fst (enter t (id_val name) e)) by (rewrite En; reflexivity).
  apply enter_mono, H.
Qed.

Lemma build_procdecl_le_named d t off d' t' :
  build_procdecl d t off = ROk (d', t') -> table_le t t' /\ named_in t' (GProc d', 0).
Proof.
  unfold build_procdecl. destruct (pd_name d) as [name|] eqn:Hn.
  2:{ intros [= <- <-]. split; [apply table_le_refl|]. intros k. cbn. rewrite Hn. discriminate. }
  destruct (build_parameters _ _ _ _) as [[[ps' l1] params]|]; cbn [rbind]; [|discriminate].
  destruct (build_variables _ _ _ _) as [[vs' l2]|]; cbn [rbind]; [|discriminate].
  match goal with |- context [enter t (id_val name) ?v] => set (e := v) end.
  destruct (enter t (id_val name) e) as [t1 ok] eqn:En.
  destruct (if ok then _ else _) as [name'|] eqn:Hf; cbn [rbind]; [|discriminate].
  assert (Hv : id_val name' = id_val name).
  { destruct ok; [injection Hf as <-; reflexivity | eapply ident_flag_val; eassumption]. }
  assert (Ht : t1 = fst (enter t (id_val name) e)) by (rewrite En; reflexivity).
  intros [= <- <-]. split.
  - intros k H. rewrite Ht. apply enter_mono, H.
  - intros k. cbn. intros [= <-]. rewrite Hv, Ht, enter_lookup_same.
    destruct (lookup t (id_val name)); discriminate.
Qed.

Lemma build_gdecl_le_named d t off d' t' o :
  build_gdecl d t off = ROk (d', t') -> table_le t t' /\ named_in t' (d', o).
Proof.
  destruct d as [td | pd | inf]; cbn [build_gdecl].
  - destruct (build_typedecl td t off) as [[x tb]|] eqn:E; cbn [rbind]; [|discriminate].
    intros [= <- <-]. split; [eapply build_typedecl_le; eassumption | intros k; discriminate].
  - destruct (build_procdecl pd t off) as [[x tb]|] eqn:E; cbn [rbind]; [|discriminate].
    intros [= <- <-]. destruct (build_procdecl_le_named _ _ _ _ _ E) as [H1 H2]. split; [exact H1 | exact H2].
  - intros [= <- <-]. split; [apply table_le_refl | intros k; discriminate].
Qed.

Lemma named_in_le t t' d : table_le t t' -> named_in t d -> named_in t' d.
Proof. intros H1 H2 k Hk. apply H1, H2, Hk. Qed.

Lemma build_gdecls_le_named ds t off ds' t' :
  build_gdecls ds t off = ROk (ds', t') -> table_le t t' /\ Forall (named_in t') ds'.
Proof.
  revert t ds' t'. induction ds as [|[d o] r IH]; intros t ds' t'; cbn [build_gdecls].
  - intros [= <- <-]. split; [apply table_le_refl | constructor].
  - destruct (build_gdecl d t (off + o)) as [[d1 t1]|] eqn:E1; cbn [rbind]; [|discriminate].
    destruct (build_gdecls r t1 off) as [[r1 t2]|] eqn:E2; cbn [rbind]; [|discriminate].
    intros [= <- <-].
    destruct (build_gdecl_le_named _ _ _ _ _ o E1) as [Hle1 Hn1].
    destruct (IH _ _ _ E2) as [Hle2 Hn2].
    split; [eapply table_le_trans; eassumption|].
    constructor; [eapply named_in_le; eassumption | exact Hn2].
Qed.

(* the declarations of the program returned by build all have their entry in the returned table *)
Lemma build_named p0 p t : build_res p0 = ROk (p, t) -> Forall (named_in t) (pg_decls p).
Proof.
  unfold build_res, build_program.
  destruct (build_gdecls (pg_decls p0) initialized 0) as [[ds' t']|] eqn:E; cbn [rbind]; [|discriminate].
  destruct (build_gdecls_le_named _ _ _ _ _ E) as [_ H].
  destruct (lookup t' s_main) as [[te|main]|]; [discriminate | destruct (pe_params main) |];
    try (intros [= <- <-]; exact H).
  destruct (to_error _ _); cbn [rbind]; [|discriminate]. intros [= <- <-]; exact H.
Qed.

Definition no_entry_free (s : site) : Prop := s <> SiteNoEntry.

Lemma fo_weaken {A} (P Q : site -> Prop) (r : res A) :
  (forall s, P s -> Q s) -> fails_only P r -> fails_only Q r.
Proof. intros H Hr s Hs. apply H, Hr, Hs. Qed.

Lemma ident_site_no_entry s : ident_site s -> no_entry_free s.
Proof. intros -> H. discriminate. Qed.

Lemma fo_analyze_gdecl t d : named_in t d -> fails_only no_entry_free (analyze_gdecl t d).
Proof.
  intros Hn. unfold analyze_gdecl. destruct d as [g offset]. destruct g as [td | pd | inf]; try apply fo_ok.
  destruct (pd_name pd) as [name|] eqn:Hname; [|apply fo_ok].
  destruct (lookup t (id_val name)) as [[te|pe]|] eqn:L.
  - apply fo_ok.
  - destruct (negb _); [apply fo_ok|].
    apply fo_bind; [|intros; apply fo_ok].
    eapply fo_weaken; [apply ident_site_no_entry | apply fo_an_stmts].
  - exfalso. apply (Hn (id_val name)); [cbn; rewrite Hname; reflexivity | exact L].
Qed.

Lemma fo_analyze_gdecls t ds : Forall (named_in t) ds -> fails_only no_entry_free (analyze_gdecls t ds).
Proof.
  induction 1 as [|d r Hd Hr IH]; cbn [analyze_gdecls]; [apply fo_ok|].
  apply fo_bind; [apply fo_analyze_gdecl, Hd | intros d' _].
  apply fo_bind; [apply IH | intros; apply fo_ok].
Qed.

(* (2) `analyze` applied to what `build` returned never reaches
   .expect("Named declaration without entry") *)
Theorem analyze_after_build_has_entries p0 p t :
  build_res p0 = ROk (p, t) -> analyze_res p t <> RFail SiteNoEntry.
Proof.
  intros Hb H. unfold analyze_res in H.
  assert (Hf : fails_only no_entry_free (do ds' <- analyze_gdecls t (pg_decls p);
                                         ROk {| pg_decls := ds'; pg_info := pg_info p |})).
  { apply fo_bind; [apply fo_analyze_gdecls; eapply build_named; eassumption | intros; apply fo_ok]. }
  exact (Hf _ H eq_refl).
Qed.

(* the only panic site `analyze` can reach after `build` is the assert of Identifier::to_error *)
Theorem analyze_after_build_sites p0 p t :
  build_res p0 = ROk (p, t) -> fails_only ident_site (analyze_res p t).
Proof.
  intros Hb. unfold analyze_res. apply fo_bind; [|intros; apply fo_ok].
  pose proof (build_named _ _ _ Hb) as Hn. induction Hn as [|d r Hd Hr IH]; cbn [analyze_gdecls]; [apply fo_ok|].
  apply fo_bind; [|intros d' _; apply fo_bind; [apply IH | intros; apply fo_ok]].
  unfold analyze_gdecl. destruct d as [g offset]. destruct g as [td | pd | inf]; try apply fo_ok.
  destruct (pd_name pd) as [name|] eqn:Hname; [|apply fo_ok].
  destruct (lookup t (id_val name)) as [[te|pe]|] eqn:L.
  - apply fo_ok.
  - destruct (negb _); [apply fo_ok|]. apply fo_bind; [apply fo_an_stmts | intros; apply fo_ok].
  - exfalso. apply (Hd (id_val name)); [cbn; rewrite Hname; reflexivity | exact L].
Qed.

(* ------------------------------------------------------------------------------------------ *)
(* the same facts for AnalyzedSource::new and at the level of `outcome` *)

Theorem new_doc_sites text s :
  new_doc_res text = OFail s -> s = SiteParserCannotFail \/ s = SiteIdentEmpty.
Proof.
  unfold new_doc_res. destruct (lex text) as [toks|]; [|discriminate].
  destruct (parse toks) as [p| |]; [|intros [= <-]; left; reflexivity | discriminate].
  destruct (build_res p) as [[p1 t]|s1] eqn:Hb.
  - destruct (analyze_res p1 t) as [p2|s2] eqn:Ha; [discriminate|].
    intros [= <-]. right. exact (analyze_after_build_sites _ _ _ Hb _ Ha).
  - intros [= <-]. right. exact (build_sites _ _ Hb).
Qed.

Corollary new_doc_never_main_panic text : new_doc_res text <> OFail SiteMainNotProc.
Proof. intros H. destruct (new_doc_sites _ _ H); discriminate. Qed.

Corollary new_doc_never_no_entry text : new_doc_res text <> OFail SiteNoEntry.
Proof. intros H. destruct (new_doc_sites _ _ H); discriminate. Qed.

(* `build p = Panic` can only be the assert of Identifier::to_error *)
Corollary build_panic_is_ident_assert p : build p = Panic -> build_res p = RFail SiteIdentEmpty.
Proof.
  unfold build, to_outcome. destruct (build_res p) as [x|s] eqn:E; [discriminate|].
  intros _. rewrite (build_sites p s E). reflexivity.
Qed.

(* non-vacuity: the panic sites are real constructors of the model's outcome, and the theorems
   above are not about an always-failing function *)
Example build_of_empty_program :
  exists t, build {| pg_decls := []; pg_info := mkinfo 0 1 |} =
            Done ({| pg_decls := [];
                     pg_info := info_append (mkinfo 0 1) (mkerr_t (0, 0) (EBuild MainIsMissing)) |}, t).
Proof. eexists. vm_compute. reflexivity. Qed.

Example ident_assert_reachable_on_ill_formed_tree :
  build {| pg_decls := [(GType {| td_doc := []; td_name := Some (new_ident s_int); td_ty := None;
                                  td_info := mkinfo 0 0 |}, 0)];
           pg_info := mkinfo 0 0 |} = Panic.
Proof. vm_compute. reflexivity. Qed.
