(* Unfolding equations for the fuel-recursive non-terminals of Model/Parser.v (generated from the
   model source; each is proved by reflexivity, so it cannot drift from the model). *)
From Spl Require Import Model.Parser.
Local Open Scope nat_scope.

Lemma p_variable_S toks f : p_variable toks (S f) =
  fun s =>
      bind (p_pair (p_info (p_map NamedVar (p_ident toks)))
              (p_many0 f (p_info (p_preceded ((p_tag toks) (is_k LBracket))
                 (p_pair (p_expect (p_ref ((p_comparison toks) f)) (ExpectedToken s_expression))
                         (p_expect ((p_tag toks) (is_k RBracket)) (MissingClosing 93%N)))))) s)
        (fun s' r =>
           let '((v0, vinfo), accesses) := r in
           POk s' (fold_left (fun v a => ArrAccess v (fst (fst a)) (extend_range (snd a) vinfo)) accesses v0)).
Proof. reflexivity. Qed.

Lemma p_variable_0 toks : p_variable toks 0 = fun _ => PFuel.
Proof. reflexivity. Qed.

Lemma p_primary_S toks f : p_primary toks (S f) =
  fun s0 =>
      p_alt (p_map EInt (p_intlit toks))
      (p_alt (p_map EVar ((p_variable toks) f))
        
        (fun s =>
           bind (p_info (p_pair (p_info ((p_tag toks) (is_k LParen)))
                   (p_pair (p_expect ((p_comparison toks) f) (ExpectedToken s_expression))
                           (p_expect ((p_tag toks) (is_k RParen)) (MissingClosing 41%N)))) s)
             (fun s' r =>
                let '(((_, lp_info), (e, _)), inf) := r in
                let ep := i_e lp_info in
                POk s' (EBrack (match e with Some x => x | None => EErr (mkinfo ep ep) end) inf)))) s0.
Proof. reflexivity. Qed.

Lemma p_primary_0 toks : p_primary toks 0 = fun _ => PFuel.
Proof. reflexivity. Qed.

Lemma p_factor_S toks f : p_factor toks (S f) =
  fun s0 =>
      p_alt ((p_primary toks) f)
        
        (p_map (fun ei => EUn OSub (fst ei) (snd ei)) (p_info (p_preceded ((p_tag toks) (is_k Minus)) ((p_factor toks) f)))) s0.
Proof. reflexivity. Qed.

Lemma p_factor_0 toks : p_factor toks 0 = fun _ => PFuel.
Proof. reflexivity. Qed.

Lemma mul_loop_S toks f s lhs : mul_loop toks (S f) s lhs =
  match (p_tag toks) is_mulop s with
      | POk s1 op => bind (p_rhs ((p_factor toks) f) lhs (op_of (tk op)) s1) (fun s2 e => (mul_loop toks) f s2 e)
      | PErr _ => POk s lhs
      | PFuel => PFuel
      end.
Proof. reflexivity. Qed.

Lemma mul_loop_0 toks s lhs : mul_loop toks 0 s lhs = PFuel.
Proof. reflexivity. Qed.

Lemma p_mul_S toks f : p_mul toks (S f) =
  fun s => bind ((p_factor toks) f s) (fun s1 e => (mul_loop toks) f s1 e).
Proof. reflexivity. Qed.

Lemma p_mul_0 toks : p_mul toks 0 = fun _ => PFuel.
Proof. reflexivity. Qed.

Lemma add_loop_S toks f s lhs : add_loop toks (S f) s lhs =
  match (p_tag toks) is_addop s with
      | POk s1 op => bind (p_rhs ((p_mul toks) f) lhs (op_of (tk op)) s1) (fun s2 e => (add_loop toks) f s2 e)
      | PErr _ => POk s lhs
      | PFuel => PFuel
      end.
Proof. reflexivity. Qed.

Lemma add_loop_0 toks s lhs : add_loop toks 0 s lhs = PFuel.
Proof. reflexivity. Qed.

Lemma p_add_S toks f : p_add toks (S f) =
  fun s => bind ((p_mul toks) f s) (fun s1 e => (add_loop toks) f s1 e).
Proof. reflexivity. Qed.

Lemma p_add_0 toks : p_add toks 0 = fun _ => PFuel.
Proof. reflexivity. Qed.

Lemma p_comparison_S toks f : p_comparison toks (S f) =
  fun s =>
      bind ((p_add toks) f s) (fun s1 e =>
        match (p_tag toks) is_cmpop s1 with
        | POk s2 op => p_rhs ((p_add toks) f) e (op_of (tk op)) s2
        | PErr _ => POk s1 e
        | PFuel => PFuel
        end).
Proof. reflexivity. Qed.

Lemma p_comparison_0 toks : p_comparison toks 0 = fun _ => PFuel.
Proof. reflexivity. Qed.

Lemma p_texpr_S toks f : p_texpr toks (S f) =
  fun s0 =>
      p_alt
        
        (p_map (fun r => let '((_, (_, (size, (_, (_, base))))), inf) := r in TArray size base inf)
           (p_info (p_pair ((p_tag toks) (is_k KArray))
                   (p_pair (p_expect ((p_tag toks) (is_k LBracket)) (ExpectedToken s_lbracket))
                   (p_pair (p_expect (p_intlit toks) (ExpectedToken s_intlit))
                   (p_pair (p_expect ((p_tag toks) (is_k RBracket)) (MissingClosing 93%N))
                   (p_pair (p_expect ((p_tag toks) (is_k KOf)) (ExpectedToken s_of))
                           (p_expect (p_ref ((p_texpr toks) f)) (ExpectedToken s_typeexpr)))))))))
        (p_map TNamed (p_ident toks)) s0.
Proof. reflexivity. Qed.

Lemma p_texpr_0 toks : p_texpr toks 0 = fun _ => PFuel.
Proof. reflexivity. Qed.

Lemma p_stmt_S toks f : p_stmt toks (S f) =
  fun s0 =>
      p_alt (p_map (fun ti => SEmpty (snd ti)) (p_info ((p_tag toks) (is_k Semic))))
      (p_alt 
         (p_map (fun r => let '((_, (_, (c, (_, (t, e))))), inf) := r in
                          SIf c t (match e with Some x => x | None => None end) inf)
            (p_info (p_pair ((p_tag toks) (is_k KIf))
                    (p_pair (p_expect ((p_tag toks) (is_k LParen)) (MissingOpening 40%N))
                    (p_pair (p_expect (p_ref ((p_expr toks) f)) (ExpectedToken s_expression))
                    (p_pair (p_expect ((p_tag toks) (is_k RParen)) (MissingClosing 41%N))
                    (p_pair (p_expect (p_ref ((p_stmt toks) f)) (ExpectedToken s_expression))
                            (p_opt (p_preceded ((p_tag toks) (is_k KElse))
                                      (p_expect (p_ref ((p_stmt toks) f)) (ExpectedToken s_statement)))))))))))
      (p_alt 
         (p_map (fun r => let '((_, (_, (c, (_, b)))), inf) := r in SWhile c b inf)
            (p_info (p_pair ((p_tag toks) (is_k KWhile))
                    (p_pair (p_expect ((p_tag toks) (is_k LParen)) (MissingOpening 40%N))
                    (p_pair (p_expect (p_ref ((p_expr toks) f)) (ExpectedToken s_expression))
                    (p_pair (p_expect ((p_tag toks) (is_k RParen)) (MissingClosing 41%N))
                            (p_expect (p_ref ((p_stmt toks) f)) (ExpectedToken s_expression))))))))
      (p_alt 
         (p_map (fun r => SBlock (fst (fst r)) (snd r))
            (p_info (p_preceded ((p_tag toks) (is_k LCurly))
                       (p_pair (p_many0 f (p_ref ((p_stmt toks) f)))
                               (p_expect ((p_tag toks) (is_k RCurly)) (MissingClosing 125%N))))))
      (p_alt ((p_call toks) f)
      (p_alt ((p_assign toks) f)
         
         (p_restore
         (p_map (fun r => let '((_, ignored), inf) := r in
                          SError (info_append inf {| e_s := i_s inf; e_e := i_e inf;
                                                     e_m := EParse (UnexpectedCharacters (show_tokens ignored)) |}))
            (p_info (p_pair (p_comments toks) ((p_ignore1 toks) (la_stmt toks))))))))))) s0.
Proof. reflexivity. Qed.

Lemma p_stmt_0 toks : p_stmt toks 0 = fun _ => PFuel.
Proof. reflexivity. Qed.
