(* C16 - completion on VALID programs, part 3: statement positions inside NESTED blocks.

   [sgap s g]: token index g, relative to the first token of statement s (leading comments included),
   is a statement position of a block `{ .. }` that is s itself or is nested in s at any depth
   (through blocks, branches of `if`, bodies of `while`): the index of the first token of a statement
   of that block, or of the block's closing brace (with the comments in front of it).

   [complete_statement_gap]: with the position in the gap in front of such an index,
   `complete_statement` answers the statement proposals - with the `else` starters in front when some
   enclosing statement follows an `if` in its list and the token in front of the gap is `}`.
   [complete_procedure_nested_gap]: the same for `complete_procedure` when the gap lies inside a
   top-level statement of the body. *)
From Coq Require Import PeanoNat NArith Lia List Bool.
From Spl Require Import Proofs.GrammarBase Proofs.GrammarExpr Proofs.GrammarStmt.
From Spl Require Import Proofs.GrammarProofs Spec.Typing Model.Errors Proofs.SemProofs Proofs.TypingProofs.
From Spl Require Import Model.Hover Model.Fold Proofs.LexerProofs Proofs.FoldProofs Proofs.HoverProofs.
From Spl Require Import Proofs.HoverValid Model.Completion Proofs.CompletionProofs.
From Spl Require Import Proofs.ComplValidBase Proofs.ComplValidProc.
Import ListNotations.
Local Open Scope nat_scope.

Inductive sgap : astmt -> nat -> Prop :=
| SG_here c1 b1 b2 c2 : sgap (SBlk c1 (sapp b1 b2) c2) (len c1 + 1 + len (fl_stmts b1))
| SG_blk c1 b1 s b2 c2 g : sgap s g -> sgap (SBlk c1 (sapp b1 (SCons s b2)) c2) (len c1 + 1 + len (fl_stmts b1) + g)
| SG_ift c1 c2 e c3 t g : sgap t g ->
    sgap (SIfT c1 c2 e c3 t) (len c1 + 1 + len c2 + 1 + len (fl_cmp e) + len c3 + 1 + g)
| SG_ife_t c1 c2 e c3 t c4 s g : sgap t g ->
    sgap (SIfE c1 c2 e c3 t c4 s) (len c1 + 1 + len c2 + 1 + len (fl_cmp e) + len c3 + 1 + g)
| SG_ife_e c1 c2 e c3 t c4 s g : sgap s g ->
    sgap (SIfE c1 c2 e c3 t c4 s) (len c1 + 1 + len c2 + 1 + len (fl_cmp e) + len c3 + 1 + len (fl_stmt t) + len c4 + 1 + g)
| SG_whl c1 c2 e c3 b g : sgap b g ->
    sgap (SWhl c1 c2 e c3 b) (len c1 + 1 + len c2 + 1 + len (fl_cmp e) + len c3 + 1 + g).

Lemma sgap_bounds s g : sgap s g -> 1 <= g /\ g + 1 <= len (fl_stmt s).
Proof.
  induction 1 as [c1 b1 b2 c2 | c1 b1 s b2 c2 g _ IH | c1 c2 e c3 t g _ IH | c1 c2 e c3 t c4 s g _ IH
                 | c1 c2 e c3 t c4 s g _ IH | c1 c2 e c3 b g _ IH]; cbn [fl_stmt];
    rewrite ?fl_stmts_sapp; cbn [fl_stmts]; split; leneq.
Qed.

Lemma sgap_real s g : sgap s g -> is_emp s = false.
Proof. destruct 1; reflexivity. Qed.

(* ---------------------------------------------------------------------------------------- *)
(* gaps and sub-slices                                                                        *)

Definition gap_ok (sl : list token) (position : N) (i : nat) : Prop :=
  (forall k t, nth_error sl k = Some t -> k < i -> (ts t <= position /\ te t <= position)%N) /\
  (forall k t, nth_error sl k = Some t -> i <= k -> (position < ts t)%N).

Lemma gap_ok_sub sl position off n g :
  gap_ok sl position (off + g) -> gap_ok (firstn n (skipn off sl)) position g.
Proof.
  intros [Hb Ha]. split; intros k t Hk Hlt; apply nth_firstn in Hk as [Hk _]; rewrite nth_skipn in Hk.
  - apply (Hb _ _ Hk). lia.
  - apply (Ha _ _ Hk). lia.
Qed.

Lemma gap_ok_eq sl position i i' : i = i' -> gap_ok sl position i -> gap_ok sl position i'.
Proof. now intros ->. Qed.

(* the slicing steps in front of a nested statement, and whether its text range holds the position *)
Lemma child_range sl position off n inf i :
  toks_sorted sl = true -> 1 <= n -> off + n <= len sl -> i_s inf = 0 -> i_e inf = n -> gap_ok sl position i ->
  exists tr, slice_from sl off = ROk (skipn off sl) /\
    slice (skipn off sl) (info_range inf) = ROk (firstn n (skipn off sl)) /\
    info_text_range (firstn n (skipn off sl)) inf = ROk tr /\
    (off < i -> i < off + n -> in_range tr position = true) /\
    (off + n <= i -> in_range tr position = false).
Proof.
  intros Hs Hp Hl His Hie [Hb Ha].
  destruct (stmt_range_at sl off n inf Hp Hl His Hie) as [f [la [Hf [Hla [E1 [E2 E3]]]]]].
  exists (ts f, te la). repeat split; try assumption; intros; unfold in_range; cbn [fst snd].
  - destruct (Hb _ _ Hf ltac:(lia)) as [H1 _]. pose proof (Ha _ _ Hla ltac:(lia)) as H2.
    pose proof (sorted_self _ Hs _ _ Hla).
    destruct (N.leb_spec (ts f) position); [|lia]. destruct (N.ltb_spec position (te la)); [reflexivity | lia].
  - destruct (Hb _ _ Hla ltac:(lia)) as [_ H1]. destruct (N.ltb_spec position (te la)); [lia|]. now rewrite andb_false_r.
Qed.

Lemma sub_sorted (sl : list token) off n : toks_sorted sl = true -> toks_sorted (firstn n (skipn off sl)) = true.
Proof. intros H. now apply toks_sorted_firstn, toks_sorted_skipn. Qed.

Lemma sub_length (sl : list token) off n : off + n <= len sl -> len (firstn n (skipn off sl)) = n.
Proof. intros H. rewrite firstn_length, skipn_length. lia. Qed.

(* ---------------------------------------------------------------------------------------- *)
(* complete_statement on a gap inside a statement                                             *)

Definition else_or_not (pre : list item) : Prop := pre = [] \/ pre = [snip_else; item_else].

Definition stmt_gap_answer (l : option ltable) (gt : gtable) (position : N) (s : astmt) (g : nat) : Prop :=
  forall sl last prev_if, toks_sorted sl = true -> len sl = len (fl_stmt s) -> gap_ok sl position g ->
  exists pre, else_or_not pre /\
    complete_statement (x_stmt 0 s) position sl last prev_if l gt = ROk (Some (pre ++ new_stmt l gt)).

(* a statement list whose member s (behind b1) holds the gap *)
Lemma cs_nested l gt position b1 s b2 g o sl last prev_if :
  stmt_gap_answer l gt position s g -> 1 <= g -> g + 1 <= len (fl_stmt s) ->
  toks_sorted sl = true -> o + len (fl_stmts (sapp b1 (SCons s b2))) <= len sl ->
  gap_ok sl position (o + len (fl_stmts b1) + g) ->
  exists pre, else_or_not pre /\
    complete_statements (x_stmts o (sapp b1 (SCons s b2))) position sl last prev_if l gt = ROk (Some (pre ++ new_stmt l gt)).
Proof.
  intros IH Hg1 Hg2 Hs Hlen Hgap. rewrite fl_stmts_sapp in Hlen. cbn [fl_stmts] in Hlen. rewrite !app_length in Hlen.
  rewrite x_stmts_sapp. destruct Hgap as [Hb Ha].
  destruct (cs_before sl position (o + len (fl_stmts b1) + g) Hb last l gt b1 o prev_if
              (x_stmts (o + len (fl_stmts b1)) (SCons s b2)) ltac:(lia) ltac:(lia)) as [pi ->].
  cbn [x_stmts complete_statements].
  destruct (x_stmt_info s) as [His Hie].
  destruct (child_range sl position (o + len (fl_stmts b1)) (len (fl_stmt s)) (stmt_info (x_stmt 0 s)) (o + len (fl_stmts b1) + g)
              Hs ltac:(lia) ltac:(lia) His Hie (conj Hb Ha)) as [tr [E1 [E2 [E3 [Hin _]]]]].
  rewrite E1. cbn [rbind]. rewrite E2. cbn [rbind]. rewrite E3. cbn [rbind]. rewrite Hin by lia.
  apply IH; [now apply sub_sorted | apply sub_length; lia | apply gap_ok_sub; exact (conj Hb Ha)].
Qed.

(* the same continuation shape for the three kinds of nested single statements *)
Lemma branch_in l gt position s g off sl last (K : res (option (list item))) :
  stmt_gap_answer l gt position s g -> 1 <= g -> g + 1 <= len (fl_stmt s) ->
  toks_sorted sl = true -> off + len (fl_stmt s) <= len sl -> gap_ok sl position (off + g) ->
  exists pre, else_or_not pre /\
    (do tl <- slice_from sl off;
     do sl' <- slice tl (info_range (stmt_info (x_stmt 0 s)));
     do tr <- info_text_range sl' (stmt_info (x_stmt 0 s));
     if in_range tr position then complete_statement (x_stmt 0 s) position sl' last false l gt else K)
    = ROk (Some (pre ++ new_stmt l gt)).
Proof.
  intros IH Hg1 Hg2 Hs Hlen Hgap. destruct (x_stmt_info s) as [His Hie].
  destruct (child_range sl position off (len (fl_stmt s)) (stmt_info (x_stmt 0 s)) (off + g)
              Hs ltac:(lia) Hlen His Hie Hgap) as [tr [E1 [E2 [E3 [Hin _]]]]].
  rewrite E1. cbn [rbind]. rewrite E2. cbn [rbind]. rewrite E3. cbn [rbind]. rewrite Hin by lia.
  apply IH; [now apply sub_sorted | now apply sub_length | now apply gap_ok_sub].
Qed.

Lemma branch_out l gt position s off i sl last (K : res (option (list item))) :
  toks_sorted sl = true -> off + len (fl_stmt s) <= len sl -> gap_ok sl position i -> off + len (fl_stmt s) <= i ->
  (do tl <- slice_from sl off;
   do sl' <- slice tl (info_range (stmt_info (x_stmt 0 s)));
   do tr <- info_text_range sl' (stmt_info (x_stmt 0 s));
   if in_range tr position then complete_statement (x_stmt 0 s) position sl' last false l gt else K) = K.
Proof.
  intros Hs Hlen Hgap Hle. destruct (x_stmt_info s) as [His Hie]. pose proof (stmt_len_pos s) as Hp.
  destruct (child_range sl position off (len (fl_stmt s)) (stmt_info (x_stmt 0 s)) i
              Hs Hp Hlen His Hie Hgap) as [tr [E1 [E2 [E3 [_ Hout]]]]].
  rewrite E1. cbn [rbind]. rewrite E2. cbn [rbind]. rewrite E3. cbn [rbind]. now rewrite Hout.
Qed.

Theorem complete_statement_gap l gt position s g : sgap s g -> stmt_gap_answer l gt position s g.
Proof.
  induction 1 as [c1 b1 b2 c2 | c1 b1 s b2 c2 g Hg IH | c1 c2 e c3 t g Hg IH | c1 c2 e c3 t c4 s g Hg IH
                 | c1 c2 e c3 t c4 s g Hg IH | c1 c2 e c3 b g Hg IH];
    intros sl last prev_if Hs Hlen Hgap; cbn [fl_stmt] in Hlen; rewrite ?fl_stmts_sapp in Hlen; cbn [fl_stmts] in Hlen;
    repeat (rewrite app_length in Hlen || rewrite cm_length in Hlen || cbn [length] in Hlen).
  - (* the block itself *)
    cbn [x_stmt]. rewrite complete_statement_block.
    destruct (prev_if && is_rcurly (tk last)); [exists [snip_else; item_else]; split; [now right | reflexivity]|].
    exists []. split; [now left|]. cbn [app]. destruct Hgap as [Hb Ha].
    apply (cs_gap sl position (len c1 + 1 + len (fl_stmts b1)) Hb Ha); lia.
  - (* a statement of the block *)
    cbn [x_stmt]. rewrite complete_statement_block.
    destruct (prev_if && is_rcurly (tk last)); [exists [snip_else; item_else]; split; [now right | reflexivity]|].
    destruct (sgap_bounds _ _ Hg) as [Hg1 Hg2].
    apply (cs_nested l gt position b1 s b2 g); try assumption;
      try (eapply gap_ok_eq; [|exact Hgap]; lia).
    rewrite fl_stmts_sapp. cbn [fl_stmts]. rewrite !app_length. lia.
  - (* then-branch, no else *)
    cbn [x_stmt complete_statement].
    destruct (prev_if && is_rcurly (tk last)); [exists [snip_else; item_else]; split; [now right | reflexivity]|].
    destruct (sgap_bounds _ _ Hg) as [Hg1 Hg2].
    apply (branch_in l gt position t g); try assumption; try lia; try (eapply gap_ok_eq; [|exact Hgap]; lia).
  - (* then-branch, with else *)
    cbn [x_stmt complete_statement].
    destruct (prev_if && is_rcurly (tk last)); [exists [snip_else; item_else]; split; [now right | reflexivity]|].
    destruct (sgap_bounds _ _ Hg) as [Hg1 Hg2].
    apply (branch_in l gt position t g); try assumption; try lia; try (eapply gap_ok_eq; [|exact Hgap]; lia).
  - (* else-branch *)
    cbn [x_stmt complete_statement].
    destruct (prev_if && is_rcurly (tk last)); [exists [snip_else; item_else]; split; [now right | reflexivity]|].
    destruct (sgap_bounds _ _ Hg) as [Hg1 Hg2].
    rewrite (branch_out l gt position t (0 + len c1 + 1 + len c2 + 1 + len (fl_cmp e) + len c3 + 1) _ sl last _ Hs ltac:(lia) Hgap ltac:(lia)).
    apply (branch_in l gt position s g); try assumption; try lia; try (eapply gap_ok_eq; [|exact Hgap]; lia).
  - (* loop body *)
    cbn [x_stmt complete_statement].
    destruct (prev_if && is_rcurly (tk last)); [exists [snip_else; item_else]; split; [now right | reflexivity]|].
    destruct (sgap_bounds _ _ Hg) as [Hg1 Hg2].
    apply (branch_in l gt position b g); try assumption; try lia; try (eapply gap_ok_eq; [|exact Hgap]; lia).
Qed.

(* ---------------------------------------------------------------------------------------- *)
(* complete_procedure: the gap inside a top-level statement of the body                       *)

Lemma in_stmts_inside sl position i :
  (forall k t, nth_error sl k = Some t -> k < i -> (ts t <= position /\ te t <= position)%N) ->
  forall b1 s b2 o, is_emp s = false -> o + len (fl_stmts b1) < i ->
  o + len (fl_stmts (sapp b1 (SCons s b2))) <= len sl ->
  in_stmts_test sl position (x_stmts o (sapp b1 (SCons s b2))) = ROk true.
Proof.
  intros Hb. unfold in_stmts_test.
  induction b1 as [|s1 r IH]; intros s b2 o He Hlt Hlen; cbn [sapp x_stmts find fl_stmts] in *;
    rewrite ?app_length in *; rewrite real_x_stmt.
  - rewrite He. cbn [negb]. pose proof (stmt_len_pos s) as Hp. destruct (x_stmt_info s) as [His Hie].
    destruct (range_at sl o (len (fl_stmt s)) (stmt_info (x_stmt 0 s)) Hp ltac:(lia) His Hie) as [f [la [Hf [_ Hr]]]].
    rewrite slice_from_ok by lia. cbn [rbind]. rewrite Hr. cbn [rbind fst].
    destruct (Hb o f Hf ltac:(cbn [length] in Hlt; lia)) as [Hle _]. destruct (N.leb_spec (ts f) position); [reflexivity | lia].
  - pose proof (stmt_len_pos s1) as Hp. destruct (is_emp s1); cbn [negb].
    + apply IH; [exact He | lia | lia].
    + destruct (x_stmt_info s1) as [His Hie].
      destruct (range_at sl o (len (fl_stmt s1)) (stmt_info (x_stmt 0 s1)) Hp ltac:(lia) His Hie) as [f [la [Hf [_ Hr]]]].
      rewrite slice_from_ok by lia. cbn [rbind]. rewrite Hr. cbn [rbind fst].
      destruct (Hb o f Hf ltac:(lia)) as [Hle _]. destruct (N.leb_spec (ts f) position); [reflexivity | lia].
Qed.

Lemma complete_procedure_nested_gap c1 c2 x c3 ps c4 c5 vs b1 s b2 c6 (sl : list token) G position g tprev tnext :
  let dd := DProc c1 c2 x c3 ps c4 c5 vs (sapp b1 (SCons s b2)) c6 in
  let i := len (proc_head c1 c2 x c3 ps c4 c5) + len (flat_map fl_vardecl vs) + len (fl_stmts b1) + g in
  sgap s g ->
  toks_sorted sl = true -> map tk sl = fl_decl dd ->
  nth_error sl (i - 1) = Some tprev -> nth_error sl i = Some tnext ->
  (ts tprev < position)%N -> (te tprev <= position)%N -> (position < ts tnext)%N ->
  exists pre, else_or_not pre /\
    complete_procedure (the_proc dd) position sl G = ROk (Some (pre ++ new_stmt (get_local_table (the_proc dd) G) G)).
Proof.
  intros dd i Hg Hs Hk Hp Hn H1 H2 H3.
  set (h := len (proc_head c1 c2 x c3 ps c4 c5)) in *.
  destruct (sgap_bounds _ _ Hg) as [Hg1 Hg2].
  assert (Hh : len (proc_sig c1 c2 x c3 ps c4) + 2 <= h).
  { unfold h. rewrite proc_head_sig, app_length. cbn [length]. rewrite app_length. cbn [length]. lia. }
  assert (Hlen : len sl = h + len (flat_map fl_vardecl vs) + len (fl_stmts (sapp b1 (SCons s b2))) + len c6 + 1).
  { rewrite <- (map_length tk sl), Hk. unfold dd. rewrite fl_proc. unfold h. leneq. }
  pose proof (gap_before sl i tprev position Hs ltac:(unfold i; lia) Hp H2) as Hbefore.
  pose proof (gap_after sl i tnext position Hs Hn H3) as Hafter.
  assert (Htb : token_before sl position = Some tprev).
  { apply (token_before_sorted sl (i - 1) tprev tnext); try assumption; [|lia]. now replace (S (i - 1)) with i by (unfold i; lia). }
  destruct (sig_end_found c1 c2 x c3 ps c4 c5 _ _ c6 sl Hk) as [rp [Hrp [_ Hfind]]].
  assert (Hsig : (position <? ts rp)%N = false).
  { destruct (Hbefore _ rp Hrp ltac:(unfold i; lia)) as [Hle _]. destruct (N.ltb_spec position (ts rp)); [lia | reflexivity]. }
  rewrite (complete_procedure_body _ position sl G tprev rp true Htb Hfind Hsig).
  - unfold dd. rewrite the_proc_stmts. fold h. fold dd.
    apply (cs_nested (get_local_table (the_proc dd) G) G position b1 s b2 g); try assumption; [|lia|].
    + now apply complete_statement_gap.
    + split; [exact Hbefore | exact Hafter].
  - unfold dd. rewrite the_proc_stmts. fold h.
    apply (in_stmts_inside sl position i Hbefore); [exact (sgap_real _ _ Hg) | unfold i; lia | lia].
Qed.
