(* From token kinds back to text: the canonical spelling of a token kind ([spell]), the rendering of a
   kind sequence with whitespace gaps ([render_kinds]), and the theorem that the rendered text lexes to
   exactly these kinds ([render_lexes]) - an instance of C06 conformance (Proofs/LexConform.v). *)
From Spl Require Import Model.Lexer Spec.LexSpec Proofs.LexerProofs Proofs.LexLocality Proofs.LexRun
  Proofs.LexConformOne Proofs.LexConform.
From Coq Require Import PeanoNat.

(* ---- positional numerals ---- *)

(* most significant digit first; correct for v < b ^ fuel *)
Fixpoint digits_of (fuel : nat) (b : N) (dig : N -> char) (v : N) : text :=
  match fuel with
  | O => []
  | S f => if v <? b then [dig v] else digits_of f b dig (v / b) ++ [dig (v mod b)]
  end.

Definition dec_char (d : N) : char := 48 + d.
Definition hex_char (d : N) : char := if d <? 10 then 48 + d else 55 + d.     (* upper case *)
Definition dec_spelling (v : N) : text := digits_of 10 10 dec_char v.
Definition hex_spelling (v : N) : text := 48 :: 120 :: digits_of 8 16 hex_char v.

Lemma digits_nonempty f b dig v : digits_of (S f) b dig v <> [].
Proof. cbn [digits_of]. destruct (v <? b); [discriminate|]. destruct (digits_of f b dig (v / b)); discriminate. Qed.

Lemma digits_all (P : char -> bool) fuel b dig :
  b <> 0 -> (forall d, d < b -> P (dig d) = true) -> forall v, forallb P (digits_of fuel b dig v) = true.
Proof.
  intros Hb HP. induction fuel as [|f IH]; intros v; [reflexivity|]. cbn [digits_of].
  destruct (N.ltb_spec v b) as [L|L].
  - cbn [forallb]. now rewrite (HP v L).
  - rewrite forallb_app, IH. cbn [forallb]. rewrite HP; [reflexivity|]. now apply N.mod_lt.
Qed.

Lemma digits_value fuel b dig (val : char -> N) :
  1 < b -> (forall d, d < b -> val (dig d) = d) ->
  forall v, v < b ^ N.of_nat fuel ->
  fold_left (fun a c => a * b + val c) (digits_of fuel b dig v) 0 = v.
Proof.
  intros Hb Hval. induction fuel as [|f IH]; intros v Hv.
  - cbn in Hv. cbn. lia.
  - cbn [digits_of]. destruct (N.ltb_spec v b) as [L|L].
    + cbn [fold_left]. rewrite (Hval v L). lia.
    + rewrite fold_left_app. cbn [fold_left]. rewrite IH.
      * rewrite Hval by (apply N.mod_lt; lia). rewrite (N.div_mod v b) at 3 by lia. lia.
      * rewrite Nnat.Nat2N.inj_succ, N.pow_succ_r' in Hv. apply N.div_lt_upper_bound; [lia | exact Hv].
Qed.

Lemma dec_char_digit d : d < 10 -> is_digit (dec_char d) = true.
Proof.
  intros H. unfold is_digit, dec_char. apply andb_true_iff. split; apply N.leb_le; lia.
Qed.

Lemma hex_char_hex d : d < 16 -> is_hex (hex_char d) = true.
Proof.
  intros H. unfold is_hex, is_digit, hex_char. destruct (N.ltb_spec d 10) as [L|L].
  - assert (E : (48 <=? 48 + d) && (48 + d <=? 57) = true) by (apply andb_true_iff; split; apply N.leb_le; lia).
    now rewrite E.
  - assert (E : (65 <=? 55 + d) && (55 + d <=? 70) = true) by (apply andb_true_iff; split; apply N.leb_le; lia).
    rewrite E. now rewrite orb_true_r.
Qed.

Lemma dec_spelling_lexeme v : v < 4294967296 -> Lexeme (IntT (IntOk v)) (dec_spelling v).
Proof.
  intros Hv. apply Lx_int.
  - apply digits_nonempty.
  - apply digits_all; [discriminate | exact dec_char_digit].
  - symmetry. apply (digits_value 10 10 dec_char (fun c => c - 48)); [lia | | ].
    + intros d _. unfold dec_char. lia.
    + change (10 ^ N.of_nat 10) with 10000000000. lia.
  - exact Hv.
Qed.

Lemma hex_spelling_lexeme v : v < 4294967296 -> Lexeme (HexT (IntOk v)) (hex_spelling v).
Proof.
  intros Hv. apply Lx_hex.
  - apply digits_nonempty.
  - apply digits_all; [discriminate | exact hex_char_hex].
  - symmetry.
    apply (digits_value 8 16 hex_char (fun c => if c <=? 57 then c - 48 else if c <=? 70 then c - 55 else c - 87));
      [lia | | ].
    + intros d Hd. unfold hex_char. destruct (N.ltb_spec d 10) as [L|L].
      * destruct (N.leb_spec (48 + d) 57); lia.
      * destruct (N.leb_spec (55 + d) 57); [lia|]. destruct (N.leb_spec (55 + d) 70); lia.
    + change (16 ^ N.of_nat 8) with 4294967296. exact Hv.
  - exact Hv.
Qed.

(* ---- spelling ---- *)

Fixpoint rev_lookup (tbl : list (text * kind)) (k : kind) : option text :=
  match tbl with
  | [] => None
  | (p, j) :: tbl' => if kind_eqb j k then Some p else rev_lookup tbl' k
  end.

Lemma rev_lookup_in tbl k p : rev_lookup tbl k = Some p -> In (p, k) tbl.
Proof.
  induction tbl as [|[q j] tbl IH]; cbn [rev_lookup]; [discriminate|].
  destruct (kind_eqb j k) eqn:E.
  - intros [= ->]. apply kind_eqb_eq in E. subst j. now left.
  - intros H. right. now apply IH.
Qed.

(* the canonical spelling of a token kind that carries its value *)
Definition spell (k : kind) : option text :=
  match k with
  | Ident s => Some s
  | IntT (IntOk v) => Some (dec_spelling v)
  | HexT (IntOk v) => Some (hex_spelling v)
  | CharT c => Some (if c =? 10 then [39; 92; 110; 39] else [39; c; 39])
  | Comment b => Some (47 :: 47 :: b ++ [10])
  | IntT (IntErr _) | HexT (IntErr _) | Unknown _ | Eof => None
  | _ => orelse (rev_lookup sym_table k) (rev_lookup kw_table k)
  end.

(* the kinds whose spelling is a lexeme of that kind *)
Definition valid_ident (s : text) : bool :=
  match s with
  | [] => false
  | c :: r => is_ident_start c && forallb is_alnum_ascii r && negb (is_keyword_text s)
  end.

Definition valid_kind (k : kind) : bool :=
  match k with
  | Ident s => valid_ident s
  | IntT (IntOk v) | HexT (IntOk v) => v <? 4294967296
  | Comment b => forallb not_nl b
  | IntT (IntErr _) | HexT (IntErr _) | Unknown _ | Eof => false
  | _ => true
  end.

Definition valid_kinds (ks : list kind) : Prop := forallb valid_kind ks = true.

Definition spelling (k : kind) : text := match spell k with Some lx => lx | None => [] end.

Theorem spell_lexeme k lx : valid_kind k = true -> spell k = Some lx -> Lexeme k lx.
Proof.
  intros Hv Hs. destruct k as [ | | | | | | | | | | | | | | | | | | | | | | | | | | | | | s | c | r | r | b | u | ]; cbn [valid_kind] in Hv; cbn [spell] in Hs;
    try (match type of Hs with orelse _ _ = _ => vm_compute in Hs end;
         injection Hs as <-; first [apply Lx_sym; cbn; tauto | apply Lx_kw; cbn; tauto]).
  - injection Hs as <-. destruct s as [|c r]; [discriminate Hv|]. cbn [valid_ident] in Hv.
    apply andb_true_iff in Hv as [Hv H3]. apply andb_true_iff in Hv as [H1 H2].
    apply negb_true_iff in H3. now apply Lx_ident.
  - injection Hs as <-. destruct (N.eqb_spec c 10) as [->|_]; [apply Lx_char_nl | apply Lx_char].
  - destruct r as [v|]; [|discriminate Hv]. injection Hs as <-. apply N.ltb_lt in Hv. now apply dec_spelling_lexeme.
  - destruct r as [v|]; [|discriminate Hv]. injection Hs as <-. apply N.ltb_lt in Hv. now apply hex_spelling_lexeme.
  - injection Hs as <-. now apply Lx_comment.
  - discriminate Hv.
  - discriminate Hv.
Qed.

Lemma spell_total k : valid_kind k = true -> spell k = Some (spelling k).
Proof.
  intros Hv. unfold spelling. destruct k as [ | | | | | | | | | | | | | | | | | | | | | | | | | | | | | s | c | r | r | b | u | ]; try reflexivity; try discriminate Hv;
    destruct r; try reflexivity; discriminate Hv.
Qed.

Lemma spelling_lexeme k : valid_kind k = true -> Lexeme k (spelling k).
Proof. intros Hv. apply spell_lexeme; [exact Hv | now apply spell_total]. Qed.

Lemma spelling_closed k : closed_comment k (spelling k).
Proof.
  destruct k as [ | | | | | | | | | | | | | | | | | | | | | | | | | | | | | s | c | r | r | b | u | ]; try exact I.
  cbn [closed_comment spelling spell]. apply (last_app_single (47 :: 47 :: b) 10 0).
Qed.

(* ---- rendering ---- *)

Fixpoint spell_all (ks : list kind) : option (list text) :=
  match ks with
  | [] => Some []
  | k :: ks' =>
      match spell k, spell_all ks' with
      | Some lx, Some l => Some (lx :: l)
      | _, _ => None
      end
  end.

(* gap, spelling, gap, spelling, ..., gap *)
Definition render_kinds (ks : list kind) (gaps : list text) : option text :=
  if Nat.eqb (length gaps) (S (length ks)) then option_map (weave gaps) (spell_all ks) else None.

Lemma spell_all_valid ks : valid_kinds ks -> spell_all ks = Some (map spelling ks).
Proof.
  unfold valid_kinds. induction ks as [|k ks IH]; [reflexivity|]. cbn [forallb spell_all map]. intros H.
  apply andb_true_iff in H as [Hk Hks]. now rewrite (spell_total k Hk), (IH Hks).
Qed.

Theorem render_total ks gaps :
  valid_kinds ks -> length gaps = S (length ks) -> render_kinds ks gaps = Some (weave gaps (map spelling ks)).
Proof.
  intros Hv Hl. unfold render_kinds. rewrite Hl, Nat.eqb_refl, (spell_all_valid ks Hv). reflexivity.
Qed.

(* ---- when must two adjacent spellings be kept apart ? ---- *)

(* [Delimited], decided *)
Definition delimitedb (k : kind) (lx rest : text) : bool :=
  match k with
  | Ident _ | KIf | KElse | KWhile | KArray | KOf | KProc | KRef | KType | KVar =>
      match rest with [] => true | c :: _ => negb (is_alnum_trunc c) end
  | IntT _ =>
      match rest with [] => true | c :: _ => negb (is_digit c) && negb (text_eqb lx [48] && (c =? 120)) end
  | HexT _ => match rest with [] => true | c :: _ => negb (is_hex c) end
  | LtT | GtT | Colon => match rest with [] => true | c :: _ => negb (c =? 61) end
  | Divide => match rest with [] => true | c :: _ => negb (c =? 47) end
  | Comment _ => match rest with [] => true | _ => last lx 0 =? 10 end
  | _ => true
  end.

Lemma not61 c (r : text) : c <> 61 -> match c :: r with 61 :: _ => False | _ => True end.
Proof.
  intros H. destruct c as [|p]; [exact I|]. do 6 (destruct p as [p|p|]; try exact I). congruence.
Qed.

Lemma not47 c (r : text) : c <> 47 -> match c :: r with 47 :: _ => False | _ => True end.
Proof.
  intros H. destruct c as [|p]; [exact I|]. do 6 (destruct p as [p|p|]; try exact I). congruence.
Qed.

Lemma delimitedb_sound k lx rest : delimitedb k lx rest = true -> Delimited k lx rest.
Proof.
  destruct rest as [|c r]; [intros _; apply delimited_nil|].
  destruct k; cbn [delimitedb Delimited]; intros H; try exact I;
    try (apply negb_true_iff in H; exact H);
    try (apply negb_true_iff, N.eqb_neq in H; first [now apply not61 | now apply not47]).
  - apply andb_true_iff in H as [H1 H2]. apply negb_true_iff in H1, H2. split; [exact H1|].
    intros [-> ->]. discriminate H2.
  - now apply N.eqb_eq in H.
Qed.

(* would the spelling of [a], directly followed by the spelling of [b], lex differently ? *)
Definition needs_sep (a b : kind) : bool :=
  match spell a, spell b with
  | Some la, Some lb => negb (delimitedb a la lb)
  | _, _ => true
  end.

Definition sep_okb (k : kind) (ks' : list kind) (gaps' : list text) : bool :=
  match gaps' with
  | [] => false
  | (_ :: _) :: _ => true
  | [] :: _ => match ks' with [] => true | k' :: _ => negb (needs_sep k k') end
  end.

(* one more gap than kinds; whitespace only; a gap between two kinds may be empty only where the two
   spellings do not need a separator (the first and the last gap may always be empty) *)
Fixpoint gaps_okb (ks : list kind) (gaps : list text) : bool :=
  match ks, gaps with
  | [], [g] => forallb is_ws g
  | k :: ks', g :: gaps' => forallb is_ws g && sep_okb k ks' gaps' && gaps_okb ks' gaps'
  | _, _ => false
  end.

Definition gaps_ok (ks : list kind) (gaps : list text) : Prop := gaps_okb ks gaps = true.

(* the simple sufficient condition: every gap behind a token is non-empty *)
Definition gaps_simple (ks : list kind) (gaps : list text) : Prop :=
  length gaps = S (length ks) /\ Forall (fun g => forallb is_ws g = true) gaps /\ Forall (fun g => g <> []) (tl gaps).

Lemma gaps_simple_ok ks : forall gaps, gaps_simple ks gaps -> gaps_ok ks gaps.
Proof.
  unfold gaps_ok. induction ks as [|k ks IH]; intros gaps [Hl [Hw Hn]].
  - destruct gaps as [|g [|g2 gaps]]; try discriminate Hl. cbn [gaps_okb]. now inversion Hw.
  - destruct gaps as [|g gaps]; [discriminate Hl|]. cbn [length] in Hl. injection Hl as Hl.
    cbn [tl] in Hn. inversion Hw as [|? ? Hg Hw']; subst. cbn [gaps_okb]. rewrite Hg. cbn [andb].
    destruct gaps as [|g2 gaps]; [discriminate Hl|]. inversion Hn as [|? ? Hg2 Hn']; subst.
    destruct g2 as [|c g2]; [congruence|]. cbn [sep_okb andb]. apply IH. repeat split; assumption.
Qed.

(* the densest layout: a single blank exactly where two spellings need a separator *)
Fixpoint min_gaps (prev : option kind) (ks : list kind) : list text :=
  match ks with
  | [] => [[]]
  | k :: ks' =>
      match prev with Some a => if needs_sep a k then [32] else [] | None => [] end :: min_gaps (Some k) ks'
  end.

Lemma min_gaps_ok ks : forall prev, gaps_ok ks (min_gaps prev ks).
Proof.
  unfold gaps_ok. induction ks as [|k ks IH]; intros prev; [reflexivity|]. cbn [min_gaps gaps_okb].
  rewrite IH, andb_true_r. apply andb_true_iff. split.
  - destruct prev as [a|]; [destruct (needs_sep a k)|]; reflexivity.
  - destruct ks as [|k' ks]; [reflexivity|]. cbn [min_gaps sep_okb].
    destruct (needs_sep k k') eqn:E; cbn [sep_okb]; [reflexivity | now rewrite ?E].
Qed.

(* ---- the rendered text is a separated sequence of lexemes ---- *)

Definition ls_of (ks : list kind) : list (kind * text) := map (fun k => (k, spelling k)) ks.

Lemma ls_of_fst ks : map fst (ls_of ks) = ks.
Proof. unfold ls_of. rewrite map_map. cbn [fst]. apply map_id. Qed.

Lemma ls_of_snd ks : map snd (ls_of ks) = map spelling ks.
Proof. unfold ls_of. rewrite map_map. reflexivity. Qed.

Lemma ls_of_lexemes ks : valid_kinds ks -> Forall (fun kl => Lexeme (fst kl) (snd kl)) (ls_of ks).
Proof.
  unfold valid_kinds. induction ks as [|k ks IH]; [constructor|]. cbn [forallb]. intros H.
  apply andb_true_iff in H as [Hk Hks]. constructor; [cbn [fst snd]; now apply spelling_lexeme | now apply IH].
Qed.

Lemma gaps_ok_separated ks : forall gaps,
  valid_kinds ks -> gaps_ok ks gaps ->
  length gaps = S (length ks) /\ Forall (fun g => forallb is_ws g = true) gaps /\ SeparatedOK (ls_of ks) gaps.
Proof.
  unfold valid_kinds, gaps_ok. induction ks as [|k ks IH]; intros gaps Hv H.
  - destruct gaps as [|g [|g2 gaps]]; try discriminate H. cbn [gaps_okb] in H.
    split; [reflexivity|]. split; [now repeat constructor | exact I].
  - destruct gaps as [|g gaps]; [discriminate H|]. cbn [gaps_okb] in H.
    apply andb_true_iff in H as [H H3]. apply andb_true_iff in H as [H1 H2].
    cbn [forallb] in Hv. apply andb_true_iff in Hv as [Hk Hks].
    destruct (IH gaps Hks H3) as [Hl [Hw Hsep]].
    split; [cbn [length]; now rewrite Hl|]. split; [now constructor|].
    cbn [ls_of map SeparatedOK fst snd]. split; [|exact Hsep].
    destruct gaps as [|g2 gaps]; [discriminate H2|]. cbn [sep_okb] in H2.
    destruct g2 as [|c g2].
    + cbn [follow]. destruct ks as [|k' ks]; [apply delimited_nil|]. cbn [map snd].
      cbn [forallb] in Hks. apply andb_true_iff in Hks as [Hk' _].
      apply negb_true_iff in H2. unfold needs_sep in H2.
      rewrite (spell_total k Hk), (spell_total k' Hk') in H2. apply negb_false_iff in H2.
      now apply delimitedb_sound.
    + cbn [follow]. inversion Hw as [|? ? Hg2 _]; subst. cbn [forallb] in Hg2.
      apply andb_true_iff in Hg2 as [Hc _]. apply delimited_ws; [exact Hc | apply spelling_closed].
Qed.

(* ---- the theorem ---- *)

Theorem render_lexes_place ks gaps t :
  valid_kinds ks -> gaps_ok ks gaps -> render_kinds ks gaps = Some t ->
  t = weave gaps (map spelling ks) /\ lex t = Some (place 0 gaps (ls_of ks)) /\
  map tk (place 0 gaps (ls_of ks)) = ks ++ [Eof] /\ Forall (fun x => terr x = []) (place 0 gaps (ls_of ks)).
Proof.
  intros Hv Hg Hr. destruct (gaps_ok_separated ks gaps Hv Hg) as [Hl [Hw Hsep]].
  rewrite (render_total ks gaps Hv Hl) in Hr. injection Hr as <-.
  assert (Hl' : length gaps = S (length (ls_of ks))) by (unfold ls_of; now rewrite map_length).
  split; [reflexivity|]. split; [|split].
  - rewrite <- ls_of_snd. apply conformance_place; try assumption. now apply ls_of_lexemes.
  - rewrite (place_kinds (ls_of ks) gaps 0 Hl'), ls_of_fst. reflexivity.
  - apply place_no_errors.
Qed.

Theorem render_lexes ks gaps t :
  valid_kinds ks -> gaps_ok ks gaps -> render_kinds ks gaps = Some t ->
  exists toks, lex t = Some toks /\ map tk toks = ks ++ [Eof].
Proof.
  intros Hv Hg Hr. destruct (render_lexes_place ks gaps t Hv Hg Hr) as [_ [H1 [H2 _]]]. eauto.
Qed.

(* all gaps behind tokens non-empty: no condition on the kinds beyond validity *)
Theorem render_lexes_simple ks gaps :
  valid_kinds ks -> gaps_simple ks gaps ->
  exists t toks, render_kinds ks gaps = Some t /\ lex t = Some toks /\ map tk toks = ks ++ [Eof].
Proof.
  intros Hv Hs. pose proof (render_total ks gaps Hv (proj1 Hs)) as Hr.
  destruct (render_lexes ks gaps _ Hv (gaps_simple_ok ks gaps Hs) Hr) as [toks [H1 H2]]. eauto.
Qed.

(* [gaps_ok] is also necessary for the spellings to come back: two identifiers without a gap merge *)
Example needs_sep_examples :
  needs_sep (Ident [97]) (Ident [98]) = true /\ needs_sep KIf LParen = false /\ needs_sep KIf (Ident [120]) = true /\
  needs_sep LtT EqT = true /\ needs_sep LtT (IntT (IntOk 1)) = false /\ needs_sep Divide Divide = true /\
  needs_sep (IntT (IntOk 0)) (Ident [120]) = true /\ needs_sep (IntT (IntOk 1)) (Ident [120]) = false /\
  needs_sep (HexT (IntOk 1)) (Ident [97]) = true /\ needs_sep (HexT (IntOk 1)) (Ident [103]) = false /\
  needs_sep (Comment [99]) (Ident [97]) = false /\ needs_sep (IntT (IntOk 1)) (IntT (IntOk 2)) = true.
Proof. vm_compute. repeat split; reflexivity. Qed.

Print Assumptions render_lexes_place.
Print Assumptions render_lexes_simple.
