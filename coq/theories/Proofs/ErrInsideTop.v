(* C05, positions of the syntax errors: the errors collected from a global declaration lie inside the token
   span of that declaration - for every token list.

   [errors_inside_declaration]: declaration k of the parsed program starts at offset o, the next boundary
   ([Boundary p (S k) nxt]: the offset of declaration k+1, or the end of the declarations - the index of the
   first trailing comment / the Eof token) is nxt; every error e that errors() collects from it satisfies
       o <= e_s e <= e_e e <= nxt
   and e_s e < nxt, with ONE exception: the error of an EMPTY parameter declaration / argument (PError / EErr of
   `ignore_until0` that skipped nothing; messages "expected `parameter declaration`", "expected `expression`")
   has the empty range at the position the parser stands on, which is nxt when the declaration ends there
   ([ex_soft_param], [ex_soft_arg]).  An empty range k..k is published at the END of token k
   (Model/Errors.v [byte_range]), so exactly these diagnostics are displayed at the end of the FIRST TOKEN OF THE
   NEXT declaration (resp. of the first trailing comment / of Eof), every other one inside the bytes of its own
   declaration.
   [tree_errors_inside]: the program node of a parse result carries no errors (they come from `build`:
   "main is missing" at (0,0), "main must not have parameters" at the name of main); every error of [tree_errors] is
   collected from exactly one declaration and lies in its span; spans are disjoint ([spans_disjoint]).
   [errors_contained_located]: S4_errors_contained with positions - the errors of the unchanged declarations in
   front end at or before o, the errors of the damaged region lie in [o, length pre + length mid'], the shifted
   errors behind start at or behind it. *)
From Coq Require Import Arith Lia List String NArith.
From Spl Require Import Model.Parser Model.Errors Proofs.ParserComb Proofs.ParserEqns Proofs.ParserFwd Proofs.ParserDecl
  Proofs.ParserSync Proofs.ParserProofs Proofs.ParserShiftSuffix Proofs.ParserShiftErrors Proofs.ParserShiftProofs
  Proofs.ErrInsideNodes Proofs.ErrInsideSyn.
Import ListNotations.
Local Open Scope nat_scope.

(* ------------------------------------------------------------------------------------------ *)
(* one declaration *)
Lemma ref_gdecl_inside toks f s s' g off :
  pos s <= length toks -> refp s <= pos s -> ebuf s = [] ->
  p_ref (p_gdecl toks f) s = POk s' (g, off) ->
  Forall (ErrQ (pos s') (refp s + off)) (gdecl_errors g).
Proof.
  intros Hs Hr Hb E.
  pose proof (Inv_ref toks er_gdecl false (p_gdecl toks f) (Inv_gdecl toks f) (refp s) s (refp s)) as H.
  rewrite E in H. cbn [postc] in H.
  destruct H as (_ & _ & H).
  - split; [exact Hs|]. split; [exact Hr | discriminate].
  - reflexivity.
  - apply le_n.
  - unfold EB. rewrite Hb. constructor.
  - specialize (H (pos s') (le_n _)). unfold QE, er_ref, er_gdecl in H. cbn [fst snd] in H.
    apply Forall_ErrQ_shift. exact H.
Qed.

(* [DeclIn go]: the errors of the declaration, read at its offset, lie in [off, off + length] *)
Definition DeclIn (go : gdecl * nat) : Prop :=
  Forall (ErrQ (snd go + i_e (gdecl_info (fst go))) (snd go)) (gdecl_errors (fst go)).

Lemma many0_inside toks F' : forall F s s' l,
  pos s <= length toks -> refp s = 0 -> ebuf s = [] ->
  p_many0 F (p_ref (p_gdecl toks F')) s = POk s' l -> Forall DeclIn l.
Proof.
  induction F as [|F IH]; intros s s' l Hs Hr Hb; cbn [p_many0]; [discriminate|].
  destruct (p_ref (p_gdecl toks F') s) as [s1 [g off]|e1|] eqn:E; [| |discriminate].
  2:{ intros [= _ <-]. constructor. }
  destruct (Nat.eqb (pos s1) (pos s)); [discriminate|]. intros H.
  apply bind_ok in H as (s2 & l2 & H & [= _ <-]).
  pose proof (ref_gdecl_inside toks F' s s1 g off Hs ltac:(lia) Hb E) as Hin.
  apply ref_gdecl_shape in E as (A0 & A1 & A2 & A3 & A4 & A5 & A6 & A7); [|exact Hs].
  constructor.
  - unfold DeclIn. cbn [fst snd]. rewrite A6. rewrite Hr in Hin. cbn [Nat.add] in Hin.
    replace (off + (pos s1 - pos s)) with (pos s1) by lia. exact Hin.
  - apply (IH s1 s2 l2); [exact A2 | congruence | congruence | exact H].
Qed.

Theorem parse_decls_inside toks p : parse toks = Done p -> Forall DeclIn (pg_decls p).
Proof.
  intros H. apply parse_inv in H as (s1 & H & _).
  eapply many0_inside; [| | |exact H]; [cbn; lia | reflexivity | reflexivity].
Qed.

(* the next boundary is the end of the declaration *)
Lemma decl_end toks p k g o nxt :
  parse toks = Done p -> nth_error (pg_decls p) k = Some (g, o) -> Boundary p (S k) nxt ->
  nxt = o + i_e (gdecl_info g).
Proof.
  intros H Hn [_ Hb]. apply parse_inv in H as (s1 & H & Hi).
  apply many0_spans in H as (Hsp & _); [| cbn; lia | reflexivity].
  destruct (Spans_nth toks _ _ _ _ _ _ Hsp Hn) as (_ & _ & _ & _ & _ & F & _).
  unfold decl_start, start_of in Hb. rewrite Hi in Hb. cbn [i_e] in Hb.
  destruct (nth_error (pg_decls p) (S k)) as [[g' o']|]; cbn [snd] in Hb; lia.
Qed.

Lemma soft_shift o e : soft (shift_e o e) <-> soft e.
Proof. reflexivity. Qed.

(* ------------------------------------------------------------------------------------------ *)
(* THE THEOREM *)
Theorem errors_inside_declaration toks p k g o nxt e :
  parse toks = Done p -> nth_error (pg_decls p) k = Some (g, o) -> Boundary p (S k) nxt ->
  In e (shift_es o (gdecl_errors g)) ->
  o <= e_s e /\ e_s e <= e_e e /\ e_e e <= nxt /\
  (e_s e < nxt \/
   e_s e = nxt /\ e_e e = nxt /\
   (e_m e = EParse (ExpectedToken s_paramdec) \/ e_m e = EParse (ExpectedToken s_expression))).
Proof.
  intros H Hn Hb He. pose proof (decl_end toks p k g o nxt H Hn Hb) as ->.
  pose proof (parse_decls_inside toks p H) as Hall. rewrite Forall_forall in Hall.
  specialize (Hall (g, o) (nth_error_In _ _ Hn)). unfold DeclIn in Hall. cbn [fst snd] in Hall.
  unfold shift_es in He. apply in_map_iff in He as (e0 & <- & He0).
  rewrite Forall_forall in Hall. destruct (Hall e0 He0) as (A & B & C).
  unfold shift_e. cbn [e_s e_e e_m].
  split; [lia|]. split; [lia|]. split; [lia|].
  destruct (lt_dec (e_s e0 + o) (o + i_e (gdecl_info g))) as [Hlt|Hge]; [left; exact Hlt | right].
  destruct C as [C|C]; [lia|]. split; [lia|]. split; [lia | exact C].
Qed.

(* in particular: a non-empty range lies strictly inside *)
Corollary nonempty_range_strictly_inside toks p k g o nxt e :
  parse toks = Done p -> nth_error (pg_decls p) k = Some (g, o) -> Boundary p (S k) nxt ->
  In e (shift_es o (gdecl_errors g)) -> e_s e < e_e e -> o <= e_s e /\ e_s e < nxt /\ e_e e <= nxt.
Proof.
  intros H Hn Hb He Hlt. destruct (errors_inside_declaration toks p k g o nxt e H Hn Hb He) as (A & B & C & D).
  split; [exact A|]. split; [lia | exact C].
Qed.

(* ------------------------------------------------------------------------------------------ *)
(* the spans of different declarations are disjoint *)
Lemma Boundary_nth p k g o : nth_error (pg_decls p) k = Some (g, o) -> Boundary p k o /\ S k <= length (pg_decls p).
Proof.
  intros Hn. assert (Hlt : k < length (pg_decls p)) by (apply nth_error_Some; congruence).
  split; [|lia]. split; [lia|]. unfold decl_start, start_of. now rewrite Hn.
Qed.

Lemma spans_disjoint toks p k g o nxt k' g' o' nxt' x :
  parse toks = Done p ->
  nth_error (pg_decls p) k = Some (g, o) -> Boundary p (S k) nxt ->
  nth_error (pg_decls p) k' = Some (g', o') -> Boundary p (S k') nxt' ->
  o <= x < nxt -> o' <= x < nxt' -> k = k'.
Proof.
  intros H Hn Hb Hn' Hb' Hx Hx'.
  destruct (Boundary_nth p k g o Hn) as [Bk _]. destruct (Boundary_nth p k' g' o' Hn') as [Bk' _].
  destruct (lt_eq_lt_dec k k') as [[Hlt|Heq]|Hgt]; [exfalso | exact Heq | exfalso].
  - pose proof (Boundary_mono toks p (S k) k' nxt o' H Hb Bk' Hlt). lia.
  - pose proof (Boundary_mono toks p (S k') k nxt' o H Hb' Bk Hgt). lia.
Qed.

(* ------------------------------------------------------------------------------------------ *)
(* a run of declarations a .. b-1 *)
Lemma nth_firstn {A} n : forall (l : list A) j x, nth_error (firstn n l) j = Some x -> j < n /\ nth_error l j = Some x.
Proof.
  induction n as [|n IH]; intros l j x; [destruct j; discriminate|].
  destruct l as [|y l]; [destruct j; discriminate|]. destruct j as [|j]; cbn [firstn nth_error].
  - intros H. split; [lia | exact H].
  - intros H. apply IH in H as [H1 H2]. split; [lia | exact H2].
Qed.

Lemma In_segment {A} (l : list A) a n x :
  In x (firstn n (skipn a l)) -> exists i, a <= i < a + n /\ nth_error l i = Some x.
Proof.
  intros H. apply In_nth_error in H as [j Hj]. apply nth_firstn in Hj as [Hlt Hj].
  rewrite nth_error_skipn_add in Hj. exists (a + j). split; [lia | exact Hj].
Qed.

Definition Located (lo hi : nat) (e : err) : Prop :=
  lo <= e_s e /\ e_s e <= e_e e /\ e_e e <= hi /\
  (e_s e < hi \/
   e_s e = hi /\ e_e e = hi /\
   (e_m e = EParse (ExpectedToken s_paramdec) \/ e_m e = EParse (ExpectedToken s_expression))).

Theorem segment_errors_inside toks p a b x y e :
  parse toks = Done p -> Boundary p a x -> Boundary p b y ->
  In e (decl_errors (firstn (b - a) (skipn a (pg_decls p)))) -> Located x y e.
Proof.
  intros H Ba Bb He. unfold decl_errors in He. apply in_flat_map in He as ([g o] & Hin & He). cbn [fst snd] in He.
  apply In_segment in Hin as (i & Hi & Hn).
  destruct (Boundary_nth p i g o Hn) as [Bi Hlen].
  assert (Bn : Boundary p (S i) (decl_start p (S i))) by (split; [exact Hlen | reflexivity]).
  destruct (errors_inside_declaration toks p i g o _ e H Hn Bn He) as (A1 & A2 & A3 & A4).
  pose proof (Boundary_mono toks p a i x o H Ba Bi ltac:(lia)) as M1.
  pose proof (Boundary_mono toks p (S i) b _ y H Bn Bb ltac:(lia)) as M2.
  unfold Located. split; [lia|]. split; [lia|]. split; [lia|].
  destruct (lt_dec (e_s e) y) as [Hlt|Hge]; [left; exact Hlt | right].
  destruct A4 as [A4|(A4 & A5 & A6)]; [lia|]. split; [lia|]. split; [lia | exact A6].
Qed.

(* ------------------------------------------------------------------------------------------ *)
(* the corollary for the published list *)
Theorem tree_errors_inside toks p e :
  parse toks = Done p -> In e (tree_errors p) ->
  i_errs (pg_info p) = [] /\
  exists k g o nxt,
    nth_error (pg_decls p) k = Some (g, o) /\ Boundary p (S k) nxt /\
    In e (shift_es o (gdecl_errors g)) /\ Located o nxt e /\
    (e_s e < nxt -> forall k' g' o' nxt',
       nth_error (pg_decls p) k' = Some (g', o') -> Boundary p (S k') nxt' -> o' <= e_s e < nxt' -> k' = k).
Proof.
  intros H He. pose proof (parse_info_clean toks p H) as [Hc _]. split; [exact Hc|].
  unfold tree_errors in He. rewrite Hc in He. cbn [app] in He.
  apply in_flat_map in He as ([g o] & Hin & He). cbn [fst snd] in He.
  apply In_nth_error in Hin as [k Hn].
  destruct (Boundary_nth p k g o Hn) as [Bk Hlen].
  assert (Bn : Boundary p (S k) (decl_start p (S k))) by (split; [exact Hlen | reflexivity]).
  exists k, g, o, (decl_start p (S k)). split; [exact Hn|]. split; [exact Bn|]. split; [exact He|].
  pose proof (errors_inside_declaration toks p k g o _ e H Hn Bn He) as L. split; [exact L|].
  intros Hlt k' g' o' nxt' Hn' Bn' Hx. symmetry.
  eapply (spans_disjoint toks p k g o _ k' g' o' nxt' (e_s e)); try eassumption. destruct L as (L1 & _). lia.
Qed.

(* ------------------------------------------------------------------------------------------ *)
(* combination with containment (S4) *)
Theorem errors_contained_located pre mid mid' post p p' j k o k2 k2' :
  EofLast (pre ++ mid ++ post) -> EofLast (pre ++ mid' ++ post) ->
  parse (pre ++ mid ++ post) = Done p -> parse (pre ++ mid' ++ post) = Done p' ->
  (exists t, nth_error pre j = Some t /\ sync_full (tk t) = true) -> Boundary p k o -> o <= j ->
  Boundary p k2 (length pre + length mid) -> Boundary p' k2' (length pre + length mid') ->
  exists before damaged damaged' after after',
    tree_errors p = before ++ damaged ++ after /\
    tree_errors p' = before ++ damaged' ++ after' /\
    shift_es (length mid') after = shift_es (length mid) after' /\
    before = decl_errors (firstn k (pg_decls p)) /\
    damaged = decl_errors (firstn (k2 - k) (skipn k (pg_decls p))) /\
    damaged' = decl_errors (firstn (k2' - k) (skipn k (pg_decls p'))) /\
    after = decl_errors (skipn k2 (pg_decls p)) /\ after' = decl_errors (skipn k2' (pg_decls p')) /\
    (forall e, In e before -> Located 0 o e) /\
    (forall e, In e damaged -> Located o (length pre + length mid) e) /\
    (forall e, In e damaged' -> Located o (length pre + length mid') e) /\
    (forall e, In e after -> Located (length pre + length mid) (i_e (pg_info p)) e) /\
    (forall e, In e after' -> Located (length pre + length mid') (i_e (pg_info p')) e).
Proof.
  intros HE HE' Hp Hp' Hj Hb Ho Hb2 Hb2'.
  destruct (containment pre mid mid' post p p' j k o k2 k2' HE HE' Hp Hp' Hj Hb Ho Hb2 Hb2')
    as (C1 & C2 & _ & _ & C5 & C6).
  destruct (errors_contained pre mid mid' post p p' j k o k2 k2' HE HE' Hp Hp' Hj Hb Ho Hb2 Hb2')
    as (bf & dm & dm' & af & af' & E1 & E2 & E3 & -> & -> & -> & -> & ->).
  exists (decl_errors (firstn k (pg_decls p))), (decl_errors (firstn (k2 - k) (skipn k (pg_decls p)))),
    (decl_errors (firstn (k2' - k) (skipn k (pg_decls p')))), (decl_errors (skipn k2 (pg_decls p))),
    (decl_errors (skipn k2' (pg_decls p'))).
  repeat (split; [first [assumption | reflexivity]|]).
  assert (B0 : forall q, Boundary q 0 (decl_start q 0)) by (intros q; split; [lia | reflexivity]).
  assert (BL : forall q, Boundary q (length (pg_decls q)) (i_e (pg_info q))).
  { intros q. split; [lia|]. unfold decl_start, start_of.
    destruct (nth_error (pg_decls q) (length (pg_decls q))) eqn:E; [|reflexivity].
    assert (length (pg_decls q) < length (pg_decls q)) by (apply nth_error_Some; congruence). lia. }
  split; [|split; [|split; [|split]]].
  - intros e He.
    assert (He' : In e (decl_errors (firstn (k - 0) (skipn 0 (pg_decls p))))) by (rewrite Nat.sub_0_r; exact He).
    destruct (segment_errors_inside _ p 0 k _ o e Hp (B0 p) Hb He') as (A1 & A2). split; [lia | exact A2].
  - intros e He. exact (segment_errors_inside _ p k k2 o _ e Hp Hb Hb2 He).
  - intros e He. exact (segment_errors_inside _ p' k k2' o _ e Hp' C2 Hb2' He).
  - intros e He. apply (segment_errors_inside _ p k2 (length (pg_decls p)) _ _ e Hp Hb2 (BL p)).
    rewrite firstn_all2; [exact He | rewrite skipn_length; lia].
  - intros e He. apply (segment_errors_inside _ p' k2' (length (pg_decls p')) _ _ e Hp' Hb2' (BL p')).
    rewrite firstn_all2; [exact He | rewrite skipn_length; lia].
Qed.

(* ------------------------------------------------------------------------------------------ *)
(* examples.  The strict bound e_s e < nxt fails exactly for the two soft classes:
     proc x ( , proc x ( ) { }            the second (empty) parameter declaration: range 4..4 = nxt
     proc x ( ) { x ( 1 , proc x ( ) { }  the second (empty) argument:              range 9..9 = nxt   *)
Definition ex_param := mk [KProc; idx; LParen; Comma; KProc; idx; LParen; RParen; LCurly; RCurly; Eof].
Definition ex_arg := mk [KProc; idx; LParen; RParen; LCurly; idx; LParen; IntT (IntOk 1); Comma;
                         KProc; idx; LParen; RParen; LCurly; RCurly; Eof].

Ltac in_list := cbn [In]; repeat first [left; reflexivity | right].

Example ex_soft_param :
  EofLast ex_param /\ parse ex_param = Done (prog_of ex_param) /\
  exists g, nth_error (pg_decls (prog_of ex_param)) 0 = Some (g, 0) /\ Boundary (prog_of ex_param) 1 4 /\
    In {| e_s := 4; e_e := 4; e_m := EParse (ExpectedToken s_paramdec) |} (shift_es 0 (gdecl_errors g)) /\
    In {| e_s := 3; e_e := 3; e_m := EParse (MissingClosing 125%N) |} (shift_es 0 (gdecl_errors g)).
Proof.
  split; [apply (EofLast_mk [KProc; idx; LParen; Comma; KProc; idx; LParen; RParen; LCurly; RCurly]); repeat constructor; discriminate|].
  split; [vm_compute; reflexivity|]. eexists. split; [vm_compute; reflexivity|].
  split; [split; [vm_compute; repeat constructor | vm_compute; reflexivity]|].
  split; vm_compute; in_list.
Qed.

Example ex_soft_arg :
  EofLast ex_arg /\ parse ex_arg = Done (prog_of ex_arg) /\
  exists g, nth_error (pg_decls (prog_of ex_arg)) 0 = Some (g, 0) /\ Boundary (prog_of ex_arg) 1 9 /\
    In {| e_s := 9; e_e := 9; e_m := EParse (ExpectedToken s_expression) |} (shift_es 0 (gdecl_errors g)).
Proof.
  split; [apply (EofLast_mk [KProc; idx; LParen; RParen; LCurly; idx; LParen; IntT (IntOk 1); Comma;
                             KProc; idx; LParen; RParen; LCurly; RCurly]); repeat constructor; discriminate|].
  split; [vm_compute; reflexivity|]. eexists. split; [vm_compute; reflexivity|].
  split; [split; [vm_compute; repeat constructor | vm_compute; reflexivity]|].
  vm_compute; in_list.
Qed.

(* the bound e_e e <= nxt is tight for non-empty ranges too: `) + type x = x ;` - the Error declaration 0..2 *)
Definition ex_gerror := mk [RParen; Plus; KType; idx; EqT; idx; Semic; Eof].

Example ex_tight :
  EofLast ex_gerror /\ parse ex_gerror = Done (prog_of ex_gerror) /\
  exists g, nth_error (pg_decls (prog_of ex_gerror)) 0 = Some (g, 0) /\ Boundary (prog_of ex_gerror) 1 2 /\
    map (fun e => (e_s e, e_e e)) (shift_es 0 (gdecl_errors g)) = [(0, 2)].
Proof.
  split; [apply (EofLast_mk [RParen; Plus; KType; idx; EqT; idx; Semic]); repeat constructor; discriminate|].
  split; [vm_compute; reflexivity|]. eexists. split; [vm_compute; reflexivity|].
  split; [split; [vm_compute; repeat constructor | vm_compute; reflexivity]|].
  vm_compute. reflexivity.
Qed.

(* the containment example of Proofs/ParserShiftProofs.v (`; }` replaced by `} + +`): the errors of the damaged
   region - the procedure and the additional Error declaration - are (11,11), (11,11), (13,15); the region is
   [5, 15], 15 = length xpre + length xmid2: the last one ends exactly at the end of the region *)
Example ex_located :
  let p' := prog_of (xpre ++ xmid2 ++ xpost) in
  map (fun e => (e_s e, e_e e)) (decl_errors (firstn (3 - 1) (skipn 1 (pg_decls p')))) = [(11, 11); (11, 11); (13, 15)] /\
  length xpre + length xmid2 = 15 /\
  (forall e, In e (decl_errors (firstn (3 - 1) (skipn 1 (pg_decls p')))) -> Located 5 (length xpre + length xmid2) e).
Proof.
  cbv zeta. split; [vm_compute; reflexivity|]. split; [reflexivity|].
  destruct (errors_contained_located xpre xmid xmid2 xpost (prog_of (xpre ++ xmid ++ xpost)) (prog_of (xpre ++ xmid2 ++ xpost)) 5 1 5 2 3)
    as (b & d & d' & a & a' & _ & _ & _ & _ & _ & -> & _ & _ & _ & _ & H & _); try x_hyps.
  - eexists. split; [reflexivity | reflexivity].
  - exact H.
Qed.

(* the same from a text on: `proc a(, proc b(){}`.  The tokens of declaration b start at byte 9 (`proc` = bytes 9..13);
   the diagnostics are MainIsMissing (range 0..0: the end of token 0, byte 4), four at the end of `,` (byte 8), and
   the soft one - token range 4..4 - at byte 13, the end of the `proc` token of declaration b *)
Definition published (t : text) : option (list (N * N)) :=
  match new_doc t with
  | Done d => match doc_errors d with Done l => Some (map (fun x => (fst (fst x), snd (fst x))) l) | _ => None end
  | _ => None
  end.

Definition ex_param_text : text := str "proc a(, proc b(){}"%string.

Example ex_soft_param_text :
  published ex_param_text = Some [(4, 4); (8, 8); (8, 8); (8, 8); (8, 8); (13, 13)]%N /\
  option_map (map (fun t => (ts t, te t))) (lex ex_param_text) =
  Some [(0, 4); (5, 6); (6, 7); (7, 8); (9, 13); (14, 15); (15, 16); (16, 17); (17, 18); (18, 19); (19, 19)]%N.
Proof. split; vm_compute; reflexivity. Qed.
