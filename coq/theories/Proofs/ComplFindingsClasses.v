(* C16 - the position classes of the known findings of `propose`, as THEOREMS about the model, for every
   valid program in every layout (instances of the master theorems of Proofs/ComplFindings.v).
   s' is a statement nested at any depth ([snest]) in the top-level statement s of a procedure body,
   A = [stmt_index ..] the index of its first token; c the cursor index.

   cursor directly behind a token (c = te tprev; finding C16-cursor-directly-behind-token):
     [propose_behind_assign]       behind the `:=` of an assignment: null;
     [propose_behind_paren]        behind the `(` of a call, an `if`, a `while`: null;
     [propose_behind_stmt_semic]   behind the `;` that ends an assignment or a call: the variables only;
     [propose_behind_block_brace]  behind the `{` or the `}` of a block: the statement proposals ([else_or_not]: the
                                   `else` starters in front in some cases);
     [propose_behind_proc_rcurly]  behind the closing brace of a procedure with a statement other than `;`:
                                   the statement proposals (not the declaration starters);
   white space behind a comment, the position directly behind it (the start of the next line) included:
   te tprev <= c <= ts tnext (finding C16-comment-before-cursor):
     [propose_comment_decl_part]   in the header, the variable declarations, in front of the first statement
                                   other than `;`: null (in particular behind `:` + comment: no types);
     [propose_comment_stmt_lead]   behind a leading comment of a statement (in_statements): the statement
                                   proposals if the statement is `;` or a block, null otherwise;
     [propose_comment_proc_end]    behind a comment in front of the closing brace of a procedure: the statement
                                   proposals if the body holds a statement other than `;`, null otherwise;
   [propose_text_start]            c = 0 in a text that starts with a token: null (finding C16-text-start);
   [propose_branch_start]          white space in front of the then-/else-branch of an `if` or the body of a
                                   `while`: exactly the variables (finding C16-branch-statement-start);
   [propose_simple_stmt_position]  white space inside an assignment / a call: null left of `:=` / `(` (finding
                                   C16-paren-left-of-assign is the case `a[( |1)] := 1`), exactly the variables
                                   right of it (the expression positions of C16). *)
From Coq Require Import PeanoNat NArith Lia List Bool.
From Spl Require Import Proofs.GrammarBase Proofs.GrammarExpr Proofs.GrammarStmt.
From Spl Require Import Proofs.GrammarProofs Spec.Typing Model.Errors Proofs.SemProofs Proofs.TypingProofs.
From Spl Require Import Model.Hover Model.Fold Proofs.LexerProofs Proofs.FoldProofs Proofs.HoverProofs.
From Spl Require Import Proofs.HoverValid Model.Completion Proofs.CompletionProofs.
From Spl Require Import Proofs.ComplValidBase Proofs.ComplValidProc Proofs.ComplValidNest Proofs.ComplValid Proofs.ComplValidTop.
From Spl Require Import Proofs.ComplFindingsSpec Proofs.ComplFindingsProc Proofs.ComplFindingsPath Proofs.ComplFindingsLex.
From Spl Require Import Proofs.ComplFindings.
Import ListNotations.
Local Open Scope nat_scope.

Lemma nth_at_eq {A} (l pre : list A) x post n : l = pre ++ x :: post -> n = len pre -> nth_error l n = Some x.
Proof. intros -> ->. apply nth_error_at. Qed.

(* ---------------------------------------------------------------------------------------- *)
(* shapes of statements                                                                       *)

(* assignments and calls: the index (in the statement) of the token from which on the variables are offered *)
Inductive vars_from : astmt -> nat -> Prop :=
| VF_asg v ca e cb : vars_from (SAsg v ca e cb) (len (fl_var v) + len ca)
| VF_cal ca f cb args cc cd : vars_from (SCal ca f cb args cc cd) (len ca + 1 + len cb).

(* the `(` behind a call name, `if`, `while` *)
Inductive head_paren : astmt -> nat -> Prop :=
| HP_cal ca f cb args cc cd : head_paren (SCal ca f cb args cc cd) (len ca + 1 + len cb)
| HP_ift ca cb e cc t : head_paren (SIfT ca cb e cc t) (len ca + 1 + len cb)
| HP_ife ca cb e cc t cd u : head_paren (SIfE ca cb e cc t cd u) (len ca + 1 + len cb)
| HP_whl ca cb e cc b : head_paren (SWhl ca cb e cc b) (len ca + 1 + len cb).

(* the first token (leading comments included) of a branch / loop body *)
Inductive branch_start : astmt -> nat -> Prop :=
| BS_ift ca cb e cc t : branch_start (SIfT ca cb e cc t) (len ca + 1 + len cb + 1 + len (fl_cmp e) + len cc + 1)
| BS_ife_t ca cb e cc t cd u : branch_start (SIfE ca cb e cc t cd u) (len ca + 1 + len cb + 1 + len (fl_cmp e) + len cc + 1)
| BS_ife_e ca cb e cc t cd u :
    branch_start (SIfE ca cb e cc t cd u) (len ca + 1 + len cb + 1 + len (fl_cmp e) + len cc + 1 + len (fl_stmt t) + len cd + 1)
| BS_whl ca cb e cc b : branch_start (SWhl ca cb e cc b) (len ca + 1 + len cb + 1 + len (fl_cmp e) + len cc + 1).

(* the three predicates, spelled out (for Props/C16.v) *)
Lemma position_shapes :
  (forall s q, vars_from s q <->
     (exists v ca e cb, s = SAsg v ca e cb /\ q = len (fl_var v) + len ca) \/
     (exists ca f cb args cc cd, s = SCal ca f cb args cc cd /\ q = len ca + 1 + len cb)) /\
  (forall s q, head_paren s q <->
     (exists ca f cb args cc cd, s = SCal ca f cb args cc cd /\ q = len ca + 1 + len cb) \/
     (exists ca cb e cc u, s = SIfT ca cb e cc u /\ q = len ca + 1 + len cb) \/
     (exists ca cb e cc u cd w, s = SIfE ca cb e cc u cd w /\ q = len ca + 1 + len cb) \/
     (exists ca cb e cc u, s = SWhl ca cb e cc u /\ q = len ca + 1 + len cb)) /\
  (forall s r, branch_start s r <->
     (exists ca cb e cc u, (s = SIfT ca cb e cc u \/ s = SWhl ca cb e cc u) /\
        r = len ca + 1 + len cb + 1 + len (fl_cmp e) + len cc + 1) \/
     (exists ca cb e cc u cd w, s = SIfE ca cb e cc u cd w /\
        (r = len ca + 1 + len cb + 1 + len (fl_cmp e) + len cc + 1 \/
         r = len ca + 1 + len cb + 1 + len (fl_cmp e) + len cc + 1 + len (fl_stmt u) + len cd + 1))).
Proof.
  split; [|split].
  - intros s q. split.
    + destruct 1; [left | right]; repeat eexists.
    + intros [(v & ca & e & cb & -> & ->) | (ca & f & cb & args & cc & cd & -> & ->)]; constructor.
  - intros s q. split.
    + destruct 1; [left | right; left | right; right; left | right; right; right]; repeat eexists.
    + intros [(ca & f & cb & args & cc & cd & -> & ->) | [(ca & cb & e & cc & u & -> & ->)
              | [(ca & cb & e & cc & u & cd & w & -> & ->) | (ca & cb & e & cc & u & -> & ->)]]]; constructor.
  - intros s r. split.
    + destruct 1.
      * left. do 5 eexists. split; [left; reflexivity | reflexivity].
      * right. do 7 eexists. split; [reflexivity | left; reflexivity].
      * right. do 7 eexists. split; [reflexivity | right; reflexivity].
      * left. do 5 eexists. split; [right; reflexivity | reflexivity].
    + intros [(ca & cb & e & cc & u & [-> | ->] & ->) | (ca & cb & e & cc & u & cd & w & -> & [-> | ->])]; constructor.
Qed.

(* the comments in front of the first token of a statement *)
Definition leadc (s : astmt) : cs :=
  match s with
  | SEmp c => c
  | SAsg v _ _ _ => var_c v
  | SCal c _ _ _ _ _ | SIfT c _ _ _ _ | SIfE c _ _ _ _ _ _ | SWhl c _ _ _ _ | SBlk c _ _ => c
  end.

Lemma fl_stmt_lead s : exists rest, fl_stmt s = cm (leadc s) ++ rest /\ 1 <= len rest.
Proof.
  destruct s; cbn [fl_stmt leadc]; try (eexists; split; [reflexivity | cbn [length]; lia]).
  rewrite fl_var_head, <- app_assoc. eexists. split; [reflexivity | cbn [app length]; lia].
Qed.

Lemma nrc_simple s q : vars_from s q -> Forall nrc (fl_stmt s).
Proof.
  destruct 1; cbn [fl_stmt]; repeat first [apply nrc_cm | apply nrc_var | apply nrc_cmp | apply nrc_args
    | apply Forall_app; split | apply Forall_cons; [reflexivity|] | apply Forall_nil].
Qed.

Lemma vars_from_bounds s q : vars_from s q -> q + 2 <= len (fl_stmt s).
Proof. destruct 1; cbn [fl_stmt]; leneq. Qed.

Lemma vars_from_real s q : vars_from s q -> is_emp s = false.
Proof. destruct 1; reflexivity. Qed.

Lemma st_spec_simple s q a lo hi k : vars_from s q -> st_spec s a lo hi k false = vars_if (a + q <? hi).
Proof.
  destruct 1; rewrite ?st_spec_asg, ?st_spec_cal, else_or_false; f_equal; f_equal; lia.
Qed.

Lemma first_real_plain : forall b o,
  if has_real b then exists r, first_real b o = Some r /\ r < o + len (fl_stmts b) else first_real b o = None.
Proof.
  induction b as [|s r IH]; intros o; [reflexivity|]. cbn [has_real first_real fl_stmts]. rewrite app_length.
  pose proof (stmt_len_pos s) as Hp. destruct (is_emp s); cbn [negb orb].
  - specialize (IH (o + len (fl_stmt s))). destruct (has_real r); [|exact IH].
    destruct IH as [q [-> Hq]]. exists q. split; [reflexivity | lia].
  - exists o. split; [reflexivity | lia].
Qed.

Section Valid.
Variables (p : aprog) (G : gtable) (t : text) (toks : list token) (d : doc).
Hypothesis Hok : prog_ok p = true.
Hypothesis Hwt : well_typed (expected p) G.
Hypothesis Hlex : lex t = Some toks.
Hypothesis Hkinds : map tk toks = flatten p ++ [Eof].
Hypothesis Hdoc : new_doc_res t = ODone d.

(* the kind of a token of a declaration *)
Lemma decl_kind_at l1 dd l2 i tok k :
  a_decls p = l1 ++ dd :: l2 ->
  nth_error toks (len (flat_map fl_decl l1) + i) = Some tok -> nth_error (fl_decl dd) i = Some k -> tk tok = k.
Proof.
  intros Hds Ht Hk. apply (map_nth_error tk) in Ht. rewrite (valid_split p toks Hkinds l1 dd l2 Hds) in Ht.
  rewrite nth_error_app2 in Ht by lia. replace (len (flat_map fl_decl l1) + i - len (flat_map fl_decl l1)) with i in Ht by lia.
  rewrite nth_error_app1 in Ht by (apply nth_error_Some; congruence). congruence.
Qed.

Section Body.
Variables (l1 : list adecl) (c1 c2 : cs) (x : text) (c3 : cs) (ps : aparams) (c4 c5 : cs) (vs : list avardecl).
Variables (b1 : astmts) (s : astmt) (b2 : astmts) (c6 : cs) (l2 : list adecl) (g : nat) (s' : astmt).
Hypothesis Hds : a_decls p = l1 ++ DProc c1 c2 x c3 ps c4 c5 vs (sapp b1 (SCons s b2)) c6 :: l2.
Hypothesis Hn : snest s g s'.

Notation A := (stmt_index l1 c1 c2 x c3 ps c4 c5 vs b1 g).
Notation kind_at := (nested_kind_at p toks Hkinds l1 c1 c2 x c3 ps c4 c5 vs b1 s b2 c6 l2 g s' Hds Hn).
Notation gap_thm := (nested_gap p G t toks d Hok Hwt Hlex Hkinds Hdoc l1 c1 c2 x c3 ps c4 c5 vs b1 s b2 c6 l2 g s' Hds Hn).
Notation white_thm := (nested_white p G t toks d Hok Hwt Hlex Hkinds Hdoc l1 c1 c2 x c3 ps c4 c5 vs b1 s b2 c6 l2 g s' Hds Hn).
Notation behind_thm := (nested_behind p G t toks d Hok Hwt Hlex Hkinds Hdoc l1 c1 c2 x c3 ps c4 c5 vs b1 s b2 c6 l2 g s' Hds Hn).

(* white space inside an assignment or a call *)
Theorem propose_simple_stmt_position q i tprev tnext line col :
  vars_from s' q -> S i < len (fl_stmt s') ->
  nth_error toks (A + i) = Some tprev -> nth_error toks (S (A + i)) = Some tnext ->
  (te tprev < get_insertion_index line col t)%N -> (get_insertion_index line col t <= ts tnext)%N ->
  exists pe, lookup G x = Some (GProcE pe) /\ map fst (pe_local pe) = aparams_names ps ++ map v_x vs /\
    propose d line col = ROk (if i <? q then None else Some (search_variables (pe_local pe))).
Proof.
  intros Hv Hi Hp Hnx H1 H2.
  destruct (nth_error (fl_stmt s') i) as [k|] eqn:Ek; [|apply nth_error_None in Ek; lia].
  pose proof (kind_at i tprev k Hp Ek) as Hk. pose proof (nrc_nth _ _ _ (nrc_simple _ _ Hv) Ek) as Hrc. rewrite <- Hk in Hrc.
  destruct (gap_thm i tprev tnext line col (or_intror (snest_real _ _ _ Hn (vars_from_real _ _ Hv))) Hi Hp Hnx H1 H2 Hrc)
    as [pe [Hlk [Hnames Hpr]]].
  exists pe. split; [exact Hlk|]. split; [exact Hnames|]. rewrite Hpr, (st_spec_simple _ q _ _ _ _ Hv). f_equal.
  destruct (Nat.ltb_spec i q); destruct (Nat.ltb_spec (A + q) (S (A + i))); try lia; reflexivity.
Qed.

(* in particular left of `:=`: the index expressions of the assigned variable *)
Lemma left_of_assign_eq v ca e cb i tprev tnext line col :
  s' = SAsg v ca e cb -> S i <= len (fl_var v) + len ca ->
  nth_error toks (A + i) = Some tprev -> nth_error toks (S (A + i)) = Some tnext ->
  (te tprev < get_insertion_index line col t)%N -> (get_insertion_index line col t <= ts tnext)%N ->
  propose d line col = ROk None.
Proof.
  intros Es Hi Hp Hnx H1 H2.
  assert (Hv : vars_from s' (len (fl_var v) + len ca)) by (rewrite Es; constructor).
  destruct (propose_simple_stmt_position _ i tprev tnext line col Hv
              ltac:(pose proof (vars_from_bounds _ _ Hv); lia) Hp Hnx H1 H2) as [pe [_ [_ Hpr]]].
  rewrite Hpr. destruct (Nat.ltb_spec i (len (fl_var v) + len ca)); [reflexivity | lia].
Qed.

(* the white space in front of a branch / a loop body *)
Theorem propose_branch_start r tprev tnext line col :
  branch_start s' r ->
  nth_error toks (A + r - 1) = Some tprev -> nth_error toks (A + r) = Some tnext ->
  (te tprev < get_insertion_index line col t)%N -> (get_insertion_index line col t <= ts tnext)%N ->
  exists pe, lookup G x = Some (GProcE pe) /\ map fst (pe_local pe) = aparams_names ps ++ map v_x vs /\
    propose d line col = ROk (Some (search_variables (pe_local pe))).
Proof.
  intros Hb Hp Hnx H1 H2.
  assert (Hr : 1 <= r /\ r < len (fl_stmt s') /\ is_emp s' = false /\
               exists k, nth_error (fl_stmt s') (r - 1) = Some k /\ is_rcurly k = false).
  { destruct Hb as [ca cb e cc u | ca cb e cc u cd w | ca cb e cc u cd w | ca cb e cc u]; cbn [fl_stmt];
      (split; [lia|]); (split; [pose proof (stmt_len_pos u); try pose proof (stmt_len_pos w); leneq|]); (split; [reflexivity|]).
    - exists RParen. split; [|reflexivity].
      apply (nth_at_eq _ (cm ca ++ KIf :: cm cb ++ LParen :: fl_cmp e ++ cm cc) RParen (fl_stmt u)); [listeq | leneq].
    - exists RParen. split; [|reflexivity].
      apply (nth_at_eq _ (cm ca ++ KIf :: cm cb ++ LParen :: fl_cmp e ++ cm cc) RParen (fl_stmt u ++ cm cd ++ KElse :: fl_stmt w)); [listeq | leneq].
    - exists KElse. split; [|reflexivity].
      apply (nth_at_eq _ (cm ca ++ KIf :: cm cb ++ LParen :: fl_cmp e ++ cm cc ++ RParen :: fl_stmt u ++ cm cd) KElse (fl_stmt w)); [listeq | leneq].
    - exists RParen. split; [|reflexivity].
      apply (nth_at_eq _ (cm ca ++ KWhile :: cm cb ++ LParen :: fl_cmp e ++ cm cc) RParen (fl_stmt u)); [listeq | leneq]. }
  destruct Hr as [Hr1 [Hr2 [Hreal [k [Ek Hrc]]]]].
  replace (A + r - 1) with (A + (r - 1)) in Hp by lia. replace (A + r) with (S (A + (r - 1))) in Hnx by lia.
  pose proof (kind_at (r - 1) tprev k Hp Ek) as Hk. rewrite <- Hk in Hrc.
  destruct (gap_thm (r - 1) tprev tnext line col (or_intror (snest_real _ _ _ Hn Hreal)) ltac:(lia) Hp Hnx H1 H2 Hrc)
    as [pe [Hlk [Hnames Hpr]]].
  exists pe. split; [exact Hlk|]. split; [exact Hnames|]. rewrite Hpr. f_equal.
  assert (Hv : forall q, q + 2 <= r -> vars_if (A + q <? S (A + (r - 1))) = AVars).
  { intros q Hq. destruct (Nat.ltb_spec (A + q) (S (A + (r - 1)))); [reflexivity | lia]. }
  destruct Hb as [ca cb e cc u | ca cb e cc u cd w | ca cb e cc u cd w | ca cb e cc u].
  - rewrite st_spec_ift, else_or_false. cbv zeta. rewrite inside_lo by lia.
    replace (A + len ca + 1 + len cb) with (A + (len ca + 1 + len cb)) by lia. now rewrite Hv by lia.
  - rewrite st_spec_ife, else_or_false. cbv zeta. rewrite inside_lo by lia. rewrite inside_lo by lia.
    replace (A + len ca + 1 + len cb) with (A + (len ca + 1 + len cb)) by lia. now rewrite Hv by lia.
  - rewrite st_spec_ife, else_or_false. cbv zeta. rewrite inside_hi by lia. rewrite inside_lo by lia.
    replace (A + len ca + 1 + len cb) with (A + (len ca + 1 + len cb)) by lia. now rewrite Hv by lia.
  - rewrite st_spec_whl, else_or_false. cbv zeta. rewrite inside_lo by lia.
    replace (A + len ca + 1 + len cb) with (A + (len ca + 1 + len cb)) by lia. now rewrite Hv by lia.
Qed.

(* directly behind `:=` *)
Lemma behind_assign_eq v ca e cb tprev line col :
  s' = SAsg v ca e cb ->
  nth_error toks (A + len (fl_var v) + len ca) = Some tprev -> get_insertion_index line col t = te tprev ->
  propose d line col = ROk None.
Proof.
  intros Es Hp Hc. set (q := len (fl_var v) + len ca).
  replace (A + len (fl_var v) + len ca) with (A + q) in Hp by (unfold q; lia).
  assert (Ek : nth_error (fl_stmt s') q = Some Assign).
  { rewrite Es. cbn [fl_stmt]. apply (nth_at_eq _ (fl_var v ++ cm ca) Assign (fl_cmp e ++ cm cb ++ [Semic])); [listeq | unfold q; leneq]. }
  pose proof (kind_at q tprev Assign Hp Ek) as Hk.
  pose proof (tok_len t toks _ tprev 2%N Hlex Hp ltac:(rewrite Hk; reflexivity)) as Hl.
  assert (Hv : vars_from s' q) by (rewrite Es; constructor).
  destruct (behind_thm q tprev tprev line col (or_intror (snest_real _ _ _ Hn (vars_from_real _ _ Hv)))
              ltac:(pose proof (vars_from_bounds _ _ Hv); lia) Hp Hc ltac:(left; split; [lia | reflexivity])
              ltac:(rewrite Hk; reflexivity)) as [pe [_ [_ Hpr]]].
  rewrite Hpr, (st_spec_simple _ q _ _ _ _ Hv), Nat.ltb_irrefl. reflexivity.
Qed.

(* directly behind the `(` of a call, an `if`, a `while` *)
Theorem propose_behind_paren q tprev line col :
  head_paren s' q ->
  nth_error toks (A + q) = Some tprev -> get_insertion_index line col t = te tprev ->
  propose d line col = ROk None.
Proof.
  intros Hh Hp Hc.
  assert (Hq : 1 <= q /\ q + 1 < len (fl_stmt s') /\ is_emp s' = false /\ nth_error (fl_stmt s') q = Some LParen /\
               exists k, nth_error (fl_stmt s') (q - 1) = Some k /\ is_rcurly k = false).
  { assert (Hgen : forall ca K cb rest, is_rcurly K = false ->
              nth_error (cm ca ++ K :: cm cb ++ LParen :: rest) (len ca + 1 + len cb) = Some LParen /\
              exists k, nth_error (cm ca ++ K :: cm cb ++ LParen :: rest) (len ca + 1 + len cb - 1) = Some k /\ is_rcurly k = false).
    { intros ca K cb rest HK. split.
      - apply (nth_at_eq _ (cm ca ++ K :: cm cb) LParen rest); [listeq | leneq].
      - assert (Hl : len ca + 1 + len cb - 1 < len (cm ca ++ K :: cm cb)) by leneq.
        destruct (nth_error (cm ca ++ K :: cm cb) (len ca + 1 + len cb - 1)) as [k|] eqn:Ek; [|apply nth_error_None in Ek; lia].
        exists k. split.
        + replace (cm ca ++ K :: cm cb ++ LParen :: rest) with ((cm ca ++ K :: cm cb) ++ LParen :: rest) by listeq.
          now rewrite nth_error_app1 by exact Hl.
        + eapply nrc_nth; [|exact Ek].
          apply Forall_app. split; [apply nrc_cm|]. constructor; [exact HK | apply nrc_cm]. }
    destruct Hh as [ca f cb args cc cd | ca cb e cc u | ca cb e cc u cd w | ca cb e cc u]; cbn [fl_stmt];
      (split; [lia|]); (split; [leneq|]); (split; [reflexivity|]); now apply Hgen. }
  destruct Hq as [Hq1 [Hq2 [Hreal [Ek [k [Ek' Hrc]]]]]].
  pose proof (kind_at q tprev LParen Hp Ek) as Hk.
  pose proof (tok_len t toks _ tprev 1%N Hlex Hp ltac:(rewrite Hk; reflexivity)) as Hl.
  destruct (nth_error toks (A + q - 1)) as [last|] eqn:El;
    [|apply nth_error_None in El; assert (A + q < len toks) by (apply nth_error_Some; congruence); lia].
  pose proof (kind_at (q - 1) last k ltac:(replace (A + (q - 1)) with (A + q - 1) by lia; exact El) Ek') as Hkl.
  destruct (behind_thm q tprev last line col (or_intror (snest_real _ _ _ Hn Hreal)) ltac:(lia) Hp Hc
              ltac:(right; split; [lia | exact El]) ltac:(rewrite Hkl; exact Hrc)) as [pe [_ [_ Hpr]]].
  rewrite Hpr. f_equal.
  assert (Hv : vars_if (A + q <? A + q) = ANull) by now rewrite Nat.ltb_irrefl.
  destruct Hh as [ca f cb args cc cd | ca cb e cc u | ca cb e cc u cd w | ca cb e cc u].
  - rewrite st_spec_cal, else_or_false. replace (A + len ca + 1 + len cb) with (A + (len ca + 1 + len cb)) by lia. now rewrite Hv.
  - rewrite st_spec_ift, else_or_false. cbv zeta. rewrite inside_lo by lia.
    replace (A + len ca + 1 + len cb) with (A + (len ca + 1 + len cb)) by lia. now rewrite Hv.
  - rewrite st_spec_ife, else_or_false. cbv zeta. rewrite inside_lo by lia. rewrite inside_lo by lia.
    replace (A + len ca + 1 + len cb) with (A + (len ca + 1 + len cb)) by lia. now rewrite Hv.
  - rewrite st_spec_whl, else_or_false. cbv zeta. rewrite inside_lo by lia.
    replace (A + len ca + 1 + len cb) with (A + (len ca + 1 + len cb)) by lia. now rewrite Hv.
Qed.

(* directly behind the `;` of an assignment or a call *)
Theorem propose_behind_stmt_semic q tprev line col :
  vars_from s' q ->
  nth_error toks (A + len (fl_stmt s') - 1) = Some tprev -> get_insertion_index line col t = te tprev ->
  exists pe, lookup G x = Some (GProcE pe) /\ map fst (pe_local pe) = aparams_names ps ++ map v_x vs /\
    propose d line col = ROk (Some (search_variables (pe_local pe))).
Proof.
  intros Hv Hp Hc. pose proof (vars_from_bounds _ _ Hv) as Hb. set (n := len (fl_stmt s')) in *.
  replace (A + n - 1) with (A + (n - 1)) in Hp by lia.
  assert (Ek : nth_error (fl_stmt s') (n - 1) = Some Semic).
  { unfold n. destruct Hv; cbn [fl_stmt].
    - apply (nth_at_eq _ (fl_var v ++ cm ca ++ Assign :: fl_cmp e ++ cm cb) Semic []); [listeq | leneq].
    - apply (nth_at_eq _ (cm ca ++ Ident f :: cm cb ++ LParen :: fl_sep fl_cmp args ++ cm cc ++ RParen :: cm cd) Semic []); [listeq | leneq]. }
  pose proof (kind_at (n - 1) tprev Semic Hp Ek) as Hk.
  pose proof (tok_len t toks _ tprev 1%N Hlex Hp ltac:(rewrite Hk; reflexivity)) as Hl.
  destruct (nth_error toks (A + (n - 1) - 1)) as [last|] eqn:El;
    [|apply nth_error_None in El; assert (A + (n - 1) < len toks) by (apply nth_error_Some; congruence); lia].
  destruct (nth_error (fl_stmt s') (n - 2)) as [k|] eqn:Ek'; [|apply nth_error_None in Ek'; fold n in Ek'; lia].
  pose proof (kind_at (n - 2) last k ltac:(replace (A + (n - 2)) with (A + (n - 1) - 1) by lia; exact El) Ek') as Hkl.
  pose proof (nrc_nth _ _ _ (nrc_simple _ _ Hv) Ek') as Hrc. rewrite <- Hkl in Hrc.
  destruct (behind_thm (n - 1) tprev last line col (or_intror (snest_real _ _ _ Hn (vars_from_real _ _ Hv))) ltac:(fold n; lia) Hp Hc
              ltac:(right; split; [lia | exact El]) Hrc) as [pe [Hlk [Hnames Hpr]]].
  exists pe. split; [exact Hlk|]. split; [exact Hnames|].
  rewrite Hpr, (st_spec_simple _ q _ _ _ _ Hv). destruct (Nat.ltb_spec (A + q) (A + (n - 1))); [reflexivity | lia].
Qed.

(* directly behind the `{` or the `}` of a block: the statement proposals (after `else` proposals in some cases) *)
Lemma behind_block_brace_eq ca b cb m tprev line col :
  s' = SBlk ca b cb -> m = len ca \/ m = len (fl_stmt s') - 1 ->
  nth_error toks (A + m) = Some tprev -> get_insertion_index line col t = te tprev ->
  exists pe pre, lookup G x = Some (GProcE pe) /\ map fst (pe_local pe) = aparams_names ps ++ map v_x vs /\
    else_or_not pre /\ propose d line col = ROk (Some (pre ++ new_stmt (Some (pe_local pe)) G)).
Proof.
  intros Es Hm Hp Hc.
  assert (Hlen : len (fl_stmt s') = len ca + 1 + len (fl_stmts b) + len cb + 1) by (rewrite Es; cbn [fl_stmt]; leneq).
  assert (Ek : exists k, nth_error (fl_stmt s') m = Some k /\ klen k = Some 1%N).
  { rewrite Es in *. cbn [fl_stmt] in *. destruct Hm as [-> | ->].
    - exists LCurly. split; [|reflexivity]. apply (nth_at_eq _ (cm ca) LCurly (fl_stmts b ++ cm cb ++ [RCurly])); [reflexivity | leneq].
    - exists RCurly. split; [|reflexivity].
      apply (nth_at_eq _ (cm ca ++ LCurly :: fl_stmts b ++ cm cb) RCurly []); [listeq | rewrite Hlen; leneq]. }
  destruct Ek as [k [Ek Hkl]]. pose proof (kind_at m tprev k Hp Ek) as Hk.
  pose proof (tok_len t toks _ tprev 1%N Hlex Hp ltac:(rewrite Hk; exact Hkl)) as Hl.
  assert (Hh : 1 <= len (proc_head c1 c2 x c3 ps c4 c5)) by (unfold proc_head; leneq).
  destruct (nth_error toks (A + m - 1)) as [last|] eqn:El;
    [|apply nth_error_None in El; assert (A + m < len toks) by (apply nth_error_Some; congruence); lia].
  assert (Hreal : is_emp s = false) by (apply (snest_real _ _ _ Hn); rewrite Es; reflexivity).
  destruct (nested_behind_any p G t toks d Hok Hwt Hlex Hkinds Hdoc l1 c1 c2 x c3 ps c4 c5 vs b1 s b2 c6 l2 g s' Hds Hn
              m tprev last line col (or_intror Hreal) ltac:(destruct Hm; lia) Hp Hc ltac:(right; split; [lia | exact El]))
    as [pe [Hlk [Hnames Hpr]]].
  exists pe. destruct Hpr as [Hpr | [pi Hpr]].
  - exists [snip_else; item_else]. split; [exact Hlk|]. split; [exact Hnames|]. split; [now right | exact Hpr].
  - rewrite Es, st_spec_blk in Hpr. unfold else_or in Hpr. destruct (pi && is_rcurly (tk last)).
    + exists [snip_else; item_else]. split; [exact Hlk|]. split; [exact Hnames|]. split; [now right | exact Hpr].
    + exists []. split; [exact Hlk|]. split; [exact Hnames|]. split; [now left|]. rewrite Hpr. f_equal.
      destruct Hm as [-> | ->].
      * rewrite sts_spec_front by lia. reflexivity.
      * rewrite sts_spec_past by lia. reflexivity.
Qed.

(* white space behind a leading comment of a statement *)
Theorem propose_comment_stmt_lead i tprev tnext line col :
  has_real b1 = true \/ is_emp s = false ->
  i < len (leadc s') ->
  nth_error toks (A + i) = Some tprev -> nth_error toks (S (A + i)) = Some tnext ->
  (te tprev <= get_insertion_index line col t)%N -> (get_insertion_index line col t <= ts tnext)%N ->
  exists pe, lookup G x = Some (GProcE pe) /\ map fst (pe_local pe) = aparams_names ps ++ map v_x vs /\
    propose d line col = ROk (match s' with
                              | SEmp _ | SBlk _ _ _ => Some (new_stmt (Some (pe_local pe)) G)
                              | _ => None
                              end).
Proof.
  intros Hreal Hi Hp Hnx H1 H2. destruct (fl_stmt_lead s') as [rest [El Hrest]].
  assert (Hlen : S i < len (fl_stmt s')) by (rewrite El, app_length, cm_length; lia).
  assert (Ek : exists cx, nth_error (fl_stmt s') i = Some (Comment cx)).
  { rewrite El, nth_error_app1 by (rewrite cm_length; exact Hi). unfold cm. rewrite nth_error_map.
    destruct (nth_error (leadc s') i) as [cx|] eqn:E; [now exists cx | apply nth_error_None in E; lia]. }
  destruct Ek as [cx Ek]. pose proof (kind_at i tprev _ Hp Ek) as Hk.
  destruct (white_thm i tprev tnext line col Hreal Hlen Hp Hnx (lex_comment_len t toks _ tprev cx Hlex Hp Hk) H1 H2
              ltac:(rewrite Hk; reflexivity)) as [pe [Hlk [Hnames Hpr]]].
  exists pe. split; [exact Hlk|]. split; [exact Hnames|]. rewrite Hpr. f_equal.
  set (hi := if (te tprev <? get_insertion_index line col t)%N then S (A + i) else A + i).
  assert (Hhi : hi <= S (A + i)) by (unfold hi; destruct (_ <? _)%N; lia).
  assert (Hv : forall q, i < q -> vars_if (A + q <? hi) = ANull).
  { intros q Hq. destruct (Nat.ltb_spec (A + q) hi); [lia | reflexivity]. }
  destruct s' as [c | v ca e cb | ca f cb args cc cd | ca cb e cc u | ca cb e cc u cd w | ca cb e cc u | ca b cb]; cbn [leadc] in Hi.
  - reflexivity.
  - rewrite st_spec_asg, else_or_false. pose proof (fl_var_len v).
    replace (A + len (fl_var v) + len ca) with (A + (len (fl_var v) + len ca)) by lia. now rewrite Hv by lia.
  - rewrite st_spec_cal, else_or_false. replace (A + len ca + 1 + len cb) with (A + (len ca + 1 + len cb)) by lia. now rewrite Hv by lia.
  - rewrite st_spec_ift, else_or_false. cbv zeta. rewrite inside_lo by lia.
    replace (A + len ca + 1 + len cb) with (A + (len ca + 1 + len cb)) by lia. now rewrite Hv by lia.
  - rewrite st_spec_ife, else_or_false. cbv zeta. rewrite inside_lo by lia. rewrite inside_lo by lia.
    replace (A + len ca + 1 + len cb) with (A + (len ca + 1 + len cb)) by lia. now rewrite Hv by lia.
  - rewrite st_spec_whl, else_or_false. cbv zeta. rewrite inside_lo by lia.
    replace (A + len ca + 1 + len cb) with (A + (len ca + 1 + len cb)) by lia. now rewrite Hv by lia.
  - rewrite st_spec_blk, else_or_false, sts_spec_front by lia. reflexivity.
Qed.

End Body.

(* directly behind `:=` *)
Theorem propose_behind_assign l1 c1 c2 x c3 ps c4 c5 vs b1 s b2 c6 l2 g v ca e cb :
  a_decls p = l1 ++ DProc c1 c2 x c3 ps c4 c5 vs (sapp b1 (SCons s b2)) c6 :: l2 ->
  snest s g (SAsg v ca e cb) ->
  forall tprev line col,
    nth_error toks (stmt_index l1 c1 c2 x c3 ps c4 c5 vs b1 g + len (fl_var v) + len ca) = Some tprev ->
    get_insertion_index line col t = te tprev ->
    propose d line col = ROk None.
Proof.
  intros Hds Hn tprev line col Hp Hc.
  exact (behind_assign_eq l1 c1 c2 x c3 ps c4 c5 vs b1 s b2 c6 l2 g _ Hds Hn v ca e cb tprev line col eq_refl Hp Hc).
Qed.

(* directly behind the `{` (token |ca| of the block) or the `}` (its last token) of a block *)
Theorem propose_behind_block_brace l1 c1 c2 x c3 ps c4 c5 vs b1 s b2 c6 l2 g ca b cb :
  a_decls p = l1 ++ DProc c1 c2 x c3 ps c4 c5 vs (sapp b1 (SCons s b2)) c6 :: l2 ->
  snest s g (SBlk ca b cb) ->
  forall m tprev line col,
    m = len ca \/ m = len (fl_stmt (SBlk ca b cb)) - 1 ->
    nth_error toks (stmt_index l1 c1 c2 x c3 ps c4 c5 vs b1 g + m) = Some tprev ->
    get_insertion_index line col t = te tprev ->
    exists pe pre, lookup G x = Some (GProcE pe) /\ map fst (pe_local pe) = aparams_names ps ++ map v_x vs /\
      else_or_not pre /\ propose d line col = ROk (Some (pre ++ new_stmt (Some (pe_local pe)) G)).
Proof.
  intros Hds Hn m tprev line col Hm Hp Hc.
  exact (behind_block_brace_eq l1 c1 c2 x c3 ps c4 c5 vs b1 s b2 c6 l2 g _ Hds Hn ca b cb m tprev line col eq_refl Hm Hp Hc).
Qed.

(* white space left of `:=`: the index expressions of the assigned variable *)
Theorem propose_left_of_assign l1 c1 c2 x c3 ps c4 c5 vs b1 s b2 c6 l2 g v ca e cb :
  a_decls p = l1 ++ DProc c1 c2 x c3 ps c4 c5 vs (sapp b1 (SCons s b2)) c6 :: l2 ->
  snest s g (SAsg v ca e cb) ->
  forall i tprev tnext line col,
    S i <= len (fl_var v) + len ca ->
    nth_error toks (stmt_index l1 c1 c2 x c3 ps c4 c5 vs b1 g + i) = Some tprev ->
    nth_error toks (S (stmt_index l1 c1 c2 x c3 ps c4 c5 vs b1 g + i)) = Some tnext ->
    (te tprev < get_insertion_index line col t)%N -> (get_insertion_index line col t <= ts tnext)%N ->
    propose d line col = ROk None.
Proof.
  intros Hds Hn i tprev tnext line col Hi Hp Hnx H1 H2.
  exact (left_of_assign_eq l1 c1 c2 x c3 ps c4 c5 vs b1 s b2 c6 l2 g _ Hds Hn v ca e cb i tprev tnext line col eq_refl Hi Hp Hnx H1 H2).
Qed.

(* ---------------------------------------------------------------------------------------- *)
(* positions described at the level of the declaration                                        *)

Section Decl.
Variables (l1 : list adecl) (c1 c2 : cs) (x : text) (c3 : cs) (ps : aparams) (c4 c5 : cs) (vs : list avardecl).
Variables (b : astmts) (c6 : cs) (l2 : list adecl).
Hypothesis Hds : a_decls p = l1 ++ DProc c1 c2 x c3 ps c4 c5 vs b c6 :: l2.

Notation dd := (DProc c1 c2 x c3 ps c4 c5 vs b c6).
Notation D := (len (flat_map fl_decl l1)).
Notation o := (len (flat_map fl_decl l1) + len (proc_head c1 c2 x c3 ps c4 c5) + len (flat_map fl_vardecl vs)).

(* directly behind the closing brace of the procedure *)
Theorem propose_behind_proc_rcurly tprev line col :
  has_real b = true ->
  nth_error toks (D + len (fl_decl dd) - 1) = Some tprev -> get_insertion_index line col t = te tprev ->
  exists pe, lookup G x = Some (GProcE pe) /\ map fst (pe_local pe) = aparams_names ps ++ map v_x vs /\
    propose d line col = ROk (Some (new_stmt (Some (pe_local pe)) G)).
Proof.
  intros Hreal Hp Hc. set (n := len (fl_decl dd)) in *.
  assert (Hn : n = len (proc_head c1 c2 x c3 ps c4 c5) + len (flat_map fl_vardecl vs) + len (fl_stmts b) + len c6 + 1)
    by (unfold n; rewrite fl_proc; leneq).
  pose proof (head_after_sig c1 c2 x c3 ps c4 c5) as Hh.
  replace (D + n - 1) with (D + (n - 1)) in Hp by lia.
  assert (Ek : nth_error (fl_decl dd) (n - 1) = Some RCurly).
  { rewrite fl_proc.
    apply (nth_at_eq _ (proc_head c1 c2 x c3 ps c4 c5 ++ flat_map fl_vardecl vs ++ fl_stmts b ++ cm c6) RCurly []); [listeq | rewrite Hn; leneq]. }
  pose proof (decl_kind_at l1 dd l2 (n - 1) tprev RCurly Hds Hp Ek) as Hk.
  pose proof (tok_len t toks _ tprev 1%N Hlex Hp ltac:(rewrite Hk; reflexivity)) as Hl.
  destruct (nth_error toks (D + (n - 1) - 1)) as [last|] eqn:El;
    [|apply nth_error_None in El; assert (D + (n - 1) < len toks) by (apply nth_error_Some; congruence); lia].
  destruct (propose_procedure_behind p G t toks d Hok Hwt Hlex Hkinds Hdoc l1 c1 c2 x c3 ps c4 c5 vs b c6 l2 Hds
              (D + (n - 1)) tprev last line col ltac:(lia) ltac:(fold n; lia) Hp Hc
              ltac:(right; split; [lia | split; [lia | exact El]])) as [pe [Hlk [Hnames Hpr]]].
  exists pe. split; [exact Hlk|]. split; [exact Hnames|]. rewrite Hpr. f_equal.
  rewrite proc_spec_body by lia. cbv zeta.
  pose proof (first_real_plain b o) as Hfr. rewrite Hreal in Hfr. destruct Hfr as [r [Hfr Hr]].
  unfold in_stmts_spec. rewrite Hfr. destruct (Nat.leb_spec r (D + (n - 1))); [|lia].
  rewrite sts_spec_past by lia. reflexivity.
Qed.

(* white space behind a comment in the header, the variable declarations, the leading `;` statements *)
Theorem propose_comment_decl_part m tprev tnext line col :
  D <= m -> S m < D + len (fl_decl dd) ->
  match first_real b o with Some r => m < r | None => True end ->
  nth_error toks m = Some tprev -> nth_error toks (S m) = Some tnext -> is_comment (tk tprev) = true ->
  (te tprev <= get_insertion_index line col t)%N -> (get_insertion_index line col t <= ts tnext)%N ->
  propose d line col = ROk None.
Proof.
  intros Hlo Hhi Hfr Hp Hnx Hcm H1 H2.
  assert (Hl : (ts tprev + 1 < te tprev)%N).
  { destruct (tk tprev) eqn:Ek; try discriminate Hcm. exact (lex_comment_len t toks _ tprev _ Hlex Hp Ek). }
  destruct (propose_procedure_white p G t toks d Hok Hwt Hlex Hkinds Hdoc l1 c1 c2 x c3 ps c4 c5 vs b c6 l2 Hds
              m tprev tnext line col Hlo Hhi Hp Hnx Hl H1 H2) as [pe [_ [_ Hpr]]].
  rewrite Hpr. f_equal. unfold proc_spec.
  destruct (m <? D + len (proc_sig c1 c2 x c3 ps c4)); [destruct (tk tprev); try discriminate Hcm; reflexivity|].
  unfold in_stmts_spec. destruct (first_real b o) as [r|].
  - destruct (Nat.leb_spec r m); [lia|]. destruct (tk tprev); try discriminate Hcm; reflexivity.
  - destruct (tk tprev); try discriminate Hcm; reflexivity.
Qed.

(* directly behind a token of the header, of the variable declarations or of the leading `;` statements:
   the answer is read off the kind of `token_before` alone *)
Theorem propose_behind_decl_part m tprev last line col :
  D <= m -> m < D + len (fl_decl dd) ->
  match first_real b o with Some r => m < r | None => True end ->
  nth_error toks m = Some tprev -> get_insertion_index line col t = te tprev ->
  ((ts tprev + 1 < te tprev)%N /\ last = tprev \/
   (ts tprev + 1 = te tprev)%N /\ D < m /\ nth_error toks (m - 1) = Some last) ->
  exists pe, lookup G x = Some (GProcE pe) /\ map fst (pe_local pe) = aparams_names ps ++ map v_x vs /\
    propose d line col =
      ROk (render (Some (pe_local pe)) G
             (if m <? D + len (proc_sig c1 c2 x c3 ps c4) then sig_answer (tk last) else decl_answer (tk last))).
Proof.
  intros Hlo Hhi Hfr Hp Hc Hlast.
  destruct (propose_procedure_behind p G t toks d Hok Hwt Hlex Hkinds Hdoc l1 c1 c2 x c3 ps c4 c5 vs b c6 l2 Hds
              m tprev last line col Hlo Hhi Hp Hc Hlast) as [pe [Hlk [Hnames Hpr]]].
  exists pe. split; [exact Hlk|]. split; [exact Hnames|]. rewrite Hpr. do 2 f_equal. unfold proc_spec.
  destruct (m <? D + len (proc_sig c1 c2 x c3 ps c4)); [reflexivity|].
  unfold in_stmts_spec. destruct (first_real b o) as [r|]; [|reflexivity].
  destruct (Nat.leb_spec r m); [lia | reflexivity].
Qed.

(* white space behind a comment in front of the closing brace of the procedure *)
Theorem propose_comment_proc_end i tprev tnext line col :
  i < len c6 ->
  nth_error toks (o + len (fl_stmts b) + i) = Some tprev -> nth_error toks (S (o + len (fl_stmts b) + i)) = Some tnext ->
  (te tprev <= get_insertion_index line col t)%N -> (get_insertion_index line col t <= ts tnext)%N ->
  exists pe, lookup G x = Some (GProcE pe) /\ map fst (pe_local pe) = aparams_names ps ++ map v_x vs /\
    propose d line col = ROk (if has_real b then Some (new_stmt (Some (pe_local pe)) G) else None).
Proof.
  intros Hi Hp Hnx H1 H2. set (m := o + len (fl_stmts b) + i) in *.
  assert (Hn : len (fl_decl dd) = len (proc_head c1 c2 x c3 ps c4 c5) + len (flat_map fl_vardecl vs) + len (fl_stmts b) + len c6 + 1)
    by (rewrite fl_proc; leneq).
  pose proof (head_after_sig c1 c2 x c3 ps c4 c5) as Hh.
  assert (Ek : exists cx, nth_error (fl_decl dd) (m - D) = Some (Comment cx)).
  { rewrite fl_proc.
    replace (proc_head c1 c2 x c3 ps c4 c5 ++ flat_map fl_vardecl vs ++ fl_stmts b ++ cm c6 ++ [RCurly])
      with ((proc_head c1 c2 x c3 ps c4 c5 ++ flat_map fl_vardecl vs ++ fl_stmts b) ++ cm c6 ++ [RCurly]) by listeq.
    rewrite nth_error_app2 by (unfold m; leneq).
    replace (m - D - len (proc_head c1 c2 x c3 ps c4 c5 ++ flat_map fl_vardecl vs ++ fl_stmts b)) with i by (unfold m; leneq).
    rewrite nth_error_app1 by (rewrite cm_length; exact Hi). unfold cm. rewrite nth_error_map.
    destruct (nth_error c6 i) as [cx|] eqn:E; [now exists cx | apply nth_error_None in E; lia]. }
  destruct Ek as [cx Ek].
  pose proof (decl_kind_at l1 dd l2 (m - D) tprev _ Hds ltac:(replace (D + (m - D)) with m by (unfold m; lia); exact Hp) Ek) as Hk.
  destruct (propose_procedure_white p G t toks d Hok Hwt Hlex Hkinds Hdoc l1 c1 c2 x c3 ps c4 c5 vs b c6 l2 Hds
              m tprev tnext line col ltac:(unfold m; lia) ltac:(unfold m; lia) Hp Hnx
              (lex_comment_len t toks _ tprev cx Hlex Hp Hk) H1 H2) as [pe [Hlk [Hnames Hpr]]].
  exists pe. split; [exact Hlk|]. split; [exact Hnames|]. rewrite Hpr. f_equal.
  set (hi := if (te tprev <? get_insertion_index line col t)%N then S m else m).
  assert (Hhi : m <= hi) by (unfold hi; destruct (_ <? _)%N; lia).
  rewrite proc_spec_body by (unfold m; lia). cbv zeta.
  pose proof (first_real_plain b o) as Hfr. unfold in_stmts_spec. destruct (has_real b).
  - destruct Hfr as [r [-> Hr]]. destruct (Nat.leb_spec r m); [|unfold m in *; lia].
    rewrite sts_spec_past by (unfold m in *; lia). reflexivity.
  - rewrite Hfr, Hk. reflexivity.
Qed.

End Decl.

(* ---------------------------------------------------------------------------------------- *)
(* the start of the text                                                                      *)

Lemma valid_has_decl : a_decls p <> [].
Proof.
  intros E. destruct Hwt as [[es [Hwf [HG [pe [Hm _]]]]] _]. unfold expected in Hwf. cbn [pg_decls] in Hwf.
  rewrite E in Hwf. cbn [x_decls] in Hwf. inversion Hwf; subst. rewrite app_nil_r in Hm. vm_compute in Hm. discriminate Hm.
Qed.

Theorem propose_text_start first line col :
  nth_error toks 0 = Some first -> ts first = 0%N -> get_insertion_index line col t = 0%N ->
  propose d line col = ROk None.
Proof.
  intros Hf Hts Hc. pose proof (valid_sorted t toks Hlex) as Hs.
  destruct (a_decls p) as [|dd l2] eqn:Hds; [destruct (valid_has_decl Hds)|].
  pose proof (valid_split p toks Hkinds [] dd l2 Hds) as Hk. cbn [flat_map app] in Hk.
  pose proof (dslice_room toks [] _ _ Hk) as Hroom. cbn [length Nat.add] in Hroom. pose proof (fl_decl_pos dd) as Hdp.
  assert (Hlen : 1 < len toks).
  { rewrite <- (map_length tk toks), Hk, !app_length. cbn [length]. lia. }
  pose proof (has_next_strict t toks Hlex 0 first Hf Hlen) as Hst.
  destruct (nth_error toks (len (fl_decl dd) - 1)) as [fb|] eqn:Hb; [|apply nth_error_None in Hb; lia].
  assert (Hfb : (0 < te fb)%N).
  { destruct (sorted_le toks 0 (len (fl_decl dd) - 1) first fb Hs ltac:(lia) Hf Hb) as [_ Hle]. lia. }
  rewrite (HoverValid.valid_doc p G t toks d Hok Hwt Hlex Hkinds Hdoc).
  assert (Hpos : correct_index (get_insertion_index line col t) = 0%N) by (rewrite Hc; reflexivity).
  (* token_before on the slice of the first declaration: its first token *)
  assert (Htb : forall n, 1 <= n -> token_before (firstn n (skipn 0 toks)) 0 = Some first).
  { intros n Hn. cbn [skipn]. destruct toks as [|f0 r]; [discriminate Hf|]. injection Hf as ->.
    destruct n as [|n]; [lia|]. cbn [firstn]. unfold token_before. rewrite Hts. cbn [tb_loop]. rewrite Hts. reflexivity. }
  assert (Hk0 : exists k rest, fl_decl dd = k :: rest /\ tk first = k).
  { destruct (fl_decl dd) as [|k rest] eqn:E; [cbn in Hdp; lia|]. exists k, rest. split; [reflexivity|].
    apply (map_nth_error tk) in Hf. rewrite Hk in Hf. cbn in Hf. congruence. }
  destruct Hk0 as [k [rest [Ek Hkf]]].
  destruct dd as [ca cb y cc ty cd | ca cb y cc pps cd ce vvs bb cf].
  - rewrite (propose_in_type p G t toks [] _ l2 line col 0 (len (fl_decl (DType ca cb y cc ty cd)) - 1) first fb Hs Hds (valid_room p toks Hkinds) Hf Hb
               ltac:(lia) ltac:(cbn [flat_map length]; lia) ltac:(cbn [flat_map length]; lia) ltac:(rewrite Hpos; lia) ltac:(rewrite Hpos; exact Hfb) _ eq_refl).
    rewrite Hpos. cbn [flat_map length]. unfold complete_type. rewrite Htb by exact Hdp. rewrite Hkf.
    cbn [fl_decl] in Ek. destruct ca; cbn [cm map app] in Ek; injection Ek as <- _; reflexivity.
  - rewrite (propose_in_proc p G t toks [] _ l2 line col 0 (len (fl_decl (DProc ca cb y cc pps cd ce vvs bb cf)) - 1) first fb Hs Hds (valid_room p toks Hkinds) Hf Hb
               ltac:(lia) ltac:(cbn [flat_map length]; lia) ltac:(cbn [flat_map length]; lia) ltac:(rewrite Hpos; lia) ltac:(rewrite Hpos; exact Hfb) _ eq_refl).
    rewrite Hpos. cbn [flat_map length].
    set (sl := firstn (len (fl_decl (DProc ca cb y cc pps cd ce vvs bb cf))) (skipn 0 toks)).
    assert (Hsl : map tk sl = fl_decl (DProc ca cb y cc pps cd ce vvs bb cf)) by exact (dslice_kinds toks [] _ _ Hk).
    destruct (sig_end_found ca cb y cc pps cd ce vvs bb cf sl Hsl) as [rp [Hrp [_ Hfind]]].
    assert (Hsig : (0 <? ts rp)%N = true).
    { unfold sl in Hrp. apply nth_sub_inv in Hrp as [Hrp _]. cbn [Nat.add] in Hrp.
      assert (Hpos1 : 1 <= len (proc_sig ca cb y cc pps cd)) by (unfold proc_sig; leneq).
      pose proof (sorted_pair _ Hs 0 (len (proc_sig ca cb y cc pps cd)) first rp ltac:(lia) Hf Hrp). apply N.ltb_lt. lia. }
    rewrite (complete_procedure_sig _ 0%N sl G first rp (Htb _ Hdp) Hfind Hsig). rewrite Hkf.
    cbn [fl_decl] in Ek. destruct ca; cbn [cm map app] in Ek; injection Ek as <- _; reflexivity.
Qed.

(* ... and in a text that starts with white space: the declaration starters, as everywhere in front of
   the first token *)
Theorem propose_text_start_blank first line col :
  nth_error toks 0 = Some first -> (0 < ts first)%N -> get_insertion_index line col t = 0%N ->
  propose d line col = ROk (Some [snip_proc; snip_type; item_proc; item_type]).
Proof.
  intros Hf Hts Hc. pose proof (valid_sorted t toks Hlex) as Hs.
  apply (propose_top p G t toks d Hok Hwt Hlex Hkinds Hdoc [] (a_decls p) line col eq_refl).
  - intros k tok _ Hk. cbn in Hk. lia.
  - apply (gap_after toks 0 first _ Hs Hf). rewrite Hc. exact Hts.
Qed.

End Valid.
