(* C08 - token boundaries and the CR LF pair.

   The position round trip of Proofs/DocProofs.v [roundtrip] holds for every character boundary of a text
   except the one between the CR and the LF of a CR LF pair.  This file settles where the boundaries of the
   lexer's tokens (Model/Lexer.v) can lie:

     - a token never STARTS between CR and LF (it starts at a character that is not white space, LF is);
     - a token ENDS between CR and LF in exactly one situation: the unterminated character literal
       "'" CR directly followed by LF (Char::lex takes `anychar` after the tick, the closing tick is missing,
       the token is the two bytes "'" CR with the error MissingClosingTick at its end).  A comment takes the
       CR of its line AND the LF, so it ends behind the pair.

   [tok_at off s t]: the token t of a run over the text s that starts at byte offset off is the slice lx
   behind the prefix a, with everything this file knows about lx and what follows. *)
From Spl Require Import Model.Lexer Spec.LexSpec Proofs.LexerProofs Proofs.LexLocality Proofs.LexRun.

(* ---------------------------------------------------------------------------------------- *)
(* lists that end in CR                                                                      *)

Lemma tail13_forallb (f : char -> bool) (lx lx' : text) :
  f 13 = false -> forallb f lx = true -> lx = lx' ++ [13] -> False.
Proof.
  intros Hf Ha E. subst lx. rewrite forallb_app in Ha. cbn [forallb] in Ha. rewrite Hf in Ha.
  rewrite andb_false_l, andb_false_r in Ha. discriminate Ha.
Qed.

Lemma tail_app (p d lx' : text) (x : char) :
  d <> [] -> p ++ d = lx' ++ [x] -> exists d', d = d' ++ [x].
Proof.
  intros Hd E. destruct (exists_last Hd) as [d' [y Ey]]. subst d.
  rewrite app_assoc in E. apply app_inj_tail in E as [_ Exy]. subst y. now exists d'.
Qed.

Lemma one_tail (c x : char) (lx' : text) : [c] = lx' ++ [x] -> lx' = [] /\ c = x.
Proof.
  intros E. change [c] with ([] ++ [c]) in E. apply app_inj_tail in E as [E1 E2]. now subst.
Qed.

Lemma two_tail (c d x : char) (lx' : text) : [c; d] = lx' ++ [x] -> lx' = [c] /\ d = x.
Proof.
  intros E. change [c; d] with ([c] ++ [d]) in E. apply app_inj_tail in E as [E1 E2]. now subst.
Qed.

Definition no13 (c : char) : bool := negb (c =? 13).

Lemma sym_no13 p k : In (p, k) sym_table -> forallb no13 p = true.
Proof.
  intros H.
  assert (Hall : forallb (fun pk : text * kind => forallb no13 (fst pk)) sym_table = true) by (vm_compute; reflexivity).
  rewrite forallb_forall in Hall. exact (Hall _ H).
Qed.

Lemma kw_no13 p k : In (p, k) kw_table -> forallb no13 p = true.
Proof.
  intros H.
  assert (Hall : forallb (fun pk : text * kind => forallb no13 (fst pk)) kw_table = true) by (vm_compute; reflexivity).
  rewrite forallb_forall in Hall. exact (Hall _ H).
Qed.

(* ---------------------------------------------------------------------------------------- *)
(* one token: a lexeme that ends in CR and is followed by LF                                 *)

Lemma char_close_end_cr c lx0 r2 k e lx' rest' :
  char_close c lx0 r2 = Some (k, e, lx' ++ [13], 10 :: rest') ->
  k = CharT c /\ lx0 = lx' ++ [13] /\ e = [mkerr (blen lx0) (blen lx0) MissingClosingTick].
Proof.
  unfold char_close. destruct r2 as [|d r3].
  - intros H. injection H as _ _ _ Hr. discriminate Hr.
  - destruct (d =? 39).
    + intros H. injection H as _ _ Hlx _. apply app_inj_tail in Hlx as [_ Hlx]. discriminate Hlx.
    + intros H. injection H as Hk He Hlx _. subst. auto.
Qed.

Theorem lex_raw_end_cr s k e lx' rest' :
  stops is_ws s ->
  lex_raw s = Some (k, e, lx' ++ [13], 10 :: rest') ->
  k = CharT 13 /\ lx' = [39] /\ e = [mkerr 2 2 MissingClosingTick].
Proof.
  intros Hst H. unfold lex_raw in H.
  repeat (apply orelse_inv in H as [H|H]).
  - (* comment: the LF belongs to the lexeme *)
    exfalso. unfold lex_comment in H. destruct (starts [47; 47] s); [|discriminate H].
    pose proof (span_stop not_nl (skipn 2 s)) as Hnl.
    destruct (snd (span not_nl (skipn 2 s))) as [|nl r].
    + injection H as _ _ _ Hr. discriminate Hr.
    + injection H as _ _ Hlx _. specialize (Hnl nl r eq_refl).
      cbn [app] in Hlx. rewrite !app_comm_cons in Hlx. apply app_inj_tail in Hlx as [_ Hlx]. subst nl. discriminate Hnl.
  - exfalso. unfold lex_sym in H. destruct (first_match sym_table s) as [[p j]|] eqn:E; [|discriminate H].
    injection H as _ _ Hlx _. apply first_match_in in E as [Hin _].
    exact (tail13_forallb no13 p lx' eq_refl (sym_no13 p j Hin) Hlx).
  - exfalso. unfold lex_kw in H. destruct (first_kw kw_table s) as [[p j]|] eqn:E; [|discriminate H].
    injection H as _ _ Hlx _. apply first_kw_in in E as [Hin _].
    exact (tail13_forallb no13 p lx' eq_refl (kw_no13 p j Hin) Hlx).
  - rewrite lex_char_eq in H. unfold lex_char' in H. destruct s as [|q r]; [discriminate H|].
    destruct (q =? 39); [|discriminate H].
    destruct (starts [92; 110] r).
    + exfalso. apply char_close_end_cr in H as [_ [Hlx _]].
      exact (tail13_forallb no13 [39; 92; 110] lx' eq_refl eq_refl Hlx).
    + destruct r as [|x r2]; [discriminate H|].
      apply char_close_end_cr in H as [Hk [Hlx He]].
      apply two_tail in Hlx as [Hlx Hx]. subst x lx' k e. repeat split; reflexivity.
  - exfalso. unfold lex_hex in H. destruct (starts [48; 120] s); [|discriminate H].
    pose proof (span_all is_hex (skipn 2 s)) as Hall.
    destruct (fst (span is_hex (skipn 2 s))) as [|h d] eqn:Ed.
    + injection H as _ _ Hlx _. exact (tail13_forallb no13 [48; 120] lx' eq_refl eq_refl Hlx).
    + assert (Hlx : [48; 120] ++ h :: d = lx' ++ [13]).
      { destruct (hex_value (h :: d) <? u32_limit); injection H as _ _ Hlx _; exact Hlx. }
      apply tail_app in Hlx as [d' Hd']; [|discriminate].
      exact (tail13_forallb is_hex (h :: d) d' eq_refl Hall Hd').
  - exfalso. unfold lex_int in H.
    pose proof (span_all is_digit s) as Hall.
    destruct (fst (span is_digit s)) as [|h d] eqn:Ed; [discriminate H|].
    assert (Hlx : h :: d = lx' ++ [13]).
    { destruct (dec_value (h :: d) <? u32_limit); injection H as _ _ Hlx _; exact Hlx. }
    exact (tail13_forallb is_digit (h :: d) lx' eq_refl Hall Hlx).
  - exfalso. unfold lex_ident in H. destruct s as [|c r]; [discriminate H|].
    destruct (is_ident_start c) eqn:Ec; [|discriminate H].
    injection H as _ _ Hlx _.
    pose proof (span_all is_alnum_trunc r) as Hall.
    destruct (fst (span is_alnum_trunc r)) as [|h d] eqn:Ed.
    + apply one_tail in Hlx as [_ Hc]. subst c. discriminate Ec.
    + change (c :: h :: d) with ([c] ++ h :: d) in Hlx.
      apply tail_app in Hlx as [d' Hd']; [|discriminate].
      exact (tail13_forallb is_alnum_trunc (h :: d) d' eq_refl Hall Hd').
  - exfalso. unfold lex_unknown in H. destruct s as [|c r]; [discriminate H|].
    injection H as _ _ Hlx _. apply one_tail in Hlx as [_ Hc]. subst c.
    cbn [stops] in Hst. discriminate Hst.
Qed.

(* ... and the other direction: a CharT 13 token with an error is the two bytes "'" CR *)
Lemma sym_not_char p k c : In (p, k) sym_table -> k <> CharT c.
Proof. cbn. intros H. repeat (destruct H as [H|H]; [inversion H; discriminate|]). destruct H. Qed.
Lemma kw_not_char p k c : In (p, k) kw_table -> k <> CharT c.
Proof. cbn. intros H. repeat (destruct H as [H|H]; [inversion H; discriminate|]). destruct H. Qed.

Lemma char_close_err c lx0 r2 k e lx rest :
  char_close c lx0 r2 = Some (k, e, lx, rest) -> e <> [] -> k = CharT c /\ lx = lx0.
Proof.
  unfold char_close. destruct r2 as [|d r3].
  - intros H _. injection H as Hk _ Hlx _. now subst.
  - destruct (d =? 39).
    + intros H He. injection H as _ He' _ _. congruence.
    + intros H _. injection H as Hk _ Hlx _. now subst.
Qed.

Theorem lex_raw_char_cr_err s e lx rest :
  lex_raw s = Some (CharT 13, e, lx, rest) -> e <> [] -> lx = [39; 13].
Proof.
  intros H He. unfold lex_raw in H.
  repeat (apply orelse_inv in H as [H|H]).
  - exfalso. unfold lex_comment in H. destruct (starts [47; 47] s); [|discriminate H].
    destruct (snd (span not_nl (skipn 2 s))); injection H as Hk _ _ _; discriminate Hk.
  - exfalso. unfold lex_sym in H. destruct (first_match sym_table s) as [[p j]|] eqn:E; [|discriminate H].
    injection H as Hk _ _ _. apply first_match_in in E as [Hin _]. exact (sym_not_char p j 13 Hin Hk).
  - exfalso. unfold lex_kw in H. destruct (first_kw kw_table s) as [[p j]|] eqn:E; [|discriminate H].
    injection H as Hk _ _ _. apply first_kw_in in E as [Hin _]. exact (kw_not_char p j 13 Hin Hk).
  - rewrite lex_char_eq in H. unfold lex_char' in H. destruct s as [|q r]; [discriminate H|].
    destruct (q =? 39); [|discriminate H].
    destruct (starts [92; 110] r).
    + exfalso. apply char_close_err in H as [Hk _]; [|exact He]. injection Hk as Hk. discriminate Hk.
    + destruct r as [|x r2]; [discriminate H|].
      apply char_close_err in H as [Hk Hlx]; [|exact He]. injection Hk as Hk. subst x lx. reflexivity.
  - exfalso. unfold lex_hex in H. destruct (starts [48; 120] s); [|discriminate H].
    destruct (fst (span is_hex (skipn 2 s))) as [|h d].
    + injection H as Hk _ _ _. discriminate Hk.
    + destruct (hex_value (h :: d) <? u32_limit); injection H as Hk _ _ _; discriminate Hk.
  - exfalso. unfold lex_int in H. destruct (fst (span is_digit s)) as [|h d]; [discriminate H|].
    destruct (dec_value (h :: d) <? u32_limit); injection H as Hk _ _ _; discriminate Hk.
  - exfalso. unfold lex_ident in H. destruct s as [|c r]; [discriminate H|].
    destruct (is_ident_start c); [|discriminate H]. injection H as Hk _ _ _. discriminate Hk.
  - exfalso. unfold lex_unknown in H. destruct s as [|c r]; [discriminate H|].
    injection H as Hk _ _ _. discriminate Hk.
Qed.

(* ---------------------------------------------------------------------------------------- *)
(* every token of a run                                                                      *)

Definition tok_at (off : N) (s : text) (t : token) : Prop :=
  exists a lx b,
    s = a ++ lx ++ b /\ ts t = off + blen a /\ te t = ts t + blen lx /\
    stops is_ws (lx ++ b) /\
    (lx = [] -> b = [] /\ tk t = Eof) /\
    (lx <> [] -> tk t <> Eof) /\
    (forall lx' b', lx = lx' ++ [13] -> b = 10 :: b' ->
       tk t = CharT 13 /\ lx' = [39] /\ terr t = [mkerr (te t) (te t) MissingClosingTick]) /\
    (tk t = CharT 13 -> terr t <> [] -> lx = [39; 13]).

Lemma run_tok_at off s toks : Run off s toks -> Forall (tok_at off s) toks.
Proof.
  induction 1 as [off ws Hw | off ws s1 k e lx rest tl Hw Hst E _ IH].
  - constructor; [|constructor]. exists ws, [], []. cbn [eof_token ts te tk terr blen app].
    rewrite app_nil_r.
    split; [reflexivity|]. split; [reflexivity|]. split; [lia|]. split; [exact I|].
    split; [intros _; split; reflexivity|]. split; [intros H; now contradiction H|]. split.
    + intros lx' b' H _. destruct lx'; discriminate H.
    + intros H. discriminate H.
  - pose proof (lex_raw_not_eof _ _ _ _ _ E) as Hk.
    pose proof (lex_raw_split _ _ _ _ _ E) as [Hs1 Hne].
    constructor.
    + exists ws, lx, rest. cbn [mk_token ts te tk terr]. subst s1.
      split; [reflexivity|]. split; [reflexivity|]. split; [reflexivity|]. split; [exact Hst|].
      split; [intros H0; contradiction (Hne H0)|]. split; [intros _; exact Hk|]. split.
      * intros lx' b' Hlx Hb. subst lx rest.
        destruct (lex_raw_end_cr _ _ _ _ _ Hst E) as [Hk13 [Hlx' He]]. subst k lx' e.
        split; [reflexivity|]. split; [reflexivity|].
        cbn [map shift_err mkerr le_s le_e le_m app].
        change (blen [39; 13]) with 2. unfold mkerr, shift_err. cbn [le_s le_e le_m].
        f_equal. f_equal; lia.
      * intros Hk13 He. subst k. apply (lex_raw_char_cr_err _ _ _ _ E).
        intros He0. subst e. apply He. reflexivity.
    + eapply Forall_impl; [|exact IH]. intros t (a & lx2 & b & Hr & Hts & Hte & Hrest).
      exists (ws ++ lx ++ a), lx2, b. subst s1. split.
      * rewrite Hr, <- !app_assoc. reflexivity.
      * split; [rewrite Hts, !blen_app; lia|]. split; [exact Hte|]. exact Hrest.
Qed.

Theorem lex_tok_at s toks : lex s = Some toks -> Forall (tok_at 0 s) toks.
Proof. intros H. apply run_tok_at. exact (lex_from_run _ _ _ _ H). Qed.
