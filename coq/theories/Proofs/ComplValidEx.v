(* C16 - a concrete valid program for the non-vacuity examples of Props/C16.v:

     type v = array [2] of int;
     proc p(ref a: v, n: int) { var i: int; i := n; while (i < 2) { a[i] := i; i := i + 1; } }
     proc main() { }
     proc q() { var w: array [2] of int; }

   its abstract program [cx_p], its table [cx_table], [cx_well_typed], and the layout [cx_text]
   ([cx_layout]: the text lexes to the token kinds of cx_p). *)
From Coq Require Import String NArith List.
From Spl Require Import Proofs.GrammarProofs Spec.Typing Proofs.TypingProofs Model.Completion.
Import ListNotations.
Open Scope N_scope.

Definition cx0 : cs := [].
Definition cx_nm (s : text) := AName cx0 s.
Definition cx_ef f := CAdd (AMul (MFac f)).
Definition cx_lit n := FLit cx0 (LDec n).
Definition sx_v : text := [118]. Definition sx_p : text := [112]. Definition sx_a : text := [97].
Definition sx_n : text := [110]. Definition sx_i : text := [105].
Definition sx_q : text := [113]. Definition sx_w : text := [119].

Definition cx_while : astmt :=
  SWhl cx0 cx0 (CBin (AMul (MFac (FVar (cx_nm sx_i)))) cx0 CLt (AMul (MFac (cx_lit 2)))) cx0
    (SBlk cx0 (SCons (SAsg (AIndex (cx_nm sx_a) cx0 (cx_ef (FVar (cx_nm sx_i))) cx0) cx0 (cx_ef (FVar (cx_nm sx_i))) cx0)
              (SCons (SAsg (cx_nm sx_i) cx0 (CAdd (ABin (AMul (MFac (FVar (cx_nm sx_i)))) cx0 APlus (MFac (cx_lit 1)))) cx0) SNil)) cx0).

Definition cx_assign : astmt := SAsg (cx_nm sx_i) cx0 (cx_ef (FVar (cx_nm sx_n))) cx0.
Definition cx_var : avardecl := {| v_c1 := cx0; v_c2 := cx0; v_x := sx_i; v_c3 := cx0; v_t := TName cx0 s_int; v_c4 := cx0 |}.
Definition cx_params : aparams := Some (PRef cx0 cx0 sx_a cx0 (TName cx0 sx_v), [(cx0, PVal cx0 sx_n cx0 (TName cx0 s_int))]).
Definition cx_type : adecl := DType cx0 cx0 sx_v cx0 (TArr cx0 cx0 cx0 (LDec 2) cx0 cx0 (TName cx0 s_int)) cx0.
Definition cx_main : adecl := DProc cx0 cx0 s_main cx0 None cx0 cx0 [] SNil cx0.

Definition cx_wvar : avardecl :=
  {| v_c1 := cx0; v_c2 := cx0; v_x := sx_w; v_c3 := cx0; v_t := TArr cx0 cx0 cx0 (LDec 2) cx0 cx0 (TName cx0 s_int); v_c4 := cx0 |}.
Definition cx_q : adecl := DProc cx0 cx0 sx_q cx0 None cx0 cx0 [cx_wvar] SNil cx0.

Definition cx_p : aprog :=
  {| a_decls :=
       [ cx_type;
         DProc cx0 cx0 sx_p cx0 cx_params cx0 cx0 [cx_var] (SCons cx_assign (SCons cx_while SNil)) cx0;
         cx_main; cx_q ];
     a_ceof := cx0 |}.

Definition cx_tree : program := Eval vm_compute in expected cx_p.
Definition cx_table : gtable :=
  Eval vm_compute in match build_res cx_tree with ROk (_, g) => g | RFail _ => [] end.

Definition cx_text : text :=
  (str "type v = array [2] of int;" ++ [10]
   ++ str "proc p(ref a: v, n: int) { var i: int; i := n; while (i < 2) { a[i] := i; i := i + 1; } }" ++ [10]
   ++ str "proc main() { }" ++ [10]
   ++ str "proc q() { var w: array [2] of int; }")%list.

Ltac cx_binds := apply lt_lookup_binds; vm_compute; reflexivity.
Ltac cx_ops := first [reflexivity | left; reflexivity | right; cx_ops].
Ltac cx_ty :=
  lazymatch goal with
  | |- var_type _ _ (NamedVar _) _ =>
      eapply VT_name; [cx_binds | first [left; reflexivity | right; reflexivity] | reflexivity]
  | |- var_type _ _ (ArrAccess _ _ _) _ => eapply VT_index; [cx_ty | cx_ty]
  | |- expr_type _ _ (EInt _) _ => apply ET_lit
  | |- expr_type _ _ (EVar _) _ => apply ET_var; cx_ty
  | |- expr_type _ _ (EBin _ _ _ _) _ => first [apply ET_arith; [cx_ops | cx_ty | cx_ty] | apply ET_compare; [cx_ops | cx_ty | cx_ty]]
  | |- expr_type _ _ (EUn _ _ _) _ => apply ET_neg; cx_ty
  | |- expr_type _ _ (EBrack _ _) _ => apply ET_paren; cx_ty
  end.
Ltac cx_st :=
  lazymatch goal with
  | |- wt_stmt _ _ (SEmpty _) => apply WT_empty
  | |- wt_stmt _ _ (SAssign _ _ _) => apply WT_assign; cx_ty
  | |- wt_stmt _ _ (SIf _ _ None _) => apply WT_if; [cx_ty | cx_st]
  | |- wt_stmt _ _ (SIf _ _ (Some _) _) => apply WT_if_else; [cx_ty | cx_st | cx_st]
  | |- wt_stmt _ _ (SWhile _ _ _) => apply WT_while; [cx_ty | cx_st]
  | |- wt_stmt _ _ (SBlock _ _) => apply WT_block; cx_st
  | |- wt_stmts _ _ [] => apply WT_nil
  | |- wt_stmts _ _ (_ :: _) => apply WT_cons; [cx_st | cx_st]
  end.
Ltac cx_den :=
  lazymatch goal with
  | |- denotes _ _ _ (TNamed _) _ => eapply Den_name; [cx_binds | reflexivity]
  | |- denotes _ _ _ (TArray _ _ _) _ => eapply Den_array; cx_den
  end.
Ltac cx_no_array := intros [? [? [? ?]]]; discriminate.
Ltac cx_pars :=
  lazymatch goal with
  | |- wf_params _ _ _ [] _ _ => apply WFP_nil
  | |- wf_params _ _ _ (_ :: _) _ _ =>
      eapply WFP_cons; [cx_den | first [intros _; reflexivity | cx_no_array] | vm_compute; reflexivity | cx_pars]
  end.
Ltac cx_vars :=
  lazymatch goal with
  | |- wf_vars _ _ _ [] _ => apply WFV_nil
  | |- wf_vars _ _ _ (_ :: _) _ => eapply WFV_cons; [cx_den | vm_compute; reflexivity | cx_vars]
  end.
Ltac cx_decls :=
  lazymatch goal with
  | |- wf_gdecls _ [] _ => apply WFG_nil
  | |- wf_gdecls _ ((GType _, _) :: _) _ =>
      eapply WFG_cons;
      [eapply WF_type; [reflexivity | vm_compute; discriminate | vm_compute; reflexivity | reflexivity | cx_den] | cx_decls]
  | |- wf_gdecls _ ((GProc _, _) :: _) _ =>
      eapply WFG_cons; [eapply WF_proc; [reflexivity | vm_compute; reflexivity | cbn [pd_params]; cx_pars | cbn [pd_vars]; cx_vars] | cx_decls]
  end.

Lemma cx_well_typed : well_typed (expected cx_p) cx_table.
Proof.
  change (expected cx_p) with cx_tree. split.
  - unfold wf_program. eexists. split; [unfold cx_tree; cbn [pg_decls]; cx_decls|].
    split; [vm_compute; reflexivity|]. eexists. split; vm_compute; reflexivity.
  - unfold wt_bodies, cx_tree. cbn [pg_decls].
    repeat (apply Forall_cons; [split; [unfold has_entry; cbn [fst pd_name]; try exact I; vm_compute; discriminate|]|]);
      [| | | |apply Forall_nil].
    + exact I.
    + unfold wt_body. cbn [fst snd]. intros pe [name [Hn [Hl _]]]. injection Hn as <-. vm_compute in Hl. injection Hl as <-.
      cbn [pe_local pd_stmts]. cx_st.
    + unfold wt_body. cbn [fst snd]. intros pe [name [Hn [Hl _]]]. injection Hn as <-. vm_compute in Hl. injection Hl as <-.
      cbn [pe_local pd_stmts]. cx_st.
    + unfold wt_body. cbn [fst snd]. intros pe [name [Hn [Hl _]]]. injection Hn as <-. vm_compute in Hl. injection Hl as <-.
      cbn [pe_local pd_stmts]. cx_st.
Qed.

Lemma cx_layout :
  prog_ok cx_p = true /\
  match lex cx_text with Some toks => map tk toks = flatten cx_p ++ [Eof] | None => False end.
Proof. vm_compute. split; reflexivity. Qed.
