(* C13, second half - the text level.  On a text t that lexes to toks, replacing the bytes of selected
   identifier tokens (all spelled old) by a valid identifier new, as the edits of a rename do
   (Spec/Nav.v [apply_rename] on the position ranges of the tokens, Proofs/RefsRoundText.v), yields a text
   that lexes to the same tokens with these identifiers respelled, and the same edits with old on the new
   text restore t ([lex_rename]).  Needed besides lexer locality (Proofs/LexLocality.v): a token that is
   no literal lexes the same when the identifier DIRECTLY behind it changes its spelling ([lex_raw_swap];
   `0` + `x1` or `0x1` + `a` would merge - in a program no literal stands in front of an identifier). *)
From Coq Require Import PeanoNat Lia Bool List NArith.
From Spl Require Import Model.Lexer Spec.LexSpec Proofs.LexerProofs Proofs.LexLocality Proofs.LexRun Proofs.LexConformOne Proofs.LexConform.
From Spl Require Import Proofs.RenderProofs Proofs.FormatProofs Proofs.DocProofs Model.Cursor Spec.Nav Proofs.RefsRoundText Proofs.RefsRoundDefs.
Import ListNotations.
Local Open Scope N_scope.

(* kinds after which the spelling of a directly following identifier matters (or that are no token of a
   program at all) *)
Definition notlit (k : kind) : Prop :=
  match k with IntT _ | HexT _ | CharT _ | Unknown _ => False | _ => True end.

Lemma sym_not_ident' p k : In (p, k) sym_table -> forall x, k <> Ident x.
Proof. cbn. intros H x. repeat (destruct H as [H|H]; [inversion H; discriminate|]). destruct H. Qed.
Lemma kw_not_ident' p k : In (p, k) kw_table -> forall x, k <> Ident x.
Proof. cbn. intros H x. repeat (destruct H as [H|H]; [inversion H; discriminate|]). destruct H. Qed.

(* an identifier token: its lexeme is its value, no error, and what follows does not continue a word *)
Lemma lex_raw_ident_inv s x e lx rest : lex_raw s = Some (Ident x, e, lx, rest) ->
  lx = x /\ e = [] /\ stops is_alnum_trunc rest
  /\ exists c r, x = c :: r /\ is_ident_start c = true /\ forallb is_alnum_trunc r = true.
Proof.
  unfold lex_raw. intros H.
  repeat (apply orelse_inv in H as [H|H]).
  - unfold lex_comment in H. destruct (starts _ s); [|discriminate]. destruct (snd _); inversion H.
  - unfold lex_sym in H. destruct (first_match sym_table s) as [[p j]|] eqn:E; [|discriminate].
    inversion H; subst. apply first_match_in in E as [Hin _]. exfalso. exact (sym_not_ident' _ _ Hin x eq_refl).
  - unfold lex_kw in H. destruct (first_kw kw_table s) as [[p j]|] eqn:E; [|discriminate].
    inversion H; subst. apply first_kw_in in E as [Hin _]. exfalso. exact (kw_not_ident' _ _ Hin x eq_refl).
  - unfold lex_char in H. destruct s as [|c r]; [discriminate|].
    destruct c as [|p]; [discriminate|]. do 6 (destruct p as [p|p|]; try discriminate).
    destruct (if starts [92; 110] r then _ else _) as [[[c lx'] r2]|]; [|discriminate].
    destruct r2 as [|d r3]; [inversion H|].
    destruct d as [|p]; [inversion H|].
    do 6 (destruct p as [p|p|]; try (inversion H; fail)).
  - unfold lex_hex in H. destruct (starts _ s); [|discriminate].
    destruct (fst _); [inversion H|]. destruct (_ <? _); inversion H.
  - unfold lex_int in H. destruct (fst _); [discriminate|]. destruct (_ <? _); inversion H.
  - unfold lex_ident in H. destruct s as [|c r]; [discriminate|].
    destruct (is_ident_start c) eqn:Ec; [|discriminate]. injection H as <- <- <- <-.
    split; [reflexivity|]. split; [reflexivity|]. split; [apply span_snd_stops|].
    exists c, (fst (span is_alnum_trunc r)). split; [reflexivity|]. split; [exact Ec | apply span_all].
  - unfold lex_unknown in H. destruct s; inversion H.
Qed.

Lemma ident_start_not61 c : is_ident_start c = true -> c <> 61 /\ c <> 47.
Proof. intros H. split; intros ->; vm_compute in H; discriminate H. Qed.

(* a token that is no literal lexes the same when the identifier that follows it directly is respelled *)
Lemma lex_raw_swap s k e lx c r c' r' :
  lex_raw s = Some (k, e, lx, c :: r) -> is_ident_start c = true -> is_ident_start c' = true -> notlit k ->
  lex_raw (lx ++ c' :: r') = Some (k, e, lx, c' :: r').
Proof.
  intros H Hc Hc' Hk. pose proof (ident_start_alnum _ Hc) as Ha. destruct (ident_start_not61 _ Hc') as [N61 N47].
  unfold lex_raw in H.
  repeat (apply orelse_inv in H as [H|H]).
  - unfold lex_comment in H. destruct (starts [47; 47] s) eqn:Es; [|discriminate].
    pose proof (span_all not_nl (skipn 2 s)) as Hb.
    destruct (snd (span not_nl (skipn 2 s))) as [|nl rest] eqn:E2; [inversion H|]. injection H as <- <- <- _.
    pose proof (span_stop _ _ _ _ E2) as Hnl. unfold not_nl in Hnl. apply negb_false_iff, N.eqb_eq in Hnl. subst nl.
    cbn [app]. rewrite <- app_assoc. cbn [app]. now apply lex_raw_comment_nl.
  - unfold lex_sym in H. destruct (first_match sym_table s) as [[p j]|] eqn:E; [|discriminate].
    injection H as <- <- <- _. apply first_match_in in E as [Hin _]. apply lex_raw_sym; [exact Hin|].
    cbn in Hin. repeat (destruct Hin as [Hin|Hin]; [inversion Hin; subst p j; clear Hin; cbn [Delimited]; try exact I|]); [..|destruct Hin].
    + now apply not61.
    + now apply not61.
    + now apply not61.
    + now apply not47.
  - unfold lex_kw in H. destruct (first_kw kw_table s) as [[p j]|] eqn:E; [|discriminate].
    injection H as <- <- <- Hr. apply first_kw_in in E as [_ [_ Hok]]. rewrite Hr in Hok. unfold kw_ok in Hok. rewrite Ha in Hok. discriminate.
  - exfalso. unfold lex_char in H. destruct s as [|c0 r0]; [discriminate|].
    destruct c0 as [|p]; [discriminate|]. do 6 (destruct p as [p|p|]; try discriminate).
    destruct (if starts [92; 110] r0 then _ else _) as [[[c1 lx'] r2]|]; [|discriminate].
    destruct r2 as [|d r3]; [inversion H; subst; exact Hk|].
    destruct d as [|p]; [inversion H; subst; exact Hk|].
    do 6 (destruct p as [p|p|]; try (inversion H; subst; exact Hk)).
  - exfalso. unfold lex_hex in H. destruct (starts _ s); [|discriminate].
    destruct (fst _); [inversion H; subst; exact Hk|]. destruct (_ <? _); inversion H; subst; exact Hk.
  - exfalso. unfold lex_int in H. destruct (fst _); [discriminate|]. destruct (_ <? _); inversion H; subst; exact Hk.
  - exfalso. unfold lex_ident in H. destruct s as [|c0 r0]; [discriminate|].
    destruct (is_ident_start c0); [|discriminate]. injection H as _ _ _ Hr.
    pose proof (span_snd_stops is_alnum_trunc r0) as Hst. rewrite Hr in Hst. cbn [stops] in Hst. congruence.
  - exfalso. unfold lex_unknown in H. destruct s; inversion H; subst; exact Hk.
Qed.

(* ---------------------------------------------------------------------------------------- *)
(* respelling selected identifier tokens of a lexed text *)

Definition hS (sel : nat -> bool) (new : text) : nat -> text -> text := fun k x => if sel k then new else x.

(* the byte ranges of the selected tokens; k = index of the first token of the list *)
Fixpoint sel_ranges (sel : nat -> bool) (k : nat) (toks : list token) : list (N * N) :=
  match toks with
  | [] => []
  | t :: r => (if sel k then [(ts t, te t)] else []) ++ sel_ranges sel (S k) r
  end.

Definition seg_new (new : text) (segs : list (text * bool)) : list (text * bool) :=
  map (fun sg : text * bool => if snd sg then (new, true) else sg) segs.

Lemma seg_text_new new segs : seg_text (seg_new new segs) = seg_subst new segs.
Proof.
  induction segs as [|[x b] r IH]; [reflexivity|]. unfold seg_new in *. cbn [map]. rewrite seg_text_cons, seg_subst_cons, IH.
  cbn [fst snd]. now destruct b.
Qed.

Lemma seg_subst_back old new segs :
  Forall (fun sg : text * bool => snd sg = true -> fst sg = old) segs -> seg_subst old (seg_new new segs) = seg_text segs.
Proof.
  induction 1 as [|[x b] r H _ IH]; [reflexivity|]. unfold seg_new in *. cbn [map]. rewrite seg_text_cons, seg_subst_cons, IH.
  cbn [fst snd] in *. destruct b; cbn [fst snd]; [now rewrite H|reflexivity].
Qed.

Definition headrel (b : bool) (s s' : text) : Prop :=
  agree1 s s' \/ (b = true /\ exists c r c' r', s = c :: r /\ s' = c' :: r' /\ is_ident_start c = true /\ is_ident_start c' = true).

Lemma ident_start_not_ws c : is_ident_start c = true -> is_ws c = false.
Proof. intros H. apply alnum_ascii_not_ws. now apply ident_start_ascii. Qed.

Lemma agree1_app_ne (x y y' : text) : x <> [] -> agree1 (x ++ y) (x ++ y').
Proof. destruct x; [congruence|]. reflexivity. Qed.

Lemma terr_mk off k e lx : terr (mk_token off k e lx) = [] <-> e = [].
Proof. unfold mk_token. cbn [terr]. split; [apply map_eq_nil | intros ->; reflexivity]. Qed.

Lemma alnum_not_nl c : is_alnum_trunc c = true -> negb (isnl c) = true.
Proof.
  intros H. unfold isnl. destruct (N.eqb_spec c 10) as [->|_]; [vm_compute in H; discriminate H|].
  destruct (N.eqb_spec c 13) as [->|_]; [vm_compute in H; discriminate H | reflexivity].
Qed.

Lemma ident_piece_ok c r : is_ident_start c = true -> forallb is_alnum_trunc r = true ->
  (c :: r) <> [] /\ forallb (fun c => negb (isnl c)) (c :: r) = true.
Proof.
  intros Hc Hr. split; [discriminate|]. cbn [forallb]. rewrite (alnum_not_nl _ (ident_start_alnum _ Hc)). cbn [andb].
  apply forallb_forall. intros x Hx. rewrite forallb_forall in Hr. now apply alnum_not_nl, Hr.
Qed.

Section Rename.
Variables (sel : nat -> bool) (old new : text).
Hypothesis Hnew : ident_ok new.

Lemma new_head : exists c r, new = c :: r /\ is_ident_start c = true.
Proof. destruct Hnew as [H _]. destruct new as [|c r]; [contradiction|]. destruct H as [H _]. eauto. Qed.

Theorem run_rename : forall off s toks, Run off s toks -> forall k : nat,
  (forall j tok, nth_error toks j = Some tok -> sel (k + j)%nat = true -> tk tok = Ident old) ->
  (forall j tok, nth_error toks j = Some tok -> sel (k + j + 1)%nat = true -> notlit (tk tok)) ->
  exists segs, seg_text segs = s /\ Forall (fun sg : text * bool => snd sg = true -> fst sg = old) segs
    /\ Forall seg_ok segs
    /\ seg_ranges off segs = sel_ranges sel k toks
    /\ headrel (sel k) s (seg_subst new segs)
    /\ forall off', exists toks', Run off' (seg_subst new segs) toks'
         /\ map tk toks' = sk (hS sel new) k (map tk toks)
         /\ sel_ranges sel k toks' = seg_ranges off' (seg_new new segs)
         /\ (Forall (fun t => terr t = []) toks -> Forall (fun t => terr t = []) toks').
Proof.
  induction 1 as [off ws Hw | off ws s1 k0 e lx rest tl Hw Hst E Hr IH]; intros k H1 H2.
  - assert (Es : sel k = false).
    { destruct (sel k) eqn:Es; [|reflexivity]. specialize (H1 0%nat _ eq_refl). rewrite Nat.add_0_r in H1. specialize (H1 Es). discriminate H1. }
    exists [(ws, false)]. unfold seg_text, seg_subst, seg_new. cbn [map concat fst snd seg_ranges sel_ranges app]. rewrite Es, !app_nil_r.
    split; [reflexivity|]. split; [constructor; [discriminate | constructor]|].
    split; [constructor; [intros Hd; discriminate Hd | constructor]|]. split; [reflexivity|]. split; [left; reflexivity|].
    intros off'. exists [eof_token (off' + blen ws)]. split; [now apply Run_eof|]. cbn [map eof_token tk sk sel_ranges seg_ranges snd app]. rewrite Es.
    split; [reflexivity|]. split; [reflexivity|]. intros _. constructor; [reflexivity | constructor].
  - pose proof (lex_raw_split _ _ _ _ _ E) as [Es1 Hlx]. subst s1.
    destruct (IH (S k)) as [segs [Ht [Hold [Hok [Hrg [Hhd Hnew']]]]]].
    { intros j tok Hn Hs. apply (H1 (S j) tok Hn). replace (k + S j)%nat with (S k + j)%nat by lia. exact Hs. }
    { intros j tok Hn Hs. apply (H2 (S j) tok Hn). replace (k + S j + 1)%nat with (S k + j + 1)%nat by lia. exact Hs. }
    set (rest' := seg_subst new segs) in *.
    destruct (sel k) eqn:Esel.
    + (* the token is selected *)
      assert (Ek : k0 = Ident old). { specialize (H1 0%nat _ eq_refl). rewrite Nat.add_0_r in H1. exact (H1 Esel). }
      subst k0. destruct (lex_raw_ident_inv _ _ _ _ _ E) as [-> [-> [Hstop [c [r0 [Eold [Hc Hr0]]]]]]].
      destruct new_head as [c' [r' [Enew Hc']]].
      exists ((ws, false) :: (old, true) :: segs). rewrite !seg_text_cons, !seg_subst_cons. cbn [fst snd]. fold rest'.
      split; [now rewrite Ht|]. split; [constructor; [discriminate|]; constructor; [reflexivity | exact Hold]|].
      split. { constructor; [intros Hd; discriminate Hd|]. constructor; [|exact Hok]. intros _. cbn [fst]. rewrite Eold. now apply ident_piece_ok. }
      split. { cbn [seg_ranges sel_ranges fst snd app mk_token ts te]. rewrite Esel, Hrg. reflexivity. }
      split.
      { destruct ws as [|w ws']; [|left; reflexivity]. right. split; [reflexivity|]. rewrite Eold, Enew. cbn [app]. do 4 eexists. eauto. }
      intros off'. destruct (Hnew' (off' + blen ws + blen new)) as [tl' [Hr' [Hk' [Hs' He']]]].
      assert (Hwe : word_end rest' = true).
      { unfold word_end. apply kw_ok_stops. destruct Hhd as [Hag | [_ [c1 [r1 [c2 [r2 [E1 [_ [Hc1 _]]]]]]]]].
        - exact (stops_agree _ _ _ Hag Hstop).
        - rewrite E1 in Hstop. cbn [stops] in Hstop. rewrite (ident_start_alnum _ Hc1) in Hstop. discriminate. }
      exists (mk_token (off' + blen ws) (Ident new) [] new :: tl'). split; [|split; [|split]].
      * eapply Run_tok; [exact Hw | | apply lex_ident_glue; [exact Hnew | exact Hwe] | exact Hr'].
        rewrite Enew. cbn [app stops]. now apply ident_start_not_ws.
      * cbn [map mk_token tk sk]. unfold hS at 1. rewrite Esel, Hk'. reflexivity.
      * unfold seg_new. cbn [map sel_ranges seg_ranges fst snd app mk_token ts te]. rewrite Esel. fold (seg_new new segs). rewrite Hs'. reflexivity.
      * intros Hf. inversion Hf as [|? ? _ Hf']; subst. constructor; [reflexivity | exact (He' Hf')].
    + (* the token stays *)
      exists ((ws, false) :: (lx, false) :: segs). rewrite !seg_text_cons, !seg_subst_cons. cbn [fst snd]. fold rest'.
      split; [now rewrite Ht|]. split; [constructor; [discriminate|]; constructor; [discriminate | exact Hold]|].
      split. { constructor; [intros Hd; discriminate Hd|]. constructor; [intros Hd; discriminate Hd | exact Hok]. }
      split. { cbn [seg_ranges sel_ranges fst snd app mk_token ts te]. rewrite Esel, Hrg. reflexivity. }
      split.
      { left. destruct ws as [|w ws']; [|reflexivity]. cbn [app]. now apply agree1_app_ne. }
      intros off'. destruct (Hnew' (off' + blen ws + blen lx)) as [tl' [Hr' [Hk' [Hs' He']]]].
      assert (El : lex_raw (lx ++ rest') = Some (k0, e, lx, rest')).
      { destruct Hhd as [Hag | [Hs1 [c1 [r1 [c2 [r2 [E1 [E2 [Hc1 Hc2]]]]]]]]].
        - apply (lex_raw_local _ _ _ _ _ _ E). intros _. exact Hag.
        - rewrite E2. rewrite E1 in E. apply (lex_raw_swap _ _ _ _ _ _ _ _ E Hc1 Hc2).
          specialize (H2 0%nat _ eq_refl). rewrite Nat.add_0_r, Nat.add_1_r in H2. exact (H2 Hs1). }
      exists (mk_token (off' + blen ws) k0 e lx :: tl'). split; [|split; [|split]].
      * eapply Run_tok; [exact Hw | | exact El | exact Hr'].
        eapply stops_agree; [|exact Hst]. now apply agree1_app_ne.
      * cbn [map mk_token tk]. rewrite Hk'. destruct k0; cbn [sk]; try reflexivity. f_equal. unfold hS. now rewrite Esel.
      * unfold seg_new. cbn [map sel_ranges seg_ranges fst snd app mk_token ts te]. rewrite Esel. fold (seg_new new segs). rewrite Hs'. reflexivity.
      * intros Hf. inversion Hf as [|? ? Hf0 Hf']; subst. constructor; [|exact (He' Hf')].
        apply terr_mk in Hf0. now apply terr_mk.
Qed.
End Rename.

(* ---- the text-level theorem ---- *)
Theorem lex_rename (sel : nat -> bool) (old new t : text) (toks : list token) :
  ident_ok new -> lex t = Some toks ->
  (forall j tok, nth_error toks j = Some tok -> sel j = true -> tk tok = Ident old) ->
  (forall j tok, nth_error toks j = Some tok -> sel (j + 1)%nat = true -> notlit (tk tok)) ->
  exists t' toks',
    apply_rename t (map (fun r => pos_range r t) (sel_ranges sel 0 toks)) new = Some t'
    /\ lex t' = Some toks' /\ map tk toks' = sk (hS sel new) 0 (map tk toks)
    /\ (Forall (fun x => terr x = []) toks -> Forall (fun x => terr x = []) toks')
    /\ apply_rename t' (map (fun r => pos_range r t') (sel_ranges sel 0 toks')) old = Some t.
Proof.
  intros Hnew Hlex H1 H2. unfold lex in Hlex. apply lex_from_run in Hlex.
  destruct (run_rename sel old new Hnew 0 t toks Hlex 0%nat H1 H2) as [segs [Ht [Hold [Hok [Hrg [_ Hrun]]]]]].
  destruct (Hrun 0) as [toks' [Hr' [Hk' [Hs' He']]]].
  exists (seg_subst new segs), toks'. split; [|split; [|split; [|split]]].
  - rewrite <- Ht, <- Hrg. now apply apply_rename_segs.
  - unfold lex. apply (run_lex_from _ _ _ Hr'). lia.
  - exact Hk'.
  - exact He'.
  - rewrite Hs', <- (seg_text_new new segs), <- Ht, <- (seg_subst_back old new segs Hold). apply apply_rename_segs.
    unfold seg_new. apply Forall_forall. intros sg Hin. apply in_map_iff in Hin as [[x b] [<- Hx]]. cbn [snd].
    destruct b; [|intros Hd; discriminate Hd]. intros _. cbn [fst].
    destruct Hnew as [Hn _]. destruct new as [|c r]; [contradiction|]. destruct Hn as [Hc Hr]. now apply ident_piece_ok.
Qed.

Print Assumptions lex_rename.
