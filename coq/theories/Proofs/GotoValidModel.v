(* C12 - go-to on VALID programs, part 1 (the model side; no specification vocabulary yet):
     F  the common frame [with_cursor] of the four handlers computed on a token vector in text order
        (on top of Proofs/HoverValid.v: [token_at_sorted], [global_position_sorted], [find_decl_hit]);
     L  what `slice` + `answer` return for a name inside a declaration range ([tok_loc]);
     G  the global table of a well-formed program: every entry is predefined or stems from exactly one
        declaration, tables only grow ([wf_gdecls_split], [wf_gdecls_in2], [wf_gdecls_lookup]);
        predefined = `is_default` ([default_iff]);
     T  what the static semantics says about the identifiers of a well-typed body, sharper than
        HoverValid.wt_occs: a variable is a LOCAL, a callee a global PROCEDURE no local hides;
     X  identifier tokens of a lexed text contain no `.` (the creator "<proc>.<name>" of an anonymous
        array type is no identifier). *)
From Coq Require Import PeanoNat Lia.
From Spl Require Import Proofs.GrammarBase Proofs.GrammarExpr Proofs.GrammarStmt.
From Spl Require Import Proofs.GrammarProofs Spec.Typing Model.Errors Proofs.SemProofs Proofs.TypingProofs.
From Spl Require Import Model.Hover Model.Fold Proofs.LexerProofs Proofs.FoldProofs Proofs.HoverProofs.
From Spl Require Import Proofs.HoverValid Model.Goto.
Local Open Scope nat_scope.

(* ---------------------------------------------------------------------------------------- *)
(* F: the frame                                                                              *)
Local Open Scope N_scope.

Theorem with_cursor_at {A} (d : doc) line col k tok x gd D ctx (K : text -> gentry -> bool -> res (option A)) :
  let index := get_insertion_index line col (d_text d) in
  toks_sorted (d_toks d) = true -> nth_error (d_toks d) k = Some tok -> tk tok = Ident x ->
  ts tok <= index -> index < te tok ->
  find_decl (d_toks d) index (pg_decls (d_ast d)) = ROk (Some (gd, D)) ->
  match gdecl_name gd with Some n => lookup (d_table d) (id_val n) | None => None end = Some ctx ->
  with_cursor d line col K = K x ctx (global_kind (prev_kind_k None (firstn k (map tk (d_toks d))))).
Proof.
  intros index Hs Hn Hk H1 H2 Hf Hc. unfold with_cursor, doc_cursor. fold index. rewrite Hf. cbn [rbind].
  unfold cursor_ident, is_global_position. cbn [c_doc c_index c_ctx].
  rewrite (token_at_sorted _ _ _ _ Hs Hn H1 H2), Hk. rewrite Hc.
  fold (global_position_at (d_toks d) index). rewrite (global_position_sorted _ _ _ _ Hs Hn H1 H2).
  reflexivity.
Qed.

(* the frame on an occurrence that sits in declaration dd of the program *)
Lemma with_cursor_occ {A} p G t toks l1 dd l2 post (o : occ) tok line col ctx
      (K : text -> gentry -> bool -> res (option A)) :
  let d := {| d_text := t; d_toks := toks; d_ast := expected p; d_table := G |} in
  let pre := flat_map fl_decl l1 in
  toks_sorted toks = true -> a_decls p = l1 ++ dd :: l2 ->
  map tk toks = pre ++ fl_decl dd ++ post -> (len (flat_map fl_decl (a_decls p)) <= len toks)%nat ->
  occ_at (fl_decl dd) (len pre) o ->
  nth_error toks (o_tok o) = Some tok ->
  ts tok <= get_insertion_index line col t -> get_insertion_index line col t < te tok ->
  match gdecl_name (x_decl dd) with Some n => lookup G (id_val n) | None => None end = Some ctx ->
  with_cursor d line col K = K (o_name o) ctx (global_kind (prev_kind_k None (firstn (o_tok o) (map tk toks)))).
Proof.
  intros d pre Hs Hds Hks Hlen [j [Hk Hj]] Hn H1 H2 Hc.
  assert (Hid : tk tok = Ident (o_name o)).
  { pose proof (map_nth_error tk _ _ Hn) as Hm. rewrite Hks, Hk in Hm.
    rewrite (nth_error_mid pre (fl_decl dd) post j _ Hj) in Hm. now injection Hm. }
  assert (Hjl : (j < len (fl_decl dd))%nat) by (apply nth_error_Some; congruence).
  apply (with_cursor_at d line col (o_tok o) tok (o_name o) (x_decl dd) (0 + len pre) ctx K); try assumption.
  unfold d. cbn [d_toks d_ast d_text]. unfold expected. cbn [pg_decls]. rewrite Hds.
  apply (find_decl_hit toks _ (o_tok o) tok Hs Hn H1 H2 l1 0 dd l2); rewrite <- ?Hds; fold pre; lia.
Qed.

(* no declaration of a valid document makes find_decl fail *)
Lemma find_decl_total_x toks index : forall l o,
  (o + len (flat_map fl_decl l) <= len toks)%nat -> exists r, find_decl toks index (x_decls o l) = ROk r.
Proof.
  induction l as [|d l IH]; intros o H; [eexists; reflexivity|].
  cbn [flat_map] in H. rewrite app_length in H. cbn [x_decls find_decl]. unfold slice_from.
  destruct (Nat.ltb_spec (len toks) o); [lia|]. cbn [rbind].
  destruct (decl_text_range toks o d ltac:(lia)) as [f [l0 [_ [_ Hr]]]]. rewrite Hr. cbn [rbind].
  destruct (in_range _ index); [eexists; reflexivity|]. apply IH. lia.
Qed.

Local Open Scope nat_scope.

(* ---------------------------------------------------------------------------------------- *)
(* L: slices and answers                                                                     *)

(* the LSP range of token number k *)
Definition tok_loc (d : doc) (k : nat) : option loc :=
  match nth_error (d_toks d) k with
  | Some t => Some (pos_range (ts t, te t) (d_text d))
  | None => None
  end.

Lemma slice_eq (toks : list token) (r : range) :
  fst r <= snd r -> snd r <= len toks -> slice toks r = ROk (firstn (snd r - fst r) (skipn (fst r) toks)).
Proof.
  intros H1 H2. unfold slice. destruct (Nat.ltb_spec (snd r) (fst r)); [lia|].
  destruct (Nat.ltb_spec (len toks) (snd r)); [lia|]. reflexivity.
Qed.

Lemma nth_slice {A} (l : list A) a n j : j < n -> nth_error (firstn n (skipn a l)) j = nth_error l (a + j).
Proof. intros H. rewrite nth_firstn_lt by exact H. apply FoldProofs.nth_skipn. Qed.

Lemma slice_len {A} (l : list A) a n : a + n <= len l -> len (firstn n (skipn a l)) = n.
Proof. intros H. rewrite firstn_length, skipn_length. lia. Qed.

Lemma answer_loc d sl e j :
  i_s (id_info (entry_name e)) < i_e (id_info (entry_name e)) ->
  nth_error sl (i_e (id_info (entry_name e)) - 1) = nth_error (d_toks d) j -> j < len (d_toks d) ->
  answer d sl e = ROk (tok_loc d j).
Proof.
  intros Hi Hn Hj. unfold answer, entry_text_range, ident_text_range, tok_loc.
  destruct (Nat.ltb_spec (i_s (id_info (entry_name e))) (i_e (id_info (entry_name e)))); [|lia].
  rewrite Hn. destruct (nth_error (d_toks d) j) as [t|] eqn:E; [reflexivity|].
  apply nth_error_None in E. lia.
Qed.

(* a global entry: the name inside the declaration's range *)
Lemma global_goto_loc d (r : range) e :
  fst r <= snd r -> snd r <= len (d_toks d) ->
  i_s (id_info (entry_name e)) < i_e (id_info (entry_name e)) -> i_e (id_info (entry_name e)) <= snd r - fst r ->
  (do toks <- slice (d_toks d) r; answer d toks e) = ROk (tok_loc d (fst r + (i_e (id_info (entry_name e)) - 1))).
Proof.
  intros H1 H2 H3 H4. rewrite (slice_eq _ _ H1 H2). cbn [rbind].
  apply answer_loc; [exact H3 | apply nth_slice; lia | lia].
Qed.

(* a parameter or variable: the name inside the local declaration's range inside the procedure's range *)
Lemma local_goto_loc d (r rv : range) e :
  fst r <= snd r -> snd r <= len (d_toks d) -> fst rv <= snd rv -> snd rv <= snd r - fst r ->
  i_s (id_info (entry_name e)) < i_e (id_info (entry_name e)) -> i_e (id_info (entry_name e)) <= snd rv - fst rv ->
  (do s1 <- slice (d_toks d) r; do s2 <- slice s1 rv; answer d s2 e)
  = ROk (tok_loc d (fst r + (fst rv + (i_e (id_info (entry_name e)) - 1)))).
Proof.
  intros H1 H2 H3 H4 H5 H6. rewrite (slice_eq _ _ H1 H2). cbn [rbind].
  rewrite slice_eq; [|exact H3 | rewrite slice_len; lia]. cbn [rbind].
  apply answer_loc; [exact H5 | | lia].
  rewrite nth_slice by lia. rewrite nth_slice by lia. reflexivity.
Qed.

(* ---------------------------------------------------------------------------------------- *)
(* G: the global table                                                                       *)

Definition sub_table {V} (A B : list (text * V)) : Prop := forall x v, lookup A x = Some v -> lookup B x = Some v.

Lemma sub_table_refl {V} (A : list (text * V)) : sub_table A A.
Proof. intros x v H. exact H. Qed.

Lemma sub_table_trans {V} (A B C : list (text * V)) : sub_table A B -> sub_table B C -> sub_table A C.
Proof. intros H1 H2 x v H. apply H2, H1, H. Qed.

Lemma sub_table_app {V} (A B : list (text * V)) : sub_table A (A ++ B).
Proof. intros x v H. now apply lookup_app_l. Qed.

Lemma sub_table_none {V} (A B : list (text * V)) x : sub_table A B -> lookup B x = None -> lookup A x = None.
Proof. intros H HB. destruct (lookup A x) as [v|] eqn:E; [|reflexivity]. rewrite (H _ _ E) in HB. discriminate. Qed.

Lemma wf_gdecls_split : forall A G0 g off B es, wf_gdecls G0 (A ++ (g, off) :: B) es ->
  exists e1 ke e2, es = e1 ++ ke :: e2 /\ wf_gdecls G0 A e1 /\ wf_gdecl (G0 ++ e1) off g ke /\
                   wf_gdecls ((G0 ++ e1) ++ [ke]) B e2.
Proof.
  induction A as [|[g0 o0] A IH]; intros G0 g off B es H; cbn [app] in H.
  - inversion H as [|G d o ke r es' Hd Hr]; subst. exists [], ke, es'. rewrite app_nil_r.
    repeat split; [constructor | exact Hd | exact Hr].
  - inversion H as [|G d o ke r es' Hd Hr]; subst.
    destruct (IH _ _ _ _ _ Hr) as [e1 [ke' [e2 [-> [H1 [H2 H3]]]]]].
    exists (ke :: e1), ke', e2.
    assert (Ha : (G0 ++ [ke]) ++ e1 = G0 ++ ke :: e1) by (now rewrite <- app_assoc).
    rewrite Ha in H2, H3.
    repeat split; [constructor; assumption | exact H2 | exact H3].
Qed.

Lemma wf_gdecls_in2 : forall G0 ds es, wf_gdecls G0 ds es ->
  forall g off, In (g, off) ds ->
  exists Gi ke, wf_gdecl Gi off g ke /\ sub_table G0 Gi /\ sub_table Gi (G0 ++ es) /\
                lookup (G0 ++ es) (fst ke) = Some (snd ke).
Proof.
  induction 1 as [G | G d off [k e] r es Hd _ IH]; intros g o Hin; [contradiction|].
  destruct (wf_gdecl_fresh _ _ _ _ Hd) as [Hf _]. cbn [fst] in Hf.
  assert (Heq : G ++ (k, e) :: es = (G ++ [(k, e)]) ++ es) by (now rewrite <- app_assoc).
  destruct Hin as [Hin|Hin].
  - injection Hin as <- <-. exists G, (k, e). split; [exact Hd|]. cbn [fst snd].
    split; [apply sub_table_refl|]. split; [apply sub_table_app|].
    rewrite Heq. apply lookup_app_l. now apply lookup_snoc_same.
  - destruct (IH _ _ Hin) as [Gi [ke [H1 [H2 [H3 H4]]]]]. exists Gi, ke. rewrite Heq.
    repeat split; try assumption. eapply sub_table_trans; [apply sub_table_app | exact H2].
Qed.

(* every entry of the final table is an initial one or the entry of a declaration *)
Lemma wf_gdecls_lookup : forall G0 ds es, wf_gdecls G0 ds es ->
  forall x e, lookup (G0 ++ es) x = Some e ->
  lookup G0 x = Some e \/
  exists g off Gi, In (g, off) ds /\ wf_gdecl Gi off g (x, e) /\ sub_table G0 Gi /\ sub_table Gi (G0 ++ es).
Proof.
  induction 1 as [G | G d off [k e0] r es Hd _ IH]; intros x e Hl.
  - rewrite app_nil_r in Hl. now left.
  - assert (Heq : G ++ (k, e0) :: es = (G ++ [(k, e0)]) ++ es) by (now rewrite <- app_assoc).
    rewrite Heq in Hl. destruct (IH _ _ Hl) as [H1 | [g [o [Gi [Hin [Hw [Hs1 Hs2]]]]]]].
    + destruct (lookup_snoc_inv _ _ _ _ _ H1) as [H2 | [H2 [-> ->]]]; [now left|].
      right. exists d, off, G. split; [now left|]. split; [exact Hd|]. split; [apply sub_table_refl|].
      apply sub_table_app.
    + right. exists g, o, Gi. rewrite Heq. split; [now right|]. split; [exact Hw|].
      split; [|exact Hs2]. eapply sub_table_trans; [apply sub_table_app | exact Hs1].
Qed.

(* ---- predefined entities ---- *)
Lemma text_eqb_sym a b : text_eqb a b = text_eqb b a.
Proof.
  destruct (text_eqb a b) eqn:E1, (text_eqb b a) eqn:E2; try reflexivity.
  - apply text_eqb_eq in E1. subst. now rewrite text_eqb_refl in E2.
  - apply text_eqb_eq in E2. subst. now rewrite text_eqb_refl in E1.
Qed.

Ltac in_cases H := repeat (destruct H as [H|H]; [|]); [..|destruct H].

Lemma default_iff x : existsb (text_eqb x) default_entries = true <-> lookup initialized x <> None.
Proof.
  split.
  - intros H. apply existsb_exists in H as [k [Hin Hk]]. apply text_eqb_eq in Hk. subst k.
    unfold default_entries in Hin. cbn [map] in Hin.
    repeat (destruct Hin as [Hin|Hin]; [subst x; vm_compute; discriminate|]). destruct Hin.
  - intros H. destruct (lookup initialized x) as [ge|] eqn:E; [clear H | contradiction].
    apply lookup_In in E. unfold initialized in E.
    repeat (destruct E as [E|E]; [injection E as <- _; vm_compute; reflexivity|]). destruct E.
Qed.

Lemma initialized_default x ge : lookup initialized x = Some ge -> is_default (entry_of_g ge) = true.
Proof.
  intros E. apply lookup_In in E. unfold initialized in E.
  repeat (destruct E as [E|E]; [injection E as <- <-; vm_compute; reflexivity|]). destruct E.
Qed.

Lemma initialized_type x te : lookup initialized x = Some (GTypeE te) -> x = s_int /\ ten_ty te = Some DInt.
Proof.
  intros E. apply lookup_In in E. unfold initialized, procedure_entry in E.
  repeat (destruct E as [E|E]; [first [discriminate E | injection E as <- <-; split; reflexivity]|]). destruct E.
Qed.

Lemma int_initialized : lookup initialized s_int <> None.
Proof. vm_compute. discriminate. Qed.

Lemma fresh_not_default x : lookup initialized x = None -> existsb (text_eqb x) default_entries = false.
Proof.
  intros H. destruct (existsb (text_eqb x) default_entries) eqn:E; [|reflexivity].
  apply default_iff in E. contradiction.
Qed.

Lemma fresh_not_int x : lookup initialized x = None -> text_eqb x s_int = false.
Proof.
  intros H. destruct (text_eqb x s_int) eqn:E; [|reflexivity]. apply text_eqb_eq in E. subst.
  exfalso. exact (int_initialized H).
Qed.

(* ---------------------------------------------------------------------------------------- *)
(* local tables only grow; every declared parameter / variable has its entry                 *)

Lemma wf_params_mono Gi pn L ps L' es : wf_params Gi pn L ps L' es -> sub_table L L'.
Proof.
  induction 1 as [L | L doc is_ref name te o inf off t r L' es _ _ _ _ IH]; [apply sub_table_refl|].
  eapply sub_table_trans; [apply sub_table_app | exact IH].
Qed.

Lemma wf_vars_mono Gi pn L vs L' : wf_vars Gi pn L vs L' -> sub_table L L'.
Proof.
  induction 1 as [L | L doc name te o inf off t r L' _ _ _ IH]; [apply sub_table_refl|].
  eapply sub_table_trans; [apply sub_table_app | exact IH].
Qed.

Definition mk_ventry (doc : list text) (is_ref : bool) (name : ident) (t : dtype) (inf : info) (off : nat) : ventry :=
  {| ve_name := name; ve_ref := is_ref; ve_ty := Some t; ve_range := shift_range (info_range inf) off; ve_doc := doc_of doc |}.

Lemma wf_params_fwd Gi pn L ps L' es : wf_params Gi pn L ps L' es ->
  forall doc r name ty inf off, In (PValid doc r (Some name) ty inf, off) ps ->
  exists te o t, ty = Some (te, o) /\ denotes [] Gi (anon_creator pn name) te t /\
    lookup L' (id_val name) = Some (LParam (mk_ventry doc r name t inf off)).
Proof.
  induction 1 as [L | L doc is_ref name te o inf off t r L' es Hd _ Hfresh Hr IH]; intros doc' r' name' ty' inf' off' Hin;
    [contradiction|].
  destruct Hin as [Hin|Hin].
  - injection Hin as <- <- <- <- <- <-. exists te, o, t. split; [reflexivity|]. split; [exact Hd|].
    apply (wf_params_mono _ _ _ _ _ _ Hr). now apply lookup_snoc_same.
  - exact (IH _ _ _ _ _ _ Hin).
Qed.

Lemma wf_vars_fwd Gi pn L vs L' : wf_vars Gi pn L vs L' ->
  forall doc name ty inf off, In (VValid doc (Some name) ty inf, off) vs ->
  exists te o t Lk, ty = Some (te, o) /\ denotes Lk Gi (anon_creator pn name) te t /\
    lookup L' (id_val name) = Some (LVar (mk_ventry doc false name t inf off)).
Proof.
  induction 1 as [L | L doc name te o inf off t r L' Hd Hfresh Hr IH]; intros doc' name' ty' inf' off' Hin;
    [contradiction|].
  destruct Hin as [Hin|Hin].
  - injection Hin as <- <- <- <- <-. exists te, o, t, L. split; [reflexivity|]. split; [exact Hd|].
    apply (wf_vars_mono _ _ _ _ _ Hr). now apply lookup_snoc_same.
  - exact (IH _ _ _ _ _ Hin).
Qed.

(* a type name inside a type expression denotes a type of the global table *)
Lemma binds_type L G x te : binds L G x (EntType te) -> lookup G x = Some (GTypeE te).
Proof.
  inversion 1 as [le Hl He | ge Hl Hg He]; [destruct le; discriminate He|].
  destruct ge; [injection He as <-; exact Hg | discriminate He].
Qed.

(* ---------------------------------------------------------------------------------------- *)
(* T: the identifiers of a well-typed body                                                   *)

Definition body_res (G : gtable) (L : ltable) (o : occ) : Prop :=
  match o_scope o with
  | ScLocal => lookup L (o_name o) <> None
  | ScGlobal => lookup L (o_name o) = None /\ exists pe, lookup G (o_name o) = Some (GProcE pe)
  end.

Lemma typing_occs2 L G :
  (forall v t, var_type L G v t -> forall off, Forall (body_res G L) (occs_var off v)) /\
  (forall e t, expr_type L G e t -> forall off, Forall (body_res G L) (occs_expr off e)).
Proof.
  apply typing_mutind.
  - intros i e ve t Hb Hv _ off. cbn [occs_var]. constructor; [|constructor].
    unfold body_res, o_scope, o_name. cbn [fst snd].
    inversion Hb as [le Hl He | ge Hl Hg He]; [congruence|].
    subst e. destruct Hv as [Hv|Hv]; destruct ge; discriminate Hv.
  - intros a e off inf sz b c _ IHa _ IHe off'. cbn [occs_var]. apply Forall_app. split; [apply IHa | apply IHe].
  - intros i off. constructor.
  - intros v t _ IH off. apply IH.
  - intros op l r inf _ _ IHl _ IHr off. cbn [occs_expr]. apply Forall_app. split; [apply IHl | apply IHr].
  - intros op l r inf _ _ IHl _ IHr off. cbn [occs_expr]. apply Forall_app. split; [apply IHl | apply IHr].
  - intros op a inf _ IH off. apply IH.
  - intros a inf t _ IH off. apply IH.
Qed.

Lemma args_occs2 L G : forall args ps off,
  Forall2 (arg_ok L G) args ps -> Forall (body_res G L) (occs_args off args).
Proof.
  intros args ps off H. induction H as [|[a o] p args ps Ha _ IH]; [constructor|].
  unfold occs_args in *. cbn [flat_map fst snd]. apply Forall_app. split; [|exact IH].
  inversion Ha; subst. eapply (proj2 (typing_occs2 L G)); eassumption.
Qed.

Lemma wt_occs2 L G :
  (forall s, wt_stmt L G s -> forall off, Forall (body_res G L) (occs_stmt off s)) /\
  (forall l, wt_stmts L G l -> forall off, Forall (body_res G L) (occs_stmts off l)).
Proof.
  destruct (typing_occs2 L G) as [Tv Te].
  apply wt_mutind.
  - intros inf off. constructor.
  - intros v e o inf Hv He off. cbn [occs_stmt occs_opt_expr]. apply Forall_app. split; [eapply Tv | eapply Te]; eassumption.
  - intros name args inf pe Hb Ha off. cbn [occs_stmt]. constructor.
    + unfold body_res, o_scope, o_name. cbn [fst snd].
      inversion Hb as [le Hl He | ge Hl Hg He]; [destruct le; discriminate He|]. split; [exact Hl|].
      destruct ge; [discriminate He|]. eexists. exact Hg.
    + exact (args_occs2 L G _ _ off Ha).
  - intros c oc t ot inf Hc _ IHt off. cbn [occs_stmt occs_opt_expr]. rewrite app_nil_r. apply Forall_app.
    split; [eapply Te; eassumption | apply IHt].
  - intros c oc t ot e oe inf Hc _ IHt _ IHe off. cbn [occs_stmt occs_opt_expr]. repeat (apply Forall_app; split);
      [eapply Te; eassumption | apply IHt | apply IHe].
  - intros c oc b ob inf Hc _ IHb off. cbn [occs_stmt occs_opt_expr]. apply Forall_app.
    split; [eapply Te; eassumption | apply IHb].
  - intros body inf _ IH off. rewrite occs_stmt_block. apply IH.
  - intros off. constructor.
  - intros s o r _ IHs _ IHr off. unfold occs_stmts in *. cbn [flat_map fst snd]. apply Forall_app. split; [apply IHs | apply IHr].
Qed.

(* ---------------------------------------------------------------------------------------- *)
(* X: identifier tokens contain no `.`                                                       *)
Local Open Scope N_scope.

Lemma sym_not_ident p k : In (p, k) sym_table -> forall x, k <> Ident x.
Proof. cbn. intros H x. repeat (destruct H as [H|H]; [inversion H; discriminate|]). destruct H. Qed.
Lemma kw_not_ident p k : In (p, k) kw_table -> forall x, k <> Ident x.
Proof. cbn. intros H x. repeat (destruct H as [H|H]; [inversion H; discriminate|]). destruct H. Qed.

Lemma lex_raw_ident s x e lx rest : lex_raw s = Some (Ident x, e, lx, rest) -> ~ In 46 x.
Proof.
  unfold lex_raw. intros H.
  repeat (apply orelse_inv in H as [H|H]).
  - unfold lex_comment in H. destruct (starts _ s); [|discriminate].
    destruct (snd _); inversion H.
  - unfold lex_sym in H. destruct (first_match sym_table s) as [[p j]|] eqn:E; [|discriminate].
    inversion H; subst. apply first_match_in in E as [Hin _]. exfalso. exact (sym_not_ident _ _ Hin x eq_refl).
  - unfold lex_kw in H. destruct (first_kw kw_table s) as [[p j]|] eqn:E; [|discriminate].
    inversion H; subst. apply first_kw_in in E as [Hin _]. exfalso. exact (kw_not_ident _ _ Hin x eq_refl).
  - unfold lex_char in H. destruct s as [|c r]; [discriminate|].
    destruct c as [|p]; [discriminate|]. do 6 (destruct p as [p|p|]; try discriminate).
    destruct (if starts [92; 110] r then _ else _) as [[[c lx'] r2]|]; [|discriminate].
    destruct r2 as [|d r3]; [inversion H|].
    destruct d as [|p]; [inversion H|].
    do 6 (destruct p as [p|p|]; try (inversion H; fail)).
  - unfold lex_hex in H. destruct (starts _ s); [|discriminate].
    destruct (fst _); [inversion H|]. destruct (_ <? _); inversion H.
  - unfold lex_int in H. destruct (fst _); [discriminate|]. destruct (_ <? _); inversion H.
  - unfold lex_ident in H. destruct s as [|c r]; [discriminate|].
    destruct (is_ident_start c) eqn:Ec; [|discriminate]. injection H as <- _ _ _.
    intros [Heq|Hin]; [subst c; vm_compute in Ec; discriminate Ec|].
    pose proof (span_all is_alnum_trunc r) as Ha. rewrite forallb_forall in Ha.
    specialize (Ha _ Hin). vm_compute in Ha. discriminate Ha.
  - unfold lex_unknown in H. destruct s; inversion H.
Qed.

Lemma lex_from_ident : forall fuel off s toks, lex_from fuel off s = Some toks ->
  forall tok x, In tok toks -> tk tok = Ident x -> ~ In 46 x.
Proof.
  induction fuel as [|f IH]; intros off s toks H tok x Hin Hk; [discriminate|].
  cbn [lex_from] in H. destruct (lex_raw (snd (span is_ws s))) as [[[[k errs] lx] rest]|] eqn:E.
  - destruct (lex_from f _ rest) as [tl|] eqn:E2; [|discriminate]. injection H as <-.
    destruct Hin as [<-|Hin]; [|exact (IH _ _ _ E2 _ _ Hin Hk)].
    cbn [mk_token tk] in Hk. subst k. exact (lex_raw_ident _ _ _ _ _ E).
  - injection H as <-. destruct Hin as [<-|[]]. discriminate Hk.
Qed.

Lemma lex_ident_nodot t toks x : lex t = Some toks -> In (Ident x) (map tk toks) -> ~ In 46 x.
Proof.
  intros H Hin. apply in_map_iff in Hin as [tok [Hk Hin]]. exact (lex_from_ident _ _ _ _ H tok x Hin Hk).
Qed.
