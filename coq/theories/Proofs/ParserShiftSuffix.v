(* S2 - S4: what the parser does from a declaration boundary on is independent of everything in front of
   that boundary (S2, from the shift lemma S1 + fuel monotonicity), what it does in front of a
   synchronising token is independent of everything behind it (S3, from T6 locality), and the two
   together: a damage between a declaration keyword and a later declaration boundary changes nothing in
   front of that declaration and only shifts what lies behind the boundary (S4, containment). *)
From Coq Require Import Arith Lia List.
From Spl Require Import Model.Parser Proofs.ParserProofs Proofs.ParserShift Proofs.ParserShiftMono.
Import ListNotations.
Local Open Scope nat_scope.

(* the state `parse` starts from *)
Definition s00 : st := {| pos := 0; refp := 0; ebuf := [] |}.

(* ------------------------------------------------------------------------------------------ *)
(* declaration boundaries of a program: the start offsets of its declarations and its end *)
Definition start_of (l : list (gdecl * nat)) (k e : nat) : nat :=
  match nth_error l k with Some go => snd go | None => e end.
Definition decl_start (p : program) (k : nat) : nat := start_of (pg_decls p) k (i_e (pg_info p)).
(* [Boundary p k b]: the token index b is where declaration k of p starts (k < number of declarations)
   or where the declarations end (k = number of declarations) *)
Definition Boundary (p : program) (k b : nat) : Prop := k <= length (pg_decls p) /\ decl_start p k = b.

Definition shift_offs (d : nat) (l : list (gdecl * nat)) : list (gdecl * nat) :=
  map (fun go => (fst go, snd go + d)) l.
Definition unshift_offs (d : nat) (l : list (gdecl * nat)) : list (gdecl * nat) :=
  map (fun go => (fst go, snd go - d)) l.

Lemma unshift_shift d l : unshift_offs d (shift_offs d l) = l.
Proof.
  unfold unshift_offs, shift_offs. rewrite map_map. rewrite <- (map_id l) at 2. apply map_ext.
  intros [g o]. cbn [fst snd]. now rewrite Nat.add_sub.
Qed.

Lemma shift_shift a b l : shift_offs a (shift_offs b l) = shift_offs (b + a) l.
Proof.
  unfold shift_offs. rewrite map_map. apply map_ext. intros [g o]. cbn [fst snd]. now rewrite Nat.add_assoc.
Qed.

(* ------------------------------------------------------------------------------------------ *)
(* `parse` as a run of the top-level many0, at any sufficient fuel *)
Lemma parse_inv toks p : parse toks = Done p ->
  exists s1, p_many0 (parse_fuel toks) (p_ref (p_gdecl toks (parse_fuel toks))) s00 = POk s1 (pg_decls p) /\
             pg_info p = {| i_s := 0; i_e := pos s1; i_errs := ebuf s1 |}.
Proof.
  unfold parse. fold s00.
  destruct (p_program toks (parse_fuel toks) s00) as [s p0|e|] eqn:E; try discriminate.
  intros [= <-]. unfold p_program in E. apply p_map_ok in E as (r & E & ->). cbn [pg_decls pg_info].
  apply p_pair_ok in E as (s1 & E1 & _). apply p_info_ok in E1 as (s2 & E1 & _ & Hinf).
  exists s2. split; [exact E1|]. rewrite Hinf. unfold s00. cbn [pos refp]. rewrite !Nat.sub_0_r. reflexivity.
Qed.

Lemma parse_run toks p F : parse toks = Done p -> parse_fuel toks <= F ->
  exists s1, p_many0 F (p_ref (p_gdecl toks F)) s00 = POk s1 (pg_decls p) /\
             pg_info p = {| i_s := 0; i_e := pos s1; i_errs := ebuf s1 |}.
Proof.
  intros H HF. apply parse_inv in H as (s1 & H & Hi). exists s1. split; [|exact Hi].
  rewrite <- H. apply (Mono_many0 _ _ (Mono_ref _ _ (Mono_gdecl toks _ _ HF)) _ _ HF). rewrite H. discriminate.
Qed.

(* the program info carries no errors of its own: every error sits in a declaration *)
Lemma parse_info_clean toks p : parse toks = Done p -> i_errs (pg_info p) = [] /\ i_s (pg_info p) = 0.
Proof.
  intros H. apply parse_inv in H as (s1 & H & ->). cbn [i_errs i_s]. split; [|reflexivity].
  apply many0_spans in H as (_ & _ & H); [exact H | cbn; lia | reflexivity].
Qed.

(* ------------------------------------------------------------------------------------------ *)
(* the run of the top-level many0 from declaration k on *)
Section Drop.
Variable toks : list token.
Variable F' : nat.
Notation P := (p_ref (p_gdecl toks F')).

Lemma many0_start0 F s s' l : pos s <= length toks -> refp s = 0 ->
  p_many0 F P s = POk s' l -> start_of l 0 (pos s') = pos s.
Proof.
  intros Hs Hr H. destruct F as [|F]; [discriminate H|]. cbn [p_many0] in H.
  destruct (P s) as [s1 [g off]|e|] eqn:E; [| |discriminate H].
  - destruct (Nat.eqb (pos s1) (pos s)); [discriminate H|].
    apply bind_ok in H as (s2 & l2 & _ & [= _ <-]).
    apply ref_gdecl_shape in E as (A0 & _); [|exact Hs]. unfold start_of. cbn [nth_error snd]. lia.
  - injection H as <- <-. reflexivity.
Qed.

Lemma many0_drop : forall F s s' l, pos s <= length toks -> refp s = 0 ->
  p_many0 F P s = POk s' l ->
  forall k, k <= length l ->
  exists Fk sk, Fk <= F /\ p_many0 Fk P sk = POk s' (skipn k l) /\
    refp sk = 0 /\ ebuf sk = ebuf s /\ pos sk = start_of l k (pos s') /\ pos s <= pos sk /\ pos sk <= length toks.
Proof.
  induction F as [|F IH]; intros s s' l Hs Hr H k Hk; [discriminate H|].
  pose proof H as H0. cbn [p_many0] in H.
  destruct (P s) as [s1 [g off]|e|] eqn:E; [| |discriminate H].
  - destruct (Nat.eqb (pos s1) (pos s)); [discriminate H|].
    apply bind_ok in H as (s2 & l2 & H & [= -> <-]).
    apply ref_gdecl_shape in E as (A0 & A1 & A2 & A3 & A4 & _); [|exact Hs].
    destruct k as [|k].
    + exists (S F), s. cbn [skipn]. unfold start_of. cbn [nth_error snd].
      repeat split; try assumption; try lia.
    + cbn [length] in Hk.
      destruct (IH s1 s' l2 A2 ltac:(congruence) H k ltac:(lia)) as (Fk & sk & B1 & B2 & B3 & B4 & B5 & B6 & B7).
      exists Fk, sk. cbn [skipn]. unfold start_of in *. cbn [nth_error].
      repeat split; try assumption; try lia; congruence.
  - injection H as <- <-. cbn [length] in Hk. assert (k = 0) by lia. subst k.
    exists (S F), s. unfold start_of. cbn [skipn nth_error]. repeat split; try assumption; lia.
Qed.

End Drop.

(* boundaries are ordered like their indices *)
Lemma start_of_skipn l a i e : start_of (skipn a l) i e = start_of l (a + i) e.
Proof. unfold start_of. now rewrite nth_error_skipn_add. Qed.

Lemma many0_start_mono toks F' F s s' l a b :
  pos s <= length toks -> refp s = 0 -> p_many0 F (p_ref (p_gdecl toks F')) s = POk s' l ->
  a <= b -> b <= length l -> start_of l a (pos s') <= start_of l b (pos s').
Proof.
  intros Hs Hr H Hab Hb.
  destruct (many0_drop toks F' F s s' l Hs Hr H a ltac:(lia)) as (Fa & sa & _ & A2 & A3 & _ & A5 & _ & A7).
  destruct (many0_drop toks F' Fa sa s' (skipn a l) A7 A3 A2 (b - a)) as (Fb & sb & _ & _ & _ & _ & B5 & B6 & _).
  - rewrite skipn_length. lia.
  - rewrite start_of_skipn in B5. replace (a + (b - a)) with b in B5 by lia. lia.
Qed.

Lemma Boundary_mono toks p a b x y :
  parse toks = Done p -> Boundary p a x -> Boundary p b y -> a <= b -> x <= y.
Proof.
  intros Hp [Ha <-] [Hb <-] Hab. apply parse_inv in Hp as (s1 & Hm & Hi).
  unfold decl_start. rewrite Hi. cbn [i_e].
  eapply many0_start_mono; [| |exact Hm|exact Hab|exact Hb]; [cbn; lia | reflexivity].
Qed.

Lemma Boundary_lt toks p a b x y :
  parse toks = Done p -> Boundary p a x -> Boundary p b y -> x < y -> a < b.
Proof.
  intros Hp Ha Hb Hxy. destruct (le_lt_dec b a) as [Hle|]; [|assumption].
  pose proof (Boundary_mono toks p b a y x Hp Hb Ha Hle). lia.
Qed.

(* ------------------------------------------------------------------------------------------ *)
(* S1 at the top level, where the reference position stays 0: the offsets move by |pre| *)
Definition lift_top {A} (k : nat) (r : pres (list (A * nat))) : pres (list (A * nat)) :=
  match r with
  | POk s l => POk (adv s k) (map (fun go => (fst go, snd go + k)) l)
  | PErr s => PErr (adv s k)
  | PFuel => PFuel
  end.

Lemma ref_top {A} pre (p1 p2 : parser A) : Sh pre p1 p2 -> forall s, refp s <= pos s ->
  p_ref p1 (adv s (length pre)) =
  match p_ref p2 s with
  | POk s' ao => POk (adv s' (length pre)) (fst ao, snd ao + length pre)
  | PErr s' => PErr (adv s' (length pre))
  | PFuel => PFuel
  end.
Proof.
  intros H s Hs. unfold p_ref.
  change (set_refp (adv s (length pre)) (pos (adv s (length pre)))) with (sh (length pre) (set_refp s (pos s))).
  rewrite H. destruct (p2 (set_refp s (pos s))) as [s1 a|s1|]; cbn [shr fst snd]; try reflexivity.
  f_equal. f_equal. cbn [pos refp adv]. lia.
Qed.

Lemma many0_top {A} pre (p1 p2 : parser A) : Sh pre p1 p2 -> forall F s, refp s = 0 ->
  p_many0 F (p_ref p1) (adv s (length pre)) = lift_top (length pre) (p_many0 F (p_ref p2) s).
Proof.
  intros H. induction F as [|F IH]; intros s Hr; cbn [p_many0]; [reflexivity|].
  rewrite (ref_top pre p1 p2 H s) by lia.
  destruct (p_ref p2 s) as [s1 [a off]|e|] eqn:E; cbn [lift_top fst snd map]; try reflexivity.
  rewrite !pos_adv, eqb_add_r. destruct (Nat.eqb (pos s1) (pos s)); [reflexivity|].
  rewrite IH.
  - destruct (p_many0 F (p_ref p2) s1); reflexivity.
  - apply p_ref_ok in E as (s2 & _ & -> & _). exact Hr.
Qed.

Lemma EofLast_suffix pre post : EofLast (pre ++ post) -> post <> [] -> EofLast post.
Proof.
  intros (body & e & E & He & Hb) Hne.
  destruct (exists_last Hne) as (post' & x & ->).
  rewrite app_assoc in E. apply app_inj_tail in E as [<- ->].
  exists post', e. split; [reflexivity|]. split; [exact He|]. apply Forall_app in Hb. apply Hb.
Qed.

(* ------------------------------------------------------------------------------------------ *)
(* S2, strongest form: from a declaration boundary on, the program IS the parse of the remaining
   tokens as a document of their own, offsets moved by the length of what lies in front *)
Theorem suffix_as_document pre post p k :
  EofLast (pre ++ post) -> parse (pre ++ post) = Done p -> Boundary p k (length pre) ->
  exists p0, parse post = Done p0 /\ EofLast post /\
    skipn k (pg_decls p) = shift_offs (length pre) (pg_decls p0) /\
    i_e (pg_info p) = i_e (pg_info p0) + length pre.
Proof.
  intros HE Hp [Hk Hb].
  remember (parse_fuel (pre ++ post)) as F1 eqn:EF.
  destruct (parse_run _ _ F1 Hp ltac:(rewrite EF; apply le_n)) as (s1 & Hm & Hi).
  assert (Hlt : pos s1 < length (pre ++ post)).
  { refine (many0_gdecl_lt (pre ++ post) HE _ _ s00 _ _ _ Hm). cbn [pos s00]. apply N_pos. exact HE. }
  destruct (many0_drop (pre ++ post) F1 F1 s00 s1 _ ltac:(cbn; lia) eq_refl Hm k Hk)
    as (Fk & sk & B1 & B2 & B3 & B4 & B5 & _ & _).
  unfold decl_start in Hb. rewrite Hi in Hb. cbn [i_e] in Hb. rewrite Hb in B5.
  assert (Esk : sk = adv s00 (length pre)).
  { destruct sk as [a b c]. unfold s00 in B4. cbn [pos refp ebuf] in B3, B4, B5. subst. reflexivity. }
  subst sk. rewrite (many0_top pre _ _ (Sh_gdecl pre post F1) Fk s00 eq_refl) in B2.
  destruct (p_many0 Fk (p_ref (p_gdecl post F1)) s00) as [e l0| |] eqn:E0; cbn [lift_top] in B2; try discriminate B2.
  injection B2 as Es1 Hl0.
  assert (Hpost : post <> []).
  { intros ->. rewrite app_nil_r in Hlt. subst s1. rewrite pos_adv in Hlt. lia. }
  pose proof (EofLast_suffix _ _ HE Hpost) as HE0.
  destruct (parse_ok post HE0) as [p0 Hp0]. exists p0. split; [exact Hp0|]. split; [exact HE0|].
  assert (HF0 : parse_fuel post <= F1) by (rewrite EF; unfold parse_fuel; rewrite app_length; lia).
  destruct (parse_run post p0 F1 Hp0 HF0) as (e0 & Hm0 & Hi0).
  assert (Em : p_many0 F1 (p_ref (p_gdecl post F1)) s00 = POk e l0).
  { rewrite <- E0. apply (Mono_many0 _ _ (Mono_refl _) Fk F1 B1). rewrite E0. discriminate. }
  rewrite Em in Hm0. injection Hm0 as <- <-.
  split; [symmetry; exact Hl0|]. rewrite Hi, Hi0. cbn [i_e]. subst s1. apply pos_adv.
Qed.

(* S2: two token lists with the same tail, both cut at a declaration boundary *)
Theorem suffix_independent pre pre' post p p' k k' :
  EofLast (pre ++ post) -> EofLast (pre' ++ post) ->
  parse (pre ++ post) = Done p -> parse (pre' ++ post) = Done p' ->
  Boundary p k (length pre) -> Boundary p' k' (length pre') ->
  unshift_offs (length pre) (skipn k (pg_decls p)) = unshift_offs (length pre') (skipn k' (pg_decls p')) /\
  i_e (pg_info p) - length pre = i_e (pg_info p') - length pre' /\
  shift_offs (length pre') (skipn k (pg_decls p)) = shift_offs (length pre) (skipn k' (pg_decls p')) /\
  i_e (pg_info p) + length pre' = i_e (pg_info p') + length pre.
Proof.
  intros HE HE' Hp Hp' Hb Hb'.
  destruct (suffix_as_document pre post p k HE Hp Hb) as (p0 & H0 & _ & Hd & He).
  destruct (suffix_as_document pre' post p' k' HE' Hp' Hb') as (p0' & H0' & _ & Hd' & He').
  rewrite H0 in H0'. injection H0' as <-.
  rewrite Hd, Hd', He, He', !unshift_shift, !shift_shift. repeat split; try lia. f_equal. lia.
Qed.

(* ------------------------------------------------------------------------------------------ *)
(* S3: the declarations that start at or before a synchronising token do not depend on anything
   behind that token *)
Lemma gdecl_before_sync toks j f s s' g :
  (exists t, nth_error toks j = Some t /\ sync_full (tk t) = true) ->
  pos s <= j -> p_gdecl toks f s = POk s' g -> pos s' <= j -> sig_at toks (pos s) < j.
Proof.
  intros (t & Ht & Hsy) Hs H Hs'.
  assert (Hcm : is_comment (tk t) = false) by (destruct (sync_full_ok _ Hsy) as [E|[E|E]]; rewrite E; reflexivity).
  pose proof (sig_at_stop toks (pos s) j t Hs Ht Hcm) as Hle.
  destruct (Nat.eq_dec (sig_at toks (pos s)) j) as [Heq|]; [|lia]. exfalso.
  assert (HN : pos s <= length toks).
  { assert (j < length toks) by (apply nth_error_Some; congruence). lia. }
  pose proof (gdecl_shape toks f s s' g HN H) as (_ & _ & _ & _ & _ & _ & Hsp).
  destruct g as [d|d|inf]; cbn [decl_span] in Hsp.
  - destruct Hsp as (_ & _ & _ & Hlt & _). lia.
  - destruct Hsp as (_ & _ & _ & Hlt & _). lia.
  - unfold p_gdecl in H.
    apply p_alt_ok in H as [H|[_ H]]; [apply p_map_ok in H as (d & _ & E); discriminate E|].
    apply p_alt_ok in H as [H|[_ H]]; [apply p_map_ok in H as (d & _ & E); discriminate E|].
    apply p_map_ok in H as ([ign inf'] & H & _). apply p_info_ok in H as (s1 & H & _). cbn [fst] in H.
    apply p_ignore1_ok in H as (Hla & _). cbn [pos set_ebuf] in Hla.
    unfold la_global in Hla. rewrite la_tag_spec, Heq, Ht in Hla.
    change (sync_full (tk t) = false) in Hla. congruence.
Qed.

Section Prefix.
Variables toks1 toks2 : list token.
Variable j : nat.
Hypothesis Hag : forall i, i <= j -> nth_error toks1 i = nth_error toks2 i.
Hypothesis Hj : exists t, nth_error toks1 j = Some t /\ sync_full (tk t) = true.
Variable F' : nat.
Notation P1 := (p_ref (p_gdecl toks1 F')).
Notation P2 := (p_ref (p_gdecl toks2 F')).

Lemma many0_prefix : forall F s s1 l1 s2 l2, pos s <= j -> refp s = 0 ->
  p_many0 F P1 s = POk s1 l1 -> p_many0 F P2 s = POk s2 l2 ->
  forall k, k <= length l1 -> start_of l1 k (pos s1) <= j ->
  firstn k l1 = firstn k l2 /\ k <= length l2 /\ start_of l2 k (pos s2) = start_of l1 k (pos s1).
Proof.
  pose proof (j_lt1 toks1 j Hj) as Hj1. pose proof (j_lt2 toks1 toks2 j Hag Hj) as Hj2.
  induction F as [|F IH]; intros s s1 l1 s2 l2 Hs Hr H1 H2 k Hk Hst; [discriminate H1|].
  destruct k as [|k].
  - cbn [firstn]. split; [reflexivity|]. split; [lia|].
    rewrite (many0_start0 toks1 F' (S F) s s1 l1 ltac:(lia) Hr H1), (many0_start0 toks2 F' (S F) s s2 l2 ltac:(lia) Hr H2).
    reflexivity.
  - cbn [p_many0] in H1. destruct (P1 s) as [sa [g off]|e|] eqn:E1; [| |discriminate H1].
    2:{ injection H1 as _ <-. cbn [length] in Hk. lia. }
    destruct (Nat.eqb (pos sa) (pos s)) eqn:Eq; [discriminate H1|].
    apply bind_ok in H1 as (sb & l1' & H1 & [= -> <-]). cbn [length] in Hk.
    pose proof (ref_gdecl_shape toks1 F' s sa g off ltac:(lia) E1) as (_ & _ & A2 & A3 & _).
    destruct (many0_drop toks1 F' F sa s1 l1' A2 ltac:(congruence) H1 k ltac:(lia)) as (_ & sk & _ & _ & _ & _ & B5 & B6 & _).
    assert (Hsa : pos sa <= j).
    { unfold start_of in Hst, B5. cbn [nth_error] in Hst. lia. }
    assert (E2 : P2 s = P1 s).
    { pose proof E1 as E1'. apply p_ref_ok in E1' as (sx & Hx & -> & _). cbn [fst] in Hx.
      unfold p_ref. rewrite <- (gdecl_local toks1 toks2 j Hag Hj F' (set_refp s (pos s))); [reflexivity|].
      eapply gdecl_before_sync; [exact Hj | exact Hs | exact Hx | exact Hsa]. }
    cbn [p_many0] in H2. rewrite E2, E1, Eq in H2.
    apply bind_ok in H2 as (sb & l2' & H2 & [= -> <-]).
    destruct (IH sa s1 l1' s2 l2' Hsa ltac:(congruence) H1 H2 k ltac:(lia)) as (C1 & C2 & C3).
    { unfold start_of in *. cbn [nth_error] in Hst. exact Hst. }
    cbn [firstn length]. unfold start_of in *. cbn [nth_error]. rewrite C1. repeat split; [lia | exact C3].
Qed.

End Prefix.

Theorem prefix_independent toks toks' p p' j k o :
  parse toks = Done p -> parse toks' = Done p' ->
  (forall i, i <= j -> nth_error toks i = nth_error toks' i) ->
  (exists t, nth_error toks j = Some t /\ sync_full (tk t) = true) ->
  Boundary p k o -> o <= j ->
  firstn k (pg_decls p) = firstn k (pg_decls p') /\ Boundary p' k o.
Proof.
  intros Hp Hp' Hag Hj [Hk Hb] Ho.
  remember (Nat.max (parse_fuel toks) (parse_fuel toks')) as Fm eqn:EF.
  destruct (parse_run toks p Fm Hp ltac:(rewrite EF; apply Nat.le_max_l)) as (s1 & Hm & Hi).
  destruct (parse_run toks' p' Fm Hp' ltac:(rewrite EF; apply Nat.le_max_r)) as (s2 & Hm' & Hi').
  unfold decl_start in Hb. rewrite Hi in Hb. cbn [i_e] in Hb.
  destruct (many0_prefix toks toks' j Hag Hj Fm Fm s00 s1 _ s2 _ ltac:(cbn; lia) eq_refl Hm Hm' k Hk ltac:(lia))
    as (C1 & C2 & C3).
  split; [exact C1|]. split; [exact C2|]. unfold decl_start. rewrite Hi'. cbn [i_e]. congruence.
Qed.

(* the damage lies behind the keyword of a Type/Procedure declaration: everything in front of that
   declaration is untouched, and the declaration still starts at the same offset *)
Definition is_kw_decl (g : gdecl) : bool := match g with GError _ => false | _ => true end.

Corollary prefix_behind_keyword toks toks' p p' k g o :
  EofLast toks -> parse toks = Done p -> parse toks' = Done p' ->
  nth_error (pg_decls p) k = Some (g, o) -> is_kw_decl g = true ->
  (forall i, i <= sig_at toks o -> nth_error toks i = nth_error toks' i) ->
  firstn k (pg_decls p) = firstn k (pg_decls p') /\ Boundary p' k o.
Proof.
  intros HE Hp Hp' Hn Hg Hag.
  pose proof (T5_per_declaration toks p k g o HE Hp Hn) as (_ & _ & _ & Hsp & _).
  apply (prefix_independent toks toks' p p' (sig_at toks o) k o Hp Hp' Hag).
  - destruct g as [d|d|inf]; cbn [decl_span] in Hsp; [| |discriminate Hg];
      destruct Hsp as (t & Ht & Hk & _); exists t; (split; [exact Ht|]); rewrite Hk; reflexivity.
  - split; [apply Nat.lt_le_incl, nth_error_Some; congruence|]. unfold decl_start, start_of. now rewrite Hn.
  - apply sig_at_ge.
Qed.

(* ------------------------------------------------------------------------------------------ *)
(* S4: containment *)
Lemma nth_error_app_pre (pre x y : list token) i : i < length pre -> nth_error (pre ++ x) i = nth_error (pre ++ y) i.
Proof. intros Hi. now rewrite !nth_error_app1 by exact Hi. Qed.

Theorem containment pre mid mid' post p p' j k o k2 k2' :
  EofLast (pre ++ mid ++ post) -> EofLast (pre ++ mid' ++ post) ->
  parse (pre ++ mid ++ post) = Done p -> parse (pre ++ mid' ++ post) = Done p' ->
  (* a proc/type token of the common prefix at index j, and declaration k starts at or before it *)
  (exists t, nth_error pre j = Some t /\ sync_full (tk t) = true) -> Boundary p k o -> o <= j ->
  (* the replaced tokens end at a declaration boundary of either parse *)
  Boundary p k2 (length pre + length mid) -> Boundary p' k2' (length pre + length mid') ->
  (* in front of declaration k: unchanged; declaration k starts where it started *)
  firstn k (pg_decls p) = firstn k (pg_decls p') /\ Boundary p' k o /\
  (* behind the damage: identical subtrees, offsets moved by the length difference *)
  shift_offs (length mid') (skipn k2 (pg_decls p)) = shift_offs (length mid) (skipn k2' (pg_decls p')) /\
  i_e (pg_info p) + length mid' = i_e (pg_info p') + length mid /\
  (* the damaged region consists of at least declaration k in either parse *)
  k < k2 /\ k < k2'.
Proof.
  intros HE HE' Hp Hp' (t & Ht & Hsy) Hb Ho Hb2 Hb2'.
  assert (Hjl : j < length pre) by (apply nth_error_Some; congruence).
  destruct (prefix_independent _ _ p p' j k o Hp Hp') as (C1 & C2); try assumption.
  { intros i Hi. apply nth_error_app_pre. lia. }
  { exists t. split; [|exact Hsy]. rewrite nth_error_app1 by exact Hjl. exact Ht. }
  assert (Hb2a : Boundary p k2 (length (pre ++ mid))) by (rewrite app_length; exact Hb2).
  assert (Hb2a' : Boundary p' k2' (length (pre ++ mid'))) by (rewrite app_length; exact Hb2').
  pose proof Hp as Hq. pose proof Hp' as Hq'. rewrite app_assoc in HE, HE', Hq, Hq'.
  destruct (suffix_independent (pre ++ mid) (pre ++ mid') post p p' k2 k2' HE HE' Hq Hq' Hb2a Hb2a') as (_ & _ & D1 & D2).
  rewrite (app_length pre mid), (app_length pre mid') in D1, D2.
  assert (E1 : forall l, shift_offs (length pre + length mid') l = shift_offs (length pre) (shift_offs (length mid') l))
    by (intros l; rewrite shift_shift; f_equal; lia).
  assert (E2 : forall l, shift_offs (length pre + length mid) l = shift_offs (length pre) (shift_offs (length mid) l))
    by (intros l; rewrite shift_shift; f_equal; lia).
  rewrite E1, E2 in D1.
  apply (f_equal (unshift_offs (length pre))) in D1. rewrite !unshift_shift in D1.
  repeat split; try apply C2; try assumption; try lia.
  - eapply Boundary_lt; [exact Hp | exact Hb | exact Hb2 | lia].
  - eapply Boundary_lt; [exact Hp' | exact C2 | exact Hb2' | lia].
Qed.

(* the same with the hypothesis in the "damage behind the keyword" form *)
Corollary containment_behind_keyword pre mid mid' post p p' k g o k2 k2' :
  EofLast (pre ++ mid ++ post) -> EofLast (pre ++ mid' ++ post) ->
  parse (pre ++ mid ++ post) = Done p -> parse (pre ++ mid' ++ post) = Done p' ->
  nth_error (pg_decls p) k = Some (g, o) -> is_kw_decl g = true -> sig_at (pre ++ mid ++ post) o < length pre ->
  Boundary p k2 (length pre + length mid) -> Boundary p' k2' (length pre + length mid') ->
  firstn k (pg_decls p) = firstn k (pg_decls p') /\ Boundary p' k o /\
  shift_offs (length mid') (skipn k2 (pg_decls p)) = shift_offs (length mid) (skipn k2' (pg_decls p')) /\
  i_e (pg_info p) + length mid' = i_e (pg_info p') + length mid /\
  k < k2 /\ k < k2'.
Proof.
  intros HE HE' Hp Hp' Hn Hg Hsig Hb2 Hb2'.
  pose proof (T5_per_declaration _ p k g o HE Hp Hn) as (_ & _ & _ & Hsp & _).
  apply (containment pre mid mid' post p p' (sig_at (pre ++ mid ++ post) o) k o k2 k2'); try assumption.
  - destruct g as [d|d|inf]; cbn [decl_span] in Hsp; [| |discriminate Hg];
      destruct Hsp as (t & Ht & Hk & _); exists t; rewrite nth_error_app1 in Ht by exact Hsig;
      (split; [exact Ht|]); rewrite Hk; reflexivity.
  - split; [apply Nat.lt_le_incl, nth_error_Some; congruence|]. unfold decl_start, start_of. now rewrite Hn.
  - apply sig_at_ge.
Qed.
