(* C09 part (A), token level: where the kinds of a construct sit in the token vector the printers
   read ([At]), what the panicking slices return there, and that the comment helpers add nothing when
   the slice holds no comment. *)
From Coq Require Import String Lia PeanoNat.
From Spl Require Import Model.Format Model.Lexer Spec.Grammar Proofs.RenderProofs Proofs.FormatProofs Proofs.FormatStructText.
Import ListNotations.
Local Open Scope nat_scope.

(* [At toks o ks]: the kinds ks stand in toks from token index o on *)
Definition At (toks : list token) (o : nat) (ks : list kind) : Prop :=
  exists pre post, map tk toks = pre ++ ks ++ post /\ length pre = o.

Lemma At_eq toks o o' ks : At toks o ks -> o = o' -> At toks o' ks.
Proof. intros H <-. exact H. Qed.

Lemma At_app_l toks o a b : At toks o (a ++ b) -> At toks o a.
Proof. intros (pre & post & E & L). exists pre, (b ++ post). rewrite <- app_assoc in E. split; assumption. Qed.

Lemma At_app_r toks o a b : At toks o (a ++ b) -> At toks (o + length a) b.
Proof.
  intros (pre & post & E & L). exists (pre ++ a), post. rewrite <- !app_assoc in *. split; [exact E|].
  rewrite app_length, L. reflexivity.
Qed.

Lemma At_cons_l toks o k b : At toks o (k :: b) -> At toks o [k].
Proof. apply (At_app_l toks o [k] b). Qed.

Lemma At_cons_r toks o k b : At toks o (k :: b) -> At toks (o + 1) b.
Proof. apply (At_app_r toks o [k] b). Qed.

Lemma At_whole toks ks rest : map tk toks = ks ++ rest -> At toks 0 ks.
Proof. intros E. exists [], rest. split; [exact E | reflexivity]. Qed.

(* &tokens[off..] *)
Lemma At_from toks off o ks : At toks (off + o) ks -> slice_from off toks = Some (skipn off toks) /\ At (skipn off toks) o ks.
Proof.
  intros (pre & post & E & L).
  assert (Hlen : length toks = length pre + length ks + length post).
  { rewrite <- (map_length tk toks), E, !app_length. lia. }
  split.
  - unfold slice_from. replace (Nat.leb off (length toks)) with true; [reflexivity|]. symmetry. apply Nat.leb_le. lia.
  - exists (skipn off pre), post. split.
    + rewrite <- skipn_map, E, skipn_app. replace (off - length pre) with 0 by lia. reflexivity.
    + rewrite skipn_length. lia.
Qed.

Lemma with_from_At toks off o ks (k : list token -> fres) :
  At toks (off + o) ks -> with_from off toks k = k (skipn off toks) /\ At (skipn off toks) o ks.
Proof.
  intros H. destruct (At_from toks off o ks H) as [E A]. split; [|exact A]. unfold with_from. rewrite E. reflexivity.
Qed.

(* info.slice(tokens) *)
Lemma At_slice toks o e ks : At toks o ks -> e = o + length ks ->
  exists sl, slice (mkinfo o e) toks = Some sl /\ map tk sl = ks.
Proof.
  intros (pre & post & E & L) ->.
  assert (Hlen : length toks = length pre + length ks + length post).
  { rewrite <- (map_length tk toks), E, !app_length. lia. }
  exists (firstn (length ks) (skipn o toks)). split.
  - unfold slice. cbn [i_s i_e mkinfo].
    replace (Nat.leb o (o + length ks)) with true by (symmetry; apply Nat.leb_le; lia).
    replace (Nat.leb (o + length ks) (length toks)) with true by (symmetry; apply Nat.leb_le; lia).
    cbn [andb]. replace (o + length ks - o) with (length ks) by lia. reflexivity.
  - rewrite <- firstn_map, <- skipn_map, E, skipn_app. replace (o - length pre) with 0 by lia.
    rewrite <- L, skipn_all. cbn [app skipn]. rewrite firstn_app, firstn_all. replace (length ks - length ks) with 0 by lia.
    cbn [firstn]. apply app_nil_r.
Qed.

Lemma with_slice_At toks o e ks (k : list token -> fres) :
  At toks o ks -> e = o + length ks ->
  exists sl, with_slice (mkinfo o e) toks k = k sl /\ map tk sl = ks.
Proof.
  intros H He. destruct (At_slice toks o e ks H He) as (sl & E & M). exists sl. split; [|exact M].
  unfold with_slice. rewrite E. reflexivity.
Qed.

(* ---- no comment in the slice: the comment helpers return the text unchanged ---- *)
Lemma nice_not_comment_tok t : nice (tk t) = true -> is_comment_tok t = false.
Proof.
  unfold nice, is_comment_tok, is_comment. intros H. apply andb_true_iff in H. destruct H as [_ H].
  destruct (tk t); try reflexivity. discriminate H.
Qed.

Lemma no_all_comments sl body : forallb nice (map tk sl) = true -> add_all_comments body sl = body.
Proof.
  intros H. unfold add_all_comments, all_comment_text.
  replace (filter is_comment_tok sl) with (@nil token); [reflexivity|].
  induction sl as [|t sl IH]; [reflexivity|]. cbn [map forallb] in H. apply andb_true_iff in H. destruct H as [Ht H].
  cbn [filter]. rewrite (nice_not_comment_tok t Ht). apply IH. exact H.
Qed.

Lemma no_leading_comments sl body : forallb nice (map tk sl) = true -> add_leading_comments body sl = body.
Proof.
  intros H. unfold add_leading_comments. destruct sl as [|t sl]; [reflexivity|].
  cbn [map forallb] in H. apply andb_true_iff in H. destruct H as [Ht _].
  cbn [leading_comment_text]. rewrite (nice_not_comment_tok t Ht). reflexivity.
Qed.

(* ---- leading comments: the slice starts with the comments of the slot c ---- *)
(* what the helpers print for the comments of a slot: one line each, "// " + trimmed text *)
Definition lead_text (c : cs) : text := flat_map (fun s => sh (Comment s)) c.

Lemma lead_all sl c ks body :
  map tk sl = cm c ++ ks -> forallb nice ks = true -> add_all_comments body sl = lead_text c ++ body.
Proof.
  revert sl. induction c as [|s c IH]; intros sl M Hn.
  - cbn [cm map app] in M. cbn [lead_text flat_map app]. apply no_all_comments. rewrite M. exact Hn.
  - destruct sl as [|t sl]; [discriminate M|]. cbn [cm map app] in M. injection M as Mt M.
    unfold add_all_comments, all_comment_text. cbn [filter]. unfold is_comment_tok at 1. rewrite Mt.
    cbn [flat_map]. unfold show_tok at 1. rewrite Mt. cbn [lead_text flat_map]. rewrite <- !app_assoc. f_equal.
    apply (IH sl M Hn).
Qed.

Lemma lead_leading sl c k ks body :
  map tk sl = cm c ++ k :: ks -> is_comment k = false -> add_leading_comments body sl = lead_text c ++ body.
Proof.
  revert sl. induction c as [|s c IH]; intros sl M Hk.
  - cbn [cm map app] in M. destruct sl as [|t sl]; [discriminate M|]. cbn [map] in M. injection M as Mt _.
    unfold add_leading_comments. cbn [leading_comment_text]. unfold is_comment_tok. rewrite Mt.
    destruct k; try reflexivity. discriminate Hk.
  - destruct sl as [|t sl]; [discriminate M|]. cbn [cm map app] in M. injection M as Mt M.
    unfold add_leading_comments. cbn [leading_comment_text]. unfold is_comment_tok at 1. rewrite Mt.
    unfold show_tok at 1. rewrite Mt. cbn [lead_text flat_map]. rewrite <- !app_assoc. f_equal.
    apply (IH sl M Hk).
Qed.

(* comment lines in front of a woven text *)
Lemma Wv_lead c ks t : forallb valid_kind (cm c) = true -> Wv ks t -> Wv (cm c ++ ks) (lead_text c ++ t).
Proof.
  induction c as [|s c IH]; intros Hv W; [exact W|].
  cbn [cm map forallb] in Hv. apply andb_true_iff in Hv. destruct Hv as [Hs Hv].
  cbn [cm map app lead_text flat_map]. rewrite sh_comment, <- !app_assoc.
  apply (Wv_comment s (cm c ++ ks) [] (lead_text c ++ t) Hs (IH Hv W) eq_refl).
Qed.

Lemma cm_length c : length (cm c) = length c.
Proof. apply map_length. Qed.

Lemma valid_app a b : forallb valid_kind (a ++ b) = true -> forallb valid_kind a = true /\ forallb valid_kind b = true.
Proof. rewrite forallb_app. intros H. apply andb_true_iff in H. exact H. Qed.

Lemma valid_cons k r : forallb valid_kind (k :: r) = true -> valid_kind k = true /\ forallb valid_kind r = true.
Proof. cbn [forallb]. intros H. apply andb_true_iff in H. exact H. Qed.

Lemma nice_all_valid ks : forallb nice ks = true -> forallb valid_kind ks = true.
Proof. intros H. apply forallb_nice_split in H. tauto. Qed.

(* split [forallb valid_kind (piece) = true] at the top-level appends and conses *)
Ltac valid_split :=
  repeat match goal with
         | H : forallb valid_kind (_ :: _) = true |- _ =>
             apply valid_cons in H; let V := fresh "V" in destruct H as [V H]
         | H : forallb valid_kind (_ ++ _) = true |- _ =>
             apply valid_app in H; let V := fresh "V" in destruct H as [V H]
         | H : forallb valid_kind [] = true |- _ => clear H
         end.

(* ---- comment slots of a comment-free piece are empty ---- *)
Lemma nice_cm c r : forallb nice (cm c ++ r) = true -> c = [] /\ forallb nice r = true.
Proof.
  destruct c as [|x c]; [intros H; split; [reflexivity | exact H]|].
  cbn [cm map app forallb]. unfold nice at 1. cbn [is_comment negb]. rewrite andb_false_r. discriminate.
Qed.

Lemma nice_cm0 c : forallb nice (cm c) = true -> c = [].
Proof. intros H. rewrite <- (app_nil_r (cm c)) in H. apply nice_cm in H. tauto. Qed.

Lemma nice_cons k r : forallb nice (k :: r) = true -> nice k = true /\ forallb nice r = true.
Proof. cbn [forallb]. intros H. apply andb_true_iff in H. exact H. Qed.

Lemma nice_app a b : forallb nice (a ++ b) = true -> forallb nice a = true /\ forallb nice b = true.
Proof. rewrite forallb_app. intros H. apply andb_true_iff in H. exact H. Qed.

(* split a hypothesis [forallb nice (flattened piece) = true] into its parts, emptying the comment slots *)
Ltac nice_split :=
  repeat match goal with
         | H : forallb nice (cm ?c ++ _) = true |- _ =>
             apply nice_cm in H; let E := fresh "E" in destruct H as [E H]; subst c
         | H : forallb nice (cm ?c) = true |- _ => apply nice_cm0 in H; subst c
         | H : forallb nice (_ :: _) = true |- _ =>
             apply nice_cons in H; let N := fresh "N" in destruct H as [N H]
         | H : forallb nice (_ ++ _) = true |- _ =>
             apply nice_app in H; let N := fresh "N" in destruct H as [N H]
         | H : forallb nice [] = true |- _ => clear H
         end.

(* split a hypothesis [At toks o (piece)] into its atomic parts *)
Ltac at_split :=
  repeat match goal with
         | H : At _ _ (_ ++ _) |- _ =>
             let H' := fresh "A" in pose proof (At_app_r _ _ _ _ H) as H'; apply At_app_l in H
         | H : At _ _ (_ :: ?r) |- _ =>
             lazymatch r with
             | [] => fail
             | _ => let H' := fresh "A" in pose proof (At_cons_r _ _ _ _ H) as H'; apply At_cons_l in H
             end
         end.

Ltac len_lia := cbn [length app]; rewrite ?app_length, ?cm_length; cbn [length]; rewrite ?app_length, ?cm_length; cbn [length]; lia.

Ltac at_solve := eapply At_eq; [eassumption | len_lia].
