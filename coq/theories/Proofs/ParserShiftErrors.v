(* S4, read off the diagnostics: the syntax errors of a program (Model/Errors.v [tree_errors], the list the
   server publishes) are the concatenation of the errors of its declarations; under the hypotheses of
   [containment] the errors in front of the damaged declaration are the same, and the errors behind the
   damaged region are the same errors at positions moved by the length difference. *)
From Coq Require Import Arith Lia List.
From Spl Require Import Model.Parser Model.Errors Proofs.ParserProofs Proofs.ParserShiftSuffix.
Import ListNotations.
Local Open Scope nat_scope.

(* the errors of a list of top-level declarations, at absolute token positions *)
Definition decl_errors (l : list (gdecl * nat)) : list err :=
  flat_map (fun x => shift_es (snd x) (gdecl_errors (fst x))) l.

Lemma shift_es_add a b l : shift_es (a + b) l = shift_es b (shift_es a l).
Proof.
  unfold shift_es. rewrite map_map. apply map_ext. intros [s e m]. unfold shift_e. cbn [e_s e_e e_m].
  now rewrite !Nat.add_assoc.
Qed.

Lemma shift_es_app d l1 l2 : shift_es d (l1 ++ l2) = shift_es d l1 ++ shift_es d l2.
Proof. apply map_app. Qed.

Lemma decl_errors_app l1 l2 : decl_errors (l1 ++ l2) = decl_errors l1 ++ decl_errors l2.
Proof. apply flat_map_app. Qed.

Lemma decl_errors_shift d l : decl_errors (shift_offs d l) = shift_es d (decl_errors l).
Proof.
  induction l as [|[g o] l IH]; [reflexivity|].
  unfold decl_errors, shift_offs in *. cbn [map flat_map fst snd]. rewrite IH, shift_es_app, shift_es_add. reflexivity.
Qed.

Lemma tree_errors_decls toks p : parse toks = Done p -> tree_errors p = decl_errors (pg_decls p).
Proof. intros H. unfold tree_errors. apply parse_info_clean in H as [-> _]. reflexivity. Qed.

Lemma skipn_skipn' {A} a : forall b (l : list A), skipn a (skipn b l) = skipn (b + a) l.
Proof. induction b as [|b IH]; intros l; [reflexivity|]. destruct l as [|x l]; [now rewrite !skipn_nil | exact (IH l)]. Qed.

Lemma split3 {A} (l : list A) a b : a <= b -> l = firstn a l ++ firstn (b - a) (skipn a l) ++ skipn b l.
Proof.
  intros H. rewrite <- (firstn_skipn a l) at 1. f_equal.
  rewrite <- (firstn_skipn (b - a) (skipn a l)) at 1. f_equal. rewrite skipn_skipn'. f_equal. lia.
Qed.

Theorem errors_contained pre mid mid' post p p' j k o k2 k2' :
  EofLast (pre ++ mid ++ post) -> EofLast (pre ++ mid' ++ post) ->
  parse (pre ++ mid ++ post) = Done p -> parse (pre ++ mid' ++ post) = Done p' ->
  (exists t, nth_error pre j = Some t /\ sync_full (tk t) = true) -> Boundary p k o -> o <= j ->
  Boundary p k2 (length pre + length mid) -> Boundary p' k2' (length pre + length mid') ->
  exists before damaged damaged' after after',
    tree_errors p = before ++ damaged ++ after /\
    tree_errors p' = before ++ damaged' ++ after' /\
    shift_es (length mid') after = shift_es (length mid) after' /\
    before = decl_errors (firstn k (pg_decls p)) /\
    damaged = decl_errors (firstn (k2 - k) (skipn k (pg_decls p))) /\
    damaged' = decl_errors (firstn (k2' - k) (skipn k (pg_decls p'))) /\
    after = decl_errors (skipn k2 (pg_decls p)) /\ after' = decl_errors (skipn k2' (pg_decls p')).
Proof.
  intros HE HE' Hp Hp' Hj Hb Ho Hb2 Hb2'.
  destruct (containment pre mid mid' post p p' j k o k2 k2' HE HE' Hp Hp' Hj Hb Ho Hb2 Hb2')
    as (C1 & _ & C3 & _ & C5 & C6).
  do 5 eexists. repeat split; try reflexivity.
  - rewrite (tree_errors_decls _ _ Hp). rewrite (split3 (pg_decls p) k k2) at 1 by lia.
    now rewrite !decl_errors_app.
  - rewrite (tree_errors_decls _ _ Hp'). rewrite (split3 (pg_decls p') k k2') at 1 by lia.
    rewrite !decl_errors_app, <- C1. reflexivity.
  - rewrite <- !decl_errors_shift, C3. reflexivity.
Qed.
