(* C10 for every valid program: WHICH comments the formatter keeps.

   [kept p] (Proofs/FormatAnyKept.v) is p with the comments where the printers put them.  The comments of the formatted
   document are exactly the comments of [kept p] - trimmed, in order, each exactly once; they are an order-preserving
   sublist of the source's comments (hoisting moves a comment across code, never across another comment), so the formatter
   never invents, duplicates or reorders a comment; and none is lost iff every comment of p stands in a printed slot
   ([all_comments_printed]). *)
From Coq Require Import String Lia PeanoNat.
From Spl Require Import Model.Format Model.Lexer Spec.Grammar Proofs.LexerProofs Proofs.RenderProofs Proofs.PipelineText
  Proofs.FormatProofs Proofs.FormatStructText Proofs.FormatStructProg Proofs.FormatAnyPP Proofs.FormatAnyProg
  Proofs.FormatAnyKept Proofs.FormatAnyThm.
From Spl Require Proofs.GrammarProg.
Import ListNotations.
Local Open Scope nat_scope.

(* every comment of p stands in a slot that is printed: in front of a declaration / statement, or anywhere inside an
   assignment, a call, a parameter, a variable declaration *)
Definition all_comments_printed (p : aprog) : Prop := cmts (flatten (kept p)) = cmts (flatten p).

Lemma bodies_kinds toks : comment_bodies toks = map trim (cmts (map tk toks)).
Proof.
  unfold comment_bodies, cmts. induction toks as [|t toks IH]; [reflexivity|]. cbn [map flat_map]. rewrite map_app, IH.
  destruct (tk t); reflexivity.
Qed.

Lemma bodies_of_program p toks : map tk toks = flatten p ++ [Eof] -> comment_bodies toks = map trim (cmts (flatten p)).
Proof. intros Hk. rewrite bodies_kinds, Hk, cmts_app. cbn [cmts flat_map]. rewrite app_nil_r. reflexivity. Qed.

Definition text_dec : forall a b : text, {a = b} + {a <> b} := list_eq_dec N.eq_dec.

Theorem document_comments p doc toks ins ts :
  prog_ok p = true -> aprog_valid p = true -> lex doc = Some toks -> map tk toks = flatten p ++ [Eof] ->
  exists txt toks',
    formatted_text doc ins ts = Done txt /\ lex txt = Some toks' /\
    comment_bodies toks' = map trim (cmts (flatten (kept p))) /\
    comment_bodies toks = map trim (cmts (flatten p)) /\
    subseq (comment_bodies toks') (comment_bodies toks) /\
    (forall c, count_occ text_dec (comment_bodies toks') c <= count_occ text_dec (comment_bodies toks) c) /\
    (comment_bodies toks' = comment_bodies toks <-> all_comments_printed p).
Proof.
  intros Hok Hv El Hk.
  destruct (total_any p toks (options_of ins ts) Hk) as (txt & E).
  destruct (tokens_any p toks _ txt (options_unit_ok ins ts) Hv Hk E) as (toks' & El' & _ & _).
  pose proof (comments_any p toks _ txt toks' (options_unit_ok ins ts) Hv Hk E El') as Hc.
  pose proof (bodies_of_program p toks Hk) as Hs.
  assert (Hsub : subseq (comment_bodies toks') (comment_bodies toks)) by (rewrite Hc, Hs; apply subseq_map, kept_subseq).
  exists txt, toks'. split; [|split; [exact El' | split; [exact Hc | split; [exact Hs | split; [exact Hsub | split]]]]].
  - unfold formatted_text. rewrite El, (GrammarProg.roundtrip p toks Hok Hk), E. reflexivity.
  - intros c. apply subseq_count. exact Hsub.
  - unfold all_comments_printed. rewrite Hc, Hs. split.
    + intros H. apply subseq_full; [apply kept_subseq|]. apply (f_equal (@length _)) in H. rewrite !map_length in H. exact H.
    + intros ->. reflexivity.
Qed.

(* comments in leading positions only (Proofs/FormatStructProg.v) are all printed *)
Theorem lead_only_all_printed p : lead_only p = true -> aprog_valid p = true -> all_comments_printed p.
Proof.
  intros Hlo Hv. set (f := options_of true 2). set (toks := map mk_tok (flatten p ++ [Eof])).
  assert (Hk : map tk toks = flatten p ++ [Eof]) by apply mk_tok_kinds.
  destruct (total_any p toks f Hk) as (txt & E).
  destruct (tokens_lead p toks f txt (options_unit_ok true 2) Hlo Hv Hk E) as (toks' & El & Ek & _).
  pose proof (comments_any p toks f txt toks' (options_unit_ok true 2) Hv Hk E El) as Hc.
  assert (Hb : comment_bodies toks' = comment_bodies toks).
  { apply canon_bodies. rewrite Ek, Hk, map_app. reflexivity. }
  rewrite (bodies_of_program p toks Hk), Hc in Hb.
  unfold all_comments_printed. apply subseq_full; [apply kept_subseq|].
  apply (f_equal (@length _)) in Hb. rewrite !map_length in Hb. exact Hb.
Qed.

Print Assumptions document_comments.
Print Assumptions lead_only_all_printed.
