(* C13 - a grammatical fact used by the text level of the rename round trip (Proofs/RefsRoundLex.v):
   in a program (Spec/Grammar.v) a literal token is never DIRECTLY followed by an identifier token.  A
   literal is the last token of a factor or the size of an array type; what follows it is a comment, an
   operator, `]`, `)`, `;` or `,`.

   Proof: a boolean scan over the kinds that carries "the previous kind was a literal".  Every piece of
   the grammar is entered with that flag off, and the continuation of a piece that may end with a literal
   (expressions) never starts with an identifier ([nid]); under that condition the scan of
   piece ++ continuation is the scan of the continuation. *)
From Coq Require Import PeanoNat Lia Bool List NArith.
From Spl Require Import Spec.Grammar Proofs.GrammarExpr Proofs.GrammarStmt Proofs.RefsRoundLex.
Import ListNotations.
Local Open Scope nat_scope.

Definition litb (k : kind) : bool :=
  match k with IntT _ | HexT _ | CharT _ | Unknown _ => true | _ => false end.
Definition isid (k : kind) : bool := match k with Ident _ => true | _ => false end.

(* prev: was the previous kind a literal? *)
Fixpoint scan (prev : bool) (ks : list kind) : bool :=
  match ks with [] => true | b :: r => negb (prev && isid b) && scan (litb b) r end.

Notation sc := (scan false).

(* the list does not start with an identifier *)
Definition nid (l : list kind) : Prop := match l with Ident _ :: _ => False | _ => True end.

Lemma notlit_litb k : litb k = false -> notlit k.
Proof. destruct k; cbn [litb notlit]; intros H; first [exact I | discriminate H]. Qed.

Lemma scan_nid p l : nid l -> scan p l = sc l.
Proof.
  destruct l as [|k l]; [reflexivity|]. intros H. cbn [scan].
  destruct k; cbn [isid]; try (rewrite !andb_false_r; reflexivity). destruct H.
Qed.

Lemma sc_sym k l : litb k = false -> sc (k :: l) = sc l.
Proof. intros H. cbn [scan andb negb]. now rewrite H. Qed.

Lemma sc_lit x l : nid l -> sc (k_lit x :: l) = sc l.
Proof. intros H. cbn [scan andb negb]. now apply scan_nid. Qed.

Lemma sc_cm c l : sc (cm c ++ l) = sc l.
Proof.
  unfold cm. induction c as [|a c IH]; [reflexivity|].
  cbn [map app]. rewrite sc_sym by reflexivity. exact IH.
Qed.

Lemma nid_cm c l : nid l -> nid (cm c ++ l).
Proof. destruct c as [|a c]; [trivial|]. intros _. exact I. Qed.

Lemma litb_k_mul o : litb (k_mul o) = false. Proof. now destruct o. Qed.
Lemma litb_k_add o : litb (k_add o) = false. Proof. now destruct o. Qed.
Lemma litb_k_cmp o : litb (k_cmp o) = false. Proof. now destruct o. Qed.
Lemma nid_k_mul o l : nid (k_mul o :: l). Proof. now destruct o. Qed.
Lemma nid_k_add o l : nid (k_add o :: l). Proof. now destruct o. Qed.
Lemma nid_k_cmp o l : nid (k_cmp o :: l). Proof. now destruct o. Qed.

(* right-nest the appends *)
Ltac norm := repeat first [rewrite <- app_assoc | progress cbn [app]].
Ltac nidt :=
  solve [ assumption | exact I | apply nid_k_mul | apply nid_k_add | apply nid_k_cmp
        | apply nid_cm; first [assumption | exact I | apply nid_k_mul | apply nid_k_add | apply nid_k_cmp] ].
Ltac litt := solve [reflexivity | apply litb_k_mul | apply litb_k_add | apply litb_k_cmp].
(* consume comments, tokens and pieces for which an equation is in the context *)
Ltac step :=
  first [ rewrite sc_cm
        | rewrite sc_sym by litt
        | rewrite sc_lit by nidt
        | match goal with
          | H : forall cont, nid cont -> sc (?f ?x ++ cont) = sc cont |- context [?f ?x ++ _] => rewrite H by nidt
          | H : forall cont, sc (?f ?x ++ cont) = sc cont |- context [?f ?x ++ _] => rewrite H
          end ].
Ltac go := norm; repeat step; try reflexivity.

Theorem expr_sc :
  (forall v cont, nid cont -> sc (fl_var v ++ cont) = sc cont) /\
  (forall f cont, nid cont -> sc (fl_fac f ++ cont) = sc cont) /\
  (forall m cont, nid cont -> sc (fl_mul m ++ cont) = sc cont) /\
  (forall a cont, nid cont -> sc (fl_add a ++ cont) = sc cont) /\
  (forall e cont, nid cont -> sc (fl_cmp e ++ cont) = sc cont).
Proof.
  apply aexpr_mutind.
  - intros c x cont Hc. cbn [fl_var]. go.
  - intros v IHv c1 e IHe c2 cont Hc. cbn [fl_var]. go.
  - intros c l cont Hc. cbn [fl_fac]. go.
  - intros v IHv cont Hc. cbn [fl_fac]. go.
  - intros c f IHf cont Hc. cbn [fl_fac]. go.
  - intros c1 e IHe c2 cont Hc. cbn [fl_fac]. go.
  - intros f IHf cont Hc. cbn [fl_mul]. go.
  - intros m IHm c op f IHf cont Hc. cbn [fl_mul]. go.
  - intros m IHm cont Hc. cbn [fl_add]. go.
  - intros a IHa c op m IHm cont Hc. cbn [fl_add]. go.
  - intros a IHa cont Hc. cbn [fl_cmp]. go.
  - intros l IHl c op r IHr cont Hc. cbn [fl_cmp]. go.
Qed.

Lemma var_sc v cont : nid cont -> sc (fl_var v ++ cont) = sc cont.
Proof. apply expr_sc. Qed.
Lemma cmp_sc e cont : nid cont -> sc (fl_cmp e ++ cont) = sc cont.
Proof. apply expr_sc. Qed.

(* a type ends with an identifier: no condition on what follows *)
Lemma type_sc t : forall cont, sc (fl_type t ++ cont) = sc cont.
Proof.
  induction t as [c x | ca cl cz size cr co base IH]; intros cont; cbn [fl_type]; go.
Qed.

(* comma-separated lists *)
Lemma tail_sc {A} (f : A -> list kind) :
  (forall x cont, nid cont -> sc (f x ++ cont) = sc cont) ->
  forall l cont, nid cont -> sc (fl_tail f l ++ cont) = sc cont.
Proof.
  intros Hf l. unfold fl_tail. induction l as [|[c x] l IH]; intros cont Hc; [reflexivity|].
  cbn [flat_map fst snd]. norm. rewrite sc_cm, sc_sym by reflexivity.
  destruct l as [|[c' x'] l].
  - cbn [flat_map app]. now apply Hf.
  - rewrite Hf.
    + now apply IH.
    + cbn [flat_map fst snd]. norm. apply nid_cm. exact I.
Qed.

Lemma sep_sc {A} (f : A -> list kind) :
  (forall x cont, nid cont -> sc (f x ++ cont) = sc cont) ->
  forall o cont, nid cont -> sc (fl_sep f o ++ cont) = sc cont.
Proof.
  intros Hf [[a l]|] cont Hc; cbn [fl_sep]; [|reflexivity]. norm.
  destruct l as [|[c x] l].
  - cbn [fl_tail flat_map app]. now apply Hf.
  - rewrite Hf.
    + now apply tail_sc.
    + unfold fl_tail. cbn [flat_map fst snd]. norm. apply nid_cm. exact I.
Qed.

Lemma args_sc a cont : nid cont -> sc (fl_sep fl_cmp a ++ cont) = sc cont.
Proof. apply sep_sc. exact cmp_sc. Qed.

(* a statement ends with `;` or `}` *)
Theorem stmt_sc :
  (forall s cont, sc (fl_stmt s ++ cont) = sc cont) /\ (forall b cont, sc (fl_stmts b ++ cont) = sc cont).
Proof.
  pose proof var_sc as Hv. pose proof cmp_sc as He. pose proof args_sc as Ha.
  apply astmt_mutind.
  - intros c cont. cbn [fl_stmt]. go.
  - intros v c1 e c2 cont. cbn [fl_stmt]. norm.
    rewrite (Hv v) by nidt. rewrite sc_cm, sc_sym by reflexivity. rewrite (He e) by nidt. go.
  - intros c1 f c2 a c3 c4 cont. cbn [fl_stmt]. norm.
    rewrite sc_cm, sc_sym by reflexivity. rewrite sc_cm, sc_sym by reflexivity. rewrite (Ha a) by nidt. go.
  - intros c1 c2 e c3 t IHt cont. cbn [fl_stmt]. norm.
    rewrite sc_cm, sc_sym by reflexivity. rewrite sc_cm, sc_sym by reflexivity. rewrite (He e) by nidt. go.
  - intros c1 c2 e c3 t IHt c4 s IHs cont. cbn [fl_stmt]. norm.
    rewrite sc_cm, sc_sym by reflexivity. rewrite sc_cm, sc_sym by reflexivity. rewrite (He e) by nidt. go.
  - intros c1 c2 e c3 b IHb cont. cbn [fl_stmt]. norm.
    rewrite sc_cm, sc_sym by reflexivity. rewrite sc_cm, sc_sym by reflexivity. rewrite (He e) by nidt. go.
  - intros c1 b IHb c2 cont. cbn [fl_stmt]. go.
  - intros cont. reflexivity.
  - intros s IHs r IHr cont. cbn [fl_stmts]. go.
Qed.

Lemma stmts_sc b cont : sc (fl_stmts b ++ cont) = sc cont.
Proof. apply stmt_sc. Qed.

Lemma param_sc p cont : nid cont -> sc (fl_param p ++ cont) = sc cont.
Proof.
  intros _. pose proof type_sc as Ht.
  destruct p as [c x cc t | cr c x cc t]; cbn [fl_param]; norm;
    repeat (rewrite sc_cm, sc_sym by reflexivity); apply Ht.
Qed.

Lemma vardecl_sc v cont : sc (fl_vardecl v ++ cont) = sc cont.
Proof.
  pose proof type_sc as Ht. unfold fl_vardecl. norm.
  repeat (rewrite sc_cm, sc_sym by reflexivity). rewrite Ht. go.
Qed.

Lemma vardecls_sc vs : forall cont, sc (flat_map fl_vardecl vs ++ cont) = sc cont.
Proof.
  induction vs as [|v vs IH]; intros cont; [reflexivity|].
  cbn [flat_map]. norm. rewrite vardecl_sc. apply IH.
Qed.

Lemma decl_sc d cont : sc (fl_decl d ++ cont) = sc cont.
Proof.
  pose proof type_sc as Ht.
  destruct d as [c1 c2 x c3 t c4 | c1 c2 x c3 ps c4 c5 vs b c6]; cbn [fl_decl]; norm.
  - repeat (rewrite sc_cm, sc_sym by reflexivity). rewrite Ht. go.
  - repeat (rewrite sc_cm, sc_sym by reflexivity).
    rewrite (sep_sc fl_param param_sc) by nidt.
    repeat (rewrite sc_cm, sc_sym by reflexivity).
    rewrite vardecls_sc, stmts_sc. go.
Qed.

Lemma decls_sc ds : forall cont, sc (flat_map fl_decl ds ++ cont) = sc cont.
Proof.
  induction ds as [|d ds IH]; intros cont; [reflexivity|].
  cbn [flat_map]. norm. rewrite decl_sc. apply IH.
Qed.

Theorem flatten_scan p : sc (flatten p ++ [Eof]) = true.
Proof. unfold flatten. norm. rewrite decls_sc, sc_cm. reflexivity. Qed.

(* what the scan says about two neighbours *)
Lemma scan_nth : forall ks prev j a b,
  scan prev ks = true -> nth_error ks j = Some a -> nth_error ks (S j) = Some b -> litb a && isid b = false.
Proof.
  induction ks as [|k ks IH]; intros prev j a b Hs Ha Hb; [destruct j; discriminate Ha|].
  cbn [scan] in Hs. apply andb_true_iff in Hs as [_ Hs].
  destruct j as [|j].
  - cbn [nth_error] in Ha, Hb. injection Ha as ->.
    destruct ks as [|k' ks]; [discriminate Hb|]. cbn [nth_error] in Hb. injection Hb as ->.
    cbn [scan] in Hs. apply andb_true_iff in Hs as [Hs _]. now apply negb_true_iff in Hs.
  - cbn [nth_error] in Ha. change (nth_error (k :: ks) (S (S j))) with (nth_error ks (S j)) in Hb.
    exact (IH _ _ _ _ Hs Ha Hb).
Qed.

Theorem flatten_no_lit_ident : forall (p : aprog) (j : nat) (a : kind) (x : text),
  nth_error (flatten p ++ [Eof]) j = Some a -> nth_error (flatten p ++ [Eof]) (j + 1) = Some (Ident x) -> notlit a.
Proof.
  intros p j a x Ha Hx. rewrite Nat.add_1_r in Hx.
  pose proof (scan_nth _ _ _ _ _ (flatten_scan p) Ha Hx) as H.
  cbn [isid] in H. rewrite andb_true_r in H. now apply notlit_litb.
Qed.

Print Assumptions flatten_no_lit_ident.
