(* C05, table part (2/3): two declaration lists that agree except for a middle part.

     ds  = A ++ M  ++ B          ds' = A ++ M' ++ B'
   where B' is B with all offsets moved by a constant (the relation the parser theorems of
   Proofs/ParserShift*.v deliver for a damage inside M).  Result (table_contain):
     - every entry of the table of A is an entry of both tables, unchanged;
     - a name that neither M nor M' declares has an entry in one table iff it has one in the other;
       the two entries agree in everything except the data types (name identifier, kind,
       documentation, range - moved by the constant -, parameter list and local table up to data
       types): [kept_skel];
     - they agree completely ([kept_full]) unless the name is TAINTED: the taint starts with the names
       declared by M or M' whose resolution as a type name ([tyres]) differs between the tables of
       A ++ M and A ++ M' ([seed]) and spreads to every later declaration one of whose type expressions
       mentions a tainted name ([tainted]). *)
From Coq Require Import Arith Lia List Bool.
From Spl Require Import Model.Errors Proofs.SemProofs Proofs.TableContain.
From Spl Require Proofs.TypingProofs.
Import ListNotations.
Local Open Scope nat_scope.

(* ------------------------------------------------------------------------------------------ *)
(* 1. what build reads from the table: the resolution of a name used as a type *)

Definition ent_tyres (e : gentry) : option dtype :=
  match e with GTypeE te => ten_ty te | GProcE _ => None end.
Definition ent_kind (e : gentry) : bool := match e with GTypeE _ => true | GProcE _ => false end.

(* None: undefined; Some (false, _): a procedure; Some (true, t): a type with data type t *)
Definition tyres (T : gtable) (n : text) : option (bool * option dtype) :=
  option_map (fun e => (ent_kind e, ent_tyres e)) (lookup T n).

Fixpoint te_names (t : typeexpr) : list text :=
  match t with
  | TNamed i => [id_val i]
  | TArray _ (Some (b, _)) _ => te_names b
  | TArray _ None _ => []
  end.
Definition ote_names (t : option (typeexpr * nat)) : list text :=
  match t with Some (te, _) => te_names te | None => [] end.
Definition param_names (p : paramdecl * nat) : list text :=
  match fst p with PValid _ _ (Some _) ty _ => ote_names ty | _ => [] end.
Definition var_names (v : vardecl * nat) : list text :=
  match fst v with VValid _ (Some _) ty _ => ote_names ty | _ => [] end.

(* the type names a declaration's entry depends on *)
Definition decl_deps (d : gdecl) : list text :=
  match d with
  | GType td => match decl_key d with Some _ => ote_names (td_ty td) | None => [] end
  | GProc pd =>
      match decl_key d with
      | Some _ => flat_map param_names (pd_params pd) ++ flat_map var_names (pd_vars pd)
      | None => []
      end
  | GError _ => []
  end.

Lemma dt_te_ext l g g' c t :
  (forall n, In n (te_names t) -> tyres g n = tyres g' n) -> dt_te l g c t = dt_te l g' c t.
Proof.
  induction t as [i | size inf | size b off inf IH] using TypingProofs.texpr_ind'; intros H; cbn [dt_te te_names] in *.
  - specialize (H (id_val i) (or_introl eq_refl)). unfold tyres in H. unfold lt_lookup.
    destruct (match l with Some t => lookup t (id_val i) | None => None end); [reflexivity|].
    destruct (lookup g (id_val i)) as [[te|pe]|], (lookup g' (id_val i)) as [[te'|pe']|];
      cbn [option_map ent_kind ent_tyres entry_of_g] in *; try discriminate; try reflexivity.
    injection H as H. exact H.
  - reflexivity.
  - rewrite (IH H). reflexivity.
Qed.

Lemma dt_ote_ext l g g' c t :
  (forall n, In n (ote_names t) -> tyres g n = tyres g' n) -> dt_ote l g c t = dt_ote l g' c t.
Proof. destruct t as [[te off]|]; cbn [dt_ote ote_names]; [apply dt_te_ext | reflexivity]. Qed.

Lemma param_entry_ext pn g g' p :
  (forall n, In n (param_names p) -> tyres g n = tyres g' n) -> param_entry pn g p = param_entry pn g' p.
Proof.
  unfold param_entry, param_names. destruct (fst p) as [doc is_ref [name|] ty inf|inf]; try reflexivity.
  intros H. rewrite (dt_ote_ext _ _ _ _ _ H). reflexivity.
Qed.

Lemma params_tab_ext pn g g' : forall ps l,
  (forall n, In n (flat_map param_names ps) -> tyres g n = tyres g' n) -> params_tab pn g ps l = params_tab pn g' ps l.
Proof.
  induction ps as [|p r IH]; intros l H; cbn [params_tab flat_map] in *; [reflexivity|].
  rewrite (param_entry_ext pn g g' p); [|intros n Hn; apply H, in_or_app; left; exact Hn].
  assert (Hr : forall n, In n (flat_map param_names r) -> tyres g n = tyres g' n)
    by (intros n Hn; apply H, in_or_app; right; exact Hn).
  destruct (param_entry pn g' p) as [e|]; rewrite (IH _ Hr); reflexivity.
Qed.

Lemma var_entry_ext pn g g' l v :
  (forall n, In n (var_names v) -> tyres g n = tyres g' n) -> var_entry pn g l v = var_entry pn g' l v.
Proof.
  unfold var_entry, var_names. destruct (fst v) as [doc [name|] ty inf|inf]; try reflexivity.
  intros H. rewrite (dt_ote_ext _ _ _ _ _ H). reflexivity.
Qed.

Lemma vars_tab_ext pn g g' : forall vs l,
  (forall n, In n (flat_map var_names vs) -> tyres g n = tyres g' n) -> vars_tab pn g vs l = vars_tab pn g' vs l.
Proof.
  induction vs as [|v r IH]; intros l H; cbn [vars_tab flat_map] in *; [reflexivity|].
  rewrite (var_entry_ext pn g g' l v); [|intros n Hn; apply H, in_or_app; left; exact Hn].
  apply IH. intros n Hn. apply H, in_or_app. right. exact Hn.
Qed.

(* ------------------------------------------------------------------------------------------ *)
(* 2. moving an entry's range; forgetting the data types *)

Definition shift_g (d : nat) (e : gentry) : gentry :=
  match e with
  | GTypeE t => GTypeE {| ten_name := ten_name t; ten_ty := ten_ty t;
                          ten_range := shift_range (ten_range t) d; ten_doc := ten_doc t |}
  | GProcE p => GProcE {| pe_name := pe_name p; pe_local := pe_local p; pe_params := pe_params p;
                          pe_range := shift_range (pe_range p) d; pe_doc := pe_doc p |}
  end.

Definition erase_v (v : ventry) : ventry :=
  {| ve_name := ve_name v; ve_ref := ve_ref v; ve_ty := None; ve_range := ve_range v; ve_doc := ve_doc v |}.
Definition erase_l (l : lentry) : lentry :=
  match l with LVar v => LVar (erase_v v) | LParam v => LParam (erase_v v) end.
Definition erase_lt (t : ltable) : ltable := map (fun kv => (fst kv, erase_l (snd kv))) t.
Definition erase_g (e : gentry) : gentry :=
  match e with
  | GTypeE t => GTypeE {| ten_name := ten_name t; ten_ty := None; ten_range := ten_range t; ten_doc := ten_doc t |}
  | GProcE p => GProcE {| pe_name := pe_name p; pe_local := erase_lt (pe_local p);
                          pe_params := map erase_v (pe_params p); pe_range := pe_range p; pe_doc := pe_doc p |}
  end.

Lemma shift_shift r a b a' b' : a + b = a' + b' -> shift_range (shift_range r a) b = shift_range (shift_range r a') b'.
Proof. intros H. unfold shift_range. cbn [fst snd]. f_equal; lia. Qed.

Lemma lookup_erase_lt l k : lookup (erase_lt l) k = option_map erase_l (lookup l k).
Proof.
  induction l as [|[k0 v0] l IH]; cbn [erase_lt map lookup fst snd option_map]; [reflexivity|].
  destruct (text_eqb k0 k); [reflexivity | exact IH].
Qed.

Lemma enter_erase l l' k x x' :
  erase_lt l = erase_lt l' -> erase_l x = erase_l x' ->
  erase_lt (fst (enter l k x)) = erase_lt (fst (enter l' k x')).
Proof.
  intros Hl Hx. pose proof (lookup_erase_lt l k) as H1. pose proof (lookup_erase_lt l' k) as H2.
  rewrite Hl, H2 in H1. unfold enter.
  destruct (lookup l k) as [y|], (lookup l' k) as [y'|]; cbn [option_map fst] in *; try discriminate; [exact Hl|].
  unfold erase_lt in *. rewrite !map_app, Hl. cbn [map fst snd]. rewrite Hx. reflexivity.
Qed.

Lemma param_entry_skel pn g g' p : option_map erase_v (param_entry pn g p) = option_map erase_v (param_entry pn g' p).
Proof. unfold param_entry. destruct (fst p) as [doc is_ref [name|] ty inf|inf]; reflexivity. Qed.

Lemma var_entry_skel pn g g' l l' v : option_map erase_v (var_entry pn g l v) = option_map erase_v (var_entry pn g' l' v).
Proof. unfold var_entry. destruct (fst v) as [doc [name|] ty inf|inf]; reflexivity. Qed.

Lemma erase_v_name e e' : erase_v e = erase_v e' -> ve_name e = ve_name e'.
Proof. intros H. exact (f_equal ve_name H). Qed.

Lemma params_tab_skel pn g g' : forall ps l l',
  erase_lt l = erase_lt l' ->
  erase_lt (fst (params_tab pn g ps l)) = erase_lt (fst (params_tab pn g' ps l')) /\
  map erase_v (snd (params_tab pn g ps l)) = map erase_v (snd (params_tab pn g' ps l')).
Proof.
  induction ps as [|p r IH]; intros l l' Hl; cbn [params_tab]; [split; [exact Hl | reflexivity]|].
  pose proof (param_entry_skel pn g g' p) as Hp.
  destruct (param_entry pn g p) as [e|], (param_entry pn g' p) as [e'|]; cbn [option_map] in Hp; try discriminate.
  - assert (Hq : erase_v e = erase_v e') by congruence. clear Hp. rename Hq into Hp.
    assert (Hl2 : erase_lt (fst (enter l (id_val (ve_name e)) (LParam e))) =
                  erase_lt (fst (enter l' (id_val (ve_name e')) (LParam e')))).
    { rewrite (erase_v_name _ _ Hp). apply enter_erase; [exact Hl|]. cbn [erase_l]. rewrite Hp. reflexivity. }
    destruct (IH _ _ Hl2) as [I1 I2].
    destruct (params_tab pn g r _) as [l2 es], (params_tab pn g' r _) as [l2' es']. cbn [fst snd map] in *.
    split; [exact I1|]. rewrite Hp, I2. reflexivity.
  - exact (IH _ _ Hl).
Qed.

Lemma vars_tab_skel pn g g' : forall vs l l',
  erase_lt l = erase_lt l' -> erase_lt (vars_tab pn g vs l) = erase_lt (vars_tab pn g' vs l').
Proof.
  induction vs as [|v r IH]; intros l l' Hl; cbn [vars_tab]; [exact Hl|].
  apply IH. pose proof (var_entry_skel pn g g' l l' v) as Hv.
  destruct (var_entry pn g l v) as [e|], (var_entry pn g' l' v) as [e'|]; cbn [option_map] in Hv; try discriminate; [|exact Hl].
  assert (Hq : erase_v e = erase_v e') by congruence. clear Hv. rename Hq into Hv. rewrite (erase_v_name _ _ Hv). apply enter_erase; [exact Hl|]. cbn [erase_l]. rewrite Hv. reflexivity.
Qed.

(* ------------------------------------------------------------------------------------------ *)
(* 3. the entry of one declaration against two tables, at two offsets *)

Section TwoOffsets.
Variables old new : nat.

(* everything but the data types never depends on the table *)
Lemma decl_entry_skel T T' off off' d :
  off + new = off' + old ->
  option_map (fun e => erase_g (shift_g new e)) (decl_entry T off d) =
  option_map (fun e => erase_g (shift_g old e)) (decl_entry T' off' d).
Proof.
  intros Ho. destruct d as [td|pd|inf]; cbn [decl_entry]; [| |reflexivity].
  - destruct (td_name td) as [name|]; [|reflexivity]. destruct (text_eqb (id_val name) s_main); [reflexivity|].
    cbn [option_map shift_g erase_g ten_name ten_ty ten_range ten_doc]. rewrite (shift_shift _ _ _ _ _ Ho). reflexivity.
  - destruct (pd_name pd) as [name|]; [|reflexivity].
    destruct (params_tab_skel (id_val name) T T' (pd_params pd) [] [] eq_refl) as [I1 I2].
    destruct (params_tab (id_val name) T (pd_params pd) []) as [l1 es].
    destruct (params_tab (id_val name) T' (pd_params pd) []) as [l1' es']. cbn [fst snd] in I1, I2.
    cbn [option_map shift_g erase_g pe_name pe_local pe_params pe_range pe_doc].
    rewrite (shift_shift _ _ _ _ _ Ho), I2, (vars_tab_skel (id_val name) T T' (pd_vars pd) _ _ I1). reflexivity.
Qed.

(* the whole entry depends on the table only through the resolution of [decl_deps] *)
Lemma decl_entry_ext T T' off off' d :
  off + new = off' + old ->
  (forall n, In n (decl_deps d) -> tyres T n = tyres T' n) ->
  option_map (shift_g new) (decl_entry T off d) = option_map (shift_g old) (decl_entry T' off' d).
Proof.
  intros Ho H. destruct d as [td|pd|inf]; cbn [decl_entry decl_deps decl_key] in *; [| |reflexivity].
  - destruct (td_name td) as [name|]; [|reflexivity]. destruct (text_eqb (id_val name) s_main); [reflexivity|].
    cbn [option_map shift_g ten_name ten_ty ten_range ten_doc].
    rewrite (shift_shift _ _ _ _ _ Ho), (dt_ote_ext _ _ _ _ _ H). reflexivity.
  - destruct (pd_name pd) as [name|]; [|reflexivity].
    rewrite (params_tab_ext (id_val name) T T' (pd_params pd) []);
      [|intros n Hn; apply H, in_or_app; left; exact Hn].
    destruct (params_tab (id_val name) T' (pd_params pd) []) as [l1 es].
    cbn [option_map shift_g pe_name pe_local pe_params pe_range pe_doc].
    rewrite (shift_shift _ _ _ _ _ Ho), (vars_tab_ext (id_val name) T T' (pd_vars pd) l1);
      [reflexivity | intros n Hn; apply H, in_or_app; right; exact Hn].
Qed.

(* ------------------------------------------------------------------------------------------ *)
(* 4. the relation between the two tables, and the taint *)

Definition kept_full (o o' : option gentry) : Prop :=
  option_map (shift_g new) o = option_map (shift_g old) o'.
Definition kept_skel (o o' : option gentry) : Prop :=
  option_map (fun e => erase_g (shift_g new e)) o = option_map (fun e => erase_g (shift_g old e)) o'.

Lemma kept_full_skel o o' : kept_full o o' -> kept_skel o o'.
Proof.
  unfold kept_full, kept_skel. destruct o as [e|], o' as [e'|]; cbn [option_map]; try discriminate; [|reflexivity].
  intros [= H]. rewrite H. reflexivity.
Qed.

Lemma ent_res_shift d e : (ent_kind (shift_g d e), ent_tyres (shift_g d e)) = (ent_kind e, ent_tyres e).
Proof. destruct e; reflexivity. Qed.

Lemma kept_full_tyres o o' :
  kept_full o o' ->
  option_map (fun e => (ent_kind e, ent_tyres e)) o = option_map (fun e => (ent_kind e, ent_tyres e)) o'.
Proof.
  unfold kept_full. destruct o as [e|], o' as [e'|]; cbn [option_map]; try discriminate; [|reflexivity].
  intros [= H]. rewrite <- (ent_res_shift new e), H, ent_res_shift. reflexivity.
Qed.

(* T0: the table in front of the part that differs; D: the names declared by that part;
   W: the tainted names *)
Definition entries_kept (T0 : gtable) (D W : list text) (T T' : gtable) : Prop :=
  (forall n e, lookup T0 n = Some e -> lookup T n = Some e /\ lookup T' n = Some e) /\
  (forall n, ~ In n W -> tyres T n = tyres T' n) /\
  (forall n, lookup T0 n = None -> ~ In n D -> kept_skel (lookup T n) (lookup T' n)) /\
  (forall n, lookup T0 n = None -> ~ In n D -> ~ In n W -> kept_full (lookup T n) (lookup T' n)).

Definition mem (n : text) (W : list text) : bool := existsb (text_eqb n) W.
Definition dep_hit (W : list text) (d : gdecl) : bool := existsb (fun n => mem n W) (decl_deps d).
Definition taint_step (W : list text) (d : gdecl) : list text :=
  match decl_key d with
  | Some k => if dep_hit W d then k :: W else W
  | None => W
  end.
Fixpoint tainted (W : list text) (ds : list (gdecl * nat)) : list text :=
  match ds with
  | [] => W
  | (d, _) :: r => tainted (taint_step W d) r
  end.

Lemma mem_In n W : mem n W = true <-> In n W.
Proof.
  unfold mem. rewrite existsb_exists. split.
  - intros (x & Hx & He). apply text_eqb_eq in He. subst x. exact Hx.
  - intros H. exists n. split; [exact H | apply text_eqb_refl].
Qed.

Lemma dep_hit_false W d : dep_hit W d = false -> forall n, In n (decl_deps d) -> ~ In n W.
Proof.
  unfold dep_hit. intros H n Hn Hw. assert (Ht : existsb (fun n => mem n W) (decl_deps d) = true).
  { apply existsb_exists. exists n. split; [exact Hn | apply mem_In; exact Hw]. }
  congruence.
Qed.

Lemma taint_step_incl W d : incl W (taint_step W d).
Proof.
  unfold taint_step. destruct (decl_key d); [|apply incl_refl].
  destruct (dep_hit W d); [apply incl_tl|]; apply incl_refl.
Qed.

Lemma tainted_incl : forall ds W, incl W (tainted W ds).
Proof.
  induction ds as [|[d off] r IH]; intros W; cbn [tainted]; [apply incl_refl|].
  exact (incl_tran (taint_step_incl W d) (IH _)).
Qed.

Lemma dep_hit_mono W W2 d : incl W W2 -> dep_hit W d = true -> dep_hit W2 d = true.
Proof.
  unfold dep_hit. intros Hi H. apply existsb_exists in H. destruct H as (n & Hn & Hm).
  apply existsb_exists. exists n. split; [exact Hn|]. apply mem_In. apply Hi. apply mem_In. exact Hm.
Qed.

Lemma tainted_mono : forall ds W W2, incl W W2 -> incl (tainted W ds) (tainted W2 ds).
Proof.
  induction ds as [|[d off] r IH]; intros W W2 Hi; cbn [tainted]; [exact Hi|].
  apply IH. unfold taint_step. destruct (decl_key d) as [k|]; [|exact Hi].
  destruct (dep_hit W d) eqn:E.
  - rewrite (dep_hit_mono _ _ _ Hi E). intros x [->|Hx]; [left; reflexivity | right; exact (Hi _ Hx)].
  - destruct (dep_hit W2 d); [apply incl_tl|]; exact Hi.
Qed.

Lemma entries_kept_mono T0 D W W2 T T' : incl W W2 -> entries_kept T0 D W T T' -> entries_kept T0 D W2 T T'.
Proof.
  intros Hi (H0 & H1 & H2 & H3). repeat split.
  - exact (proj1 (H0 _ _ H)).
  - exact (proj2 (H0 _ _ H)).
  - intros n Hn. apply H1. intros Hw. exact (Hn (Hi _ Hw)).
  - exact H2.
  - intros n Hf Hd Hn. apply (H3 _ Hf Hd). intros Hw. exact (Hn (Hi _ Hw)).
Qed.

(* one step of the table under a relation of the form  option_map f _ = option_map f' _ *)
Lemma step_rel {X} (f f' : gentry -> X) T T' off off' d n :
  option_map f (lookup T n) = option_map f' (lookup T' n) ->
  (decl_key d = Some n -> option_map f (decl_entry T off d) = option_map f' (decl_entry T' off' d)) ->
  option_map f (lookup (table_step T off d) n) = option_map f' (lookup (table_step T' off' d) n).
Proof.
  intros H Hd. rewrite !lookup_step.
  destruct (lookup T n) as [x|], (lookup T' n) as [x'|]; cbn [option_map] in H |- *; try discriminate; [exact H|].
  destruct (decl_key d) as [k|]; [|reflexivity].
  destruct (text_eqb k n) eqn:Ek.
  - apply text_eqb_eq in Ek. subst k. specialize (Hd eq_refl).
    destruct (decl_entry T off d) as [e|], (decl_entry T' off' d) as [e'|]; cbn [option_map] in Hd |- *;
      try discriminate; [exact Hd | reflexivity].
  - destruct (decl_entry T off d), (decl_entry T' off' d); reflexivity.
Qed.

Lemma entries_kept_step T0 D W T T' off off' d :
  off + new = off' + old -> entries_kept T0 D W T T' ->
  entries_kept T0 D (taint_step W d) (table_step T off d) (table_step T' off' d).
Proof.
  intros Ho (H0 & H1 & H2 & H3).
  assert (Hfull : forall n, decl_key d = Some n -> ~ In n (taint_step W d) ->
            option_map (shift_g new) (decl_entry T off d) = option_map (shift_g old) (decl_entry T' off' d)).
  { intros n Hk Hn. apply (decl_entry_ext _ _ _ _ _ Ho). intros m Hm. apply H1.
    unfold taint_step in Hn. rewrite Hk in Hn. destruct (dep_hit W d) eqn:Eh.
    - exfalso. apply Hn. left. reflexivity.
    - exact (dep_hit_false _ _ Eh _ Hm). }
  assert (Hsub : forall n, ~ In n (taint_step W d) -> ~ In n W).
  { intros n Hn Hw. exact (Hn (taint_step_incl W d _ Hw)). }
  repeat split.
  - rewrite lookup_step, (proj1 (H0 _ _ H)). reflexivity.
  - rewrite lookup_step, (proj2 (H0 _ _ H)). reflexivity.
  - intros n Hn. unfold tyres. apply step_rel; [exact (H1 _ (Hsub _ Hn))|].
    intros Hk. exact (kept_full_tyres _ _ (Hfull _ Hk Hn)).
  - intros n Hf Hd. unfold kept_skel. apply step_rel; [exact (H2 _ Hf Hd)|].
    intros _. exact (decl_entry_skel _ _ _ _ _ Ho).
  - intros n Hf Hd Hn. unfold kept_full. apply step_rel; [exact (H3 _ Hf Hd (Hsub _ Hn))|].
    intros Hk. exact (Hfull _ Hk Hn).
Qed.

Lemma entries_kept_list T0 D : forall B B' W T T',
  map (fun go : gdecl * nat => (fst go, snd go + new)) B = map (fun go : gdecl * nat => (fst go, snd go + old)) B' ->
  entries_kept T0 D W T T' ->
  entries_kept T0 D (tainted W B) (table_of B T) (table_of B' T').
Proof.
  induction B as [|[d off] B IH]; intros [|[d' off'] B'] W T T' Hm H; cbn [map fst snd] in Hm; try discriminate.
  - exact H.
  - injection Hm as Hd Ho Hr. subst d'. cbn [tainted table_of].
    exact (IH _ _ _ _ Hr (entries_kept_step _ _ _ _ _ _ _ _ Ho H)).
Qed.

(* ------------------------------------------------------------------------------------------ *)
(* 5. the part that differs: the seed of the taint *)

Definition odt_eqb (a b : option dtype) : bool :=
  match a, b with Some x, Some y => dt_eqb x y | None, None => true | _, _ => false end.
Definition tyres_eqb (a b : option (bool * option dtype)) : bool :=
  match a, b with
  | Some (k, x), Some (k', y) => Bool.eqb k k' && odt_eqb x y
  | None, None => true
  | _, _ => false
  end.

Lemma tyres_eqb_eq a b : tyres_eqb a b = true -> a = b.
Proof.
  destruct a as [[k x]|], b as [[k' y]|]; cbn [tyres_eqb]; try discriminate; [|reflexivity].
  intros H. apply andb_true_iff in H. destruct H as [Hk Hx]. apply Bool.eqb_prop in Hk. subst k'.
  destruct x as [x|], y as [y|]; cbn [odt_eqb] in Hx; try discriminate; [|reflexivity].
  apply TypingProofs.dt_eqb_eq in Hx. subst y. reflexivity.
Qed.

(* the names of D that resolve differently in T1 and T1' *)
Definition seed (T1 T1' : gtable) (D : list text) : list text :=
  filter (fun n => negb (tyres_eqb (tyres T1 n) (tyres T1' n))) D.

Lemma seed_out T1 T1' D n : In n D -> ~ In n (seed T1 T1' D) -> tyres T1 n = tyres T1' n.
Proof.
  intros Hd Hn. destruct (tyres_eqb (tyres T1 n) (tyres T1' n)) eqn:E; [exact (tyres_eqb_eq _ _ E)|].
  exfalso. apply Hn. unfold seed. apply filter_In. split; [exact Hd|]. rewrite E. reflexivity.
Qed.

Lemma entries_kept_middle T0 M M' :
  entries_kept T0 (decl_keys M ++ decl_keys M')
    (seed (table_of M T0) (table_of M' T0) (decl_keys M ++ decl_keys M')) (table_of M T0) (table_of M' T0).
Proof.
  assert (Hnone : forall n, lookup T0 n = None -> ~ In n (decl_keys M ++ decl_keys M') ->
                    lookup (table_of M T0) n = None /\ lookup (table_of M' T0) n = None).
  { intros n Hf Hd. split; apply table_of_absent; try exact Hf; intros Hi; apply Hd, in_or_app; [left | right]; exact Hi. }
  repeat split.
  - exact (table_of_front _ _ _ _ H).
  - exact (table_of_front _ _ _ _ H).
  - intros n Hn. destruct (lookup T0 n) as [e|] eqn:Ef.
    + unfold tyres. rewrite (table_of_front M _ _ _ Ef), (table_of_front M' _ _ _ Ef). reflexivity.
    + destruct (in_dec (list_eq_dec N.eq_dec) n (decl_keys M ++ decl_keys M')) as [Hd|Hd].
      * exact (seed_out _ _ _ _ Hd Hn).
      * destruct (Hnone _ Ef Hd) as [E1 E2]. unfold tyres. rewrite E1, E2. reflexivity.
  - intros n Hf Hd. destruct (Hnone _ Hf Hd) as [E1 E2]. rewrite E1, E2. reflexivity.
  - intros n Hf Hd _. destruct (Hnone _ Hf Hd) as [E1 E2]. rewrite E1, E2. reflexivity.
Qed.

(* ------------------------------------------------------------------------------------------ *)
(* 6. the theorem for two lists *)

Theorem table_contain A M M' B B' :
  map (fun go : gdecl * nat => (fst go, snd go + new)) B = map (fun go : gdecl * nat => (fst go, snd go + old)) B' ->
  entries_kept (table_of A initialized) (decl_keys M ++ decl_keys M')
    (tainted (seed (table_of (A ++ M) initialized) (table_of (A ++ M') initialized) (decl_keys M ++ decl_keys M')) B)
    (table_of (A ++ M ++ B) initialized) (table_of (A ++ M' ++ B') initialized).
Proof.
  intros Hm. rewrite !table_of_app. exact (entries_kept_list _ _ _ _ _ _ _ Hm (entries_kept_middle _ M M')).
Qed.

End TwoOffsets.

(* ------------------------------------------------------------------------------------------ *)
(* 7. reading the relations *)

(* the seed: only names the differing part declares and that are not declared in front of it *)
Lemma seed_sub T0 M M' n :
  In n (seed (table_of M T0) (table_of M' T0) (decl_keys M ++ decl_keys M')) ->
  In n (decl_keys M ++ decl_keys M') /\ lookup T0 n = None.
Proof.
  unfold seed. intros H. apply filter_In in H. destruct H as [Hd Hn]. split; [exact Hd|].
  destruct (lookup T0 n) as [e|] eqn:Ef; [|reflexivity]. exfalso.
  unfold tyres in Hn. rewrite (table_of_front M _ _ _ Ef), (table_of_front M' _ _ _ Ef) in Hn.
  cbn [option_map tyres_eqb] in Hn. rewrite Bool.eqb_reflx in Hn. cbn [andb] in Hn.
  destruct (ent_tyres e) as [x|]; cbn [odt_eqb] in Hn; [|discriminate].
  rewrite TypingProofs.dt_eqb_refl in Hn. discriminate.
Qed.

(* what [kept_skel] says, field by field *)
Lemma kept_skel_fields old new o o' :
  kept_skel old new o o' ->
  match o, o' with
  | None, None => True
  | Some (GTypeE t), Some (GTypeE t') =>
      ten_name t = ten_name t' /\ ten_doc t = ten_doc t' /\
      shift_range (ten_range t) new = shift_range (ten_range t') old
  | Some (GProcE p), Some (GProcE p') =>
      pe_name p = pe_name p' /\ pe_doc p = pe_doc p' /\
      shift_range (pe_range p) new = shift_range (pe_range p') old /\
      map erase_v (pe_params p) = map erase_v (pe_params p') /\
      erase_lt (pe_local p) = erase_lt (pe_local p')
  | _, _ => False
  end.
Proof.
  unfold kept_skel. destruct o as [[t|p]|], o' as [[t'|p']|]; cbn [option_map shift_g erase_g]; try discriminate; try exact (fun _ => I).
  - intros H. injection H. intros. unfold shift_range. repeat split; congruence.
  - intros H. injection H. intros. unfold shift_range. repeat split; congruence.
Qed.

(* what [kept_full] says *)
Lemma kept_full_fields old new o o' :
  kept_full old new o o' ->
  match o, o' with
  | None, None => True
  | Some (GTypeE t), Some (GTypeE t') =>
      ten_name t = ten_name t' /\ ten_doc t = ten_doc t' /\ ten_ty t = ten_ty t' /\
      shift_range (ten_range t) new = shift_range (ten_range t') old
  | Some (GProcE p), Some (GProcE p') =>
      pe_name p = pe_name p' /\ pe_doc p = pe_doc p' /\
      shift_range (pe_range p) new = shift_range (pe_range p') old /\
      pe_params p = pe_params p' /\ pe_local p = pe_local p'
  | _, _ => False
  end.
Proof.
  unfold kept_full. destruct o as [[t|p]|], o' as [[t'|p']|]; cbn [option_map shift_g]; try discriminate; try exact (fun _ => I).
  - intros H. injection H. intros. unfold shift_range. repeat split; congruence.
  - intros H. injection H. intros. unfold shift_range. repeat split; congruence.
Qed.
