(* C01 on whole documents (Model/UpdateDoc.v `update_doc` = AnalyzedSource::update, Model/Errors.v
   `new_doc` = AnalyzedSource::new): both are `table::build; table::analyze` applied to a
   parse-level document (text, tokens, tree) - the one `psteps` returns, resp. the one `pnew`
   returns.  Hence along every history of notifications the text and the tokens are those of a
   fresh analysis, and if the parse-level tree of the last notification is the scratch tree, the
   whole updated document - analysed tree with every diagnostic, and table - is the fresh one. *)
From Coq Require Import List Arith Lia.
From Spl Require Import Model.UpdateDoc Proofs.UpdateProofs Proofs.UpdateDocProofsStrip Proofs.UpdateDocProofsInv
  Proofs.UpdateDocProofsSim.
Import ListNotations.
Local Open Scope nat_scope.

(* table::build; table::analyze on a parse-level document *)
Definition analyse_pdoc (pd : pdoc) : outcome doc :=
  match build_res (p_tree pd) with
  | ROk (p1, table) =>
      match analyze_res p1 table with
      | ROk p2 => Done {| d_text := p_text pd; d_toks := p_toks pd; d_ast := p2; d_table := table |}
      | RFail _ => Panic
      end
  | RFail _ => Panic
  end.

Definition obind {A B} (o : outcome A) (k : A -> outcome B) : outcome B :=
  match o with Done a => k a | Panic => Panic | OutOfFuel => OutOfFuel end.

(* the two unfolding lemmas: update exposes its parse-level intermediate document *)
Lemma update_doc_eq d cs : cs <> [] -> update_doc d cs = obind (psteps (pdoc_of d) cs) analyse_pdoc.
Proof. destruct cs; [congruence | reflexivity]. Qed.

(* a notification without content changes leaves the document as it is *)
Lemma update_doc_nil d : update_doc d [] = Done d.
Proof. reflexivity. Qed.

Lemma new_doc_eq t : new_doc t = obind (pnew t) analyse_pdoc.
Proof.
  unfold new_doc, new_doc_res, pnew, obind, analyse_pdoc, ores_outcome.
  destruct (lex t) as [toks|]; [|reflexivity].
  destruct (parse toks) as [p| |]; [|reflexivity|reflexivity]. cbn [p_tree p_text p_toks].
  destruct (build_res p) as [[p1 table]|x]; [|reflexivity].
  destruct (analyze_res p1 table); reflexivity.
Qed.

Lemma psteps_phist : forall cs pd, psteps pd cs = phist pd cs.
Proof. induction cs as [|c r IH]; intros pd; cbn [psteps phist]; [reflexivity|]. destruct (pstep _ _ _ _ _); auto. Qed.

Lemma analyse_pdoc_text pd d : analyse_pdoc pd = Done d -> d_text d = p_text pd /\ d_toks d = p_toks pd.
Proof.
  unfold analyse_pdoc. destruct (build_res _) as [[p1 table]|x]; [|discriminate].
  destruct (analyze_res p1 table); [|discriminate]. intros [= <-]. cbn. auto.
Qed.

(* ------------------------------------------------------------------------------------------ *)
(* histories *)

Lemma valid_hist_app : forall h1 h2 t, valid_hist t (h1 ++ h2) <-> valid_hist t h1 /\ valid_hist (final_text t h1) h2.
Proof.
  induction h1 as [|c r IH]; intros h2 t; cbn [valid_hist final_text app]; [tauto|]. rewrite IH. tauto.
Qed.

Lemma final_text_app : forall h1 h2 t, final_text t (h1 ++ h2) = final_text (final_text t h1) h2.
Proof. induction h1 as [|c r IH]; intros h2 t; cbn [final_text app]; [reflexivity | apply IH]. Qed.

(* a history of notifications: each a list of changes *)
Fixpoint update_hist (d : doc) (h : list (list tchange)) : outcome doc :=
  match h with
  | [] => Done d
  | cs :: r => obind (update_doc d cs) (fun d' => update_hist d' r)
  end.

Definition DocInv (d : doc) : Prop := lex (d_text d) = Some (d_toks d).

Lemma new_doc_inv t d : new_doc t = Done d -> d_text d = t /\ DocInv d.
Proof.
  rewrite new_doc_eq. unfold obind. destruct (pnew t) as [pd| |] eqn:E; try discriminate.
  intros H. apply analyse_pdoc_text in H as [H1 H2]. apply pnew_inv in E as [E1 E2].
  unfold DocInv, TokInv in *. rewrite H1, H2, <- E1. auto.
Qed.

(* one notification, up to the parse-level document *)
Lemma psteps_inv d cs pd :
  DocInv d -> valid_hist (d_text d) cs -> psteps (pdoc_of d) cs = Done pd ->
  p_text pd = final_text (d_text d) cs /\ lex (p_text pd) = Some (p_toks pd).
Proof.
  intros Hi Hv H. rewrite psteps_phist in H.
  exact (hist_text_tokens cs (pdoc_of d) pd Hv Hi H).
Qed.

Lemma update_doc_inv d cs d' :
  DocInv d -> valid_hist (d_text d) cs -> update_doc d cs = Done d' ->
  d_text d' = final_text (d_text d) cs /\ DocInv d'.
Proof.
  intros Hi Hv. destruct cs as [|c cs0]; [intros [= <-]; cbn [final_text]; auto|].
  rewrite update_doc_eq by discriminate. unfold obind.
  destruct (psteps (pdoc_of d) (c :: cs0)) as [pd| |] eqn:E; try discriminate.
  intros H. apply analyse_pdoc_text in H as [H1 H2]. destruct (psteps_inv d (c :: cs0) pd Hi Hv E) as [A B].
  unfold DocInv. rewrite H1, H2. auto.
Qed.

(* text and token layers of the DOCUMENT along every history of notifications *)
Theorem update_hist_text_tokens : forall h d d',
  DocInv d -> valid_hist (d_text d) (concat h) -> update_hist d h = Done d' ->
  d_text d' = final_text (d_text d) (concat h) /\ lex (d_text d') = Some (d_toks d').
Proof.
  induction h as [|cs r IH]; intros d d' Hi Hv H; cbn [update_hist concat] in *.
  - injection H as <-. auto.
  - unfold obind in H. destruct (update_doc d cs) as [d1| |] eqn:E; try discriminate.
    apply valid_hist_app in Hv as [Hv1 Hv2]. destruct (update_doc_inv d cs d1 Hi Hv1 E) as [A B].
    rewrite <- A in Hv2. destruct (IH d1 d' B Hv2 H) as [C D]. split; [|exact D].
    rewrite C, A, final_text_app. reflexivity.
Qed.

Corollary update_hist_from_new t h d0 d' :
  new_doc t = Done d0 -> valid_hist t (concat h) -> update_hist d0 h = Done d' ->
  d_text d' = final_text t (concat h) /\ lex (final_text t (concat h)) = Some (d_toks d').
Proof.
  intros Hn Hv H. destruct (new_doc_inv t d0 Hn) as [Ht Hi]. rewrite <- Ht in Hv.
  destruct (update_hist_text_tokens h d0 d' Hi Hv H) as [A B]. rewrite Ht in A. rewrite <- A. auto.
Qed.

(* ------------------------------------------------------------------------------------------ *)
(* G1: one notification.  If the parse-level tree the notification produces is the scratch tree of
   its tokens, the updated document is the freshly analysed one: table and build/semantic
   diagnostics are recomputed from that tree by the very function new_doc uses. *)
Theorem update_doc_is_new_doc d cs pd d' :
  cs <> [] -> DocInv d -> valid_hist (d_text d) cs ->
  psteps (pdoc_of d) cs = Done pd ->                  (* AnalyzedSource::update up to the tree *)
  parse (p_toks pd) = Done (p_tree pd) ->             (* the tree layer agrees *)
  update_doc d cs = Done d' ->
  new_doc (final_text (d_text d) cs) = Done d'.
Proof.
  intros Hne Hi Hv Hp Ht Hu. destruct (psteps_inv d cs pd Hi Hv Hp) as [A B].
  rewrite (update_doc_eq d cs Hne), Hp in Hu. cbn [obind] in Hu.
  rewrite new_doc_eq. rewrite <- A. unfold pnew. rewrite B, Ht. cbn [obind].
  destruct pd as [tx tk tr]. exact Hu.
Qed.

(* ... and conversely the fresh document determines the updated one only through that tree *)
Lemma update_doc_exposes d cs d' :
  cs <> [] -> update_doc d cs = Done d' -> exists pd, psteps (pdoc_of d) cs = Done pd /\ analyse_pdoc pd = Done d'.
Proof.
  intros Hne. rewrite (update_doc_eq d cs Hne). unfold obind. destruct (psteps (pdoc_of d) cs) as [pd| |]; try discriminate. eauto.
Qed.

(* G1 along a history of notifications h ++ [cs] from a freshly opened document *)
Theorem hist_partial_document t h cs d0 d1 pd d' :
  cs <> [] -> new_doc t = Done d0 -> valid_hist t (concat (h ++ [cs])) ->
  update_hist d0 h = Done d1 ->                       (* all notifications but the last *)
  psteps (pdoc_of d1) cs = Done pd ->                 (* the last one, up to the tree *)
  parse (p_toks pd) = Done (p_tree pd) ->
  update_doc d1 cs = Done d' ->
  new_doc (final_text t (concat (h ++ [cs]))) = Done d'.
Proof.
  intros Hne Hn Hv Hh Hp Ht Hu.
  rewrite concat_app in Hv |- *. cbn [concat] in Hv |- *. rewrite app_nil_r in Hv |- *.
  apply valid_hist_app in Hv as [Hv1 Hv2]. rewrite final_text_app.
  destruct (new_doc_inv t d0 Hn) as [Ht0 Hi0]. rewrite <- Ht0 in Hv1.
  destruct (update_hist_text_tokens h d0 d1 Hi0 Hv1 Hh) as [A B]. rewrite Ht0 in A.
  rewrite <- A in Hv2 |- *. exact (update_doc_is_new_doc d1 cs pd d' Hne B Hv2 Hp Ht Hu).
Qed.

(* the same statement with the intermediate tree quantified existentially *)
Corollary hist_partial_document_ex t h cs d0 d1 d' :
  cs <> [] -> new_doc t = Done d0 -> valid_hist t (concat (h ++ [cs])) ->
  update_hist d0 h = Done d1 -> update_doc d1 cs = Done d' ->
  (forall pd, psteps (pdoc_of d1) cs = Done pd -> parse (p_toks pd) = Done (p_tree pd)) ->
  new_doc (final_text t (concat (h ++ [cs]))) = Done d'.
Proof.
  intros Hne Hn Hv Hh Hu Hall. destruct (update_doc_exposes d1 cs d' Hne Hu) as [pd [Hp _]].
  exact (hist_partial_document t h cs d0 d1 pd d' Hne Hn Hv Hh Hp (Hall pd Hp) Hu).
Qed.

(* ------------------------------------------------------------------------------------------ *)
(* no stale messages at document level: after a notification with at least one change the tree
   handed to table::build carries parse errors only, although the notification started from the
   analysed tree *)
Lemma psteps_parse_only : forall cs pd pd',
  cs <> [] -> psteps pd cs = Done pd' -> parse_only (p_tree pd').
Proof.
  induction cs as [|c r IH]; intros pd pd' Hne H; [contradiction|]. cbn [psteps] in H.
  destruct (pstep pd (c_a c) (c_d c) (c_b c) (c_ins c)) as [pd1| |] eqn:E; try discriminate.
  destruct r as [|c2 r2].
  - cbn [psteps] in H. injection H as <-. unfold pstep in E.
    destruct (lex_update _ _ _ _ _) as [toks ws we n| |]; try discriminate.
    destruct (parse_update (p_tree pd) toks ws we n) as [p| |] eqn:Ep; try discriminate.
    injection E as <-. cbn [p_tree]. exact (parse_update_parse_only _ _ _ _ _ _ Ep).
  - apply (IH pd1 pd'); [discriminate | exact H].
Qed.

Theorem update_doc_no_stale d cs d' :
  cs <> [] -> update_doc d cs = Done d' ->
  exists pd, psteps (pdoc_of d) cs = Done pd /\ parse_only (p_tree pd) /\ analyse_pdoc pd = Done d'.
Proof.
  intros Hne Hu. destruct (update_doc_exposes d cs d' Hne Hu) as [pd [Hp Ha]].
  exists pd. split; [exact Hp|]. split; [exact (psteps_parse_only cs _ pd Hne Hp) | exact Ha].
Qed.


(* ------------------------------------------------------------------------------------------ *)
(* what errors() can report from a tree that carries parse errors only: parse errors *)

Lemma perr_shift off e : perr e -> perr (shift_e off e).
Proof. exact (fun H => H). Qed.

Lemma Forall_shift_es off l : Forall perr l -> Forall perr (shift_es off l).
Proof. intros H. unfold shift_es. apply Forall_forall. intros x Hx. apply in_map_iff in Hx as [y [<- Hy]].
  apply perr_shift. exact (proj1 (Forall_forall _ _) H y Hy). Qed.

Lemma Forall_app2 {A} (P : A -> Prop) l l' : Forall P l -> Forall P l' -> Forall P (l ++ l').
Proof. intros H H'. apply Forall_app. split; assumption. Qed.

#[local] Hint Resolve Forall_app2 Forall_shift_es Forall_nil : perrs.

Lemma var_expr_errors_po :
  (forall v, po_var v -> Forall perr (var_errors v)) /\ (forall e, po_expr e -> Forall perr (expr_errors e)).
Proof.
  apply var_expr_induction; cbn [var_errors expr_errors po_var po_expr]; unfold ident_errors, po_ident, po_intlit, po_info.
  - auto.
  - intros a idx inf IHa IHi (H1 & H2 & H3). destruct idx as [[e o]|]; cbn in *; intuition auto with perrs.
  - intros op l r inf IHl IHr (H1 & H2 & H3). auto with perrs.
  - intros a inf IH (H1 & H2). auto with perrs.
  - auto.
  - intros op a inf IH (H1 & H2). auto with perrs.
  - auto.
  - auto.
Qed.

Lemma opt_expr_errors_po e : po_opt (po_ref po_expr) e -> Forall perr (opt_expr_errors e).
Proof. destruct e as [[x o]|]; cbn; [|constructor]. intros [H _]. apply Forall_shift_es, var_expr_errors_po, H. Qed.

Lemma texpr_errors_po t : po_texpr t -> Forall perr (texpr_errors t).
Proof.
  induction t as [i | size base inf IH] using texpr_induction; cbn [texpr_errors po_texpr]; unfold ident_errors, po_ident, po_info.
  - auto.
  - intros (H1 & H2 & H3). destruct base as [[b o]|]; cbn in *; intuition auto with perrs.
Qed.

Lemma opt_texpr_errors_po t : po_opt (po_ref po_texpr) t -> Forall perr (opt_texpr_errors t).
Proof. destruct t as [[x o]|]; cbn; [|constructor]. intros [H _]. apply Forall_shift_es, texpr_errors_po, H. Qed.

Lemma opt_ident_errors_po n : po_opt po_ident n -> Forall perr (opt_ident_errors n).
Proof. destruct n; cbn; [exact (fun H => H) | constructor]. Qed.

Lemma flat_map_errors_po {A} (P : A -> Prop) (f : A -> list err) (l : list (A * nat)) :
  (forall x, P x -> Forall perr (f x)) -> all (po_ref P) l ->
  Forall perr (flat_map (fun x => shift_es (snd x) (f (fst x))) l).
Proof.
  intros Hf. induction l as [|x l IH]; cbn [all flat_map]; [constructor|]. intros [[Hx _] Hl].
  apply Forall_app2; [apply Forall_shift_es, Hf, Hx | apply IH, Hl].
Qed.

Lemma stmt_errors_po s : po_stmt s -> Forall perr (stmt_errors s).
Proof.
  induction s as [inf | v e inf | name args inf | c t e inf IHt IHe | c b inf IHb | body inf IH | inf] using stmt_induction.
  - exact (fun H => H).
  - cbn [stmt_errors po_stmt]. intros (H1 & H2 & H3).
    repeat apply Forall_app2; [exact H3 | apply var_expr_errors_po, H1 | apply opt_expr_errors_po, H2].
  - cbn [stmt_errors po_stmt]. intros (H1 & H2 & H3).
    repeat apply Forall_app2; [exact H3 | exact H1 |]. apply (flat_map_errors_po po_expr expr_errors); [apply var_expr_errors_po | exact H2].
  - intros H. apply po_stmt_if in H. destruct H as (H1 & H2 & H3 & H4). cbn [stmt_errors].
    repeat apply Forall_app2; [exact H4 | apply opt_expr_errors_po, H1 | |].
    + destruct t as [[x o]|]; cbn in *; [apply Forall_shift_es, IHt, H2 | constructor].
    + destruct e as [[x o]|]; cbn in *; [apply Forall_shift_es, IHe, H3 | constructor].
  - intros H. apply po_stmt_while in H. destruct H as (H1 & H2 & H3). cbn [stmt_errors].
    repeat apply Forall_app2; [exact H3 | apply opt_expr_errors_po, H1 |].
    destruct b as [[x o]|]; cbn in *; [apply Forall_shift_es, IHb, H2 | constructor].
  - intros H. apply po_stmt_block in H. destruct H as (H1 & H2). cbn [stmt_errors].
    apply Forall_app2; [exact H2|]. clear H2. induction body as [|[x o] r IHr]; [constructor|].
    cbn [all fst] in *. destruct IH as [IHx IHl]. destruct H1 as [[Hx _] Hl].
    apply Forall_app2; [apply Forall_shift_es, IHx, Hx | apply IHr; assumption].
  - exact (fun H => H).
Qed.

Lemma vardecl_errors_po v : po_vardecl v -> Forall perr (vardecl_errors v).
Proof.
  destruct v as [doc name ty inf|inf]; cbn [po_vardecl vardecl_errors]; [|exact (fun H => H)].
  intros (H1 & H2 & H3). repeat apply Forall_app2; [exact H3 | apply opt_ident_errors_po, H1 | apply opt_texpr_errors_po, H2].
Qed.

Lemma paramdecl_errors_po p : po_paramdecl p -> Forall perr (paramdecl_errors p).
Proof.
  destruct p as [doc r name ty inf|inf]; cbn [po_paramdecl paramdecl_errors]; [|exact (fun H => H)].
  intros (H1 & H2 & H3). repeat apply Forall_app2; [exact H3 | apply opt_ident_errors_po, H1 | apply opt_texpr_errors_po, H2].
Qed.

Lemma gdecl_errors_po g : po_gdecl g -> Forall perr (gdecl_errors g).
Proof.
  destruct g as [d|d|inf]; cbn [po_gdecl gdecl_errors]; [| |exact (fun H => H)].
  - intros (H1 & H2 & H3). unfold typedecl_errors.
    repeat apply Forall_app2; [exact H3 | apply opt_ident_errors_po, H1 | apply opt_texpr_errors_po, H2].
  - intros (H1 & H2 & H3 & H4 & H5). unfold procdecl_errors.
    repeat apply Forall_app2; [exact H5 | apply opt_ident_errors_po, H1 | | |].
    + apply (flat_map_errors_po po_paramdecl paramdecl_errors); [apply paramdecl_errors_po | exact H2].
    + apply (flat_map_errors_po po_vardecl vardecl_errors); [apply vardecl_errors_po | exact H3].
    + apply (flat_map_errors_po po_stmt stmt_errors); [apply stmt_errors_po | exact H4].
Qed.

Theorem tree_errors_parse_only p : parse_only p -> Forall perr (tree_errors p).
Proof.
  intros [H1 H2]. unfold tree_errors. apply Forall_app2; [exact H2|].
  apply (flat_map_errors_po po_gdecl gdecl_errors); [apply gdecl_errors_po | exact H1].
Qed.

(* every diagnostic the tree of parser::update reports is a parse error *)
Corollary parse_update_errors old toks ws we n p :
  parse_update old toks ws we n = Done p -> forall e, In e (tree_errors p) -> exists m, e_m e = EParse m.
Proof.
  intros H e He. apply perr_iff. apply parse_update_parse_only, tree_errors_parse_only in H.
  exact (proj1 (Forall_forall _ _) H e He).
Qed.

(* ------------------------------------------------------------------------------------------ *)
(* the scratch parser returns parse errors only (through the incremental model without old tree) *)
Theorem parse_parse_only toks p : parse toks = Done p -> parse_only p.
Proof. rewrite <- parse_via_inc_is_parse. apply parse_via_inc_parse_only. Qed.

(* DESIGN "rebuild_irrelevant" in the form that is true: remove_messages is the identity on both the
   updated and the scratch tree, so comparing them up to build/semantic messages is comparing them *)
Theorem rebuild_irrelevant old toks ws we n p q :
  parse_update old toks ws we n = Done p -> parse toks = Done q ->
  strip_program p = strip_program q -> p = q.
Proof.
  intros Hp Hq E. apply parse_update_parse_only, strip_program_id in Hp. apply parse_parse_only, strip_program_id in Hq.
  rewrite <- Hp, <- Hq. exact E.
Qed.

(* hence: one notification with at least one change, trees compared up to build/semantic messages *)
Corollary update_doc_is_new_doc_strip d cs pd q d' :
  cs <> [] -> DocInv d -> valid_hist (d_text d) cs ->
  psteps (pdoc_of d) cs = Done pd -> parse (p_toks pd) = Done q -> strip_program (p_tree pd) = strip_program q ->
  update_doc d cs = Done d' ->
  new_doc (final_text (d_text d) cs) = Done d'.
Proof.
  intros Hne Hi Hv Hp Hq E Hu. apply (update_doc_is_new_doc d cs pd d' Hne Hi Hv Hp); [|exact Hu].
  rewrite Hq. f_equal. symmetry.
  pose proof (psteps_parse_only cs _ pd Hne Hp) as H1. pose proof (parse_parse_only _ _ Hq) as H2.
  rewrite <- (strip_program_id _ H1), <- (strip_program_id _ H2). exact E.
Qed.

(* ------------------------------------------------------------------------------------------ *)
(* a notification with an EMPTY change list (legal in LSP) leaves the document untouched.  Until /repo's
   fix "an update without changes returns the document as it is" it re-ran build/analyze on the analysed
   tree, which nothing had stripped: every build and semantic diagnostic was reported once more per empty
   notification (found by this development: the statement `update_doc d [] = analyse (pdoc_of d)` was a
   reflexivity lemma here).  Witness kept as an example: `proc main(){x:=1;}` keeps its ONE diagnostic. *)
Definition w_nil : text :=
  [112; 114; 111; 99; 32; 109; 97; 105; 110; 40; 41; 123; 120; 58; 61; 49; 59; 125]%N.

Definition nil_check : bool :=
  match new_doc w_nil with
  | Done d0 =>
      match update_doc d0 [] with
      | Done d1 =>
          match doc_errors d0, doc_errors d1 with
          | Done e0, Done e1 => Nat.eqb (length e0) 1 && Nat.eqb (length e1) 1
          | _, _ => false
          end
      | _ => false
      end
  | _ => false
  end.

Lemma nil_check_true : nil_check = true.
Proof. vm_compute. reflexivity. Qed.

Theorem empty_notification_is_identity d : update_doc d [] = Done d.
Proof. reflexivity. Qed.
