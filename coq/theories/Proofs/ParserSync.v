(* T5 (C05 synchronisation): the global declarations of a parsed program tile the token indices in
   front of the trailing comments + Eof; Type/Procedure declarations start (after comments) at
   their keyword; and no proc/type/Eof token lies inside a declaration's span except as that
   first significant token.  Consequently the Type/Procedure declarations are in one-to-one,
   order-preserving correspondence with the `type`/`proc` tokens of the document. *)
From Coq Require Import Arith Lia List.
From Spl Require Import Model.Parser Proofs.ParserComb Proofs.ParserEqns Proofs.ParserFwd
  Proofs.ParserDecl Proofs.ParserTotal.
Local Open Scope nat_scope.

Section Sync.
Variable toks : list token.
Notation N := (length toks).

(* [Spans a l b]: the declarations l, in order, occupy consecutive token spans from a to b:
   declaration i starts at its offset and is [i_e (info)] tokens long (ranges are relative to the
   declaration's own Reference, hence i_s = 0), is never empty, and has the shape [decl_span] *)
Fixpoint Spans (a : nat) (l : list (gdecl * nat)) (b : nat) : Prop :=
  match l with
  | [] => a = b
  | (g, off) :: r =>
      off = a /\ i_s (gdecl_info g) = 0 /\ 0 < i_e (gdecl_info g) /\
      decl_span toks g a (a + i_e (gdecl_info g)) /\
      Spans (a + i_e (gdecl_info g)) r b
  end.

Lemma many0_spans fuel fuel' s s' l :
  pos s <= N -> refp s = 0 ->
  p_many0 fuel (p_ref (p_gdecl toks fuel')) s = POk s' l ->
  Spans (pos s) l (pos s') /\ refp s' = 0 /\ ebuf s' = ebuf s.
Proof.
  revert s l. induction fuel as [|f IH]; intros s l Hs Hr; cbn [p_many0]; [discriminate|].
  destruct (p_ref (p_gdecl toks fuel') s) as [s1 [g off]|e1|] eqn:E; [| |discriminate].
  2:{ intros [= <- <-]. cbn. auto. }
  destruct (Nat.eqb (pos s1) (pos s)); [discriminate|]. intros H.
  apply bind_ok in H as (s2 & l2 & H & [= -> <-]).
  apply ref_gdecl_shape in E as (A0 & A1 & A2 & A3 & A4 & A5 & A6 & A7); [|exact Hs].
  apply IH in H as (B1 & B2 & B3); [|exact A2|congruence].
  cbn [Spans]. rewrite A6. replace (pos s + (pos s1 - pos s)) with (pos s1) by lia.
  repeat split; try assumption; try lia; congruence.
Qed.

Lemma Spans_le a l b : Spans a l b -> a <= b.
Proof.
  revert a. induction l as [|[g off] l IH]; intros a; cbn [Spans]; [lia|].
  intros (_ & _ & _ & _ & H). apply IH in H. lia.
Qed.

(* [Spans] spelled out per declaration: declaration i occupies [off, off + i_e), has the shape
   [decl_span], the next declaration starts exactly where it ends (the last one ends at b), and the
   first one starts at a *)
Lemma Spans_nth l : forall a b i g off,
  Spans a l b -> nth_error l i = Some (g, off) ->
  a <= off /\ off + i_e (gdecl_info g) <= b /\ 0 < i_e (gdecl_info g) /\ i_s (gdecl_info g) = 0 /\
  decl_span toks g off (off + i_e (gdecl_info g)) /\
  match nth_error l (S i) with
  | Some (_, off') => off' = off + i_e (gdecl_info g)
  | None => off + i_e (gdecl_info g) = b
  end /\
  (i = 0 -> off = a).
Proof.
  induction l as [|[g0 off0] l IH]; intros a b i g off Hsp Hn; [destruct i; discriminate|].
  cbn [Spans] in Hsp. destruct Hsp as (-> & Hs0 & Hpos & Hd & Hr). pose proof (Spans_le _ _ _ Hr) as Hle.
  destruct i as [|i]; cbn [nth_error] in *.
  - injection Hn as -> ->. repeat split; try lia; try assumption.
    destruct l as [|[g1 off1] l]; cbn [nth_error Spans] in *; [lia|]. now destruct Hr as (-> & _).
  - destruct (IH _ _ i g off Hr Hn) as (A & B & C & D & E & F & _).
    repeat split; try assumption; try lia.
Qed.

(* T5, as a statement about p_program *)
Theorem program_sync fuel s s' prog :
  EofLast toks -> pos s = 0 -> refp s = 0 ->
  p_program toks fuel s = POk s' prog ->
  Spans 0 (pg_decls prog) (i_e (pg_info prog)) /\
  i_s (pg_info prog) = 0 /\
  sig_at toks (i_e (pg_info prog)) = N - 1 /\
  pos s' = N.
Proof.
  intros HE Hp Hr H. pose proof (N_pos toks HE) as HN.
  unfold p_program in H. apply p_map_ok in H as (r & H & ->). cbn [pg_decls pg_info].
  apply p_pair_ok in H as (s1 & H1 & H2).
  apply p_info_ok in H1 as (s2 & H1 & -> & Hinf). rewrite Hinf. cbn [i_s i_e]. rewrite Hp, Hr, !Nat.sub_0_r.
  pose proof H1 as H1'.
  apply many0_spans in H1 as (B1 & B2 & B3); [| cbn [pos set_ebuf]; lia | exact Hr].
  cbn [pos set_ebuf] in B1. rewrite Hp in B1.
  pose proof (many0_gdecl_lt toks HE _ _ (set_ebuf s []) _ _ ltac:(cbn [pos set_ebuf]; lia) H1') as Hlt.
  apply many0_ok_stop in H1' as [e1 H1']. apply p_ref_err in H1' as (s3 & H1' & _).
  apply (gdecl_err_eof toks HE) in H1' as (t & Ht & Hk); [|exact Hlt]. cbn [pos set_refp] in Ht.
  pose proof (eof_only_last toks HE _ _ Ht Hk) as Hl.
  rewrite (eof_all_ok toks HE (set_ebuf s2 (ebuf s)) t Ht Hk) in H2. injection H2 as <- _.
  repeat split; try assumption. cbn [pos adv set_ebuf]. lia.
Qed.

End Sync.

Theorem parse_sync toks prog :
  EofLast toks -> parse toks = Done prog ->
  Spans toks 0 (pg_decls prog) (i_e (pg_info prog)) /\
  i_s (pg_info prog) = 0 /\
  sig_at toks (i_e (pg_info prog)) = length toks - 1.
Proof.
  intros HE. unfold parse.
  destruct (p_program toks (parse_fuel toks) {| pos := 0; refp := 0; ebuf := [] |}) as [s p|e|] eqn:E;
    try discriminate.
  intros [= <-]. apply program_sync in E as (A & B & C & _); auto.
Qed.

(* ------------------------------------------------------------------------------------------ *)
(* readable consequences of [Spans] *)
Section Consequences.
Variable toks : list token.
Notation N := (length toks).

Definition is_declkw (k : kind) : bool := match k with KProc | KType => true | _ => false end.

(* the `proc`/`type` tokens among the token indices a, a+1, ..., a+n-1, with their positions *)
Definition kw_in (a n : nat) : list (nat * kind) :=
  flat_map (fun i => match nth_error toks i with
                     | Some t => if is_declkw (tk t) then [(i, tk t)] else []
                     | None => [] end) (seq a n).

(* the keyword positions claimed by the Type/Procedure declarations of a program *)
Definition decl_heads (l : list (gdecl * nat)) : list (nat * kind) :=
  flat_map (fun go => match fst go with
                      | GType _ => [(sig_at toks (snd go), KType)]
                      | GProc _ => [(sig_at toks (snd go), KProc)]
                      | GError _ => [] end) l.

Lemma kw_in_app a n m : kw_in a (n + m) = kw_in a n ++ kw_in (a + n) m.
Proof. unfold kw_in. now rewrite seq_app, flat_map_app. Qed.

Lemma kw_in_split a b c : a <= b <= c -> kw_in a (c - a) = kw_in a (b - a) ++ kw_in b (c - b).
Proof.
  intros H. replace (c - a) with ((b - a) + (c - b)) by lia. rewrite kw_in_app.
  now replace (a + (b - a)) with b by lia.
Qed.

Lemma flat_map_nil {A B} (f : A -> list B) l : (forall x, In x l -> f x = []) -> flat_map f l = [].
Proof.
  induction l as [|x l IH]; cbn [flat_map]; [reflexivity|]. intros H.
  rewrite H by now left. apply IH. intros y Hy. apply H. now right.
Qed.

Lemma kw_in_nil a b :
  (forall i t, a <= i < b -> nth_error toks i = Some t -> is_declkw (tk t) = false) -> kw_in a (b - a) = [].
Proof.
  intros H. unfold kw_in. apply flat_map_nil.
  intros i Hi. apply in_seq in Hi. destruct (nth_error toks i) as [t|] eqn:E; [|reflexivity].
  rewrite (H i t) by (try exact E; lia). reflexivity.
Qed.

Lemma kw_in_skips a b : Skips toks sync_full a b -> kw_in a (b - a) = [].
Proof.
  intros Hsk. apply kw_in_nil. intros i t Hi E. specialize (Hsk i Hi t E).
  destruct (tk t); try reflexivity; discriminate Hsk.
Qed.

Lemma kw_in_one h t : nth_error toks h = Some t -> is_declkw (tk t) = true -> kw_in h 1 = [(h, tk t)].
Proof. intros Ht Hk. unfold kw_in. cbn [seq flat_map]. now rewrite Ht, Hk. Qed.

Lemma kw_in_head k a b : is_declkw k = true -> head_at toks k a b -> kw_in a (b - a) = [(sig_at toks a, k)].
Proof.
  intros Hk (t & Ht & <- & Hlt & Hsk). pose proof (sig_at_ge toks a) as Hge.
  rewrite (kw_in_split a (sig_at toks a) b) by lia.
  rewrite kw_in_skips by (apply Skips_comments; [apply Hc, sync_full_ok | lia]).
  rewrite (kw_in_split (sig_at toks a) (S (sig_at toks a)) b) by lia.
  replace (S (sig_at toks a) - sig_at toks a) with 1 by lia.
  rewrite (kw_in_one _ t Ht Hk), (kw_in_skips _ _ Hsk). reflexivity.
Qed.

Lemma Spans_heads a l b : Spans toks a l b -> kw_in a (b - a) = decl_heads l.
Proof.
  revert a. induction l as [|[g off] l IH]; intros a; cbn [Spans decl_heads flat_map].
  - intros <-. now rewrite Nat.sub_diag.
  - intros (-> & _ & Hpos & Hsp & Hr). pose proof (Spans_le _ _ _ _ Hr) as Hle.
    rewrite (kw_in_split a (a + i_e (gdecl_info g)) b) by lia. rewrite (IH _ Hr). f_equal.
    cbn [fst snd]. destruct g; cbn [decl_span] in Hsp.
    + now apply kw_in_head.
    + now apply kw_in_head.
    + destruct Hsp as (_ & Hsk & _). now apply kw_in_skips.
Qed.

(* the Type/Procedure declarations of a parsed program correspond one to one, in order, to the
   `type`/`proc` tokens of the document, each starting (after its comments) at its keyword *)
Theorem parse_heads prog :
  EofLast toks -> parse toks = Done prog -> decl_heads (pg_decls prog) = kw_in 0 N.
Proof.
  intros HE H. apply parse_sync in H as (Hsp & _ & Hsig); [|exact HE].
  pose proof (N_pos toks HE). pose proof (sig_at_ge toks (i_e (pg_info prog))) as Hge.
  replace N with (N - 0) at 1 by lia.
  rewrite (kw_in_split 0 (i_e (pg_info prog)) N) by lia.
  rewrite (Spans_heads _ _ _ Hsp). rewrite kw_in_nil; [now rewrite app_nil_r|].
  intros i t Hi Ht. destruct (Nat.eq_dec i (N - 1)) as [->|Hne].
  - destruct (eof_at_last toks HE) as (e & He & Hk). rewrite He in Ht. injection Ht as <-. now rewrite Hk.
  - destruct (sig_at_comment toks (i_e (pg_info prog)) i) as (t' & Ht' & Hc'); [lia|].
    rewrite Ht in Ht'. injection Ht' as <-. destruct (tk t); try reflexivity; discriminate Hc'.
Qed.

End Consequences.
