(* C16 - a second concrete valid program for the non-vacuity examples of Props/C16.v, with comments, an
   `if` / `else` and a `while` whose branches are not blocks, an index expression with parentheses on the
   left of `:=`, and a call:

     type v = array [2] of int;
     proc p(ref a: v, n: int) { var i: //t
     int; //c
     i := n; if (i < 2) a[(i)] := i; else p(a, i); while (i < 2) i := i + 1; //d
     }
     proc main() { }

   its abstract program [fx_p], its table [fx_table], [fx_well_typed], the layout [fx_text] ([fx_layout]). *)
From Coq Require Import String NArith List.
From Spl Require Import Proofs.GrammarProofs Spec.Typing Proofs.TypingProofs Model.Completion Proofs.ComplValidEx.
Import ListNotations.
Open Scope N_scope.

Definition fx_cmt_t : cs := [[116]].
Definition fx_cmt_c : cs := [[99]].
Definition fx_cmt_d : cs := [[100]].
Definition fx_lt2 : acmp := CBin (AMul (MFac (FVar (cx_nm sx_i)))) cx0 CLt (AMul (MFac (cx_lit 2))).

(* //c LF i := n; *)
Definition fx_s1 : astmt := SAsg (AName fx_cmt_c sx_i) cx0 (cx_ef (FVar (cx_nm sx_n))) cx0.
(* a[(i)] := i; *)
Definition fx_then : astmt :=
  SAsg (AIndex (cx_nm sx_a) cx0 (cx_ef (FPar cx0 (cx_ef (FVar (cx_nm sx_i))) cx0)) cx0) cx0 (cx_ef (FVar (cx_nm sx_i))) cx0.
(* p(a, i); *)
Definition fx_else : astmt :=
  SCal cx0 sx_p cx0 (Some (cx_ef (FVar (cx_nm sx_a)), [(cx0, cx_ef (FVar (cx_nm sx_i)))])) cx0 cx0.
Definition fx_if : astmt := SIfE cx0 cx0 fx_lt2 cx0 fx_then cx0 fx_else.
(* i := i + 1; *)
Definition fx_body : astmt := SAsg (cx_nm sx_i) cx0 (CAdd (ABin (AMul (MFac (FVar (cx_nm sx_i)))) cx0 APlus (MFac (cx_lit 1)))) cx0.
Definition fx_while : astmt := SWhl cx0 cx0 fx_lt2 cx0 fx_body.

Definition fx_var : avardecl := {| v_c1 := cx0; v_c2 := cx0; v_x := sx_i; v_c3 := cx0; v_t := TName fx_cmt_t s_int; v_c4 := cx0 |}.

Definition fx_proc : adecl :=
  DProc cx0 cx0 sx_p cx0 cx_params cx0 cx0 [fx_var] (SCons fx_s1 (SCons fx_if (SCons fx_while SNil))) fx_cmt_d.

Definition fx_p : aprog := {| a_decls := [cx_type; fx_proc; cx_main]; a_ceof := cx0 |}.

Definition fx_tree : program := Eval vm_compute in expected fx_p.
Definition fx_table : gtable :=
  Eval vm_compute in match build_res fx_tree with ROk (_, g) => g | RFail _ => [] end.

Definition fx_text : text :=
  (str "type v = array [2] of int;" ++ [10]
   ++ str "proc p(ref a: v, n: int) { var i: //t" ++ [10]
   ++ str "int; //c" ++ [10]
   ++ str "i := n; if (i < 2) a[(i)] := i; else p(a, i); while (i < 2) i := i + 1; //d" ++ [10]
   ++ str "}" ++ [10]
   ++ str "proc main() { }")%list.

Ltac fx_args :=
  lazymatch goal with
  | |- Forall2 _ [] _ => apply Forall2_nil
  | |- Forall2 _ (_ :: _) _ =>
      apply Forall2_cons;
      [eapply Arg_ok; [cx_ty | reflexivity | first [intros _; eexists; reflexivity | intros H; discriminate H]] | fx_args]
  end.
Ltac fx_st :=
  lazymatch goal with
  | |- wt_stmt _ _ (SEmpty _) => apply WT_empty
  | |- wt_stmt _ _ (SAssign _ _ _) => apply WT_assign; cx_ty
  | |- wt_stmt _ _ (SCall _ _ _) => eapply WT_call; [cx_binds | cbn [pe_params]; fx_args]
  | |- wt_stmt _ _ (SIf _ _ None _) => apply WT_if; [cx_ty | fx_st]
  | |- wt_stmt _ _ (SIf _ _ (Some _) _) => apply WT_if_else; [cx_ty | fx_st | fx_st]
  | |- wt_stmt _ _ (SWhile _ _ _) => apply WT_while; [cx_ty | fx_st]
  | |- wt_stmt _ _ (SBlock _ _) => apply WT_block; fx_st
  | |- wt_stmts _ _ [] => apply WT_nil
  | |- wt_stmts _ _ (_ :: _) => apply WT_cons; [fx_st | fx_st]
  end.

Lemma fx_well_typed : well_typed (expected fx_p) fx_table.
Proof.
  change (expected fx_p) with fx_tree. split.
  - unfold wf_program. eexists. split; [unfold fx_tree; cbn [pg_decls]; cx_decls|].
    split; [vm_compute; reflexivity|]. eexists. split; vm_compute; reflexivity.
  - unfold wt_bodies, fx_tree. cbn [pg_decls].
    repeat (apply Forall_cons; [split; [unfold has_entry; cbn [fst pd_name]; try exact I; vm_compute; discriminate|]|]);
      [| | |apply Forall_nil].
    + exact I.
    + unfold wt_body. cbn [fst snd]. intros pe [name [Hn [Hl _]]]. injection Hn as <-. vm_compute in Hl. injection Hl as <-.
      cbn [pe_local pd_stmts]. fx_st.
    + unfold wt_body. cbn [fst snd]. intros pe [name [Hn [Hl _]]]. injection Hn as <-. vm_compute in Hl. injection Hl as <-.
      cbn [pe_local pd_stmts]. fx_st.
Qed.

Lemma fx_layout :
  prog_ok fx_p = true /\
  match lex fx_text with Some toks => map tk toks = flatten fx_p ++ [Eof] | None => False end.
Proof. vm_compute. split; reflexivity. Qed.
