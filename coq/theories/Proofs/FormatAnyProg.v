(* C09 for comments ANYWHERE, part 2: variable declarations and parameters (all comments of the declaration's token
   range are printed in front of it), type and procedure declarations (doc comments only), the program (nothing of the
   comments in front of EOF).  [fmt_program_pp]: whatever the comment slots hold, the printer run on the mandated tree
   returns [pp_prog f p] and does not panic. *)
From Coq Require Import String Lia PeanoNat.
From Spl Require Import Model.Format Model.Lexer Spec.Grammar Proofs.RenderProofs Proofs.FormatProofs
  Proofs.FormatStructText Proofs.FormatStructTok Proofs.FormatStructExpr Proofs.FormatStructStmt Proofs.FormatStructProg
  Proofs.FormatAnyPP.
Import ListNotations.
Local Open Scope nat_scope.

Definition pp_vardecl (v : avardecl) : text :=
  lead_text (cmts (fl_vardecl v)) ++ sh KVar ++ [32%N] ++ v_x v ++ sh Colon ++ [32%N] ++ pp_type (v_t v) ++ sh Semic ++ [10%N].

Definition pp_param (p : aparam) : text :=
  lead_text (cmts (fl_param p)) ++
  match p with
  | PVal _ x _ t => x ++ sh Colon ++ [32%N] ++ pp_type t
  | PRef _ _ x _ t => sh KRef ++ [32%N] ++ x ++ sh Colon ++ [32%N] ++ pp_type t
  end.

Lemma vardecl_pp v toks off : At toks off (fl_vardecl v) -> vardecl_fn toks (x_vardecl v, off) = FOk (pp_vardecl v).
Proof.
  intros H. unfold vardecl_fn. cbn [fst snd].
  match goal with |- context [with_from off toks ?K] =>
    destruct (with_from_At toks off 0 (fl_vardecl v) K) as [E A0]; [at_solve|]; rewrite E end.
  clear E H. pose proof A0 as H0. destruct v as [c1 c2 x c3 t c4]. unfold fl_vardecl in A0. cbn [v_c1 v_c2 v_x v_c3 v_t v_c4] in A0.
  unfold x_vardecl, x_ident, pp_vardecl. cbn [v_c1 v_c2 v_x v_c3 v_t v_c4].
  rewrite fmt_vardecl_eq. cbn [id_val vardecl_info]. at_split.
  rewrite (ref_type_pp t (skipn off toks) (length c1 + 1 + length c2 + 1 + length c3 + 1)) by at_solve. cbn [fbind].
  rewrite (finish_all_any _ 0 _ _ _ H0 eq_refl). reflexivity.
Qed.

Lemma vardecls_pp l : forall toks o, At toks o (flat_map fl_vardecl l) -> fmt_vardecls (x_vardecls o l) toks = FOk (flat_map pp_vardecl l).
Proof.
  induction l as [|v r IH]; intros toks o H; [reflexivity|].
  cbn [flat_map] in H. at_split. cbn [x_vardecls flat_map]. rewrite fmt_vardecls_cons.
  rewrite (vardecl_pp v toks o) by at_solve. cbn [fbind].
  rewrite (IH toks (o + length (fl_vardecl v))) by at_solve. reflexivity.
Qed.

Lemma param_pp toks p off : At toks off (fl_param p) -> param_fn toks (x_param p, off) = FOk (pp_param p).
Proof.
  intros H. unfold param_fn. cbn [fst snd].
  match goal with |- context [with_from off toks ?K] =>
    destruct (with_from_At toks off 0 (fl_param p) K) as [E A0]; [at_solve|]; rewrite E end.
  clear E H. pose proof A0 as H0. destruct p as [c x cc t|cr c x cc t]; cbn [fl_param] in A0; cbn [x_param]; unfold x_ident, pp_param.
  - rewrite fmt_paramdecl_val. cbn [id_val paramdecl_info]. at_split.
    rewrite (ref_type_pp t (skipn off toks) (length c + 1 + length cc + 1)) by at_solve. cbn [fbind].
    rewrite (finish_all_any _ 0 _ _ _ H0 eq_refl). reflexivity.
  - rewrite fmt_paramdecl_ref. cbn [id_val paramdecl_info]. at_split.
    rewrite (ref_type_pp t (skipn off toks) (length cr + 1 + length c + 1 + length cc + 1)) by at_solve. cbn [fbind].
    rewrite (finish_all_any _ 0 _ _ _ H0 eq_refl). reflexivity.
Qed.

Section ProgPP.
Variable f : fopts.

(* fn fmt_params: one line, or - more than three parameters, or a comment in one of them - one parameter per line *)
Definition params_text (l : list text) : text :=
  match l with
  | [] => []
  | _ => if Nat.ltb 3 (length l) || existsb contains_slashes l
         then [10%N] ++ indent (join (sh Comma ++ [10%N]) l) f
         else join (sh Comma ++ [32%N]) l
  end.

Definition pp_params (ps : aparams) : text := params_text (map pp_param (sep_list ps)).

Lemma params_pp ps toks o : At toks o (fl_sep fl_param ps) -> fmt_params f (x_sep fl_param x_param o ps) toks = FOk (pp_params ps).
Proof.
  intros H. rewrite fmt_params_eq.
  rewrite (sep_pp fl_param x_param toks (param_fn toks) pp_param (param_pp toks) ps o) by exact H.
  unfold pp_params, params_text. destruct (map pp_param (sep_list ps)) as [|a l]; [reflexivity|].
  destruct (Nat.ltb 3 (length (a :: l)) || existsb contains_slashes (a :: l)); reflexivity.
Qed.

Definition pp_decl (d : adecl) : text :=
  match d with
  | DType c1 _ x _ t _ =>
      lead_text c1 ++ sh KType ++ [32%N] ++ x ++ [32%N] ++ sh EqT ++ [32%N] ++ pp_type t ++ sh Semic ++ [10%N]
  | DProc c1 _ x _ ps _ _ vs b _ =>
      lead_text c1 ++ proc_text x (pp_params ps) (indent (flat_map pp_vardecl vs) f) (indent (pp_stmts f b) f)
  end.

Lemma decl_pp d toks off : At toks off (fl_decl d) -> decl_fn f toks (x_decl d, off) = FOk (pp_decl d).
Proof.
  intros H. unfold decl_fn. cbn [fst snd].
  match goal with |- context [with_from off toks ?K] =>
    destruct (with_from_At toks off 0 (fl_decl d) K) as [E A0]; [at_solve|]; rewrite E end.
  clear E H. pose proof A0 as H0.
  destruct d as [c1 c2 x c3 t c4|c1 c2 x c3 ps c4 c5 vs b c6]; cbn [fl_decl] in A0; cbn [x_decl fmt_gdecl pp_decl]; cbv zeta; unfold x_ident.
  - rewrite fmt_typedecl_eq. cbn [id_val]. at_split.
    rewrite (ref_type_pp t (skipn off toks) (length c1 + 1 + length c2 + 1 + length c3 + 1)) by at_solve. cbn [fbind].
    rewrite (finish_leading_any _ 0 _ c1 KType _ _ H0 eq_refl eq_refl). reflexivity.
  - rewrite fmt_procdecl_eq. cbn [id_val]. at_split.
    rewrite (params_pp ps (skipn off toks) (length c1 + 1 + length c2 + 1 + length c3 + 1)) by at_solve. cbn [fbind].
    rewrite (vardecls_pp vs (skipn off toks)
               (length c1 + 1 + length c2 + 1 + length c3 + 1 + length (fl_sep fl_param ps) + length c4 + 1 + length c5 + 1)) by at_solve.
    cbn [fbind].
    rewrite (stmts_pp_all f b (skipn off toks)
               (length c1 + 1 + length c2 + 1 + length c3 + 1 + length (fl_sep fl_param ps) + length c4 + 1 + length c5 + 1
                + length (flat_map fl_vardecl vs))) by at_solve.
    cbn [fbind]. rewrite (finish_leading_any _ 0 _ c1 KProc _ _ H0 eq_refl eq_refl). reflexivity.
Qed.

Definition pp_prog (p : aprog) : text := join [10%N] (map pp_decl (a_decls p)).

Lemma decls_pp l : forall toks o k, At toks o (flat_map fl_decl l) -> fmap (decl_fn f toks) (x_decls o l) k = k (map pp_decl l).
Proof.
  induction l as [|d r IH]; intros toks o k H; [reflexivity|].
  cbn [flat_map] in H. at_split. cbn [x_decls map]. rewrite fmap_cons, (decl_pp d toks o) by at_solve. cbn [fbind].
  apply (IH toks (o + length (fl_decl d))). at_solve.
Qed.

(* the printer is total on the mandated tree and a token vector with the program's kinds, and returns [pp_prog] *)
Theorem fmt_program_pp p toks : map tk toks = flatten p ++ [Eof] -> fmt_program f (expected p) toks = FOk (pp_prog p).
Proof.
  intros Hk. rewrite fmt_program_eq. unfold expected. cbn [pg_decls].
  apply (decls_pp (a_decls p) toks 0). unfold flatten in Hk. rewrite <- app_assoc in Hk. exact (At_whole toks _ _ Hk).
Qed.

End ProgPP.
