(* C04 - type expressions, comma-separated lists, statements. *)
From Coq Require Import List Lia Arith Bool.
From Spl Require Import Spec.Grammar Model.Parser Proofs.GrammarBase Proofs.GrammarExpr.
Import ListNotations.
Local Open Scope nat_scope.

Section Stmt.
Variable toks : list token.
Notation at_ := (at_ toks).

(* ---- type expressions ---- *)
Lemma p_texpr_S f s0 :
  p_texpr toks (S f) s0 =
  p_alt
    (p_map (fun r => let '((_, (_, (size, (_, (_, base))))), inf) := r in TArray size base inf)
       (p_info (p_pair (p_tag toks (is_k KArray))
               (p_pair (p_expect (p_tag toks (is_k LBracket)) (ExpectedToken s_lbracket))
               (p_pair (p_expect (p_intlit toks) (ExpectedToken s_intlit))
               (p_pair (p_expect (p_tag toks (is_k RBracket)) (MissingClosing 93%N))
               (p_pair (p_expect (p_tag toks (is_k KOf)) (ExpectedToken s_of))
                       (p_expect (p_ref (p_texpr toks f)) (ExpectedToken s_typeexpr)))))))))
    (p_map TNamed (p_ident toks)) s0.
Proof. reflexivity. Qed.

Definition TypeOK (t : atype) : Prop :=
  forall k r rest fuel, r <= k -> len (fl_type t) <= fuel -> at_ k (fl_type t ++ rest) ->
  p_texpr toks fuel (mk k r) = POk (mk (k + len (fl_type t)) r) (x_type (k - r) t).

Lemma type_ok t : TypeOK t.
Proof.
  induction t as [c x|ca cl cz size cr co base IH]; intros k r rest fuel Hr Hf H; cbn [fl_type] in H; flat_in H.
  - assert (Hl : len (fl_type (TName c x)) = len c + 1) by (lens; lia).
    destruct fuel as [|f]; [lia|]. rewrite p_texpr_S. comb.
    rewrite (p_tag_no toks (is_k KArray) k r _ _ _ H eq_refl eq_refl).
    rewrite (p_ident_at toks k r _ _ _ H Hr). cbn [x_type]. rewrite Hl. teq.
  - assert (Hl : len (fl_type (TArr ca cl cz size cr co base)) =
                 len ca + 1 + len cl + 1 + len cz + 1 + len cr + 1 + len co + 1 + len (fl_type base)) by (lens; lia).
    destruct fuel as [|f]; [lia|]. rewrite p_texpr_S. comb.
    destruct (p_tag_at toks (is_k KArray) k r _ _ _ H eq_refl) as (t1 & _ & E1). rewrite E1; ifs; norm.
    apply at_cm_cons in H.
    destruct (p_tag_at toks (is_k LBracket) _ r _ _ _ H eq_refl) as (t2 & _ & E2). rewrite E2; ifs; norm.
    apply at_cm_cons in H.
    rewrite (p_intlit_at toks _ r _ _ _ H) by lia. norm.
    apply at_cm_cons in H.
    destruct (p_tag_at toks (is_k RBracket) _ r _ _ _ H eq_refl) as (t4 & _ & E4). rewrite E4; ifs; norm.
    apply at_cm_cons in H.
    destruct (p_tag_at toks (is_k KOf) _ r _ _ _ H eq_refl) as (t5 & _ & E5). rewrite E5; ifs; norm.
    apply at_cm_cons in H.
    rewrite (IH _ _ rest f (le_n _)) by (lia || exact H). norm.
    rewrite Nat.sub_diag. cbn [x_type]. unfold mkinfo. rewrite Hl. teq.
Qed.


(* ---- statements: equation lemma ---- *)
Definition stmt_ref (f : nat) : parser (stmt * nat) := p_ref (p_stmt toks f).

Lemma p_stmt_S f s0 :
  p_stmt toks (S f) s0 =
      p_alt (p_map (fun ti => SEmpty (snd ti)) (p_info (p_tag toks (is_k Semic))))
      (p_alt
         (p_map (fun r => let '((_, (_, (c, (_, (t, e))))), inf) := r in
                          SIf c t (match e with Some x => x | None => None end) inf)
            (p_info (p_pair (p_tag toks (is_k KIf))
                    (p_pair (p_expect (p_tag toks (is_k LParen)) (MissingOpening 40%N))
                    (p_pair (p_expect (p_ref (p_expr toks f)) (ExpectedToken s_expression))
                    (p_pair (p_expect (p_tag toks (is_k RParen)) (MissingClosing 41%N))
                    (p_pair (p_expect (stmt_ref f) (ExpectedToken s_expression))
                            (p_opt (p_preceded (p_tag toks (is_k KElse))
                                      (p_expect (stmt_ref f) (ExpectedToken s_statement)))))))))))
      (p_alt
         (p_map (fun r => let '((_, (_, (c, (_, b)))), inf) := r in SWhile c b inf)
            (p_info (p_pair (p_tag toks (is_k KWhile))
                    (p_pair (p_expect (p_tag toks (is_k LParen)) (MissingOpening 40%N))
                    (p_pair (p_expect (p_ref (p_expr toks f)) (ExpectedToken s_expression))
                    (p_pair (p_expect (p_tag toks (is_k RParen)) (MissingClosing 41%N))
                            (p_expect (stmt_ref f) (ExpectedToken s_expression))))))))
      (p_alt
         (p_map (fun r => SBlock (fst (fst r)) (snd r))
            (p_info (p_preceded (p_tag toks (is_k LCurly))
                       (p_pair (p_many0 f (stmt_ref f))
                               (p_expect (p_tag toks (is_k RCurly)) (MissingClosing 125%N))))))
      (p_alt (p_call toks f)
      (p_alt (p_assign toks f)
         (p_restore
         (p_map (fun r => let '((_, ignored), inf) := r in
                          SError (info_append inf {| e_s := i_s inf; e_e := i_e inf;
                                                     e_m := EParse (UnexpectedCharacters (show_tokens ignored)) |}))
            (p_info (p_pair (p_comments toks) (p_ignore1 toks (la_stmt toks))))))))))) s0.
Proof. reflexivity. Qed.


(* ---- comma-separated lists (arguments, parameters) ---- *)
Definition follows_elem (kd : kind) : bool := is_k Comma kd || is_k RParen kd.

Section Sep.
Context {A B : Type} (fl : A -> list kind) (x : A -> B) (p : parser B) (N : nat).
Hypothesis elem_ok : forall a k rest, len (fl a) <= N -> at_ k (fl a ++ rest) -> fol follows_elem rest ->
  p (mk k k) = POk (mk (k + len (fl a)) k) (x a).

Definition tail_p : parser (B * nat) :=
  p_map (fun r => (fst (fst r), snd r + snd (fst r))) (p_ref (p_preceded (p_tag toks (is_k Comma)) (p_ref p))).

Lemma p_list_eq fuel s :
  p_list toks fuel p s =
  bind (p_ref p s) (fun s1 head => bind (p_many0 fuel tail_p s1) (fun s2 tail => POk s2 (head :: tail))).
Proof. reflexivity. Qed.

Lemma fol_tail l rest : fol (is_k RParen) rest -> fol follows_elem (fl_tail fl l ++ rest).
Proof.
  intros H. destruct l as [|[c a] l]; cbn [fl_tail flat_map fst snd app].
  - revert H. apply fol_weaken. intros kd Hk. unfold follows_elem. rewrite Hk. apply orb_true_r.
  - rewrite <- !app_assoc. cbn [app]. now apply fol_here.
Qed.

Lemma tail_len c a l : len (fl_tail fl ((c, a) :: l)) = len c + 1 + len (fl a) + len (fl_tail fl l).
Proof. unfold fl_tail. cbn [flat_map fst snd]. repeat (rewrite app_length || rewrite cm_length || cbn [length]). lia. Qed.

Lemma tail_steps l : forall k r rest, r <= k -> len (fl_tail fl l) <= N -> at_ k (fl_tail fl l ++ rest) ->
  fol (is_k RParen) rest ->
  steps tail_p (mk k r) (x_tail fl x (k - r) l) (mk (k + len (fl_tail fl l)) r).
Proof.
  induction l as [|[c a] l IH]; intros k r rest Hr HN H Hfol.
  - cbn [fl_tail flat_map length x_tail]. rewrite Nat.add_0_r. constructor.
  - rewrite tail_len in *. unfold fl_tail in H. cbn [flat_map fst snd] in H. flat_in H. fold (fl_tail fl l) in H.
    destruct (p_tag_at toks (is_k Comma) k k _ _ _ H eq_refl) as (t & _ & E).
    pose proof (at_cm_cons _ _ _ _ _ H) as H1.
    pose proof (elem_ok a _ _ ltac:(lia) H1 (fol_tail l rest Hfol)) as E2.
    cbn [x_tail]. eapply steps_cons with (s1 := mk (k + len c + 1 + len (fl a)) r).
    + unfold tail_p. comb. rewrite E; ifs; norm. rewrite E2; norm. teq.
    + cbn [pos]. lia.
    + apply at_app in H1. specialize (IH (k + len c + 1 + len (fl a)) r rest ltac:(lia) ltac:(lia) H1 Hfol).
      replace (k + len c + 1 + len (fl a) - r) with (k - r + len c + 1 + len (fl a)) in IH by lia.
      replace (k + (len c + 1 + len (fl a) + len (fl_tail fl l))) with (k + len c + 1 + len (fl a) + len (fl_tail fl l)) by lia.
      exact IH.
Qed.

Lemma tail_count l : len (x_tail fl x 0 l) = len l /\ forall o, len (x_tail fl x o l) = len l.
Proof. split; [generalize 0|]; induction l as [|[c a] l IH]; intros o; cbn [x_tail length]; auto. Qed.

Lemma list_ok a l k r rest fuel : r <= k -> len (fl_sep fl (Some (a, l))) <= N -> len l < fuel ->
  at_ k (fl_sep fl (Some (a, l)) ++ rest) -> fol (is_k RParen) rest ->
  p_list toks fuel p (mk k r) = POk (mk (k + len (fl_sep fl (Some (a, l)))) r) (x_sep fl x (k - r) (Some (a, l))).
Proof.
  intros Hr HN Hf H Hfol. cbn [fl_sep] in *. rewrite app_length in *. flat_in H.
  rewrite p_list_eq. comb.
  rewrite (elem_ok a k _ ltac:(lia) H (fol_tail l rest Hfol)). norm.
  apply at_app in H.
  pose proof (tail_steps l (k + len (fl a)) r rest ltac:(lia) ltac:(lia) H Hfol) as Hst.
  destruct Hfol as (c & kd & rest' & -> & Hs & Hk). apply at_app in H.
  assert (Ee : tail_p (mk (k + len (fl a) + len (fl_tail fl l)) r) = PErr (mk (k + len (fl a) + len (fl_tail fl l)) r)).
  { unfold tail_p. comb. rewrite (p_tag_no toks (is_k Comma) _ _ _ _ _ H Hs); [reflexivity|].
    destruct kd; try discriminate; reflexivity. }
  rewrite (many0_steps' _ _ _ _ _ fuel Hst Ee) by (now rewrite (proj2 (tail_count l))). norm.
  cbn [x_sep]. replace (k - r + len (fl a)) with (k + len (fl a) - r) by lia. teq.
Qed.

End Sep.


(* ---- arguments, calls, assignments ---- *)
Lemma follows_elem_cmp rest : fol follows_elem rest -> fol fol_cmp rest.
Proof. apply fol_weaken. intros kd H. destruct kd; try discriminate; reflexivity. Qed.

Lemma arg_ok f N : 6 * N + 6 <= f -> forall e k rest, len (fl_cmp e) <= N -> at_ k (fl_cmp e ++ rest) ->
  fol follows_elem rest -> p_argument toks f (mk k k) = POk (mk (k + len (fl_cmp e)) k) (x_cmp 0 e).
Proof.
  intros Hf e k rest HN H Hfol. unfold p_argument, p_expr. comb.
  rewrite (cmp_ok toks e k k rest f (le_n _) ltac:(lia) H (follows_elem_cmp _ Hfol)). norm.
  destruct Hfol as (c & kd & rest' & -> & Hs & Hk). apply at_app in H.
  unfold la_arg, la_param. rewrite (la_tag_at toks _ _ _ _ _ H Hs).
  rewrite Nat.sub_diag. destruct kd; try discriminate; reflexivity.
Qed.

Lemma tail_len_le {A} (fl : A -> list kind) l : len l <= len (fl_tail fl l).
Proof. induction l as [|[c a] l IH]; [apply Nat.le_0_l|]. rewrite tail_len. cbn [length]. lia. Qed.

Lemma expr_start_not_close kd : expr_start kd = true ->
  (match kd with RParen | Semic | Eof => true | _ => false end) = false.
Proof. destruct kd; try discriminate; reflexivity. Qed.

Lemma call_ok c1 f c2 a c3 c4 k r rest fuel : r <= k -> 6 * len (fl_stmt (SCal c1 f c2 a c3 c4)) + 6 <= fuel ->
  at_ k (fl_stmt (SCal c1 f c2 a c3 c4) ++ rest) ->
  p_call toks fuel (mk k r) = POk (mk (k + len (fl_stmt (SCal c1 f c2 a c3 c4))) r) (x_stmt (k - r) (SCal c1 f c2 a c3 c4)).
Proof.
  intros Hr Hf H. cbn [fl_stmt] in H. flat_in H.
  assert (Hl : len (fl_stmt (SCal c1 f c2 a c3 c4)) = len c1 + 1 + len c2 + 1 + len (fl_sep fl_cmp a) + len c3 + 1 + len c4 + 1) by (lens; lia).
  unfold p_call. comb.
  rewrite (p_ident_at toks k r _ _ _ H Hr). norm. apply at_cm_cons in H.
  destruct (p_tag_at toks (is_k LParen) _ r _ _ _ H eq_refl) as (t1 & _ & E1). rewrite E1; ifs; norm.
  apply at_cm_cons in H.
  assert (Hb : match a with Some (_, l) => len l < fuel | None => True end).
  { destruct a as [[e l]|]; [|exact I]. pose proof (tail_len_le fl_cmp l). cbn [fl_sep] in Hl. rewrite app_length in Hl. lia. }
  destruct a as [[e l]|].
  - destruct (head_cmp e) as (c & kd & tl & E & Hs & Hk). pose proof H as H0. cbn [fl_sep] in H0. rewrite E in H0. flat_in H0.
    rewrite (la_tag_at toks _ _ _ _ _ H0 Hs), (expr_start_not_close _ Hk). norm.
    rewrite (list_ok fl_cmp (x_cmp 0) (p_argument toks fuel) (len (fl_sep fl_cmp (Some (e, l))))
               (arg_ok fuel (len (fl_sep fl_cmp (Some (e, l)))) ltac:(lia)) e l (k + len c1 + 1 + len c2 + 1) r
               (cm c3 ++ RParen :: cm c4 ++ Semic :: rest) fuel ltac:(lia) (le_n _) Hb H (fol_here (is_k RParen) c3 RParen _ eq_refl eq_refl)).
    norm. apply at_app in H.
    destruct (p_tag_at toks (is_k RParen) _ r _ _ _ H eq_refl) as (t2 & _ & E2). rewrite E2; ifs; norm.
    apply at_cm_cons in H.
    destruct (p_tag_at toks (is_k Semic) _ r _ _ _ H eq_refl) as (t3 & _ & E3). rewrite E3; ifs; norm.
    cbn [x_stmt]. unfold mkinfo. rewrite Hl. teq.
  - cbn [fl_sep app length x_sep] in *. rewrite (la_tag_at toks _ _ _ _ _ H eq_refl). norm.
    destruct (p_tag_at toks (is_k RParen) _ r _ _ _ H eq_refl) as (t2 & _ & E2). rewrite E2; ifs; norm.
    apply at_cm_cons in H.
    destruct (p_tag_at toks (is_k Semic) _ r _ _ _ H eq_refl) as (t3 & _ & E3). rewrite E3; ifs; norm.
    cbn [x_stmt x_sep]. unfold mkinfo. rewrite Hl. teq.
Qed.


(* what follows the name of a variable that is followed by kd0: kd0 itself or '[' *)
Lemma var_tl_next v : forall c0 kd0 Z, sig kd0 = true ->
  exists c kd Z', var_tl v ++ cm c0 ++ kd0 :: Z = cm c ++ kd :: Z' /\ sig kd = true /\ (kd = kd0 \/ kd = LBracket).
Proof.
  induction v as [c x|v IH c1 e c2]; intros c0 kd0 Z Hs; cbn [var_tl].
  - exists c0, kd0, Z. auto.
  - rewrite <- !app_assoc. cbn [app].
    destruct (IH c1 LBracket ((fl_cmp e ++ cm c2 ++ [RBracket]) ++ cm c0 ++ kd0 :: Z) eq_refl) as (c & kd & Z' & E & Hk & [->| ->]);
      exists c, LBracket, Z'; rewrite <- E; auto.
Qed.

Lemma call_no_ident k r c kd rest fuel : at_ k (cm c ++ kd :: rest) -> sig kd = true -> is_ident kd = false ->
  p_call toks fuel (mk k r) = PErr (mk k r).
Proof. intros H Hs Hk. unfold p_call. comb. now rewrite (p_ident_no toks k r _ _ _ H Hs Hk). Qed.

Lemma call_no_asg v c1 Z k r fuel : at_ k (fl_var v ++ cm c1 ++ Assign :: Z) -> r <= k ->
  exists e, p_call toks fuel (mk k r) = PErr e.
Proof.
  intros H Hr. rewrite fl_var_head in H. flat_in H.
  destruct (var_tl_next v c1 Assign Z eq_refl) as (c & kd & Z' & E & Hs & Hk). rewrite E in H.
  unfold p_call. comb. rewrite (p_ident_at toks k r _ _ _ H Hr). norm. apply at_cm_cons in H.
  rewrite (p_tag_no toks (is_k LParen) _ r _ _ _ H Hs); [eexists; reflexivity|]. now destruct Hk as [-> | ->].
Qed.

Lemma assign_no_ident k r c kd rest fuel : at_ k (cm c ++ kd :: rest) -> sig kd = true -> is_ident kd = false ->
  1 <= fuel -> p_assign toks fuel (mk k r) = PErr (mk k r).
Proof. intros H Hs Hk Hf. unfold p_assign. comb. now rewrite (p_variable_no toks k r _ _ _ fuel H Hs Hk Hf). Qed.

Lemma assign_ok v c1 e c2 k r rest fuel : r <= k -> 6 * len (fl_stmt (SAsg v c1 e c2)) + 6 <= fuel ->
  at_ k (fl_stmt (SAsg v c1 e c2) ++ rest) ->
  p_assign toks fuel (mk k r) = POk (mk (k + len (fl_stmt (SAsg v c1 e c2))) r) (x_stmt (k - r) (SAsg v c1 e c2)).
Proof.
  intros Hr Hf H. cbn [fl_stmt] in H. flat_in H.
  assert (Hl : len (fl_stmt (SAsg v c1 e c2)) = len (fl_var v) + len c1 + 1 + len (fl_cmp e) + len c2 + 1) by (lens; lia).
  unfold p_assign, p_expr. comb.
  rewrite (var_ok toks v k r _ fuel Hr ltac:(lia) H (fol_here nolb c1 Assign _ eq_refl eq_refl)). norm.
  apply at_app in H.
  destruct (p_tag_at toks (is_k Assign) _ r _ _ _ H eq_refl) as (t1 & _ & E1). rewrite E1; ifs; norm.
  apply at_cm_cons in H.
  rewrite (cmp_ok toks e _ _ _ fuel (le_n _) ltac:(lia) H (fol_here fol_cmp c2 Semic _ eq_refl eq_refl)). norm.
  apply at_app in H.
  destruct (p_tag_at toks (is_k Semic) _ r _ _ _ H eq_refl) as (t2 & _ & E2). rewrite E2; ifs; norm.
  rewrite Nat.sub_diag. cbn [x_stmt]. unfold mkinfo. rewrite Hl. teq.
Qed.


(* ---- statements ---- *)
Definition noelse (kd : kind) : bool := negb (is_k KElse kd).
Definition stmt_first (kd : kind) : bool :=
  is_k Semic kd || is_k KIf kd || is_k KWhile kd || is_k LCurly kd || is_ident kd.

Lemma stmt_head s : exists c kd tl, fl_stmt s = cm c ++ kd :: tl /\ sig kd = true /\ stmt_first kd = true.
Proof.
  destruct s as [c|v c1 e c2|c1 f c2 a c3 c4|c1 c2 e c3 t|c1 c2 e c3 t c4 s'|c1 c2 e c3 b|c1 b c2]; cbn [fl_stmt].
  - now exists c, Semic, [].
  - rewrite fl_var_head, <- app_assoc. cbn [app]. now eexists _, (Ident _), _.
  - now eexists c1, (Ident f), _.
  - now eexists c1, KIf, _.
  - now eexists c1, KIf, _.
  - now eexists c1, KWhile, _.
  - now eexists c1, LCurly, _.
Qed.

Lemma stmt_len_pos s : 1 <= len (fl_stmt s).
Proof. destruct (stmt_head s) as (c & kd & tl & -> & _). lens. lia. Qed.

Lemma stmts_follow b rest : fol (is_k RCurly) rest -> fol noelse (fl_stmts b ++ rest).
Proof.
  intros H. destruct b as [|s b]; cbn [fl_stmts app].
  - revert H. apply fol_weaken. intros kd Hk. destruct kd; try discriminate; reflexivity.
  - destruct (stmt_head s) as (c & kd & tl & -> & Hs & Hk). rewrite <- !app_assoc. cbn [app].
    apply fol_here; [exact Hs|]. destruct kd; try discriminate; reflexivity.
Qed.

Definition StmtOK (s : astmt) : Prop :=
  forall k r rest fuel, r <= k -> 6 * len (fl_stmt s) + 7 <= fuel -> else_ok s = true ->
  at_ k (fl_stmt s ++ rest) -> (open_if s = true -> fol noelse rest) ->
  p_stmt toks fuel (mk k r) = POk (mk (k + len (fl_stmt s)) r) (x_stmt (k - r) s).

Definition StmtsOK (b : astmts) : Prop :=
  forall k r rest f, r <= k -> 6 * len (fl_stmts b) + 7 <= f -> else_oks b = true ->
  at_ k (fl_stmts b ++ rest) -> fol (is_k RCurly) rest ->
  steps (stmt_ref f) (mk k r) (x_stmts (k - r) b) (mk (k + len (fl_stmts b)) r).

(* a statement parser at '}' fails: the statement sequence ends there *)
Lemma stmt_no_rcurly k r c rest fuel : at_ k (cm c ++ RCurly :: rest) -> 2 <= fuel ->
  exists e, p_stmt toks fuel (mk k r) = PErr e.
Proof.
  intros H Hf. destruct fuel as [|f]; [lia|]. rewrite p_stmt_S. comb.
  rewrite (p_tag_no toks (is_k Semic) k r _ _ _ H eq_refl eq_refl).
  rewrite (p_tag_no toks (is_k KIf) k r _ _ _ H eq_refl eq_refl).
  rewrite (p_tag_no toks (is_k KWhile) k r _ _ _ H eq_refl eq_refl).
  rewrite (p_tag_no toks (is_k LCurly) k r _ _ _ H eq_refl eq_refl).
  rewrite (call_no_ident k r _ _ _ f H eq_refl eq_refl).
  rewrite (assign_no_ident k r _ _ _ f H eq_refl eq_refl ltac:(lia)).
  unfold p_restore, p_comments, p_ignore1. comb. rewrite (comments_at_ok toks _ _ _ _ H eq_refl).
  apply at_cm in H. unfold la_stmt. rewrite (la_tag_at toks _ _ [] _ _ H eq_refl). cbn [orb]. eexists; reflexivity.
Qed.

Lemma x_stmts_len o b : len (x_stmts o b) <= len (fl_stmts b).
Proof.
  revert o; induction b as [|s b IH]; intros o; cbn [x_stmts fl_stmts length]; [lia|].
  rewrite app_length. pose proof (stmt_len_pos s). specialize (IH (o + len (fl_stmt s))). lia.
Qed.

Ltac side := first [lia | assumption].

Lemma stmt_emp c : StmtOK (SEmp c).
Proof.
  intros k r rest fuel Hr Hf Hok H Hfol. cbn [fl_stmt] in H. flat_in H.
  assert (Hl : len (fl_stmt (SEmp c)) = len c + 1) by (lens; lia).
  destruct fuel as [|f]; [lia|]. rewrite p_stmt_S. comb.
  destruct (p_tag_at toks (is_k Semic) k r _ _ _ H eq_refl) as (t1 & _ & E1). rewrite E1; ifs; norm.
  cbn [x_stmt]. unfold mkinfo. rewrite Hl. teq.
Qed.

Lemma stmt_asg v c1 e c2 : StmtOK (SAsg v c1 e c2).
Proof.
  intros k r rest fuel Hr Hf Hok H Hfol.
  destruct fuel as [|f]; [lia|]. rewrite p_stmt_S. comb.
  pose proof H as H0. cbn [fl_stmt] in H0. flat_in H0.
  destruct (call_no_asg v c1 _ k r f H0 Hr) as (e0 & Ec).
  rewrite fl_var_head in H0. flat_in H0.
  rewrite (p_tag_no toks (is_k Semic) k r _ _ _ H0 eq_refl eq_refl).
  rewrite (p_tag_no toks (is_k KIf) k r _ _ _ H0 eq_refl eq_refl).
  rewrite (p_tag_no toks (is_k KWhile) k r _ _ _ H0 eq_refl eq_refl).
  rewrite (p_tag_no toks (is_k LCurly) k r _ _ _ H0 eq_refl eq_refl).
  rewrite Ec. rewrite (assign_ok v c1 e c2 k r rest f Hr ltac:(lia) H). reflexivity.
Qed.

Lemma stmt_cal c1 g c2 a c3 c4 : StmtOK (SCal c1 g c2 a c3 c4).
Proof.
  intros k r rest fuel Hr Hf Hok H Hfol.
  destruct fuel as [|f]; [lia|]. rewrite p_stmt_S. comb.
  pose proof H as H0. cbn [fl_stmt] in H0. flat_in H0.
  rewrite (p_tag_no toks (is_k Semic) k r _ _ _ H0 eq_refl eq_refl).
  rewrite (p_tag_no toks (is_k KIf) k r _ _ _ H0 eq_refl eq_refl).
  rewrite (p_tag_no toks (is_k KWhile) k r _ _ _ H0 eq_refl eq_refl).
  rewrite (p_tag_no toks (is_k LCurly) k r _ _ _ H0 eq_refl eq_refl).
  rewrite (call_ok c1 g c2 a c3 c4 k r rest f Hr ltac:(lia) H). reflexivity.
Qed.

Lemma stmt_ift c1 c2 e c3 t : StmtOK t -> StmtOK (SIfT c1 c2 e c3 t).
Proof.
  intros IHt k r rest fuel Hr Hf Hok H Hfol. cbn [fl_stmt] in H. flat_in H. cbn [else_ok] in Hok.
  assert (Hl : len (fl_stmt (SIfT c1 c2 e c3 t)) = len c1 + 1 + len c2 + 1 + len (fl_cmp e) + len c3 + 1 + len (fl_stmt t)) by (lens; lia).
  pose proof (fun _ : open_if t = true => Hfol eq_refl) as Hft.
  destruct fuel as [|f]; [lia|]. rewrite p_stmt_S. unfold stmt_ref, p_expr. comb.
  rewrite (p_tag_no toks (is_k Semic) k r _ _ _ H eq_refl eq_refl).
  destruct (p_tag_at toks (is_k KIf) k r _ _ _ H eq_refl) as (t1 & _ & E1). rewrite E1; ifs; norm.
  apply at_cm_cons in H.
  destruct (p_tag_at toks (is_k LParen) _ r _ _ _ H eq_refl) as (t2 & _ & E2). rewrite E2; ifs; norm.
  apply at_cm_cons in H.
  rewrite (cmp_ok toks e _ _ _ f (le_n _) ltac:(lia) H (fol_here fol_cmp c3 RParen _ eq_refl eq_refl)). norm.
  apply at_app in H.
  destruct (p_tag_at toks (is_k RParen) _ r _ _ _ H eq_refl) as (t3 & _ & E3). rewrite E3; ifs; norm.
  apply at_cm_cons in H.
  rewrite (IHt _ _ rest f (le_n _)) by side. norm.
  apply at_app in H. destruct (Hfol eq_refl) as (c & kd & rest' & -> & Hs & Hk).
  rewrite (p_tag_no toks (is_k KElse) _ r _ _ _ H Hs) by (unfold noelse in Hk; now destruct (is_k KElse kd)).
  norm. rewrite !Nat.sub_diag. cbn [x_stmt]. unfold mkinfo. rewrite Hl. teq.
Qed.


Lemma stmt_ife c1 c2 e c3 t c4 s' : StmtOK t -> StmtOK s' -> StmtOK (SIfE c1 c2 e c3 t c4 s').
Proof.
  intros IHt IHs k r rest fuel Hr Hf Hok H Hfol. cbn [fl_stmt] in H. flat_in H. cbn [else_ok open_if] in Hok, Hfol.
  apply andb_prop in Hok. destruct Hok as [Hok Hok2]. apply andb_prop in Hok. destruct Hok as [Hno Hok1].
  apply negb_true_iff in Hno.
  assert (Hl : len (fl_stmt (SIfE c1 c2 e c3 t c4 s')) =
               len c1 + 1 + len c2 + 1 + len (fl_cmp e) + len c3 + 1 + len (fl_stmt t) + len c4 + 1 + len (fl_stmt s')) by (lens; lia).
  assert (Hft : open_if t = true -> fol noelse (cm c4 ++ KElse :: fl_stmt s' ++ rest)) by (intros Ho; congruence).
  destruct fuel as [|f]; [lia|]. rewrite p_stmt_S. unfold stmt_ref, p_expr. comb.
  rewrite (p_tag_no toks (is_k Semic) k r _ _ _ H eq_refl eq_refl).
  destruct (p_tag_at toks (is_k KIf) k r _ _ _ H eq_refl) as (t1 & _ & E1). rewrite E1; ifs; norm.
  apply at_cm_cons in H.
  destruct (p_tag_at toks (is_k LParen) _ r _ _ _ H eq_refl) as (t2 & _ & E2). rewrite E2; ifs; norm.
  apply at_cm_cons in H.
  rewrite (cmp_ok toks e _ _ _ f (le_n _) ltac:(lia) H (fol_here fol_cmp c3 RParen _ eq_refl eq_refl)). norm.
  apply at_app in H.
  destruct (p_tag_at toks (is_k RParen) _ r _ _ _ H eq_refl) as (t3 & _ & E3). rewrite E3; ifs; norm.
  apply at_cm_cons in H.
  rewrite (IHt _ _ (cm c4 ++ KElse :: fl_stmt s' ++ rest) f (le_n _)) by side. norm.
  apply at_app in H.
  destruct (p_tag_at toks (is_k KElse) _ r _ _ _ H eq_refl) as (t4 & _ & E4). rewrite E4; ifs; norm.
  apply at_cm_cons in H.
  rewrite (IHs _ _ rest f (le_n _)) by side. norm.
  rewrite !Nat.sub_diag. cbn [x_stmt]. unfold mkinfo. rewrite Hl. teq.
Qed.

Lemma stmt_whl c1 c2 e c3 b : StmtOK b -> StmtOK (SWhl c1 c2 e c3 b).
Proof.
  intros IHb k r rest fuel Hr Hf Hok H Hfol. cbn [fl_stmt] in H. flat_in H. cbn [else_ok open_if] in Hok, Hfol.
  assert (Hl : len (fl_stmt (SWhl c1 c2 e c3 b)) = len c1 + 1 + len c2 + 1 + len (fl_cmp e) + len c3 + 1 + len (fl_stmt b)) by (lens; lia).
  destruct fuel as [|f]; [lia|]. rewrite p_stmt_S. unfold stmt_ref, p_expr. comb.
  rewrite (p_tag_no toks (is_k Semic) k r _ _ _ H eq_refl eq_refl).
  rewrite (p_tag_no toks (is_k KIf) k r _ _ _ H eq_refl eq_refl).
  destruct (p_tag_at toks (is_k KWhile) k r _ _ _ H eq_refl) as (t1 & _ & E1). rewrite E1; ifs; norm.
  apply at_cm_cons in H.
  destruct (p_tag_at toks (is_k LParen) _ r _ _ _ H eq_refl) as (t2 & _ & E2). rewrite E2; ifs; norm.
  apply at_cm_cons in H.
  rewrite (cmp_ok toks e _ _ _ f (le_n _) ltac:(lia) H (fol_here fol_cmp c3 RParen _ eq_refl eq_refl)). norm.
  apply at_app in H.
  destruct (p_tag_at toks (is_k RParen) _ r _ _ _ H eq_refl) as (t3 & _ & E3). rewrite E3; ifs; norm.
  apply at_cm_cons in H.
  rewrite (IHb _ _ rest f (le_n _)) by side. norm.
  rewrite !Nat.sub_diag. cbn [x_stmt]. unfold mkinfo. rewrite Hl. teq.
Qed.

Lemma stmt_blk c1 b c2 : StmtsOK b -> StmtOK (SBlk c1 b c2).
Proof.
  intros IHb k r rest fuel Hr Hf Hok H Hfol. cbn [fl_stmt] in H. flat_in H. cbn [else_ok] in Hok.
  assert (Hl : len (fl_stmt (SBlk c1 b c2)) = len c1 + 1 + len (fl_stmts b) + len c2 + 1) by (lens; lia).
  destruct fuel as [|f]; [lia|]. rewrite p_stmt_S. comb.
  rewrite (p_tag_no toks (is_k Semic) k r _ _ _ H eq_refl eq_refl).
  rewrite (p_tag_no toks (is_k KIf) k r _ _ _ H eq_refl eq_refl).
  rewrite (p_tag_no toks (is_k KWhile) k r _ _ _ H eq_refl eq_refl).
  destruct (p_tag_at toks (is_k LCurly) k r _ _ _ H eq_refl) as (t1 & _ & E1). rewrite E1; ifs; norm.
  apply at_cm_cons in H.
  pose proof (IHb (k + len c1 + 1) r _ f ltac:(lia) ltac:(lia) Hok H (fol_here (is_k RCurly) c2 RCurly rest eq_refl eq_refl)) as Hst.
  apply at_app in H.
  destruct (stmt_no_rcurly (k + len c1 + 1 + len (fl_stmts b)) (k + len c1 + 1 + len (fl_stmts b)) _ _ f H ltac:(lia)) as (e0 & Ee0).
  assert (Ee : stmt_ref f (mk (k + len c1 + 1 + len (fl_stmts b)) r) = PErr (set_refp e0 r)).
  { unfold stmt_ref. comb. now rewrite Ee0. }
  pose proof (x_stmts_len (k + len c1 + 1 - r) b) as Hn.
  rewrite (many0_steps' _ _ _ _ _ f Hst Ee ltac:(lia)). norm.
  destruct (p_tag_at toks (is_k RCurly) _ r _ _ _ H eq_refl) as (t2 & _ & E2). rewrite E2; ifs; norm.
  cbn [x_stmt]. unfold mkinfo. rewrite Hl. teq.
Qed.

Lemma stmts_nil : StmtsOK SNil.
Proof. intros k r rest f Hr Hf Hok H Hfol. cbn [fl_stmts length x_stmts]. rewrite Nat.add_0_r. constructor. Qed.

Lemma stmts_cons s b : StmtOK s -> StmtsOK b -> StmtsOK (SCons s b).
Proof.
  intros IHs IHb k r rest f Hr Hf Hok H Hfol. cbn [fl_stmts] in *. rewrite app_length in *. flat_in H.
  cbn [else_oks] in Hok. apply andb_prop in Hok. destruct Hok as [Hok1 Hok2].
  pose proof (stmt_len_pos s) as Hp. pose proof (fun _ : open_if s = true => stmts_follow b rest Hfol) as Hfs.
  cbn [x_stmts]. eapply steps_cons with (s1 := mk (k + len (fl_stmt s)) r).
  - unfold stmt_ref. comb. rewrite (IHs k k (fl_stmts b ++ rest) f (le_n _)) by side. norm. now rewrite Nat.sub_diag.
  - cbn [pos]. lia.
  - apply at_app in H. specialize (IHb (k + len (fl_stmt s)) r rest f ltac:(lia) ltac:(lia) Hok2 H Hfol).
    replace (k + len (fl_stmt s) - r) with (k - r + len (fl_stmt s)) in IHb by lia.
    now rewrite Nat.add_assoc.
Qed.

End Stmt.

Scheme astmt_mind := Induction for astmt Sort Prop
  with astmts_mind := Induction for astmts Sort Prop.
Combined Scheme astmt_mutind from astmt_mind, astmts_mind.

Theorem stmt_all toks : (forall s, StmtOK toks s) /\ (forall b, StmtsOK toks b).
Proof.
  apply astmt_mutind.
  - apply stmt_emp.
  - apply stmt_asg.
  - apply stmt_cal.
  - intros; now apply stmt_ift.
  - intros; now apply stmt_ife.
  - intros; now apply stmt_whl.
  - intros; now apply stmt_blk.
  - apply stmts_nil.
  - intros; now apply stmts_cons.
Qed.

Lemma stmts_ok toks b : StmtsOK toks b.
Proof. apply stmt_all. Qed.
