(* C01, positive part (1/4): the error buffer of the scratch parser only grows.
   [MonoE p]: whatever [p] returns - success or error - the error buffer of the returned state is the
   buffer it started with, extended.  Consequence used later: a run that ends with the buffer it
   started with ("quiet") is quiet in every one of its parts.  One lemma per combinator, then every
   non-terminal of Model/Parser.v. *)
From Coq Require Import List Arith Lia.
From Spl Require Import Model.Parser.
Import ListNotations.
Local Open Scope nat_scope.

Definition ext (s s' : st) : Prop := exists l, ebuf s' = ebuf s ++ l.

Lemma ext_refl s : ext s s.
Proof. exists []. now rewrite app_nil_r. Qed.

Lemma ext_trans s1 s2 s3 : ext s1 s2 -> ext s2 s3 -> ext s1 s3.
Proof. intros [l1 H1] [l2 H2]. exists (l1 ++ l2). rewrite H2, H1. now rewrite app_assoc. Qed.

Lemma ext_same s s' : ebuf s' = ebuf s -> ext s s'.
Proof. intros H. exists []. now rewrite app_nil_r. Qed.

(* a quiet composite run is quiet in both halves *)
Lemma ext_quiet s1 s2 s3 : ext s1 s2 -> ext s2 s3 -> ebuf s3 = ebuf s1 -> ebuf s2 = ebuf s1 /\ ebuf s3 = ebuf s2.
Proof.
  intros [l1 H1] [l2 H2] H. rewrite H2, H1 in H. rewrite <- app_assoc in H.
  assert (E : l1 ++ l2 = []).
  { apply (app_inv_head (ebuf s1)). rewrite app_nil_r. exact H. }
  apply app_eq_nil in E as [-> ->]. rewrite app_nil_r in H1, H2. auto.
Qed.

Lemma ext_push_neq s s' x : ext s s' -> ebuf s' ++ [x] <> ebuf s.
Proof.
  intros [l H] E. rewrite H in E. rewrite <- app_assoc in E.
  assert (E' : l ++ [x] = []).
  { apply (app_inv_head (ebuf s)). rewrite app_nil_r. exact E. }
  destruct l; discriminate E'.
Qed.

Definition mpost {A} (s : st) (r : pres A) : Prop :=
  match r with POk s' _ => ext s s' | PErr s' => ext s s' | PFuel => True end.

Definition MonoE {A} (p : parser A) : Prop := forall s, mpost s (p s).

Lemma mpost_trans {A} s s1 (r : pres A) : ext s s1 -> mpost s1 r -> mpost s r.
Proof. intros H. destruct r; cbn [mpost]; [apply ext_trans | apply ext_trans | auto]; assumption. Qed.

Lemma mpost_bind {A B} s (r : pres A) (k : st -> A -> pres B) :
  mpost s r -> (forall s1 a, mpost s1 (k s1 a)) -> mpost s (bind r k).
Proof.
  destruct r as [s1 a|s1|]; cbn [bind mpost]; intros H K; [|exact H|exact I].
  eapply mpost_trans; [exact H | apply K].
Qed.

Lemma MonoE_ok {A} (p : parser A) s s' a : MonoE p -> p s = POk s' a -> ext s s'.
Proof. intros H E. specialize (H s). now rewrite E in H. Qed.

Lemma MonoE_err {A} (p : parser A) s s' : MonoE p -> p s = PErr s' -> ext s s'.
Proof. intros H E. specialize (H s). now rewrite E in H. Qed.

(* ------------------------------------------------------------------------------------------ *)
Lemma MonoE_fuel {A} : MonoE (fun _ : st => @PFuel A).
Proof. intros s. exact I. Qed.

Lemma MonoE_ret {A} (f : st -> A) : MonoE (fun s => POk s (f s)).
Proof. intros s. apply ext_refl. Qed.

Lemma MonoE_bind {A B} (p : parser A) (k : st -> A -> pres B) :
  MonoE p -> (forall a, MonoE (fun s => k s a)) -> MonoE (fun s => bind (p s) k).
Proof. intros H K s. apply mpost_bind; [apply H | intros s1 a; apply (K a s1)]. Qed.

Lemma MonoE_map {A B} (f : A -> B) p : MonoE p -> MonoE (p_map f p).
Proof. intros H. unfold p_map. apply MonoE_bind; [exact H | intros a s; apply ext_refl]. Qed.

Lemma MonoE_alt {A} (p q : parser A) : MonoE p -> MonoE q -> MonoE (p_alt p q).
Proof. intros H H' s. unfold p_alt. specialize (H s). destruct (p s); [exact H | apply H' | exact I]. Qed.

Lemma MonoE_opt {A} (p : parser A) : MonoE p -> MonoE (p_opt p).
Proof. intros H s. unfold p_opt. specialize (H s). destruct (p s); cbn [mpost] in *; [exact H | apply ext_refl | exact I]. Qed.

Lemma MonoE_pair {A B} (p : parser A) (q : parser B) : MonoE p -> MonoE q -> MonoE (p_pair p q).
Proof.
  intros H H'. unfold p_pair. apply MonoE_bind; [exact H|]. intros a.
  apply MonoE_bind; [exact H'|]. intros b s. apply ext_refl.
Qed.

Lemma MonoE_restore {A} (p : parser A) : MonoE p -> MonoE (p_restore p).
Proof. intros H s. unfold p_restore. specialize (H s). destruct (p s); cbn [mpost] in *; [exact H | apply ext_refl | exact I]. Qed.

Lemma MonoE_preceded {A B} (p : parser A) (q : parser B) : MonoE p -> MonoE q -> MonoE (p_preceded p q).
Proof. intros H H'. unfold p_preceded. apply MonoE_map, MonoE_pair; assumption. Qed.

Lemma MonoE_terminated {A B} (p : parser A) (q : parser B) : MonoE p -> MonoE q -> MonoE (p_terminated p q).
Proof. intros H H'. unfold p_terminated. apply MonoE_map, MonoE_pair; assumption. Qed.

Lemma MonoE_many0 {A} fuel (p : parser A) : MonoE p -> MonoE (p_many0 fuel p).
Proof.
  intros H. induction fuel as [|f IH]; intros s; cbn [p_many0]; [exact I|].
  pose proof (H s) as Hs. destruct (p s) as [s1 a|s1|]; cbn [mpost] in *; [|apply ext_refl|exact I].
  destruct (Nat.eqb (pos s1) (pos s)); [apply ext_refl|].
  apply mpost_bind; [eapply mpost_trans; [exact Hs | apply IH]|]. intros s2 l. apply ext_refl.
Qed.

Ltac exr := first [apply ext_refl | apply ext_same; reflexivity].

Section Toks.
Variable toks : list token.

Lemma MonoE_comments : MonoE (p_comments toks).
Proof. intros s. exr. Qed.

Lemma MonoE_tag f : MonoE (p_tag toks f).
Proof.
  intros s. unfold p_tag. destruct (nth_error toks _) as [t|]; [|exr].
  destruct (f (tk t)); exr.
Qed.

Lemma MonoE_info {A} (p : parser A) : MonoE (p_info p).
Proof. intros s. unfold p_info. destruct (p (set_ebuf s [])); cbn [mpost]; try exr. exact I. Qed.

Lemma MonoE_expect {A} (p : parser A) m : MonoE p -> MonoE (p_expect p m).
Proof.
  intros H s. unfold p_expect. specialize (H s). destruct (p s) as [s1 a|s1|]; cbn [mpost] in *; [exact H| |exact I].
  eapply ext_trans; [exact H|]. exists [ {| e_s := pos s1 - refp s1 - 1; e_e := pos s1 - refp s1 - 1; e_m := EParse m |} ]. reflexivity.
Qed.

Lemma MonoE_ref {A} (p : parser A) : MonoE p -> MonoE (p_ref p).
Proof.
  intros H s. unfold p_ref. specialize (H (set_refp s (pos s))).
  destruct (p (set_refp s (pos s))); cbn [mpost] in *; exact H.
Qed.

Lemma MonoE_confusable {A} (p : parser A) m : MonoE (p_confusable p m).
Proof.
  intros s. unfold p_confusable. apply mpost_bind; [apply MonoE_info|].
  intros s1 ai. cbn [mpost]. eexists. reflexivity.
Qed.

Lemma MonoE_peek_la la : MonoE (p_peek_la la).
Proof. intros s. unfold p_peek_la. destruct (la (pos s)); exr. Qed.

Lemma ignore_from_mono la : forall n s, mpost s (ignore_from toks n la s).
Proof.
  induction n as [|n IH]; intros s; cbn [ignore_from]; destruct (la (pos s)); try exr.
  destruct (Nat.ltb (pos s) (length toks)); [|exr].
  eapply mpost_trans; [|apply IH]. exr.
Qed.

Lemma MonoE_ignore0 la : MonoE (p_ignore0 toks la).
Proof. intros s. unfold p_ignore0. apply mpost_bind; [apply ignore_from_mono|]. intros s1 a. exr. Qed.

Lemma MonoE_ignore1 la : MonoE (p_ignore1 toks la).
Proof. intros s. unfold p_ignore1. destruct (la (pos s)); [exr | apply MonoE_ignore0]. Qed.

Lemma MonoE_list {A} fuel (p : parser A) : MonoE p -> MonoE (p_list toks fuel p).
Proof.
  intros H. unfold p_list. apply MonoE_bind; [apply MonoE_ref, H|]. intros hd.
  apply MonoE_bind; [|intros tl s; exr].
  apply MonoE_many0, MonoE_map, MonoE_ref, MonoE_preceded; [apply MonoE_tag | apply MonoE_ref, H].
Qed.

End Toks.

Ltac mono1 :=
  first
  [ assumption
  | apply MonoE_fuel
  | apply MonoE_map | apply MonoE_restore | apply MonoE_alt | apply MonoE_opt | apply MonoE_pair
  | apply MonoE_preceded | apply MonoE_terminated | apply MonoE_many0
  | apply MonoE_comments | apply MonoE_tag | apply MonoE_info | apply MonoE_expect | apply MonoE_ref
  | apply MonoE_confusable | apply MonoE_peek_la | apply MonoE_ignore0 | apply MonoE_ignore1
  | apply MonoE_list | apply MonoE_ret ].
Ltac mono := repeat mono1.

(* ------------------------------------------------------------------------------------------ *)
Section NonTerminals.
Variable toks : list token.

Lemma MonoE_ident : MonoE (p_ident toks).
Proof. unfold p_ident. mono. Qed.

Lemma MonoE_intlit : MonoE (p_intlit toks).
Proof. unfold p_intlit. mono. Qed.

Lemma MonoE_rhs p lhs op : MonoE p -> MonoE (p_rhs p lhs op).
Proof. intros H. unfold p_rhs. apply MonoE_bind; [mono|]. intros a s. exr. Qed.

Definition LoopMono (l : st -> expr -> pres expr) : Prop := forall lhs s, mpost s (l s lhs).

Lemma tag_loop_mono f (k : st -> token -> pres expr) (d : expr) s :
  (forall t s1, mpost s1 (k s1 t)) ->
  mpost s (match p_tag toks f s with POk s1 op => k s1 op | PErr _ => POk s d | PFuel => PFuel end).
Proof.
  intros Hk. pose proof (MonoE_tag toks f s) as H.
  destruct (p_tag toks f s) as [s1 t| |]; cbn [mpost] in *; [|exr|exact I].
  eapply mpost_trans; [exact H | apply Hk].
Qed.

Lemma MonoE_expr_all f :
  MonoE (p_variable toks f) /\ MonoE (p_primary toks f) /\ MonoE (p_factor toks f) /\
  LoopMono (mul_loop toks f) /\ MonoE (p_mul toks f) /\
  LoopMono (add_loop toks f) /\ MonoE (p_add toks f) /\ MonoE (p_comparison toks f).
Proof.
  induction f as [|f (IHvar & IHpri & IHfac & IHml & IHmul & IHal & IHadd & IHcmp)].
  - repeat split; try intros lhs; intros s; exact I.
  - pose proof MonoE_ident. pose proof MonoE_intlit. repeat split.
    + cbn [p_variable]. apply MonoE_bind; [mono|]. intros [[v0 vinfo] acc] s. exr.
    + cbn [p_primary]. intros s. revert s. apply MonoE_alt; [mono|]. apply MonoE_alt; [mono|].
      apply MonoE_bind; [mono|]. intros [[[x lp] [e y]] inf] s. exr.
    + cbn [p_factor]. intros s. revert s. mono.
    + intros lhs s. cbn [mul_loop]. apply tag_loop_mono. intros t s1.
      apply mpost_bind; [apply (MonoE_rhs (p_factor toks f) lhs _ IHfac)|]. intros s2 a. apply IHml.
    + intros s. cbn [p_mul]. apply mpost_bind; [apply IHfac|]. intros s1 a. apply IHml.
    + intros lhs s. cbn [add_loop]. apply tag_loop_mono. intros t s1.
      apply mpost_bind; [apply (MonoE_rhs (p_mul toks f) lhs _ IHmul)|]. intros s2 a. apply IHal.
    + intros s. cbn [p_add]. apply mpost_bind; [apply IHmul|]. intros s1 a. apply IHal.
    + intros s. cbn [p_comparison]. apply mpost_bind; [apply IHadd|]. intros s1 a.
      apply tag_loop_mono. intros t s2. apply (MonoE_rhs (p_add toks f) a _ IHadd).
Qed.

Lemma MonoE_variable f : MonoE (p_variable toks f). Proof. apply MonoE_expr_all. Qed.
Lemma MonoE_comparison f : MonoE (p_comparison toks f). Proof. apply MonoE_expr_all. Qed.
Lemma MonoE_expr f : MonoE (p_expr toks f). Proof. apply MonoE_comparison. Qed.

Lemma MonoE_texpr : forall f, MonoE (p_texpr toks f).
Proof.
  pose proof MonoE_ident. pose proof MonoE_intlit.
  induction f as [|f IH]; [intros s; exact I|]. cbn [p_texpr]. intros s. revert s. mono.
Qed.

Lemma MonoE_typedecl f : MonoE (p_typedecl toks f).
Proof. unfold p_typedecl. mono. Qed.

Lemma MonoE_vardecl f : MonoE (p_vardecl toks f).
Proof. unfold p_vardecl. mono. Qed.

Lemma MonoE_paramdecl f : MonoE (p_paramdecl toks f).
Proof. unfold p_paramdecl. mono. Qed.

Lemma MonoE_argument f : MonoE (p_argument toks f).
Proof. pose proof (MonoE_expr f). unfold p_argument. mono. Qed.

Lemma MonoE_call f : MonoE (p_call toks f).
Proof. unfold p_call. mono. Qed.

Lemma MonoE_assign f : MonoE (p_assign toks f).
Proof. unfold p_assign. mono. Qed.

Lemma MonoE_stmt : forall f, MonoE (p_stmt toks f).
Proof. induction f as [|f IH]; [intros s; exact I|]. cbn [p_stmt]. intros s. revert s. mono. Qed.

Lemma MonoE_procdecl f : MonoE (p_procdecl toks f).
Proof. unfold p_procdecl. mono. Qed.

Lemma MonoE_gdecl f : MonoE (p_gdecl toks f).
Proof. unfold p_gdecl. mono. Qed.

End NonTerminals.

Ltac mono_step :=
  first
  [ assumption
  | apply MonoE_fuel
  | apply MonoE_ident | apply MonoE_intlit | apply MonoE_variable | apply MonoE_comparison | apply MonoE_expr
  | apply MonoE_texpr | apply MonoE_typedecl | apply MonoE_vardecl | apply MonoE_paramdecl | apply MonoE_argument
  | apply MonoE_call | apply MonoE_assign | apply MonoE_stmt | apply MonoE_procdecl | apply MonoE_gdecl
  | apply MonoE_map | apply MonoE_restore | apply MonoE_alt | apply MonoE_opt | apply MonoE_pair
  | apply MonoE_preceded | apply MonoE_terminated | apply MonoE_many0
  | apply MonoE_comments | apply MonoE_tag | apply MonoE_info | apply MonoE_expect | apply MonoE_ref
  | apply MonoE_confusable | apply MonoE_peek_la | apply MonoE_ignore0 | apply MonoE_ignore1
  | apply MonoE_list | apply MonoE_ret ].
Ltac mono_solve := repeat mono_step.
