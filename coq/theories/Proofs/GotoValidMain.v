(* C12 - go-to on VALID programs, part 4: the theorem [goto_valid].
   The frame ([frame], [frame_w]: the cursor inside the identifier token of an occurrence selects the
   occurrence's spelling, the entry of the enclosing declaration and the global-position flag the grammar
   fixes for the occurrence's syntactic role) is combined with the case analysis over the seven roles
   ([type_case]: RTypeDecl, RTypeUse of a type declaration; [proc_case]: RProcDecl, RParamDecl, RVarDecl,
   RTypeUse, RCall, RVarUse of a procedure declaration) and the answers of Proofs/GotoValidHandlers.v. *)
From Coq Require Import PeanoNat NArith Lia.
From Spl Require Import Proofs.GrammarBase Proofs.GrammarExpr Proofs.GrammarStmt.
From Spl Require Import Proofs.GrammarProofs Spec.Typing Model.Errors Proofs.SemProofs Proofs.TypingProofs.
From Spl Require Import Model.Hover Model.Fold Proofs.LexerProofs Proofs.FoldProofs Proofs.HoverProofs.
From Spl Require Import Proofs.HoverValid Model.Goto Proofs.GotoValidModel.
From Spl Require Import Model.Refs Spec.Nav Proofs.GotoValidNav Proofs.GotoValidHandlers.
Local Open Scope nat_scope.

(* every type expression of a well-formed parameter / variable list denotes a type *)
Lemma wf_params_types Gi pn L ps L' es : wf_params Gi pn L ps L' es ->
  forall doc r n te toff inf off, In (PValid doc r n (Some (te, toff)) inf, off) ps ->
  exists cr t0, denotes [] Gi cr te t0.
Proof.
  induction 1 as [L | L doc is_ref name te o inf off t r L' es Hd _ _ _ IH]; intros doc' r' n' te' toff' inf' off' Hin;
    [contradiction|].
  destruct Hin as [Hin|Hin]; [|exact (IH _ _ _ _ _ _ _ Hin)].
  injection Hin as <- <- <- <- <- <- <-. eauto.
Qed.

Lemma wf_vars_types Gi pn L vs L' : wf_vars Gi pn L vs L' ->
  forall doc n te toff inf off, In (VValid doc n (Some (te, toff)) inf, off) vs ->
  exists Lk cr t0, denotes Lk Gi cr te t0.
Proof.
  induction 1 as [L | L doc name te o inf off t r L' Hd _ _ IH]; intros doc' n' te' toff' inf' off' Hin;
    [contradiction|].
  destruct Hin as [Hin|Hin]; [|exact (IH _ _ _ _ _ _ Hin)].
  injection Hin as <- <- <- <- <- <-. eauto.
Qed.

Ltac hshift i D := match goal with |- context [hpo ?sc ?o] => rewrite (hpo_shift sc o i D eq_refl) end.

Section Main.
Variables (p : aprog) (G : gtable) (t : text) (toks : list token).
Hypothesis Hwt : well_typed (expected p) G.
Hypothesis Hlex : lex t = Some toks.
Hypothesis Hk : map tk toks = flatten p ++ [Eof].

Local Notation d := (vdoc t toks p G).
Local Notation occs := (occurrences (expected p)).

(* the three `_at` functions answer what Spec/Nav.v prescribes for occurrence o *)
Definition handlers_at (x : text) (ctx : gentry) (gp : bool) (o : occ) : Prop :=
  declaration_at d x ctx gp = ROk (spec_declaration d o) /\
  type_definition_at d x ctx gp = ROk (spec_type_definition d o) /\
  implementation_at d x ctx gp = ROk (spec_implementation d o).

Definition agree (line col : N) (o : occ) : Prop :=
  goto_declaration d line col = ROk (spec_declaration d o)
  /\ goto_definition d line col = ROk (spec_declaration d o)
  /\ goto_type_definition d line col = ROk (spec_type_definition d o)
  /\ goto_implementation d line col = ROk (spec_implementation d o).

Lemma finish line col x ctx gp o :
  (forall K : text -> gentry -> bool -> res (option loc), with_cursor d line col K = K x ctx gp) ->
  handlers_at x ctx gp o -> agree line col o.
Proof.
  intros HK [H1 [H2 H3]]. unfold agree, goto_definition, goto_declaration, goto_type_definition, goto_implementation.
  rewrite !HK. repeat split; assumption.
Qed.

Lemma type_handlers o tte ctx gp :
  binding occs o = find_declaring occs [RTypeDecl] (o_name o) None ->
  lookup G (o_name o) = Some (GTypeE tte) -> glob ctx gp -> handlers_at (o_name o) ctx gp o.
Proof.
  intros Hb Hl Hg. destruct (type_goto p G t toks Hwt Hk _ _ ctx gp Hl Hg) as [T1 [T2 [T3 T4]]].
  destruct (spec_of_binding d o _ Hb) as [S1 [S2 S3]]. unfold handlers_at. rewrite S1, S2, S3, T1, T2, T3.
  destruct (find_declaring occs [RTypeDecl] (o_name o) None) as [bo|] eqn:E; [|repeat split; reflexivity].
  rewrite (T4 bo eq_refl). repeat split; reflexivity.
Qed.

Lemma proc_handlers o pe' pe gp :
  binding occs o = find_declaring occs [RProcDecl] (o_name o) None ->
  lookup G (o_name o) = Some (GProcE pe') -> lookup_for G (pe_local pe) gp (o_name o) = Some (EntProc pe') ->
  handlers_at (o_name o) (GProcE pe) gp o.
Proof.
  intros Hb Hl Hf. destruct (proc_goto p G t toks Hwt Hk _ _ pe gp Hl Hf) as [T1 [T2 [T3 T4]]].
  destruct (spec_of_binding d o _ Hb) as [S1 [S2 S3]]. unfold handlers_at. rewrite S1, S2, S3, T1, T2, T3.
  destruct (find_declaring occs [RProcDecl] (o_name o) None) as [bo|] eqn:E; [|repeat split; reflexivity].
  rewrite (T4 bo eq_refl). repeat split; reflexivity.
Qed.

Lemma local_handlers l1 c1 c2 xn c3 ps c4 c5 vs b c6 l2 Gi pe o le bo :
  let dd := DProc c1 c2 xn c3 ps c4 c5 vs b c6 in
  let D := len (flat_map fl_decl l1) in
  a_decls p = l1 ++ dd :: l2 ->
  pe_range pe = shift_range (info_range (mkinfo 0 (len (fl_decl dd)))) D ->
  sub_table Gi G -> chain_ok occs (len l1) Gi -> len l1 < len occs ->
  binding occs o = Some bo ->
  lookup (pe_local pe) (o_name o) = Some le ->
  local_item Gi xn D (Some xn) (pd_params (the_proc dd)) (pd_vars (the_proc dd)) le bo ->
  handlers_at (o_name o) (GProcE pe) false o.
Proof.
  intros dd D Hds Hr Hsub Hch Hn Hb Hl Hi.
  destruct (local_goto p G t toks Hwt Hlex Hk l1 c1 c2 xn c3 ps c4 c5 vs b c6 l2 Gi pe _ le bo Hds Hr Hsub Hch Hn Hl Hi)
    as [T1 [T2 [T3 T4]]].
  destruct (spec_of_binding d o _ Hb) as [S1 [S2 S3]]. unfold handlers_at. rewrite S1, S2, S3, T1, T2, T3.
  cbn [bloc]. destruct T4 as [T4|T4]; rewrite T4; repeat split; reflexivity.
Qed.

(* ---- the frame ---- *)
Lemma sorted : toks_sorted toks = true.
Proof. exact (ordered_sorted 0 _ (tiles_ordered 0 t _ (lex_tiles t _ Hlex))). Qed.

Lemma kinds_split l1 dd l2 : a_decls p = l1 ++ dd :: l2 ->
  map tk toks = flat_map fl_decl l1 ++ fl_decl dd ++ (flat_map fl_decl l2 ++ cm (a_ceof p) ++ [Eof]).
Proof. intros H. rewrite Hk. unfold flatten. rewrite H, flat_map_app. cbn [flat_map]. now rewrite <- !app_assoc. Qed.

Lemma frame l1 dd l2 (ho : hocc) tok line col ctx :
  a_decls p = l1 ++ dd :: l2 ->
  occ_at (fl_decl dd) (len (flat_map fl_decl l1)) ho ->
  nth_error toks (HoverValid.o_tok ho) = Some tok ->
  (ts tok <= get_insertion_index line col t)%N -> (get_insertion_index line col t < te tok)%N ->
  match gdecl_name (x_decl dd) with Some n => lookup G (id_val n) | None => None end = Some ctx ->
  forall K : text -> gentry -> bool -> res (option loc),
    with_cursor d line col K
    = K (HoverValid.o_name ho) ctx (global_kind (prev_kind_k None (firstn (HoverValid.o_tok ho) (map tk toks)))).
Proof.
  intros Hds Hat Hn H1 H2 Hc K.
  exact (with_cursor_occ p G t toks l1 dd l2 _ ho tok line col ctx K sorted Hds (kinds_split _ _ _ Hds)
           (toks_len p toks Hk) Hat Hn H1 H2 Hc).
Qed.

Lemma frame_w l1 dd l2 want (ho : hocc) tok line col ctx :
  a_decls p = l1 ++ dd :: l2 ->
  occ_at_w want (prev_kind_k None (flat_map fl_decl l1)) (fl_decl dd) (len (flat_map fl_decl l1)) ho ->
  nth_error toks (HoverValid.o_tok ho) = Some tok ->
  (ts tok <= get_insertion_index line col t)%N -> (get_insertion_index line col t < te tok)%N ->
  match gdecl_name (x_decl dd) with Some n => lookup G (id_val n) | None => None end = Some ctx ->
  forall K : text -> gentry -> bool -> res (option loc),
    with_cursor d line col K = K (HoverValid.o_name ho) ctx (want (o_scope ho)).
Proof.
  intros Hds Hat Hn H1 H2 Hc K.
  assert (Hat' : occ_at (fl_decl dd) (len (flat_map fl_decl l1)) ho) by (destruct Hat as [j [Ha [Hb _]]]; exists j; now split).
  rewrite (frame l1 dd l2 ho tok line col ctx Hds Hat' Hn H1 H2 Hc K).
  rewrite (kinds_split _ _ _ Hds). now rewrite (occ_at_w_abs want _ _ _ _ Hat).
Qed.

(* ---- an occurrence inside a type declaration ---- *)
Lemma type_case l1 c1 c2 xn c3 ty c4 l2 o tok line col :
  let dd := DType c1 c2 xn c3 ty c4 in
  let D := len (flat_map fl_decl l1) in
  a_decls p = l1 ++ dd :: l2 -> In o (occs_of_decl (x_decl dd, D)) ->
  nth_error toks (Nav.o_tok o) = Some tok ->
  (ts tok <= get_insertion_index line col t)%N -> (get_insertion_index line col t < te tok)%N ->
  agree line col o.
Proof.
  intros dd D Hds Ho Hn H1 H2.
  destruct (decl_view p G Hwt _ _ _ Hds) as [Gi [ke [Hke [Hlk [_ [Hsub _]]]]]]. fold D in Hke.
  inversion Hke as [d0 name te0 o0 t0 Hname _ _ Hty Hden | ]; subst. cbn [x_decl td_name td_ty] in Hname, Hty.
  injection Hname as <-. injection Hty as <- <-. cbn [fst snd id_val x_ident] in Hlk, Hden.
  match type of Hlk with lookup G xn = Some (GTypeE ?te1) => set (tte := te1) in * end.
  pose proof (type_decl_located c1 c2 xn c3 ty c4 D) as Hloc. cbv zeta in Hloc.
  cbn [x_decl occs_gdecl td_name td_ty] in Hloc. rewrite map_map in Hloc. cbn [snd] in Hloc. rewrite map_id in Hloc.
  unfold located in Hloc. rewrite Forall_forall in Hloc.
  assert (Hfin : forall o', Nav.o_tok o' = Nav.o_tok o ->
            In (hpo ScGlobal o') (occs_name D ScGlobal (Some (x_ident (len c1 + 1) c2 xn))
                                  ++ occs_opt_texpr D (Some (x_type 0 ty, len c1 + 1 + len c2 + 1 + len c3 + 1))) ->
            (forall gp, handlers_at (Nav.o_name o') (GTypeE tte) gp o') -> agree line col o').
  { intros o' Heq Hin Hh. eapply finish; [|apply Hh].
    apply (frame l1 dd l2 (hpo ScGlobal o') tok line col (GTypeE tte) Hds (Hloc _ Hin)); try assumption.
    unfold hpo, HoverValid.o_tok. cbn [fst]. now rewrite Heq. }
  unfold occs_of_decl in Ho. cbn [fst snd x_decl dd td_name td_ty] in Ho. apply in_app_or in Ho as [Ho|Ho].
  - destruct Ho as [<-|[]]. apply Hfin; [reflexivity| |].
    + hshift (x_ident (len c1 + 1) c2 xn) D. apply in_or_app. left. left. reflexivity.
    + intros gp. apply (type_handlers _ tte).
      * cbn [binding o_role]. symmetry. exact (find_type_decl p G Hwt _ _ _ _ _ _ _ _ Hds).
      * exact Hlk.
      * exact I.
  - apply mk_occs_inv in Ho as [i [Hi ->]].
    destruct (ident_in_texpr (x_type 0 ty) (len c1 + 1 + len c2 + 1 + len c3 + 1)) as [j|] eqn:Ej; [|destruct Hi].
    destruct Hi as [<-|[]]. destruct (denotes_ident _ _ _ _ _ Hden _ _ Ej) as [tte' Htte'].
    apply Hfin; [reflexivity| |].
    + hshift j D. apply in_or_app. right. cbn [occs_opt_texpr]. exact (texpr_bridge _ _ _ D Ej).
    + intros gp. apply (type_handlers _ tte'); [reflexivity | exact (Hsub _ _ Htte') | exact I].
Qed.

(* ---- an occurrence inside a procedure declaration ---- *)
Lemma proc_case l1 c1 c2 xn c3 ps c4 c5 vs b c6 l2 o tok line col :
  let dd := DProc c1 c2 xn c3 ps c4 c5 vs b c6 in
  let D := len (flat_map fl_decl l1) in
  a_decls p = l1 ++ dd :: l2 -> In o (occs_of_decl (x_decl dd, D)) ->
  nth_error toks (Nav.o_tok o) = Some tok ->
  (ts tok <= get_insertion_index line col t)%N -> (get_insertion_index line col t < te tok)%N ->
  agree line col o.
Proof.
  intros dd D Hds Ho Hn H1 H2.
  destruct (decl_view p G Hwt _ _ _ Hds) as [Gi [ke [Hke [Hlk [_ [Hsub [Hch Hlt]]]]]]]. fold D in Hke.
  change (x_decl dd) with (GProc (the_proc dd)) in Hke, Ho.
  assert (Hown : pd_name (the_proc dd) = Some (x_ident (len c1 + 1) c2 xn)) by reflexivity.
  inversion Hke as [ | d0 name L1 pes L2 Hname _ Hpar Hvar]; subst. rewrite Hown in Hname. injection Hname as <-.
  cbn [fst snd id_val x_ident] in Hlk, Hpar, Hvar.
  match type of Hlk with lookup G xn = Some (GProcE ?pe0) => set (pe := pe0) in * end.
  assert (HpL : pe_local pe = L2) by reflexivity.
  assert (Hpr : pe_range pe = shift_range (info_range (mkinfo 0 (len (fl_decl dd)))) D) by reflexivity.
  (* the body is well-typed under the local table of the entry *)
  pose proof Hwt as [_ Hbodies]. unfold wt_bodies in Hbodies. rewrite Forall_forall in Hbodies.
  assert (Hg : In (GProc (the_proc dd), D) (pg_decls (expected p))).
  { rewrite (decls_split p _ _ _ Hds). apply in_or_app. right. left. reflexivity. }
  destruct (Hbodies _ Hg) as [_ Hwb]. unfold wt_body in Hwb. cbn [fst snd] in Hwb.
  assert (Hoe : own_entry G (the_proc dd) D pe).
  { exists (x_ident (len c1 + 1) c2 xn). repeat split; exact Hlk. }
  pose proof (proj2 (wt_occs2 L2 G) _ (Hwb pe Hoe) D) as Hbody. rewrite Forall_forall in Hbody.
  (* where the occurrences sit *)
  pose proof (proc_header_hlocated c1 c2 xn c3 ps c4 c5 vs b c6 D (prev_kind_k None (flat_map fl_decl l1))) as Hloc_h.
  cbv zeta in Hloc_h. fold dd in Hloc_h. unfold wlocated in Hloc_h. rewrite Forall_forall in Hloc_h.
  pose proof (proc_body_located c1 c2 xn c3 ps c4 c5 vs b c6 D (prev_kind_k None (flat_map fl_decl l1))) as Hloc_b.
  cbv zeta in Hloc_b. fold dd in Hloc_b. unfold wlocated in Hloc_b. rewrite Forall_forall in Hloc_b.
  assert (Hfin : forall want sc o', Nav.o_tok o' = Nav.o_tok o ->
            occ_at_w want (prev_kind_k None (flat_map fl_decl l1)) (fl_decl dd) D (hpo sc o') ->
            handlers_at (Nav.o_name o') (GProcE pe) (want sc) o' -> agree line col o').
  { intros want sc o' Heq Hat Hh. eapply finish; [|apply Hh].
    apply (frame_w l1 dd l2 want (hpo sc o') tok line col (GProcE pe) Hds Hat); try assumption.
    unfold hpo, HoverValid.o_tok. cbn [fst]. now rewrite Heq. }
  unfold occs_of_decl in Ho. cbn [fst snd] in Ho. rewrite Hown in Ho. cbn [option_map id_val x_ident opt_list] in Ho.
  set (ps' := pd_params (the_proc dd)) in *. set (vs' := pd_vars (the_proc dd)) in *. set (st := pd_stmts (the_proc dd)) in *.
  repeat (apply in_app_or in Ho as [Ho|Ho]).
  - (* the name of the procedure *)
    apply mk_occs_inv in Ho as [i [[<-|[]] ->]]. apply (Hfin is_gscope ScGlobal); [reflexivity| |].
    + hshift (x_ident (len c1 + 1) c2 xn) D. apply Hloc_h. unfold proc_header_occs. rewrite Hown.
      apply in_or_app. left. left. reflexivity.
    + cbn [is_gscope]. apply (proc_handlers _ pe).
      * cbn [binding o_role]. symmetry. exact (find_proc_decl_occ p G Hwt _ _ _ _ _ _ _ _ _ _ _ _ Hds).
      * exact Hlk.
      * unfold Nav.o_name. cbn [o_id shift_ident id_val x_ident]. unfold lookup_for, lt_lookup. now rewrite Hlk.
  - (* a parameter's name *)
    apply param_occs_inv in Ho as [doc [r [i [ty [inf [po [Hin ->]]]]]]].
    destruct (param_item Gi xn D (Some xn) [] ps' L1 pes vs' Hpar _ _ _ _ _ _ Hin) as [le [Hle Hitem]].
    apply (Hfin is_gscope ScLocal); [reflexivity| |].
    + hshift (shift_ident i po) D. apply Hloc_h. unfold proc_header_occs. apply in_or_app. right. apply in_or_app. left.
      exact (param_name_bridge D _ _ _ _ _ _ _ Hin).
    + cbn [is_gscope].
      eapply (local_handlers l1 c1 c2 xn c3 ps c4 c5 vs b c6 l2 Gi pe _ le _ Hds Hpr Hsub Hch Hlt); [reflexivity | | exact Hitem].
      rewrite HpL. exact (wf_vars_mono _ _ _ _ _ Hvar _ _ Hle).
  - (* a type name in a parameter's type *)
    apply mk_occs_inv in Ho as [i [Hi ->]].
    destruct (types_in_params_inv _ _ Hi) as [doc [r [n [te [toff [inf [po [j [Hin [Hj ->]]]]]]]]]].
    destruct (wf_params_types _ _ _ _ _ _ Hpar _ _ _ _ _ _ _ Hin) as [cr [t0 Hden]].
    destruct (denotes_ident _ _ _ _ _ Hden _ _ Hj) as [tte Htte].
    apply (Hfin is_gscope ScGlobal); [reflexivity| |].
    + hshift (shift_ident j po) D. apply Hloc_h. unfold proc_header_occs. apply in_or_app. right. apply in_or_app. left.
      exact (param_type_bridge D _ _ Hi).
    + cbn [is_gscope]. apply (type_handlers _ tte); [reflexivity | exact (Hsub _ _ Htte) | reflexivity].
  - (* a variable's name *)
    apply var_occs_inv in Ho as [doc [i [ty [inf [po [Hin ->]]]]]].
    destruct (var_item Gi xn D (Some xn) L1 vs' L2 ps' Hvar _ _ _ _ _ Hin) as [le [Hle Hitem]].
    apply (Hfin is_gscope ScLocal); [reflexivity| |].
    + hshift (shift_ident i po) D. apply Hloc_h. unfold proc_header_occs. apply in_or_app. right. apply in_or_app. right.
      exact (var_name_bridge D _ _ _ _ _ _ Hin).
    + cbn [is_gscope].
      eapply (local_handlers l1 c1 c2 xn c3 ps c4 c5 vs b c6 l2 Gi pe _ le _ Hds Hpr Hsub Hch Hlt); [reflexivity | | exact Hitem].
      rewrite HpL. exact Hle.
  - (* a type name in a variable's type *)
    apply mk_occs_inv in Ho as [i [Hi ->]].
    destruct (types_in_vars_inv _ _ Hi) as [doc [n [te [toff [inf [po [j [Hin [Hj ->]]]]]]]]].
    destruct (wf_vars_types _ _ _ _ _ Hvar _ _ _ _ _ _ Hin) as [Lk [cr [t0 Hden]]].
    destruct (denotes_ident _ _ _ _ _ Hden _ _ Hj) as [tte Htte].
    apply (Hfin is_gscope ScGlobal); [reflexivity| |].
    + hshift (shift_ident j po) D. apply Hloc_h. unfold proc_header_occs. apply in_or_app. right. apply in_or_app. right.
      exact (var_type_bridge D _ _ Hi).
    + cbn [is_gscope]. apply (type_handlers _ tte); [reflexivity | exact (Hsub _ _ Htte) | reflexivity].
  - (* a callee *)
    apply mk_occs_inv in Ho as [i [Hi ->]].
    pose proof (proj2 (stmts_bridge st D i) Hi) as Hb. pose proof (Hbody _ Hb) as Hres.
    unfold body_res, hp, o_scope, HoverValid.o_name in Hres. cbn [fst snd] in Hres. destruct Hres as [HL [pe' Hpe']].
    apply (Hfin never ScGlobal); [reflexivity| |].
    + hshift i D. apply Hloc_b. exact Hb.
    + unfold never. apply (proc_handlers _ pe' pe).
      * cbn [binding o_role o_proc]. unfold Nav.o_name. cbn [o_id shift_ident id_val].
        pose proof (find_local p G Hwt l1 c1 c2 xn c3 ps c4 c5 vs b c6 l2 Gi L1 pes L2 Hds Hpar Hvar (id_val i)) as Hfl.
        rewrite HL in Hfl. now rewrite Hfl.
      * exact Hpe'.
      * unfold Nav.o_name. cbn [o_id shift_ident id_val]. unfold lookup_for, lt_lookup. cbv beta iota. rewrite HpL, HL, Hpe'. reflexivity.
  - (* a variable in a statement *)
    apply mk_occs_inv in Ho as [i [Hi ->]].
    pose proof (proj1 (stmts_bridge st D i) Hi) as Hb. pose proof (Hbody _ Hb) as Hres.
    unfold body_res, hp, o_scope, HoverValid.o_name in Hres. cbn [fst snd] in Hres.
    destruct (lookup L2 (id_val i)) as [le|] eqn:E; [clear Hres | contradiction].
    pose proof (find_local p G Hwt l1 c1 c2 xn c3 ps c4 c5 vs b c6 l2 Gi L1 pes L2 Hds Hpar Hvar (id_val i)) as Hfl.
    rewrite E in Hfl. destruct Hfl as [bo [Hfd Hitem]].
    apply (Hfin never ScLocal); [reflexivity| |].
    + hshift i D. apply Hloc_b. exact Hb.
    + unfold never.
      eapply (local_handlers l1 c1 c2 xn c3 ps c4 c5 vs b c6 l2 Gi pe _ le bo Hds Hpr Hsub Hch Hlt); [ | | exact Hitem].
      * cbn [binding o_role o_proc]. unfold Nav.o_name. cbn [o_id shift_ident id_val]. now rewrite Hfd.
      * rewrite HpL. exact E.
Qed.

End Main.

(* ---------------------------------------------------------------------------------------- *)
(* the theorem                                                                               *)

Theorem goto_valid : forall (p : aprog) (G : gtable) (t : text) (toks : list token) (d : doc),
  prog_ok p = true -> well_typed (expected p) G ->
  lex t = Some toks -> map tk toks = flatten p ++ [Eof] ->
  new_doc_res t = ODone d ->
  forall o l c, In o (occurrences (d_ast d)) -> cursor_inside d o l c ->
    goto_declaration d l c = ROk (spec_declaration d o)
    /\ goto_definition d l c = ROk (spec_declaration d o)
    /\ goto_type_definition d l c = ROk (spec_type_definition d o)
    /\ goto_implementation d l c = ROk (spec_implementation d o).
Proof.
  intros p G t toks d Hok Hwt Hlex Hk Hd o l c.
  rewrite (valid_doc p G t toks d Hok Hwt Hlex Hk Hd). clear Hd d. fold (vdoc t toks p G).
  intros Ho [tok [Hn Hin]]. cbn [vdoc d_toks d_text d_ast] in Ho, Hn, Hin.
  unfold in_range in Hin. cbn [fst snd] in Hin. apply andb_true_iff in Hin as [Ha Hb].
  apply N.leb_le in Ha. apply N.ltb_lt in Hb.
  unfold occurrences in Ho. apply in_flat_map in Ho as [[g D] [Hg Ho]]. cbn [expected pg_decls] in Hg.
  destruct (x_decls_in _ _ _ _ Hg) as [l1 [dd [l2 [Hds [-> HD]]]]]. cbn [Nat.add] in HD. subst D.
  destruct dd as [c1 c2 xn c3 ty c4 | c1 c2 xn c3 ps c4 c5 vs b c6].
  - exact (type_case p G t toks Hwt Hlex Hk l1 c1 c2 xn c3 ty c4 l2 o tok l c Hds Ho Hn Ha Hb).
  - exact (proc_case p G t toks Hwt Hlex Hk l1 c1 c2 xn c3 ps c4 c5 vs b c6 l2 o tok l c Hds Ho Hn Ha Hb).
Qed.
