(* C13 on valid programs, part 3a - the three handlers of Model/Refs.v computed on ANY document whose
   token vector is in text order, with the cursor inside the identifier token of an occurrence o of
   Spec/Nav.v, GIVEN that the walk collects the occurrences with the key of o and that "bound to the
   same entity" means "the same key" ([refs_at]).  No grammar, no typing here. *)
From Coq Require Import PeanoNat Lia Bool List NArith Permutation.
From Spl Require Import Model.Refs Model.Fold Proofs.FoldProofs Proofs.HoverProofs Proofs.RangeProofsIdent Proofs.HoverValid.
From Spl Require Import Proofs.GotoProofs Proofs.RefsProofs Spec.Nav Proofs.RefsValidWalks Proofs.RefsValidSem.
Import ListNotations.
Local Open Scope nat_scope.

(* ---------------------------------------------------------------------------------------- *)
(* lists *)

Lemma filter_map_comm {A B} (f : A -> B) (g : B -> bool) l : filter g (map f l) = map f (filter (fun x => g (f x)) l).
Proof. induction l as [|a l IH]; [reflexivity|]. cbn [map filter]. destruct (g (f a)); cbn [map]; now rewrite IH. Qed.

Lemma filter_andb {A} (f g : A -> bool) l : filter (fun x => f x && g x) l = filter g (filter f l).
Proof. induction l as [|a l IH]; [reflexivity|]. cbn [filter]. destruct (f a); cbn [andb filter]; [destruct (g a)|]; now rewrite IH. Qed.

Lemma filter_ext_in2 {A} (f g : A -> bool) l : (forall x, In x l -> f x = g x) -> filter f l = filter g l.
Proof.
  induction l as [|a l IH]; intros H; [reflexivity|]. cbn [filter]. rewrite (H a (or_introl eq_refl)), IH; [reflexivity|].
  intros x Hx. apply H. now right.
Qed.

(* ---------------------------------------------------------------------------------------- *)
(* the frame: cursor, identifier, context, global position                                   *)
Local Open Scope N_scope.

Theorem cursor_frame (d : doc) line col k tok x gd D ctx :
  let index := get_insertion_index line col (d_text d) in
  toks_sorted (d_toks d) = true -> nth_error (d_toks d) k = Some tok -> tk tok = Ident x ->
  ts tok <= index -> index < te tok ->
  find_decl (d_toks d) index (pg_decls (d_ast d)) = ROk (Some (gd, D)) ->
  match gdecl_name gd with Some n => lookup (d_table d) (id_val n) | None => None end = Some ctx ->
  exists c, doc_cursor d line col = ROk c /\ cursor_ident c = Some (x, (ts tok, te tok)) /\ c_ctx c = Some ctx
            /\ is_global_position c = global_kind (prev_kind_k None (firstn k (map tk (d_toks d)))).
Proof.
  intros index Hs Hn Hk H1 H2 Hf Hc. unfold doc_cursor. fold index. rewrite Hf. cbn [rbind]. eexists. split; [reflexivity|].
  unfold cursor_ident, is_global_position. cbn [c_doc c_index c_ctx].
  rewrite (token_at_sorted _ _ _ _ Hs Hn H1 H2), Hk. split; [reflexivity|]. split; [exact Hc|].
  fold (global_position_at (d_toks d) index). apply (global_position_sorted _ _ _ _ Hs Hn H1 H2).
Qed.

(* ---------------------------------------------------------------------------------------- *)
(* occurrences -> ranges                                                                     *)
Local Open Scope nat_scope.

(* the byte range of the identifier token of an occurrence *)
Definition tokr (toks : list token) (x : occ) : N * N :=
  match nth_error toks (o_tok x) with Some t => (ts t, te t) | None => (0%N, 0%N) end.

Definition occ_ok (toks : list token) (x : occ) : Prop := IdOk (o_id x) /\ nth_error toks (o_tok x) <> None.

Lemma text_ranges_occs toks L : (forall x, In x L -> occ_ok toks x) ->
  text_ranges toks (map o_id L) = ROk (map (fun x => (o_name x, tokr toks x)) L).
Proof.
  induction L as [|x L IH]; intros H; [reflexivity|]. cbn [map text_ranges].
  destruct (H x (or_introl eq_refl)) as [Hi Hn]. unfold ident_text_range. unfold IdOk in Hi.
  destruct (Nat.ltb_spec (i_s (id_info (o_id x))) (i_e (id_info (o_id x)))); [|lia].
  unfold tokr. fold (o_tok x). destruct (nth_error toks (o_tok x)) as [t|]; [|contradiction]. cbn [rbind].
  rewrite IH; [reflexivity|]. intros y Hy. apply H. now right.
Qed.

Lemma locs_occs d L : (forall x, In x L -> occ_ok (d_toks d) x) ->
  opt_locs (map (loc_of_occ d) L) = map (fun x => pos_range (tokr (d_toks d) x) (d_text d)) L.
Proof.
  induction L as [|x L IH]; intros H; [reflexivity|]. cbn [map]. destruct (H x (or_introl eq_refl)) as [_ Hn].
  unfold loc_of_occ at 1, tokr at 1. destruct (nth_error (d_toks d) (o_tok x)) as [t|]; [|contradiction]. cbn [opt_locs].
  rewrite IH; [reflexivity|]. intros y Hy. apply H. now right.
Qed.

(* two identifier tokens with the same byte range, one of them non-empty, are the same token *)
Lemma same_range_same_token toks i j a b :
  toks_sorted toks = true -> nth_error toks i = Some a -> nth_error toks j = Some b -> (ts b < te b)%N ->
  range_eqbN (ts a, te a) (ts b, te b) = Nat.eqb i j.
Proof.
  intros Hs Ha Hb Hne. unfold range_eqbN. cbn [fst snd]. destruct (Nat.eqb_spec i j) as [->|Hij].
  - rewrite Ha in Hb. injection Hb as <-. now rewrite !N.eqb_refl.
  - destruct (N.eqb_spec (ts a) (ts b)) as [E1|]; [|reflexivity]. destruct (N.eqb_spec (te a) (te b)) as [E2|]; [|reflexivity].
    exfalso. destruct (Nat.lt_ge_cases i j) as [Hlt|Hge].
    + pose proof (sorted_pair _ Hs i j a b Hlt Ha Hb). lia.
    + pose proof (sorted_pair _ Hs j i b a ltac:(lia) Hb Ha). lia.
Qed.

(* ---------------------------------------------------------------------------------------- *)
(* the three handlers                                                                        *)

Theorem refs_at (d : doc) (o : occ) line col tok gd D ctx :
  let occs := occurrences (d_ast d) in
  let index := get_insertion_index line col (d_text d) in
  let gp := global_kind (prev_kind_k None (firstn (o_tok o) (map tk (d_toks d)))) in
  toks_sorted (d_toks d) = true -> nth_error (d_toks d) (o_tok o) = Some tok -> tk tok = Ident (o_name o) ->
  (ts tok <= index)%N -> (index < te tok)%N ->
  find_decl (d_toks d) index (pg_decls (d_ast d)) = ROk (Some (gd, D)) ->
  match gdecl_name gd with Some n => lookup (d_table d) (id_val n) | None => None end = Some ctx ->
  In o occs -> (forall x, In x occs -> occ_ok (d_toks d) x) ->
  find_referenced_identifiers (o_name o) ctx (d_ast d) (d_table d) gp = map o_id (filter (fun x => samekey x o) occs) ->
  is_predefined (o_name o) ctx (d_table d) gp = match binding occs o with Some _ => false | None => true end ->
  (forall x, In x occs -> same_entity occs x o = samekey x o) ->
  (exists rs, references d line col = ROk (Some rs) /\ Permutation rs (spec_references d o))
  /\ match spec_rename d o with
     | Some es' => exists es, rename d line col = ROk (Some es) /\ Permutation es es'
     | None => rename d line col = ROk None
     end
  /\ prepare_rename d line col = ROk (spec_prepare d o).
Proof.
  intros occs index gp Hs Hn Hk H1 H2 Hf Hc Ho Hok Hwalk Hpre Hkey.
  destruct (cursor_frame d line col (o_tok o) tok (o_name o) gd D ctx Hs Hn Hk H1 H2 Hf Hc) as [c [Hdc [Hid [Hctx Hgp]]]].
  fold gp in Hgp.
  set (L := filter (fun x => samekey x o) occs).
  assert (HL : forall x, In x L -> occ_ok (d_toks d) x) by (intros x Hx; apply Hok; now apply filter_In in Hx).
  assert (Htr : text_ranges (d_toks d) (find_referenced_identifiers (o_name o) ctx (d_ast d) (d_table d) gp)
                = ROk (map (fun x => (o_name x, tokr (d_toks d) x)) L)).
  { rewrite Hwalk. now apply text_ranges_occs. }
  assert (Hse : filter (fun x => same_entity occs x o) occs = L) by (apply filter_ext_in2; exact Hkey).
  assert (Hne : (ts tok < te tok)%N) by lia.
  split; [|split].
  - (* references *)
    unfold references, with_cursor_r. rewrite Hdc. cbn [rbind]. rewrite Hid, Hctx, Hgp. cbn [fst]. rewrite Htr. cbn [rbind].
    eexists. split; [reflexivity|]. unfold spec_references. fold occs.
    rewrite filter_andb, Hse, filter_map_comm, map_map. cbn [snd].
    rewrite locs_occs; [|intros x Hx; apply HL; now apply filter_In in Hx].
    replace (filter (fun x => negb (ident_eqb (o_name x, tokr (d_toks d) x) (o_name o, (ts tok, te tok)))) L)
      with (filter (fun x => negb (Nat.eqb (o_tok x) (o_tok o))) L); [apply Permutation_refl|].
    apply filter_ext_in2. intros x Hx. f_equal. unfold ident_eqb. cbn [fst snd].
    pose proof (HL x Hx) as [_ Hnx]. apply filter_In in Hx as [_ Hx]. apply samekey_spec in Hx as [_ [Hnm _]].
    rewrite Hnm, text_eqb_refl'. cbn [andb]. unfold tokr. destruct (nth_error (d_toks d) (o_tok x)) as [tx|] eqn:Ex; [|contradiction].
    symmetry. exact (same_range_same_token _ _ _ _ _ Hs Ex Hn Hne).
  - (* rename *)
    unfold spec_rename, rename, with_cursor_r. fold occs. rewrite Hdc. cbn [rbind]. rewrite Hid, Hctx, Hgp. cbn [fst]. rewrite Hpre.
    destruct (binding occs o) as [b|]; [|reflexivity]. rewrite Htr. cbn [rbind]. eexists. split; [reflexivity|].
    rewrite Hse, map_map. cbn [snd]. rewrite locs_occs; [apply Permutation_refl | exact HL].
  - (* prepareRename *)
    unfold spec_prepare, prepare_rename. fold occs. rewrite Hdc. cbn [rbind]. rewrite Hid, Hctx, Hgp, Hpre.
    destruct (binding occs o) as [b|]; [|reflexivity]. unfold loc_of_occ. now rewrite Hn.
Qed.
