(* T6 (locality): the result of the global-declaration parser at a position depends only on the
   tokens up to and including the next synchronising (proc/type/Eof) token.
   Two token lists toks1, toks2 agree on the indices <= j, and index j holds a synchronising token.
   [Loc p1 p2]: started at any position <= j the two parsers return the SAME result (value, end
   state, error state, or out-of-fuel alike). *)
From Coq Require Import Arith Lia List.
From Spl Require Import Model.Parser Proofs.ParserComb Proofs.ParserEqns Proofs.ParserFwd Proofs.ParserDecl.
Local Open Scope nat_scope.

Lemma lc_agree l1 : forall l2 n,
  (forall i, i <= n -> nth_error l1 i = nth_error l2 i) ->
  (exists t, nth_error l1 n = Some t /\ is_comment (tk t) = false) ->
  leading_comments l1 = leading_comments l2.
Proof.
  induction l1 as [|x l1 IH]; intros l2 n Hag (t & Ht & Hc).
  - destruct n; discriminate Ht.
  - pose proof (Hag 0 ltac:(lia)) as H0. destruct l2 as [|y l2]; [discriminate H0|].
    injection H0 as <-. cbn [leading_comments].
    destruct (tk x) eqn:Ex; try reflexivity.
    destruct n as [|n]; [cbn in Ht; injection Ht as ->; rewrite Ex in Hc; discriminate|].
    f_equal. apply (IH l2 n); [|eauto]. intros i Hi. apply (Hag (S i)). lia.
Qed.

Lemma skipn_cons_nth {A} (l : list A) a :
  skipn a l = match nth_error l a with Some x => x :: skipn (S a) l | None => [] end.
Proof.
  revert l. induction a as [|a IH]; intros [|y l]; try reflexivity.
  cbn [skipn nth_error]. rewrite IH. destruct (nth_error l a); reflexivity.
Qed.

Lemma firstn_skipn_agree {A} (l1 l2 : list A) n : forall a,
  (forall i, i < a + n -> nth_error l1 i = nth_error l2 i) ->
  firstn n (skipn a l1) = firstn n (skipn a l2).
Proof.
  induction n as [|n IH]; intros a Hag; [reflexivity|].
  rewrite (skipn_cons_nth l1 a), (skipn_cons_nth l2 a), (Hag a) by lia.
  destruct (nth_error l2 a); [|reflexivity]. cbn [firstn]. f_equal. apply IH.
  intros i Hi. apply Hag. lia.
Qed.

Section Local.
Variables toks1 toks2 : list token.
Variable j : nat.
Hypothesis Hag : forall i, i <= j -> nth_error toks1 i = nth_error toks2 i.
Hypothesis Hj : exists t, nth_error toks1 j = Some t /\ sync_full (tk t) = true.

Notation N1 := (length toks1).
Notation N2 := (length toks2).
Notation FwdF1 := (Fwd toks1 sync_full).

Lemma HsF : forall k, sync_full k = true -> k = KProc \/ k = KType \/ k = Eof.
Proof. exact sync_full_ok. Qed.

Lemma j_lt1 : j < N1.
Proof. destruct Hj as (t & Ht & _). apply nth_error_Some. congruence. Qed.

Lemma j_lt2 : j < N2.
Proof. destruct Hj as (t & Ht & _). rewrite Hag in Ht by lia. apply nth_error_Some. congruence. Qed.

Lemma j_sig : exists t, nth_error toks1 j = Some t /\ is_comment (tk t) = false.
Proof.
  destruct Hj as (t & Ht & Hs). exists t. split; [exact Ht|].
  destruct (HsF _ Hs) as [->|[->| ->]]; reflexivity.
Qed.

Lemma comments_agree p : p <= j -> comments_at toks1 p = comments_at toks2 p.
Proof.
  intros Hp. unfold comments_at. apply lc_agree with (j - p).
  - intros i Hi. rewrite !nth_error_skipn_add. apply Hag. lia.
  - destruct j_sig as (t & Ht & Hc). exists t. rewrite nth_error_skipn_add.
    now replace (p + (j - p)) with j by lia.
Qed.

Lemma sig_agree p : p <= j -> sig_at toks1 p = sig_at toks2 p.
Proof. intros Hp. unfold sig_at. now rewrite comments_agree. Qed.

Lemma sig_le_j p : p <= j -> sig_at toks1 p <= j.
Proof. intros Hp. destruct j_sig as (t & Ht & Hc). now apply sig_at_stop with t. Qed.

Lemma Mv_le_j s s' : Mv toks1 sync_full s s' -> pos s <= j -> pos s' <= j.
Proof.
  intros (_ & _ & _ & Hsk) Hs. destruct (le_lt_dec (pos s') j) as [|Hlt]; [assumption|]. exfalso.
  destruct Hj as (t & Ht & Hsy). assert (H : pos s <= j < pos s') by lia.
  specialize (Hsk j H t Ht). congruence.
Qed.

Definition Loc {A} (p1 p2 : parser A) : Prop := forall s, pos s <= j -> p1 s = p2 s.

Lemma Loc_le1 s : pos s <= j -> pos s <= N1.
Proof. pose proof j_lt1. lia. Qed.

Lemma Loc_fuel {A} : Loc (fun _ : st => @PFuel A) (fun _ => PFuel).
Proof. intros s _. reflexivity. Qed.

Lemma Loc_map {A B} (f : A -> B) p1 p2 : Loc p1 p2 -> Loc (p_map f p1) (p_map f p2).
Proof. intros H s Hs. unfold p_map. now rewrite H. Qed.

Lemma Loc_alt {A} (p1 p2 q1 q2 : parser A) : Loc p1 p2 -> Loc q1 q2 -> Loc (p_alt p1 q1) (p_alt p2 q2).
Proof. intros Hp Hq s Hs. unfold p_alt. now rewrite Hp, Hq. Qed.

Lemma Loc_restore {A} (p1 p2 : parser A) : Loc p1 p2 -> Loc (p_restore p1) (p_restore p2).
Proof. intros H s Hs. unfold p_restore. now rewrite H. Qed.

Lemma Loc_opt {A} (p1 p2 : parser A) : Loc p1 p2 -> Loc (p_opt p1) (p_opt p2).
Proof. intros H s Hs. unfold p_opt. now rewrite H. Qed.

Lemma Loc_info {A} (p1 p2 : parser A) : Loc p1 p2 -> Loc (p_info p1) (p_info p2).
Proof. intros H s Hs. unfold p_info. now rewrite (H (set_ebuf s [])). Qed.

Lemma Loc_expect {A} (p1 p2 : parser A) m : Loc p1 p2 -> Loc (p_expect p1 m) (p_expect p2 m).
Proof. intros H s Hs. unfold p_expect. now rewrite H. Qed.

Lemma Loc_ref {A} (p1 p2 : parser A) : Loc p1 p2 -> Loc (p_ref p1) (p_ref p2).
Proof. intros H s Hs. unfold p_ref. now rewrite (H (set_refp s (pos s))). Qed.

Lemma Loc_confusable {A} (p1 p2 : parser A) m : Loc p1 p2 -> Loc (p_confusable p1 m) (p_confusable p2 m).
Proof. intros H s Hs. unfold p_confusable. now rewrite (Loc_info _ _ H). Qed.

Lemma Loc_bind {A B} (p1 p2 : parser A) (k1 k2 : st -> A -> pres B) :
  Loc p1 p2 -> FwdF1 p1 -> (forall a, Loc (fun s => k1 s a) (fun s => k2 s a)) ->
  Loc (fun s => bind (p1 s) k1) (fun s => bind (p2 s) k2).
Proof.
  intros Hp Fp Hk s Hs. rewrite <- Hp by exact Hs.
  destruct (p1 s) as [s1 a|e|] eqn:E; cbn [bind]; try reflexivity.
  apply (Hk a). eapply Mv_le_j; [|exact Hs]. exact (Fwd_ok _ _ _ _ _ _ Fp (Loc_le1 s Hs) E).
Qed.

Lemma Loc_pair {A B} (p1 p2 : parser A) (q1 q2 : parser B) :
  Loc p1 p2 -> FwdF1 p1 -> Loc q1 q2 -> Loc (p_pair p1 q1) (p_pair p2 q2).
Proof.
  intros Hp Fp Hq. unfold p_pair. apply Loc_bind; [exact Hp | exact Fp|].
  intros a s Hs. now rewrite Hq.
Qed.

Lemma Loc_many0 {A} fuel (p1 p2 : parser A) : Loc p1 p2 -> FwdF1 p1 -> Loc (p_many0 fuel p1) (p_many0 fuel p2).
Proof.
  intros Hp Fp. induction fuel as [|f IH]; intros s Hs; cbn [p_many0]; [reflexivity|].
  rewrite <- Hp by exact Hs. destruct (p1 s) as [s1 a|e|] eqn:E; try reflexivity.
  destruct (Nat.eqb (pos s1) (pos s)); [reflexivity|]. rewrite IH; [reflexivity|].
  eapply Mv_le_j; [|exact Hs]. exact (Fwd_ok _ _ _ _ _ _ Fp (Loc_le1 s Hs) E).
Qed.

Lemma Loc_comments : Loc (p_comments toks1) (p_comments toks2).
Proof. intros s Hs. unfold p_comments. now rewrite comments_agree. Qed.

Lemma Loc_tag f : Loc (p_tag toks1 f) (p_tag toks2 f).
Proof.
  intros s Hs. unfold p_tag. rewrite <- comments_agree by exact Hs. cbn [pos adv].
  fold (sig_at toks1 (pos s)). now rewrite Hag by now apply sig_le_j.
Qed.

(* look-aheads *)
Definition LaAgree (la1 la2 : nat -> bool) : Prop := forall p, p <= j -> la1 p = la2 p.

Lemma LaAgree_tag f : LaAgree (la_tag toks1 f) (la_tag toks2 f).
Proof. intros p Hp. rewrite !la_tag_spec, <- sig_agree by exact Hp. now rewrite Hag by now apply sig_le_j. Qed.

Lemma LaAgree_ident_then f : LaAgree (la_ident_then toks1 f) (la_ident_then toks2 f).
Proof.
  intros p Hp. unfold la_ident_then. rewrite <- sig_agree by exact Hp.
  pose proof (sig_le_j p Hp) as Hle. rewrite <- Hag by exact Hle.
  destruct (nth_error toks1 (sig_at toks1 p)) as [t|] eqn:Et; [|reflexivity].
  destruct (is_ident (tk t)) eqn:Ei; [|reflexivity]. apply LaAgree_tag.
  destruct (Nat.eq_dec (sig_at toks1 p) j) as [Heq|]; [|lia]. exfalso.
  destruct Hj as (t' & Ht' & Hs'). rewrite Heq in Et. rewrite Et in Ht'. injection Ht' as <-.
  destruct (HsF _ Hs') as [H|[H|H]]; rewrite H in Ei; discriminate.
Qed.

Lemma LaAgree_global : LaAgree (la_global toks1) (la_global toks2).
Proof. apply LaAgree_tag. Qed.

Lemma LaAgree_stmt : LaAgree (la_stmt toks1) (la_stmt toks2).
Proof. intros p Hp. unfold la_stmt. now rewrite LaAgree_tag, LaAgree_ident_then, LaAgree_global. Qed.

Lemma LaAgree_var_dec : LaAgree (la_var_dec toks1) (la_var_dec toks2).
Proof. intros p Hp. unfold la_var_dec. now rewrite LaAgree_tag, LaAgree_stmt, LaAgree_ident_then. Qed.

Lemma LaAgree_param : LaAgree (la_param toks1) (la_param toks2).
Proof. intros p Hp. unfold la_param. now rewrite LaAgree_tag, LaAgree_var_dec. Qed.

Lemma la_global_j : la_global toks1 j = true.
Proof.
  destruct Hj as (t & Ht & Hs). destruct j_sig as (t' & Ht' & Hc). rewrite Ht in Ht'. injection Ht' as <-.
  unfold la_global. rewrite la_tag_spec, (sig_at_self toks1 j t Ht Hc), Ht.
  destruct (HsF _ Hs) as [->|[->| ->]]; reflexivity.
Qed.
Lemma la_stmt_j : la_stmt toks1 j = true.
Proof. unfold la_stmt. rewrite la_global_j. now rewrite orb_true_r. Qed.
Lemma la_var_dec_j : la_var_dec toks1 j = true.
Proof. unfold la_var_dec. rewrite la_stmt_j. now rewrite orb_true_r. Qed.
Lemma la_param_j : la_param toks1 j = true.
Proof. unfold la_param. rewrite la_var_dec_j. now rewrite orb_true_r. Qed.

Lemma Loc_peek la1 la2 : LaAgree la1 la2 -> Loc (p_peek_la la1) (p_peek_la la2).
Proof. intros H s Hs. unfold p_peek_la. now rewrite H. Qed.

Lemma ignore_from_agree la1 la2 : LaAgree la1 la2 -> la1 j = true ->
  forall d s n1 n2, pos s <= j -> j - pos s <= d -> j - pos s <= n1 -> j - pos s <= n2 ->
  ignore_from toks1 n1 la1 s = ignore_from toks2 n2 la2 s.
Proof.
  intros Hla Hlj. induction d as [|d IH]; intros s n1 n2 Hs Hd H1 H2.
  - assert (pos s = j) by lia. destruct n1, n2; cbn [ignore_from]; rewrite <- Hla by lia; rewrite H, Hlj; reflexivity.
  - destruct n1 as [|n1], n2 as [|n2]; cbn [ignore_from]; rewrite <- Hla by lia;
      destruct (la1 (pos s)) eqn:E; try reflexivity;
      assert (Hne : pos s <> j) by (intros Heq; rewrite Heq in E; congruence); try lia.
    pose proof j_lt1. pose proof j_lt2.
    rewrite (proj2 (Nat.ltb_lt (pos s) N1)), (proj2 (Nat.ltb_lt (pos s) N2)) by lia.
    apply IH; cbn [pos adv]; lia.
Qed.

Lemma Loc_ignore0 la1 la2 : LaAgree la1 la2 -> la1 j = true -> Loc (p_ignore0 toks1 la1) (p_ignore0 toks2 la2).
Proof.
  intros Hla Hlj s Hs. unfold p_ignore0. pose proof j_lt1. pose proof j_lt2.
  rewrite <- (ignore_from_agree la1 la2 Hla Hlj (j - pos s) s (S (N1 - pos s)) (S (N2 - pos s))) by lia.
  destruct (ignore_from toks1 (S (N1 - pos s)) la1 s) as [s1 u|e|] eqn:E; cbn [bind]; try reflexivity.
  apply ignore_from_ok in E as (E1 & E2 & E3 & _). f_equal. unfold skipped.
  assert (pos s1 <= j).
  { destruct (le_lt_dec (pos s1) j) as [|Hlt]; [assumption|]. rewrite E3 in Hlj by lia. discriminate. }
  apply firstn_skipn_agree. intros i Hi. apply Hag. lia.
Qed.

Lemma Loc_ignore1 la1 la2 : LaAgree la1 la2 -> la1 j = true -> Loc (p_ignore1 toks1 la1) (p_ignore1 toks2 la2).
Proof.
  intros Hla Hlj s Hs. unfold p_ignore1. rewrite <- Hla by exact Hs.
  destruct (la1 (pos s)); [reflexivity | now apply Loc_ignore0].
Qed.

Lemma Loc_ret {A} (f : st -> A) : Loc (fun s => POk s (f s)) (fun s => POk s (f s)).
Proof. intros s _. reflexivity. Qed.

Lemma Loc_tag_loop {A} f (k1 k2 : st -> token -> pres A) (d : A) :
  TagOk sync_full f -> (forall t, Loc (fun s => k1 s t) (fun s => k2 s t)) ->
  Loc (fun s => match p_tag toks1 f s with POk s1 op => k1 s1 op | PErr _ => POk s d | PFuel => PFuel end)
      (fun s => match p_tag toks2 f s with POk s1 op => k2 s1 op | PErr _ => POk s d | PFuel => PFuel end).
Proof.
  intros Hf Hk s Hs. rewrite <- (Loc_tag f s Hs).
  destruct (p_tag toks1 f s) as [s1 t|e|] eqn:E; try reflexivity.
  apply (Hk t). eapply Mv_le_j; [|exact Hs].
  exact (Fwd_ok _ _ _ _ _ _ (Fwd_tag toks1 sync_full (Hc _ HsF) f Hf) (Loc_le1 s Hs) E).
Qed.

Ltac la_agree :=
  first [ exact LaAgree_param | exact LaAgree_var_dec | exact LaAgree_stmt | exact LaAgree_global
        | apply LaAgree_tag ].
Ltac la_j := first [ exact la_param_j | exact la_var_dec_j | exact la_stmt_j | exact la_global_j ].

Ltac loc_step :=
  first
  [ assumption
  | apply Loc_fuel
  | apply Loc_tag | apply Loc_comments | apply Loc_ret
  | apply Loc_map | apply Loc_restore | apply Loc_alt | apply Loc_opt | apply Loc_info | apply Loc_expect | apply Loc_ref
  | apply Loc_confusable
  | apply Loc_peek; [la_agree]
  | apply Loc_ignore0; [la_agree | la_j]
  | apply Loc_ignore1; [la_agree | la_j]
  | apply Loc_pair; [ | solve [fwd_solve HsF] | ]
  | apply Loc_many0; [ | solve [fwd_solve HsF] ] ].
Ltac loc := unfold p_preceded, p_terminated; repeat loc_step.

Lemma Loc_ident : Loc (p_ident toks1) (p_ident toks2).
Proof. unfold p_ident. loc. Qed.

Lemma Loc_intlit : Loc (p_intlit toks1) (p_intlit toks2).
Proof. unfold p_intlit. loc. Qed.

Lemma Loc_rhs p1 p2 lhs op : Loc p1 p2 -> FwdF1 p1 -> Loc (p_rhs p1 lhs op) (p_rhs p2 lhs op).
Proof.
  intros Hp Fp. unfold p_rhs. apply Loc_bind; [loc | fwd_solve HsF |]. intros a. apply Loc_ret.
Qed.

Lemma Loc_expr_all f :
  Loc (p_variable toks1 f) (p_variable toks2 f) /\ Loc (p_primary toks1 f) (p_primary toks2 f) /\
  Loc (p_factor toks1 f) (p_factor toks2 f) /\
  (forall e, Loc (fun s => mul_loop toks1 f s e) (fun s => mul_loop toks2 f s e)) /\
  Loc (p_mul toks1 f) (p_mul toks2 f) /\
  (forall e, Loc (fun s => add_loop toks1 f s e) (fun s => add_loop toks2 f s e)) /\
  Loc (p_add toks1 f) (p_add toks2 f) /\
  Loc (p_comparison toks1 f) (p_comparison toks2 f).
Proof.
  pose proof Loc_ident as Hid. pose proof Loc_intlit as Hil.
  induction f as [|f (IHvar & IHpri & IHfac & IHml & IHmul & IHal & IHadd & IHcmp)].
  - repeat split; try intros e; apply Loc_fuel.
  - pose proof (Fwd_expr_all toks1 sync_full HsF f) as (Fvar & Fpri & Ffac & Fml & Fmul & Fal & Fadd & Fcmp).
    repeat split.
    + rewrite !p_variable_S. apply Loc_bind; [loc | fwd_solve HsF |]. intros [[v0 vi] acc]. apply Loc_ret.
    + rewrite !p_primary_S. apply Loc_alt; [loc|]. apply Loc_alt; [loc|].
      apply Loc_bind; [loc | fwd_solve HsF |]. intros [[[x lp] [e y]] inf]. apply Loc_ret.
    + rewrite !p_factor_S. apply Loc_alt; [exact IHpri|]. loc.
    + intros e s Hs. rewrite !mul_loop_S.
      apply (Loc_tag_loop is_mulop
               (fun s1 op => bind (p_rhs (p_factor toks1 f) e (op_of (tk op)) s1) (fun s2 e' => mul_loop toks1 f s2 e'))
               (fun s1 op => bind (p_rhs (p_factor toks2 f) e (op_of (tk op)) s1) (fun s2 e' => mul_loop toks2 f s2 e'))
               e (TagOk_mulop sync_full HsF)); [|exact Hs].
      intros t. apply (Loc_bind (p_rhs (p_factor toks1 f) e (op_of (tk t))) (p_rhs (p_factor toks2 f) e (op_of (tk t)))).
      * now apply Loc_rhs.
      * now apply Fwd_rhs.
      * exact IHml.
    + rewrite !p_mul_S. apply (Loc_bind (p_factor toks1 f) (p_factor toks2 f)); [exact IHfac | exact Ffac | exact IHml].
    + intros e s Hs. rewrite !add_loop_S.
      apply (Loc_tag_loop is_addop
               (fun s1 op => bind (p_rhs (p_mul toks1 f) e (op_of (tk op)) s1) (fun s2 e' => add_loop toks1 f s2 e'))
               (fun s1 op => bind (p_rhs (p_mul toks2 f) e (op_of (tk op)) s1) (fun s2 e' => add_loop toks2 f s2 e'))
               e (TagOk_addop sync_full HsF)); [|exact Hs].
      intros t. apply (Loc_bind (p_rhs (p_mul toks1 f) e (op_of (tk t))) (p_rhs (p_mul toks2 f) e (op_of (tk t)))).
      * now apply Loc_rhs.
      * now apply Fwd_rhs.
      * exact IHal.
    + rewrite !p_add_S. apply (Loc_bind (p_mul toks1 f) (p_mul toks2 f)); [exact IHmul | exact Fmul | exact IHal].
    + rewrite !p_comparison_S. apply (Loc_bind (p_add toks1 f) (p_add toks2 f)); [exact IHadd | exact Fadd |].
      intros e. apply Loc_tag_loop; [apply (TagOk_cmpop sync_full HsF)|]. intros t. now apply Loc_rhs.
Qed.

Lemma Loc_variable f : Loc (p_variable toks1 f) (p_variable toks2 f). Proof. apply Loc_expr_all. Qed.
Lemma Loc_expr f : Loc (p_expr toks1 f) (p_expr toks2 f). Proof. apply Loc_expr_all. Qed.

Lemma Loc_texpr f : Loc (p_texpr toks1 f) (p_texpr toks2 f).
Proof.
  pose proof Loc_ident. pose proof Loc_intlit.
  induction f as [|f IH]; [apply Loc_fuel|]. rewrite !p_texpr_S. loc.
Qed.

Lemma Loc_list {A} fuel (p1 p2 : parser A) : Loc p1 p2 -> FwdF1 p1 -> Loc (p_list toks1 fuel p1) (p_list toks2 fuel p2).
Proof.
  intros Hp Fp. unfold p_list. apply Loc_bind; [loc | fwd_solve HsF |]. intros hd.
  apply (Loc_bind
    (p_many0 fuel (p_map (fun r => (fst (fst r), snd r + snd (fst r))) (p_ref (p_preceded (p_tag toks1 (is_k Comma)) (p_ref p1)))))
    (p_many0 fuel (p_map (fun r => (fst (fst r), snd r + snd (fst r))) (p_ref (p_preceded (p_tag toks2 (is_k Comma)) (p_ref p2)))))).
  - loc.
  - fwd_solve HsF.
  - intros tl. apply Loc_ret.
Qed.

Lemma Loc_argument f : Loc (p_argument toks1 f) (p_argument toks2 f).
Proof. pose proof (Loc_expr f). unfold p_argument, la_arg. loc. Qed.

Lemma Loc_call f : Loc (p_call toks1 f) (p_call toks2 f).
Proof.
  pose proof Loc_ident. pose proof (Loc_list f _ _ (Loc_argument f) ltac:(fwd_solve HsF)).
  unfold p_call. loc.
Qed.

Lemma Loc_assign f : Loc (p_assign toks1 f) (p_assign toks2 f).
Proof. pose proof (Loc_variable f). pose proof (Loc_expr f). unfold p_assign. loc. Qed.

Lemma Loc_stmt f : Loc (p_stmt toks1 f) (p_stmt toks2 f).
Proof.
  induction f as [|f IH]; [apply Loc_fuel|]. rewrite !p_stmt_S.
  pose proof (Loc_expr f). pose proof (Loc_call f). pose proof (Loc_assign f). loc.
Qed.

Lemma Loc_vardecl f : Loc (p_vardecl toks1 f) (p_vardecl toks2 f).
Proof. pose proof Loc_ident. pose proof (Loc_texpr f). unfold p_vardecl. loc. Qed.

Lemma Loc_paramdecl f : Loc (p_paramdecl toks1 f) (p_paramdecl toks2 f).
Proof. pose proof Loc_ident. pose proof (Loc_texpr f). unfold p_paramdecl. loc. Qed.

Lemma Loc_typedecl_rest f : Loc (typedecl_rest toks1 f) (typedecl_rest toks2 f).
Proof. pose proof Loc_ident. pose proof (Loc_texpr f). unfold typedecl_rest. loc. Qed.

Lemma Loc_procdecl_rest f : Loc (procdecl_rest toks1 f) (procdecl_rest toks2 f).
Proof.
  pose proof Loc_ident. pose proof (Loc_list f _ _ (Loc_paramdecl f) ltac:(fwd_solve HsF)).
  pose proof (Loc_vardecl f). pose proof (Loc_stmt f). unfold procdecl_rest. loc.
Qed.

(* a declaration introduced by a keyword: the keyword itself must lie strictly before j *)
Lemma head_local {B} f (r1 r2 : parser B) s :
  Loc r1 r2 -> sig_at toks1 (pos s) < j ->
  p_info (p_pair (p_comments toks1) (p_pair (p_tag toks1 f) r1)) s =
  p_info (p_pair (p_comments toks2) (p_pair (p_tag toks2 f) r2)) s.
Proof.
  intros Hr Hs. pose proof (sig_at_ge toks1 (pos s)) as Hge.
  unfold p_info. f_equal. unfold p_pair at 1 3. rewrite <- (Loc_comments (set_ebuf s [])) by (cbn; lia).
  unfold p_comments at 1. cbn [bind pos set_ebuf].
  set (s1 := adv (set_ebuf s []) (length (comments_at toks1 (pos s)))).
  assert (Hp1 : pos s1 = sig_at toks1 (pos s)) by reflexivity.
  assert (E : p_pair (p_tag toks1 f) r1 s1 = p_pair (p_tag toks2 f) r2 s1).
  { unfold p_pair. rewrite <- (Loc_tag f s1) by lia.
    destruct (p_tag toks1 f s1) as [s2 t|e|] eqn:Et; cbn [bind]; try reflexivity.
    apply p_tag_ok in Et as (_ & _ & ->). rewrite Hr; [reflexivity|].
    cbn [pos adv]. rewrite Hp1, sig_at_idem. lia. }
  now rewrite E.
Qed.

Lemma typedecl_local fuel s :
  sig_at toks1 (pos s) < j -> p_typedecl toks1 fuel s = p_typedecl toks2 fuel s.
Proof.
  intros Hs. rewrite !p_typedecl_eq. unfold p_map.
  now rewrite (head_local (is_k KType) _ _ s (Loc_typedecl_rest fuel) Hs).
Qed.

Lemma procdecl_local fuel s :
  sig_at toks1 (pos s) < j -> p_procdecl toks1 fuel s = p_procdecl toks2 fuel s.
Proof.
  intros Hs. rewrite !p_procdecl_eq. unfold p_map.
  now rewrite (head_local (is_k KProc) _ _ s (Loc_procdecl_rest fuel) Hs).
Qed.

(* T6 *)
Theorem gdecl_local fuel s :
  sig_at toks1 (pos s) < j -> p_gdecl toks1 fuel s = p_gdecl toks2 fuel s.
Proof.
  intros Hs. pose proof (sig_at_ge toks1 (pos s)) as Hge.
  assert (E : p_info (p_ignore1 toks1 (la_global toks1)) s = p_info (p_ignore1 toks2 (la_global toks2)) s).
  { apply Loc_info; [|lia]. apply Loc_ignore1; [exact LaAgree_global | exact la_global_j]. }
  unfold p_gdecl, p_alt, p_map.
  now rewrite (typedecl_local fuel s Hs), (procdecl_local fuel s Hs), E.
Qed.

(* and the declaration ends at or before j *)
Lemma gdecl_stops fuel s s' g :
  sig_at toks1 (pos s) < j -> p_gdecl toks1 fuel s = POk s' g -> pos s' <= j.
Proof.
  intros Hs H. pose proof (sig_at_ge toks1 (pos s)) as Hge. pose proof j_lt1.
  apply gdecl_shape in H as (_ & _ & _ & _ & _ & _ & Hsp); [|lia].
  destruct Hj as (t & Ht & Hsy).
  assert (K : forall a, a <= j -> Skips toks1 sync_full a (pos s') -> pos s' <= j).
  { intros a Ha Hsk. destruct (le_lt_dec (pos s') j) as [|Hlt]; [assumption|]. exfalso.
    assert (Hr : a <= j < pos s') by lia. specialize (Hsk j Hr t Ht). congruence. }
  destruct g; cbn [decl_span] in Hsp.
  - destruct Hsp as (_ & _ & _ & _ & Hsk). apply (K (S (sig_at toks1 (pos s)))); [lia | exact Hsk].
  - destruct Hsp as (_ & _ & _ & _ & Hsk). apply (K (S (sig_at toks1 (pos s)))); [lia | exact Hsk].
  - destruct Hsp as (_ & Hsk & _). apply (K (pos s)); [lia | exact Hsk].
Qed.

End Local.
