(* C09 "same diagnostics" for programs with comments, the RANGES, part 1: nodes.

   Every diagnostic that build / analyze attach sits in the AstInfo of a node and its range is a function of that
   node's own range: the whole range (s, e) - or, for the diagnostics about a NAME (Identifier::to_error), the last
   token (e - 1, e) of the identifier.  [nd_* b t] lists the info-bearing nodes of a tree in the order in which
   `errors()` visits them, each with its ABSOLUTE token positions (b = the sum of the enclosing Reference offsets):
   (start, position of the last token - for identifiers -, end) and with the messages attached to it.
   [own_* t]: every diagnostic in t has the range its message kind prescribes ([pick]).
   Proved here:
     - for such a tree the diagnostics are the nodes' messages at the picked positions ([*_mk]);
     - the message half of the node list depends on the erasure of the tree only ([*_msgs], Proofs/FormatDiagErase.v);
     - a tree without diagnostics is [own]; doc comments are not read. *)
From Coq Require Import String List Lia PeanoNat.
From Spl Require Import Model.Errors Spec.Grammar Proofs.FormatDiagErase Proofs.FormatDiagSem Proofs.FormatDiagMsgs.
From Spl Require Proofs.FormatProofs Proofs.FormatStructIdem.
Import ListNotations.
Local Open Scope nat_scope.

Notation tri := (nat * nat * nat)%type.
Notation node := ((nat * nat * nat) * list emsg)%type.

(* the diagnostics made by Identifier::to_error *)
Definition name_msg (m : emsg) : bool :=
  match m with
  | EBuild _ => true
  | ESem (UndefinedVariable _) | ESem (NotAVariable _) => true
  | _ => false
  end.

Definition pick (t : tri) (m : emsg) : nat * nat :=
  match t with (s, p, e) => if name_msg m then (p, e) else (s, e) end.

Definition nd (b : nat) (i : info) : node := ((b + i_s i, b + i_s i, b + i_e i), msgs (i_errs i)).
Definition ndi (b : nat) (n : ident) : node :=
  ((b + i_s (id_info n), b + (i_e (id_info n) - 1), b + i_e (id_info n)), msgs (i_errs (id_info n))).

Definition mk (n : node) : list err := map (fun m => mkerr_t (pick (fst n) m) m) (snd n).

(* ================================================================================================
   1. The node lists
   ================================================================================================ *)
Definition nd_refs {T} (f : nat -> T -> list node) (b : nat) (l : list (T * nat)) : list node :=
  flat_map (fun x => f (b + snd x) (fst x)) l.

Fixpoint nd_var (b : nat) (v : variable) : list node :=
  match v with
  | NamedVar n => [ndi b n]
  | ArrAccess a idx inf =>
      nd b inf :: nd_var b a ++ match idx with Some (e, off) => nd_expr (b + off) e | None => [] end
  end
with nd_expr (b : nat) (e : expr) : list node :=
  match e with
  | EBin _ l r inf => nd b inf :: nd_expr b l ++ nd_expr b r
  | EBrack a inf => nd b inf :: nd_expr b a
  | EErr inf => [nd b inf]
  | EInt i => [nd b (il_info i)]
  | EVar v => nd_var b v
  | EUn _ a inf => nd b inf :: nd_expr b a
  end.

Definition nd_oexpr (b : nat) (o : option (expr * nat)) : list node :=
  match o with Some (e, off) => nd_expr (b + off) e | None => [] end.

Fixpoint nd_texpr (b : nat) (t : typeexpr) : list node :=
  match t with
  | TNamed n => [ndi b n]
  | TArray _ base inf => nd b inf :: match base with Some (t', off) => nd_texpr (b + off) t' | None => [] end
  end.

Definition nd_oty (b : nat) (o : option (typeexpr * nat)) : list node :=
  match o with Some (t, off) => nd_texpr (b + off) t | None => [] end.
Definition nd_oid (b : nat) (o : option ident) : list node := match o with Some n => [ndi b n] | None => [] end.

Fixpoint nd_stmt (b : nat) (s : stmt) : list node :=
  let nd_ostmt (r : option (stmt * nat)) : list node :=
    match r with Some (x, off) => nd_stmt (b + off) x | None => [] end in
  match s with
  | SEmpty inf | SError inf => [nd b inf]
  | SAssign v e inf => nd b inf :: nd_var b v ++ nd_oexpr b e
  | SBlock body inf =>
      nd b inf :: (fix go (l : list (stmt * nat)) : list node :=
                     match l with [] => [] | (x, off) :: r => nd_stmt (b + off) x ++ go r end) body
  | SCall name args inf => nd b inf :: ndi b name :: nd_refs nd_expr b args
  | SIf c t e inf => nd b inf :: nd_oexpr b c ++ nd_ostmt t ++ nd_ostmt e
  | SWhile c body inf => nd b inf :: nd_oexpr b c ++ nd_ostmt body
  end.

Definition nd_ostmt (b : nat) (r : option (stmt * nat)) : list node :=
  match r with Some (x, off) => nd_stmt (b + off) x | None => [] end.

Lemma nd_stmt_block b body inf : nd_stmt b (SBlock body inf) = nd b inf :: nd_refs nd_stmt b body.
Proof.
  cbn [nd_stmt]. f_equal. unfold nd_refs. induction body as [|[x off] r IH]; [reflexivity|]. cbn [flat_map fst snd]. rewrite <- IH. reflexivity.
Qed.
Lemma nd_stmt_if b c t e inf : nd_stmt b (SIf c t e inf) = nd b inf :: nd_oexpr b c ++ nd_ostmt b t ++ nd_ostmt b e.
Proof. reflexivity. Qed.
Lemma nd_stmt_while b c t inf : nd_stmt b (SWhile c t inf) = nd b inf :: nd_oexpr b c ++ nd_ostmt b t.
Proof. reflexivity. Qed.

Definition nd_vardecl (b : nat) (v : vardecl) : list node :=
  match v with
  | VError inf => [nd b inf]
  | VValid _ name ty inf => nd b inf :: nd_oid b name ++ nd_oty b ty
  end.
Definition nd_paramdecl (b : nat) (p : paramdecl) : list node :=
  match p with
  | PError inf => [nd b inf]
  | PValid _ _ name ty inf => nd b inf :: nd_oid b name ++ nd_oty b ty
  end.
Definition nd_gdecl (b : nat) (g : gdecl) : list node :=
  match g with
  | GType d => nd b (td_info d) :: nd_oid b (td_name d) ++ nd_oty b (td_ty d)
  | GProc d =>
      nd b (pd_info d) :: nd_oid b (pd_name d) ++ nd_refs nd_paramdecl b (pd_params d)
      ++ nd_refs nd_vardecl b (pd_vars d) ++ nd_refs nd_stmt b (pd_stmts d)
  | GError inf => [nd b inf]
  end.

(* ================================================================================================
   2. Every diagnostic has the range its node prescribes
   ================================================================================================ *)
Definition own_info (i : info) : Prop := Forall (fun x => e_s x = i_s i /\ e_e x = i_e i) (i_errs i).
Definition own_id (n : ident) : Prop :=
  Forall (fun x => (e_s x, e_e x) = if name_msg (e_m x) then (i_e (id_info n) - 1, i_e (id_info n))
                                    else (i_s (id_info n), i_e (id_info n))) (i_errs (id_info n)).

Definition own_refs {T} (P : T -> Prop) (l : list (T * nat)) : Prop := Forall (fun x => P (fst x)) l.
Definition own_opt {T} (P : T -> Prop) (o : option (T * nat)) : Prop := match o with Some (x, _) => P x | None => True end.
Definition own_oid (o : option ident) : Prop := match o with Some n => own_id n | None => True end.

Fixpoint own_var (v : variable) : Prop :=
  match v with
  | NamedVar n => own_id n
  | ArrAccess a idx inf => own_info inf /\ own_var a /\ match idx with Some (e, _) => own_expr e | None => True end
  end
with own_expr (e : expr) : Prop :=
  match e with
  | EBin _ l r inf => own_info inf /\ own_expr l /\ own_expr r
  | EBrack a inf | EUn _ a inf => own_info inf /\ own_expr a
  | EErr inf => own_info inf
  | EInt i => own_info (il_info i)
  | EVar v => own_var v
  end.

Fixpoint own_texpr (t : typeexpr) : Prop :=
  match t with
  | TNamed n => own_id n
  | TArray _ base inf => own_info inf /\ match base with Some (t', _) => own_texpr t' | None => True end
  end.

Fixpoint own_stmt (s : stmt) : Prop :=
  let own_ostmt (r : option (stmt * nat)) : Prop := match r with Some (x, _) => own_stmt x | None => True end in
  match s with
  | SEmpty inf | SError inf => own_info inf
  | SAssign v e inf => own_info inf /\ own_var v /\ own_opt own_expr e
  | SBlock body inf =>
      own_info inf /\ (fix go (l : list (stmt * nat)) : Prop :=
                         match l with [] => True | (x, _) :: r => own_stmt x /\ go r end) body
  | SCall name args inf => own_info inf /\ own_id name /\ own_refs own_expr args
  | SIf c t e inf => own_info inf /\ own_opt own_expr c /\ own_ostmt t /\ own_ostmt e
  | SWhile c body inf => own_info inf /\ own_opt own_expr c /\ own_ostmt body
  end.

Lemma own_stmt_block body inf : own_stmt (SBlock body inf) <-> own_info inf /\ own_refs own_stmt body.
Proof.
  cbn [own_stmt]. unfold own_refs.
  assert (E : (fix go (l : list (stmt * nat)) : Prop := match l with [] => True | (x, _) :: r => own_stmt x /\ go r end) body
              <-> Forall (fun x : stmt * nat => own_stmt (fst x)) body).
  { induction body as [|[x off] r IH]; [split; [constructor | exact (fun _ => I)]|]. split.
    - intros [H1 H2]. constructor; [exact H1 | apply IH; exact H2].
    - intros H. inversion H as [|y l Hy Hl]; subst. split; [exact Hy | apply IH; exact Hl]. }
  rewrite E. reflexivity.
Qed.
Lemma own_stmt_if c t e inf :
  own_stmt (SIf c t e inf) <-> own_info inf /\ own_opt own_expr c /\ own_opt own_stmt t /\ own_opt own_stmt e.
Proof. reflexivity. Qed.
Lemma own_stmt_while c t inf : own_stmt (SWhile c t inf) <-> own_info inf /\ own_opt own_expr c /\ own_opt own_stmt t.
Proof. reflexivity. Qed.

Definition own_vardecl (v : vardecl) : Prop :=
  match v with
  | VError inf => own_info inf
  | VValid _ name ty inf => own_info inf /\ own_oid name /\ own_opt own_texpr ty
  end.
Definition own_paramdecl (p : paramdecl) : Prop :=
  match p with
  | PError inf => own_info inf
  | PValid _ _ name ty inf => own_info inf /\ own_oid name /\ own_opt own_texpr ty
  end.
Definition own_gdecl (g : gdecl) : Prop :=
  match g with
  | GType d => own_info (td_info d) /\ own_oid (td_name d) /\ own_opt own_texpr (td_ty d)
  | GProc d =>
      own_info (pd_info d) /\ own_oid (pd_name d) /\ own_refs own_paramdecl (pd_params d)
      /\ own_refs own_vardecl (pd_vars d) /\ own_refs own_stmt (pd_stmts d)
  | GError inf => own_info inf
  end.

(* ================================================================================================
   3. The diagnostics of an [own] tree are its nodes' messages at the picked positions
   ================================================================================================ *)
Lemma shift_es_app b l1 l2 : shift_es b (l1 ++ l2) = shift_es b l1 ++ shift_es b l2.
Proof. apply map_app. Qed.

Lemma shift_shift b off l : shift_es b (shift_es off l) = shift_es (b + off) l.
Proof.
  unfold shift_es. rewrite map_map. apply map_ext. intros x. unfold shift_e. cbn [e_s e_e e_m]. f_equal; lia.
Qed.

Lemma info_mk b i : own_info i -> shift_es b (i_errs i) = mk (nd b i).
Proof.
  unfold own_info, mk, nd. cbn [fst snd]. induction 1 as [|x l [H1 H2] _ IH]; [reflexivity|]. cbn [shift_es map]. f_equal; [|exact IH].
  unfold shift_e, mkerr_t, pick. destruct x as [s e m]. cbn [e_s e_e e_m] in *. destruct (name_msg m); cbn [fst snd]; f_equal; lia.
Qed.

Lemma id_mk b n : own_id n -> shift_es b (ident_errors n) = mk (ndi b n).
Proof.
  unfold own_id, mk, ndi, ident_errors. cbn [fst snd]. induction 1 as [|x l H _ IH]; [reflexivity|]. cbn [shift_es map]. f_equal; [|exact IH].
  unfold shift_e, mkerr_t, pick. destruct x as [s e m]. cbn [e_s e_e e_m] in *. destruct (name_msg m); injection H as -> ->; cbn [fst snd]; f_equal; lia.
Qed.

Lemma flat_mk_cons n l : flat_map mk (n :: l) = mk n ++ flat_map mk l.
Proof. reflexivity. Qed.

Fixpoint var_mk (v : variable) {struct v} : own_var v -> forall b, shift_es b (var_errors v) = flat_map mk (nd_var b v)
with expr_mk (e : expr) {struct e} : own_expr e -> forall b, shift_es b (expr_errors e) = flat_map mk (nd_expr b e).
Proof.
  - destruct v as [n|a idx inf]; cbn [own_var var_errors nd_var].
    + intros H b. cbn [flat_map]. rewrite app_nil_r. apply id_mk. exact H.
    + intros (H1 & H2 & H3) b. rewrite flat_mk_cons, flat_map_app, !shift_es_app, (info_mk b inf H1), (var_mk a H2 b). do 2 f_equal.
      destruct idx as [[e off]|]; [|reflexivity]. rewrite shift_shift. apply expr_mk. exact H3.
  - destruct e as [op l r inf|a inf|i|op a inf|v|inf]; cbn [own_expr expr_errors nd_expr].
    + intros (H1 & H2 & H3) b. rewrite flat_mk_cons, flat_map_app, !shift_es_app, (info_mk b inf H1), (expr_mk l H2 b), (expr_mk r H3 b). reflexivity.
    + intros (H1 & H2) b. rewrite flat_mk_cons, !shift_es_app, (info_mk b inf H1), (expr_mk a H2 b). reflexivity.
    + intros H b. cbn [flat_map]. rewrite app_nil_r. apply info_mk. exact H.
    + intros (H1 & H2) b. rewrite flat_mk_cons, !shift_es_app, (info_mk b inf H1), (expr_mk a H2 b). reflexivity.
    + intros H b. apply var_mk. exact H.
    + intros H b. cbn [flat_map]. rewrite app_nil_r. apply info_mk. exact H.
Qed.

Lemma oexpr_mk o : own_opt own_expr o -> forall b, shift_es b (opt_expr_errors o) = flat_map mk (nd_oexpr b o).
Proof. destruct o as [[e off]|]; [|reflexivity]. cbn [own_opt opt_expr_errors nd_oexpr]. intros H b. rewrite shift_shift. apply expr_mk. exact H. Qed.

Fixpoint texpr_mk (t : typeexpr) : own_texpr t -> forall b, shift_es b (texpr_errors t) = flat_map mk (nd_texpr b t).
Proof.
  destruct t as [n|size base inf]; cbn [own_texpr texpr_errors nd_texpr].
  - intros H b. cbn [flat_map]. rewrite app_nil_r. apply id_mk. exact H.
  - intros (H1 & H2) b. rewrite flat_mk_cons, shift_es_app, (info_mk b inf H1). f_equal.
    destruct base as [[t' off]|]; [|reflexivity]. rewrite shift_shift. apply texpr_mk. exact H2.
Qed.

Lemma oty_mk o : own_opt own_texpr o -> forall b, shift_es b (opt_texpr_errors o) = flat_map mk (nd_oty b o).
Proof. destruct o as [[e off]|]; [|reflexivity]. cbn [own_opt opt_texpr_errors nd_oty]. intros H b. rewrite shift_shift. apply texpr_mk. exact H. Qed.

Lemma oid_mk o : own_oid o -> forall b, shift_es b (opt_ident_errors o) = flat_map mk (nd_oid b o).
Proof. destruct o as [n|]; [|reflexivity]. cbn [own_oid opt_ident_errors nd_oid flat_map]. intros H b. rewrite app_nil_r. apply id_mk. exact H. Qed.

Lemma refs_mk {T} (P : T -> Prop) (errs : T -> list err) (f : nat -> T -> list node) (l : list (T * nat)) :
  (forall x off, In (x, off) l -> P x -> forall b, shift_es b (errs x) = flat_map mk (f b x)) ->
  own_refs P l -> forall b, shift_es b (flat_map (fun x => shift_es (snd x) (errs (fst x))) l) = flat_map mk (nd_refs f b l).
Proof.
  unfold own_refs, nd_refs. induction l as [|[x off] r IH]; intros H Ho b; [reflexivity|]. inversion Ho as [|y l' Hy Hl]; subst.
  cbn [flat_map fst snd] in *. rewrite shift_es_app, flat_map_app, shift_shift, (H x off (or_introl eq_refl) Hy).
  rewrite (IH (fun y o Hin => H y o (or_intror Hin)) Hl). reflexivity.
Qed.

Definition stmt_mk_p (s : stmt) : Prop := own_stmt s -> forall b, shift_es b (stmt_errors s) = flat_map mk (nd_stmt b s).

Lemma ostmt_mk r : (forall x off, r = Some (x, off) -> stmt_mk_p x) -> own_opt own_stmt r ->
  forall b, shift_es b (match r with Some (x, off) => shift_es off (stmt_errors x) | None => [] end) = flat_map mk (nd_ostmt b r).
Proof. intros IH. destruct r as [[x off]|]; [|reflexivity]. cbn [own_opt nd_ostmt]. intros H b. rewrite shift_shift. apply (IH x off eq_refl). exact H. Qed.

Theorem stmt_mk : forall s, stmt_mk_p s.
Proof.
  apply FormatProofs.stmt_ind'; unfold stmt_mk_p.
  - intros inf H b. cbn [stmt_errors nd_stmt flat_map]. rewrite app_nil_r. apply info_mk. exact H.
  - intros v e inf (H1 & H2 & H3) b. cbn [stmt_errors nd_stmt]. rewrite flat_mk_cons, flat_map_app, !shift_es_app.
    rewrite (info_mk b inf H1), (var_mk v H2 b), (oexpr_mk e H3 b). reflexivity.
  - intros n a inf (H1 & H2 & H3) b. cbn [stmt_errors nd_stmt]. rewrite !flat_mk_cons, !shift_es_app, (info_mk b inf H1), (id_mk b n H2). do 2 f_equal.
    rewrite flat_map_concat_map, <- flat_map_concat_map.
    apply (refs_mk own_expr expr_errors nd_expr a); [|exact H3]. intros x off _ Hx b'. apply expr_mk. exact Hx.
  - intros c t e inf IHt IHe H b. rewrite own_stmt_if in H. destruct H as (H1 & H2 & H3 & H4).
    rewrite stmt_errors_if, nd_stmt_if, flat_mk_cons, !flat_map_app, !shift_es_app.
    rewrite (info_mk b inf H1), (oexpr_mk c H2 b), (ostmt_mk t IHt H3 b), (ostmt_mk e IHe H4 b). reflexivity.
  - intros c t inf IHt H b. rewrite own_stmt_while in H. destruct H as (H1 & H2 & H3).
    rewrite stmt_errors_while, nd_stmt_while, flat_mk_cons, !flat_map_app, !shift_es_app.
    rewrite (info_mk b inf H1), (oexpr_mk c H2 b), (ostmt_mk t IHt H3 b). reflexivity.
  - intros body inf IH H b. rewrite own_stmt_block in H. destruct H as (H1 & H2).
    rewrite stmt_errors_block, nd_stmt_block, flat_mk_cons, shift_es_app, (info_mk b inf H1). f_equal.
    apply (refs_mk own_stmt stmt_errors nd_stmt body); [|exact H2]. intros x off Hin. apply (IH x off Hin).
  - intros inf H b. cbn [stmt_errors nd_stmt flat_map]. rewrite app_nil_r. apply info_mk. exact H.
Qed.

Lemma vardecl_mk v : own_vardecl v -> forall b, shift_es b (vardecl_errors v) = flat_map mk (nd_vardecl b v).
Proof.
  destruct v as [docs n ty inf|inf]; cbn [own_vardecl vardecl_errors nd_vardecl].
  - intros (H1 & H2 & H3) b. rewrite flat_mk_cons, flat_map_app, !shift_es_app, (info_mk b inf H1), (oid_mk n H2 b), (oty_mk ty H3 b). reflexivity.
  - intros H b. cbn [flat_map]. rewrite app_nil_r. apply info_mk. exact H.
Qed.

Lemma paramdecl_mk v : own_paramdecl v -> forall b, shift_es b (paramdecl_errors v) = flat_map mk (nd_paramdecl b v).
Proof.
  destruct v as [docs r n ty inf|inf]; cbn [own_paramdecl paramdecl_errors nd_paramdecl].
  - intros (H1 & H2 & H3) b. rewrite flat_mk_cons, flat_map_app, !shift_es_app, (info_mk b inf H1), (oid_mk n H2 b), (oty_mk ty H3 b). reflexivity.
  - intros H b. cbn [flat_map]. rewrite app_nil_r. apply info_mk. exact H.
Qed.

Theorem gdecl_mk g : own_gdecl g -> forall b, shift_es b (gdecl_errors g) = flat_map mk (nd_gdecl b g).
Proof.
  destruct g as [d|d|inf]; cbn [own_gdecl gdecl_errors nd_gdecl].
  - intros (H1 & H2 & H3) b. unfold typedecl_errors.
    rewrite flat_mk_cons, flat_map_app, !shift_es_app, (info_mk b _ H1), (oid_mk _ H2 b), (oty_mk _ H3 b). reflexivity.
  - intros (H1 & H2 & H3 & H4 & H5) b. unfold procdecl_errors.
    rewrite flat_mk_cons, !flat_map_app, !shift_es_app, (info_mk b _ H1), (oid_mk _ H2 b).
    rewrite (refs_mk own_paramdecl paramdecl_errors nd_paramdecl _ (fun x _ _ Hx => paramdecl_mk x Hx) H3 b).
    rewrite (refs_mk own_vardecl vardecl_errors nd_vardecl _ (fun x _ _ Hx => vardecl_mk x Hx) H4 b).
    rewrite (refs_mk own_stmt stmt_errors nd_stmt _ (fun x _ _ Hx => stmt_mk x Hx) H5 b). reflexivity.
  - intros H b. cbn [flat_map]. rewrite app_nil_r. apply info_mk. exact H.
Qed.

(* the declarations of a program *)
Theorem decls_mk (ds : list (gdecl * nat)) : own_refs own_gdecl ds ->
  flat_map (fun x => shift_es (snd x) (gdecl_errors (fst x))) ds = flat_map mk (nd_refs nd_gdecl 0 ds).
Proof.
  intros H. pose proof (refs_mk own_gdecl gdecl_errors nd_gdecl ds (fun x _ _ Hx => gdecl_mk x Hx) H 0) as E.
  rewrite <- E. unfold shift_es at 1. rewrite <- (map_id (flat_map _ ds)) at 1. apply map_ext. intros x. unfold shift_e.
  destruct x as [s e m]. cbn [e_s e_e e_m]. f_equal; lia.
Qed.

(* ================================================================================================
   4. The messages of the nodes depend on the erasure only
   ================================================================================================ *)
Lemma nd_er b b' i : snd (nd b (er_info i)) = snd (nd b' i).
Proof. unfold nd. cbn [snd]. apply m_info. Qed.
Lemma ndi_er b b' n : snd (ndi b (er_ident n)) = snd (ndi b' n).
Proof. unfold ndi. cbn [snd er_ident id_info]. apply m_info. Qed.

Fixpoint var_ms (v : variable) {struct v} : forall b b', map snd (nd_var b (er_var v)) = map snd (nd_var b' v)
with expr_ms (e : expr) {struct e} : forall b b', map snd (nd_expr b (er_expr e)) = map snd (nd_expr b' e).
Proof.
  - destruct v as [n|a idx inf]; intros b b'; cbn [er_var nd_var map].
    + rewrite (ndi_er b b'). reflexivity.
    + rewrite !map_app, (nd_er b b'), (var_ms a b b'). do 2 f_equal. destruct idx as [[e off]|]; [|reflexivity]. apply expr_ms.
  - destruct e as [op l r inf|a inf|i|op a inf|v|inf]; intros b b'; cbn [er_expr nd_expr map]; rewrite ?map_app, ?(nd_er b b');
      rewrite ?(expr_ms l b b'), ?(expr_ms r b b'), ?(expr_ms a b b'); try reflexivity.
    + unfold er_lit. cbn [il_info]. rewrite (nd_er b b'). reflexivity.
    + apply var_ms.
Qed.

Lemma oexpr_ms o b b' : map snd (nd_oexpr b (er_oexpr o)) = map snd (nd_oexpr b' o).
Proof. destruct o as [[e off]|]; [|reflexivity]. cbn [er_oexpr nd_oexpr]. apply expr_ms. Qed.

Fixpoint texpr_ms (t : typeexpr) : forall b b', map snd (nd_texpr b (er_texpr t)) = map snd (nd_texpr b' t).
Proof.
  destruct t as [n|size base inf]; intros b b'; cbn [er_texpr nd_texpr map].
  - rewrite (ndi_er b b'). reflexivity.
  - rewrite (nd_er b b'). f_equal. destruct base as [[t' off]|]; [|reflexivity]. apply texpr_ms.
Qed.

Lemma oty_ms o b b' : map snd (nd_oty b (er_oty o)) = map snd (nd_oty b' o).
Proof. destruct o as [[e off]|]; [|reflexivity]. cbn [er_oty nd_oty]. apply texpr_ms. Qed.
Lemma oid_ms o b b' : map snd (nd_oid b (option_map er_ident o)) = map snd (nd_oid b' o).
Proof. destruct o as [n|]; [|reflexivity]. cbn [option_map nd_oid map]. rewrite (ndi_er b b'). reflexivity. Qed.

Lemma refs_ms {T} (f : nat -> T -> list node) (er : T -> T) (l : list (T * nat)) :
  (forall x off, In (x, off) l -> forall b b', map snd (f b (er x)) = map snd (f b' x)) ->
  forall b b', map snd (nd_refs f b (map (fun x => (er (fst x), 0)) l)) = map snd (nd_refs f b' l).
Proof.
  unfold nd_refs. induction l as [|[x off] r IH]; intros H b b'; [reflexivity|]. cbn [map flat_map fst snd].
  rewrite !map_app, (H x off (or_introl eq_refl) (b + 0) (b' + off)), (IH (fun y o Hin => H y o (or_intror Hin)) b b'). reflexivity.
Qed.

Definition stmt_ms_p (s : stmt) : Prop := forall b b', map snd (nd_stmt b (er_stmt s)) = map snd (nd_stmt b' s).

Lemma ostmt_ms r : (forall x off, r = Some (x, off) -> stmt_ms_p x) -> forall b b', map snd (nd_ostmt b (er_ostmt r)) = map snd (nd_ostmt b' r).
Proof. intros IH b b'. destruct r as [[x off]|]; [|reflexivity]. cbn [er_ostmt nd_ostmt]. apply (IH x off eq_refl). Qed.

Lemma er_stmts_map l : er_stmts l = map (fun a : stmt * nat => (er_stmt (fst a), 0)) l.
Proof. induction l as [|[x o] r IH]; [reflexivity|]. cbn [er_stmts map fst]. rewrite IH. reflexivity. Qed.

Theorem stmt_ms : forall s, stmt_ms_p s.
Proof.
  apply FormatProofs.stmt_ind'; unfold stmt_ms_p.
  - intros inf b b'. cbn [er_stmt nd_stmt map]. rewrite (nd_er b b'). reflexivity.
  - intros v e inf b b'. cbn [er_stmt nd_stmt map]. rewrite !map_app, (nd_er b b'), (var_ms v b b'), (oexpr_ms e b b'). reflexivity.
  - intros n a inf b b'. rewrite er_stmt_call. cbn [nd_stmt map]. rewrite (nd_er b b'), (ndi_er b b'). do 2 f_equal.
    apply (refs_ms nd_expr er_expr a). intros x off _. apply expr_ms.
  - intros c t e inf IHt IHe b b'. rewrite er_stmt_if, !nd_stmt_if. cbn [map].
    rewrite !map_app, (nd_er b b'), (oexpr_ms c b b'), (ostmt_ms t IHt b b'), (ostmt_ms e IHe b b'). reflexivity.
  - intros c t inf IHt b b'. rewrite er_stmt_while, !nd_stmt_while. cbn [map].
    rewrite !map_app, (nd_er b b'), (oexpr_ms c b b'), (ostmt_ms t IHt b b'). reflexivity.
  - intros body inf IH b b'. rewrite er_stmt_block, !nd_stmt_block. cbn [map]. rewrite (nd_er b b'). f_equal.
    rewrite er_stmts_map. apply (refs_ms nd_stmt er_stmt body). intros x off Hin. apply (IH x off Hin).
  - intros inf b b'. cbn [er_stmt nd_stmt map]. rewrite (nd_er b b'). reflexivity.
Qed.

Lemma vardecl_ms v b b' : map snd (nd_vardecl b (er_vardecl v)) = map snd (nd_vardecl b' v).
Proof. destruct v; cbn [er_vardecl nd_vardecl map]; rewrite ?map_app, (nd_er b b'), ?(oid_ms _ b b'), ?(oty_ms _ b b'); reflexivity. Qed.
Lemma paramdecl_ms v b b' : map snd (nd_paramdecl b (er_paramdecl v)) = map snd (nd_paramdecl b' v).
Proof. destruct v; cbn [er_paramdecl nd_paramdecl map]; rewrite ?map_app, (nd_er b b'), ?(oid_ms _ b b'), ?(oty_ms _ b b'); reflexivity. Qed.

Theorem gdecl_ms g b b' : map snd (nd_gdecl b (er_gdecl g)) = map snd (nd_gdecl b' g).
Proof.
  destruct g as [d|d|inf]; cbn [er_gdecl nd_gdecl map].
  - cbn [er_typedecl td_info td_name td_ty]. rewrite !map_app, (nd_er b b'), (oid_ms _ b b'), (oty_ms _ b b'). reflexivity.
  - cbn [er_procdecl pd_info pd_name pd_params pd_vars pd_stmts]. rewrite !map_app, (nd_er b b'), (oid_ms _ b b'). unfold er_params, er_vars.
    rewrite (refs_ms nd_paramdecl er_paramdecl _ (fun x _ _ => paramdecl_ms x) b b').
    rewrite (refs_ms nd_vardecl er_vardecl _ (fun x _ _ => vardecl_ms x) b b').
    rewrite er_stmts_map, (refs_ms nd_stmt er_stmt _ (fun x _ _ => stmt_ms x) b b'). reflexivity.
  - rewrite (nd_er b b'). reflexivity.
Qed.

(* two declaration lists with pairwise equal erasures: the same messages node by node *)
Theorem decls_ms (l l' : list (gdecl * nat)) :
  Forall2 (fun x x' => er_gdecl (fst x) = er_gdecl (fst x')) l l' ->
  map snd (nd_refs nd_gdecl 0 l) = map snd (nd_refs nd_gdecl 0 l').
Proof.
  unfold nd_refs. induction 1 as [|x x' l l' Hx _ IH]; [reflexivity|]. cbn [flat_map]. rewrite !map_app, IH. f_equal.
  rewrite <- (gdecl_ms (fst x) 0 (0 + snd x)), <- (gdecl_ms (fst x') 0 (0 + snd x')), Hx. reflexivity.
Qed.

(* ================================================================================================
   5. Trees without diagnostics; doc comments
   ================================================================================================ *)
Lemma clean_own i : clean i = true -> own_info i.
Proof. unfold clean, own_info. destruct (i_errs i); [constructor | discriminate]. Qed.
Lemma clean_own_id n : clean_ident n = true -> own_id n.
Proof. unfold clean_ident, clean, own_id. destruct (i_errs (id_info n)); [constructor | discriminate]. Qed.

Ltac andb_split :=
  repeat match goal with H : _ && _ = true |- _ => apply andb_true_iff in H; destruct H end.

Fixpoint clean_own_var (v : variable) {struct v} : clean_var v = true -> own_var v
with clean_own_expr (e : expr) {struct e} : clean_expr e = true -> own_expr e.
Proof.
  - destruct v as [n|a idx inf]; cbn [clean_var own_var]; intros H.
    + apply clean_own_id. exact H.
    + andb_split. split; [apply clean_own; assumption|]. split; [apply clean_own_var; assumption|].
      destruct idx as [[e off]|]; [|exact I]. apply clean_own_expr. assumption.
  - destruct e as [op l r inf|a inf|i|op a inf|v|inf]; cbn [clean_expr own_expr]; intros H; andb_split;
      repeat split; try (apply clean_own; assumption); try (apply clean_own_expr; assumption).
    + unfold clean_lit in H. andb_split. apply clean_own. assumption.
    + apply clean_own_var. exact H.
    + discriminate H.
Qed.

Lemma clean_own_oexpr o : clean_opt (fun r : expr * nat => clean_expr (fst r)) o = true -> own_opt own_expr o.
Proof. destruct o as [[e off]|]; [|discriminate]. cbn [clean_opt fst own_opt]. apply clean_own_expr. Qed.

Fixpoint clean_own_texpr (t : typeexpr) : clean_texpr t = true -> own_texpr t.
Proof.
  destruct t as [n|size base inf]; cbn [clean_texpr own_texpr]; intros H; [apply clean_own_id; exact H|]. andb_split.
  split; [apply clean_own; assumption|]. destruct base as [[t' off]|]; [|exact I]. apply clean_own_texpr. assumption.
Qed.

Lemma clean_own_oty o : clean_opt (fun r : typeexpr * nat => clean_texpr (fst r)) o = true -> own_opt own_texpr o.
Proof. destruct o as [[e off]|]; [|discriminate]. cbn [clean_opt fst own_opt]. apply clean_own_texpr. Qed.
Lemma clean_own_oid o : clean_opt clean_ident o = true -> own_oid o.
Proof. destruct o as [n|]; [|discriminate]. apply clean_own_id. Qed.

Lemma clean_own_refs {T} (c : T -> bool) (P : T -> Prop) (l : list (T * nat)) :
  (forall x off, In (x, off) l -> c x = true -> P x) -> forallb (fun r => c (fst r)) l = true -> own_refs P l.
Proof.
  unfold own_refs. induction l as [|[x off] r IH]; intros H Hc; [constructor|]. cbn [forallb fst] in Hc. andb_split.
  constructor; [apply (H x off (or_introl eq_refl)); assumption | apply IH; [intros y o Hin; apply (H y o (or_intror Hin)) | assumption]].
Qed.

Theorem clean_own_stmt : forall s, clean_stmt s = true -> own_stmt s.
Proof.
  apply (FormatProofs.stmt_ind' (fun s => clean_stmt s = true -> own_stmt s)).
  - intros inf H. apply clean_own. exact H.
  - intros v e inf H. cbn [clean_stmt] in H. andb_split. cbn [own_stmt].
    split; [apply clean_own; assumption|]. split; [apply clean_own_var; assumption | apply clean_own_oexpr; assumption].
  - intros n a inf H. cbn [clean_stmt] in H. andb_split. cbn [own_stmt].
    split; [apply clean_own; assumption|]. split; [apply clean_own_id; assumption|].
    apply (clean_own_refs clean_expr own_expr a); [intros x off _; apply clean_own_expr | assumption].
  - intros c t e inf IHt IHe H. cbn [clean_stmt] in H. andb_split. rewrite own_stmt_if.
    split; [apply clean_own; assumption|]. split; [apply clean_own_oexpr; assumption|]. split.
    + destruct t as [[x off]|]; [|exact I]. apply (IHt x off eq_refl). assumption.
    + destruct e as [[x off]|]; [|exact I]. apply (IHe x off eq_refl). assumption.
  - intros c t inf IHt H. cbn [clean_stmt] in H. andb_split. rewrite own_stmt_while.
    split; [apply clean_own; assumption|]. split; [apply clean_own_oexpr; assumption|].
    destruct t as [[x off]|]; [|discriminate]. apply (IHt x off eq_refl). assumption.
  - intros body inf IH H. cbn [clean_stmt] in H. andb_split. rewrite own_stmt_block.
    split; [apply clean_own; assumption|]. apply (clean_own_refs clean_stmt own_stmt body); assumption.
  - intros inf H. discriminate H.
Qed.

Theorem clean_own_gdecl g : clean_gdecl g = true -> own_gdecl g.
Proof.
  destruct g as [d|d|inf]; cbn [clean_gdecl own_gdecl]; intros H; [| |discriminate H]; andb_split.
  - split; [apply clean_own; assumption|]. split; [apply clean_own_oid; assumption | apply clean_own_oty; assumption].
  - split; [apply clean_own; assumption|]. split; [apply clean_own_oid; assumption|]. split; [|split].
    + apply (clean_own_refs clean_paramdecl own_paramdecl); [|assumption]. intros [docs r n ty i|i] off _ Hc; [|discriminate Hc].
      cbn [clean_paramdecl] in Hc. andb_split. cbn [own_paramdecl].
      split; [apply clean_own; assumption|]. split; [apply clean_own_oid; assumption | apply clean_own_oty; assumption].
    + apply (clean_own_refs clean_vardecl own_vardecl); [|assumption]. intros [docs n ty i|i] off _ Hc; [|discriminate Hc].
      cbn [clean_vardecl] in Hc. andb_split. cbn [own_vardecl].
      split; [apply clean_own; assumption|]. split; [apply clean_own_oid; assumption | apply clean_own_oty; assumption].
    + apply (clean_own_refs clean_stmt own_stmt); [|assumption]. intros x off _. apply clean_own_stmt.
Qed.

(* the nodes do not read the doc fields *)
Lemma nd_nodoc b g : nd_gdecl b (FormatStructIdem.nodoc_gdecl g) = nd_gdecl b g.
Proof.
  destruct g as [d|d|i]; [reflexivity| |reflexivity]. cbn [FormatStructIdem.nodoc_gdecl nd_gdecl pd_info pd_name pd_params pd_vars pd_stmts].
  do 2 f_equal. f_equal; [|f_equal]; unfold nd_refs; rewrite flat_map_concat_map, map_map, <- flat_map_concat_map;
    apply flat_map_ext; intros [x off]; cbn [fst snd]; destruct x; reflexivity.
Qed.
