(* COMPLETENESS of the parser, base layer.
   - [Seg a l]: the token kinds from index a on start with l;
   - [Grow p]: a parser never shrinks the error buffer - neither on success nor in the state carried by
     an error (`expect` continues from that state).  Hence "the buffer did not grow" means that no
     `expect` failed and no `confusable` fired: the run used no error-recovery alternative;
   - clean inversion of the combinators, of many0 and of the token-level non-terminals. *)
From Coq Require Import Arith Lia List Bool.
From Spl Require Import Spec.Grammar Model.Parser Model.Errors Proofs.ParserComb Proofs.ParserEqns
  Proofs.GrammarBase.
Import ListNotations.
Local Open Scope nat_scope.

Definition eb (s : st) : nat := length (ebuf s).

Definition gpost {A} (s : st) (r : pres A) : Prop :=
  match r with POk s' _ => eb s <= eb s' | PErr s' => eb s <= eb s' | PFuel => True end.
Definition Grow {A} (p : parser A) : Prop := forall s, gpost s (p s).

Lemma Grow_ok {A} (p : parser A) s s' a : Grow p -> p s = POk s' a -> eb s <= eb s'.
Proof. intros H E. specialize (H s). now rewrite E in H. Qed.
Lemma Grow_err {A} (p : parser A) s s' : Grow p -> p s = PErr s' -> eb s <= eb s'.
Proof. intros H E. specialize (H s). now rewrite E in H. Qed.

Lemma gpost_trans {A} s s1 (r : pres A) : eb s <= eb s1 -> gpost s1 r -> gpost s r.
Proof. intros H. destruct r; cbn; lia. Qed.

Lemma gpost_bind {A B} s (r : pres A) (k : st -> A -> pres B) :
  gpost s r -> (forall s1 a, r = POk s1 a -> gpost s1 (k s1 a)) -> gpost s (bind r k).
Proof.
  destruct r as [s1 a|s1|]; cbn [bind gpost]; intros H Hk; [|exact H|exact I].
  eapply gpost_trans; [exact H | now apply Hk].
Qed.

Lemma Grow_ext {A} (p q : parser A) : (forall s, p s = q s) -> Grow p -> Grow q.
Proof. intros E H s. rewrite <- E. apply H. Qed.
Lemma Grow_fuel {A} : Grow (fun _ : st => @PFuel A).
Proof. intros s. exact I. Qed.
Lemma Grow_ret {A} (f : st -> A) : Grow (fun s => POk s (f s)).
Proof. intros s. cbn. lia. Qed.
Lemma Grow_bind {A B} (p : parser A) (k : st -> A -> pres B) :
  Grow p -> (forall a, Grow (fun s => k s a)) -> Grow (fun s => bind (p s) k).
Proof. intros Hp Hk s. apply gpost_bind; [apply Hp|]. intros s1 a _. apply (Hk a). Qed.
Lemma Grow_map {A B} (f : A -> B) p : Grow p -> Grow (p_map f p).
Proof. intros H. unfold p_map. apply Grow_bind; [exact H|]. intros a. apply Grow_ret. Qed.
Lemma Grow_alt {A} (p q : parser A) : Grow p -> Grow q -> Grow (p_alt p q).
Proof. intros Hp Hq s. unfold p_alt. specialize (Hp s). specialize (Hq s). destruct (p s); [exact Hp | exact Hq | exact I]. Qed.
Lemma Grow_restore {A} (p : parser A) : Grow p -> Grow (p_restore p).
Proof. intros Hp s. unfold p_restore. specialize (Hp s). destruct (p s); cbn; [exact Hp | lia | exact I]. Qed.
Lemma Grow_opt {A} (p : parser A) : Grow p -> Grow (p_opt p).
Proof. intros Hp s. unfold p_opt. specialize (Hp s). destruct (p s); cbn; [exact Hp | lia | exact I]. Qed.
Lemma Grow_pair {A B} (p : parser A) (q : parser B) : Grow p -> Grow q -> Grow (p_pair p q).
Proof.
  intros Hp Hq. unfold p_pair. apply Grow_bind; [exact Hp|]. intros a.
  apply (Grow_bind q); [exact Hq|]. intros b. apply Grow_ret.
Qed.
Lemma Grow_preceded {A B} (p : parser A) (q : parser B) : Grow p -> Grow q -> Grow (p_preceded p q).
Proof. intros. unfold p_preceded. now apply Grow_map, Grow_pair. Qed.
Lemma Grow_terminated {A B} (p : parser A) (q : parser B) : Grow p -> Grow q -> Grow (p_terminated p q).
Proof. intros. unfold p_terminated. now apply Grow_map, Grow_pair. Qed.
Lemma Grow_many0 {A} fuel (p : parser A) : Grow p -> Grow (p_many0 fuel p).
Proof.
  intros Hp. induction fuel as [|f IH]; intros s; cbn [p_many0]; [exact I|].
  pose proof (Hp s) as H. destruct (p s) as [s1 a|e|]; [|cbn; lia|exact I].
  cbn in H. destruct (Nat.eqb (pos s1) (pos s)); [cbn; lia|].
  eapply gpost_trans; [exact H|]. apply gpost_bind; [apply IH|]. intros s2 l _. cbn. lia.
Qed.
Lemma Grow_info {A} (p : parser A) : Grow (p_info p).
Proof. intros s. unfold p_info. destruct (p (set_ebuf s [])); cbn; unfold eb; cbn; lia. Qed.
Lemma Grow_expect {A} (p : parser A) m : Grow p -> Grow (p_expect p m).
Proof.
  intros Hp s. unfold p_expect. specialize (Hp s). destruct (p s) as [s1 a|s1|]; cbn in *; [exact Hp| |exact I].
  unfold eb, expect_error, push_err in *. cbn. rewrite app_length. cbn. lia.
Qed.
Lemma Grow_ref {A} (p : parser A) : Grow p -> Grow (p_ref p).
Proof. intros Hp s. unfold p_ref. specialize (Hp (set_refp s (pos s))). destruct (p (set_refp s (pos s))); cbn in *; exact Hp. Qed.
Lemma Grow_confusable {A} (p : parser A) m : Grow (p_confusable p m).
Proof.
  unfold p_confusable. apply Grow_bind; [apply Grow_info|]. intros ai s. cbn.
  unfold eb, push_err. cbn. rewrite app_length. cbn. lia.
Qed.
Lemma Grow_peek_la la : Grow (p_peek_la la).
Proof. intros s. unfold p_peek_la. destruct (la (pos s)); cbn; lia. Qed.

Section Base.
Variable toks : list token.
Notation K := (map tk toks).

Lemma Grow_comments : Grow (p_comments toks).
Proof. intros s. unfold p_comments. cbn. unfold eb. cbn. lia. Qed.
Lemma Grow_tag f : Grow (p_tag toks f).
Proof.
  intros s. unfold p_tag. destruct (nth_error _ _); [destruct (f _)|]; cbn; unfold eb; cbn; lia.
Qed.
Lemma ignore_from_grow n la s : gpost s (ignore_from toks n la s).
Proof.
  revert s. induction n as [|n IH]; intros s; cbn [ignore_from]; destruct (la (pos s)); cbn [gpost]; try lia.
  destruct (Nat.ltb (pos s) (length toks)); [|cbn [gpost]; lia].
  eapply gpost_trans; [|apply IH]. unfold eb. cbn. lia.
Qed.
Lemma Grow_ignore0 la : Grow (p_ignore0 toks la).
Proof. intros s. unfold p_ignore0. apply gpost_bind; [apply ignore_from_grow|]. intros s1 a _. cbn. lia. Qed.
Lemma Grow_ignore1 la : Grow (p_ignore1 toks la).
Proof. intros s. unfold p_ignore1. destruct (la (pos s)); [cbn; lia | apply Grow_ignore0]. Qed.

Ltac grow1 :=
  first
  [ assumption
  | apply Grow_fuel | apply Grow_info | apply Grow_confusable
  | apply Grow_map | apply Grow_restore | apply Grow_alt | apply Grow_opt | apply Grow_pair
  | apply Grow_preceded | apply Grow_terminated | apply Grow_many0
  | apply Grow_comments | apply Grow_tag | apply Grow_expect | apply Grow_ref
  | apply Grow_peek_la | apply Grow_ignore0 | apply Grow_ignore1 | apply Grow_ret ].
Ltac grow := repeat grow1.

Lemma Grow_ident : Grow (p_ident toks). Proof. unfold p_ident. grow. Qed.
Lemma Grow_intlit : Grow (p_intlit toks). Proof. unfold p_intlit. grow. Qed.
Lemma Grow_rhs p lhs op : Grow p -> Grow (p_rhs p lhs op).
Proof. intros Hp. unfold p_rhs. apply Grow_bind; [grow|]. intros a. apply Grow_ret. Qed.

Lemma Grow_tag_loop {A} f (k : st -> token -> pres A) (d : A) :
  (forall t, Grow (fun s => k s t)) ->
  Grow (fun s => match p_tag toks f s with POk s1 op => k s1 op | PErr _ => POk s d | PFuel => PFuel end).
Proof.
  intros Hk s. pose proof (Grow_tag f s) as H.
  destruct (p_tag toks f s) as [s1 t|e|]; cbn in *; [|lia|exact I].
  eapply gpost_trans; [exact H | apply (Hk t)].
Qed.

Lemma Grow_expr_all f :
  Grow (p_variable toks f) /\ Grow (p_primary toks f) /\ Grow (p_factor toks f) /\
  (forall e, Grow (fun s => mul_loop toks f s e)) /\ Grow (p_mul toks f) /\
  (forall e, Grow (fun s => add_loop toks f s e)) /\ Grow (p_add toks f) /\
  Grow (p_comparison toks f).
Proof.
  induction f as [|f (IHvar & IHpri & IHfac & IHml & IHmul & IHal & IHadd & IHcmp)].
  - repeat split; try intros e; apply Grow_fuel.
  - repeat split.
    + rewrite p_variable_S. apply Grow_bind; [grow|]. intros [[v0 vinfo] acc]. apply Grow_ret.
    + rewrite p_primary_S. apply Grow_alt; [grow; apply Grow_intlit|]. apply Grow_alt; [grow|].
      apply Grow_bind; [grow|]. intros [[[x lp] [e y]] inf]. apply Grow_ret.
    + rewrite p_factor_S. apply Grow_alt; grow.
    + intros e.
      apply Grow_ext with (p := fun s => match p_tag toks is_mulop s with
         | POk s1 op => bind (p_rhs (p_factor toks f) e (op_of (tk op)) s1) (fun s2 e' => mul_loop toks f s2 e')
         | PErr _ => POk s e | PFuel => PFuel end); [intros s; now rewrite mul_loop_S|].
      apply Grow_tag_loop. intros t.
      apply (Grow_bind (p_rhs (p_factor toks f) e (op_of (tk t)))); [now apply Grow_rhs | exact IHml].
    + rewrite p_mul_S. apply (Grow_bind (p_factor toks f)); [exact IHfac | exact IHml].
    + intros e.
      apply Grow_ext with (p := fun s => match p_tag toks is_addop s with
         | POk s1 op => bind (p_rhs (p_mul toks f) e (op_of (tk op)) s1) (fun s2 e' => add_loop toks f s2 e')
         | PErr _ => POk s e | PFuel => PFuel end); [intros s; now rewrite add_loop_S|].
      apply Grow_tag_loop. intros t.
      apply (Grow_bind (p_rhs (p_mul toks f) e (op_of (tk t)))); [now apply Grow_rhs | exact IHal].
    + rewrite p_add_S. apply (Grow_bind (p_mul toks f)); [exact IHmul | exact IHal].
    + rewrite p_comparison_S. apply (Grow_bind (p_add toks f)); [exact IHadd|].
      intros e. apply Grow_tag_loop. intros t. now apply Grow_rhs.
Qed.

Lemma Grow_variable f : Grow (p_variable toks f). Proof. apply Grow_expr_all. Qed.
Lemma Grow_primary f : Grow (p_primary toks f). Proof. apply Grow_expr_all. Qed.
Lemma Grow_factor f : Grow (p_factor toks f). Proof. apply Grow_expr_all. Qed.
Lemma Grow_mul f : Grow (p_mul toks f). Proof. apply Grow_expr_all. Qed.
Lemma Grow_add f : Grow (p_add toks f). Proof. apply Grow_expr_all. Qed.
Lemma Grow_mul_loop f e : Grow (fun s => mul_loop toks f s e). Proof. apply Grow_expr_all. Qed.
Lemma Grow_add_loop f e : Grow (fun s => add_loop toks f s e). Proof. apply Grow_expr_all. Qed.
Lemma Grow_comparison f : Grow (p_comparison toks f). Proof. apply Grow_expr_all. Qed.
Lemma Grow_expr f : Grow (p_expr toks f). Proof. apply Grow_comparison. Qed.

Lemma Grow_texpr f : Grow (p_texpr toks f).
Proof.
  induction f as [|f IH]; [apply Grow_fuel|]. rewrite p_texpr_S. apply Grow_alt; [grow; apply Grow_intlit|].
  apply Grow_map, Grow_ident.
Qed.

Lemma Grow_list {A} fuel (p : parser A) : Grow p -> Grow (p_list toks fuel p).
Proof.
  intros Hp. unfold p_list. apply Grow_bind; [grow|]. intros head.
  apply (Grow_bind (p_many0 fuel
     (p_map (fun r => (fst (fst r), snd r + snd (fst r)))
        (p_ref (p_preceded (p_tag toks (is_k Comma)) (p_ref p)))))); [grow|].
  intros tail. apply Grow_ret.
Qed.

Lemma Grow_argument f : Grow (p_argument toks f).
Proof. pose proof (Grow_expr f). unfold p_argument. grow. Qed.
Lemma Grow_call f : Grow (p_call toks f).
Proof. pose proof Grow_ident. pose proof (Grow_list f _ (Grow_argument f)). unfold p_call. grow. Qed.
Lemma Grow_assign f : Grow (p_assign toks f).
Proof. pose proof (Grow_variable f). pose proof (Grow_expr f). unfold p_assign. grow. Qed.
Lemma Grow_stmt f : Grow (p_stmt toks f).
Proof.
  induction f as [|f IH]; [apply Grow_fuel|]. rewrite p_stmt_S.
  pose proof (Grow_expr f). pose proof (Grow_call f). pose proof (Grow_assign f). grow.
Qed.
Lemma Grow_vardecl f : Grow (p_vardecl toks f).
Proof. pose proof Grow_ident. pose proof (Grow_texpr f). unfold p_vardecl. grow. Qed.
Lemma Grow_paramdecl f : Grow (p_paramdecl toks f).
Proof. pose proof Grow_ident. pose proof (Grow_texpr f). unfold p_paramdecl. grow. Qed.

(* ------------------------------------------------------------------------------------------ *)
(* segments of the kind sequence *)
Definition Seg (a : nat) (l : list kind) : Prop := exists rest, skipn a K = l ++ rest.

Lemma Seg_nil a : Seg a [].
Proof. exists (skipn a K). reflexivity. Qed.

Lemma Seg_app a l1 l2 : Seg a l1 -> Seg (a + length l1) l2 -> Seg a (l1 ++ l2).
Proof.
  intros [r1 H1] [r2 H2]. exists r2. rewrite skipn_add, H1, skipn_app_len in H2.
  rewrite H1, H2. now rewrite app_assoc.
Qed.

Lemma Seg_at a b l : a = b -> Seg a l -> Seg b l.
Proof. now intros ->. Qed.

Lemma leading_split (l : list token) :
  map tk l = cm (leading_comments l) ++ map tk (skipn (length (leading_comments l)) l).
Proof.
  induction l as [|x l IH]; [reflexivity|]. cbn [leading_comments].
  destruct (tk x) eqn:E; try (cbn; now rewrite E).
  cbn [length skipn cm map app]. rewrite E. f_equal. exact IH.
Qed.

Lemma skipn_sig p : skipn p K = cm (comments_at toks p) ++ skipn (sig_at toks p) K.
Proof.
  unfold sig_at, comments_at. rewrite !skipn_map, skipn_add. apply leading_split.
Qed.

Lemma skipn_nth (q : nat) t : nth_error toks q = Some t -> skipn q K = tk t :: skipn (S q) K.
Proof.
  revert q. induction toks as [|x l IH]; intros [|q] H; try discriminate.
  - injection H as ->. reflexivity.
  - cbn. apply IH. exact H.
Qed.

Lemma Seg_tok p t : nth_error toks (sig_at toks p) = Some t -> Seg p (cm (comments_at toks p) ++ [tk t]).
Proof.
  intros H. exists (skipn (S (sig_at toks p)) K). rewrite skipn_sig, (skipn_nth _ _ H).
  now rewrite <- app_assoc.
Qed.

(* a successful tag parser *)
Lemma tag_inv f s s' t :
  p_tag toks f s = POk s' t ->
  f (tk t) = true /\ Seg (pos s) (cm (comments_at toks (pos s)) ++ [tk t]) /\
  pos s' = pos s + length (comments_at toks (pos s)) + 1 /\ refp s' = refp s /\ ebuf s' = ebuf s.
Proof.
  intros H. apply p_tag_ok in H as (Ht & Hf & ->). split; [exact Hf|]. split; [now apply Seg_tok|].
  cbn [pos refp ebuf adv]. unfold sig_at. repeat split. lia.
Qed.

Lemma tag_err_la f s e : p_tag toks f s = PErr e -> la_tag toks f (pos s) = false.
Proof.
  intros H. apply p_tag_err in H as [[_ (t & Ht & Hf)]|[_ Hn]]; rewrite la_tag_spec.
  - now rewrite Ht.
  - now rewrite Hn.
Qed.

Lemma is_k_eq k x : is_k k x = true -> x = k.
Proof. unfold is_k. apply kind_eqb_eq. Qed.

(* expect in a run that did not grow the buffer: the inner parser succeeded *)
Lemma expect_inv {A} (p : parser A) m s s' o :
  p_expect p m s = POk s' o -> Grow p -> eb s' <= eb s -> exists a, o = Some a /\ p s = POk s' a.
Proof.
  intros H Hp Hb. apply p_expect_ok in H as [(a & H & ->)|(e & H & -> & ->)]; [eauto|].
  exfalso. apply (Grow_err _ _ _ Hp) in H. unfold eb, expect_error, push_err in Hb. cbn in Hb.
  rewrite app_length in Hb. cbn in Hb. unfold eb in H. lia.
Qed.

(* confusable always grows the buffer *)
Lemma confusable_grows {A} (p : parser A) m s s' a : p_confusable p m s = POk s' a -> eb s < eb s'.
Proof.
  unfold p_confusable. intros H. apply bind_ok in H as (s1 & ai & H1 & [= <- <-]).
  apply p_info_ok in H1 as (s2 & _ & -> & _). unfold eb, push_err. cbn. rewrite app_length. cbn. lia.
Qed.

(* many0: the iterations and the failing last attempt *)
Lemma many0_inv {A} fuel (p : parser A) s s' l :
  p_many0 fuel p s = POk s' l -> steps p s l s' /\ exists e, p s' = PErr e.
Proof.
  revert s l. induction fuel as [|f IH]; intros s l H; cbn [p_many0] in H; [discriminate|].
  destruct (p s) as [s1 a|e|] eqn:E; [| |discriminate].
  - destruct (Nat.eqb_spec (pos s1) (pos s)) as [Heq|Hne]; [discriminate|].
    apply bind_ok in H as (s2 & l' & H & [= <- <-]). apply IH in H as [Hs He].
    split; [econstructor; eassumption | exact He].
  - injection H as <- <-. split; [constructor | eauto].
Qed.

Lemma steps_grow {A} (p : parser A) s l s' : Grow p -> steps p s l s' -> eb s <= eb s'.
Proof.
  intros Hp. induction 1 as [s|s s1 s' a l Hp1 _ _ IH]; [lia|].
  apply (Grow_ok _ _ _ _ Hp) in Hp1. lia.
Qed.

(* ------------------------------------------------------------------------------------------ *)
(* identifiers and literals: always clean *)
Lemma shift_es_nil off l : shift_es off l = [] -> l = [].
Proof. destruct l; [reflexivity | discriminate]. Qed.

Lemma ident_inv s s' i :
  p_ident toks s = POk s' i -> refp s <= pos s ->
  exists c x, i = x_ident (pos s - refp s) c x /\ Seg (pos s) (cm c ++ [Ident x]) /\
              pos s' = pos s + length c + 1 /\ refp s' = refp s /\ ebuf s' = ebuf s /\ c = comments_at toks (pos s).
Proof.
  unfold p_ident. intros H Hrp. apply p_map_ok in H as ([t inf] & H & ->).
  apply p_info_ok in H as (s1 & H & -> & Hinf). cbn [fst snd] in *.
  apply tag_inv in H as (Hf & Hseg & Hp & Hr & Hb). cbn [pos refp ebuf set_ebuf] in *.
  destruct (tk t) eqn:Et; try discriminate Hf.
  exists (comments_at toks (pos s)), s0. repeat split; try assumption.
  unfold x_ident. cbn [show_kind]. f_equal. rewrite Hinf, Hb, Hp. unfold mkinfo. f_equal. lia.
Qed.

(* no literal token carries an out-of-range value: what the lexer reports as a lexical error *)
Definition lit_ok (k : kind) : bool :=
  match k with IntT (IntErr _) | HexT (IntErr _) => false | _ => true end.
Definition LitOk : Prop := forall t, In t toks -> lit_ok (tk t) = true.

Lemma intlit_inv s s' i :
  LitOk -> p_intlit toks s = POk s' i -> refp s <= pos s ->
  exists c l, i = x_lit (pos s - refp s) c l /\ Seg (pos s) (cm c ++ [k_lit l]) /\
              pos s' = pos s + length c + 1 /\ refp s' = refp s /\ ebuf s' = ebuf s.
Proof.
  intros HL. unfold p_intlit. intros H Hrp. apply p_map_ok in H as ([v inf] & H & ->).
  apply p_info_ok in H as (s1 & H & -> & Hinf). cbn [fst snd] in *.
  apply p_map_ok in H as (t & H & ->).
  assert (Ht : exists f, p_tag toks f (set_ebuf s []) = POk s1 t /\
                         (forall k, f k = true -> match k with HexT _ | CharT _ | IntT _ => True | _ => False end)).
  { apply p_alt_ok in H as [H|[_ H]]; [eexists; split; [exact H|intros []; try discriminate; auto]|].
    apply p_alt_ok in H as [H|[_ H]]; eexists; (split; [exact H|intros []; try discriminate; auto]). }
  destruct Ht as (f & Ht & Hf). pose proof Ht as Ht0.
  apply tag_inv in Ht as (Hft & Hseg & Hp & Hr & Hb). cbn [pos refp ebuf set_ebuf] in *.
  apply p_tag_ok in Ht0 as (Hn & _ & _). apply nth_error_In in Hn. apply HL in Hn.
  specialize (Hf _ Hft).
  assert (exists l, tk t = k_lit l /\ lit_value t = Some (v_lit l)) as (l & Hl & Hv).
  { unfold lit_value. destruct (tk t) as [| | | | | | | | | | | | | | | | | | | | | | | | | | | | | |c|[v|e]|[v|e]| | |];
      try contradiction; try discriminate Hn.
    - exists (LChr c). split; reflexivity.
    - exists (LDec v). split; reflexivity.
    - exists (LHex v). split; reflexivity. }
  exists (comments_at toks (pos s)), l. rewrite <- Hl. repeat split; try assumption.
  unfold x_lit. rewrite Hv. f_equal. rewrite Hinf, Hb, Hp. unfold mkinfo. f_equal. lia.
Qed.


(* ------------------------------------------------------------------------------------------ *)
(* [Spec p C Q]: a run of p that succeeds from a state with refp <= pos, does not grow the error
   buffer and returns a value satisfying C consumed exactly a list l of token kinds with
   Q (start position) (reference position) (value) l. *)
Definition Spec {A} (p : parser A) (C : A -> Prop) (Q : nat -> nat -> A -> list kind -> Prop) : Prop :=
  forall s s' a, p s = POk s' a -> refp s <= pos s -> eb s' <= eb s -> C a ->
  exists l, Seg (pos s) l /\ pos s' = pos s + length l /\ refp s' = refp s /\ Q (pos s) (refp s) a l.

Lemma Spec_ext {A} (p q : parser A) C Q : (forall s, p s = q s) -> Spec p C Q -> Spec q C Q.
Proof. intros E H s s' a Hq. rewrite <- E in Hq. now apply H. Qed.

Lemma Spec_conseq {A} (p : parser A) C Q (C' : A -> Prop) (Q' : nat -> nat -> A -> list kind -> Prop) :
  Spec p C Q -> (forall a, C' a -> C a) -> (forall k r a l, r <= k -> C' a -> Q k r a l -> Q' k r a l) ->
  Spec p C' Q'.
Proof.
  intros H HC HQ s s' a Hp Hr Hb Ha. destruct (H s s' a Hp Hr Hb (HC _ Ha)) as (l & H1 & H2 & H3 & H4).
  exists l. repeat split; auto.
Qed.

Lemma Spec_map {A B} (f : A -> B) p C Q (C' : B -> Prop) (Q' : nat -> nat -> B -> list kind -> Prop) :
  Spec p C Q -> (forall a, C' (f a) -> C a) ->
  (forall k r a l, r <= k -> C' (f a) -> Q k r a l -> Q' k r (f a) l) -> Spec (p_map f p) C' Q'.
Proof.
  intros H HC HQ s s' b Hp Hr Hb Hc. apply p_map_ok in Hp as (a & Hp & ->).
  destruct (H s s' a Hp Hr Hb (HC _ Hc)) as (l & H1 & H2 & H3 & H4). exists l. repeat split; auto.
Qed.

Lemma Spec_absurd {A} (p : parser A) (C : A -> Prop) Q : (forall s s' a, p s = POk s' a -> ~ C a) -> Spec p C Q.
Proof. intros H s s' a Hp _ _ Hc. destruct (H _ _ _ Hp Hc). Qed.

Lemma Spec_map_absurd {A B} (f : A -> B) p (C : B -> Prop) Q : (forall a, ~ C (f a)) -> Spec (p_map f p) C Q.
Proof. intros H. apply Spec_absurd. intros s s' b Hp. apply p_map_ok in Hp as (a & _ & ->). apply H. Qed.

Lemma Spec_fuel {A} (C : A -> Prop) Q : Spec (fun _ => PFuel) C Q.
Proof. intros s s' a H. discriminate H. Qed.

Lemma Spec_alt {A} (p q : parser A) C Q : Spec p C Q -> Spec q C Q -> Spec (p_alt p q) C Q.
Proof. intros Hp Hq s s' a H. apply p_alt_ok in H as [H|[_ H]]; [now apply Hp | now apply Hq]. Qed.

Lemma Spec_restore {A} (p : parser A) C Q : Spec p C Q -> Spec (p_restore p) C Q.
Proof. intros Hp s s' a H. apply p_restore_ok in H. now apply Hp. Qed.

Lemma Spec_pair {A B} (p : parser A) (q : parser B) C1 Q1 C2 Q2 :
  Spec p C1 Q1 -> Spec q C2 Q2 -> Grow p -> Grow q ->
  Spec (p_pair p q) (fun ab => C1 (fst ab) /\ C2 (snd ab))
       (fun k r ab l => exists l1 l2, l = l1 ++ l2 /\ Q1 k r (fst ab) l1 /\ Q2 (k + length l1) r (snd ab) l2).
Proof.
  intros Hp Hq Gp Gq s s' ab H Hr Hb [Hc1 Hc2]. apply p_pair_ok in H as (s1 & H1 & H2).
  pose proof (Grow_ok _ _ _ _ Gp H1) as G1. pose proof (Grow_ok _ _ _ _ Gq H2) as G2.
  destruct (Hp _ _ _ H1 Hr ltac:(lia) Hc1) as (l1 & S1 & P1 & R1 & HQ1).
  destruct (Hq _ _ _ H2 ltac:(lia) ltac:(lia) Hc2) as (l2 & S2 & P2 & R2 & HQ2).
  exists (l1 ++ l2). rewrite app_length. repeat split; [|lia|congruence|].
  - apply Seg_app; [exact S1 | now rewrite <- P1].
  - exists l1, l2. rewrite P1, R1 in HQ2. auto.
Qed.

Lemma Spec_preceded {A B} (p : parser A) (q : parser B) C1 Q1 C2 Q2 :
  Spec p C1 Q1 -> Spec q C2 Q2 -> Grow p -> Grow q -> (forall a, C1 a) ->
  Spec (p_preceded p q) C2
       (fun k r b l => exists a l1 l2, l = l1 ++ l2 /\ Q1 k r a l1 /\ Q2 (k + length l1) r b l2).
Proof.
  intros Hp Hq Gp Gq HC1. unfold p_preceded. eapply Spec_map; [apply (Spec_pair _ _ _ _ _ _ Hp Hq Gp Gq)| |].
  - intros [a b] Hc. cbn. auto.
  - intros k r [a b] l _ _ (l1 & l2 & -> & H1 & H2). cbn in *. eauto 6.
Qed.

Lemma Spec_terminated {A B} (p : parser A) (q : parser B) C1 Q1 C2 Q2 :
  Spec p C1 Q1 -> Spec q C2 Q2 -> Grow p -> Grow q -> (forall b, C2 b) ->
  Spec (p_terminated p q) C1
       (fun k r a l => exists b l1 l2, l = l1 ++ l2 /\ Q1 k r a l1 /\ Q2 (k + length l1) r b l2).
Proof.
  intros Hp Hq Gp Gq HC2. unfold p_terminated. eapply Spec_map; [apply (Spec_pair _ _ _ _ _ _ Hp Hq Gp Gq)| |].
  - intros [a b] Hc. cbn. auto.
  - intros k r [a b] l _ _ (l1 & l2 & -> & H1 & H2). cbn in *. eauto 6.
Qed.

Definition CTrue {A} : A -> Prop := fun _ => True.

Lemma Spec_tag f :
  Spec (p_tag toks f) CTrue (fun k r t l => exists c, l = cm c ++ [tk t] /\ f (tk t) = true).
Proof.
  intros s s' t H _ _ _. apply tag_inv in H as (Hf & Hs & Hp & Hr & _).
  exists (cm (comments_at toks (pos s)) ++ [tk t]). rewrite app_length, cm_length. cbn [length].
  repeat split; [exact Hs | lia | exact Hr | eauto].
Qed.

Lemma Spec_comments : Spec (p_comments toks) CTrue (fun k r c l => l = cm c).
Proof.
  intros s s' c H _ _ _. unfold p_comments in H. injection H as <- <-.
  exists (cm (comments_at toks (pos s))). rewrite cm_length. cbn [pos refp adv]. repeat split.
  exists (skipn (sig_at toks (pos s)) K). apply skipn_sig.
Qed.

Lemma Spec_expect {A} (p : parser A) m C Q :
  Spec p C Q -> Grow p ->
  Spec (p_expect p m) (fun oa => forall a, oa = Some a -> C a) (fun k r oa l => exists a, oa = Some a /\ Q k r a l).
Proof.
  intros Hp Gp s s' oa H Hr Hb Hc. destruct (expect_inv _ _ _ _ _ H Gp Hb) as (a & -> & H').
  destruct (Hp _ _ _ H' Hr Hb (Hc _ eq_refl)) as (l & H1 & H2 & H3 & H4). exists l. repeat split; eauto.
Qed.

Lemma Spec_ref {A} (p : parser A) C Q :
  Spec p C Q ->
  Spec (p_ref p) (fun ao => C (fst ao)) (fun k r ao l => snd ao = k - r /\ Q k k (fst ao) l).
Proof.
  intros Hp s s' ao H Hr Hb Hc. apply p_ref_ok in H as (s1 & H & -> & Ho).
  destruct (Hp _ _ _ H (le_n _) Hb Hc) as (l & H1 & H2 & H3 & H4). cbn [pos refp set_refp] in *.
  exists l. repeat split; auto.
Qed.

Lemma Spec_info {A} (p : parser A) C Q :
  Spec p C Q ->
  Spec (p_info p) (fun ai => i_errs (snd ai) = [] /\ C (fst ai))
       (fun k r ai l => snd ai = mkinfo (k - r) (k + length l - r) /\ Q k r (fst ai) l).
Proof.
  intros Hp s s' ai H Hr _ [Hc1 Hc2]. apply p_info_ok in H as (s1 & H & -> & Hi).
  rewrite Hi in Hc1. cbn [i_errs] in Hc1.
  destruct (Hp _ _ _ H Hr ltac:(unfold eb; rewrite Hc1; cbn; lia) Hc2) as (l & H1 & H2 & H3 & H4).
  cbn [pos refp set_ebuf] in *. exists l. repeat split; auto.
  rewrite Hi, Hc1, H2. reflexivity.
Qed.

(* info around a parser that never touches the error buffer: its info is clean whatever the caller knows *)
Lemma Spec_info_pure {A} (p : parser A) C Q :
  Spec p C Q -> (forall s s' a, p s = POk s' a -> ebuf s' = ebuf s) ->
  Spec (p_info p) (fun ai => C (fst ai))
       (fun k r ai l => snd ai = mkinfo (k - r) (k + length l - r) /\ Q k r (fst ai) l).
Proof.
  intros Hp Hpure s s' ai H Hr _ Hc. apply p_info_ok in H as (s1 & H & -> & Hi).
  pose proof (Hpure _ _ _ H) as Hb. cbn [ebuf set_ebuf] in Hb.
  destruct (Hp _ _ _ H Hr ltac:(unfold eb; rewrite Hb; cbn; lia) Hc) as (l & H1 & H2 & H3 & H4).
  cbn [pos refp set_ebuf] in *. exists l. repeat split; auto.
  rewrite Hi, Hb, H2. reflexivity.
Qed.

Lemma Spec_confusable {A} (p : parser A) m (C : A -> Prop) Q : Spec (p_confusable p m) C Q.
Proof. intros s s' a H _ Hb _. apply confusable_grows in H. lia. Qed.

Lemma Spec_peek la : Spec (p_peek_la la) CTrue (fun k r _ l => l = []).
Proof.
  intros s s' a H _ _ _. unfold p_peek_la in H. destruct (la (pos s)); [|discriminate]. injection H as <- <-.
  exists []. cbn. repeat split; [apply Seg_nil | lia].
Qed.

Inductive Many {A} (Q : nat -> nat -> A -> list kind -> Prop) : nat -> nat -> list A -> list kind -> Prop :=
| Many_nil k r : Many Q k r [] []
| Many_cons k r a la l1 l2 : Q k r a l1 -> Many Q (k + length l1) r la l2 -> Many Q k r (a :: la) (l1 ++ l2).

Lemma Spec_steps {A} (p : parser A) C Q :
  Spec p C Q -> Grow p ->
  forall s la s', steps p s la s' -> refp s <= pos s -> eb s' <= eb s -> Forall C la ->
  exists l, Seg (pos s) l /\ pos s' = pos s + length l /\ refp s' = refp s /\ Many Q (pos s) (refp s) la l.
Proof.
  intros Hp Gp. induction 1 as [s|s s1 s' a la H1 _ Hst IH]; intros Hr Hb Hc.
  - exists []. cbn. repeat split; [apply Seg_nil | lia | constructor].
  - pose proof (Grow_ok _ _ _ _ Gp H1) as G1. pose proof (steps_grow _ _ _ _ Gp Hst) as G2.
    inversion Hc as [|? ? Hca Hcl]; subst.
    destruct (Hp _ _ _ H1 Hr ltac:(lia) Hca) as (l1 & S1 & P1 & R1 & HQ1).
    destruct (IH ltac:(lia) ltac:(lia) Hcl) as (l2 & S2 & P2 & R2 & HQ2).
    exists (l1 ++ l2). rewrite app_length. repeat split; [|lia|congruence|].
    + apply Seg_app; [exact S1 | now rewrite <- P1].
    + rewrite P1, R1 in HQ2. now constructor.
Qed.

Lemma Spec_many0 {A} fuel (p : parser A) C Q :
  Spec p C Q -> Grow p -> Spec (p_many0 fuel p) (Forall C) (Many Q).
Proof.
  intros Hp Gp s s' la H Hr Hb Hc. apply many0_inv in H as [H _].
  exact (Spec_steps p C Q Hp Gp _ _ _ H Hr Hb Hc).
Qed.

Lemma Spec_ident :
  Spec (p_ident toks) CTrue (fun k r i l => exists c x, i = x_ident (k - r) c x /\ l = cm c ++ [Ident x]).
Proof.
  intros s s' i H Hr _ _. apply ident_inv in H as (c & x & -> & Hs & Hp & Hr' & _); [|exact Hr].
  exists (cm c ++ [Ident x]). rewrite app_length, cm_length. cbn [length]. repeat split; [exact Hs | lia | exact Hr' | eauto].
Qed.

(* the same with the comment slot named: it is what [comments_at] sees, hence empty right after
   p_comments (the doc comments of a declaration belong to the declaration, not to its first token) *)
Lemma comments_at_sig p : comments_at toks (p + length (comments_at toks p)) = [].
Proof.
  pose proof (sig_at_idem toks p) as H. unfold sig_at at 1 in H. fold (sig_at toks p) in *.
  destruct (comments_at toks (sig_at toks p)) eqn:E; [reflexivity|]. cbn [length] in H. lia.
Qed.

Lemma Spec_tag' f :
  Spec (p_tag toks f) CTrue (fun k r t l => exists c, l = cm c ++ [tk t] /\ f (tk t) = true /\ c = comments_at toks k).
Proof.
  intros s s' t H _ _ _. apply tag_inv in H as (Hf & Hs & Hp & Hr & _).
  exists (cm (comments_at toks (pos s)) ++ [tk t]). rewrite app_length, cm_length. cbn [length].
  repeat split; [exact Hs | lia | exact Hr | eauto].
Qed.

Lemma Spec_ident' :
  Spec (p_ident toks) CTrue
    (fun k r i l => exists c x, i = x_ident (k - r) c x /\ l = cm c ++ [Ident x] /\ c = comments_at toks k).
Proof.
  intros s s' i H Hr _ _. apply ident_inv in H as (c & x & -> & Hs & Hp & Hr' & _ & Hc); [|exact Hr].
  exists (cm c ++ [Ident x]). rewrite app_length, cm_length. cbn [length]. repeat split; [exact Hs | lia | exact Hr' | eauto].
Qed.

Lemma Spec_comments' :
  Spec (p_comments toks) CTrue (fun k r c l => l = cm c /\ comments_at toks (k + length c) = []).
Proof.
  intros s s' c H _ _ _. unfold p_comments in H. injection H as <- <-.
  exists (cm (comments_at toks (pos s))). rewrite cm_length. cbn [pos refp adv]. repeat split.
  - exists (skipn (sig_at toks (pos s)) K). apply skipn_sig.
  - apply comments_at_sig.
Qed.

Lemma Spec_intlit :
  LitOk ->
  Spec (p_intlit toks) CTrue (fun k r i l => exists c v, i = x_lit (k - r) c v /\ l = cm c ++ [k_lit v]).
Proof.
  intros HL s s' i H Hr _ _. apply (intlit_inv _ _ _ HL) in H as (c & x & -> & Hs & Hp & Hr' & _); [|exact Hr].
  exists (cm c ++ [k_lit x]). rewrite app_length, cm_length. cbn [length]. repeat split; [exact Hs | lia | exact Hr' | eauto].
Qed.

End Base.

(* a solver for [Grow] goals on sub-terms of the non-terminals *)
Ltac grow_step :=
  first
  [ assumption
  | apply Grow_fuel | apply Grow_info | apply Grow_confusable
  | apply Grow_ident | apply Grow_intlit | apply Grow_variable | apply Grow_comparison | apply Grow_expr
  | apply Grow_primary | apply Grow_factor | apply Grow_mul | apply Grow_add
  | apply Grow_texpr | apply Grow_argument | apply Grow_call | apply Grow_assign | apply Grow_stmt
  | apply Grow_vardecl | apply Grow_paramdecl | apply Grow_list | apply Grow_rhs
  | apply Grow_map | apply Grow_restore | apply Grow_alt | apply Grow_opt | apply Grow_pair
  | apply Grow_preceded | apply Grow_terminated | apply Grow_many0
  | apply Grow_comments | apply Grow_tag | apply Grow_expect | apply Grow_ref
  | apply Grow_peek_la | apply Grow_ignore0 | apply Grow_ignore1 | apply Grow_ret ].
Ltac grow_solve := repeat grow_step.
