(* C01, positive part (3a/4): the expression grammar.  Inside an expression nothing is reused (every
   `this` is None), but Reference::parse pops inc_references on every error: a QUIET successful parse
   of an expression without parse errors leaves the stack as it found it ([QN_expr_all]). *)
From Coq Require Import List Arith Lia.
From Spl Require Import Model.ParserInc Model.Errors Proofs.ParserComb Proofs.ParserFwd Proofs.UpdateDocProofsSim
  Proofs.IncPositiveMono Proofs.IncPositiveSim.
Import ListNotations.
Local Open Scope nat_scope.

Lemma shift_es_nil off l : shift_es off l = [] -> l = [].
Proof. unfold shift_es. apply map_eq_nil. Qed.

Lemma opt_expr_errors_nil (o : option (expr * nat)) :
  opt_expr_errors o = [] -> match o with Some a => expr_errors (fst a) = [] | None => True end.
Proof. destruct o as [[e off]|]; cbn [opt_expr_errors fst]; [apply shift_es_nil | auto]. Qed.

Definition acc_step (vinfo : info) (v : variable) (a : option (expr * nat) * option token * info) : variable :=
  ArrAccess v (fst (fst a)) (extend_range (snd a) vinfo).

Lemma var_fold_errors vinfo accesses : forall v0,
  var_errors (fold_left (acc_step vinfo) accesses v0) = [] ->
  var_errors v0 = [] /\ Forall (fun a => i_errs (snd a) = [] /\ opt_expr_errors (fst (fst a)) = []) accesses.
Proof.
  induction accesses as [|a l IH]; intros v0 H; cbn [fold_left] in H; [auto|].
  destruct (IH _ H) as [H1 H2]. unfold acc_step in H1. cbn [var_errors extend_range i_errs] in H1.
  apply app_eq_nil in H1 as [A B]. apply app_eq_nil in B as [B C]. split; [exact B|]. constructor; [|exact H2].
  split; [exact A|]. destruct (fst (fst a)) as [[e off]|]; exact C.
Qed.

Section E.
Variable toks : list token.
Variable w : nat.
Notation N := (length toks).
Notation FwdT := (Fwd toks sync_none).
Notation WF := (WF toks).
Notation GoodN := (GoodN toks).
Notation SG := (Stable_GoodN toks).

Notation i_ident := (i_ident toks w w 0).
Notation i_intlit := (i_intlit toks w w 0).
Notation i_variable0 := (i_variable0 toks w w 0).
Notation i_primary := (i_primary toks w w 0).
Notation i_factor := (i_factor toks w w 0).
Notation i_mul_loop := (i_mul_loop toks w w 0).
Notation i_mul := (i_mul toks w w 0).
Notation i_add_loop := (i_add_loop toks w w 0).
Notation i_add := (i_add toks w w 0).
Notation i_comparison := (i_comparison toks w w 0).
Notation p_ident := (p_ident toks).
Notation p_intlit := (p_intlit toks).
Notation p_variable := (p_variable toks).
Notation p_primary := (p_primary toks).
Notation p_factor := (p_factor toks).
Notation mul_loop := (mul_loop toks).
Notation p_mul := (p_mul toks).
Notation add_loop := (add_loop toks).
Notation p_add := (p_add toks).
Notation p_comparison := (p_comparison toks).

(* ---- leaves that never touch inc_references ---- *)
Definition NoIncr {A} (q : iparser A) : Prop := forall s, match q s with IOk s' _ => incr s' = incr s | _ => True end.

Lemma QS_noincr G {A} (p : parser A) q : Sim p q -> NoIncr q -> QSg G (fun _ => True) p q.
Proof.
  intros Hs Hn s s1 t Hg E He _. specialize (Hs s). specialize (Hn s). rewrite E in Hs.
  destruct (q s) as [s' a|s' fl| |]; cbn in Hs; try contradiction. destruct Hs as [-> ->]. eauto.
Qed.

Lemma NoIncr_tag f : NoIncr (i_tag toks f).
Proof. intros s. unfold i_tag. destruct (nth_error toks _) as [t|]; [|exact I]. destruct (f (tk t)); [reflexivity | exact I]. Qed.

Lemma NoIncr_map {A B} (f : A -> B) q : NoIncr q -> NoIncr (i_map f q).
Proof. intros H s. unfold i_map. specialize (H s). destruct (q s); cbn [ibind]; auto. Qed.

Lemma NoIncr_info {A} (q : iparser A) : NoIncr q -> NoIncr (i_info q).
Proof. intros H s. unfold i_info. specialize (H (iset_ebuf s [])). destruct (q (iset_ebuf s [])); auto. Qed.

Lemma NoIncr_alt {A} (q q' : iparser A) : NoIncr q -> NoIncr q' -> NoIncr (i_alt q q').
Proof. intros H H' s. unfold i_alt. specialize (H s). specialize (H' s). destruct (q s); auto. Qed.

Lemma NoIncr_ident : NoIncr (i_ident None).
Proof. unfold ParserInc.i_ident, i_ident0. apply NoIncr_map, NoIncr_info, NoIncr_tag. Qed.

Lemma NoIncr_intlit : NoIncr (i_intlit None).
Proof.
  unfold ParserInc.i_intlit, i_intlit0. apply NoIncr_map, NoIncr_info, NoIncr_map.
  repeat apply NoIncr_alt; apply NoIncr_tag.
Qed.

Lemma QS_ident_none G : QSg G (fun _ => True) p_ident (i_ident None).
Proof. apply QS_noincr; [apply Sim_ident | apply NoIncr_ident]. Qed.

Lemma QS_intlit_none G : QSg G (fun _ => True) p_intlit (i_intlit None).
Proof. apply QS_noincr; [apply Sim_intlit | apply NoIncr_intlit]. Qed.

(* ---- a continuation ---- *)
Lemma QS_bindk G {A B} (PA : A -> Prop) (P : B -> Prop) (p : parser A) q (k : st -> A -> pres B) (k' : ist -> A -> ires B) :
  Stable toks G -> WF p -> (forall a, MonoE (fun s => k s a)) ->
  QSg G PA p q -> (forall a, QSg G P (fun s => k s a) (fun s => k' s a)) ->
  (forall s a s1 t, k s a = POk s1 t -> P t -> PA a) ->
  QSg G P (fun s => bind (p s) k) (fun s => ibind (q s) k').
Proof.
  intros HG [Hf Hm] Hmk Q Qk Hsub s s2 t Hg E He Hp. apply bind_ok in E as (s1 & a & E1 & E2).
  pose proof (MonoE_ok p _ _ _ Hm E1) as X1. pose proof (MonoE_ok _ _ _ _ (Hmk a) E2) as X2.
  assert (He' : ebuf s2 = ebuf (proj s)) by exact He.
  destruct (ext_quiet _ _ _ X1 X2 He') as [Y1 Y2].
  destruct (Q s s1 a Hg E1 Y1 (Hsub _ _ _ _ E2 Hp)) as (s1' & E1' & A1 & A2).
  assert (Hg' : G s1') by (eapply (G_step toks G p); eauto).
  rewrite <- A1 in E2, Y2.
  destruct (Qk a s1' s2 t Hg' E2 Y2 Hp) as (s2' & E2' & B1 & B2).
  exists s2'. rewrite E1'. cbn [ibind]. rewrite E2'. repeat split; [exact B1 | congruence].
Qed.

(* the shape `match tag s with Ok s1 t => k s1 t | Err _ => Ok s d` of the operator loops *)
Lemma QS_tag_loop G (P : expr -> Prop) f (k : st -> token -> pres expr) (k' : ist -> token -> ires expr) (d : expr) :
  Stable toks G ->
  (forall t, QSg G P (fun s => k s t) (fun s => k' s t)) ->
  QSg G P (fun s => match p_tag toks f s with POk s1 op => k s1 op | PErr _ => POk s d | PFuel => PFuel end)
          (fun s => match i_tag toks f s with IOk s1 op => k' s1 op | IErr _ _ => IOk s d | IPanic => IPanic | IFuel => IFuel end).
Proof.
  intros HG Qk s s2 t Hg E He Hp. pose proof (Sim_tag toks f s) as Hs. pose proof (NoIncr_tag f s) as Hn.
  destruct (p_tag toks f (proj s)) as [s1 op|s1|] eqn:E1; [| |discriminate].
  - destruct (i_tag toks f s) as [s1' op'|s1' fl| |]; cbn in Hs; try contradiction. destruct Hs as [-> ->].
    assert (Hg' : G s1').
    { eapply (G_step toks G (p_tag toks f)); eauto. apply Fwd_tag; [apply Hc, sync_none_ok | apply TagOk_none]. }
    assert (Y : ebuf s2 = iebuf s1').
    { rewrite He. pose proof E1 as E1'. apply p_tag_ok in E1' as (_ & _ & E1'). apply (f_equal ebuf) in E1'. cbn in E1'. exact (eq_sym E1'). }
    destruct (Qk op' s1' s2 t Hg' E Y Hp) as (s2' & E2' & B1 & B2). exists s2'. rewrite E2'. repeat split; [exact B1 | congruence].
  - injection E as <- <-. destruct (i_tag toks f s) as [s1' op'|s1' fl| |]; cbn in Hs; try contradiction. eauto.
Qed.

(* ---- a clean result has clean parts ---- *)
Lemma rhs_shape (p : parser expr) lhs op s s1 e :
  p_rhs p lhs op s = POk s1 e -> exists r inf, e = EBin op lhs r inf.
Proof. unfold p_rhs. intros E. apply bind_ok in E as (s' & rhs & _ & X). injection X as <- <-. eauto. Qed.

Lemma ebin_clean op l r inf : expr_errors (EBin op l r inf) = [] -> i_errs inf = [] /\ expr_errors l = [] /\ expr_errors r = [].
Proof. cbn [expr_errors]. intros H. apply app_eq_nil in H as [A B]. apply app_eq_nil in B as [B C]. auto. Qed.

Lemma mul_loop_sub : forall f s lhs s1 r, mul_loop f s lhs = POk s1 r -> expr_errors r = [] -> expr_errors lhs = [].
Proof.
  induction f as [|f IH]; intros s lhs s1 r E Hr; [discriminate|]. cbn [Parser.mul_loop] in E.
  destruct (p_tag toks is_mulop s) as [sa op|sa|]; [| injection E as <- <-; exact Hr | discriminate].
  apply bind_ok in E as (s2 & e & E1 & E2). destruct (rhs_shape _ _ _ _ _ _ E1) as (x & inf & ->).
  apply (IH _ _ _ _ E2) in Hr. apply ebin_clean in Hr. tauto.
Qed.

Lemma add_loop_sub : forall f s lhs s1 r, add_loop f s lhs = POk s1 r -> expr_errors r = [] -> expr_errors lhs = [].
Proof.
  induction f as [|f IH]; intros s lhs s1 r E Hr; [discriminate|]. cbn [Parser.add_loop] in E.
  destruct (p_tag toks is_addop s) as [sa op|sa|]; [| injection E as <- <-; exact Hr | discriminate].
  apply bind_ok in E as (s2 & e & E1 & E2). destruct (rhs_shape _ _ _ _ _ _ E1) as (x & inf & ->).
  apply (IH _ _ _ _ E2) in Hr. apply ebin_clean in Hr. tauto.
Qed.

Definition CE (e : expr) : Prop := expr_errors e = [].
Definition CV (v : variable) : Prop := var_errors v = [].

(* parse_rhs: the right operand is parsed by `expect` *)
Lemma QS_rhs (p : parser expr) q lhs op :
  MonoE p -> QSg GoodN CE p q -> QSg GoodN CE (p_rhs p lhs op) (i_rhs q lhs op).
Proof.
  intros Hm Q. unfold p_rhs, i_rhs.
  apply (QS_bind GoodN (fun o : option expr => match o with Some a => CE a | None => True end) CE
           (p_expect p (ExpectedToken s_expression)) (i_expect0 q (ExpectedToken s_expression))
           (fun s' rhs => EBin op lhs (match rhs with Some e => e | None => EErr (mkinfo (pos s' - refp s' - 1) (pos s' - refp s' - 1)) end)
                               (mkinfo (i_s (expr_info lhs)) (pos s' - refp s')))
           (fun s' rhs => EBin op lhs (match rhs with Some e => e | None => EErr (mkinfo (ipos s' - irefp s' - 1) (ipos s' - irefp s' - 1)) end)
                               (mkinfo (i_s (expr_info lhs)) (ipos s' - irefp s')))).
  - intros s a. reflexivity.
  - apply (QS_expect0 GoodN CE p q _ Hm Q).
  - intros s [a|] H; [|exact I]. apply ebin_clean in H. apply H.
Qed.

Lemma QS_ret G {A} (P : A -> Prop) (x : A) : QSg G P (fun s => POk s x) (fun s => IOk s x).
Proof. intros s s1 t Hg E _ _. injection E as <- <-. eauto. Qed.

Ltac eta_qs :=
  try match goal with |- @QSg ?G ?A ?P (fun s => ?p s) ?q => change (@QSg G A P p q) end;
  try match goal with |- @QSg ?G ?A ?P ?p (fun s => ?q s) => change (@QSg G A P p q) end.
Ltac wf := split; [fwd_solve sync_none_ok | mono_solve].

Definition LoopQ (l : st -> expr -> pres expr) (l' : ist -> expr -> ires expr) : Prop :=
  forall lhs, QSg GoodN CE (fun s => l s lhs) (fun s => l' s lhs).

Lemma cmp_tail_sub (pa : parser expr) s a s1 t :
  match p_tag toks is_cmpop s with
  | POk s2 op => p_rhs pa a (op_of (tk op)) s2 | PErr _ => POk s a | PFuel => PFuel end = POk s1 t ->
  CE t -> CE a.
Proof.
  destruct (p_tag toks is_cmpop s) as [s2 op|s2|]; intros E H; [| injection E as <- <-; exact H | discriminate].
  destruct (rhs_shape _ _ _ _ _ _ E) as (x & inf & ->). apply ebin_clean in H. apply H.
Qed.

Lemma QN_expr_all f :
  QSg GoodN CV (p_variable f) (i_variable0 f) /\ QSg GoodN CE (p_primary f) (i_primary f) /\
  QSg GoodN CE (p_factor f) (i_factor f) /\
  LoopQ (mul_loop f) (i_mul_loop f) /\ QSg GoodN CE (p_mul f) (i_mul f) /\
  LoopQ (add_loop f) (i_add_loop f) /\ QSg GoodN CE (p_add f) (i_add f) /\ QSg GoodN CE (p_comparison f) (i_comparison f).
Proof.
  induction f as [|f (IHvar & IHpri & IHfac & IHml & IHmul & IHal & IHadd & IHcmp)].
  - repeat split; unfold LoopQ, QSg; intros;
      match goal with E : _ = POk _ _ |- _ =>
        cbv beta in E;
        cbn [Parser.p_variable Parser.p_primary Parser.p_factor Parser.mul_loop Parser.p_mul Parser.add_loop Parser.p_add Parser.p_comparison] in E;
        discriminate E end.
  - pose proof (Sim_expr_all toks w w 0 f) as (Svar & Spri & Sfac & Sml & Smul & Sal & Sadd & Scmp).
    pose proof (MonoE_expr_all toks f) as (Mvar & Mpri & Mfac & Mml & Mmul & Mal & Madd & Mcmp).
    pose proof (Fwd_expr_all toks sync_none sync_none_ok f) as (Fvar & Fpri & Ffac & Fml & Fmul & Fal & Fadd & Fcmp).
    pose proof (Sim_ident toks w w 0) as Sid. pose proof (Sim_intlit toks w w 0) as Sil.
    repeat split.
    + (* variable *)
      cbn [Parser.p_variable ParserInc.i_variable0].
      apply (QS_bindk GoodN
               (fun r : variable * info * list (option (expr * nat) * option token * info) =>
                  Forall (fun a => i_errs (snd a) = [] /\ opt_expr_errors (fst (fst a)) = []) (snd r)) CV).
      * exact SG.
      * wf.
      * intros [[v0 vinfo] acc] s. apply ext_refl.
      * eapply QS_impl; [|apply (QS_pair toks GoodN SG (fun _ => True)
                                  (Forall (fun a : option (expr * nat) * option token * info =>
                                             i_errs (snd a) = [] /\ opt_expr_errors (fst (fst a)) = [])))].
        -- intros [x l] H. cbn [fst snd] in *. auto.
        -- wf.
        -- mono_solve.
        -- apply QS_noincr; [sim_auto | apply NoIncr_info, NoIncr_map, NoIncr_ident].
        -- apply (QS_many0 toks GoodN SG); [wf | sim_auto |].
           eapply QS_impl; cycle 1.
           { apply (QS_info toks GoodN SG), (QS_preceded toks GoodN SG); [wf | mono_solve | apply QS_tag |].
             apply (QS_pair toks GoodN SG); [wf | mono_solve | | ].
             - apply (QS_expect GoodN (@None (expr * nat)) (fun ao : expr * nat => CE (fst ao)));
                 [mono_solve | apply (QS_ref_none toks CE (p_comparison f) (fun _ => i_comparison f) IHcmp)].
             - apply (QS_expect0 GoodN (fun _ => True)); [mono_solve | apply QS_tag]. }
           { intros [[idx rb] inf] [H1 H2]. cbn [fst snd] in *. split; [exact H1|].
             split; [exact (opt_expr_errors_nil idx H2) | destruct rb; exact I]. }
      * intros [[v0 vinfo] acc]. apply QS_ret.
      * intros s [[v0 vinfo] acc] s1 t E H. injection E as <- <-. cbn [snd].
        apply (var_fold_errors vinfo acc v0 H).
    + (* primary *)
      cbn [Parser.p_primary ParserInc.i_primary]. eta_qs.
      apply (QS_alt GoodN); [sim_auto | apply QS_map; apply (QS_impl GoodN _ (fun _ => True)); [auto | apply QS_intlit_none] |].
      apply (QS_alt GoodN); [sim_auto | apply QS_map; exact IHvar |].
      apply (QS_bindk GoodN
               (fun r : token * info * (option expr * option token) * info =>
                  i_errs (snd r) = [] /\ match fst (snd (fst r)) with Some x => CE x | None => True end) CE).
      * exact SG.
      * wf.
      * intros [[[x lp] [e y]] inf] s. apply ext_refl.
      * eapply QS_impl; cycle 1.
        { apply (QS_info toks GoodN SG), (QS_pair toks GoodN SG); [wf | mono_solve | |].
          - apply QS_noincr; [sim_auto | apply NoIncr_info, NoIncr_tag].
          - apply (QS_pair toks GoodN SG); [wf | mono_solve | | ].
            + apply (QS_expect0 GoodN CE); [mono_solve | exact IHcmp].
            + apply (QS_expect0 GoodN (fun _ => True)); [mono_solve | apply QS_tag]. }
        { intros [[[x lp] [e y]] inf] [H1 H2]. cbn [fst snd] in *. split; [exact H1|]. split; [exact I|].
          split; [exact H2 | destruct y; exact I]. }
      * intros [[[x lp] [e y]] inf]. apply QS_ret.
      * intros s [[[x lp] [e y]] inf] s1 t E H. injection E as <- <-. cbn [fst snd].
        unfold CE in H. cbn [expr_errors] in H. apply app_eq_nil in H as [H1 H2]. split; [exact H1|].
        destruct e; [exact H2 | exact I].
    + (* factor *)
      cbn [Parser.p_factor ParserInc.i_factor]. eta_qs.
      apply (QS_alt GoodN); [exact Spri | exact IHpri |]. apply QS_map.
      eapply QS_impl; [|apply (QS_info toks GoodN SG), (QS_preceded toks GoodN SG); [wf | mono_solve | apply QS_tag | exact IHfac]].
      intros [e inf] H. cbn [fst snd] in *. unfold CE in H. cbn [expr_errors] in H. apply app_eq_nil in H. exact H.
    + (* mul_loop *)
      intros lhs.
      change (QSg GoodN CE
                (fun s => match p_tag toks is_mulop s with
                          | POk s1 op => bind (p_rhs (p_factor f) lhs (op_of (tk op)) s1) (fun s2 e => mul_loop f s2 e)
                          | PErr _ => POk s lhs | PFuel => PFuel end)
                (fun s => match i_tag toks is_mulop s with
                          | IOk s1 op => ibind (i_rhs (i_factor f) lhs (op_of (tk op)) s1) (fun s2 e => i_mul_loop f s2 e)
                          | IErr _ _ => IOk s lhs | IPanic => IPanic | IFuel => IFuel end)).
      apply (QS_tag_loop GoodN); [exact SG|]. intros t.
      apply (QS_bindk GoodN CE CE); [exact SG | | exact Mml | apply QS_rhs; [exact Mfac | exact IHfac] | exact IHml | apply mul_loop_sub].
      split; [apply Fwd_rhs; fwd_solve sync_none_ok | apply MonoE_rhs, Mfac].
    + (* mul *)
      change (QSg GoodN CE (fun s => bind (p_factor f s) (fun s1 e => mul_loop f s1 e))
                           (fun s => ibind (i_factor f s) (fun s1 e => i_mul_loop f s1 e))).
      apply (QS_bindk GoodN CE CE); [exact SG | wf | exact Mml | exact IHfac | exact IHml | apply mul_loop_sub].
    + (* add_loop *)
      intros lhs.
      change (QSg GoodN CE
                (fun s => match p_tag toks is_addop s with
                          | POk s1 op => bind (p_rhs (p_mul f) lhs (op_of (tk op)) s1) (fun s2 e => add_loop f s2 e)
                          | PErr _ => POk s lhs | PFuel => PFuel end)
                (fun s => match i_tag toks is_addop s with
                          | IOk s1 op => ibind (i_rhs (i_mul f) lhs (op_of (tk op)) s1) (fun s2 e => i_add_loop f s2 e)
                          | IErr _ _ => IOk s lhs | IPanic => IPanic | IFuel => IFuel end)).
      apply (QS_tag_loop GoodN); [exact SG|]. intros t.
      apply (QS_bindk GoodN CE CE); [exact SG | | exact Mal | apply QS_rhs; [exact Mmul | exact IHmul] | exact IHal | apply add_loop_sub].
      split; [apply Fwd_rhs; fwd_solve sync_none_ok | apply MonoE_rhs, Mmul].
    + (* add *)
      change (QSg GoodN CE (fun s => bind (p_mul f s) (fun s1 e => add_loop f s1 e))
                           (fun s => ibind (i_mul f s) (fun s1 e => i_add_loop f s1 e))).
      apply (QS_bindk GoodN CE CE); [exact SG | wf | exact Mal | exact IHmul | exact IHal | apply add_loop_sub].
    + (* comparison *)
      change (QSg GoodN CE
                (fun s => bind (p_add f s) (fun s1 e =>
                   match p_tag toks is_cmpop s1 with
                   | POk s2 op => p_rhs (p_add f) e (op_of (tk op)) s2 | PErr _ => POk s1 e | PFuel => PFuel end))
                (fun s => ibind (i_add f s) (fun s1 e =>
                   match i_tag toks is_cmpop s1 with
                   | IOk s2 op => i_rhs (i_add f) e (op_of (tk op)) s2 | IErr _ _ => IOk s1 e | IPanic => IPanic | IFuel => IFuel end))).
      apply (QS_bindk GoodN CE CE); [exact SG | wf | | exact IHadd | | ].
      * intros a s. apply tag_loop_mono. intros t s2. apply (MonoE_rhs (p_add f) a _ Madd).
      * intros e. apply (QS_tag_loop GoodN); [exact SG|]. intros t. apply QS_rhs; [exact Madd | exact IHadd].
      * intros s a s1 t E H. exact (cmp_tail_sub _ _ _ _ _ E H).
Qed.

Lemma QN_variable f : QSg GoodN CV (p_variable f) (i_variable0 f). Proof. apply QN_expr_all. Qed.
Lemma QN_comparison f : QSg GoodN CE (p_comparison f) (i_comparison f). Proof. apply QN_expr_all. Qed.

End E.
