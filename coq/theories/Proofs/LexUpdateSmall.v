(* A decision procedure for one instance of C07's statement, and a kernel-computed sweep over a
   small scope.  The sweep is a proof of the *bounded* statement only; the unbounded theorem is in
   Proofs/LexUpdateProofs.v. *)
From Spl Require Import Spec.LexUpdateSpec.

Definition tokens_eqb := list_eqb token_eqb.

Definition truthful_b (toks_old toks_new : list token) (ds de n : nat) (ins_len del_len : N) : bool :=
  tokens_eqb (firstn ds toks_new) (firstn ds toks_old) &&
  Nat.leb ds de && Nat.leb de (length toks_old) &&
  Nat.eqb (length toks_new) (ds + n + (length toks_old - de)) &&
  match map_opt (shift_token_signed ins_len del_len) (skipn de toks_old) with
  | Some l => tokens_eqb l (skipn (ds + n) toks_new)
  | None => false
  end.

Definition c07_instance_b (a d b ins : text) : bool :=
  match lex (a ++ d ++ b), lex (a ++ ins ++ b) with
  | Some toks_old, Some toks_new =>
      match lex_update (a ++ ins ++ b) toks_old (blen a) (blen a + blen d) ins with
      | UDone toks ds de n =>
          tokens_eqb toks toks_new && truthful_b toks_old toks_new ds de n (blen ins) (blen d)
      | _ => false
      end
  | _, _ => false
  end.

Definition alphabet : list char := [97; 105; 102; 48; 120; 39; 47; 92; 60; 61; 58; 10; 32; 233; 110; 49].

Fixpoint texts_upto (k : nat) : list text :=
  match k with
  | O => [[]]
  | S k' => [] :: flat_map (fun t => map (fun c => c :: t) alphabet) (texts_upto k')
  end.

(* all ways to write a text as a ++ d ++ b *)
Fixpoint splits2 (s : text) : list (text * text) :=
  match s with
  | [] => [([], [])]
  | c :: r => ([], s) :: map (fun '(x, y) => (c :: x, y)) (splits2 r)
  end.

Definition splits3 (s : text) : list (text * text * text) :=
  flat_map (fun '(a, r) => map (fun '(d, b) => (a, d, b)) (splits2 r)) (splits2 s).

Definition sweep (k i : nat) : bool :=
  forallb (fun s => forallb (fun '(a, d, b) => forallb (fun ins => c07_instance_b a d b ins) (texts_upto i))
                            (splits3 s)) (texts_upto k).

Lemma sweep_2_1 : sweep 2 1 = true.
Proof. vm_compute. reflexivity. Qed.
