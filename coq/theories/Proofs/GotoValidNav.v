(* C12 - go-to on VALID programs, part 2: the specification vocabulary of Spec/Nav.v ([occurrences],
   [binding] = [find_declaring] over the occurrence list, [creator_decl]) on the tree of a well-typed
   abstract program.
     B  the occurrences of Spec/Nav.v (tree walks of Model/Refs.v) are occurrences of
        Proofs/HoverProofs.v [program_occs] (so the grammar inductions of Proofs/HoverValid.v locate
        them in the token vector);
     N  names of declarations are pairwise different and not predefined, hence [find_declaring] finds
        THE declaration of a global name, and inside a procedure THE parameter / variable the local
        table holds ([find_type_decl], [find_proc_decl_occ], [find_predefined], [find_local]);
     C  [creator_decl] follows the alias chain of a type name to the declaration that created its
        array type - the `creator` recorded in the DataType ([chain_ok]).
   Part 3 (Proofs/GotoValidHandlers.v): the answers of the `_at` functions for a global type, a procedure and
   a local; part 4 (Proofs/GotoValidMain.v): the frame per syntactic role and the theorem [goto_valid]. *)
From Coq Require Import PeanoNat Lia.
From Spl Require Import Proofs.GrammarBase Proofs.GrammarExpr Proofs.GrammarStmt.
From Spl Require Import Proofs.GrammarProofs Spec.Typing Model.Errors Proofs.SemProofs Proofs.TypingProofs.
From Spl Require Import Model.Hover Model.Fold Proofs.LexerProofs Proofs.FoldProofs Proofs.HoverProofs.
From Spl Require Import Proofs.HoverValid Model.Goto Proofs.GotoValidModel.
From Spl Require Import Model.Refs Spec.Nav.
Local Open Scope nat_scope.

(* the occurrences of Proofs/HoverProofs.v: (token index, spelling, scope) *)
Notation hocc := HoverProofs.occ.

(* ---------------------------------------------------------------------------------------- *)
(* lists                                                                                     *)

Lemma find_app {A} (f : A -> bool) (a b : list A) :
  find f (a ++ b) = match find f a with Some x => Some x | None => find f b end.
Proof. induction a as [|x a IH]; [reflexivity|]. cbn [app find]. destruct (f x); [reflexivity | exact IH]. Qed.

Lemma find_none_all {A} (f : A -> bool) (l : list A) : (forall x, In x l -> f x = false) -> find f l = None.
Proof.
  induction l as [|x l IH]; intros H; [reflexivity|]. cbn [find]. rewrite (H x (or_introl eq_refl)).
  apply IH. intros y Hy. apply H. now right.
Qed.

Lemma filter_all (l : list ident) : filter all l = l.
Proof. induction l as [|x l IH]; [reflexivity|]. cbn [filter]. unfold all at 1. now rewrite IH. Qed.

(* ---------------------------------------------------------------------------------------- *)
(* B: the tree walks of Model/Refs.v enumerate occurrences of HoverProofs.v                  *)

Definition hp (sc : occ_scope) (off : nat) (i : ident) : hocc := (id_tok off i, id_val i, sc).

Lemma hp_shift sc off j i : hp sc off (shift_ident i j) = hp sc (off + j) i.
Proof. unfold hp, id_tok, shift_ident, shift_info. cbn [id_info id_val i_e]. f_equal. f_equal. lia. Qed.

Lemma in_shift_idents i l off : In i (shift_idents l off) -> exists j, In j l /\ i = shift_ident j off.
Proof. unfold shift_idents. intros H. apply in_map_iff in H as [j [<- Hj]]. eauto. Qed.

Lemma vars_bridge :
  (forall v off i, In i (vars_in_variable all v) -> In (hp ScLocal off i) (occs_var off v)) /\
  (forall e off i, In i (vars_in_expr all e) -> In (hp ScLocal off i) (occs_expr off e)).
Proof.
  apply var_expr_ind.
  - intros i0 off i H. cbn [vars_in_variable] in H. unfold all in H. destruct H as [<-|[]]. left. reflexivity.
  - intros a inf IHa off i H. cbn [vars_in_variable occs_var] in *. rewrite app_nil_r in *. now apply IHa.
  - intros a e o inf IHa IHe off i H. cbn [vars_in_variable occs_var] in *. apply in_app_or in H as [H|H]; apply in_or_app.
    + left. now apply IHa.
    + right. apply in_shift_idents in H as [j [Hj ->]]. rewrite hp_shift. now apply IHe.
  - intros op l r inf IHl IHr off i H. cbn [vars_in_expr occs_expr] in *. apply in_app_or in H as [H|H]; apply in_or_app;
      [left; now apply IHl | right; now apply IHr].
  - intros a inf IH off i H. now apply IH.
  - intros il off i [].
  - intros op a inf IH off i H. now apply IH.
  - intros v IH off i H. now apply IH.
  - intros inf off i [].
Qed.

Lemma oexpr_bridge e off i : In i (vars_in_oexpr all e) -> In (hp ScLocal off i) (occs_opt_expr off e).
Proof.
  destruct e as [[e o]|]; [|intros []]. cbn [vars_in_oexpr occs_opt_expr]. intros H.
  apply in_shift_idents in H as [j [Hj ->]]. rewrite hp_shift. now apply (proj2 vars_bridge).
Qed.

Lemma vars_in_stmt_block f body inf :
  vars_in_stmt f (SBlock body inf) = flat_map (fun x => shift_idents (vars_in_stmt f (fst x)) (snd x)) body.
Proof.
  induction body as [|[s n] body IH]; [reflexivity|]. cbn [flat_map fst snd]. rewrite <- IH. reflexivity.
Qed.

Lemma procs_in_stmt_block f body inf :
  procs_in_stmt f (SBlock body inf) = flat_map (fun x => shift_idents (procs_in_stmt f (fst x)) (snd x)) body.
Proof.
  induction body as [|[s n] body IH]; [reflexivity|]. cbn [flat_map fst snd]. rewrite <- IH. reflexivity.
Qed.

Lemma stmt_bridge : forall s off i,
  (In i (vars_in_stmt all s) -> In (hp ScLocal off i) (occs_stmt off s)) /\
  (In i (procs_in_stmt all s) -> In (hp ScGlobal off i) (occs_stmt off s)).
Proof.
  induction s as [inf | v e inf | name args inf | c t e inf IHt IHe | c b inf IHb | body inf IH | inf] using stmt_ind';
    intros off i.
  - split; intros [].
  - split; [|intros []]. cbn [vars_in_stmt occs_stmt]. intros H. apply in_app_or in H as [H|H]; apply in_or_app.
    + left. now apply (proj1 vars_bridge).
    + right. now apply oexpr_bridge.
  - split; cbn [vars_in_stmt procs_in_stmt occs_stmt]; intros H.
    + right. apply in_flat_map in H as [[a o] [Ha H]]. cbn [fst snd] in H.
      apply in_shift_idents in H as [j [Hj ->]]. rewrite hp_shift.
      apply in_flat_map. exists (a, o). split; [exact Ha|]. cbn [fst snd]. now apply (proj2 vars_bridge).
    + unfold all in H. destruct H as [<-|[]]. left. reflexivity.
  - assert (Ho : forall (r : option (stmt * nat)), opt_stmt_P
               (fun s => forall off i,
                  (In i (vars_in_stmt all s) -> In (hp ScLocal off i) (occs_stmt off s)) /\
                  (In i (procs_in_stmt all s) -> In (hp ScGlobal off i) (occs_stmt off s))) r ->
             (In i (match r with Some (x, o) => shift_idents (vars_in_stmt all x) o | None => [] end) ->
              In (hp ScLocal off i) (match r with Some (x, o) => occs_stmt (off + o) x | None => [] end)) /\
             (In i (match r with Some (x, o) => shift_idents (procs_in_stmt all x) o | None => [] end) ->
              In (hp ScGlobal off i) (match r with Some (x, o) => occs_stmt (off + o) x | None => [] end))).
    { intros [[x o]|] Hr; [|split; intros []]. cbn [opt_stmt_P] in Hr.
      split; intros H; apply in_shift_idents in H as [j [Hj ->]]; rewrite hp_shift; now apply Hr. }
    destruct (Ho t IHt) as [Ht1 Ht2]. destruct (Ho e IHe) as [He1 He2].
    split; cbn [vars_in_stmt procs_in_stmt occs_stmt]; intros H.
    + apply in_app_or in H as [H|H]; [apply in_or_app; left; now apply oexpr_bridge|].
      apply in_or_app; right. apply in_app_or in H as [H|H]; apply in_or_app; [left; now apply Ht1 | right; now apply He1].
    + apply in_or_app; right. apply in_app_or in H as [H|H]; apply in_or_app; [left; now apply Ht2 | right; now apply He2].
  - split; cbn [vars_in_stmt procs_in_stmt occs_stmt]; intros H.
    + apply in_app_or in H as [H|H]; apply in_or_app; [left; now apply oexpr_bridge|right].
      destruct b as [[x o]|]; [|destruct H]. cbn [opt_stmt_P] in IHb.
      apply in_shift_idents in H as [j [Hj ->]]. rewrite hp_shift. now apply IHb.
    + apply in_or_app; right. destruct b as [[x o]|]; [|destruct H]. cbn [opt_stmt_P] in IHb.
      apply in_shift_idents in H as [j [Hj ->]]. rewrite hp_shift. now apply IHb.
  - rewrite vars_in_stmt_block, procs_in_stmt_block, occs_stmt_block. unfold occs_stmts. rewrite Forall_forall in IH.
    split; intros H; apply in_flat_map in H as [[x o] [Hx H]]; cbn [fst snd] in H;
      apply in_shift_idents in H as [j [Hj ->]]; rewrite hp_shift; apply in_flat_map; exists (x, o);
      (split; [exact Hx|]); cbn [fst snd]; now apply (IH (x, o) Hx).
  - split; intros [].
Qed.

Lemma stmts_bridge l D i :
  (In i (vars_in_stmts all l) -> In (hp ScLocal D i) (occs_stmts D l)) /\
  (In i (procs_in_stmts all l) -> In (hp ScGlobal D i) (occs_stmts D l)).
Proof.
  unfold vars_in_stmts, procs_in_stmts, occs_stmts.
  split; intros H; apply in_flat_map in H as [[x o] [Hx H]]; cbn [fst snd] in H;
    apply in_shift_idents in H as [j [Hj ->]]; rewrite hp_shift; apply in_flat_map; exists (x, o);
    (split; [exact Hx|]); cbn [fst snd]; now apply stmt_bridge.
Qed.

Lemma texpr_bridge : forall te toff i off,
  ident_in_texpr te toff = Some i -> In (hp ScGlobal off i) (occs_texpr (off + toff) te).
Proof.
  induction te as [i0 | size inf | size b boff inf IH] using texpr_ind'; intros toff i off H; cbn [ident_in_texpr] in H.
  - injection H as <-. cbn [occs_texpr]. left. symmetry. apply hp_shift.
  - discriminate.
  - destruct (ident_in_texpr b boff) as [j|] eqn:E; [|discriminate]. injection H as <-. cbn [occs_texpr].
    rewrite hp_shift. now apply IH.
Qed.

(* ---- the occurrence lists of Spec/Nav.v ---- *)
Lemma mk_occs_inv off r p l o : In o (mk_occs off r p l) ->
  exists i, In i l /\ o = {| o_id := shift_ident i off; o_role := r; o_proc := p; o_ty := None |}.
Proof. unfold mk_occs. intros H. apply in_map_iff in H as [i [<- Hi]]. eauto. Qed.

Lemma param_occs_inv off p ps o : In o (param_occs off p ps) ->
  exists doc r i ty inf po, In (PValid doc r (Some i) ty inf, po) ps /\
    o = {| o_id := shift_ident (shift_ident i po) off; o_role := RParamDecl; o_proc := p; o_ty := ty_shape ty |}.
Proof.
  unfold param_occs. intros H. apply in_flat_map in H as [[pd po] [Hin H]]. cbn [fst snd] in H.
  destruct pd as [doc r [i|] ty inf | inf]; [|destruct H|destruct H]. destruct H as [<-|[]].
  exists doc, r, i, ty, inf, po. split; [exact Hin | reflexivity].
Qed.

Lemma var_occs_inv off p vs o : In o (var_occs off p vs) ->
  exists doc i ty inf po, In (VValid doc (Some i) ty inf, po) vs /\
    o = {| o_id := shift_ident (shift_ident i po) off; o_role := RVarDecl; o_proc := p; o_ty := ty_shape ty |}.
Proof.
  unfold var_occs. intros H. apply in_flat_map in H as [[vd po] [Hin H]]. cbn [fst snd] in H.
  destruct vd as [doc [i|] ty inf | inf]; [|destruct H|destruct H]. destruct H as [<-|[]].
  exists doc, i, ty, inf, po. split; [exact Hin | reflexivity].
Qed.

Lemma types_in_params_inv ps i : In i (types_in_params all ps) ->
  exists doc r n te toff inf po j, In (PValid doc r n (Some (te, toff)) inf, po) ps /\
    ident_in_texpr te toff = Some j /\ i = shift_ident j po.
Proof.
  unfold types_in_params. intros H. apply in_flat_map in H as [[pd po] [Hin H]]. cbn [fst snd] in H.
  destruct pd as [doc r n [[te toff]|] inf | inf]; [|destruct H|destruct H]. rewrite filter_all in H.
  destruct (ident_in_texpr te toff) as [j|] eqn:E; [|destruct H]. destruct H as [<-|[]].
  exists doc, r, n, te, toff, inf, po, j. repeat split; assumption.
Qed.

Lemma types_in_vars_inv vs i : In i (types_in_vars all vs) ->
  exists doc n te toff inf po j, In (VValid doc n (Some (te, toff)) inf, po) vs /\
    ident_in_texpr te toff = Some j /\ i = shift_ident j po.
Proof.
  unfold types_in_vars. intros H. apply in_flat_map in H as [[vd po] [Hin H]]. cbn [fst snd] in H.
  destruct vd as [doc n [[te toff]|] inf | inf]; [|destruct H|destruct H]. rewrite filter_all in H.
  destruct (ident_in_texpr te toff) as [j|] eqn:E; [|destruct H]. destruct H as [<-|[]].
  exists doc, n, te, toff, inf, po, j. repeat split; assumption.
Qed.

Lemma param_name_bridge D ps doc r i ty inf po :
  In (PValid doc r (Some i) ty inf, po) ps -> In (hp ScLocal D (shift_ident i po)) (occs_params D ps).
Proof.
  intros H. unfold occs_params. apply in_flat_map. exists (PValid doc r (Some i) ty inf, po). split; [exact H|].
  cbn [fst snd occs_paramdecl occs_name]. rewrite hp_shift. left. reflexivity.
Qed.

Lemma var_name_bridge D vs doc i ty inf po :
  In (VValid doc (Some i) ty inf, po) vs -> In (hp ScLocal D (shift_ident i po)) (occs_vars D vs).
Proof.
  intros H. unfold occs_vars. apply in_flat_map. exists (VValid doc (Some i) ty inf, po). split; [exact H|].
  cbn [fst snd occs_vardecl occs_name]. rewrite hp_shift. left. reflexivity.
Qed.

Lemma param_type_bridge D ps i : In i (types_in_params all ps) -> In (hp ScGlobal D i) (occs_params D ps).
Proof.
  intros H. destruct (types_in_params_inv _ _ H) as [doc [r [n [te [toff [inf [po [j [Hin [Hj ->]]]]]]]]]].
  unfold occs_params. apply in_flat_map. exists (PValid doc r n (Some (te, toff)) inf, po). split; [exact Hin|].
  cbn [fst snd occs_paramdecl occs_opt_texpr]. apply in_or_app. right. rewrite hp_shift. now apply texpr_bridge.
Qed.

Lemma var_type_bridge D vs i : In i (types_in_vars all vs) -> In (hp ScGlobal D i) (occs_vars D vs).
Proof.
  intros H. destruct (types_in_vars_inv _ _ H) as [doc [n [te [toff [inf [po [j [Hin [Hj ->]]]]]]]]].
  unfold occs_vars. apply in_flat_map. exists (VValid doc n (Some (te, toff)) inf, po). split; [exact Hin|].
  cbn [fst snd occs_vardecl occs_opt_texpr]. apply in_or_app. right. rewrite hp_shift. now apply texpr_bridge.
Qed.

(* the occurrence of HoverProofs.v behind an occurrence of Spec/Nav.v *)
Definition hpo (sc : occ_scope) (o : occ) : hocc := (o_tok o, o_name o, sc).

Lemma hpo_shift sc o i D : o_id o = shift_ident i D -> hpo sc o = hp sc D i.
Proof.
  intros H. unfold hpo, hp, o_tok, o_name, id_tok. rewrite H. unfold shift_ident, shift_info. cbn [id_info id_val i_e].
  f_equal. f_equal. lia.
Qed.

(* a type name inside a type expression denotes a type of the global table *)
Lemma denotes_ident L G cr te t : denotes L G cr te t ->
  forall toff i, ident_in_texpr te toff = Some i -> exists tte, lookup G (id_val i) = Some (GTypeE tte).
Proof.
  induction 1 as [i0 tte t Hb _ | il b o inf bt _ IH]; intros toff i H; cbn [ident_in_texpr] in H.
  - injection H as <-. exists tte. exact (binds_type _ _ _ _ Hb).
  - destruct (ident_in_texpr b o) as [j|] eqn:E; [|discriminate]. injection H as <-. exact (IH _ _ E).
Qed.

(* ---------------------------------------------------------------------------------------- *)
(* N: find_declaring on the occurrences of a well-formed program                             *)

Definition dpred (roles : list role) (name : text) (proc : option (option text)) (x : occ) : bool :=
  existsb (role_eqb (o_role x)) roles && text_eqb (o_name x) name
  && match proc with Some p => opt_text_eqb (o_proc x) p | None => true end.

Lemma find_declaring_eq occs roles name proc : find_declaring occs roles name proc = find (dpred roles name proc) occs.
Proof. reflexivity. Qed.

Lemma opt_text_eqb_eq a b : opt_text_eqb a b = true -> a = b.
Proof. destruct a, b; cbn [opt_text_eqb]; try discriminate; [|reflexivity]. intros H. apply text_eqb_eq in H. now subst. Qed.

Lemma opt_text_eqb_refl a : opt_text_eqb a a = true.
Proof. destruct a; [apply text_eqb_refl | reflexivity]. Qed.

Lemma dpred_true roles name proc x : dpred roles name proc x = true ->
  In (o_role x) roles /\ o_name x = name /\ match proc with Some p => o_proc x = p | None => True end.
Proof.
  unfold dpred. intros H. apply andb_true_iff in H as [H H3]. apply andb_true_iff in H as [H1 H2].
  apply existsb_exists in H1 as [r [Hr He]]. apply text_eqb_eq in H2.
  assert (r = o_role x) by (destruct (o_role x), r; try discriminate He; reflexivity). subst r.
  repeat split; try assumption. destruct proc; [now apply opt_text_eqb_eq | exact I].
Qed.

Lemma role_eqb_refl r : role_eqb r r = true.
Proof. destruct r; reflexivity. Qed.

(* the name of a global declaration *)
Definition gname (g : gdecl) : option text := option_map id_val (gdecl_name g).

Lemma wf_gdecl_name Gi off g ke : wf_gdecl Gi off g ke -> gname g = Some (fst ke) /\ lookup Gi (fst ke) = None.
Proof.
  intros [d0 name te o t Hn Hmain Hfresh Hty Hd | d0 name L1 ps L2 Hn Hfresh Hp Hv]; unfold gname; cbn [gdecl_name fst];
    rewrite Hn; split; [reflexivity | exact Hfresh | reflexivity | exact Hfresh].
Qed.

Ltac facts := repeat split; try discriminate; try (intros; reflexivity); try (intros q Hq; exact Hq); try congruence.

(* what the occurrences of one declaration say about the declaration *)
Lemma occs_of_decl_facts g D o : In o (occs_of_decl (g, D)) ->
  (o_role o = RTypeDecl -> gname g = Some (o_name o)) /\
  (o_role o = RProcDecl -> gname g = Some (o_name o)) /\
  (forall q, o_proc o = Some q -> gname g = Some q).
Proof.
  unfold occs_of_decl. cbn [fst snd]. destruct g as [td | pd | inf]; [| |intros []]; intros H.
  - apply in_app_or in H as [H|H].
    + unfold gname. cbn [gdecl_name]. destruct (td_name td) as [i|]; [|destruct H]. destruct H as [<-|[]].
      cbn [o_role o_proc]. facts.
    + apply mk_occs_inv in H as [i [_ ->]]. cbn [o_role o_proc]. facts.
  - unfold gname. cbn [gdecl_name].
    repeat (apply in_app_or in H as [H|H]);
      try (apply mk_occs_inv in H as [i [Hi ->]]); cbn [o_role o_proc].
    + destruct (pd_name pd) as [n|]; [|destruct Hi]. destruct Hi as [<-|[]]. cbn [opt_list option_map]. facts.
    + apply param_occs_inv in H as [doc [r [i [ty [inf [po [_ ->]]]]]]]. cbn [o_role o_proc]. facts.
    + facts.
    + apply var_occs_inv in H as [doc [i [ty [inf [po [_ ->]]]]]]. cbn [o_role o_proc]. facts.
    + facts.
    + facts.
    + facts.
Qed.

Lemma x_decls_app : forall l1 o l2,
  x_decls o (l1 ++ l2) = x_decls o l1 ++ x_decls (o + len (flat_map fl_decl l1)) l2.
Proof.
  induction l1 as [|d l1 IH]; intros o l2; cbn [app x_decls flat_map length]; [now rewrite Nat.add_0_r|].
  rewrite IH, app_length. do 3 f_equal. lia.
Qed.

Section Program.
Variables (p : aprog) (G : gtable).
Hypothesis Hwt : well_typed (expected p) G.

Let occs := occurrences (expected p).

(* the declaration dd at token D and the declarations around it *)
Lemma decls_split l1 dd l2 :
  a_decls p = l1 ++ dd :: l2 ->
  let D := len (flat_map fl_decl l1) in
  pg_decls (expected p) = x_decls 0 l1 ++ (x_decl dd, D) :: x_decls (D + len (fl_decl dd)) l2.
Proof. intros H D. unfold expected. cbn [pg_decls]. rewrite H, x_decls_app. reflexivity. Qed.

Lemma table_split l1 dd l2 :
  a_decls p = l1 ++ dd :: l2 ->
  let D := len (flat_map fl_decl l1) in
  exists e1 ke e2,
    G = (initialized ++ e1) ++ ke :: e2 /\
    wf_gdecls initialized (x_decls 0 l1) e1 /\
    wf_gdecl (initialized ++ e1) D (x_decl dd) ke /\
    wf_gdecls ((initialized ++ e1) ++ [ke]) (x_decls (D + len (fl_decl dd)) l2) e2.
Proof.
  intros H D. destruct Hwt as [[es [Hwf [HG _]]] _]. rewrite (decls_split _ _ _ H) in Hwf.
  destruct (wf_gdecls_split _ _ _ _ _ _ Hwf) as [e1 [ke [e2 [-> [H1 [H2 H3]]]]]].
  exists e1, ke, e2. rewrite HG, <- app_assoc. repeat split; assumption.
Qed.

(* the names of the other declarations differ from the name of dd *)
Lemma names_distinct l1 dd l2 :
  a_decls p = l1 ++ dd :: l2 ->
  let D := len (flat_map fl_decl l1) in
  forall g D', In (g, D') (x_decls 0 l1) \/ In (g, D') (x_decls (D + len (fl_decl dd)) l2) ->
  gname g <> gname (x_decl dd).
Proof.
  intros H D g D' Hin. destruct (table_split _ _ _ H) as [e1 [ke [e2 [HG [H1 [H2 H3]]]]]]. fold D in H2, H3.
  destruct (wf_gdecl_name _ _ _ _ H2) as [Hn Hf]. rewrite Hn. destruct Hin as [Hin|Hin].
  - destruct (wf_gdecls_in2 _ _ _ H1 _ _ Hin) as [Gj [ke' [Hw [_ [_ Hl]]]]].
    destruct (wf_gdecl_name _ _ _ _ Hw) as [Hn' _]. rewrite Hn'. intros [= E]. rewrite E in Hl. congruence.
  - destruct (wf_gdecls_in2 _ _ _ H3 _ _ Hin) as [Gj [ke' [Hw [Hs [_ _]]]]].
    destruct (wf_gdecl_name _ _ _ _ Hw) as [Hn' Hf']. rewrite Hn'. intros [= E]. rewrite E in Hf'.
    pose proof (sub_table_none _ _ _ Hs Hf') as Hc. destruct ke as [k e]. cbn [fst] in *.
    rewrite (lookup_snoc_same _ _ _ Hf) in Hc. discriminate.
Qed.

(* no declaration carries a predefined name *)
Lemma names_fresh g D' : In (g, D') (pg_decls (expected p)) -> forall x, gname g = Some x -> lookup initialized x = None.
Proof.
  intros Hin x Hx. destruct Hwt as [[es [Hwf _]] _].
  destruct (wf_gdecls_in2 _ _ _ Hwf _ _ Hin) as [Gj [ke [Hw [Hs _]]]].
  destruct (wf_gdecl_name _ _ _ _ Hw) as [Hn Hf]. rewrite Hn in Hx. injection Hx as <-.
  exact (sub_table_none _ _ _ Hs Hf).
Qed.

Lemma occurrences_split l1 dd l2 :
  a_decls p = l1 ++ dd :: l2 ->
  let D := len (flat_map fl_decl l1) in
  occs = flat_map occs_of_decl (x_decls 0 l1) ++ occs_of_decl (x_decl dd, D)
         ++ flat_map occs_of_decl (x_decls (D + len (fl_decl dd)) l2).
Proof.
  intros H D. unfold occs, occurrences. rewrite (decls_split _ _ _ H), flat_map_app. reflexivity.
Qed.

(* a test that fails on the occurrences of all other declarations is decided inside dd *)
Lemma find_in_decl (f : occ -> bool) l1 dd l2 :
  a_decls p = l1 ++ dd :: l2 ->
  let D := len (flat_map fl_decl l1) in
  (forall g D' o, In (g, D') (x_decls 0 l1) \/ In (g, D') (x_decls (D + len (fl_decl dd)) l2) ->
                  In o (occs_of_decl (g, D')) -> f o = false) ->
  find f occs = find f (occs_of_decl (x_decl dd, D)).
Proof.
  intros H D Hf. rewrite (occurrences_split _ _ _ H). fold D. rewrite find_app.
  rewrite (find_none_all f (flat_map occs_of_decl (x_decls 0 l1))).
  - rewrite find_app. destruct (find f (occs_of_decl (x_decl dd, D))); [reflexivity|].
    apply find_none_all. intros o Ho. apply in_flat_map in Ho as [[g D'] [Hg Ho]]. eapply Hf; eauto.
  - intros o Ho. apply in_flat_map in Ho as [[g D'] [Hg Ho]]. eapply Hf; eauto.
Qed.

(* the name occurrence of a type declaration *)
Definition type_occ (D : nat) (c1 c2 : cs) (x : text) (c3 : cs) (ty : atype) : occ :=
  {| o_id := shift_ident (x_ident (len c1 + 1) c2 x) D; o_role := RTypeDecl; o_proc := None;
     o_ty := ty_shape (Some (x_type 0 ty, len c1 + 1 + len c2 + 1 + len c3 + 1)) |}.

Definition proc_occ (D : nat) (c1 c2 : cs) (x : text) : occ :=
  {| o_id := shift_ident (x_ident (len c1 + 1) c2 x) D; o_role := RProcDecl; o_proc := Some x; o_ty := None |}.

Theorem find_type_decl l1 c1 c2 x c3 ty c4 l2 :
  a_decls p = l1 ++ DType c1 c2 x c3 ty c4 :: l2 ->
  find_declaring occs [RTypeDecl] x None = Some (type_occ (len (flat_map fl_decl l1)) c1 c2 x c3 ty).
Proof.
  intros H. rewrite find_declaring_eq, (find_in_decl _ _ _ _ H).
  - cbn [occs_of_decl x_decl fst snd td_name td_ty app find]. unfold dpred. cbn [o_role o_name o_id existsb].
    unfold o_name. cbn [o_id shift_ident id_val x_ident role_eqb orb andb]. rewrite text_eqb_refl. reflexivity.
  - intros g D' o Hg Ho. destruct (dpred [RTypeDecl] x None o) eqn:E; [|reflexivity]. exfalso.
    apply dpred_true in E as [Hr [Hn _]]. destruct Hr as [Hr|[]].
    destruct (occs_of_decl_facts _ _ _ Ho) as [F1 _]. specialize (F1 (eq_sym Hr)).
    apply (names_distinct _ _ _ H g D' Hg). rewrite F1, Hn. reflexivity.
Qed.

Theorem find_proc_decl_occ l1 c1 c2 x c3 ps c4 c5 vs b c6 l2 :
  a_decls p = l1 ++ DProc c1 c2 x c3 ps c4 c5 vs b c6 :: l2 ->
  find_declaring occs [RProcDecl] x None = Some (proc_occ (len (flat_map fl_decl l1)) c1 c2 x).
Proof.
  intros H. rewrite find_declaring_eq, (find_in_decl _ _ _ _ H).
  - cbn [occs_of_decl x_decl fst snd pd_name option_map opt_list mk_occs map app find]. unfold dpred.
    unfold o_name. cbn [o_role o_id shift_ident id_val x_ident existsb role_eqb orb andb]. rewrite text_eqb_refl. reflexivity.
  - intros g D' o Hg Ho. destruct (dpred [RProcDecl] x None o) eqn:E; [|reflexivity]. exfalso.
    apply dpred_true in E as [Hr [Hn _]]. destruct Hr as [Hr|[]].
    destruct (occs_of_decl_facts _ _ _ Ho) as [_ [F2 _]]. specialize (F2 (eq_sym Hr)).
    apply (names_distinct _ _ _ H g D' Hg). rewrite F2, Hn. reflexivity.
Qed.

(* a predefined name has no declaration *)
Theorem find_predefined x r : lookup initialized x <> None -> (r = RTypeDecl \/ r = RProcDecl) ->
  find_declaring occs [r] x None = None.
Proof.
  intros Hx Hr. rewrite find_declaring_eq. apply find_none_all. intros o Ho.
  destruct (dpred [r] x None o) eqn:E; [|reflexivity]. exfalso.
  apply dpred_true in E as [Hro [Hn _]]. destruct Hro as [Hro|[]].
  unfold occs, occurrences in Ho. apply in_flat_map in Ho as [[g D'] [Hg Ho]].
  destruct (occs_of_decl_facts _ _ _ Ho) as [F1 [F2 _]].
  assert (Hg' : gname g = Some x) by (rewrite <- Hn; destruct Hr; subst r; [apply F1 | apply F2]; congruence).
  exact (Hx (names_fresh _ _ Hg _ Hg')).
Qed.

End Program.

(* ---------------------------------------------------------------------------------------- *)
(* parameters and variables: the local table against the declaring occurrences               *)

(* the parameter / variable a local entry stems from, with its declaring occurrence *)
Inductive local_item (Gi : gtable) (pn : text) (D : nat) (p : option text)
          (ps : list (paramdecl * nat)) (vs : list (vardecl * nat)) : lentry -> occ -> Prop :=
| LI_param doc r name te o inf off t :
    In (PValid doc r (Some name) (Some (te, o)) inf, off) ps -> denotes [] Gi (anon_creator pn name) te t ->
    local_item Gi pn D p ps vs (LParam (mk_ventry doc r name t inf off))
      {| o_id := shift_ident (shift_ident name off) D; o_role := RParamDecl; o_proc := p; o_ty := ty_shape (Some (te, o)) |}
| LI_var doc name te o inf off t Lk :
    In (VValid doc (Some name) (Some (te, o)) inf, off) vs -> denotes Lk Gi (anon_creator pn name) te t ->
    local_item Gi pn D p ps vs (LVar (mk_ventry doc false name t inf off))
      {| o_id := shift_ident (shift_ident name off) D; o_role := RVarDecl; o_proc := p; o_ty := ty_shape (Some (te, o)) |}.

Lemma local_item_incl Gi pn D p ps vs ps' vs' le b :
  local_item Gi pn D p ps vs le b -> incl ps ps' -> incl vs vs' -> local_item Gi pn D p ps' vs' le b.
Proof. intros [doc r name te o inf off t Hin Hd | doc name te o inf off t Lk Hin Hd] Hp Hv; econstructor; eauto. Qed.

Notation lpred x p := (dpred [RParamDecl; RVarDecl] x (Some p)).

Lemma lpred_decl x p i r ty : r = RParamDecl \/ r = RVarDecl ->
  lpred x p {| o_id := i; o_role := r; o_proc := p; o_ty := ty |} = text_eqb (id_val i) x.
Proof.
  intros Hr. unfold dpred, o_name. cbn [o_role o_id o_proc existsb]. rewrite opt_text_eqb_refl, andb_true_r.
  destruct Hr; subst r; cbn [role_eqb orb andb]; reflexivity.
Qed.

Lemma find_params Gi pn D p L ps L' es : wf_params Gi pn L ps L' es -> forall vs x, lookup L x = None ->
  match lookup L' x with
  | None => find (lpred x p) (param_occs D p ps) = None
  | Some le => exists b, find (lpred x p) (param_occs D p ps) = Some b /\ local_item Gi pn D p ps vs le b
  end.
Proof.
  unfold param_occs.
  induction 1 as [L | L doc is_ref name te o inf off t r L' es Hd _ Hfresh Hr IH]; intros vs x Hx.
  - rewrite Hx. reflexivity.
  - cbn [flat_map fst snd app find]. rewrite lpred_decl by (now left). cbn [shift_ident id_val].
    destruct (text_eqb (id_val name) x) eqn:E.
    + apply text_eqb_eq in E. subst x.
      rewrite (wf_params_mono _ _ _ _ _ _ Hr _ _ (lookup_snoc_same _ _ _ Hfresh)).
      eexists. split; [reflexivity|]. apply (LI_param _ _ _ _ _ _ doc is_ref name te o inf off t); [now left | exact Hd].
    + assert (Hx' : lookup (L ++ [(id_val name, LParam (mk_ventry doc is_ref name t inf off))]) x = None)
        by (now rewrite lookup_app, Hx, E).
      specialize (IH vs x Hx'). destruct (lookup L' x) as [le|]; [|exact IH].
      destruct IH as [b [Hf Hi]]. exists b. split; [exact Hf|].
      eapply local_item_incl; [exact Hi | apply incl_tl, incl_refl | apply incl_refl].
Qed.

Lemma find_vars Gi pn D p L vs L' : wf_vars Gi pn L vs L' -> forall ps x, lookup L x = None ->
  match lookup L' x with
  | None => find (lpred x p) (var_occs D p vs) = None
  | Some le => exists b, find (lpred x p) (var_occs D p vs) = Some b /\ local_item Gi pn D p ps vs le b
  end.
Proof.
  unfold var_occs.
  induction 1 as [L | L doc name te o inf off t r L' Hd Hfresh Hr IH]; intros ps x Hx.
  - rewrite Hx. reflexivity.
  - cbn [flat_map fst snd app find]. rewrite lpred_decl by (now right). cbn [shift_ident id_val].
    destruct (text_eqb (id_val name) x) eqn:E.
    + apply text_eqb_eq in E. subst x.
      rewrite (wf_vars_mono _ _ _ _ _ Hr _ _ (lookup_snoc_same _ _ _ Hfresh)).
      eexists. split; [reflexivity|]. apply (LI_var _ _ _ _ _ _ doc name te o inf off t L); [now left | exact Hd].
    + assert (Hx' : lookup (L ++ [(id_val name, LVar (mk_ventry doc false name t inf off))]) x = None)
        by (now rewrite lookup_app, Hx, E).
      specialize (IH ps x Hx'). destruct (lookup L' x) as [le|]; [|exact IH].
      destruct IH as [b [Hf Hi]]. exists b. split; [exact Hf|].
      eapply local_item_incl; [exact Hi | apply incl_refl | apply incl_tl, incl_refl].
Qed.

Lemma find_mk_occs_other roles name proc off r p l :
  ~ In r roles -> find (dpred roles name proc) (mk_occs off r p l) = None.
Proof.
  intros Hr. apply find_none_all. intros o Ho. apply mk_occs_inv in Ho as [i [_ ->]].
  destruct (dpred roles name proc _) eqn:E; [|reflexivity]. apply dpred_true in E as [Hin _]. contradiction.
Qed.

(* every declared parameter / variable has its entry, with its own occurrence *)
Lemma param_item Gi pn D p L ps L' es vs : wf_params Gi pn L ps L' es ->
  forall doc r name ty inf off, In (PValid doc r (Some name) ty inf, off) ps ->
  exists le, lookup L' (id_val name) = Some le /\
    local_item Gi pn D p ps vs le
      {| o_id := shift_ident (shift_ident name off) D; o_role := RParamDecl; o_proc := p; o_ty := ty_shape ty |}.
Proof.
  intros Hw doc r name ty inf off Hin.
  destruct (wf_params_fwd _ _ _ _ _ _ Hw _ _ _ _ _ _ Hin) as [te [o [t [-> [Hd Hl]]]]].
  eexists. split; [exact Hl|]. now apply (LI_param _ _ _ _ _ _ doc r name te o inf off t).
Qed.

Lemma var_item Gi pn D p L vs L' ps : wf_vars Gi pn L vs L' ->
  forall doc name ty inf off, In (VValid doc (Some name) ty inf, off) vs ->
  exists le, lookup L' (id_val name) = Some le /\
    local_item Gi pn D p ps vs le
      {| o_id := shift_ident (shift_ident name off) D; o_role := RVarDecl; o_proc := p; o_ty := ty_shape ty |}.
Proof.
  intros Hw doc name ty inf off Hin.
  destruct (wf_vars_fwd _ _ _ _ _ Hw _ _ _ _ _ Hin) as [te [o [t [Lk [-> [Hd Hl]]]]]].
  eexists. split; [exact Hl|]. now apply (LI_var _ _ _ _ _ _ doc name te o inf off t Lk).
Qed.

(* ---------------------------------------------------------------------------------------- *)
(* C: creator_decl follows the alias chain to the creating declaration                       *)

Section Chain.
Variable occs : list occ.

Definition chain_ok (n : nat) (G : gtable) : Prop :=
  forall T tte t, lookup G T = Some (GTypeE tte) -> ten_ty tte = Some t ->
    match t with
    | DArray _ _ c => exists tc co, lookup G c = Some (GTypeE tc) /\ ten_ty tc = Some t /\
                        find_declaring occs [RTypeDecl] c None = Some co /\
                        forall fuel, n < fuel -> creator_decl occs fuel T = Some co
    | _ => forall fuel, creator_decl occs fuel T = None
    end.

Hypothesis Hint : find_declaring occs [RTypeDecl] s_int None = None.

Lemma chain_init : chain_ok 0 initialized.
Proof.
  intros T tte t Hl Ht. destruct (initialized_type _ _ Hl) as [-> Hty]. rewrite Hty in Ht. injection Ht as <-.
  intros [|f]; [reflexivity|]. cbn [creator_decl]. now rewrite Hint.
Qed.

(* the occurrence list knows the type declaration td under its name *)
Definition knows (td : typedecl) : Prop :=
  forall name, td_name td = Some name ->
  exists o, find_declaring occs [RTypeDecl] (id_val name) None = Some o /\ o_ty o = ty_shape (td_ty td).

Lemma chain_step n Gi off g ke :
  chain_ok n Gi -> wf_gdecl Gi off g ke -> (forall td, g = GType td -> knows td) -> chain_ok (S n) (Gi ++ [ke]).
Proof.
  intros IH Hw Hk T tte t Hl Ht. destruct ke as [k e].
  destruct (lookup_snoc_inv _ _ _ _ _ Hl) as [Hold | [Hnone [-> ->]]].
  - specialize (IH _ _ _ Hold Ht). destruct t as [| |sz b c]; try exact IH.
    destruct IH as [tc [co [H1 [H2 [H3 H4]]]]]. exists tc, co. repeat split; try assumption.
    + now apply lookup_app_l.
    + intros fuel Hf. apply H4. lia.
  - inversion Hw as [d0 name te o t0 Hn Hmain Hfresh Hty Hd | d0 name L1 ps L2 Hn Hfresh Hp Hv]; subst.
    destruct (Hk d0 eq_refl name Hn) as [oc [Hfind Hoty]]. rewrite Hty in Hoty.
    cbn [ten_ty] in Ht. injection Ht as <-.
    inversion Hd as [i tS tt Hb HtS | il b ob inf bt Hb]; subst.
    + (* an alias *)
      pose proof (binds_type _ _ _ _ Hb) as HS. specialize (IH _ _ _ HS HtS).
      cbn [ty_shape] in Hoty.
      assert (Hstep : forall f, creator_decl occs (S f) (id_val name) = creator_decl occs f (id_val i)).
      { intros f. cbn [creator_decl]. now rewrite Hfind, Hoty. }
      destruct t0 as [| |sz b c].
      * intros [|f]; [reflexivity|]. rewrite Hstep. apply IH.
      * intros [|f]; [reflexivity|]. rewrite Hstep. apply IH.
      * destruct IH as [tc [co [H1 [H2 [H3 H4]]]]]. exists tc, co. repeat split; try assumption.
        -- now apply lookup_app_l.
        -- intros [|f] Hf; [lia|]. rewrite Hstep. apply H4. lia.
    + (* an array type written in place: this declaration is the creator *)
      cbn [ty_shape] in Hoty. eexists. exists oc. split; [exact Hl|]. split; [reflexivity|]. split; [exact Hfind|].
      intros [|f] Hf; [lia|]. cbn [creator_decl]. now rewrite Hfind, Hoty.
Qed.

Lemma chain_all : forall G0 ds es, wf_gdecls G0 ds es -> forall n, chain_ok n G0 ->
  (forall td off, In (GType td, off) ds -> knows td) -> chain_ok (n + len ds) (G0 ++ es).
Proof.
  induction 1 as [G | G d off ke r es Hd _ IH]; intros n Hn Hk.
  - rewrite app_nil_r, Nat.add_0_r. exact Hn.
  - assert (Heq : G ++ ke :: es = (G ++ [ke]) ++ es) by (now rewrite <- app_assoc).
    rewrite Heq. cbn [length]. replace (n + S (len r)) with (S n + len r) by lia. apply IH.
    + apply (chain_step n G off d ke Hn Hd). intros td ->. apply (Hk td off). now left.
    + intros td o Hin. apply (Hk td o). now right.
Qed.

End Chain.

(* ---------------------------------------------------------------------------------------- *)
(* the global entities, the locals and the alias chains of a well-typed program              *)

Lemma occs_count : forall l o, len l <= len (flat_map occs_of_decl (x_decls o l)).
Proof.
  induction l as [|d l IH]; intros o; [apply Nat.le_refl|]. cbn [x_decls flat_map]. rewrite app_length.
  specialize (IH (o + len (fl_decl d))). cbn [length].
  assert (1 <= len (occs_of_decl (x_decl d, o))); [|lia].
  destruct d; cbn [occs_of_decl x_decl fst snd td_name pd_name opt_list mk_occs map app length]; lia.
Qed.

Section Program2.
Variables (p : aprog) (G : gtable).
Hypothesis Hwt : well_typed (expected p) G.

Let occs := occurrences (expected p).

Theorem find_local l1 c1 c2 xn c3 ps c4 c5 vs b c6 l2 Gi L1 es L2 :
  let dd := DProc c1 c2 xn c3 ps c4 c5 vs b c6 in
  let D := len (flat_map fl_decl l1) in
  a_decls p = l1 ++ dd :: l2 ->
  wf_params Gi xn [] (pd_params (the_proc dd)) L1 es -> wf_vars Gi xn L1 (pd_vars (the_proc dd)) L2 ->
  forall x,
    match lookup L2 x with
    | None => find_declaring occs [RParamDecl; RVarDecl] x (Some (Some xn)) = None
    | Some le => exists bo, find_declaring occs [RParamDecl; RVarDecl] x (Some (Some xn)) = Some bo /\
                   local_item Gi xn D (Some xn) (pd_params (the_proc dd)) (pd_vars (the_proc dd)) le bo
    end.
Proof.
  intros dd D H Hp Hv x. rewrite find_declaring_eq, (find_in_decl p _ _ _ _ H).
  2:{ intros g D' o Hg Ho. destruct (dpred _ _ _ o) eqn:E; [|reflexivity]. exfalso.
      apply dpred_true in E as [_ [_ Hproc]]. destruct (occs_of_decl_facts _ _ _ Ho) as [_ [_ F3]].
      specialize (F3 _ Hproc). apply (names_distinct p G Hwt _ _ _ H g D' Hg). rewrite F3. reflexivity. }
  fold D. change (x_decl dd) with (GProc (the_proc dd)). unfold occs_of_decl. cbn [fst snd].
  change (pd_name (the_proc dd)) with (Some (x_ident (len c1 + 1) c2 xn)). cbn [option_map id_val x_ident].
  set (ps' := pd_params (the_proc dd)) in *. set (vs' := pd_vars (the_proc dd)) in *.
  rewrite find_app, find_mk_occs_other by (intros [E|[E|[]]]; discriminate E).
  rewrite find_app.
  pose proof (find_params _ _ D (Some xn) _ _ _ _ Hp vs' x eq_refl) as Hf.
  destruct (lookup L1 x) as [le1|] eqn:E1.
  - rewrite (wf_vars_mono _ _ _ _ _ Hv _ _ E1). destruct Hf as [bo [Hf Hi]]. rewrite Hf. exists bo. now split.
  - rewrite Hf. rewrite find_app, find_mk_occs_other by (intros [E|[E|[]]]; discriminate E). rewrite find_app.
    pose proof (find_vars _ _ D (Some xn) _ _ _ Hv ps' x E1) as Hf2.
    destruct (lookup L2 x) as [le|].
    + destruct Hf2 as [bo [Hf2 Hi]]. rewrite Hf2. exists bo. now split.
    + rewrite Hf2. rewrite find_app, find_mk_occs_other by (intros [E|[E|[]]]; discriminate E).
      rewrite find_app, find_mk_occs_other by (intros [E|[E|[]]]; discriminate E).
      apply find_mk_occs_other. intros [E|[E|[]]]; discriminate E.
Qed.

(* a type of the final table: `int`, or the entry of exactly one type declaration *)
Theorem type_entity x tte : lookup G x = Some (GTypeE tte) ->
  (x = s_int /\ ten_ty tte = Some DInt /\ is_default (EntType tte) = true /\
   find_declaring occs [RTypeDecl] x None = None) \/
  (exists l1 c1 c2 c3 ty c4 l2,
     a_decls p = l1 ++ DType c1 c2 x c3 ty c4 :: l2 /\
     ten_name tte = x_ident (len c1 + 1) c2 x /\
     ten_range tte = shift_range (info_range (mkinfo 0 (len (fl_decl (DType c1 c2 x c3 ty c4))))) (len (flat_map fl_decl l1)) /\
     is_default (EntType tte) = false /\ text_eqb x s_int = false).
Proof.
  intros Hl. destruct Hwt as [[es [Hwf [HG _]]] _]. rewrite HG in Hl.
  destruct (wf_gdecls_lookup _ _ _ Hwf _ _ Hl) as [Hi | [g [off [Gi [Hin [Hw [Hs _]]]]]]].
  - left. destruct (initialized_type _ _ Hi) as [-> Hty]. repeat split; try assumption.
    + exact (initialized_default _ _ Hi).
    + apply (find_predefined p G Hwt); [congruence | now left].
  - right. unfold expected in Hin. cbn [pg_decls] in Hin.
    destruct (x_decls_in _ _ _ _ Hin) as [l1 [d' [l2 [Hds [-> ->]]]]]. cbn [Nat.add].
    assert (Hfresh : lookup initialized x = None).
    { destruct (wf_gdecl_name _ _ _ _ Hw) as [_ Hf]. exact (sub_table_none _ _ _ Hs Hf). }
    destruct d' as [c1 c2 xn c3 ty c4 | c1 c2 xn c3 ps c4 c5 vs b c6].
    + inversion Hw as [d0 name te o t Hn Hmain Hfr Hty Hd | ]; subst. cbn [x_decl td_name] in Hn. injection Hn as <-.
      cbn [id_val x_ident] in *. exists l1, c1, c2, c3, ty, c4, l2.
      repeat split; try assumption; try reflexivity.
      * unfold is_default. cbn [ten_name id_val x_ident]. now apply fresh_not_default.
      * now apply fresh_not_int.
    + inversion Hw.
Qed.

(* a procedure of the final table: predefined, or the entry of exactly one procedure declaration *)
Theorem proc_entity f pe' : lookup G f = Some (GProcE pe') ->
  (is_default (EntProc pe') = true /\ find_declaring occs [RProcDecl] f None = None) \/
  (exists l1 c1 c2 c3 ps c4 c5 vs b c6 l2,
     a_decls p = l1 ++ DProc c1 c2 f c3 ps c4 c5 vs b c6 :: l2 /\
     pe_name pe' = x_ident (len c1 + 1) c2 f /\
     pe_range pe' = shift_range (info_range (mkinfo 0 (len (fl_decl (DProc c1 c2 f c3 ps c4 c5 vs b c6))))) (len (flat_map fl_decl l1)) /\
     is_default (EntProc pe') = false).
Proof.
  intros Hl. destruct Hwt as [[es [Hwf [HG _]]] _]. rewrite HG in Hl.
  destruct (wf_gdecls_lookup _ _ _ Hwf _ _ Hl) as [Hi | [g [off [Gi [Hin [Hw [Hs _]]]]]]].
  - left. split; [exact (initialized_default _ _ Hi)|].
    apply (find_predefined p G Hwt); [congruence | now right].
  - right. unfold expected in Hin. cbn [pg_decls] in Hin.
    destruct (x_decls_in _ _ _ _ Hin) as [l1 [d' [l2 [Hds [-> ->]]]]]. cbn [Nat.add].
    assert (Hfresh : lookup initialized f = None).
    { destruct (wf_gdecl_name _ _ _ _ Hw) as [_ Hf]. exact (sub_table_none _ _ _ Hs Hf). }
    destruct d' as [c1 c2 xn c3 ty c4 | c1 c2 xn c3 ps c4 c5 vs b c6].
    + inversion Hw.
    + inversion Hw as [ | d0 name L1 pes L2 Hn Hfr Hpar Hvar]; subst. cbn [x_decl pd_name] in Hn. injection Hn as <-.
      cbn [id_val x_ident] in *. exists l1, c1, c2, c3, ps, c4, c5, vs, b, c6, l2.
      repeat split; try assumption; try reflexivity.
      unfold is_default. cbn [pe_name id_val x_ident]. now apply fresh_not_default.
Qed.

(* the tables declaration dd sees and makes *)
Theorem decl_view l1 dd l2 :
  a_decls p = l1 ++ dd :: l2 ->
  let D := len (flat_map fl_decl l1) in
  exists Gi ke, wf_gdecl Gi D (x_decl dd) ke /\ lookup G (fst ke) = Some (snd ke) /\
                sub_table initialized Gi /\ sub_table Gi G /\ chain_ok occs (len l1) Gi /\ len l1 < len occs.
Proof.
  intros H D. destruct (table_split p G Hwt _ _ _ H) as [e1 [ke [e2 [HG [H1 [H2 H3]]]]]]. fold D in H2, H3.
  exists (initialized ++ e1), ke. split; [exact H2|].
  destruct (wf_gdecl_name _ _ _ _ H2) as [_ Hf].
  split; [|split; [apply sub_table_app | split; [rewrite HG; apply sub_table_app | split]]].
  - rewrite HG, (lookup_app_none _ _ _ Hf). cbn [lookup]. destruct ke as [k e]. cbn [fst snd]. now rewrite text_eqb_refl.
  - assert (Hlen : len (x_decls 0 l1) = len l1).
    { clear. generalize 0. induction l1 as [|d l IH]; intros o; [reflexivity|]. cbn [x_decls length]. now rewrite IH. }
    rewrite <- Hlen. apply (chain_all occs
                              _ _ _ H1 0 (chain_init occs (find_predefined p G Hwt s_int RTypeDecl int_initialized (or_introl eq_refl)))).
    intros td off Hin name Hname.
    assert (Hin' : In (GType td, off) (x_decls 0 (a_decls p))).
    { rewrite H, x_decls_app. apply in_or_app. now left. }
    destruct (x_decls_in _ _ _ _ Hin') as [l1' [d' [l2' [Hds [Hg ->]]]]].
    destruct d' as [c1 c2 xn c3 ty c4 | c1 c2 xn c3 ps c4 c5 vs b c6]; [|discriminate Hg].
    cbn [x_decl] in Hg. injection Hg as ->. cbn [td_name] in Hname. injection Hname as <-.
    cbn [id_val x_ident td_ty]. eexists. split; [exact (find_type_decl p G Hwt _ _ _ _ _ _ _ _ Hds) | reflexivity].
  - unfold occs. rewrite (occurrences_split p _ _ _ H), !app_length.
    pose proof (occs_count l1 0) as Hc. fold D.
    assert (1 <= len (occs_of_decl (x_decl dd, D))); [|lia].
    destruct dd; cbn [occs_of_decl x_decl fst snd td_name pd_name opt_list mk_occs map app length]; lia.
Qed.

End Program2.
