(* C09 "same diagnostics" for programs with comments, part 1: erasure.

   The analysis (table build, semantic analysis) reads of the tree: names, literal values, operators, structure; of the
   tables: kinds of entries, data types, reference flags, parameter lists.  It never reads a token range, a Reference
   offset or a doc comment - except to COPY them into error ranges / table entries (and for one comparison of two
   declaration ranges, handled in FormatDiagTop.v).  [er_*] forgets exactly that: every range becomes (0,1), every offset 0,
   every doc comment list empty; error MESSAGES are kept, in order.

   Proved here: running the analysis of a construct on the erased tree (with tables that agree up to erasure) gives the
   erasure of what the run on the original gives ([rsim]: whenever the original run succeeds). *)
From Coq Require Import String List Lia PeanoNat.
From Spl Require Import Model.Errors.
Import ListNotations.
Local Open Scope nat_scope.

(* ================================================================================================
   1. Erasure of trees
   ================================================================================================ *)
Definition er_err (x : err) : err := {| e_s := 0; e_e := 1; e_m := e_m x |}.
Definition er_info (i : info) : info := {| i_s := 0; i_e := 1; i_errs := map er_err (i_errs i) |}.
Definition er_ident (i : ident) : ident := {| id_val := id_val i; id_info := er_info (id_info i) |}.
Definition er_lit (i : intlit) : intlit := {| il_val := il_val i; il_info := er_info (il_info i) |}.

Fixpoint er_var (v : variable) : variable :=
  match v with
  | NamedVar i => NamedVar (er_ident i)
  | ArrAccess a idx inf =>
      ArrAccess (er_var a) (match idx with Some (e, _) => Some (er_expr e, 0) | None => None end) (er_info inf)
  end
with er_expr (e : expr) : expr :=
  match e with
  | EBin op l r inf => EBin op (er_expr l) (er_expr r) (er_info inf)
  | EBrack a inf => EBrack (er_expr a) (er_info inf)
  | EInt i => EInt (er_lit i)
  | EUn op a inf => EUn op (er_expr a) (er_info inf)
  | EVar v => EVar (er_var v)
  | EErr inf => EErr (er_info inf)
  end.

Definition er_oexpr (o : option (expr * nat)) : option (expr * nat) :=
  match o with Some (e, _) => Some (er_expr e, 0) | None => None end.

Fixpoint er_texpr (t : typeexpr) : typeexpr :=
  match t with
  | TNamed i => TNamed (er_ident i)
  | TArray size base inf =>
      TArray (option_map er_lit size) (match base with Some (b, _) => Some (er_texpr b, 0) | None => None end) (er_info inf)
  end.

Definition er_oty (o : option (typeexpr * nat)) : option (typeexpr * nat) :=
  match o with Some (t, _) => Some (er_texpr t, 0) | None => None end.

Fixpoint er_stmt (s : stmt) : stmt :=
  let er_ref (r : option (stmt * nat)) : option (stmt * nat) :=
    match r with Some (x, _) => Some (er_stmt x, 0) | None => None end in
  match s with
  | SEmpty inf => SEmpty (er_info inf)
  | SAssign v e inf => SAssign (er_var v) (er_oexpr e) (er_info inf)
  | SCall n args inf => SCall (er_ident n) (map (fun a : expr * nat => (er_expr (fst a), 0)) args) (er_info inf)
  | SIf c t e inf => SIf (er_oexpr c) (er_ref t) (er_ref e) (er_info inf)
  | SWhile c b inf => SWhile (er_oexpr c) (er_ref b) (er_info inf)
  | SBlock body inf =>
      SBlock ((fix go (l : list (stmt * nat)) : list (stmt * nat) :=
                 match l with [] => [] | (x, _) :: r => (er_stmt x, 0) :: go r end) body) (er_info inf)
  | SError inf => SError (er_info inf)
  end.

Definition er_ostmt (r : option (stmt * nat)) : option (stmt * nat) :=
  match r with Some (x, _) => Some (er_stmt x, 0) | None => None end.

Fixpoint er_stmts (l : list (stmt * nat)) : list (stmt * nat) :=
  match l with [] => [] | (x, _) :: r => (er_stmt x, 0) :: er_stmts r end.

Lemma er_stmt_block body inf : er_stmt (SBlock body inf) = SBlock (er_stmts body) (er_info inf).
Proof. reflexivity. Qed.
Lemma er_stmt_if c t e inf : er_stmt (SIf c t e inf) = SIf (er_oexpr c) (er_ostmt t) (er_ostmt e) (er_info inf).
Proof. reflexivity. Qed.
Lemma er_stmt_while c b inf : er_stmt (SWhile c b inf) = SWhile (er_oexpr c) (er_ostmt b) (er_info inf).
Proof. reflexivity. Qed.

Definition er_vardecl (v : vardecl) : vardecl :=
  match v with
  | VValid _ name ty inf => VValid [] (option_map er_ident name) (er_oty ty) (er_info inf)
  | VError inf => VError (er_info inf)
  end.
Definition er_paramdecl (p : paramdecl) : paramdecl :=
  match p with
  | PValid _ r name ty inf => PValid [] r (option_map er_ident name) (er_oty ty) (er_info inf)
  | PError inf => PError (er_info inf)
  end.

Definition er_vars (l : list (vardecl * nat)) : list (vardecl * nat) := map (fun x => (er_vardecl (fst x), 0)) l.
Definition er_params (l : list (paramdecl * nat)) : list (paramdecl * nat) := map (fun x => (er_paramdecl (fst x), 0)) l.

Definition er_typedecl (d : typedecl) : typedecl :=
  {| td_doc := []; td_name := option_map er_ident (td_name d); td_ty := er_oty (td_ty d); td_info := er_info (td_info d) |}.
Definition er_procdecl (d : procdecl) : procdecl :=
  {| pd_doc := []; pd_name := option_map er_ident (pd_name d); pd_params := er_params (pd_params d);
     pd_vars := er_vars (pd_vars d); pd_stmts := er_stmts (pd_stmts d); pd_info := er_info (pd_info d) |}.
Definition er_gdecl (g : gdecl) : gdecl :=
  match g with GType d => GType (er_typedecl d) | GProc d => GProc (er_procdecl d) | GError inf => GError (er_info inf) end.
Definition er_decls (l : list (gdecl * nat)) : list (gdecl * nat) := map (fun x => (er_gdecl (fst x), 0)) l.
Definition er_program (p : program) : program := {| pg_decls := er_decls (pg_decls p); pg_info := er_info (pg_info p) |}.

(* ---- appending an error ---- *)
Lemma er_info_append i x : er_info (info_append i x) = info_append (er_info i) (er_err x).
Proof. unfold er_info, info_append. cbn [i_s i_e i_errs]. rewrite map_app. reflexivity. Qed.

Lemma er_ident_append i x : er_ident (ident_append i x) = ident_append (er_ident i) (er_err x).
Proof. unfold er_ident, ident_append. cbn [id_val id_info]. rewrite er_info_append. reflexivity. Qed.

Lemma er_var_append v x : er_var (var_append v x) = var_append (er_var v) (er_err x).
Proof. destruct v; cbn [var_append er_var]; rewrite ?er_ident_append, ?er_info_append; reflexivity. Qed.

Lemma er_expr_append e x : er_expr (expr_append e x) = expr_append (er_expr e) (er_err x).
Proof.
  destruct e; cbn [expr_append er_expr]; rewrite ?er_info_append, ?er_var_append; try reflexivity.
  unfold er_lit. cbn [il_val il_info]. rewrite er_info_append. reflexivity.
Qed.

Lemma er_err_mk r m : er_err (mkerr_t r m) = mkerr_t (0, 1) m.
Proof. reflexivity. Qed.

Lemma var_info_er v : info_range (var_info (er_var v)) = (0, 1).
Proof. destruct v; reflexivity. Qed.
Lemma expr_range_er e : expr_range (er_expr e) = (0, 1).
Proof. destruct e; try reflexivity. apply var_info_er. Qed.

(* ================================================================================================
   2. Results
   ================================================================================================ *)
(* whenever the original run succeeds, the run on the erased input succeeds with a related result *)
Definition rsim {A B} (P : A -> B -> Prop) (x : res A) (y : res B) : Prop :=
  match x with
  | RFail _ => True
  | ROk a => match y with ROk b => P a b | RFail _ => False end
  end.

Lemma rsim_ret {A B} (P : A -> B -> Prop) a b : P a b -> rsim P (ROk a) (ROk b).
Proof. exact (fun H => H). Qed.

Lemma rsim_bind {A B C D} (P : A -> B -> Prop) (Q : C -> D -> Prop) x y k k' :
  rsim P x y -> (forall a b, P a b -> rsim Q (k a) (k' b)) -> rsim Q (rbind x k) (rbind y k').
Proof.
  intros H HK. destruct x as [a|s]; [|exact I]. destruct y as [b|s]; [|destruct H]. cbn [rbind]. apply HK. exact H.
Qed.

Lemma rsim_ok {A B} (P : A -> B -> Prop) x y a : rsim P x y -> x = ROk a -> exists b, y = ROk b /\ P a b.
Proof. intros H ->. destruct y as [b|s]; [exists b; split; [reflexivity | exact H] | destruct H]. Qed.

(* Identifier::to_error / ident_flag *)
Lemma ident_flag_er i m : rsim (fun r r' => r' = er_ident r) (ident_flag i m) (ident_flag (er_ident i) m).
Proof.
  unfold ident_flag, to_error. cbn [er_ident id_info er_info i_e id_val Nat.eqb].
  destruct (Nat.eqb (i_e (id_info i)) 0); cbn [rbind rsim]; [exact I|].
  rewrite er_ident_append. reflexivity.
Qed.

(* ================================================================================================
   3. Erasure of tables
   ================================================================================================ *)
Definition er_ve (v : ventry) : ventry :=
  {| ve_name := er_ident (ve_name v); ve_ref := ve_ref v; ve_ty := ve_ty v; ve_range := (0, 0); ve_doc := None |}.
Definition er_le (e : lentry) : lentry := match e with LVar v => LVar (er_ve v) | LParam v => LParam (er_ve v) end.
Definition er_lt (t : ltable) : ltable := map (fun kv => (fst kv, er_le (snd kv))) t.
Definition er_te (t : tentry) : tentry :=
  {| ten_name := er_ident (ten_name t); ten_ty := ten_ty t; ten_range := (0, 0); ten_doc := None |}.
Definition er_pe (p : pentry) : pentry :=
  {| pe_name := er_ident (pe_name p); pe_local := er_lt (pe_local p); pe_params := map er_ve (pe_params p);
     pe_range := (0, 0); pe_doc := None |}.
Definition er_ge (e : gentry) : gentry := match e with GTypeE t => GTypeE (er_te t) | GProcE p => GProcE (er_pe p) end.
Definition er_gt (t : gtable) : gtable := map (fun kv => (fst kv, er_ge (snd kv))) t.

Definition er_entry (e : entry) : entry :=
  match e with
  | EntType t => EntType (er_te t) | EntProc p => EntProc (er_pe p) | EntVar v => EntVar (er_ve v) | EntParam v => EntParam (er_ve v)
  end.

Lemma lookup_map {V W} (g : V -> W) (t : list (text * V)) k :
  lookup (map (fun kv => (fst kv, g (snd kv))) t) k = option_map g (lookup t k).
Proof.
  induction t as [|[k' v] r IH]; [reflexivity|]. cbn [map lookup fst snd]. destruct (text_eqb k' k); [reflexivity | exact IH].
Qed.

Definition olt (l : option ltable) : option ltable := option_map er_lt l.
Definition ogt (g : option gtable) : option gtable := option_map er_gt g.

Lemma lt_lookup_er l g k : lt_lookup (olt l) (ogt g) k = option_map er_entry (lt_lookup l g k).
Proof.
  unfold lt_lookup.
  assert (E1 : match olt l with Some t => lookup t k | None => None end
               = option_map er_le (match l with Some t => lookup t k | None => None end)).
  { destruct l as [t|]; [apply lookup_map | reflexivity]. }
  assert (E2 : match ogt g with Some t => lookup t k | None => None end
               = option_map er_ge (match g with Some t => lookup t k | None => None end)).
  { destruct g as [t|]; [apply lookup_map | reflexivity]. }
  rewrite E1, E2.
  destruct (match l with Some t => lookup t k | None => None end) as [e|]; cbn [option_map]; [destruct e; reflexivity|].
  destruct (match g with Some t => lookup t k | None => None end) as [e|]; cbn [option_map]; [destruct e; reflexivity | reflexivity].
Qed.

(* tables that agree up to erasure give lookups that agree up to erasure *)
Lemma lt_lookup_sim l l' g g' k :
  olt l = olt l' -> ogt g = ogt g' -> option_map er_entry (lt_lookup l g k) = option_map er_entry (lt_lookup l' g' k).
Proof. intros Hl Hg. rewrite <- !lt_lookup_er, Hl, Hg. reflexivity. Qed.

Lemma enter_sim {V W} (g : V -> W) (t t' : list (text * V)) k v v' :
  map (fun kv => (fst kv, g (snd kv))) t = map (fun kv => (fst kv, g (snd kv))) t' -> g v = g v' ->
  map (fun kv => (fst kv, g (snd kv))) (fst (enter t k v)) = map (fun kv => (fst kv, g (snd kv))) (fst (enter t' k v'))
  /\ snd (enter t k v) = snd (enter t' k v').
Proof.
  intros Ht Hv. unfold enter.
  assert (E : option_map g (lookup t k) = option_map g (lookup t' k)) by (rewrite <- !lookup_map, Ht; reflexivity).
  destruct (lookup t k), (lookup t' k); try discriminate E; cbn [fst snd]; split; try reflexivity; try exact Ht.
  rewrite !map_app, Ht. cbn [map fst snd]. rewrite Hv. reflexivity.
Qed.

(* ================================================================================================
   4. Table build: type expressions, parameters, variable declarations
   ================================================================================================ *)
Section Types.
Variables (l l' : option ltable) (g g' : option gtable).
Hypothesis Hl : olt l = olt l'.
Hypothesis Hg : ogt g = ogt g'.

Fixpoint gdt_te_er caller (t : typeexpr) {struct t} :
  rsim (fun r r' => r' = (er_texpr (fst r), snd r)) (get_data_type_te l g caller t) (get_data_type_te l' g' caller (er_texpr t)).
Proof.
  destruct t as [name|size base inf].
  - cbn [get_data_type_te er_texpr]. cbn [er_ident id_val].
    pose proof (lt_lookup_sim l l' g g' (id_val name) Hl Hg) as E.
    destruct (lt_lookup l g (id_val name)) as [[te|pe|ve|ve]|], (lt_lookup l' g' (id_val name)) as [[te'|pe'|ve'|ve']|];
      try discriminate E; cbn [option_map er_entry] in E;
      try (apply (rsim_bind _ _ _ _ _ _ (ident_flag_er name _)); intros a b ->; reflexivity).
    apply (f_equal (fun o => match o with Some (EntType t) => ten_ty t | _ => None end)) in E. cbn [er_te ten_ty] in E.
    cbn [rsim]. f_equal. symmetry. exact E.
  - cbn [get_data_type_te er_texpr].
    assert (Es : match option_map er_lit size with Some il => il_val il | None => None end
                 = match size with Some il => il_val il | None => None end) by (destruct size; reflexivity).
    rewrite Es. destruct base as [[b off]|].
    + apply (rsim_bind _ _ _ _ _ _ (gdt_te_er caller b)). intros [b1 bt] [b1' bt'] E. injection E as -> ->. reflexivity.
    + reflexivity.
Qed.

Lemma gdt_er caller t :
  rsim (fun r r' => r' = (er_oty (fst r), snd r)) (get_data_type l g caller t) (get_data_type l' g' caller (er_oty t)).
Proof.
  destruct t as [[te off]|]; [|reflexivity]. cbn [get_data_type er_oty].
  apply (rsim_bind _ _ _ _ _ _ (gdt_te_er caller te)). intros [a dt] [a' dt'] E. injection E as -> ->. reflexivity.
Qed.
End Types.

(* build_parameter / build_variable: the decorated declaration exactly, the tables up to erasure *)
Definition psim (r : (paramdecl * nat) * ltable * option ventry) (r' : (paramdecl * nat) * ltable * option ventry) : Prop :=
  fst (fst r') = (er_paramdecl (fst (fst (fst r))), 0) /\ er_lt (snd (fst r')) = er_lt (snd (fst r))
  /\ option_map er_ve (snd r') = option_map er_ve (snd r).

Lemma build_parameter_er p off name g g' local local' :
  er_gt g = er_gt g' -> er_lt local = er_lt local' ->
  rsim psim (build_parameter (p, off) name g local) (build_parameter (er_paramdecl p, 0) name g' local').
Proof.
  intros Hg Hl. unfold build_parameter. destruct p as [docs is_ref [nm|] ty inf|inf]; cbn [er_paramdecl option_map];
    try (cbn [rsim]; unfold psim; cbn [fst snd]; repeat split; [symmetry; exact Hl]).
  apply (rsim_bind _ _ _ _ _ _ (gdt_er None None (Some g) (Some g') eq_refl (f_equal Some Hg) (Some (anonymous_creator name nm)) ty)).
  intros [ty1 dt] [ty1' dt'] E. injection E as -> ->. cbn [fst snd].
  change (anonymous_creator name (er_ident nm)) with (anonymous_creator name nm).
  set (pe := {| ve_name := nm; ve_ref := is_ref; ve_ty := dt; ve_range := _; ve_doc := _ |}).
  set (pe' := {| ve_name := er_ident nm; ve_ref := is_ref; ve_ty := dt; ve_range := _; ve_doc := _ |}).
  assert (Epe : er_le (LParam pe) = er_le (LParam pe')).
  { unfold pe, pe', er_le, er_ve. cbn [ve_name ve_ref ve_ty]. unfold er_ident. cbn [id_val id_info]. unfold er_info. cbn [i_errs].
    rewrite map_map. cbn [er_err e_m]. reflexivity. }
  assert (F1 : rsim (fun r r' => r' = er_ident r)
                 (match dt with
                  | Some d => if negb (is_primitive d) && negb is_ref then ident_flag nm (fun n => EBuild (MustBeAReferenceParameter n)) else ROk nm
                  | None => ROk nm
                  end)
                 (match dt with
                  | Some d => if negb (is_primitive d) && negb is_ref
                              then ident_flag (er_ident nm) (fun n => EBuild (MustBeAReferenceParameter n)) else ROk (er_ident nm)
                  | None => ROk (er_ident nm)
                  end)).
  { destruct dt as [d|]; [|reflexivity]. destruct (negb (is_primitive d) && negb is_ref); [apply ident_flag_er | reflexivity]. }
  apply (rsim_bind _ _ _ _ _ _ F1). intros n1 n1' ->.
  change (id_val (er_ident nm)) with (id_val nm).
  destruct (enter_sim er_le local local' (id_val nm) (LParam pe) (LParam pe') Hl Epe) as [Et Eok].
  destruct (enter local (id_val nm) (LParam pe)) as [t1 ok], (enter local' (id_val nm) (LParam pe')) as [t1' ok'].
  cbn [fst snd] in Et, Eok. subst ok'.
  assert (F2 : rsim (fun r r' => r' = er_ident r)
                 (if ok then ROk n1 else ident_flag n1 (fun n => EBuild (RedeclarationAsParameter n)))
                 (if ok then ROk (er_ident n1) else ident_flag (er_ident n1) (fun n => EBuild (RedeclarationAsParameter n))))
    by (destruct ok; [reflexivity | apply ident_flag_er]).
  apply (rsim_bind _ _ _ _ _ _ F2). intros n2 n2' ->. cbn [rsim]. unfold psim. cbn [fst snd er_paramdecl option_map].
  split; [reflexivity|]. split; [symmetry; exact Et|]. f_equal.
  apply (f_equal (fun e => match e with LParam v | LVar v => v end)) in Epe. cbn [er_le] in Epe. symmetry. exact Epe.
Qed.

Definition pssim (r r' : list (paramdecl * nat) * ltable * list ventry) : Prop :=
  fst (fst r') = er_params (fst (fst r)) /\ er_lt (snd (fst r')) = er_lt (snd (fst r)) /\ map er_ve (snd r') = map er_ve (snd r).

Lemma build_parameters_er ps name g g' : er_gt g = er_gt g' -> forall local local',
  er_lt local = er_lt local' ->
  rsim pssim (build_parameters ps name g local) (build_parameters (er_params ps) name g' local').
Proof.
  intros Hg. induction ps as [|[p off] r IH]; intros local local' Hl.
  - cbn [build_parameters er_params map rsim]. unfold pssim. cbn [fst snd map]. repeat split. symmetry. exact Hl.
  - cbn [er_params map fst build_parameters]. fold (er_params r).
    apply (rsim_bind _ _ _ _ _ _ (build_parameter_er p off name g g' local local' Hg Hl)).
    intros [[p1 l1] oe] [[p1' l1'] oe'] (E1 & E2 & E3). cbn [fst snd] in E1, E2, E3. subst p1'.
    apply (rsim_bind _ _ _ _ _ _ (IH l1 l1' (eq_sym E2))).
    intros [[r1 l2] es] [[r1' l2'] es'] (F1 & F2 & F3). cbn [fst snd] in F1, F2, F3. subst r1'.
    cbn [rsim]. unfold pssim. cbn [fst snd]. split; [|split; [exact F2|]].
    + cbn [er_params map fst]. destruct p1 as [pp po]. cbn [fst]. reflexivity.
    + destruct oe as [e|], oe' as [e'|]; try discriminate E3; cbn [map]; [|exact F3].
      apply (f_equal (fun o => match o with Some v => v | None => er_ve e end)) in E3. cbn [option_map] in E3. rewrite E3, F3. reflexivity.
Qed.

Definition vsim (r r' : (vardecl * nat) * ltable) : Prop :=
  fst r' = (er_vardecl (fst (fst r)), 0) /\ er_lt (snd r') = er_lt (snd r).

Lemma build_variable_er v off name g g' local local' :
  er_gt g = er_gt g' -> er_lt local = er_lt local' ->
  rsim vsim (build_variable (v, off) name g local) (build_variable (er_vardecl v, 0) name g' local').
Proof.
  intros Hg Hl. unfold build_variable. destruct v as [docs [nm|] ty inf|inf]; cbn [er_vardecl option_map];
    try (cbn [rsim]; unfold vsim; cbn [fst snd]; repeat split; [symmetry; exact Hl]).
  apply (rsim_bind _ _ _ _ _ _ (gdt_er (Some local) (Some local') (Some g) (Some g') (f_equal Some Hl) (f_equal Some Hg)
                                   (Some (anonymous_creator name nm)) ty)).
  intros [ty1 dt] [ty1' dt'] E. injection E as -> ->. cbn [fst snd].
  change (anonymous_creator name (er_ident nm)) with (anonymous_creator name nm).
  set (e := {| ve_name := nm; ve_ref := false; ve_ty := dt; ve_range := _; ve_doc := _ |}).
  set (e' := {| ve_name := er_ident nm; ve_ref := false; ve_ty := dt; ve_range := _; ve_doc := _ |}).
  assert (Ee : er_le (LVar e) = er_le (LVar e')).
  { unfold e, e', er_le, er_ve. cbn [ve_name ve_ref ve_ty]. unfold er_ident. cbn [id_val id_info]. unfold er_info. cbn [i_errs].
    rewrite map_map. cbn [er_err e_m]. reflexivity. }
  change (id_val (er_ident nm)) with (id_val nm).
  destruct (enter_sim er_le local local' (id_val nm) (LVar e) (LVar e') Hl Ee) as [Et Eok].
  destruct (enter local (id_val nm) (LVar e)) as [t1 ok], (enter local' (id_val nm) (LVar e')) as [t1' ok'].
  cbn [fst snd] in Et, Eok. subst ok'.
  assert (F2 : rsim (fun r r' => r' = er_ident r)
                 (if ok then ROk nm else ident_flag nm (fun n => EBuild (RedeclarationAsVariable n)))
                 (if ok then ROk (er_ident nm) else ident_flag (er_ident nm) (fun n => EBuild (RedeclarationAsVariable n))))
    by (destruct ok; [reflexivity | apply ident_flag_er]).
  apply (rsim_bind _ _ _ _ _ _ F2). intros n2 n2' ->. cbn [rsim]. unfold vsim. cbn [fst snd er_vardecl option_map].
  split; [reflexivity | symmetry; exact Et].
Qed.

Definition vssim (r r' : list (vardecl * nat) * ltable) : Prop :=
  fst r' = er_vars (fst r) /\ er_lt (snd r') = er_lt (snd r).

Lemma build_variables_er vs name g g' : er_gt g = er_gt g' -> forall local local',
  er_lt local = er_lt local' ->
  rsim vssim (build_variables vs name g local) (build_variables (er_vars vs) name g' local').
Proof.
  intros Hg. induction vs as [|[v off] r IH]; intros local local' Hl.
  - cbn [build_variables er_vars map rsim]. unfold vssim. cbn [fst snd map]. split; [reflexivity | symmetry; exact Hl].
  - cbn [er_vars map fst build_variables]. fold (er_vars r).
    apply (rsim_bind _ _ _ _ _ _ (build_variable_er v off name g g' local local' Hg Hl)).
    intros [v1 l1] [v1' l1'] (E1 & E2). cbn [fst snd] in E1, E2. subst v1'.
    apply (rsim_bind _ _ _ _ _ _ (IH l1 l1' (eq_sym E2))).
    intros [r1 l2] [r1' l2'] (F1 & F2). cbn [fst snd] in F1, F2. subst r1'.
    cbn [rsim]. unfold vssim. cbn [fst snd]. split; [|exact F2].
    cbn [er_vars map fst]. destruct v1 as [vv vo]. reflexivity.
Qed.
