(* Characters are Unicode scalar values (N); texts are lists of characters.
   Byte offsets are sums of UTF-8 lengths, exactly as Rust's &str offsets. *)
From Coq Require Export List NArith Bool Lia.
Export ListNotations.
Open Scope N_scope.

Definition char := N.
Definition text := list char.

Definition ulen (c : char) : N :=
  if c <? 128 then 1 else if c <? 2048 then 2 else if c <? 65536 then 3 else 4.

Definition u16len (c : char) : N := if c <? 65536 then 1 else 2.

Fixpoint blen (s : text) : N :=
  match s with [] => 0 | c :: r => ulen c + blen r end.

Fixpoint u16s (s : text) : N :=
  match s with [] => 0 | c :: r => u16len c + u16s r end.

Lemma ulen_pos c : 1 <= ulen c.
Proof. unfold ulen. repeat destruct (_ <? _); lia. Qed.

Lemma ulen_le4 c : ulen c <= 4.
Proof. unfold ulen. repeat destruct (_ <? _); lia. Qed.

Lemma blen_app a b : blen (a ++ b) = blen a + blen b.
Proof. induction a as [|c a IH]; cbn [blen app]; [reflexivity|]. rewrite IH. lia. Qed.

Lemma blen_nil_iff s : blen s = 0 <-> s = [].
Proof.
  split; [|intros ->; reflexivity].
  destruct s as [|c r]; [reflexivity|]. cbn [blen]. pose proof (ulen_pos c). lia.
Qed.

Lemma blen_pos s : s <> [] -> 1 <= blen s.
Proof. destruct s as [|c r]; [congruence|]. intros _. cbn [blen]. pose proof (ulen_pos c). lia. Qed.

(* character classes used by the lexer (nom 7.1.3, ASCII only) *)
Definition is_ws (c : char) : bool :=
  (c =? 32) || (c =? 9) || (c =? 13) || (c =? 10).
Definition is_digit (c : char) : bool := (48 <=? c) && (c <=? 57).
Definition is_upper (c : char) : bool := (65 <=? c) && (c <=? 90).
Definition is_lower (c : char) : bool := (97 <=? c) && (c <=? 122).
Definition is_alpha (c : char) : bool := is_upper c || is_lower c.
Definition is_hex (c : char) : bool :=
  is_digit c || ((65 <=? c) && (c <=? 70)) || ((97 <=? c) && (c <=? 102)).
(* spl_frontend::lexer::utility::is_alpha_numeric: `is_alphanumeric(c as u8) || c == '_'`,
   the cast truncates the code point to its low byte *)
Definition is_alnum_trunc (c : char) : bool :=
  let b := c mod 256 in is_alpha b || is_digit b || (c =? 95).
Definition is_ident_start (c : char) : bool := is_alpha c || (c =? 95).

(* generic list helpers *)
Fixpoint starts (p s : text) : bool :=
  match p, s with
  | [], _ => true
  | a :: p', b :: s' => (a =? b) && starts p' s'
  | _ :: _, [] => false
  end.

Fixpoint span (f : char -> bool) (s : text) : text * text :=
  match s with
  | [] => ([], [])
  | c :: r => if f c then let (a, b) := span f r in (c :: a, b) else ([], s)
  end.

Lemma span_app f s : fst (span f s) ++ snd (span f s) = s.
Proof.
  induction s as [|c r IH]; cbn [span]; [reflexivity|].
  destruct (f c); [|reflexivity]. destruct (span f r) as [a b]. cbn in *. now rewrite IH.
Qed.

Lemma span_all f s : forallb f (fst (span f s)) = true.
Proof.
  induction s as [|c r IH]; cbn [span]; [reflexivity|].
  destruct (f c) eqn:E; [|reflexivity]. destruct (span f r) as [a b]. cbn in *. now rewrite E, IH.
Qed.

Lemma span_stop f s c r : snd (span f s) = c :: r -> f c = false.
Proof.
  induction s as [|d s IH]; cbn [span]; [discriminate|].
  destruct (f d) eqn:E.
  - destruct (span f s) as [a b]. cbn in *. exact IH.
  - cbn. intros [= -> ->]. exact E.
Qed.

Lemma starts_spec p s : starts p s = true <-> exists r, s = p ++ r.
Proof.
  revert s; induction p as [|a p IH]; intros s; cbn [starts].
  - split; [intros _; now exists s | reflexivity].
  - destruct s as [|b s]; [split; [discriminate | intros [r H]; discriminate]|].
    rewrite andb_true_iff, N.eqb_eq, IH. split.
    + intros [-> [r ->]]. now exists r.
    + intros [r [= -> ->]]. split; [reflexivity | now exists r].
Qed.
