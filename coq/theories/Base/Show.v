(* Number and token printing as Rust's `Display` does it (tokens.rs `impl Display for TokenType`). *)
From Spl Require Export Model.Token.

Definition digit_char (d : N) : char := if d <? 10 then 48 + d else 55 + d.   (* 0-9, A-F *)

Fixpoint print_base_fuel (fuel : nat) (base n : N) (acc : text) : text :=
  match fuel with
  | O => acc
  | S f =>
      let acc' := digit_char (n mod base) :: acc in
      if n / base =? 0 then acc' else print_base_fuel f base (n / base) acc'
  end.

(* enough fuel: a number has at most [N.size_nat n] binary digits *)
Definition print_dec (n : N) : text := print_base_fuel (S (N.size_nat n)) 10 n [].
Definition print_hex_upper (n : N) : text := print_base_fuel (S (N.size_nat n)) 16 n [].

(* format!("{:#04X}", i): "0x" + uppercase hex, zero padded to a total width of 4 *)
Definition print_hex04 (n : N) : text :=
  let d := print_hex_upper n in
  [48; 120] ++ (match d with [_] => 48 :: d | _ => d end).

(* char::is_whitespace (Unicode White_Space) *)
Definition is_unicode_ws (c : char) : bool :=
  ((9 <=? c) && (c <=? 13)) || (c =? 32) || (c =? 133) || (c =? 160) || (c =? 5760) ||
  ((8192 <=? c) && (c <=? 8202)) || (c =? 8232) || (c =? 8233) || (c =? 8239) || (c =? 8287) || (c =? 12288).

Fixpoint trim_start (s : text) : text :=
  match s with
  | c :: r => if is_unicode_ws c then trim_start r else s
  | [] => []
  end.

Definition trim (s : text) : text := rev (trim_start (rev (trim_start s))).

Definition static_str (k : kind) : text :=
  match k with
  | Eof => []
  | _ =>
      match find (fun pk => kind_eqb (snd pk) k) (sym_table ++ kw_table) with
      | Some (p, _) => p
      | None => []
      end
  end.

(* impl Display for TokenType *)
Definition show_kind (k : kind) : text :=
  match k with
  | Ident s | Unknown s => s
  | Comment s => [47; 47; 32] ++ trim s ++ [10]
  | CharT c => if c =? 10 then [39; 92; 110; 39] else [39; c; 39]
  | IntT (IntOk i) => print_dec i
  | IntT (IntErr e) => e
  | HexT (IntOk i) => print_hex04 i
  | HexT (IntErr e) => [48; 120] ++ e
  | k => static_str k
  end.
