(* AnalyzedSource::update, the part that precedes the table: for every change the text is
   edited, the token stream is updated by lexer::update and the tree by parser::update with the
   change window lexer::update reported (lib.rs:78-91).  The table and the build/semantic
   diagnostics are recomputed from the resulting tree afterwards (Model/Errors.v). *)
From Spl Require Export Model.LexUpdate Model.ParserInc.

Record pdoc := { p_text : text; p_toks : list token; p_tree : program }.

(* AnalyzedSource::new up to the tree *)
Definition pnew (t : text) : outcome pdoc :=
  match lex t with
  | Some toks =>
      match parse toks with
      | Done p => Done {| p_text := t; p_toks := toks; p_tree := p |}
      | Panic => Panic
      | OutOfFuel => OutOfFuel
      end
  | None => OutOfFuel
  end.

(* one change: the old text is a ++ d ++ b, the bytes of d are replaced by ins *)
Definition pstep (doc : pdoc) (a d b ins : text) : outcome pdoc :=
  let new := a ++ ins ++ b in
  match lex_update new (p_toks doc) (blen a) (blen a + blen d) ins with
  | UDone toks ws we n =>
      match parse_update (p_tree doc) toks ws we n with
      | Done p => Done {| p_text := new; p_toks := toks; p_tree := p |}
      | Panic => Panic
      | OutOfFuel => OutOfFuel
      end
  | UPanic _ => Panic
  | UFuel => OutOfFuel
  end.

(* a history: changes applied one after the other *)
Record tchange := { c_a : text; c_d : text; c_b : text; c_ins : text }.

Fixpoint phist (doc : pdoc) (h : list tchange) : outcome pdoc :=
  match h with
  | [] => Done doc
  | c :: r =>
      match pstep doc (c_a c) (c_d c) (c_b c) (c_ins c) with
      | Done doc' => phist doc' r
      | Panic => Panic
      | OutOfFuel => OutOfFuel
      end
  end.

(* the history is well-formed for the text: every change addresses the current text *)
Fixpoint valid_hist (t : text) (h : list tchange) : Prop :=
  match h with
  | [] => True
  | c :: r => t = c_a c ++ c_d c ++ c_b c /\ valid_hist (c_a c ++ c_ins c ++ c_b c) r
  end.

Fixpoint final_text (t : text) (h : list tchange) : text :=
  match h with
  | [] => t
  | c :: r => final_text (c_a c ++ c_ins c ++ c_b c) r
  end.
