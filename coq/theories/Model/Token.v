(* spl_frontend::tokens — token kinds, tokens, look-ahead table, static spellings *)
From Spl Require Export Base.Chars.

Inductive int_result := IntOk (v : N) | IntErr (s : text).

Inductive kind :=
| LParen | RParen | LBracket | RBracket | LCurly | RCurly
| EqT | NeqT | LtT | LeT | GtT | GeT | Assign | Colon | Comma | Semic
| Plus | Minus | Times | Divide
| KIf | KElse | KWhile | KArray | KOf | KProc | KRef | KType | KVar
| Ident (s : text) | CharT (c : char) | IntT (r : int_result) | HexT (r : int_result)
| Comment (s : text) | Unknown (s : text) | Eof.

Inductive lexmsg := MissingClosingTick | ExpectedHexNumber | InvalidIntLit (s : text).

(* SplError(range, LexErrorMessage) *)
Record lerr := { le_s : N; le_e : N; le_m : lexmsg }.

Record token := { tk : kind; ts : N; te : N; terr : list lerr }.

Definition shift_err (d : N) (e : lerr) : lerr :=
  {| le_s := le_s e + d; le_e := le_e e + d; le_m := le_m e |}.

Definition shift_tok (d : N) (t : token) : token :=
  {| tk := tk t; ts := ts t + d; te := te t + d; terr := map (shift_err d) (terr t) |}.

(* TokenType::look_ahead (tokens.rs) *)
Definition look_ahead (k : kind) : N :=
  match k with
  | KIf | KElse | KWhile | KArray | KOf | KProc | KRef | KType | KVar
  | Colon | Divide | LtT | GtT | IntT _ | Ident _ | HexT _ => 1
  | Comment _ => 1
  | Unknown _ => 1
  | LParen | RParen | LBracket | RBracket | LCurly | RCurly | EqT | NeqT | LeT | GeT
  | Assign | Comma | Semic | Plus | Minus | Times | Eof => 0
  | CharT _ => 1
  end.

(* spellings as code points *)
Definition sym_table : list (text * kind) :=
  [ ([40], LParen); ([41], RParen); ([91], LBracket); ([93], RBracket);
    ([123], LCurly); ([125], RCurly); ([61], EqT); ([35], NeqT);
    ([60; 61], LeT); ([60], LtT); ([62; 61], GeT); ([62], GtT);
    ([58; 61], Assign); ([58], Colon); ([44], Comma); ([59], Semic);
    ([43], Plus); ([45], Minus); ([42], Times); ([47], Divide) ].

Definition kw_table : list (text * kind) :=
  [ ([105; 102], KIf); ([101; 108; 115; 101], KElse); ([119; 104; 105; 108; 101], KWhile);
    ([97; 114; 114; 97; 121], KArray); ([111; 102], KOf); ([112; 114; 111; 99], KProc);
    ([114; 101; 102], KRef); ([116; 121; 112; 101], KType); ([118; 97; 114], KVar) ].

(* decidable equality, used by `reusable_tokens.contains(token)` *)
Fixpoint text_eqb (a b : text) : bool :=
  match a, b with
  | [], [] => true
  | x :: a', y :: b' => (x =? y) && text_eqb a' b'
  | _, _ => false
  end.

Lemma text_eqb_eq a b : text_eqb a b = true <-> a = b.
Proof.
  revert b; induction a as [|x a IH]; intros [|y b]; cbn [text_eqb];
    try (split; [discriminate | congruence]); [split; reflexivity|].
  rewrite andb_true_iff, N.eqb_eq, IH. split; [intros [-> ->]; reflexivity | intros [= -> ->]; auto].
Qed.

Definition int_result_eqb (a b : int_result) : bool :=
  match a, b with
  | IntOk x, IntOk y => x =? y
  | IntErr x, IntErr y => text_eqb x y
  | _, _ => false
  end.

Definition kind_tag (k : kind) : N :=
  match k with
  | LParen => 0 | RParen => 1 | LBracket => 2 | RBracket => 3 | LCurly => 4 | RCurly => 5
  | EqT => 6 | NeqT => 7 | LtT => 8 | LeT => 9 | GtT => 10 | GeT => 11 | Assign => 12 | Colon => 13
  | Comma => 14 | Semic => 15 | Plus => 16 | Minus => 17 | Times => 18 | Divide => 19
  | KIf => 20 | KElse => 21 | KWhile => 22 | KArray => 23 | KOf => 24 | KProc => 25 | KRef => 26
  | KType => 27 | KVar => 28 | Ident _ => 29 | CharT _ => 30 | IntT _ => 31 | HexT _ => 32
  | Comment _ => 33 | Unknown _ => 34 | Eof => 35
  end.

Definition kind_eqb (a b : kind) : bool :=
  match a, b with
  | Ident x, Ident y | Comment x, Comment y | Unknown x, Unknown y => text_eqb x y
  | CharT x, CharT y => x =? y
  | IntT x, IntT y | HexT x, HexT y => int_result_eqb x y
  | _, _ => (kind_tag a =? kind_tag b) &&
            match a with Ident _ | Comment _ | Unknown _ | CharT _ | IntT _ | HexT _ => false | _ => true end
  end.

Definition lexmsg_eqb (a b : lexmsg) : bool :=
  match a, b with
  | MissingClosingTick, MissingClosingTick => true
  | ExpectedHexNumber, ExpectedHexNumber => true
  | InvalidIntLit x, InvalidIntLit y => text_eqb x y
  | _, _ => false
  end.

Definition lerr_eqb (a b : lerr) : bool :=
  (le_s a =? le_s b) && (le_e a =? le_e b) && lexmsg_eqb (le_m a) (le_m b).

Fixpoint list_eqb {A} (f : A -> A -> bool) (a b : list A) : bool :=
  match a, b with
  | [], [] => true
  | x :: a', y :: b' => f x y && list_eqb f a' b'
  | _, _ => false
  end.

Definition token_eqb (a b : token) : bool :=
  kind_eqb (tk a) (tk b) && (ts a =? ts b) && (te a =? te b) && list_eqb lerr_eqb (terr a) (terr b).

Lemma int_result_eqb_eq a b : int_result_eqb a b = true <-> a = b.
Proof.
  destruct a, b; cbn; try (split; [discriminate|congruence]).
  - rewrite N.eqb_eq. split; congruence.
  - rewrite text_eqb_eq. split; congruence.
Qed.

Lemma kind_eqb_eq a b : kind_eqb a b = true <-> a = b.
Proof.
  destruct a, b; cbn; try (split; [discriminate|congruence]); try (split; reflexivity);
    rewrite ?text_eqb_eq, ?N.eqb_eq, ?int_result_eqb_eq; split; congruence.
Qed.

Lemma lexmsg_eqb_eq a b : lexmsg_eqb a b = true <-> a = b.
Proof.
  destruct a, b; cbn; try (split; [discriminate|congruence]); try (split; reflexivity).
  rewrite text_eqb_eq. split; congruence.
Qed.

Lemma lerr_eqb_eq a b : lerr_eqb a b = true <-> a = b.
Proof.
  destruct a, b; unfold lerr_eqb; cbn.
  rewrite !andb_true_iff, !N.eqb_eq, lexmsg_eqb_eq. split; [intros [[-> ->] ->]; reflexivity|].
  intros [= -> -> ->]. auto.
Qed.

Lemma list_eqb_eq {A} (f : A -> A -> bool) :
  (forall x y, f x y = true <-> x = y) -> forall a b, list_eqb f a b = true <-> a = b.
Proof.
  intros Hf a; induction a as [|x a IH]; intros [|y b]; cbn [list_eqb];
    try (split; [discriminate|congruence]); [split; reflexivity|].
  rewrite andb_true_iff, Hf, IH. split; [intros [-> ->]; reflexivity | intros [= -> ->]; auto].
Qed.

Lemma token_eqb_eq a b : token_eqb a b = true <-> a = b.
Proof.
  destruct a, b; unfold token_eqb; cbn.
  rewrite !andb_true_iff, kind_eqb_eq, !N.eqb_eq, (list_eqb_eq lerr_eqb lerr_eqb_eq).
  split; [intros [[[-> ->] ->] ->]; reflexivity | intros [= -> -> -> ->]; auto].
Qed.
