(* lsp4spl/src/features/fold.rs - textDocument/foldingRange.

   One FoldingRange (kind Region) per procedure declaration of the tree, in tree order:
     proc_tokens = doc.tokens[p.to_range().shift(gd.offset)]      (slice; can panic)
     tokens      = proc_tokens without its leading Comment tokens
     text range  = first.start .. last.end, or 0..0 when nothing is left
     start_line / end_line = the lines of as_pos_range(text range, doc.text). *)
From Spl Require Export Model.Cursor.
Local Open Scope nat_scope.

Fixpoint skip_leading_comments (toks : list token) : list token :=
  match toks with
  | t :: r => match tk t with Comment _ => skip_leading_comments r | _ => toks end
  | [] => []
  end.

Definition fold_text_range (toks : list token) : N * N :=
  match hd_error toks, hd_error (rev toks) with
  | Some first, Some last => (ts first, te last)
  | _, _ => (0%N, 0%N)
  end.

(* (start_line, end_line) of one procedure declaration *)
Definition fold_one (d : doc) (p : procdecl) (off : nat) : res (N * N) :=
  do sl <- slice (d_toks d) (shift_range (info_range (pd_info p)) off);
  let r := pos_range (fold_text_range (skip_leading_comments sl)) (d_text d) in
  ROk (fst (fst r), fst (snd r)).

Fixpoint fold_decls (d : doc) (l : list (gdecl * nat)) : res (list (N * N)) :=
  match l with
  | [] => ROk []
  | (GProc p, off) :: r =>
      do x <- fold_one d p off;
      do xs <- fold_decls d r;
      ROk (x :: xs)
  | _ :: r => fold_decls d r
  end.

Definition fold (d : doc) : res (list (N * N)) := fold_decls d (pg_decls (d_ast d)).

(* ---- the explicit well-formedness predicate on a document under which C17's well-formedness is
   PROVED (Proofs/FoldProofs.v); a boolean so that the judge can evaluate it on new_doc outputs ---- *)

(* byte ranges of the tokens are in text order *)
Fixpoint toks_sorted (l : list token) : bool :=
  match l with
  | [] => true
  | a :: r =>
      (ts a <=? te a)%N && match r with b :: _ => (te a <=? ts b)%N | [] => true end && toks_sorted r
  end.

(* absolute token-index ranges of the procedure declarations, in tree order *)
Fixpoint proc_ranges (l : list (gdecl * nat)) : list range :=
  match l with
  | [] => []
  | (GProc p, off) :: r => shift_range (info_range (pd_info p)) off :: proc_ranges r
  | _ :: r => proc_ranges r
  end.

(* the ranges lie inside [lo, n], do not overlap and are in order *)
Fixpoint ranges_chain (n lo : nat) (rs : list range) : bool :=
  match rs with
  | [] => true
  | (a, b) :: r => Nat.leb lo a && Nat.leb a b && Nat.leb b n && ranges_chain n b r
  end.

(* a token that is not a comment inside the range (for a parsed procedure: the `proc` keyword) *)
Definition has_real (toks : list token) (r : range) : bool :=
  match skip_leading_comments (firstn (snd r - fst r) (skipn (fst r) toks)) with
  | [] => false
  | _ :: _ => true
  end.

Definition fold_pre (d : doc) : bool :=
  let rs := proc_ranges (pg_decls (d_ast d)) in
  toks_sorted (d_toks d) && ranges_chain (length (d_toks d)) 0 rs && forallb (has_real (d_toks d)) rs.
