(* spl_frontend::ast::error_container (the order in which `errors()` collects the diagnostics
   from the tree), spl_frontend::error (`Display` of every message kind) and spl_frontend::lib.rs
   (`AnalyzedSource::new`, `impl ErrorContainer for AnalyzedSource`). *)
From Coq Require Import String.
From Spl Require Export Model.Semantic Model.Lexer.
Local Open Scope nat_scope.

(* ---- impl Shiftable for SplError / Vec<SplError> ---- *)
Definition shift_e (off : nat) (x : err) : err :=
  {| e_s := e_s x + off; e_e := e_e x + off; e_m := e_m x |}.
Definition shift_es (off : nat) (l : list err) : list err := map (shift_e off) l.

(* ---- ast/error_container.rs ---- *)
Definition ident_errors (i : ident) : list err := i_errs (id_info i).

Fixpoint var_errors (v : variable) : list err :=
  match v with
  | NamedVar n => ident_errors n
  | ArrAccess a idx inf =>
      i_errs inf ++ var_errors a
      ++ match idx with Some (e, off) => shift_es off (expr_errors e) | None => [] end
  end
with expr_errors (e : expr) : list err :=
  match e with
  | EBin _ l r inf => i_errs inf ++ expr_errors l ++ expr_errors r
  | EBrack a inf => i_errs inf ++ expr_errors a
  | EErr inf => i_errs inf
  | EInt i => i_errs (il_info i)
  | EVar v => var_errors v
  | EUn _ a inf => i_errs inf ++ expr_errors a
  end.

(* the size literal of an array type is NOT visited by the Rust code *)
Fixpoint texpr_errors (t : typeexpr) : list err :=
  match t with
  | TNamed n => ident_errors n
  | TArray _ base inf =>
      i_errs inf ++ match base with Some (b, off) => shift_es off (texpr_errors b) | None => [] end
  end.

Definition opt_ident_errors (n : option ident) : list err :=
  match n with Some i => ident_errors i | None => [] end.
Definition opt_texpr_errors (t : option (typeexpr * nat)) : list err :=
  match t with Some (x, off) => shift_es off (texpr_errors x) | None => [] end.
Definition opt_expr_errors (t : option (expr * nat)) : list err :=
  match t with Some (x, off) => shift_es off (expr_errors x) | None => [] end.

Fixpoint stmt_errors (s : stmt) : list err :=
  let opt_stmt_errors (r : option (stmt * nat)) : list err :=
    match r with Some (x, off) => shift_es off (stmt_errors x) | None => [] end in
  match s with
  | SEmpty inf | SError inf => i_errs inf
  | SAssign v e inf => i_errs inf ++ var_errors v ++ opt_expr_errors e
  | SBlock body inf =>
      i_errs inf ++ (fix go (l : list (stmt * nat)) : list err :=
                       match l with [] => [] | (x, off) :: r => shift_es off (stmt_errors x) ++ go r end) body
  | SCall name args inf =>
      i_errs inf ++ ident_errors name ++ flat_map (fun a => shift_es (snd a) (expr_errors (fst a))) args
  | SIf c t e inf => i_errs inf ++ opt_expr_errors c ++ opt_stmt_errors t ++ opt_stmt_errors e
  | SWhile c b inf => i_errs inf ++ opt_expr_errors c ++ opt_stmt_errors b
  end.

Definition vardecl_errors (v : vardecl) : list err :=
  match v with
  | VError inf => i_errs inf
  | VValid _ name ty inf => i_errs inf ++ opt_ident_errors name ++ opt_texpr_errors ty
  end.

Definition paramdecl_errors (p : paramdecl) : list err :=
  match p with
  | PError inf => i_errs inf
  | PValid _ _ name ty inf => i_errs inf ++ opt_ident_errors name ++ opt_texpr_errors ty
  end.

Definition typedecl_errors (d : typedecl) : list err :=
  i_errs (td_info d) ++ opt_ident_errors (td_name d) ++ opt_texpr_errors (td_ty d).

Definition procdecl_errors (d : procdecl) : list err :=
  i_errs (pd_info d) ++ opt_ident_errors (pd_name d)
  ++ flat_map (fun x => shift_es (snd x) (paramdecl_errors (fst x))) (pd_params d)
  ++ flat_map (fun x => shift_es (snd x) (vardecl_errors (fst x))) (pd_vars d)
  ++ flat_map (fun x => shift_es (snd x) (stmt_errors (fst x))) (pd_stmts d).

Definition gdecl_errors (g : gdecl) : list err :=
  match g with
  | GType t => typedecl_errors t
  | GProc p => procdecl_errors p
  | GError inf => i_errs inf
  end.

(* impl ErrorContainer for Program *)
Definition tree_errors (p : program) : list err :=
  i_errs (pg_info p) ++ flat_map (fun x => shift_es (snd x) (gdecl_errors (fst x))) (pg_decls p).

(* ---- error.rs: Display (every message ends with the line break of `writeln!`) ---- *)
Definition bq (s : text) : text := ([96] ++ s ++ [96])%N.
Definition nl : text := [10%N].

Definition show_lexmsg (m : lexmsg) : text :=
  match m with
  | MissingClosingTick => str "missing closing `'`"
  | ExpectedHexNumber => str "expected `hexadecimal number`"
  | InvalidIntLit i => str "invalid integer literal: " ++ bq i
  end ++ nl.

Definition show_pmsg (m : pmsg) : text :=
  match m with
  | MissingOpening c => str "missing opening " ++ bq [c]
  | MissingClosing c => str "missing closing " ++ bq [c]
  | MissingTrailingSemic => str "missing trailing `;`"
  | UnexpectedCharacters s => str "unexpected " ++ bq s
  | ExpectedToken t => str "expected " ++ bq t
  | ConfusedToken expected got => str "expected " ++ bq expected ++ str ", but got " ++ bq got
  end ++ nl.

Definition show_bmsg (m : bmsg) : text :=
  match m with
  | UndefinedType n => str "undefined type " ++ bq n
  | NotAType n => bq n ++ str " is not a type"
  | RedeclarationAsType n => str "redeclaration of " ++ bq n ++ str " as type"
  | MustBeAReferenceParameter n => str "parameter " ++ bq n ++ str " must be a reference parameter"
  | RedeclarationAsProcedure n => str "redeclaration of " ++ bq n ++ str " as procedure"
  | RedeclarationAsParameter n => str "redeclaration of " ++ bq n ++ str " as parameter"
  | RedeclarationAsVariable n => str "redeclaration of " ++ bq n ++ str " as variable"
  | MainIsMissing => str "procedure `main` is missing"
  | MainIsNotAProcedure => str "`main` is not a procedure"
  | MainMustNotHaveParameters => str "procedure `main` must not have any parameters"
  end ++ nl.

Definition show_nat (n : nat) : text := print_dec (N.of_nat n).

Definition show_smsg (m : smsg) : text :=
  match m with
  | AssignmentHasDifferentTypes => str "assignment has different types"
  | AssignmentRequiresIntegers => str "assignment requires integer variable"
  | IfConditionMustBeBoolean => str "`if` test expression must be of type boolean"
  | WhileConditionMustBeBoolean => str "`while` test expression must be of type boolean"
  | UndefinedProcedure n => str "undefined procedure " ++ bq n
  | CallOfNoneProcedure n => str "call of non-procedure " ++ bq n
  | ArgumentsTypeMismatch n i =>
      str "procedure " ++ bq n ++ str " argument " ++ bq (show_nat i) ++ str " type mismatch"
  | ArgumentMustBeAVariable n i =>
      str "procedure " ++ bq n ++ str " argument " ++ bq (show_nat i) ++ str " must be a variable"
  | TooFewArguments n => str "procedure " ++ bq n ++ str " called with too few arguments"
  | TooManyArguments n => str "procedure " ++ bq n ++ str " called with too many arguments"
  | OperatorDifferentTypes => str "expression combines different types"
  | ComparisonNonInteger => str "comparison requires integer operands"
  | ArithmeticOperatorNonInteger => str "arithmetic operation requires integer operands"
  | UndefinedVariable n => str "undefined variable " ++ bq n
  | NotAVariable n => bq n ++ str " is not a variable"
  | IndexingNonArray => str "illegal indexing a non-array"
  | IndexingWithNonInteger => str "illegal indexing with a non-integer"
  end ++ nl.

(* ErrorMessage::to_string() (= SplError::to_string(), `#[error("{1}")]`) *)
Definition show_emsg (m : emsg) : text :=
  match m with
  | EParse m => show_pmsg m
  | EBuild m => show_bmsg m
  | ESem m => show_smsg m
  end.

(* ---- lib.rs: AnalyzedSource ---- *)
Record doc := { d_text : text; d_toks : list token; d_ast : program; d_table : gtable }.

Inductive ores (A : Type) := ODone (a : A) | OFail (s : site) | OFuel.
Arguments ODone {A}. Arguments OFail {A}. Arguments OFuel {A}.

Definition ores_outcome {A} (r : ores A) : outcome A :=
  match r with ODone a => Done a | OFail _ => Panic | OFuel => OutOfFuel end.

(* AnalyzedSource::new with the panic site kept *)
Definition new_doc_res (t : text) : ores doc :=
  match lex t with
  | None => OFuel
  | Some toks =>
      match parse toks with
      | OutOfFuel => OFuel
      | Panic => OFail SiteParserCannotFail
      | Done p =>
          match build_res p with
          | RFail s => OFail s
          | ROk (p1, table) =>
              match analyze_res p1 table with
              | RFail s => OFail s
              | ROk p2 => ODone {| d_text := t; d_toks := toks; d_ast := p2; d_table := table |}
              end
          end
      end
  end.

Definition new_doc (t : text) : outcome doc := ores_outcome (new_doc_res t).

(* the closure of AnalyzedSource::errors(): token-index range -> byte range.
   `Range::is_empty` is `!(start < end)`. *)
Definition byte_range (toks : list token) (x : err) : res (N * N * emsg) :=
  if Nat.ltb (e_s x) (e_e x) then
    (* &self.tokens[range] *)
    if Nat.ltb (length toks) (e_e x) then RFail SiteTokenSlice
    else
      let sl := firstn (e_e x - e_s x) (skipn (e_s x) toks) in
      match hd_error sl, hd_error (rev sl) with
      | Some first, Some last => ROk (ts first, te last, e_m x)
      | _, _ => RFail SiteSliceEmpty
      end
  else
    match nth_error toks (e_e x) with
    | Some t => ROk (te t, te t, e_m x)
    | None => RFail SiteTokenIndex
    end.

Fixpoint byte_ranges (toks : list token) (l : list err) : res (list (N * N * emsg)) :=
  match l with
  | [] => ROk []
  | x :: r => do y <- byte_range toks x; do r' <- byte_ranges toks r; ROk (y :: r')
  end.

Definition doc_errors_res (d : doc) : res (list (N * N * emsg)) :=
  byte_ranges (d_toks d) (tree_errors (d_ast d)).

(* impl ErrorContainer for AnalyzedSource *)
Definition doc_errors (d : doc) : outcome (list (N * N * emsg)) := to_outcome (doc_errors_res d).
