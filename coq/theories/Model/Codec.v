(* Model of the LSP base-protocol codec of lsp4spl (C19).

   Anchors:
     /repo/lsp4spl/src/io.rs          LSCodec::decode, LSCodec::encode
     httparse 1.10.0  src/lib.rs       parse_headers / parse_headers_iter_uninit, default HeaderParserConfig
                      src/macros.rs    next! expect! complete!
                      src/simd/*       match_header_name_vectored / match_header_value_vectored
     tokio-util 0.7.13 src/codec/framed_impl.rs  FramedImpl::poll_next (read side)
                       src/codec/decoder.rs      Decoder::decode_eof (default implementation)
     core::num  <usize as FromStr>::from_str  (from_str_radix, radix 10)

   Bytes are numbers 0..255 (type N); a buffer is a `list N`.  JSON is abstract: whether a body
   deserialises to a `Message` is a function `json_ok` of the body bytes alone.

   Everything is executable Gallina over the standard library. *)
From Coq Require Import List NArith Bool Lia.
Import ListNotations.
Open Scope N_scope.

(* ------------------------------------------------------------------------------------------ *)
(* byte classes of httparse (lib.rs: TOKEN_MAP, HEADER_VALUE_MAP)                               *)

(* A-Z a-z 0-9 ! # $ % & ' * + - . ^ _ ` | ~ *)
Definition is_name_token (b : N) : bool :=
  ((65 <=? b) && (b <=? 90)) || ((97 <=? b) && (b <=? 122)) || ((48 <=? b) && (b <=? 57))
  || (b =? 33) || (b =? 35) || (b =? 36) || (b =? 37) || (b =? 38) || (b =? 39)
  || (b =? 42) || (b =? 43) || (b =? 45) || (b =? 46) || (b =? 94) || (b =? 95) || (b =? 96)
  || (b =? 124) || (b =? 126).

(* b'\t' | b' '..=0x7e | 0x80..=0xFF *)
Definition is_value_token (b : N) : bool :=
  (b =? 9) || ((32 <=? b) && (b <=? 126)) || ((128 <=? b) && (b <=? 255)).

Definition is_sp_tab (b : N) : bool := (b =? 32) || (b =? 9).

(* the bytes trimmed from the end of a header value: ' ' '\t' '\r' '\n' *)
Definition is_trim_ws (b : N) : bool := (b =? 32) || (b =? 9) || (b =? 13) || (b =? 10).

Fixpoint drop_while (p : N -> bool) (l : list N) : list N :=
  match l with
  | [] => []
  | b :: r => if p b then drop_while p r else l
  end.

Fixpoint bytes_eqb (a b : list N) : bool :=
  match a, b with
  | [], [] => true
  | x :: a', y :: b' => (x =? y) && bytes_eqb a' b'
  | _, _ => false
  end.

(* ------------------------------------------------------------------------------------------ *)
(* httparse::parse_headers as a byte-driven state machine.

   parse_headers_iter_uninit is a cursor over the input that only ever moves forward, one byte
   per `next!`; `next!` returns Status::Partial when the input is exhausted.  Every state below
   is one `next!`/`expect!` site of the source (the SIMD matchers followed by `next!` are
   "stay in the state while the byte is in the class").  All HeaderParserConfig flags are false. *)

Definition header : Type := (list N * list N)%type.   (* (name, value) *)

Inductive hstate : Type :=
| SLine                                   (* loop head: `let b = next!(bytes);`                          *)
| SEndCR                                  (* '\r' at loop head: `expect!(bytes.next() == b'\n' => NewLine)` *)
| SName (rname : list N)                  (* 'name: match_header_name_vectored; `next!`  (name reversed)  *)
| SColon (name : list N)                  (* 'whitespace_after_colon: `b = next!(bytes)`                  *)
| SEmptyCR (name : list N)                (* '\r' right after the colon/whitespace: expect '\n'           *)
| SValue (name : list N) (rval : list N)  (* 'value_lines: match_header_value_vectored; `next!` (reversed)*)
| SValueCR (name : list N) (rval : list N)(* '\r' after the value: expect '\n'                            *)
.

Inductive step_res : Type :=
| Go (hs : list header) (s : hstate)      (* continue with the next byte *)
| FinErr                                  (* Err(_): HeaderName / HeaderValue / NewLine / TooManyHeaders *)
| FinOk (hs : list header).               (* Status::Complete; position = bytes consumed so far *)

Definition MAX_HEADERS : nat := 2.       (* io.rs: [httparse::EMPTY_HEADER; 2] *)

(* `iter.next()` on the header slots; `None => break 'headers` leaves result = Err(TooManyHeaders).
   The value is trimmed of trailing ' ' '\t' '\r' '\n' (rposition of the last other byte). *)
Definition store (hs : list header) (name rval : list N) : step_res :=
  if Nat.leb MAX_HEADERS (length hs) then FinErr
  else Go (hs ++ [(name, rev (drop_while is_trim_ws rval))]) SLine.

Definition hstep (hs : list header) (s : hstate) (b : N) : step_res :=
  match s with
  | SLine =>
      if b =? 13 then Go hs SEndCR
      else if b =? 10 then FinOk hs
      else if is_name_token b then Go hs (SName [b])
      else FinErr
  | SEndCR => if b =? 10 then FinOk hs else FinErr
  | SName rn =>
      if is_name_token b then Go hs (SName (b :: rn))
      else if b =? 58 then Go hs (SColon (rev rn))
      else FinErr
  | SColon n =>
      if is_sp_tab b then Go hs (SColon n)
      else if is_value_token b then Go hs (SValue n [b])
      else if b =? 13 then Go hs (SEmptyCR n)
      else if b =? 10 then store hs n []
      else FinErr
  | SEmptyCR n => if b =? 10 then store hs n [] else FinErr
  | SValue n rv =>
      if is_value_token b then Go hs (SValue n (b :: rv))
      else if b =? 13 then Go hs (SValueCR n rv)
      else if b =? 10 then store hs n rv
      else FinErr
  | SValueCR n rv => if b =? 10 then store hs n rv else FinErr
  end.

Inductive hres : Type :=
| HPartial                                    (* Ok(Status::Partial) *)
| HError                                      (* Err(_) *)
| HComplete (pos : N) (hs : list header).     (* Ok(Status::Complete((pos, headers))) *)

Fixpoint hrun (hs : list header) (s : hstate) (pos : N) (l : list N) : hres :=
  match l with
  | [] => HPartial
  | b :: r =>
      match hstep hs s b with
      | Go hs' s' => hrun hs' s' (pos + 1) r
      | FinErr => HError
      | FinOk hs' => HComplete (pos + 1) hs'
      end
  end.

Definition parse_headers (l : list N) : hres := hrun [] SLine 0 l.

(* ------------------------------------------------------------------------------------------ *)
(* <usize as FromStr>::from_str: "" and "+" are errors, one optional leading '+', then ASCII
   digits only, value <= usize::MAX = 2^64-1 (the checked arithmetic fails exactly when the final
   value exceeds the maximum, because the accumulator never decreases).
   str::from_utf8 of the header value is not modelled separately: a value that is not valid
   UTF-8 contains a byte >= 0x80, which is not a digit; both failures map to InvalidHeaders. *)

Definition USIZE_LIMIT : N := 18446744073709551616.   (* 2^64 *)

Definition is_digit (b : N) : bool := (48 <=? b) && (b <=? 57).

Fixpoint parse_digits (ds : list N) (acc : N) : option N :=
  match ds with
  | [] => Some acc
  | d :: r => if is_digit d then parse_digits r (acc * 10 + (d - 48)) else None
  end.

Definition parse_usize (v : list N) : option N :=
  let ds := match v with d :: r => if d =? 43 then r else v | [] => v end in   (* one leading '+' *)
  match ds with
  | [] => None
  | _ => match parse_digits ds 0 with
         | Some n => if n <? USIZE_LIMIT then Some n else None
         | None => None
         end
  end.

(* <usize as Display>::fmt: decimal, no sign, no leading zeros, "0" for zero.
   dec_rev produces the digits least significant first; 1 + size(n) steps always suffice. *)
Fixpoint dec_rev (fuel : nat) (n : N) : list N :=
  match fuel with
  | O => []
  | S f => (48 + n mod 10) :: (if n / 10 =? 0 then [] else dec_rev f (n / 10))
  end.

Definition print_dec (n : N) : list N := rev (dec_rev (S (N.to_nat (N.size n))) n).

(* ------------------------------------------------------------------------------------------ *)
(* LSCodec::decode *)

Definition blen (l : list N) : N := N.of_nat (length l).

Definition CONTENT_LENGTH : list N :=          (* "Content-Length" *)
  [67; 111; 110; 116; 101; 110; 116; 45; 76; 101; 110; 103; 116; 104].

Inductive dres : Type :=
| NeedMore                                 (* Ok(None) *)
| Frame (body : list N) (consumed : N)     (* the buffer is advanced by `consumed`; what is returned
                                              depends on the JSON in the body (see jclass below) *)
| Bad                                      (* Err(CodecError::InvalidHeaders) *)
| Crash.                                   (* panic: content_start + content_length exceeds usize::MAX
                                              ("attempt to add with overflow" with overflow checks, otherwise
                                              the wrapped content_end < content_start makes
                                              src[content_start..content_end] panic) *)

Definition decode (src : list N) : dres :=
  if blen src <? 21 then NeedMore else
  match parse_headers src with
  | HPartial => NeedMore
  | HError => Bad
  | HComplete content_start hs =>
      (* `headers.iter().find(..)` runs over both slots; an unused slot is EMPTY_HEADER whose
         name "" never matches, so searching the stored headers in order is the same *)
      match find (fun h : header => bytes_eqb (fst h) CONTENT_LENGTH) hs with
      | None => Bad
      | Some h =>
          match parse_usize (snd h) with
          | None => Bad
          | Some content_length =>
              let content_end := content_start + content_length in
              if USIZE_LIMIT <=? content_end then Crash
              else if blen src <? content_end then NeedMore
              else Frame (firstn (N.to_nat content_length) (skipn (N.to_nat content_start) src))
                         content_end
          end
      end
  end.

(* LSCodec::encode: format!("Content-Length: {}\r\n\r\n{}", content.len(), content) *)
Definition HEADER_PREFIX : list N := CONTENT_LENGTH ++ [58; 32].   (* "Content-Length: " *)
Definition CRLF : list N := [13; 10].

Definition encode_frame (body : list N) : list N :=
  HEADER_PREFIX ++ print_dec (blen body) ++ (CRLF ++ CRLF) ++ body.

(* ------------------------------------------------------------------------------------------ *)
(* tokio_util::codec::FramedRead<_, LSCodec> as a function of the sequence of reads *)

(* What `serde_json::from_slice(content)` makes of a body.  decode deserialises to Message, so a
   body is a message or it is not (JMsg / JBad; `run_chunks` below).
   Until /repo commit e5c7771 the target type was inferred from decode's return type as
   Option<Message>: the JSON text `null` deserialised to None and decode returned Ok(None) although
   the buffer had been advanced past the frame.  That outcome is kept as JNull (`run_chunks_pinned`)
   for the regression witness in Proofs/CodecProofs.v; it cannot occur in the repaired code. *)
Inductive jclass : Type :=
| JMsg       (* Ok(Some(message)) *)
| JNull      (* Ok(None), frame consumed *)
| JBad.      (* Err(CodecError::InvalidContent), frame consumed *)

Inductive event : Type :=
| EMsg (body : list N)        (* Some(Ok(message)) *)
| EErr                        (* Some(Err(InvalidHeaders)), then the stream ends *)
| EBadJson (body : list N)    (* Some(Err(InvalidContent)): frame consumed, body is not a Message; stream ends *)
| ECrash                      (* decode panicked *)
| ETrailing.                  (* decode_eof: Err("bytes remaining on stream") *)

(* Calls `decode` until it returns Ok(None) (result: the events and Some remaining buffer; FramedRead
   then goes back to reading) or an error (None: has_errored, the stream yields nothing more).
   `drain jc k buf` first drops k bytes and then decodes; written this way the recursion is
   structural in the buffer (a frame consumes at least one byte): after a frame of n bytes at
   `_ :: t` the rest of the work is on t minus its first n-1 bytes.
   Proofs/CodecProofs.v (drain_eq) shows
     drain jc 0 buf = match decode buf with Frame m n => .. drain jc 0 (skipn n buf) .. *)
Fixpoint drain (jc : list N -> jclass) (skip : nat) (buf : list N) : list event * option (list N) :=
  match skip, buf with
  | S k, _ :: t => drain jc k t
  | S _, [] => ([], Some [])
  | O, [] => ([], Some [])
  | O, _ :: t =>
      match decode buf with
      | NeedMore => ([], Some buf)
      | Bad => ([EErr], None)
      | Crash => ([ECrash], None)
      | Frame m n =>
          match jc m with
          | JMsg => let (ev, r) := drain jc (N.to_nat n - 1) t in (EMsg m :: ev, r)
          | JNull => ([], Some (skipn (N.to_nat n - 1) t))
          | JBad => ([EBadJson m], None)
          end
      end
  end.

(* end of input (a read of 0 bytes): decode_eof is called until it returns Ok(None) or Err;
   Ok(None) from decode with a non-empty buffer is Err("bytes remaining on stream") *)
Definition at_eof (jc : list N -> jclass) (buf : list N) : list event :=
  match drain jc 0 buf with
  | (ev, None) => ev
  | (ev, Some []) => ev
  | (ev, Some (_ :: _)) => ev ++ [ETrailing]
  end.

(* each read appends its bytes to the buffer, then the buffer is drained.  (A chunk stands for a
   non-empty read; an empty chunk changes nothing here, whereas a real read of 0 bytes is the end
   of input.) *)
Fixpoint feed_chunks (jc : list N -> jclass) (buf : list N) (chunks : list (list N)) : list event :=
  match chunks with
  | [] => at_eof jc buf
  | c :: cs =>
      match drain jc 0 (buf ++ c) with
      | (ev, None) => ev
      | (ev, Some buf') => ev ++ feed_chunks jc buf' cs
      end
  end.

(* general form, including the pre-e5c7771 outcome JNull *)
Definition run_chunks_pinned (jc : list N -> jclass) (chunks : list (list N)) : list event :=
  feed_chunks jc [] chunks.

(* the codec as it is: a body is a message or it is not *)
Definition jc_of_bool (json_ok : list N -> bool) (body : list N) : jclass :=
  if json_ok body then JMsg else JBad.

Definition run_chunks (json_ok : list N -> bool) (chunks : list (list N)) : list event :=
  run_chunks_pinned (jc_of_bool json_ok) chunks.
