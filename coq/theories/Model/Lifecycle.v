(* lsp4spl::server - the phase state machine of LanguageServer::run / mod phases.
   Handlers are abstract: a supported request in the main phase is answered with a result.
   The document state behind the handlers is the business of Model/Broker.v (C20). *)
From Coq Require Export List NArith ZArith Bool Lia.
Export ListNotations.

Inductive meth :=
| MInitialize | MShutdown | MSupported (k : N)   (* the 13 feature requests, $/verif/text *)
| MInitialized | MExit | MDoc (k : N)             (* didOpen / didChange / didClose *)
| MOther (k : N).                                 (* any other method name *)

Inductive msg :=
| Req (id : Z) (m : meth)
| Notif (m : meth).

Inductive code := ServerNotInitialized | InvalidRequest | MethodNotFound.

Inductive answer := Result | Error (c : code).

(* an output frame: the response to request [id] *)
Record resp := { rid : Z; rans : answer }.

Inductive phase :=
| PUninit          (* first loop of phases::initialization: waiting for `initialize` *)
| PInitWait        (* second loop: waiting for `initialized` *)
| PMain
| PDown            (* phases::shutdown: waiting for `exit` *)
| PExited (status : N).

Definition respond (id : Z) (a : answer) : list resp := [ {| rid := id; rans := a |} ].

Definition step (p : phase) (m : msg) : phase * list resp :=
  match p with
  | PExited _ => (p, [])
  | PUninit =>
      match m with
      | Req id MInitialize => (PInitWait, respond id Result)
      | Req id _ => (PUninit, respond id (Error ServerNotInitialized))
      | Notif MExit => (PExited 1, [])
      | Notif _ => (PUninit, [])
      end
  | PInitWait =>
      match m with
      | Req id MInitialize => (PInitWait, respond id (Error InvalidRequest))
      | Req id _ => (PInitWait, respond id (Error ServerNotInitialized))
      | Notif MInitialized => (PMain, [])
      | Notif MExit => (PExited 1, [])
      | Notif _ => (PInitWait, [])
      end
  | PMain =>
      match m with
      | Req id MInitialize => (PMain, respond id (Error InvalidRequest))
      | Req id MShutdown => (PDown, respond id Result)
      | Req id (MSupported _) => (PMain, respond id Result)
      | Req id _ => (PMain, respond id (Error MethodNotFound))
      | Notif MExit => (PExited 1, [])
      | Notif _ => (PMain, [])
      end
  | PDown =>
      match m with
      | Req id _ => (PDown, respond id (Error InvalidRequest))
      | Notif MExit => (PExited 0, [])
      | Notif _ => (PDown, [])
      end
  end.

Fixpoint steps (p : phase) (ms : list msg) : phase * list resp :=
  match ms with
  | [] => (p, [])
  | m :: r => let '(p1, o1) := step p m in let '(p2, o2) := steps p1 r in (p2, o1 ++ o2)
  end.

(* End of the client's stream: every phase loop ends (`framed_read.next()` returns None), the
   remaining phases fall through, the tasks are joined and `run` returns Ok: status 0.
   [clean = false]: the stream ended inside a frame, FramedRead reports an error, status 1. *)
Definition at_eof (clean : bool) (p : phase) : phase :=
  match p with
  | PExited _ => p
  | _ => PExited (if clean then 0 else 1)%N
  end.

Definition run (ms : list msg) (clean : bool) : phase * list resp :=
  let '(p, o) := steps PUninit ms in (at_eof clean p, o).
