(* spl_frontend::ast and spl_frontend::error - the syntax tree with its attached diagnostics.
   A `Reference<T>` is modelled as a pair (T, offset); ranges are token-index ranges relative to
   the enclosing Reference, exactly as in the Rust code. *)
From Spl Require Export Model.Token.

(* error.rs: ParseErrorMessage / BuildErrorMessage / SemanticErrorMessage *)
Inductive pmsg :=
| MissingOpening (c : char)
| MissingClosing (c : char)
| MissingTrailingSemic
| UnexpectedCharacters (s : text)
| ExpectedToken (s : text)
| ConfusedToken (expected got : text).

Inductive bmsg :=
| UndefinedType (n : text) | NotAType (n : text) | RedeclarationAsType (n : text)
| MustBeAReferenceParameter (n : text) | RedeclarationAsProcedure (n : text)
| RedeclarationAsParameter (n : text) | RedeclarationAsVariable (n : text)
| MainIsMissing | MainIsNotAProcedure | MainMustNotHaveParameters.

Inductive smsg :=
| AssignmentHasDifferentTypes | AssignmentRequiresIntegers
| IfConditionMustBeBoolean | WhileConditionMustBeBoolean
| UndefinedProcedure (n : text) | CallOfNoneProcedure (n : text)
| ArgumentsTypeMismatch (n : text) (i : nat) | ArgumentMustBeAVariable (n : text) (i : nat)
| TooFewArguments (n : text) | TooManyArguments (n : text)
| OperatorDifferentTypes | ComparisonNonInteger | ArithmeticOperatorNonInteger
| UndefinedVariable (n : text) | NotAVariable (n : text)
| IndexingNonArray | IndexingWithNonInteger.

Inductive emsg := EParse (m : pmsg) | EBuild (m : bmsg) | ESem (m : smsg).

(* SplError(range, message) with a token-index range *)
Record err := { e_s : nat; e_e : nat; e_m : emsg }.

(* AstInfo *)
Record info := { i_s : nat; i_e : nat; i_errs : list err }.

Definition mkinfo (s e : nat) : info := {| i_s := s; i_e := e; i_errs := [] |}.
Definition info_append (i : info) (x : err) : info :=
  {| i_s := i_s i; i_e := i_e i; i_errs := i_errs i ++ [x] |}.

Inductive operator := OAdd | OSub | OMul | ODiv | OEqu | ONeq | OLst | OLse | OGrt | OGre.

Record ident := { id_val : text; id_info : info }.
Record intlit := { il_val : option N; il_info : info }.

Inductive variable :=
| NamedVar (i : ident)
| ArrAccess (arr : variable) (index : option (expr * nat)) (inf : info)
with expr :=
| EBin (op : operator) (l r : expr) (inf : info)
| EBrack (e : expr) (inf : info)
| EInt (i : intlit)
| EUn (op : operator) (e : expr) (inf : info)
| EVar (v : variable)
| EErr (inf : info).

Inductive typeexpr :=
| TNamed (i : ident)
| TArray (size : option intlit) (base : option (typeexpr * nat)) (inf : info).

Inductive stmt :=
| SEmpty (inf : info)
| SAssign (v : variable) (e : option (expr * nat)) (inf : info)
| SCall (name : ident) (args : list (expr * nat)) (inf : info)
| SIf (cond : option (expr * nat)) (thn els : option (stmt * nat)) (inf : info)
| SWhile (cond : option (expr * nat)) (body : option (stmt * nat)) (inf : info)
| SBlock (body : list (stmt * nat)) (inf : info)
| SError (inf : info).

Inductive vardecl :=
| VValid (doc : list text) (name : option ident) (ty : option (typeexpr * nat)) (inf : info)
| VError (inf : info).

Inductive paramdecl :=
| PValid (doc : list text) (is_ref : bool) (name : option ident) (ty : option (typeexpr * nat)) (inf : info)
| PError (inf : info).

Record typedecl := { td_doc : list text; td_name : option ident; td_ty : option (typeexpr * nat); td_info : info }.

Record procdecl := {
  pd_doc : list text; pd_name : option ident;
  pd_params : list (paramdecl * nat); pd_vars : list (vardecl * nat); pd_stmts : list (stmt * nat);
  pd_info : info }.

Inductive gdecl := GType (d : typedecl) | GProc (d : procdecl) | GError (inf : info).

Record program := { pg_decls : list (gdecl * nat); pg_info : info }.

(* derive(ToRange): the range of a node is the range of its info *)
Fixpoint var_info (v : variable) : info :=
  match v with NamedVar i => id_info i | ArrAccess _ _ inf => inf end.

Definition expr_info (e : expr) : info :=
  match e with
  | EBin _ _ _ inf | EBrack _ inf | EUn _ _ inf | EErr inf => inf
  | EInt i => il_info i
  | EVar v => var_info v
  end.

Definition texpr_info (t : typeexpr) : info :=
  match t with TNamed i => id_info i | TArray _ _ inf => inf end.

Definition stmt_info (s : stmt) : info :=
  match s with
  | SEmpty inf | SAssign _ _ inf | SCall _ _ inf | SIf _ _ _ inf | SWhile _ _ inf | SBlock _ inf | SError inf => inf
  end.

Definition vardecl_info (v : vardecl) : info := match v with VValid _ _ _ inf | VError inf => inf end.
Definition paramdecl_info (p : paramdecl) : info := match p with PValid _ _ _ _ inf | PError inf => inf end.
Definition gdecl_info (g : gdecl) : info :=
  match g with GType d => td_info d | GProc d => pd_info d | GError inf => inf end.
