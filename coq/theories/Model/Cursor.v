(* lsp4spl/src/features.rs - what every position-based request handler starts with:
   `doc_cursor` (position -> byte index, enclosing global declaration -> its table entry = the
   "context") and `DocumentCursor::ident` (the identifier token under the cursor), plus the
   token-range -> text-range conversions of spl_frontend (AstInfo::to_text_range,
   Identifier::to_text_range).  Every slice / index that can panic is an explicit RFail site. *)
From Spl Require Export Model.Errors Model.Doc.

Local Open Scope nat_scope.

(* AstInfo::to_text_range(tokens): `tokens` is the slice the range is relative to *)
Definition info_text_range (toks : list token) (i : info) : res (N * N) :=
  do r <- byte_range toks {| e_s := i_s i; e_e := i_e i; e_m := EParse MissingTrailingSemic |};
  ROk (fst (fst r), snd (fst r)).

(* Identifier::to_text_range: the identifier is the last token of its range (which may start with
   comments) *)
Definition ident_text_range (toks : list token) (i : ident) : res (N * N) :=
  let inf := id_info i in
  if Nat.ltb (i_s inf) (i_e inf) then
    match nth_error toks (i_e inf - 1) with
    | Some t => ROk (ts t, te t)
    | None => RFail SiteTokenIndex
    end
  else info_text_range toks inf.

(* &tokens[n..] *)
Definition slice_from (toks : list token) (n : nat) : res (list token) :=
  if Nat.ltb (length toks) n then RFail SiteTokenSlice else ROk (skipn n toks).
(* &tokens[a..b] *)
Definition slice (toks : list token) (r : range) : res (list token) :=
  if Nat.ltb (snd r) (fst r) then RFail SiteTokenSlice
  else if Nat.ltb (length toks) (snd r) then RFail SiteTokenSlice
  else ROk (firstn (snd r - fst r) (skipn (fst r) toks)).

Definition in_range (r : N * N) (i : N) : bool := (fst r <=? i)%N && (i <? snd r)%N.

Definition gdecl_name (g : gdecl) : option ident :=
  match g with GType d => td_name d | GProc d => pd_name d | GError _ => None end.

(* .find(|gd| gd.to_text_range(&doc.tokens[gd.offset..]).contains(&index)) *)
Fixpoint find_decl (toks : list token) (index : N) (l : list (gdecl * nat)) : res (option (gdecl * nat)) :=
  match l with
  | [] => ROk None
  | (g, off) :: r =>
      do sl <- slice_from toks off;
      do tr <- info_text_range sl (gdecl_info g);
      if in_range tr index then ROk (Some (g, off)) else find_decl toks index r
  end.

Record cursor := { c_doc : doc; c_index : N; c_decl : option (gdecl * nat); c_ctx : option gentry }.

Definition doc_cursor (d : doc) (line col : N) : res cursor :=
  let index := get_insertion_index line col (d_text d) in
  do g <- find_decl (d_toks d) index (pg_decls (d_ast d));
  let ctx :=
    match g with
    | Some (gd, _) => match gdecl_name gd with Some n => lookup (d_table d) (id_val n) | None => None end
    | None => None
    end in
  ROk {| c_doc := d; c_index := index; c_decl := g; c_ctx := ctx |}.

(* DocumentCursor::ident: the FIRST token whose byte range contains the index, if it is an identifier *)
Definition token_at (toks : list token) (index : N) : option token :=
  find (fun t => in_range (ts t, te t) index) toks.

Definition cursor_ident (c : cursor) : option (text * (N * N)) :=
  match token_at (d_toks (c_doc c)) (c_index c) with
  | Some t => match tk t with Ident s => Some (s, (ts t, te t)) | _ => None end
  | None => None
  end.

(* document.rs as_pos_range *)
Definition pos_range (r : N * N) (t : text) : (N * N) * (N * N) :=
  (as_position (fst r) t, as_position (snd r) t).

(* features.rs `is_global_position`: the identifier selected by `is_cursor` (the FIRST such token) is bound
   globally whatever the enclosing procedure declares when the previous non-comment token is `proc`, `type`,
   `:` or `of` (name of a global declaration / part of a type expression). *)
Fixpoint gp_scan (prev : option kind) (l : list token) (is_cursor : token -> bool) : bool :=
  match l with
  | [] => false
  | t :: r =>
      if is_cursor t then
        match prev with
        | Some KProc | Some KType | Some Colon | Some KOf => true
        | _ => false
        end
      else gp_scan (match tk t with Comment _ => prev | k => Some k end) r is_cursor
  end.

Definition is_global_position (c : cursor) : bool :=
  gp_scan None (d_toks (c_doc c)) (fun t => in_range (ts t, te t) (c_index c)).

(* features.rs `lookup_table_for(..).lookup(name)` *)
Definition lookup_for (g : gtable) (l : ltable) (global_position : bool) (name : text) : option entry :=
  lt_lookup (if global_position then None else Some l) (Some g) name.
