(* spl_frontend::table::build (table/build.rs) - construction of the global table.  The Rust code
   mutates the tree (`append_error` on the AstInfo of names); here the decorated tree is returned
   next to the table.  Every error is appended to the same AstInfo, with the same range, in the
   same order as in the Rust code.  Panic sites: `panic!("'main' must be a procedure")` and the
   assert of `Identifier::to_error`. *)
From Spl Require Export Model.Table.
Local Open Scope nat_scope.

(* get_documentation: docs.concat(), None when empty *)
Definition get_documentation (docs : list text) : option text :=
  match concat docs with
  | [] => None
  | d => Some d
  end.

(* creator.map(|creator| DataType::Array { size, base_type, creator }) *)
Definition array_type (creator : option text) (size : option N) (base : option dtype) : option dtype :=
  match creator with
  | Some c => Some (DArray size base c)
  | None => None
  end.

(* anonymous_creator: format!("{}.{}", proc_name, name) *)
Definition anonymous_creator (proc_name : text) (name : ident) : text :=
  (proc_name ++ [46] ++ id_val name)%N.

(* get_data_type on the type expression behind the Reference.  Returns the decorated type
   expression and the data type. *)
Fixpoint get_data_type_te (l : option ltable) (g : option gtable) (caller : option text) (t : typeexpr)
  : res (typeexpr * option dtype) :=
  match t with
  | TArray size base inf =>
      let sz := match size with Some il => il_val il | None => None end in
      match base with
      | Some (b, off) =>
          do (b', bt) <- get_data_type_te l g caller b;
          ROk (TArray size (Some (b', off)) inf, array_type caller sz bt)
      | None => ROk (t, array_type caller sz None)
      end
  | TNamed name =>
      match lt_lookup l g (id_val name) with
      | Some (EntType te) => ROk (t, ten_ty te)
      | Some _ =>
          do name' <- ident_flag name (fun n => EBuild (NotAType n));
          ROk (TNamed name', None)
      | None =>
          do name' <- ident_flag name (fun n => EBuild (UndefinedType n));
          ROk (TNamed name', None)
      end
  end.

(* get_data_type(type_expr: Option<&mut Reference<TypeExpression>>, ..) *)
Definition get_data_type (l : option ltable) (g : option gtable) (caller : option text)
           (t : option (typeexpr * nat)) : res (option (typeexpr * nat) * option dtype) :=
  match t with
  | Some (te, off) =>
      do (te', dt) <- get_data_type_te l g caller te;
      ROk (Some (te', off), dt)
  | None => ROk (None, None)
  end.

(* impl TableBuilder for TypeDeclaration *)
Definition build_typedecl (d : typedecl) (table : gtable) (offset : nat) : res (typedecl * gtable) :=
  let rng := shift_range (info_range (td_info d)) offset in
  match td_name d with
  | None => ROk (d, table)
  | Some name =>
      if text_eqb (id_val name) s_main then
        do name' <- ident_flag name (fun _ => EBuild MainIsNotAProcedure);
        ROk ({| td_doc := td_doc d; td_name := Some name'; td_ty := td_ty d; td_info := td_info d |}, table)
      else
        let documentation := get_documentation (td_doc d) in
        do (ty', dt) <- get_data_type None (Some table) (Some (id_val name)) (td_ty d);
        let e := GTypeE {| ten_name := name; ten_ty := dt; ten_range := rng; ten_doc := documentation |} in
        let (table', ok) := enter table (id_val name) e in
        do name' <- (if ok then ROk name else ident_flag name (fun n => EBuild (RedeclarationAsType n)));
        ROk ({| td_doc := td_doc d; td_name := Some name'; td_ty := ty'; td_info := td_info d |}, table')
  end.

(* build_parameter: (decorated parameter, local table, Option<VariableEntry>) *)
Definition build_parameter (p : paramdecl * nat) (proc_name : text) (g : gtable) (local : ltable)
  : res ((paramdecl * nat) * ltable * option ventry) :=
  let (pd, off) := p in
  let rng := shift_range (info_range (paramdecl_info pd)) off in
  match pd with
  | PValid doc is_ref (Some name) ty inf =>
      let documentation := get_documentation doc in
      do (ty', dt) <- get_data_type None (Some g) (Some (anonymous_creator proc_name name)) ty;
      let pe := {| ve_name := name; ve_ref := is_ref; ve_ty := dt; ve_range := rng; ve_doc := documentation |} in
      do name1 <- (match dt with
                   | Some d => if negb (is_primitive d) && negb is_ref
                               then ident_flag name (fun n => EBuild (MustBeAReferenceParameter n))
                               else ROk name
                   | None => ROk name
                   end);
      let (local', ok) := enter local (id_val name) (LParam pe) in
      do name2 <- (if ok then ROk name1 else ident_flag name1 (fun n => EBuild (RedeclarationAsParameter n)));
      ROk ((PValid doc is_ref (Some name2) ty' inf, off), local', Some pe)
  | _ => ROk (p, local, None)
  end.

Fixpoint build_parameters (ps : list (paramdecl * nat)) (proc_name : text) (g : gtable) (local : ltable)
  : res (list (paramdecl * nat) * ltable * list ventry) :=
  match ps with
  | [] => ROk ([], local, [])
  | p :: r =>
      do (p', local1, oe) <- build_parameter p proc_name g local;
      do (r', local2, es) <- build_parameters r proc_name g local1;
      ROk (p' :: r', local2, match oe with Some e => e :: es | None => es end)
  end.

(* build_variable *)
Definition build_variable (v : vardecl * nat) (proc_name : text) (g : gtable) (local : ltable)
  : res ((vardecl * nat) * ltable) :=
  let (vd, off) := v in
  let rng := shift_range (info_range (vardecl_info vd)) off in
  match vd with
  | VValid doc (Some name) ty inf =>
      let documentation := get_documentation doc in
      do (ty', dt) <- get_data_type (Some local) (Some g) (Some (anonymous_creator proc_name name)) ty;
      let e := {| ve_name := name; ve_ref := false; ve_ty := dt; ve_range := rng; ve_doc := documentation |} in
      let (local', ok) := enter local (id_val name) (LVar e) in
      do name' <- (if ok then ROk name else ident_flag name (fun n => EBuild (RedeclarationAsVariable n)));
      ROk ((VValid doc (Some name') ty' inf, off), local')
  | _ => ROk (v, local)
  end.

Fixpoint build_variables (vs : list (vardecl * nat)) (proc_name : text) (g : gtable) (local : ltable)
  : res (list (vardecl * nat) * ltable) :=
  match vs with
  | [] => ROk ([], local)
  | v :: r =>
      do (v', local1) <- build_variable v proc_name g local;
      do (r', local2) <- build_variables r proc_name g local1;
      ROk (v' :: r', local2)
  end.

(* impl TableBuilder for ProcedureDeclaration *)
Definition build_procdecl (d : procdecl) (table : gtable) (offset : nat) : res (procdecl * gtable) :=
  let rng := shift_range (info_range (pd_info d)) offset in
  match pd_name d with
  | None => ROk (d, table)
  | Some name =>
      let documentation := get_documentation (pd_doc d) in
      do (params', local1, parameters) <- build_parameters (pd_params d) (id_val name) table [];
      do (vars', local2) <- build_variables (pd_vars d) (id_val name) table local1;
      let e := GProcE {| pe_name := name; pe_local := local2; pe_params := parameters;
                         pe_range := rng; pe_doc := documentation |} in
      let (table', ok) := enter table (id_val name) e in
      do name' <- (if ok then ROk name else ident_flag name (fun n => EBuild (RedeclarationAsProcedure n)));
      ROk ({| pd_doc := pd_doc d; pd_name := Some name'; pd_params := params'; pd_vars := vars';
              pd_stmts := pd_stmts d; pd_info := pd_info d |}, table')
  end.

(* impl TableBuilder for GlobalDeclaration *)
Definition build_gdecl (d : gdecl) (table : gtable) (offset : nat) : res (gdecl * gtable) :=
  match d with
  | GType t => do (t', table') <- build_typedecl t table offset; ROk (GType t', table')
  | GProc p => do (p', table') <- build_procdecl p table offset; ROk (GProc p', table')
  | GError _ => ROk (d, table)
  end.

Fixpoint build_gdecls (ds : list (gdecl * nat)) (table : gtable) (offset : nat)
  : res (list (gdecl * nat) * gtable) :=
  match ds with
  | [] => ROk ([], table)
  | (d, off) :: r =>
      do (d', table1) <- build_gdecl d table (offset + off);
      do (r', table2) <- build_gdecls r table1 offset;
      ROk ((d', off) :: r', table2)
  end.

(* impl TableBuilder for Program (offset = 0) followed by the checks on `main` *)
Definition build_program (p : program) (table : gtable) (offset : nat) : res (program * gtable) :=
  do (ds', table') <- build_gdecls (pg_decls p) table offset;
  match lookup table' s_main with
  | Some (GProcE main) =>
      match pe_params main with
      | [] => ROk ({| pg_decls := ds'; pg_info := pg_info p |}, table')
      | _ :: _ =>
          do e <- to_error (pe_name main) (fun _ => EBuild MainMustNotHaveParameters);
          let r := shift_range (e_s e, e_e e) (fst (pe_range main)) in
          ROk ({| pg_decls := ds';
                  pg_info := info_append (pg_info p) (mkerr_t r (EBuild MainMustNotHaveParameters)) |}, table')
      end
  | Some (GTypeE _) => RFail SiteMainNotProc
  | None =>
      ROk ({| pg_decls := ds';
              pg_info := info_append (pg_info p) (mkerr_t (0, 0) (EBuild MainIsMissing)) |}, table')
  end.

Definition build_res (p : program) : res (program * gtable) := build_program p initialized 0.

(* table::build *)
Definition build (p : program) : outcome (program * gtable) := to_outcome (build_res p).
