(* lsp4spl/src/features/references.rs - textDocument/references, /rename, /prepareRename.

   `find_referenced_identifiers` chooses one of three hand-written tree walks by the kind of the
   entry the cursor's name resolves to (`resolve`: in a procedure context with
   `features::lookup_table_for` = Cursor.lookup_for - the local table first unless the identifier
   stands in a global position, i.e. behind `proc`, `type`, `:` or `of`; in a type context in the
   global table); rename and prepareRename answer null when that entry is predefined
   (`is_predefined`; /repo b909979 - before, the spelling `int` was tested).  The walks collect
   `Identifier` nodes BY NAME and shift their token ranges by every `Reference` offset on the way
   up.  The identifiers are then turned into text ranges with the whole token vector
   (`Identifier::to_text_range(&doc.tokens)`, a possible index panic = RFail).

   The answers are returned as data: references = list of LSP ranges (in the order of the Rust
   Vec), rename = list of the ranges of the TextEdits (each edit's new text is the request's
   `newName`, which does not influence anything else), prepareRename = one range. *)
From Spl Require Export Model.Goto.

Local Open Scope nat_scope.

(* impl Shiftable for Identifier / Vec<Identifier> *)
Definition shift_info (i : info) (off : nat) : info :=
  {| i_s := i_s i + off; i_e := i_e i + off; i_errs := i_errs i |}.
Definition shift_ident (i : ident) (off : nat) : ident :=
  {| id_val := id_val i; id_info := shift_info (id_info i) off |}.
Definition shift_idents (l : list ident) (off : nat) : list ident :=
  map (fun i => shift_ident i off) l.

(* `ident.value == name`.  The tree walks below are written over an arbitrary test `f` on identifiers; the
   handlers instantiate it with `named name` (Proofs/RefsProofs.v uses `fun _ => true` to bound them). *)
Definition named (name : text) (i : ident) : bool := text_eqb (id_val i) name.

(* ---- find_procs ---- *)
Fixpoint procs_in_stmt (f : ident -> bool) (s : stmt) : list ident :=
  let opt (r : option (stmt * nat)) : list ident :=
    match r with Some (x, off) => shift_idents (procs_in_stmt f x) off | None => [] end in
  match s with
  | SBlock body _ =>
      (fix go (l : list (stmt * nat)) : list ident :=
         match l with
         | [] => []
         | (x, off) :: r => shift_idents (procs_in_stmt f x) off ++ go r
         end) body
  | SCall n _ _ => if f n then [n] else []
  | SIf _ t e _ => opt t ++ opt e
  | SWhile _ b _ => opt b
  | _ => []
  end.

Definition procs_in_stmts (f : ident -> bool) (l : list (stmt * nat)) : list ident :=
  flat_map (fun x => shift_idents (procs_in_stmt f (fst x)) (snd x)) l.

Definition find_procs_f (f : ident -> bool) (p : program) : list ident :=
  flat_map (fun g =>
    match fst g with
    | GProc pd =>
        shift_idents
          ((match pd_name pd with
            | Some i => if f i then [i] else []
            | None => []
            end) ++ procs_in_stmts f (pd_stmts pd))
          (snd g)
    | _ => []
    end) (pg_decls p).
Definition find_procs (name : text) (p : program) : list ident := find_procs_f (named name) p.

(* ---- find_types ---- *)
(* get_ident_in_type_expr(&Reference<TypeExpression>) *)
Fixpoint ident_in_texpr (t : typeexpr) (off : nat) : option ident :=
  match (match t with
         | TNamed i => Some i
         | TArray _ (Some (b, boff)) _ => ident_in_texpr b boff
         | TArray _ None _ => None
         end) with
  | Some i => Some (shift_ident i off)
  | None => None
  end.

Definition opt_list {A} (o : option A) : list A := match o with Some a => [a] | None => [] end.

Definition types_in_params (f : ident -> bool) (ps : list (paramdecl * nat)) : list ident :=
  flat_map (fun x =>
    match fst x with
    | PValid _ _ _ (Some (te, toff)) _ =>
        filter f (opt_list (option_map (fun i => shift_ident i (snd x)) (ident_in_texpr te toff)))
    | _ => []
    end) ps.

Definition types_in_vars (f : ident -> bool) (vs : list (vardecl * nat)) : list ident :=
  flat_map (fun x =>
    match fst x with
    | VValid _ _ (Some (te, toff)) _ =>
        filter f (opt_list (option_map (fun i => shift_ident i (snd x)) (ident_in_texpr te toff)))
    | _ => []
    end) vs.

Definition find_types_f (f : ident -> bool) (p : program) : list ident :=
  flat_map (fun g =>
    shift_idents
      (match fst g with
       | GType td =>
           (match td_name td with
            | Some i => if f i then [i] else []
            | None => []
            end)
           ++ (match td_ty td with
               | Some (te, toff) => filter f (opt_list (ident_in_texpr te toff))
               | None => []
               end)
       | GProc pd => types_in_params f (pd_params pd) ++ types_in_vars f (pd_vars pd)
       | GError _ => []
       end)
      (snd g)) (pg_decls p).
Definition find_types (name : text) (p : program) : list ident := find_types_f (named name) p.

(* ---- find_vars ---- *)
Fixpoint vars_in_variable (f : ident -> bool) (v : variable) : list ident :=
  match v with
  | NamedVar i => if f i then [i] else []
  | ArrAccess a idx _ =>
      vars_in_variable f a
      ++ match idx with
         | Some (e, off) => shift_idents (vars_in_expr f e) off
         | None => []
         end
  end
with vars_in_expr (f : ident -> bool) (e : expr) : list ident :=
  match e with
  | EVar v => vars_in_variable f v
  | EBin _ l r _ => vars_in_expr f l ++ vars_in_expr f r
  | EBrack a _ => vars_in_expr f a
  | EUn _ a _ => vars_in_expr f a
  | EInt _ | EErr _ => []
  end.

Definition vars_in_oexpr (f : ident -> bool) (o : option (expr * nat)) : list ident :=
  match o with Some (e, off) => shift_idents (vars_in_expr f e) off | None => [] end.

Fixpoint vars_in_stmt (f : ident -> bool) (s : stmt) : list ident :=
  let opt (r : option (stmt * nat)) : list ident :=
    match r with Some (x, off) => shift_idents (vars_in_stmt f x) off | None => [] end in
  match s with
  | SAssign v e _ => vars_in_variable f v ++ vars_in_oexpr f e
  | SBlock body _ =>
      (fix go (l : list (stmt * nat)) : list ident :=
         match l with
         | [] => []
         | (x, off) :: r => shift_idents (vars_in_stmt f x) off ++ go r
         end) body
  | SCall _ args _ => flat_map (fun a => shift_idents (vars_in_expr f (fst a)) (snd a)) args
  | SIf c t e _ => vars_in_oexpr f c ++ opt t ++ opt e
  | SWhile c b _ => vars_in_oexpr f c ++ opt b
  | _ => []
  end.

Definition vars_in_stmts (f : ident -> bool) (l : list (stmt * nat)) : list ident :=
  flat_map (fun x => shift_idents (vars_in_stmt f (fst x)) (snd x)) l.

Definition var_names_in_params (f : ident -> bool) (ps : list (paramdecl * nat)) : list ident :=
  flat_map (fun x =>
    match fst x with
    | PValid _ _ (Some i) _ _ => if f i then [shift_ident i (snd x)] else []
    | _ => []
    end) ps.

Definition var_names_in_vars (f : ident -> bool) (vs : list (vardecl * nat)) : list ident :=
  flat_map (fun x =>
    match fst x with
    | VValid _ (Some i) _ _ => if f i then [shift_ident i (snd x)] else []
    | _ => []
    end) vs.

(* the FIRST procedure declaration named proc_name *)
Fixpoint find_proc_decl (proc_name : text) (l : list (gdecl * nat)) : option (procdecl * nat) :=
  match l with
  | [] => None
  | (GProc pd, off) :: r =>
      match pd_name pd with
      | Some i => if named proc_name i then Some (pd, off) else find_proc_decl proc_name r
      | None => find_proc_decl proc_name r
      end
  | _ :: r => find_proc_decl proc_name r
  end.

(* the identifiers of one procedure declaration that find_vars looks at *)
Definition vars_of_proc (f : ident -> bool) (pd : procdecl) (off : nat) : list ident :=
  shift_idents
    (var_names_in_params f (pd_params pd)
     ++ var_names_in_vars f (pd_vars pd)
     ++ vars_in_stmts f (pd_stmts pd))
    off.

Definition find_vars (name proc_name : text) (p : program) : list ident :=
  match find_proc_decl proc_name (pg_decls p) with
  | Some (pd, off) => vars_of_proc (named name) pd off
  | None => []
  end.

(* ---- resolve / is_predefined / find_referenced_identifiers ---- *)
(* references::resolve: "looks the identifier up as the compiler binds it: globally in a global
   position, in the enclosing procedure first otherwise" *)
Definition resolve (name : text) (ctx : gentry) (g : gtable) (gp : bool) : option entry :=
  match ctx with
  | GProcE pe => lookup_for g (pe_local pe) gp name
  | GTypeE _ => option_map entry_of_g (lookup g name)
  end.

(* resolve(..).map_or(false, |entry| entry.is_default()) *)
Definition is_predefined (name : text) (ctx : gentry) (g : gtable) (gp : bool) : bool :=
  match resolve name ctx g gp with Some e => is_default e | None => false end.

Definition find_referenced_identifiers (name : text) (ctx : gentry) (p : program) (g : gtable) (gp : bool) : list ident :=
  match ctx with
  | GProcE pe =>
      match resolve name ctx g gp with
      | Some (EntType _) => find_types name p
      | Some (EntProc _) => find_procs name p
      | Some (EntVar _) | Some (EntParam _) => find_vars name (id_val (pe_name pe)) p
      | None => []
      end
  | GTypeE _ => find_types name p
  end.

(* identifiers -> Ident { value, range: identifier.to_text_range(&doc.tokens) } *)
Fixpoint text_ranges (toks : list token) (l : list ident) : res (list (text * (N * N))) :=
  match l with
  | [] => ROk []
  | i :: r =>
      do x <- ident_text_range toks i;
      do r' <- text_ranges toks r;
      ROk ((id_val i, x) :: r')
  end.

Definition range_eqbN (a b : N * N) : bool := (fst a =? fst b)%N && (snd a =? snd b)%N.
(* derive(PartialEq) for features::Ident *)
Definition ident_eqb (a b : text * (N * N)) : bool :=
  text_eqb (fst a) (fst b) && range_eqbN (snd a) (snd b).

(* the cursor frame with the identifier's own byte range and `cursor.is_global_position()` passed on *)
Definition with_cursor_r {A} (d : doc) (line col : N)
           (k : text * (N * N) -> gentry -> bool -> res (option A)) : res (option A) :=
  do c <- doc_cursor d line col;
  match cursor_ident c with
  | Some id =>
      match c_ctx c with
      | Some ctx => k id ctx (is_global_position c)
      | None => ROk None
      end
  | None => ROk None
  end.

(* references::find *)
Definition references (d : doc) (line col : N) : res (option (list loc)) :=
  with_cursor_r d line col (fun id ctx gp =>
    do rs <- text_ranges (d_toks d) (find_referenced_identifiers (fst id) ctx (d_ast d) (d_table d) gp);
    ROk (Some (map (fun i => pos_range (snd i) (d_text d)) (filter (fun i => negb (ident_eqb i id)) rs)))).

(* references::rename: the ranges of the text edits; null for predefined names *)
Definition rename (d : doc) (line col : N) : res (option (list loc)) :=
  with_cursor_r d line col (fun id ctx gp =>
    if is_predefined (fst id) ctx (d_table d) gp then ROk None
    else
      do rs <- text_ranges (d_toks d) (find_referenced_identifiers (fst id) ctx (d_ast d) (d_table d) gp);
      ROk (Some (map (fun i => pos_range (snd i) (d_text d)) rs))).

(* references::prepare_rename: the predefined test only if there is a context; without a context
   (cursor outside every named declaration with a table entry) it answers with the identifier's range *)
Definition prepare_rename (d : doc) (line col : N) : res (option loc) :=
  do c <- doc_cursor d line col;
  match cursor_ident c with
  | Some (name, r) =>
      if (match c_ctx c with
          | Some ctx => is_predefined name ctx (d_table d) (is_global_position c)
          | None => false
          end)
      then ROk None
      else ROk (Some (pos_range r (d_text d)))
  | None => ROk None
  end.

(* ------------------------------------------------------------------------------------------------
   NOT part of the transcription: the well-formedness of a document under which the handlers of
   goto.rs and references.rs cannot panic (Proofs/GotoProofs.v, Proofs/RefsProofs.v), as a
   decidable predicate.  The judge evaluates it on every document it analyses (Judge/RunNav.v), so
   "AnalyzedSource::new only produces well-formed documents" is validated on every generated
   document; it is not proved (it needs the range invariants of the parser). *)

(* a range that can be turned into a text range inside a slice of n tokens:
   non-empty -> it ends inside the slice; empty -> the token at its end exists *)
Definition info_ok (n : nat) (i : info) : bool :=
  if Nat.ltb (i_s i) (i_e i) then Nat.leb (i_e i) n else Nat.ltb (i_e i) n.

(* a token range that can be sliced out of n tokens *)
Definition range_ok (n : nat) (r : range) : bool := Nat.leb (fst r) (snd r) && Nat.leb (snd r) n.
Definition range_len (r : range) : nat := snd r - fst r.

Definition ventry_ok (n : nat) (v : ventry) : bool :=
  range_ok n (ve_range v) && info_ok (range_len (ve_range v)) (id_info (ve_name v)).

Definition lentry_var (l : lentry) : ventry := match l with LVar v | LParam v => v end.

Definition tentry_ok (n : nat) (t : tentry) : bool :=
  range_ok n (ten_range t) && info_ok (range_len (ten_range t)) (id_info (ten_name t)).

Definition pentry_ok (n : nat) (p : pentry) : bool :=
  range_ok n (pe_range p) && info_ok (range_len (pe_range p)) (id_info (pe_name p))
  && forallb (fun kv => ventry_ok (range_len (pe_range p)) (lentry_var (snd kv))) (pe_local p).

Definition is_array (o : option dtype) : bool :=
  match o with Some (DArray _ _ _) => true | _ => false end.

(* a global entry: stored under its own name; the predefined ones (never sliced: every use is
   guarded by `is_default` / the `int` test / the data-type comparison) or well-formed ranges *)
Definition gentry_ok (n : nat) (kv : text * gentry) : bool :=
  match snd kv with
  | GTypeE t =>
      text_eqb (fst kv) (id_val (ten_name t))
      && ((text_eqb (fst kv) s_int && negb (is_array (ten_ty t))) || tentry_ok n t)
  | GProcE p =>
      text_eqb (fst kv) (id_val (pe_name p))
      && ((is_default (EntProc p) && match pe_local p with [] => true | _ => false end) || pentry_ok n p)
  end.

Definition decl_ok (n : nat) (g : gdecl * nat) : bool :=
  Nat.leb (snd g) n && info_ok (n - snd g) (gdecl_info (fst g)).

(* every identifier node the three walks can reach, with its absolute token range *)
Definition all_vars (p : program) : list ident :=
  flat_map (fun g => match fst g with GProc pd => vars_of_proc (fun _ => true) pd (snd g) | _ => [] end)
           (pg_decls p).
Definition doc_idents (p : program) : list ident :=
  find_procs_f (fun _ => true) p ++ find_types_f (fun _ => true) p ++ all_vars p.

Definition nav_wf_b (d : doc) : bool :=
  let n := length (d_toks d) in
  forallb (decl_ok n) (pg_decls (d_ast d))
  && forallb (gentry_ok n) (d_table d)
  && forallb (fun i => info_ok n (id_info i)) (doc_idents (d_ast d)).
