(* lsp4spl/src/features/goto.rs - textDocument/declaration, /definition, /typeDefinition and
   /implementation.  Each handler is transcribed branch by branch on top of Model/Cursor.v
   (`doc_cursor`, `cursor_ident`); the answer is the LSP range of the returned Location
   (`option`, the uri is the request's own), and every slice / index of the Rust code that can
   panic is an RFail site of `slice` / `ident_text_range`.

   How names are resolved (the model transcribes the code, /repo b909979):
   - through the CONTEXT entry, i.e. the table entry found by the NAME of the enclosing global
     declaration (`doc_cursor`);
   - inside a procedure with `features::lookup_table_for(global, local, global_position).lookup`
     (Cursor.lookup_for): the local table first, unless the identifier stands in a GLOBAL POSITION
     (`DocumentCursor::is_global_position`: the previous non-comment token is `proc`, `type`, `:`
     or `of`, i.e. the name of a global declaration or a part of a type expression) - then the
     local table is left out;
   - the `int` test of goto.rs is a test on the spelling of the identifier under the cursor. *)
From Spl Require Export Model.Cursor.

Local Open Scope nat_scope.

(* the LSP range of an answer: ((start line, start column), (end line, end column)) *)
Definition loc := ((N * N) * (N * N))%type.

Definition entry_name (e : entry) : ident :=
  match e with
  | EntType t => ten_name t
  | EntProc p => pe_name p
  | EntVar v | EntParam v => ve_name v
  end.

(* impl ToTextRange for Entry / GlobalEntry: the name's text range, relative to `tokens` *)
Definition entry_text_range (toks : list token) (e : entry) : res (N * N) :=
  ident_text_range toks (entry_name e).

Definition gentry_range (g : gentry) : range :=
  match g with GTypeE t => ten_range t | GProcE p => pe_range p end.

(* Some(Location { uri, range: as_pos_range(&entry.to_text_range(tokens), &doc.text) }) *)
Definition answer (d : doc) (toks : list token) (e : entry) : res (option loc) :=
  do r <- entry_text_range toks e;
  ROk (Some (pos_range r (d_text d))).

(* the token slice a local-or-global entry's name range is relative to (goto::declaration) *)
Definition entry_tokens (d : doc) (p : pentry) (e : entry) : res (list token) :=
  match e with
  | EntProc q => slice (d_toks d) (pe_range q)
  | EntType t => slice (d_toks d) (ten_range t)
  | EntVar v | EntParam v =>
      (* &doc.tokens[p.to_range()][var.to_range()] *)
      do s1 <- slice (d_toks d) (pe_range p);
      slice s1 (ve_range v)
  end.

(* goto::declaration on the cursor's identifier, context and `cursor.is_global_position()` *)
Definition declaration_at (d : doc) (name : text) (ctx : gentry) (gp : bool) : res (option loc) :=
  match ctx with
  | GTypeE _ =>
      if text_eqb name s_int then ROk None
      else
        match lookup (d_table d) name with
        | Some ge =>
            if is_default (entry_of_g ge) then ROk None
            else
              do toks <- slice (d_toks d) (gentry_range ge);
              answer d toks (entry_of_g ge)
        | None => ROk None
        end
  | GProcE p =>
      match lookup_for (d_table d) (pe_local p) gp name with
      | Some e =>
          if is_default e then ROk None
          else
            do toks <- entry_tokens d p e;
            answer d toks e
      | None => ROk None
      end
  end.

(* Option<DataType> equality (derive(PartialEq)) *)
Definition opt_dt_eqb (a b : option dtype) : bool :=
  match a, b with
  | None, None => true
  | Some x, Some y => dt_eqb x y
  | _, _ => false
  end.

Definition type_definition_at (d : doc) (name : text) (ctx : gentry) (gp : bool) : res (option loc) :=
  match ctx with
  | GTypeE _ =>
      if text_eqb name s_int then ROk None
      else
        match lookup (d_table d) name with
        | Some (GTypeE t) =>
            do toks <- slice (d_toks d) (ten_range t);
            answer d toks (EntType t)
        | Some (GProcE _) => ROk None
        | None => ROk None
        end
  | GProcE p =>
      match lookup_for (d_table d) (pe_local p) gp name with
      | Some (EntType t) =>
          if text_eqb name s_int then ROk None
          else
            do toks <- slice (d_toks d) (ten_range t);
            answer d toks (EntType t)
      | Some (EntProc _) => ROk None
      | Some (EntVar v) | Some (EntParam v) =>
          match ve_ty v with
          | Some (DArray _ _ creator) =>
              match lookup (d_table d) creator with
              | Some (GTypeE t) =>
                  if opt_dt_eqb (ten_ty t) (ve_ty v) then
                    do toks <- slice (d_toks d) (ten_range t);
                    answer d toks (EntType t)
                  else ROk None
              | _ => ROk None
              end
          | _ => ROk None
          end
      | None => ROk None
      end
  end.

Definition implementation_at (d : doc) (name : text) (ctx : gentry) (gp : bool) : res (option loc) :=
  match ctx with
  | GProcE p =>
      match lookup_for (d_table d) (pe_local p) gp name with
      | Some (EntProc target) =>
          if is_default (EntProc target) then ROk None
          else
            do toks <- slice (d_toks d) (pe_range target);
            answer d toks (EntProc target)
      | _ => ROk None
      end
  | GTypeE _ => ROk None
  end.

(* the common frame of the four handlers: doc_cursor, cursor.ident(), cursor.is_global_position()
   (computed before the cursor is destructured; it cannot panic), context *)
Definition with_cursor {A} (d : doc) (line col : N) (k : text -> gentry -> bool -> res (option A)) : res (option A) :=
  do c <- doc_cursor d line col;
  match cursor_ident c with
  | Some (name, _) =>
      match c_ctx c with
      | Some ctx => k name ctx (is_global_position c)
      | None => ROk None
      end
  | None => ROk None
  end.

Definition goto_declaration (d : doc) (line col : N) : res (option loc) :=
  with_cursor d line col (declaration_at d).
(* "in SPL, there is no conceptual difference between declaration and definition" *)
Definition goto_definition (d : doc) (line col : N) : res (option loc) :=
  goto_declaration d line col.
Definition goto_type_definition (d : doc) (line col : N) : res (option loc) :=
  with_cursor d line col (type_definition_at d).
Definition goto_implementation (d : doc) (line col : N) : res (option loc) :=
  with_cursor d line col (implementation_at d).
