(* spl_frontend::lexer::update — incremental lexing.
   A text change is (cs, ce, ins): replace bytes [cs, ce) of the old text by [ins].
   Every panic site of the Rust function is an explicit [UPanic]. *)
From Spl Require Export Model.Lexer.

Inductive upanic :=
| NoEofToken          (* "Must contain EOF token" *)
| NegativeShift       (* shift_token: try_into::<usize> of a negative value *)
| BadSlice            (* &new_text[reanalysis_start..] out of range / not a char boundary *)
| WindowUnderflow.    (* token_length - unaffected_tail.len() *)

Inductive uresult :=
| UDone (toks : list token) (del_s del_e : nat) (ins_len : nat)
| UPanic (p : upanic)
| UFuel.

(* Token::is_affected_by *)
Definition is_affected_by (t : token) (index : N) : bool :=
  index <? te t + look_ahead (tk t).

(* &text[n..] on a &str: byte offset must be a char boundary *)
Fixpoint drop_bytes (n : N) (s : text) (fuel : nat) : option text :=
  if n =? 0 then Some s else
  match fuel with
  | O => None
  | S f =>
      match s with
      | [] => None
      | c :: r => if n <? ulen c then None else drop_bytes (n - ulen c) r f
      end
  end.

Definition str_from (n : N) (s : text) : option text := drop_bytes n s (length s).

(* shift_token(token, offset) with offset = ins - del as a signed number *)
Definition shift_signed (ins del : N) (x : N) : option N :=
  if del <=? x + ins then Some (x + ins - del) else None.

Definition shift_err_signed (ins del : N) (e : lerr) : option lerr :=
  match shift_signed ins del (le_s e), shift_signed ins del (le_e e) with
  | Some a, Some b => Some {| le_s := a; le_e := b; le_m := le_m e |}
  | _, _ => None
  end.

Fixpoint map_opt {A B} (f : A -> option B) (l : list A) : option (list B) :=
  match l with
  | [] => Some []
  | x :: r => match f x, map_opt f r with Some y, Some r' => Some (y :: r') | _, _ => None end
  end.

Definition shift_token_signed (ins del : N) (t : token) : option token :=
  match shift_signed ins del (ts t), shift_signed ins del (te t), map_opt (shift_err_signed ins del) (terr t) with
  | Some a, Some b, Some es => Some {| tk := tk t; ts := a; te := b; terr := es |}
  | _, _, _ => None
  end.

(* iterator(input, preceded(multispace0, Token::lex)).map(shift).take_while(!reusable.contains) *)
Fixpoint relex (fuel : nat) (off : N) (s : text) (reusable : list token) : option (list token) :=
  match fuel with
  | O => None
  | S f =>
      let ws := fst (span is_ws s) in
      let s1 := snd (span is_ws s) in
      let off1 := off + blen ws in
      match lex_raw s1 with
      | None => Some []
      | Some (k, errs, lx, rest) =>
          let t := mk_token off1 k errs lx in
          if existsb (token_eqb t) reusable then Some []
          else match relex f (off1 + blen lx) rest reusable with
               | Some tl => Some (t :: tl)
               | None => None
               end
      end
  end.

Fixpoint skip_while {A} (f : A -> bool) (l : list A) : list A :=
  match l with
  | [] => []
  | x :: r => if f x then skip_while f r else l
  end.

Definition split_last {A} (l : list A) : option (list A * A) :=
  match rev l with [] => None | x :: r => Some (rev r, x) end.

Definition lex_update (new_text : text) (tokens : list token) (cs ce : N) (ins : text) : uresult :=
  let ins_len := blen ins in
  let del_len := ce - cs in
  match split_last tokens with
  | None => UPanic NoEofToken
  | Some (toks, eof) =>
    match tk eof with
    | Eof =>
      match shift_token_signed ins_len del_len eof with
      | None => UPanic NegativeShift
      | Some eof' =>
        let token_length := length toks in
        let head := filter (fun t => negb (is_affected_by t cs)) toks in
        let affected := filter (fun t => is_affected_by t cs) toks in
        let reusable0 := filter (fun t => negb (ts t <? ce)) affected in
        match map_opt (shift_token_signed ins_len del_len) reusable0 with
        | None => UPanic NegativeShift
        | Some reusable =>
          let restart := match split_last head with Some (_, t) => te t | None => 0 end in
          match str_from restart new_text with
          | None => UPanic BadSlice
          | Some re_text =>
            match relex (S (length re_text)) restart re_text reusable with
            | None => UFuel
            | Some new_tokens =>
              let tail :=
                match split_last new_tokens with
                | Some (_, last_new) => skip_while (fun t => ts t <? te last_new) reusable
                | None => reusable
                end in
              if Nat.leb (length tail) token_length then
                UDone (head ++ new_tokens ++ tail ++ [eof'])
                      (length head) (Nat.sub token_length (length tail)) (length new_tokens)
              else UPanic WindowUnderflow
            end
          end
        end
      end
    | _ => UPanic NoEofToken
    end
  end.
