(* The task/channel structure of the main phase (server.rs `phases::main`, document.rs `broker`,
   io.rs `responder`): three processes and two bounded FIFO channels plus a one-shot reply.
   A step is one atomic channel operation of one process; a run is any sequence of steps.
   Documents and answers are abstract: [dstate] is what the broker stores for a URI, and the
   answer to a request is a function of the stored state ([answer]). *)
From Coq Require Export List NArith Bool Lia.
Export ListNotations.

Section Broker.
Variable uri : Type.
Variable uri_eqb : uri -> uri -> bool.
Variable dstate : Type.                       (* AnalyzedSource *)
Variable payload : Type.                      (* text of didOpen / content changes of didChange *)
Variable req : Type.                          (* a request that needs a document (uri inside) *)
Variable ans : Type.
Variable open_doc : payload -> dstate.                    (* AnalyzedSource::new *)
Variable change_doc : dstate -> payload -> dstate.        (* AnalyzedSource::update *)
Variable req_uri : req -> uri.
Variable answer : req -> option dstate -> ans.            (* feature handler on the GetInfo reply *)
Variable local_answer : N -> ans.                         (* error responses produced by the reader itself *)
Variable diag : uri -> dstate -> ans.                     (* publishDiagnostics payload *)
Variable send_diagnostics : bool.                         (* client announced publishDiagnostics *)
Variable cap : nat.                                       (* channel capacity (32) *)

(* client messages of the main phase *)
Inductive cmsg :=
| COpen (u : uri) (p : payload)
| CChange (u : uri) (p : payload)
| CClose (u : uri)
| CReq (id : N) (r : req)            (* goes through the broker: GetInfo *)
| CLocal (id : N) (k : N)            (* answered by the reader alone: unknown method, 2nd initialize *)
| CIgnored.                          (* any other notification: dropped *)

(* server output frames *)
Inductive out :=
| OResp (id : N) (a : ans)
| ODiag (u : uri) (a : ans).

(* DocumentRequest *)
Inductive dreq :=
| DOpen (u : uri) (p : payload)
| DChange (u : uri) (p : payload)
| DClose (u : uri)
| DGetInfo (u : uri).

Definition docs := list (uri * dstate).

Fixpoint lookup (m : docs) (u : uri) : option dstate :=
  match m with
  | [] => None
  | (v, d) :: r => if uri_eqb v u then Some d else lookup r u
  end.

Fixpoint remove (m : docs) (u : uri) : docs :=
  match m with
  | [] => []
  | (v, d) :: r => if uri_eqb v u then remove r u else (v, d) :: remove r u
  end.

Definition insert (m : docs) (u : uri) (d : dstate) : docs := (u, d) :: remove m u.

Record state := {
  inp : list cmsg;               (* client messages not yet read by the reader *)
  waiting : option (N * req);    (* reader awaits the one-shot reply for this request *)
  reply : option (option dstate);(* the one-shot reply, once the broker has sent it *)
  docq : list dreq;              (* reader -> broker channel *)
  ioq : list out;                (* reader/broker -> responder channel *)
  bpend : list out;              (* diagnostics the broker still has to send before it goes on *)
  store : docs;                  (* the broker's HashMap *)
  written : list out             (* frames written to stdout, oldest first *)
}.

Definition init (ms : list cmsg) : state :=
  {| inp := ms; waiting := None; reply := None; docq := []; ioq := []; bpend := []; store := []; written := [] |}.

Inductive proc := Reader | BrokerP | Responder.

Definition room {A} (q : list A) : bool := Nat.ltb (length q) cap.

Definition diags_for (u : uri) (d : dstate) : list out :=
  if send_diagnostics then [ODiag u (diag u d)] else [].

(* one step of a process; None = the process is not enabled in this state *)
Definition step (p : proc) (s : state) : option state :=
  match p with
  | Responder =>
      match ioq s with
      | o :: q => Some {| inp := inp s; waiting := waiting s; reply := reply s; docq := docq s; ioq := q;
                          bpend := bpend s; store := store s; written := written s ++ [o] |}
      | [] => None
      end
  | BrokerP =>
      match bpend s with
      | o :: b =>
          if room (ioq s) then
            Some {| inp := inp s; waiting := waiting s; reply := reply s; docq := docq s; ioq := ioq s ++ [o];
                    bpend := b; store := store s; written := written s |}
          else None
      | [] =>
          match docq s with
          | [] => None
          | DOpen u p :: q =>
              let d := open_doc p in
              Some {| inp := inp s; waiting := waiting s; reply := reply s; docq := q; ioq := ioq s;
                      bpend := diags_for u d; store := insert (store s) u d; written := written s |}
          | DChange u p :: q =>
              match lookup (store s) u with
              | Some d0 =>
                  let d := change_doc d0 p in
                  Some {| inp := inp s; waiting := waiting s; reply := reply s; docq := q; ioq := ioq s;
                          bpend := diags_for u d; store := insert (store s) u d; written := written s |}
              | None =>
                  Some {| inp := inp s; waiting := waiting s; reply := reply s; docq := q; ioq := ioq s;
                          bpend := []; store := store s; written := written s |}
              end
          | DClose u :: q =>
              Some {| inp := inp s; waiting := waiting s; reply := reply s; docq := q; ioq := ioq s;
                      bpend := []; store := remove (store s) u; written := written s |}
          | DGetInfo u :: q =>
              Some {| inp := inp s; waiting := waiting s; reply := Some (lookup (store s) u); docq := q; ioq := ioq s;
                      bpend := []; store := store s; written := written s |}
          end
      end
  | Reader =>
      match waiting s with
      | Some (id, r) =>
          match reply s with
          | Some d =>
              if room (ioq s) then
                Some {| inp := inp s; waiting := None; reply := None; docq := docq s;
                        ioq := ioq s ++ [OResp id (answer r d)]; bpend := bpend s; store := store s; written := written s |}
              else None
          | None => None
          end
      | None =>
          match inp s with
          | [] => None
          | m :: rest =>
              let send_doc (x : dreq) (w : option (N * req)) :=
                if room (docq s) then
                  Some {| inp := rest; waiting := w; reply := reply s; docq := docq s ++ [x]; ioq := ioq s;
                          bpend := bpend s; store := store s; written := written s |}
                else None in
              match m with
              | COpen u p => send_doc (DOpen u p) None
              | CChange u p => send_doc (DChange u p) None
              | CClose u => send_doc (DClose u) None
              | CReq id r => send_doc (DGetInfo (req_uri r)) (Some (id, r))
              | CLocal id k =>
                  if room (ioq s) then
                    Some {| inp := rest; waiting := None; reply := reply s; docq := docq s;
                            ioq := ioq s ++ [OResp id (local_answer k)]; bpend := bpend s; store := store s; written := written s |}
                  else None
              | CIgnored =>
                  Some {| inp := rest; waiting := None; reply := reply s; docq := docq s; ioq := ioq s;
                          bpend := bpend s; store := store s; written := written s |}
              end
          end
      end
  end.

(* an execution: a schedule is any list of process ids; a scheduled process that is not enabled
   does nothing (the scheduler simply picked a blocked task) *)
Fixpoint exec (sched : list proc) (s : state) : state :=
  match sched with
  | [] => s
  | p :: r => exec r (match step p s with Some s' => s' | None => s end)
  end.

Definition quiescent (s : state) : Prop :=
  inp s = [] /\ waiting s = None /\ docq s = [] /\ ioq s = [] /\ bpend s = [].

(* ---- the sequential specification: handle the messages one after the other ---- *)
Fixpoint seq_run (m : docs) (ms : list cmsg) : list out :=
  match ms with
  | [] => []
  | COpen u p :: r => let d := open_doc p in diags_for u d ++ seq_run (insert m u d) r
  | CChange u p :: r =>
      match lookup m u with
      | Some d0 => let d := change_doc d0 p in diags_for u d ++ seq_run (insert m u d) r
      | None => seq_run m r
      end
  | CClose u :: r => seq_run (remove m u) r
  | CReq id q :: r => OResp id (answer q (lookup m (req_uri q))) :: seq_run m r
  | CLocal id k :: r => OResp id (local_answer k) :: seq_run m r
  | CIgnored :: r => seq_run m r
  end.

(* the document map after handling [ms] sequentially (the same recursion as [seq_run]) *)
Fixpoint seq_docs (m : docs) (ms : list cmsg) : docs :=
  match ms with
  | [] => m
  | COpen u p :: r => seq_docs (insert m u (open_doc p)) r
  | CChange u p :: r =>
      match lookup m u with
      | Some d0 => seq_docs (insert m u (change_doc d0 p)) r
      | None => seq_docs m r
      end
  | CClose u :: r => seq_docs (remove m u) r
  | CReq _ _ :: r => seq_docs m r
  | CLocal _ _ :: r => seq_docs m r
  | CIgnored :: r => seq_docs m r
  end.

Definition is_resp (o : out) : bool := match o with OResp _ _ => true | ODiag _ _ => false end.
Definition responses (l : list out) : list out := filter is_resp l.
Definition diagnostics (l : list out) : list out := filter (fun o => negb (is_resp o)) l.

(* the publishDiagnostics frames for document [u] *)
Definition diag_of (u : uri) (o : out) : bool :=
  match o with ODiag v _ => uri_eqb v u | OResp _ _ => false end.
Definition diags_of (u : uri) (l : list out) : list out := filter (diag_of u) l.

(* [c] is a notification addressed to document [u] *)
Definition about (u : uri) (c : cmsg) : bool :=
  match c with
  | COpen v _ => uri_eqb v u
  | CChange v _ => uri_eqb v u
  | CClose v => uri_eqb v u
  | _ => false
  end.

(* ids of the requests of a session / of the responses in an output, in order *)
Definition req_id (c : cmsg) : list N :=
  match c with CReq id _ => [id] | CLocal id _ => [id] | _ => [] end.
Definition out_id (o : out) : list N :=
  match o with OResp id _ => [id] | ODiag _ _ => [] end.

(* number of steps of a schedule that actually fire *)
Fixpoint fired (sched : list proc) (s : state) : nat :=
  match sched with
  | [] => O
  | p :: r => match step p s with Some s' => S (fired r s') | None => fired r s end
  end.

End Broker.

(* ------------------------------------------------------------------------------------------ *)
(* All parameters of the model bundled into one value, so that statements quantified over every
   instantiation (Props/C20.v) can be written outside a section. *)
Record world : Type := World {
  w_uri : Type;
  w_uri_eqb : w_uri -> w_uri -> bool;
  w_dstate : Type;
  w_payload : Type;
  w_req : Type;
  w_ans : Type;
  w_open_doc : w_payload -> w_dstate;
  w_change_doc : w_dstate -> w_payload -> w_dstate;
  w_req_uri : w_req -> w_uri;
  w_answer : w_req -> option w_dstate -> w_ans;
  w_local_answer : N -> w_ans;
  w_diag : w_uri -> w_dstate -> w_ans;
  w_send_diagnostics : bool;
  w_cap : nat
}.

Definition w_msg (w : world) : Type := cmsg (w_uri w) (w_payload w) (w_req w).
Definition w_out (w : world) : Type := out (w_uri w) (w_ans w).
Definition w_state (w : world) : Type := state (w_uri w) (w_dstate w) (w_payload w) (w_req w) (w_ans w).
Definition w_docs (w : world) : Type := docs (w_uri w) (w_dstate w).

(* [uri_eqb] decides equality of URIs *)
Definition w_uri_ok (w : world) : Prop := forall a b, w_uri_eqb w a b = true <-> a = b.

Definition w_step (w : world) : proc -> w_state w -> option (w_state w) :=
  step (w_uri w) (w_uri_eqb w) (w_dstate w) (w_payload w) (w_req w) (w_ans w) (w_open_doc w) (w_change_doc w)
       (w_req_uri w) (w_answer w) (w_local_answer w) (w_diag w) (w_send_diagnostics w) (w_cap w).

(* the state reached from the initial state on the session [ms] under the schedule [sched] *)
Definition w_run (w : world) (sched : list proc) (ms : list (w_msg w)) : w_state w :=
  exec (w_uri w) (w_uri_eqb w) (w_dstate w) (w_payload w) (w_req w) (w_ans w) (w_open_doc w) (w_change_doc w)
       (w_req_uri w) (w_answer w) (w_local_answer w) (w_diag w) (w_send_diagnostics w) (w_cap w) sched
       (init (w_uri w) (w_dstate w) (w_payload w) (w_req w) (w_ans w) ms).

Definition w_fired (w : world) (sched : list proc) (ms : list (w_msg w)) : nat :=
  fired (w_uri w) (w_uri_eqb w) (w_dstate w) (w_payload w) (w_req w) (w_ans w) (w_open_doc w) (w_change_doc w)
        (w_req_uri w) (w_answer w) (w_local_answer w) (w_diag w) (w_send_diagnostics w) (w_cap w) sched
        (init (w_uri w) (w_dstate w) (w_payload w) (w_req w) (w_ans w) ms).

(* the sequential specification started from the document map [m] *)
Definition w_spec_from (w : world) (m : w_docs w) (ms : list (w_msg w)) : list (w_out w) :=
  seq_run (w_uri w) (w_uri_eqb w) (w_dstate w) (w_payload w) (w_req w) (w_ans w) (w_open_doc w) (w_change_doc w)
          (w_req_uri w) (w_answer w) (w_local_answer w) (w_diag w) (w_send_diagnostics w) m ms.
Definition w_spec (w : world) (ms : list (w_msg w)) : list (w_out w) := w_spec_from w [] ms.

(* the document map of the sequential specification after [ms], started from [m] *)
Definition w_docs_from (w : world) (m : w_docs w) (ms : list (w_msg w)) : w_docs w :=
  seq_docs (w_uri w) (w_uri_eqb w) (w_dstate w) (w_payload w) (w_req w) (w_open_doc w) (w_change_doc w) m ms.
Definition w_docs_after (w : world) (ms : list (w_msg w)) : w_docs w := w_docs_from w [] ms.

Definition w_lookup (w : world) (m : w_docs w) (u : w_uri w) : option (w_dstate w) :=
  lookup (w_uri w) (w_uri_eqb w) (w_dstate w) m u.

Definition w_quiescent (w : world) (s : w_state w) : Prop :=
  quiescent (w_uri w) (w_dstate w) (w_payload w) (w_req w) (w_ans w) s.
Definition w_written (w : world) (s : w_state w) : list (w_out w) :=
  written (w_uri w) (w_dstate w) (w_payload w) (w_req w) (w_ans w) s.
Definition w_store (w : world) (s : w_state w) : w_docs w :=
  store (w_uri w) (w_dstate w) (w_payload w) (w_req w) (w_ans w) s.
Definition w_responses (w : world) (l : list (w_out w)) : list (w_out w) := responses (w_uri w) (w_ans w) l.
Definition w_diagnostics (w : world) (l : list (w_out w)) : list (w_out w) := diagnostics (w_uri w) (w_ans w) l.
Definition w_diags_of (w : world) (u : w_uri w) (l : list (w_out w)) : list (w_out w) :=
  diags_of (w_uri w) (w_uri_eqb w) (w_ans w) u l.
Definition w_about (w : world) (u : w_uri w) (c : w_msg w) : bool :=
  about (w_uri w) (w_uri_eqb w) (w_payload w) (w_req w) u c.
Definition w_req_ids (w : world) (ms : list (w_msg w)) : list N :=
  flat_map (req_id (w_uri w) (w_payload w) (w_req w)) ms.
Definition w_out_ids (w : world) (l : list (w_out w)) : list N :=
  flat_map (out_id (w_uri w) (w_ans w)) l.
