(* The task/channel structure of the main phase (server.rs `phases::main`, document.rs `broker`,
   io.rs `responder`): three processes and two bounded FIFO channels plus a one-shot reply.
   A step is one atomic channel operation of one process; a run is any sequence of steps.
   Documents and answers are abstract: [dstate] is what the broker stores for a URI, and the
   answer to a request is a function of the stored state ([answer]). *)
From Coq Require Export List NArith Bool Lia.
Export ListNotations.

Section Broker.
Variable uri : Type.
Variable uri_eqb : uri -> uri -> bool.
Variable dstate : Type.                       (* AnalyzedSource *)
Variable payload : Type.                      (* text of didOpen / content changes of didChange *)
Variable req : Type.                          (* a request that needs a document (uri inside) *)
Variable ans : Type.
Variable open_doc : payload -> dstate.                    (* AnalyzedSource::new *)
Variable change_doc : dstate -> payload -> dstate.        (* AnalyzedSource::update *)
Variable req_uri : req -> uri.
Variable answer : req -> option dstate -> ans.            (* feature handler on the GetInfo reply *)
Variable local_answer : N -> ans.                         (* error responses produced by the reader itself *)
Variable diag : uri -> dstate -> ans.                     (* publishDiagnostics payload *)
Variable send_diagnostics : bool.                         (* client announced publishDiagnostics *)
Variable cap : nat.                                       (* channel capacity (32) *)

(* client messages of the main phase *)
Inductive cmsg :=
| COpen (u : uri) (p : payload)
| CChange (u : uri) (p : payload)
| CClose (u : uri)
| CReq (id : N) (r : req)            (* goes through the broker: GetInfo *)
| CLocal (id : N) (k : N)            (* answered by the reader alone: unknown method, 2nd initialize *)
| CIgnored.                          (* any other notification: dropped *)

(* server output frames *)
Inductive out :=
| OResp (id : N) (a : ans)
| ODiag (u : uri) (a : ans).

(* DocumentRequest *)
Inductive dreq :=
| DOpen (u : uri) (p : payload)
| DChange (u : uri) (p : payload)
| DClose (u : uri)
| DGetInfo (u : uri).

Definition docs := list (uri * dstate).

Fixpoint lookup (m : docs) (u : uri) : option dstate :=
  match m with
  | [] => None
  | (v, d) :: r => if uri_eqb v u then Some d else lookup r u
  end.

Fixpoint remove (m : docs) (u : uri) : docs :=
  match m with
  | [] => []
  | (v, d) :: r => if uri_eqb v u then remove r u else (v, d) :: remove r u
  end.

Definition insert (m : docs) (u : uri) (d : dstate) : docs := (u, d) :: remove m u.

Record state := {
  inp : list cmsg;               (* client messages not yet read by the reader *)
  waiting : option (N * req);    (* reader awaits the one-shot reply for this request *)
  reply : option (option dstate);(* the one-shot reply, once the broker has sent it *)
  docq : list dreq;              (* reader -> broker channel *)
  ioq : list out;                (* reader/broker -> responder channel *)
  bpend : list out;              (* diagnostics the broker still has to send before it goes on *)
  store : docs;                  (* the broker's HashMap *)
  written : list out             (* frames written to stdout, oldest first *)
}.

Definition init (ms : list cmsg) : state :=
  {| inp := ms; waiting := None; reply := None; docq := []; ioq := []; bpend := []; store := []; written := [] |}.

Inductive proc := Reader | BrokerP | Responder.

Definition room {A} (q : list A) : bool := Nat.ltb (length q) cap.

Definition diags_for (u : uri) (d : dstate) : list out :=
  if send_diagnostics then [ODiag u (diag u d)] else [].

(* one step of a process; None = the process is not enabled in this state *)
Definition step (p : proc) (s : state) : option state :=
  match p with
  | Responder =>
      match ioq s with
      | o :: q => Some {| inp := inp s; waiting := waiting s; reply := reply s; docq := docq s; ioq := q;
                          bpend := bpend s; store := store s; written := written s ++ [o] |}
      | [] => None
      end
  | BrokerP =>
      match bpend s with
      | o :: b =>
          if room (ioq s) then
            Some {| inp := inp s; waiting := waiting s; reply := reply s; docq := docq s; ioq := ioq s ++ [o];
                    bpend := b; store := store s; written := written s |}
          else None
      | [] =>
          match docq s with
          | [] => None
          | DOpen u p :: q =>
              let d := open_doc p in
              Some {| inp := inp s; waiting := waiting s; reply := reply s; docq := q; ioq := ioq s;
                      bpend := diags_for u d; store := insert (store s) u d; written := written s |}
          | DChange u p :: q =>
              match lookup (store s) u with
              | Some d0 =>
                  let d := change_doc d0 p in
                  Some {| inp := inp s; waiting := waiting s; reply := reply s; docq := q; ioq := ioq s;
                          bpend := diags_for u d; store := insert (store s) u d; written := written s |}
              | None =>
                  Some {| inp := inp s; waiting := waiting s; reply := reply s; docq := q; ioq := ioq s;
                          bpend := []; store := store s; written := written s |}
              end
          | DClose u :: q =>
              Some {| inp := inp s; waiting := waiting s; reply := reply s; docq := q; ioq := ioq s;
                      bpend := []; store := remove (store s) u; written := written s |}
          | DGetInfo u :: q =>
              Some {| inp := inp s; waiting := waiting s; reply := Some (lookup (store s) u); docq := q; ioq := ioq s;
                      bpend := []; store := store s; written := written s |}
          end
      end
  | Reader =>
      match waiting s with
      | Some (id, r) =>
          match reply s with
          | Some d =>
              if room (ioq s) then
                Some {| inp := inp s; waiting := None; reply := None; docq := docq s;
                        ioq := ioq s ++ [OResp id (answer r d)]; bpend := bpend s; store := store s; written := written s |}
              else None
          | None => None
          end
      | None =>
          match inp s with
          | [] => None
          | m :: rest =>
              let send_doc (x : dreq) (w : option (N * req)) :=
                if room (docq s) then
                  Some {| inp := rest; waiting := w; reply := reply s; docq := docq s ++ [x]; ioq := ioq s;
                          bpend := bpend s; store := store s; written := written s |}
                else None in
              match m with
              | COpen u p => send_doc (DOpen u p) None
              | CChange u p => send_doc (DChange u p) None
              | CClose u => send_doc (DClose u) None
              | CReq id r => send_doc (DGetInfo (req_uri r)) (Some (id, r))
              | CLocal id k =>
                  if room (ioq s) then
                    Some {| inp := rest; waiting := None; reply := reply s; docq := docq s;
                            ioq := ioq s ++ [OResp id (local_answer k)]; bpend := bpend s; store := store s; written := written s |}
                  else None
              | CIgnored =>
                  Some {| inp := rest; waiting := None; reply := reply s; docq := docq s; ioq := ioq s;
                          bpend := bpend s; store := store s; written := written s |}
              end
          end
      end
  end.

(* an execution: a schedule is any list of process ids; a scheduled process that is not enabled
   does nothing (the scheduler simply picked a blocked task) *)
Fixpoint exec (sched : list proc) (s : state) : state :=
  match sched with
  | [] => s
  | p :: r => exec r (match step p s with Some s' => s' | None => s end)
  end.

Definition quiescent (s : state) : Prop :=
  inp s = [] /\ waiting s = None /\ docq s = [] /\ ioq s = [] /\ bpend s = [].

(* ---- the sequential specification: handle the messages one after the other ---- *)
Fixpoint seq_run (m : docs) (ms : list cmsg) : list out :=
  match ms with
  | [] => []
  | COpen u p :: r => let d := open_doc p in diags_for u d ++ seq_run (insert m u d) r
  | CChange u p :: r =>
      match lookup m u with
      | Some d0 => let d := change_doc d0 p in diags_for u d ++ seq_run (insert m u d) r
      | None => seq_run m r
      end
  | CClose u :: r => seq_run (remove m u) r
  | CReq id q :: r => OResp id (answer q (lookup m (req_uri q))) :: seq_run m r
  | CLocal id k :: r => OResp id (local_answer k) :: seq_run m r
  | CIgnored :: r => seq_run m r
  end.

Definition is_resp (o : out) : bool := match o with OResp _ _ => true | ODiag _ _ => false end.
Definition responses (l : list out) : list out := filter is_resp l.
Definition diagnostics (l : list out) : list out := filter (fun o => negb (is_resp o)) l.

End Broker.
