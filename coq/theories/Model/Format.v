(* lsp4spl::features::formatting - the `format` handler and the whole `mod fmt`, at string level.
   A text is a list of code points.  Every slice / index / expect of the Rust code that can panic
   is an explicit [FPanic] outcome:
     &tokens[n..]            -> [slice_from]  (panics when n > len)
     info.slice(tokens)      -> [slice]       (panics when start > end or end > len)
     IntLiteral: .expect()   -> no Int/Hex/Char token in the literal's slice
   The `FormattingOptions` parameter is only read by `indent`, so the expression-level printers do
   not take it.  Rust evaluates all format! arguments eagerly, hence a panic anywhere is a panic of
   the whole request; laziness only matters for `find_map` (IntLiteral) and `map_or_else`. *)
From Coq Require Import String.
From Spl Require Export Model.Parser.
From Spl Require Import Model.Lexer.
From Spl Require Model.Doc.

Inductive fres := FOk (s : text) | FPanic.

Definition fbind (r : fres) (k : text -> fres) : fres :=
  match r with FOk s => k s | FPanic => FPanic end.

Notation "'do' x <- r ; k" := (fbind r (fun x => k)) (at level 200, x name, r at level 100, k at level 200).

(* FormattingOptions { indent_symbol, indent_depth } *)
Record fopts := { ind_sym : char; ind_depth : nat }.

(* FormattingOptions::indentation *)
Definition indentation (f : fopts) : text := repeat (ind_sym f) (ind_depth f).

(* ---- str::lines ----
   `split_inclusive('\n')`, then each piece loses its final "\n" and, if it had one, one "\r"
   in front of it; a piece without "\n" (the unterminated last line) is returned as it is. *)
Fixpoint split_incl (s : text) : list text :=
  match s with
  | [] => []
  | c :: r =>
      if c =? 10 then [c] :: split_incl r
      else match split_incl r with
           | [] => [[c]]
           | l :: ls => (c :: l) :: ls
           end
  end.

Definition strip_line (piece : text) : text :=
  match rev piece with
  | 10 :: 13 :: r => rev r
  | 10 :: r => rev r
  | _ => piece
  end.

Definition lines (s : text) : list text := map strip_line (split_incl s).

(* fn indent *)
Definition indent (s : text) (f : fopts) : text :=
  flat_map (fun line => indentation f ++ line ++ [10]) (lines s).

(* ---- token slices ---- *)
Definition slice_from (n : nat) (l : list token) : option (list token) :=
  if Nat.leb n (length l) then Some (skipn n l) else None.

Definition slice (i : info) (l : list token) : option (list token) :=
  if Nat.leb (i_s i) (i_e i) && Nat.leb (i_e i) (length l)
  then Some (firstn (i_e i - i_s i) (skipn (i_s i) l)) else None.

Definition show_tok (t : token) : text := show_kind (tk t).
Definition is_comment_tok (t : token) : bool := match tk t with Comment _ => true | _ => false end.

(* add_leading_comments: map_while over the slice *)
Fixpoint leading_comment_text (l : list token) : text :=
  match l with
  | t :: r => if is_comment_tok t then show_tok t ++ leading_comment_text r else []
  | [] => []
  end.
Definition add_leading_comments (s : text) (sl : list token) : text := leading_comment_text sl ++ s.

(* add_all_comments: filter_map over the slice *)
Definition all_comment_text (l : list token) : text := flat_map show_tok (filter is_comment_tok l).
Definition add_all_comments (s : text) (sl : list token) : text := all_comment_text sl ++ s.

Definition with_slice (i : info) (toks : list token) (k : list token -> fres) : fres :=
  match slice i toks with Some sl => k sl | None => FPanic end.
Definition with_from (off : nat) (toks : list token) (k : list token -> fres) : fres :=
  match slice_from off toks with Some t' => k t' | None => FPanic end.

(* Iterator::reduce(|acc, x| acc + sep + x).unwrap_or_default() *)
Definition join (sep : text) (l : list text) : text :=
  match l with [] => [] | x :: r => fold_left (fun acc p => acc ++ sep ++ p) r x end.

Definition ends_nl (s : text) : bool := last s 0 =? 10.

(* impl Format for AstInfo: the tokens of the range, separated by " " unless the text so far ends
   with a newline (i.e. a comment) *)
Definition fmt_info (i : info) (toks : list token) : fres :=
  with_slice i toks (fun sl =>
    FOk (match map show_tok sl with
         | [] => []
         | x :: r => fold_left (fun acc t => if ends_nl acc then acc ++ t else acc ++ [32] ++ t) r x
         end)).

(* impl Format for IntLiteral *)
Definition is_lit_tok (t : token) : bool :=
  match tk t with IntT _ | HexT _ | CharT _ => true | _ => false end.
Definition fmt_intlit (i : intlit) (toks : list token) : fres :=
  with_slice (il_info i) toks (fun sl =>
    match find is_lit_tok sl with Some t => FOk (show_tok t) | None => FPanic end).

(* impl Display for Operator *)
Definition show_op (o : operator) : text :=
  match o with
  | OAdd => [43] | OSub => [45] | OMul => [42] | ODiv => [47] | OEqu => [61] | ONeq => [35]
  | OLst => [60] | OLse => [60; 61] | OGrt => [62] | OGre => [62; 61]
  end.

Section Lists.
Context {A : Type}.
Variable g : A -> fres.
(* .map(g).collect::<String>() *)
Fixpoint fconcat (l : list A) : fres :=
  match l with
  | [] => FOk []
  | x :: r => do a <- g x; do b <- fconcat r; FOk (a ++ b)
  end.
(* .map(g).collect::<Vec<String>>() *)
Fixpoint fmap (l : list A) (k : list text -> fres) : fres :=
  match l with
  | [] => k []
  | x :: r => do a <- g x; fmap r (fun bs => k (a :: bs))
  end.
End Lists.

(* ---- expressions ---- *)
Fixpoint fmt_var (v : variable) (toks : list token) : fres :=
  match v with
  | NamedVar i => FOk (id_val i)
  | ArrAccess arr idx _ =>
      do index <- match idx with
                  | None => FOk []
                  | Some (e, off) => with_from off toks (fun t' => fmt_expr e t')
                  end;
      do a <- fmt_var arr toks;
      FOk (a ++ [91] ++ index ++ [93])
  end
with fmt_expr (e : expr) (toks : list token) : fres :=
  match e with
  | EBin op l r _ =>
      do a <- fmt_expr l toks; do b <- fmt_expr r toks;
      FOk (a ++ [32] ++ show_op op ++ [32] ++ b)
  | EBrack x _ => do a <- fmt_expr x toks; FOk ([40] ++ a ++ [41])
  | EInt i => fmt_intlit i toks
  | EUn op x _ => do a <- fmt_expr x toks; FOk (show_op op ++ a)
  | EVar v => fmt_var v toks
  | EErr inf => fmt_info inf toks
  end.

(* fmt_ref_or_empty *)
Definition fmt_ref_expr (o : option (expr * nat)) (toks : list token) : fres :=
  match o with
  | None => FOk []
  | Some (e, off) => with_from off toks (fun t' => fmt_expr e t')
  end.

Fixpoint fmt_texpr (t : typeexpr) (toks : list token) : fres :=
  match t with
  | TNamed i => FOk (id_val i)
  | TArray size base _ =>
      do sz <- match size with None => FOk [] | Some i => fmt_intlit i toks end;
      match base with
      | None => FOk (str "array [" ++ sz ++ str "] of")
      | Some (b, off) =>
          do bt <- with_from off toks (fun t' => fmt_texpr b t');
          FOk (str "array [" ++ sz ++ str "] of " ++ bt)
      end
  end.

Definition fmt_ref_texpr (o : option (typeexpr * nat)) (toks : list token) : fres :=
  match o with
  | None => FOk []
  | Some (t, off) => with_from off toks (fun t' => fmt_texpr t t')
  end.

(* fmt_or_empty on Option<Identifier> *)
Definition name_or_empty (o : option ident) : text :=
  match o with Some i => id_val i | None => [] end.

(* ---- statements ---- *)
Definition fmt_assign_body (v : variable) (e : option (expr * nat)) (toks : list token) : fres :=
  do ex <- fmt_ref_expr e toks;
  do vv <- fmt_var v toks;
  FOk (vv ++ str " := " ++ ex ++ str ";" ++ [10]).

Definition fmt_call_body (name : ident) (args : list (expr * nat)) (toks : list token) : fres :=
  fmap (fun a : expr * nat => with_from (snd a) toks (fun t' => fmt_expr (fst a) t')) args (fun l =>
    FOk (id_val name ++ [40] ++ join (str ", ") l ++ str ");" ++ [10])).

Section Stmt.
Variable f : fopts.

Fixpoint fmt_stmt (s : stmt) (toks : list token) {struct s} : fres :=
  let stmts_of (l : list (stmt * nat)) (tk' : list token) : fres :=
    fconcat (fun xo : stmt * nat => with_from (snd xo) tk' (fun t' => fmt_stmt (fst xo) t')) l in
  (* fn fmt_branch *)
  let branch (br : option (stmt * nat)) (ending : char) : fres :=
    match br with
    | None => FOk [ending]
    | Some (x, off) =>
        with_from off toks (fun t' =>
          match x with
          | SBlock body _ =>
              match body with
              | [] => FOk (str " {}" ++ [10])
              | _ =>
                  do ss <- stmts_of body t';
                  FOk (str " {" ++ [10] ++ indent ss f ++ [125] ++ [ending])
              end
          | _ => do st <- fmt_stmt x t'; FOk ([10] ++ indent st f)
          end)
    end in
  match s with
  | SEmpty inf => with_slice inf toks (fun sl => FOk (add_all_comments (str ";" ++ [10]) sl))
  | SAssign v e inf =>
      do body <- fmt_assign_body v e toks;
      with_slice inf toks (fun sl => FOk (add_all_comments body sl))
  | SCall name args inf =>
      do body <- fmt_call_body name args toks;
      with_slice inf toks (fun sl => FOk (add_all_comments body sl))
  | SBlock body inf =>
      do st <- match body with
               | [] => FOk (str "{}" ++ [10])
               | _ => do ss <- stmts_of body toks; FOk (str "{" ++ [10] ++ indent ss f ++ str "}" ++ [10])
               end;
      with_slice inf toks (fun sl => FOk (add_leading_comments st sl))
  | SIf c t e inf =>
      do cond <- fmt_ref_expr c toks;
      do st <- match e with
               | None =>
                   do b <- branch t 10;
                   FOk (str "if (" ++ cond ++ [41] ++ b)
               | Some (x, off) =>
                   match x with
                   | SIf _ _ _ _ =>
                       do b <- branch t 32;
                       do ei <- with_from off toks (fun t' => fmt_stmt x t');
                       FOk (str "if (" ++ cond ++ [41] ++ b ++ str "else " ++ ei)
                   | _ =>
                       do b <- branch t 32;
                       do b2 <- branch e 10;
                       FOk (str "if (" ++ cond ++ [41] ++ b ++ str "else" ++ b2)
                   end
               end;
      with_slice inf toks (fun sl => FOk (add_leading_comments st sl))
  | SWhile c b inf =>
      do cond <- fmt_ref_expr c toks;
      do br <- branch b 10;
      with_slice inf toks (fun sl => FOk (add_leading_comments (str "while (" ++ cond ++ [41] ++ br) sl))
  | SError inf => do e <- fmt_info inf toks; FOk (e ++ [10])
  end.

Definition fmt_stmts (l : list (stmt * nat)) (toks : list token) : fres :=
  fconcat (fun xo : stmt * nat => with_from (snd xo) toks (fun t' => fmt_stmt (fst xo) t')) l.

(* ---- declarations ---- *)
Definition fmt_vardecl (v : vardecl) (toks : list token) : fres :=
  match v with
  | VValid _ name ty _ =>
      do t <- fmt_ref_texpr ty toks;
      FOk (str "var " ++ name_or_empty name ++ str ": " ++ t ++ str ";" ++ [10])
  | VError inf => fmt_info inf toks
  end.

Definition fmt_paramdecl (p : paramdecl) (toks : list token) : fres :=
  match p with
  | PValid _ is_ref name ty _ =>
      do t <- fmt_ref_texpr ty toks;
      FOk ((if is_ref then str "ref " else []) ++ name_or_empty name ++ str ": " ++ t)
  | PError inf => fmt_info inf toks
  end.

(* param.contains("//") *)
Fixpoint contains_slashes (s : text) : bool :=
  match s with
  | [] => false
  | a :: r => match r with
              | b :: _ => if (a =? 47) && (b =? 47) then true else contains_slashes r
              | [] => false
              end
  end.

Definition is_nil {A} (l : list A) : bool := match l with [] => true | _ => false end.

Definition fmt_params (ps : list (paramdecl * nat)) (toks : list token) : fres :=
  fmap (fun p : paramdecl * nat =>
          with_from (snd p) toks (fun t' =>
            do body <- fmt_paramdecl (fst p) t';
            with_slice (paramdecl_info (fst p)) t' (fun sl => FOk (add_all_comments body sl)))) ps
    (fun l =>
       match l with
       | [] => FOk []
       | _ =>
           if Nat.ltb 3 (length l) || existsb contains_slashes l
           then FOk ([10] ++ indent (join (str "," ++ [10]) l) f)
           else FOk (join (str ", ") l)
       end).

Definition fmt_vardecls (vs : list (vardecl * nat)) (toks : list token) : fres :=
  fconcat (fun v : vardecl * nat =>
             with_from (snd v) toks (fun t' =>
               do body <- fmt_vardecl (fst v) t';
               with_slice (vardecl_info (fst v)) t' (fun sl => FOk (add_all_comments body sl)))) vs.

Definition fmt_procdecl (d : procdecl) (toks : list token) : fres :=
  let name := name_or_empty (pd_name d) in
  do params <- fmt_params (pd_params d) toks;
  do vd0 <- fmt_vardecls (pd_vars d) toks;
  let var_decs := indent vd0 f in
  do st0 <- fmt_stmts (pd_stmts d) toks;
  let stmts := indent st0 f in
  let head := str "proc " ++ name ++ [40] ++ params ++ str ") {" in
  let pd :=
    match is_nil var_decs, is_nil stmts with
    | true, true => head ++ str "}" ++ [10]
    | true, false => head ++ [10] ++ stmts ++ str "}" ++ [10]
    | false, true => head ++ [10] ++ var_decs ++ str "}" ++ [10]
    | false, false => head ++ [10] ++ var_decs ++ [10] ++ stmts ++ str "}" ++ [10]
    end in
  with_slice (pd_info d) toks (fun sl => FOk (add_leading_comments pd sl)).

Definition fmt_typedecl (d : typedecl) (toks : list token) : fres :=
  do t <- fmt_ref_texpr (td_ty d) toks;
  let td := match td_name d with
            | None => str "type = " ++ t ++ str ";" ++ [10]
            | Some n => str "type " ++ id_val n ++ str " = " ++ t ++ str ";" ++ [10]
            end in
  with_slice (td_info d) toks (fun sl => FOk (add_leading_comments td sl)).

Definition fmt_gdecl (g : gdecl) (toks : list token) : fres :=
  match g with
  | GType d => fmt_typedecl d toks
  | GProc d => fmt_procdecl d toks
  | GError inf => fmt_info inf toks
  end.

(* impl Format for Program *)
Definition fmt_program (p : program) (toks : list token) : fres :=
  fmap (fun g : gdecl * nat => with_from (snd g) toks (fun t' => fmt_gdecl (fst g) t')) (pg_decls p)
    (fun l => FOk (join [10] l)).

End Stmt.

(* ---- the handler `format` ----
   AnalyzedSource::new = lex, parse, table::build, table::analyze; the formatter reads text, tokens and
   tree only (build/analyze attach diagnostics to the tree and never change ranges or structure). *)
Definition options_of (insert_spaces : bool) (tab_size : N) : fopts :=
  if insert_spaces then {| ind_sym := 32; ind_depth := N.to_nat tab_size |}
  else {| ind_sym := 9; ind_depth := 1 |}.

Definition pos_range := ((N * N) * (N * N))%type.

Definition format_request (doc : text) (insert_spaces : bool) (tab_size : N)
  : outcome (option (pos_range * text)) :=
  match lex doc with
  | None => OutOfFuel
  | Some toks =>
      match parse toks with
      | Panic => Panic
      | OutOfFuel => OutOfFuel
      | Done p =>
          match fmt_program (options_of insert_spaces tab_size) p toks with
          | FPanic => Panic
          | FOk new_text =>
              if text_eqb new_text doc then Done None
              else Done (Some ((Doc.as_position 0 doc, Doc.as_position (blen doc) doc), new_text))
          end
      end
  end.
