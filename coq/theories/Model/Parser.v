(* spl_frontend::parser (+ parser/utility.rs) - the error-tolerant nom parser, from scratch
   (`this = None` everywhere: `affected(None, p) = p`, `many(None) = many0(Reference::parse)`).
   nom 7.1.3 semantics are modelled, not idealised: an error carries the input state at which it
   occurred (position and error buffer), because `expect`, `info` and `many0` continue from it.
   `usize` subtractions `location_offset - reference_pos` and `pos - 1` are truncated subtractions
   on nat here; the invariant pos >= reference_pos makes the first exact, the second is guarded by
   `if pos > 0` in the Rust code. *)
From Coq Require Import String Ascii.
From Spl Require Export Model.Ast Base.Show.

Definition str (s : string) : text := map (fun a => N.of_nat (nat_of_ascii a)) (list_ascii_of_string s).

Local Open Scope nat_scope.

Section Parser.
Variable toks : list token.

(* TokenStream: position in the token vector (location_offset), reference_pos, error_buffer *)
Record st := { pos : nat; refp : nat; ebuf : list err }.

Inductive pres (A : Type) :=
| POk (s : st) (a : A)
| PErr (s : st)          (* nom::Err::Error(ParserError { input: s, .. }) *)
| PFuel.
Arguments POk {A}. Arguments PErr {A}. Arguments PFuel {A}.

Definition parser (A : Type) := st -> pres A.

Definition bind {A B} (r : pres A) (k : st -> A -> pres B) : pres B :=
  match r with POk s a => k s a | PErr s => PErr s | PFuel => PFuel end.

Definition adv (s : st) (n : nat) : st := {| pos := pos s + n; refp := refp s; ebuf := ebuf s |}.
Definition set_ebuf (s : st) (b : list err) : st := {| pos := pos s; refp := refp s; ebuf := b |}.
Definition set_refp (s : st) (r : nat) : st := {| pos := pos s; refp := r; ebuf := ebuf s |}.
Definition push_err (s : st) (a b : nat) (m : pmsg) : st :=
  set_ebuf s (ebuf s ++ [ {| e_s := a; e_e := b; e_m := EParse m |} ]).

(* ---- nom combinators ---- *)
Definition p_map {A B} (f : A -> B) (p : parser A) : parser B :=
  fun s => bind (p s) (fun s' a => POk s' (f a)).
(* alt: every alternative runs on the same input; the last error is returned *)
Definition p_alt {A} (p q : parser A) : parser A :=
  fun s => match p s with PErr _ => q s | r => r end.
Definition p_opt {A} (p : parser A) : parser (option A) :=
  fun s => match p s with POk s' a => POk s' (Some a) | PErr _ => POk s None | PFuel => PFuel end.
Definition p_pair {A B} (p : parser A) (q : parser B) : parser (A * B) :=
  fun s => bind (p s) (fun s1 a => bind (q s1) (fun s2 b => POk s2 (a, b))).
(* a parser that, when it fails, fails at ITS OWN input: the error carries the state the parser was
   started in (Statement::parse_error restores its input in the error) *)
Definition p_restore {A} (p : parser A) : parser A :=
  fun s => match p s with PErr _ => PErr s | r => r end.
Definition p_preceded {A B} (p : parser A) (q : parser B) : parser B := p_map snd (p_pair p q).
Definition p_terminated {A B} (p : parser A) (q : parser B) : parser A := p_map fst (p_pair p q).
(* many0: stops at the first error and returns its own pre-attempt input; a success that
   consumes nothing is an error *)
Fixpoint p_many0 {A} (fuel : nat) (p : parser A) (s : st) : pres (list A) :=
  match fuel with
  | O => PFuel
  | S f =>
      match p s with
      | PErr _ => POk s []
      | PFuel => PFuel
      | POk s' a =>
          if Nat.eqb (pos s') (pos s) then PErr s
          else bind (p_many0 f p s') (fun s2 l => POk s2 (a :: l))
      end
  end.

(* ---- token level ---- *)
Fixpoint leading_comments (l : list token) : list text :=
  match l with
  | t :: r => match tk t with Comment c => c :: leading_comments r | _ => [] end
  | [] => []
  end.
Definition comments_at (p : nat) : list text := leading_comments (skipn p toks).

(* many0(comment) *)
Definition p_comments : parser (list text) :=
  fun s => let cs := comments_at (pos s) in POk (adv s (length cs)) cs.

(* tag_parser!: skip comments, take one token, test it.  A mismatch fails at the ORIGINAL input,
   running out of tokens fails at the input after the comments (error of `take`). *)
Definition p_tag (f : kind -> bool) : parser token :=
  fun s =>
    let s1 := adv s (length (comments_at (pos s))) in
    match nth_error toks (pos s1) with
    | None => PErr s1
    | Some t => if f (tk t) then POk (adv s1 1) t else PErr s
    end.

Definition is_k (k : kind) : kind -> bool := fun x => kind_eqb x k.
Definition is_ident (k : kind) : bool := match k with Ident _ => true | _ => false end.

(* ---- utility.rs ---- *)
Definition p_info {A} (p : parser A) : parser (A * info) :=
  fun s =>
    let start := pos s - refp s in
    match p (set_ebuf s []) with
    | POk s' a => POk (set_ebuf s' (ebuf s)) (a, {| i_s := start; i_e := pos s' - refp s; i_errs := ebuf s' |})
    | PErr s' => PErr (set_ebuf s' (ebuf s))
    | PFuel => PFuel
    end.

Definition expect_error (s : st) (m : pmsg) : st :=
  let ep := (pos s - refp s) - 1 in push_err s ep ep m.

(* expect: on failure the message is pushed INTO THE ERROR'S STATE and parsing continues from it *)
Definition p_expect {A} (p : parser A) (m : pmsg) : parser (option A) :=
  fun s => match p s with
           | POk s' a => POk s' (Some a)
           | PErr s' => POk (expect_error s' m) None
           | PFuel => PFuel
           end.

(* Reference::parse *)
Definition p_ref {A} (p : parser A) : parser (A * nat) :=
  fun s =>
    let backup := refp s in
    let offset := pos s - backup in
    match p (set_refp s (pos s)) with
    | POk s' a => POk (set_refp s' backup) (a, offset)
    | PErr s' => PErr (set_refp s' backup)
    | PFuel => PFuel
    end.

Definition p_confusable {A} (p : parser A) (m : pmsg) : parser A :=
  fun s => bind (p_info p s) (fun s' ai => POk (push_err s' (i_s (snd ai)) (i_e (snd ai)) m) (fst ai)).

(* look_ahead::* - every use is wrapped in `peek`, so they are predicates on the position *)
Definition sig_at (p : nat) : nat := p + length (comments_at p).
Definition la_tag (f : kind -> bool) (p : nat) : bool :=
  match nth_error toks (sig_at p) with Some t => f (tk t) | None => false end.
Definition la_ident_then (f : kind -> bool) (p : nat) : bool :=
  match nth_error toks (sig_at p) with
  | Some t => if is_ident (tk t) then la_tag f (S (sig_at p)) else false
  | None => false
  end.
Definition la_global (p : nat) : bool :=
  la_tag (fun k => match k with KProc | KType | Eof => true | _ => false end) p.
Definition la_stmt (p : nat) : bool :=
  la_tag (fun k => match k with LCurly | RCurly | Semic | KIf | KWhile => true | _ => false end) p
  || la_ident_then (fun k => match k with Assign | LParen => true | _ => false end) p
  || la_global p.
Definition la_var_dec (p : nat) : bool :=
  la_tag (is_k KVar) p || la_stmt p
  || la_ident_then (fun k => match k with LBracket | EqT | Colon => true | _ => false end) p.
Definition la_param (p : nat) : bool :=
  la_tag (fun k => match k with RParen | Comma => true | _ => false end) p || la_var_dec p.
Definition la_arg := la_param.

(* the loop of ignore_until0/1: probe the pattern, else take(1) *)
Fixpoint ignore_from (n : nat) (la : nat -> bool) (s : st) : pres unit :=
  if la (pos s) then POk s tt
  else match n with
       | O => PErr s
       | S n' => if Nat.ltb (pos s) (length toks) then ignore_from n' la (adv s 1) else PErr s
       end.
Definition skipped (s s' : st) : list token := firstn (pos s' - pos s) (skipn (pos s) toks).
Definition p_ignore0 (la : nat -> bool) : parser (list token) :=
  fun s => bind (ignore_from (S (length toks - pos s)) la s) (fun s' _ => POk s' (skipped s s')).
(* ignore_until1: an immediate match is an error (carrying the post-pattern input, which is the
   input itself because the pattern is a `peek`) *)
Definition p_ignore1 (la : nat -> bool) : parser (list token) :=
  fun s => if la (pos s) then PErr s else p_ignore0 la s.

Definition show_tokens (l : list token) : text := flat_map (fun t => show_kind (tk t)) l.

(* ---- non-terminals ---- *)
Definition p_ident : parser ident :=
  p_map (fun ti => {| id_val := show_kind (tk (fst ti)); id_info := snd ti |}) (p_info (p_tag is_ident)).

Definition lit_value (t : token) : option N :=
  match tk t with
  | HexT (IntOk i) | IntT (IntOk i) => Some i
  | CharT c => Some (c mod 256)%N            (* (c as u8).into() *)
  | _ => None
  end.

Definition p_intlit : parser intlit :=
  p_map (fun vi => {| il_val := fst vi; il_info := snd vi |})
    (p_info (p_map lit_value
       (p_alt (p_tag (fun k => match k with HexT _ => true | _ => false end))
       (p_alt (p_tag (fun k => match k with CharT _ => true | _ => false end))
              (p_tag (fun k => match k with IntT _ => true | _ => false end)))))).

Definition op_of (k : kind) : operator :=
  match k with
  | Plus => OAdd | Minus => OSub | Times => OMul | Divide => ODiv | EqT => OEqu | NeqT => ONeq
  | LtT => OLst | LeT => OLse | GtT => OGrt | _ => OGre
  end.

Definition s_expression := str "expression".

(* parse_rhs *)
Definition p_rhs (p : parser expr) (lhs : expr) (op : operator) : parser expr :=
  fun s =>
    bind (p_expect p (ExpectedToken s_expression) s) (fun s' rhs =>
      let p' := pos s' - refp s' in
      let ep := p' - 1 in
      let rhs' := match rhs with Some e => e | None => EErr (mkinfo ep ep) end in
      POk s' (EBin op lhs rhs' (mkinfo (i_s (expr_info lhs)) p'))).

Definition extend_range (idx base : info) : info :=
  {| i_s := Nat.min (i_s idx) (i_s base); i_e := Nat.max (i_e idx) (i_e base); i_errs := i_errs idx |}.

Definition is_mulop (k : kind) : bool := match k with Times | Divide => true | _ => false end.
Definition is_addop (k : kind) : bool := match k with Plus | Minus => true | _ => false end.
Definition is_cmpop (k : kind) : bool :=
  match k with EqT | NeqT | LeT | LtT | GeT | GtT => true | _ => false end.

Fixpoint p_variable (fuel : nat) : parser variable :=
  match fuel with
  | O => fun _ => PFuel
  | S f => fun s =>
      bind (p_pair (p_info (p_map NamedVar p_ident))
              (p_many0 f (p_info (p_preceded (p_tag (is_k LBracket))
                 (p_pair (p_expect (p_ref (p_comparison f)) (ExpectedToken s_expression))
                         (p_expect (p_tag (is_k RBracket)) (MissingClosing 93%N)))))) s)
        (fun s' r =>
           let '((v0, vinfo), accesses) := r in
           POk s' (fold_left (fun v a => ArrAccess v (fst (fst a)) (extend_range (snd a) vinfo)) accesses v0))
  end
with p_primary (fuel : nat) : parser expr :=
  match fuel with
  | O => fun _ => PFuel
  | S f => fun s0 =>
      p_alt (p_map EInt p_intlit)
      (p_alt (p_map EVar (p_variable f))
        (* parse_bracketed *)
        (fun s =>
           bind (p_info (p_pair (p_info (p_tag (is_k LParen)))
                   (p_pair (p_expect (p_comparison f) (ExpectedToken s_expression))
                           (p_expect (p_tag (is_k RParen)) (MissingClosing 41%N)))) s)
             (fun s' r =>
                let '(((_, lp_info), (e, _)), inf) := r in
                let ep := i_e lp_info in
                POk s' (EBrack (match e with Some x => x | None => EErr (mkinfo ep ep) end) inf)))) s0
  end
with p_factor (fuel : nat) : parser expr :=
  match fuel with
  | O => fun _ => PFuel
  | S f => fun s0 =>
      p_alt (p_primary f)
        (* parse_unary *)
        (p_map (fun ei => EUn OSub (fst ei) (snd ei)) (p_info (p_preceded (p_tag (is_k Minus)) (p_factor f)))) s0
  end
with mul_loop (fuel : nat) (s : st) (lhs : expr) : pres expr :=
  match fuel with
  | O => PFuel
  | S f =>
      match p_tag is_mulop s with
      | POk s1 op => bind (p_rhs (p_factor f) lhs (op_of (tk op)) s1) (fun s2 e => mul_loop f s2 e)
      | PErr _ => POk s lhs
      | PFuel => PFuel
      end
  end
with p_mul (fuel : nat) : parser expr :=
  match fuel with
  | O => fun _ => PFuel
  | S f => fun s => bind (p_factor f s) (fun s1 e => mul_loop f s1 e)
  end
with add_loop (fuel : nat) (s : st) (lhs : expr) : pres expr :=
  match fuel with
  | O => PFuel
  | S f =>
      match p_tag is_addop s with
      | POk s1 op => bind (p_rhs (p_mul f) lhs (op_of (tk op)) s1) (fun s2 e => add_loop f s2 e)
      | PErr _ => POk s lhs
      | PFuel => PFuel
      end
  end
with p_add (fuel : nat) : parser expr :=
  match fuel with
  | O => fun _ => PFuel
  | S f => fun s => bind (p_mul f s) (fun s1 e => add_loop f s1 e)
  end
with p_comparison (fuel : nat) : parser expr :=
  match fuel with
  | O => fun _ => PFuel
  | S f => fun s =>
      bind (p_add f s) (fun s1 e =>
        match p_tag is_cmpop s1 with
        | POk s2 op => p_rhs (p_add f) e (op_of (tk op)) s2
        | PErr _ => POk s1 e
        | PFuel => PFuel
        end)
  end.

(* Expression::parse(None) = affected(None, parse_comparison) *)
Definition p_expr (fuel : nat) : parser expr := p_comparison fuel.

Definition s_lbracket := str "[".
Definition s_intlit := str "int literal".
Definition s_of := str "of".
Definition s_typeexpr := str "type expression".
Definition s_identifier := str "identifier".
Definition s_eq := str "=".
Definition s_assign := str ":=".
Definition s_colon := str ":".

Fixpoint p_texpr (fuel : nat) : parser typeexpr :=
  match fuel with
  | O => fun _ => PFuel
  | S f => fun s0 =>
      p_alt
        (* parse_array_type *)
        (p_map (fun r => let '((_, (_, (size, (_, (_, base))))), inf) := r in TArray size base inf)
           (p_info (p_pair (p_tag (is_k KArray))
                   (p_pair (p_expect (p_tag (is_k LBracket)) (ExpectedToken s_lbracket))
                   (p_pair (p_expect p_intlit (ExpectedToken s_intlit))
                   (p_pair (p_expect (p_tag (is_k RBracket)) (MissingClosing 93%N))
                   (p_pair (p_expect (p_tag (is_k KOf)) (ExpectedToken s_of))
                           (p_expect (p_ref (p_texpr f)) (ExpectedToken s_typeexpr)))))))))
        (p_map TNamed p_ident) s0
  end.

Definition p_typedecl (fuel : nat) : parser typedecl :=
  p_map (fun r => let '((doc, (_, (name, (_, (ty, _))))), inf) := r in
                  {| td_doc := doc; td_name := name; td_ty := ty; td_info := inf |})
    (p_info (p_pair p_comments
            (p_pair (p_tag (is_k KType))
            (p_pair (p_expect p_ident (ExpectedToken s_identifier))
            (p_pair (p_expect (p_alt (p_tag (is_k EqT))
                              (p_alt (p_confusable (p_tag (is_k Assign)) (ConfusedToken s_eq s_assign))
                                     (p_confusable (p_tag (is_k Colon)) (ConfusedToken s_eq s_colon))))
                       (ExpectedToken s_eq))
            (p_pair (p_expect (p_ref (p_texpr fuel)) (ExpectedToken s_typeexpr))
                    (p_expect (p_tag (is_k Semic)) MissingTrailingSemic))))))).

Definition s_vardec := str "variable declaration".
Definition s_paramdec := str "parameter declaration".

Definition p_vardecl (fuel : nat) : parser vardecl :=
  p_alt
    (p_map (fun r => let '((doc, (_, (name, (_, (ty, _))))), inf) := r in VValid doc name ty inf)
       (p_info (p_pair p_comments
               (p_pair (p_tag (is_k KVar))
               (p_pair (p_expect p_ident (ExpectedToken s_identifier))
               (p_pair (p_expect (p_alt (p_tag (is_k Colon))
                                 (p_alt (p_confusable (p_tag (is_k Assign)) (ConfusedToken s_colon s_assign))
                                        (p_confusable (p_tag (is_k EqT)) (ConfusedToken s_colon s_eq))))
                          (ExpectedToken s_colon))
               (p_pair (p_expect (p_ref (p_texpr fuel)) (ExpectedToken s_typeexpr))
                       (p_expect (p_tag (is_k Semic)) MissingTrailingSemic))))))))
    (* parse_error *)
    (p_map (fun r => let inf := snd r in
                     VError (info_append inf {| e_s := i_s inf; e_e := i_e inf; e_m := EParse (ExpectedToken s_vardec) |}))
       (p_info (p_ignore1 la_var_dec))).

Definition p_peek_la (la : nat -> bool) : parser unit :=
  fun s => if la (pos s) then POk s tt else PErr s.

Definition p_paramdecl (fuel : nat) : parser paramdecl :=
  p_alt
    (p_map (fun r => let '((doc, (rn, (_, (ty, _)))), inf) := r in PValid doc (fst rn) (snd rn) ty inf)
       (p_info (p_pair p_comments
               (p_pair (p_alt (p_map (fun tn => (true, snd tn))
                                 (p_pair (p_tag (is_k KRef)) (p_expect p_ident (ExpectedToken s_identifier))))
                              (p_map (fun i => (false, Some i)) p_ident))
               (p_pair (p_expect (p_tag (is_k Colon)) (ExpectedToken s_colon))
               (p_pair (p_expect (p_ref (p_texpr fuel)) (ExpectedToken s_typeexpr))
                       (p_peek_la la_param)))))))
    (p_map (fun r => let inf := snd r in
                     PError (info_append inf {| e_s := i_s inf; e_e := i_e inf; e_m := EParse (ExpectedToken s_paramdec) |}))
       (p_info (p_ignore0 la_param))).

(* parse_list(None): head, then many0 of comma-preceded elements; the offset of an element is its
   start (after the comma) relative to the enclosing Reference *)
Definition p_list {A} (fuel : nat) (p : parser A) : parser (list (A * nat)) :=
  fun s =>
    bind (p_ref p s) (fun s1 head =>
      bind (p_many0 fuel
              (p_map (fun r => (fst (fst r), snd r + snd (fst r)))
                 (p_ref (p_preceded (p_tag (is_k Comma)) (p_ref p)))) s1)
        (fun s2 tail => POk s2 (head :: tail))).

(* Argument::parse(None) *)
Definition p_argument (fuel : nat) : parser expr :=
  p_alt (p_terminated (p_expr fuel) (p_peek_la la_arg))
    (p_map (fun r => let inf := snd r in
                     EErr (info_append inf {| e_s := i_s inf; e_e := i_e inf; e_m := EParse (ExpectedToken s_expression) |}))
       (p_info (p_ignore0 la_arg))).

Definition p_call (fuel : nat) : parser stmt :=
  p_map (fun r => let '((name, (args, _)), inf) := r in SCall name args inf)
    (p_info (p_pair (p_terminated p_ident (p_tag (is_k LParen)))
            (p_pair (p_alt (p_map (fun _ => []) (p_peek_la (la_tag (fun k => match k with RParen | Semic | Eof => true | _ => false end))))
                           (p_list fuel (p_argument fuel)))
            (p_pair (p_expect (p_tag (is_k RParen)) (MissingClosing 41%N))
                    (p_expect (p_tag (is_k Semic)) MissingTrailingSemic))))).

Definition p_assign (fuel : nat) : parser stmt :=
  p_map (fun r => let '((v, (e, _)), inf) := r in SAssign v e inf)
    (p_info (p_pair (p_terminated (p_variable fuel)
                       (p_alt (p_tag (is_k Assign))
                              (p_confusable (p_tag (is_k EqT)) (ConfusedToken s_assign s_eq))))
            (p_pair (p_expect (p_ref (p_expr fuel)) (ExpectedToken s_expression))
                    (p_expect (p_tag (is_k Semic)) MissingTrailingSemic)))).

Definition s_statement := str "statement".

Fixpoint p_stmt (fuel : nat) : parser stmt :=
  match fuel with
  | O => fun _ => PFuel
  | S f => fun s0 =>
      p_alt (p_map (fun ti => SEmpty (snd ti)) (p_info (p_tag (is_k Semic))))
      (p_alt (* IfStatement *)
         (p_map (fun r => let '((_, (_, (c, (_, (t, e))))), inf) := r in
                          SIf c t (match e with Some x => x | None => None end) inf)
            (p_info (p_pair (p_tag (is_k KIf))
                    (p_pair (p_expect (p_tag (is_k LParen)) (MissingOpening 40%N))
                    (p_pair (p_expect (p_ref (p_expr f)) (ExpectedToken s_expression))
                    (p_pair (p_expect (p_tag (is_k RParen)) (MissingClosing 41%N))
                    (p_pair (p_expect (p_ref (p_stmt f)) (ExpectedToken s_expression))
                            (p_opt (p_preceded (p_tag (is_k KElse))
                                      (p_expect (p_ref (p_stmt f)) (ExpectedToken s_statement)))))))))))
      (p_alt (* WhileStatement *)
         (p_map (fun r => let '((_, (_, (c, (_, b)))), inf) := r in SWhile c b inf)
            (p_info (p_pair (p_tag (is_k KWhile))
                    (p_pair (p_expect (p_tag (is_k LParen)) (MissingOpening 40%N))
                    (p_pair (p_expect (p_ref (p_expr f)) (ExpectedToken s_expression))
                    (p_pair (p_expect (p_tag (is_k RParen)) (MissingClosing 41%N))
                            (p_expect (p_ref (p_stmt f)) (ExpectedToken s_expression))))))))
      (p_alt (* BlockStatement *)
         (p_map (fun r => SBlock (fst (fst r)) (snd r))
            (p_info (p_preceded (p_tag (is_k LCurly))
                       (p_pair (p_many0 f (p_ref (p_stmt f)))
                               (p_expect (p_tag (is_k RCurly)) (MissingClosing 125%N))))))
      (p_alt (p_call f)
      (p_alt (p_assign f)
         (* parse_error: when `info(tuple((many0(comment), ignore_until1(..))))` fails, the error is
            re-issued with the ORIGINAL input, so no comment is consumed by the failing alternative *)
         (p_restore
         (p_map (fun r => let '((_, ignored), inf) := r in
                          SError (info_append inf {| e_s := i_s inf; e_e := i_e inf;
                                                     e_m := EParse (UnexpectedCharacters (show_tokens ignored)) |}))
            (p_info (p_pair p_comments (p_ignore1 la_stmt)))))))))) s0
  end.

Definition p_procdecl (fuel : nat) : parser procdecl :=
  p_map (fun r => let '((doc, (_, (name, (_, (params, (_, (_, (vars, (stmts, _))))))))), inf) := r in
                  {| pd_doc := doc; pd_name := name; pd_params := params; pd_vars := vars; pd_stmts := stmts; pd_info := inf |})
    (p_info (p_pair p_comments
            (p_pair (p_tag (is_k KProc))
            (p_pair (p_expect p_ident (ExpectedToken s_identifier))
            (p_pair (p_expect (p_tag (is_k LParen)) (MissingOpening 40%N))
            (p_pair (p_alt (p_map (fun _ => []) (p_peek_la (la_tag (fun k => match k with RParen | LCurly | Eof => true | _ => false end))))
                           (p_list fuel (p_paramdecl fuel)))
            (p_pair (p_expect (p_tag (is_k RParen)) (MissingClosing 41%N))
            (p_pair (p_expect (p_tag (is_k LCurly)) (MissingOpening 123%N))
            (p_pair (p_many0 fuel (p_ref (p_vardecl fuel)))
            (p_pair (p_many0 fuel (p_ref (p_stmt fuel)))
                    (p_expect (p_tag (is_k RCurly)) (MissingClosing 125%N)))))))))))).

Definition p_gdecl (fuel : nat) : parser gdecl :=
  p_alt (p_map GType (p_typedecl fuel))
  (p_alt (p_map GProc (p_procdecl fuel))
     (p_map (fun r => let '(ignored, inf) := r in
                      GError (info_append inf {| e_s := i_s inf; e_e := i_e inf;
                                                 e_m := EParse (UnexpectedCharacters (show_tokens ignored)) |}))
        (p_info (p_ignore1 la_global)))).

(* all_consuming(markers::eof) *)
Definition p_eof_all : parser unit :=
  fun s => bind (p_tag (is_k Eof) s) (fun s' _ => if Nat.ltb (pos s') (length toks) then PErr s' else POk s' tt).

Definition p_program (fuel : nat) : parser program :=
  p_map (fun r => {| pg_decls := fst (fst r); pg_info := snd (fst r) |})
    (p_pair (p_info (p_many0 fuel (p_ref (p_gdecl fuel)))) p_eof_all).

End Parser.

Arguments POk {A}. Arguments PErr {A}. Arguments PFuel {A}.

Inductive outcome (A : Type) := Done (a : A) | Panic | OutOfFuel.
Arguments Done {A}. Arguments Panic {A}. Arguments OutOfFuel {A}.

Definition parse_fuel (toks : list token) : nat := 16 * (length toks + 2).

(* parser::parse: `.expect("Parser cannot fail")` *)
Definition parse (toks : list token) : outcome program :=
  match p_program toks (parse_fuel toks) {| pos := 0; refp := 0; ebuf := [] |} with
  | POk _ p => Done p
  | PErr _ => Panic
  | PFuel => OutOfFuel
  end.
