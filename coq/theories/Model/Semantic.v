(* spl_frontend::table::analyze (table/semantic.rs) - semantic analysis.  As in Build.v the tree
   decorated with the semantic errors is returned.  Panic sites: `.expect("Named declaration
   without entry")` and the assert of `Identifier::to_error`. *)
From Spl Require Export Model.Build.
Local Open Scope nat_scope.

(* Expression::info_mut().append_error(..) *)
Definition var_append (v : variable) (x : err) : variable :=
  match v with
  | NamedVar i => NamedVar (ident_append i x)
  | ArrAccess a idx inf => ArrAccess a idx (info_append inf x)
  end.

Definition expr_append (e : expr) (x : err) : expr :=
  match e with
  | EBin op l r inf => EBin op l r (info_append inf x)
  | EBrack a inf => EBrack a (info_append inf x)
  | EErr inf => EErr (info_append inf x)
  | EUn op a inf => EUn op a (info_append inf x)
  | EInt i => EInt {| il_val := il_val i; il_info := info_append (il_info i) x |}
  | EVar v => EVar (var_append v x)
  end.

Definition expr_range (e : expr) : range := info_range (expr_info e).

Definition is_arithmetic (o : operator) : bool :=
  match o with OAdd | OSub | OMul | ODiv => true | _ => false end.

Definition is_int (d : dtype) : bool := match d with DInt => true | _ => false end.

Section Analyze.
Variable L : option ltable.
Variable G : option gtable.

(* impl AnalyzeExpression for Variable / ArrayAccess / Expression / BinaryExpression *)
Fixpoint an_var (v : variable) : res (variable * option dtype) :=
  match v with
  | NamedVar named =>
      match lt_lookup L G (id_val named) with
      | Some (EntVar ve) | Some (EntParam ve) => ROk (v, ve_ty ve)
      | Some _ =>
          do named' <- ident_flag named (fun n => ESem (NotAVariable n));
          ROk (NamedVar named', None)
      | None =>
          do named' <- ident_flag named (fun n => ESem (UndefinedVariable n));
          ROk (NamedVar named', None)
      end
  | ArrAccess arr index inf =>
      do index' <- (match index with
                    | Some (e, off) =>
                        do (e', ty) <- an_expr e;
                        ROk (Some (match ty with
                                   | Some DInt => e'
                                   | Some _ => expr_append e' (mkerr_t (expr_range e') (ESem IndexingWithNonInteger))
                                   | None => e'
                                   end, off))
                    | None => ROk None
                    end);
      do (arr', aty) <- an_var arr;
      match aty with
      | Some (DArray _ base _) => ROk (ArrAccess arr' index' inf, base)
      | Some _ =>
          ROk (ArrAccess arr' index' (info_append inf (mkerr_t (info_range inf) (ESem IndexingNonArray))), None)
      | None => ROk (ArrAccess arr' index' inf, None)
      end
  end
with an_expr (e : expr) : res (expr * option dtype) :=
  match e with
  | EInt _ => ROk (e, Some DInt)
  | EVar v => do (v', ty) <- an_var v; ROk (EVar v', ty)
  | EBin op l r inf =>
      do (l', lt) <- an_expr l;
      do (r', rt) <- an_expr r;
      let rng := info_range inf in
      let inf' :=
        match lt, rt with
        | Some a, Some b =>
            if is_int a && is_int b then inf
            else if is_int a || is_int b then info_append inf (mkerr_t rng (ESem OperatorDifferentTypes))
            else if is_arithmetic op then info_append inf (mkerr_t rng (ESem ArithmeticOperatorNonInteger))
            else info_append inf (mkerr_t rng (ESem ComparisonNonInteger))
        | _, _ => inf
        end in
      ROk (EBin op l' r' inf', Some (if is_arithmetic op then DInt else DBool))
  | EUn op a inf =>
      do (a', ty) <- an_expr a;
      let inf' :=
        match ty with
        | Some t => if is_int t then inf
                    else info_append inf (mkerr_t (info_range inf) (ESem ArithmeticOperatorNonInteger))
        | None => inf
        end in
      ROk (EUn op a' inf', Some DInt)
  | EBrack a inf => do (a', ty) <- an_expr a; ROk (EBrack a' inf, ty)
  | EErr _ => ROk (e, None)
  end.

(* the condition of `if` / `while` *)
Definition an_cond (c : option (expr * nat)) (m : smsg) : res (option (expr * nat)) :=
  match c with
  | Some (e, off) =>
      do (e', ty) <- an_expr e;
      ROk (Some (match ty with
                 | Some DBool => e'
                 | Some _ => expr_append e' (mkerr_t (expr_range e') (ESem m))
                 | None => e'
                 end, off))
  | None => ROk None
  end.

(* the zip loop of CallStatement::analyze; i is the 1-based argument number *)
Fixpoint an_args (cname : text) (i : nat) (args : list (expr * nat)) (params : list ventry)
  : res (list (expr * nat)) :=
  match args, params with
  | (a, off) :: ar, p :: pr =>
      let rng := expr_range a in
      let is_variable := match a with EVar _ => true | _ => false end in
      let a1 := if ve_ref p && negb is_variable
                then expr_append a (mkerr_t rng (ESem (ArgumentMustBeAVariable cname i))) else a in
      do (a2, ty) <- an_expr a1;
      let a3 := match ty, ve_ty p with
                | Some t1, Some t2 =>
                    if dt_eqb t1 t2 then a2 else expr_append a2 (mkerr_t rng (ESem (ArgumentsTypeMismatch cname i)))
                | _, _ => a2
                end in
      do r <- an_args cname (S i) ar pr;
      ROk ((a3, off) :: r)
  | _, _ => ROk args
  end.

(* impl AnalyzeStatement for Statement and the statement structs *)
Fixpoint an_stmt (s : stmt) : res stmt :=
  let an_ref (r : option (stmt * nat)) : res (option (stmt * nat)) :=
    match r with
    | Some (x, off) => do x' <- an_stmt x; ROk (Some (x', off))
    | None => ROk None
    end in
  match s with
  | SAssign v (Some (e, off)) inf =>
      do (v', lty) <- an_var v;
      do (e', rty) <- an_expr e;
      let rng := info_range inf in
      let inf' :=
        match lty, rty with
        | Some l, Some r =>
            if negb (dt_eqb l r) then info_append inf (mkerr_t rng (ESem AssignmentHasDifferentTypes))
            else if negb (is_int l) then info_append inf (mkerr_t rng (ESem AssignmentRequiresIntegers))
            else inf
        | _, _ => inf
        end in
      ROk (SAssign v' (Some (e', off)) inf')
  | SAssign _ None _ => ROk s
  | SBlock body inf =>
      do body' <- (fix go (l : list (stmt * nat)) : res (list (stmt * nat)) :=
                     match l with
                     | [] => ROk []
                     | (x, off) :: r => do x' <- an_stmt x; do r' <- go r; ROk ((x', off) :: r')
                     end) body;
      ROk (SBlock body' inf)
  | SCall name args inf =>
      let rng := info_range inf in
      match lt_lookup L G (id_val name) with
      | Some (EntProc pe) =>
          let inf' :=
            match Nat.compare (length args) (length (pe_params pe)) with
            | Eq => inf
            | Lt => info_append inf (mkerr_t rng (ESem (TooFewArguments (id_val name))))
            | Gt => info_append inf (mkerr_t rng (ESem (TooManyArguments (id_val name))))
            end in
          do args' <- an_args (id_val name) 1 args (pe_params pe);
          ROk (SCall name args' inf')
      | Some _ => ROk (SCall name args (info_append inf (mkerr_t rng (ESem (CallOfNoneProcedure (id_val name))))))
      | None => ROk (SCall name args (info_append inf (mkerr_t rng (ESem (UndefinedProcedure (id_val name))))))
      end
  | SIf c t e inf =>
      do c' <- an_cond c IfConditionMustBeBoolean;
      do t' <- an_ref t;
      do e' <- an_ref e;
      ROk (SIf c' t' e' inf)
  | SWhile c b inf =>
      do c' <- an_cond c WhileConditionMustBeBoolean;
      do b' <- an_ref b;
      ROk (SWhile c' b' inf)
  | SEmpty _ | SError _ => ROk s
  end.

Fixpoint an_stmts (l : list (stmt * nat)) : res (list (stmt * nat)) :=
  match l with
  | [] => ROk []
  | (x, off) :: r => do x' <- an_stmt x; do r' <- an_stmts r; ROk ((x', off) :: r')
  end.

End Analyze.

(* the closure of `analyze` applied to one global declaration *)
Definition analyze_gdecl (table : gtable) (d : gdecl * nat) : res (gdecl * nat) :=
  let (g, offset) := d in
  match g with
  | GProc pd =>
      match pd_name pd with
      | Some name =>
          match lookup table (id_val name) with
          | None => RFail SiteNoEntry
          | Some (GProcE pe) =>
              if negb (range_eqb (pe_range pe) (shift_range (info_range (pd_info pd)) offset)) then ROk d
              else
                do stmts' <- an_stmts (Some (pe_local pe)) (Some table) (pd_stmts pd);
                ROk (GProc {| pd_doc := pd_doc pd; pd_name := pd_name pd; pd_params := pd_params pd;
                              pd_vars := pd_vars pd; pd_stmts := stmts'; pd_info := pd_info pd |}, offset)
          | Some (GTypeE _) => ROk d
          end
      | None => ROk d
      end
  | _ => ROk d
  end.

Fixpoint analyze_gdecls (table : gtable) (ds : list (gdecl * nat)) : res (list (gdecl * nat)) :=
  match ds with
  | [] => ROk []
  | d :: r => do d' <- analyze_gdecl table d; do r' <- analyze_gdecls table r; ROk (d' :: r')
  end.

Definition analyze_res (p : program) (table : gtable) : res program :=
  do ds' <- analyze_gdecls table (pg_decls p);
  ROk {| pg_decls := ds'; pg_info := pg_info p |}.

(* table::analyze *)
Definition analyze (p : program) (table : gtable) : outcome program := to_outcome (analyze_res p table).
