(* AnalyzedSource::update (lib.rs:78-97) on whole documents: the changes of one notification are
   folded over text / tokens / tree (Model/Update.v `pstep`, starting from the ANALYSED tree, whose
   build and semantic messages `affected` strips from reused nodes), then the table is rebuilt and
   the tree re-analysed once. *)
From Spl Require Export Model.Update Model.Errors.

Definition pdoc_of (d : doc) : pdoc := {| p_text := d_text d; p_toks := d_toks d; p_tree := d_ast d |}.

Fixpoint psteps (pd : pdoc) (cs : list tchange) : outcome pdoc :=
  match cs with
  | [] => Done pd
  | c :: r =>
      match pstep pd (c_a c) (c_d c) (c_b c) (c_ins c) with
      | Done pd' => psteps pd' r
      | Panic => Panic
      | OutOfFuel => OutOfFuel
      end
  end.

(* a notification without content changes leaves the document as it is (lib.rs: early return) *)
Definition update_doc (d : doc) (cs : list tchange) : outcome doc :=
  match cs with [] => Done d | _ :: _ =>
  match psteps (pdoc_of d) cs with
  | Done pd =>
      match build_res (p_tree pd) with
      | ROk (p1, table) =>
          match analyze_res p1 table with
          | ROk p2 => Done {| d_text := p_text pd; d_toks := p_toks pd; d_ast := p2; d_table := table |}
          | RFail _ => Panic
          end
      | RFail _ => Panic
      end
  | Panic => Panic
  | OutOfFuel => OutOfFuel
  end end.
