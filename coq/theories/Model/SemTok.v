(* lsp4spl/src/features/semantic_tokens.rs - `textDocument/semanticTokens/full`.

   The handler walks the global declarations in tree order; for each it takes the token slice of
   the declaration (`info.slice(&tokens[gd.offset..])`), classifies every token and delta-encodes
   the classified ones against `previous_token_pos`, the position of the last emitted token.
   Inside a procedure declaration an identifier is looked up WITHOUT the procedure's local table
   when it stands in a type expression (`in_type_expression`: the previous non-comment token of the
   declaration's slice is `:` or `of`).  After the declarations the tokens from
   `ast.to_range().end` (clamped to the number of tokens) to the end of the token vector are
   mapped like an error declaration (`collect_error`): comments behind the last declaration.
   Panic sites, all explicit here:
     - `&tokens[gd.offset..]`, `info.slice(tokens)`            (STable SiteTokenSlice)
     - `text[token.range.clone()]`                              (STextSlice)
     - `line - previous.line`, `character - previous.character` (SSubOverflow; the server is a
       debug build, so the u32 subtraction panics instead of wrapping)
   (`slice[..i]` cannot panic: i is an index of `slice`; the trailing slice `a..len` with
   a = min(end, len) cannot panic either - it still goes through [slice] here.)
   Not modelled: `try_into::<u32>().expect(..)` on the length and the u32 width of line/column
   counters (texts of 4 GiB). *)
From Spl Require Export Model.Cursor.

Local Open Scope nat_scope.

Inductive stsite := STable (s : site) | STextSlice | SSubOverflow.

Inductive sres (A : Type) := SOk (a : A) | SFail (s : stsite).
Arguments SOk {A}. Arguments SFail {A}.

Definition sbind {A B} (r : sres A) (k : A -> sres B) : sres B :=
  match r with SOk a => k a | SFail s => SFail s end.

Notation "'dos' x <- e ; k" := (sbind e (fun x => k))
  (at level 200, x pattern, e at level 100, k at level 200, right associativity).

Definition lift {A} (r : res A) : sres A :=
  match r with ROk a => SOk a | RFail s => SFail (STable s) end.

(* lsp_types::SemanticToken *)
Record semtok := { st_dl : N; st_ds : N; st_len : N; st_ty : N; st_mod : N }.

(* index in TOKEN_TYPES *)
Definition ty_comment : N := 0.
Definition ty_keyword : N := 1.
Definition ty_number : N := 2.
Definition ty_type : N := 3.
Definition ty_function : N := 4.
Definition ty_parameter : N := 5.
Definition ty_variable : N := 6.
Definition mod_none : N := 0.
Definition mod_decl : N := 1.

(* &text[a..b]: None = panic (out of range, or not on a character boundary) *)
Definition text_slice (t : text) (a b : N) : option text :=
  if (b <? a)%N then None else
  match split_bytes a t with
  | Some (_, rest) =>
      match split_bytes (b - a) rest with
      | Some (m, _) => Some m
      | None => None
      end
  | None => None
  end.

(* create_semantic_token, with `as_position(token.range.start, text)` passed in: the Rust code
   computes this position twice per reported token (once here, once for `previous_token_pos`) *)
Definition create_semantic_token_at (pos : N * N) (tok : token) (prev : N * N) (t : text) (ty md : N)
  : sres semtok :=
  let '(line, ch) := pos in
  match text_slice t (ts tok) (te tok) with
  | None => SFail STextSlice
  | Some sl =>
      let len := u16s sl in
      if (line <? fst prev)%N then SFail SSubOverflow
      else
        let dl := (line - fst prev)%N in
        if (line =? fst prev)%N then
          if (ch <? snd prev)%N then SFail SSubOverflow
          else SOk {| st_dl := dl; st_ds := (ch - snd prev)%N; st_len := len; st_ty := ty; st_mod := md |}
        else SOk {| st_dl := dl; st_ds := ch; st_len := len; st_ty := ty; st_mod := md |}
  end.

Definition create_semantic_token (tok : token) (prev : N * N) (t : text) (ty md : N) : sres semtok :=
  create_semantic_token_at (as_position (ts tok) t) tok prev t ty md.

Definition is_keyword (k : kind) : bool :=
  match k with
  | KIf | KElse | KWhile | KArray | KOf | KProc | KRef | KType | KVar => true
  | _ => false
  end.

(* map_token: the class of a non-identifier token, None = not reported *)
Definition map_class (k : kind) : option (N * N) :=
  match k with
  | Comment _ => Some (ty_comment, mod_none)
  | HexT _ | CharT _ | IntT _ => Some (ty_number, mod_none)
  | _ => if is_keyword k then Some (ty_keyword, mod_none) else None
  end.

(* is_name_token(name, offset, token_index) *)
Definition is_name_token (name : ident) (offset token_index : nat) : bool :=
  let inf := id_info name in
  Nat.ltb (i_s inf) (i_e inf) && Nat.eqb (offset + i_e inf) (token_index + 1).

Definition opt_name_token (name : option ident) (token_index : nat) : bool :=
  match name with Some n => is_name_token n 0 token_index | None => false end.

(* the classifier of collect_type_dec for the token with declaration-relative index [idx] *)
Definition class_type_dec (td : typedecl) (idx : nat) (tok : token) : option (N * N) :=
  if opt_name_token (td_name td) idx then Some (ty_type, mod_decl)
  else match tk tok with
       | Ident _ => Some (ty_type, mod_none)
       | k => map_class k
       end.

(* features.rs get_local_table *)
Definition get_local_table (pd : procdecl) (g : gtable) : option ltable :=
  match pd_name pd with
  | Some name =>
      match lookup g (id_val name) with
      | Some (GProcE p) => Some (pe_local p)
      | _ => None
      end
  | None => None
  end.

Definition decl_mod (v : ventry) (idx : nat) : N :=
  if is_name_token (ve_name v) (fst (ve_range v)) idx then mod_decl else mod_none.

Definition is_comment_kind (k : kind) : bool := match k with Comment _ => true | _ => false end.

(* slice[..i].iter().rev().find(|previous| !Comment).map_or(false, |previous| Colon | Of)
   ([rev'] = List.rev computed in linear time, List.rev_alt) *)
Definition in_type_expression (sl : list token) (i : nat) : bool :=
  match find (fun p => negb (is_comment_kind (tk p))) (rev' (firstn i sl)) with
  | Some p => match tk p with Colon | KOf => true | _ => false end
  | None => false
  end.

(* the classifier of collect_proc_dec; [sl] is the token slice of the declaration, [idx] = first + i *)
Definition class_proc_dec (pd : procdecl) (g : gtable) (sl : list token) (idx : nat) (tok : token)
  : option (N * N) :=
  let local :=
    if in_type_expression sl (idx - i_s (pd_info pd)) then None else get_local_table pd g in
  if opt_name_token (pd_name pd) idx then Some (ty_function, mod_decl)
  else match tk tok with
       | Ident name =>
           match lt_lookup local (Some g) name with
           | Some (EntType _) => Some (ty_type, mod_none)
           | Some (EntProc _) => Some (ty_function, mod_none)
           | Some (EntVar v) => Some (ty_variable, decl_mod v idx)
           | Some (EntParam v) => Some (ty_parameter, decl_mod v idx)
           | None => None
           end
       | k => map_class k
       end.

Definition class_error (idx : nat) (tok : token) : option (N * N) := map_class (tk tok).

(* the filter_map over the slice, threading previous_token_pos; [idx] is the declaration-relative
   index of the head of [l] (first + i) *)
Fixpoint collect (cls : nat -> token -> option (N * N)) (t : text) (idx : nat) (l : list token)
         (prev : N * N) : sres (list semtok * (N * N)) :=
  match l with
  | [] => SOk ([], prev)
  | tok :: r =>
      match cls idx tok with
      | Some (ty, md) =>
          let pos := as_position (ts tok) t in
          dos st <- create_semantic_token_at pos tok prev t ty md;
          dos res <- collect cls t (S idx) r pos;
          SOk (st :: fst res, snd res)
      | None => collect cls t (S idx) r prev
      end
  end.

(* [sl]: the token slice of the declaration *)
Definition decl_class (g : gdecl) (table : gtable) (sl : list token) : nat -> token -> option (N * N) :=
  match g with
  | GType td => class_type_dec td
  | GProc pd => class_proc_dec pd table sl
  | GError _ => class_error
  end.

(* one step of the flat_map *)
Definition collect_decl (d : doc) (g : gdecl) (off : nat) (prev : N * N) : sres (list semtok * (N * N)) :=
  dos tokens <- lift (slice_from (d_toks d) off);
  let inf := gdecl_info g in
  dos sl <- lift (slice tokens (info_range inf));
  collect (decl_class g (d_table d) sl) (d_text d) (i_s inf) sl prev.

Fixpoint collect_decls (d : doc) (l : list (gdecl * nat)) (prev : N * N) : sres (list semtok * (N * N)) :=
  match l with
  | [] => SOk ([], prev)
  | (g, off) :: r =>
      dos res <- collect_decl d g off prev;
      dos rest <- collect_decls d r (snd res);
      SOk (fst res ++ fst rest, snd rest)
  end.

(* `ast.to_range().end.min(tokens.len())`: where the trailing slice starts *)
Definition trailing_start (d : doc) : nat := Nat.min (i_e (pg_info (d_ast d))) (length (d_toks d)).

(* collect_error(&AstInfo::new(start..tokens.len()), text, &tokens, previous_token_pos) *)
Definition collect_trailing (d : doc) (prev : N * N) : sres (list semtok * (N * N)) :=
  let a := trailing_start d in
  dos sl <- lift (slice (d_toks d) (a, length (d_toks d)));
  collect class_error (d_text d) a sl prev.

(* semantic_tokens: the `data` of the response *)
Definition semantic_tokens (d : doc) : sres (list semtok) :=
  dos res <- collect_decls d (pg_decls (d_ast d)) (0%N, 0%N);
  dos tr <- collect_trailing d (snd res);
  SOk (fst res ++ fst tr).

(* ---- decoding (what an editor does with `data`) ---- *)
Record abstok := { at_line : N; at_col : N; at_len : N; at_ty : N; at_mod : N }.

Fixpoint decode_from (line col : N) (l : list semtok) : list abstok :=
  match l with
  | [] => []
  | s :: r =>
      let line' := (line + st_dl s)%N in
      let col' := if (st_dl s =? 0)%N then (col + st_ds s)%N else st_ds s in
      {| at_line := line'; at_col := col'; at_len := st_len s; at_ty := st_ty s; at_mod := st_mod s |}
        :: decode_from line' col' r
  end.

Definition decode (l : list semtok) : list abstok := decode_from 0 0 l.

(* ---- executable well-formedness of a document, as far as this handler depends on it ----
   tokens: ordered, every range a slice of the text on character boundaries, and every token that has
   a successor is non-empty and does not start with a line terminator (C06 proves all of this for
   `lex`; the last token is Eof there);
   tree: every declaration has i_s <= i_e, lies inside the token vector, and starts where its
   predecessor ended or later (ParserProofs.T5_per_declaration proves this for `parse`; build and
   analyze change neither offsets nor ranges), a declaration's name, when it has a non-empty
   range, ends with an identifier token, and the program's own range ends where the last
   declaration ends or later ([hi]: the trailing slice starts there).
   One pass over text and tokens: [rest] is the text from byte offset [off] on. *)
Definition clean_head (s : text) : bool :=
  match s with c :: _ => negb ((c =? 10)%N || (c =? 13)%N) | [] => false end.

Fixpoint toks_wf_from (rest : text) (off : N) (l : list token) : bool :=
  match l with
  | [] => true
  | k :: r =>
      (off <=? ts k)%N && (ts k <=? te k)%N &&
      match split_bytes (ts k - off) rest with
      | Some (_, rest1) =>
          match split_bytes (te k - ts k) rest1 with
          | Some (_, rest2) =>
              match r with [] => true | _ :: _ => (ts k <? te k)%N && clean_head rest1 end
              && toks_wf_from rest2 (te k) r
          | None => false
          end
      | None => false
      end
  end.

Definition is_ident (k : kind) : bool := match k with Ident _ => true | _ => false end.

Definition name_is_ident (toks : list token) (off : nat) (n : option ident) : bool :=
  match n with
  | Some i =>
      if Nat.ltb (i_s (id_info i)) (i_e (id_info i)) then
        match nth_error toks (off + i_e (id_info i) - 1) with
        | Some k => is_ident (tk k)
        | None => false
        end
      else true
  | None => true
  end.

Fixpoint decls_wf_b (toks : list token) (lo : nat) (l : list (gdecl * nat)) (hi : nat) : bool :=
  match l with
  | [] => Nat.leb lo hi
  | (g, off) :: r =>
      let inf := gdecl_info g in
      Nat.leb lo (off + i_s inf) && Nat.leb (i_s inf) (i_e inf) && Nat.leb (off + i_e inf) (length toks)
      && name_is_ident toks off (gdecl_name g)
      && decls_wf_b toks (off + i_e inf) r hi
  end.

Definition doc_wf_b (d : doc) : bool :=
  toks_wf_from (d_text d) 0 (d_toks d)
  && decls_wf_b (d_toks d) 0 (pg_decls (d_ast d)) (i_e (pg_info (d_ast d))).

(* ---- specification side (used by Proofs/SemTokProofs.v and by the judge) ---- *)
Local Open Scope N_scope.
(* what an editor sees of a reported token *)
Definition tok_len (t : text) (k : token) : N :=
  match text_slice t (ts k) (te k) with Some m => u16s m | None => 0 end.

Definition tok_view (t : text) (e : token * (N * N)) : abstok :=
  {| at_line := fst (as_position (ts (fst e)) t); at_col := snd (as_position (ts (fst e)) t);
     at_len := tok_len t (fst e); at_ty := fst (snd e); at_mod := snd (snd e) |}.


(* Every identifier occurrence of the syntax tree with the absolute index of its token (the last
   token of its range) and the class the property prescribes for it: decided by the syntactic ROLE
   of the occurrence (declared name / type position / variable position / callee), not by looking
   the spelling up.  Ranges and offsets are relative to the enclosing Reference, as in Errors.v. *)
Local Open Scope nat_scope.

Definition occ := (nat * option (N * N))%type.

Definition ident_at (base : nat) (i : ident) (c : option (N * N)) : list occ :=
  if Nat.ltb (i_s (id_info i)) (i_e (id_info i)) then [(base + i_e (id_info i) - 1, c)] else [].

(* a name in variable position denotes the parameter or variable of that name of the procedure *)
Definition var_use_class (l : option ltable) (name : text) : option (N * N) :=
  match l with
  | Some lt =>
      match lookup lt name with
      | Some (LVar _) => Some (ty_variable, mod_none)
      | Some (LParam _) => Some (ty_parameter, mod_none)
      | None => None
      end
  | None => None
  end.

Fixpoint var_occs (l : option ltable) (base : nat) (v : variable) : list occ :=
  match v with
  | NamedVar n => ident_at base n (var_use_class l (id_val n))
  | ArrAccess a idx _ =>
      var_occs l base a ++ match idx with Some (e, off) => expr_occs l (base + off) e | None => [] end
  end
with expr_occs (l : option ltable) (base : nat) (e : expr) : list occ :=
  match e with
  | EBin _ a b _ => expr_occs l base a ++ expr_occs l base b
  | EBrack a _ | EUn _ a _ => expr_occs l base a
  | EInt _ | EErr _ => []
  | EVar v => var_occs l base v
  end.

Fixpoint texpr_occs (base : nat) (t : typeexpr) : list occ :=
  match t with
  | TNamed n => ident_at base n (Some (ty_type, mod_none))
  | TArray _ b _ => match b with Some (b', off) => texpr_occs (base + off) b' | None => [] end
  end.

Definition opt_texpr_occs (base : nat) (t : option (typeexpr * nat)) : list occ :=
  match t with Some (x, off) => texpr_occs (base + off) x | None => [] end.
Definition opt_expr_occs (l : option ltable) (base : nat) (e : option (expr * nat)) : list occ :=
  match e with Some (x, off) => expr_occs l (base + off) x | None => [] end.

Fixpoint stmt_occs (l : option ltable) (base : nat) (s : stmt) : list occ :=
  let opt_stmt (r : option (stmt * nat)) : list occ :=
    match r with Some (x, off) => stmt_occs l (base + off) x | None => [] end in
  match s with
  | SEmpty _ | SError _ => []
  | SAssign v e _ => var_occs l base v ++ opt_expr_occs l base e
  | SCall name args _ =>
      ident_at base name (Some (ty_function, mod_none))
      ++ flat_map (fun a => expr_occs l (base + snd a) (fst a)) args
  | SIf c t e _ => opt_expr_occs l base c ++ opt_stmt t ++ opt_stmt e
  | SWhile c b _ => opt_expr_occs l base c ++ opt_stmt b
  | SBlock body _ =>
      (fix go (ss : list (stmt * nat)) : list occ :=
         match ss with [] => [] | (x, off) :: r => stmt_occs l (base + off) x ++ go r end) body
  end.

Definition opt_ident_at (base : nat) (n : option ident) (c : N * N) : list occ :=
  match n with Some i => ident_at base i (Some c) | None => [] end.

Definition param_occs (base : nat) (p : paramdecl * nat) : list occ :=
  match fst p with
  | PValid _ _ name ty _ =>
      opt_ident_at (base + snd p) name (ty_parameter, mod_decl) ++ opt_texpr_occs (base + snd p) ty
  | PError _ => []
  end.

Definition vardecl_occs (base : nat) (v : vardecl * nat) : list occ :=
  match fst v with
  | VValid _ name ty _ =>
      opt_ident_at (base + snd v) name (ty_variable, mod_decl) ++ opt_texpr_occs (base + snd v) ty
  | VError _ => []
  end.

Definition decl_occs (table : gtable) (g : gdecl) (off : nat) : list occ :=
  match g with
  | GType td => opt_ident_at off (td_name td) (ty_type, mod_decl) ++ opt_texpr_occs off (td_ty td)
  | GProc pd =>
      let l := get_local_table pd table in
      opt_ident_at off (pd_name pd) (ty_function, mod_decl)
      ++ flat_map (param_occs off) (pd_params pd)
      ++ flat_map (vardecl_occs off) (pd_vars pd)
      ++ flat_map (fun s => stmt_occs l (off + snd s) (fst s)) (pd_stmts pd)
  | GError _ => []
  end.

Definition doc_occs (d : doc) : list occ :=
  flat_map (fun go => decl_occs (d_table d) (fst go) (snd go)) (pg_decls (d_ast d)).

