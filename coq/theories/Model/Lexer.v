(* spl_frontend::lexer — `Token::lex`, `lex`.
   `lex_raw` is position independent: it returns the kind, the lexical errors relative to the
   start of the token, the lexeme (a prefix of the input) and the rest. *)
From Spl Require Export Model.Token.

Definition u32_limit : N := 4294967296.

Fixpoint first_match (tbl : list (text * kind)) (s : text) : option (text * kind) :=
  match tbl with
  | [] => None
  | (p, k) :: tbl' => if starts p s then Some (p, k) else first_match tbl' s
  end.

(* lex_keyword!: peek(alt((eof, verify(take(1), !is_alpha_numeric)))) *)
Definition kw_ok (rest : text) : bool :=
  match rest with [] => true | c :: _ => negb (is_alnum_trunc c) end.

Fixpoint first_kw (tbl : list (text * kind)) (s : text) : option (text * kind) :=
  match tbl with
  | [] => None
  | (p, k) :: tbl' =>
      if starts p s && kw_ok (skipn (length p) s) then Some (p, k) else first_kw tbl' s
  end.

Definition digit_val (c : char) : N := c - 48.
Definition hex_val (c : char) : N :=
  if is_digit c then c - 48 else if c <=? 70 then c - 55 else c - 87.
Definition dec_value (s : text) : N := fold_left (fun a c => a * 10 + digit_val c) s 0.
Definition hex_value (s : text) : N := fold_left (fun a c => a * 16 + hex_val c) s 0.

Definition mkerr (a b : N) (m : lexmsg) : lerr := {| le_s := a; le_e := b; le_m := m |}.

Definition lexres := (kind * list lerr * text * text)%type.

Definition not_nl (c : char) : bool := negb (c =? 10).

(* Comment::lex: delimited(tag("//"), take_till(|c| c == '\n'), alt((tag("\n"), eof))) *)
Definition lex_comment (s : text) : option lexres :=
  if starts [47; 47] s then
    let body := fst (span not_nl (skipn 2 s)) in
    match snd (span not_nl (skipn 2 s)) with
    | [] => Some (Comment body, [], [47; 47] ++ body, [])
    | nl :: rest => Some (Comment body, [], [47; 47] ++ body ++ [nl], rest)
    end
  else None.

Definition lex_sym (s : text) : option lexres :=
  match first_match sym_table s with
  | Some (p, k) => Some (k, [], p, skipn (length p) s)
  | None => None
  end.

Definition lex_kw (s : text) : option lexres :=
  match first_kw kw_table s with
  | Some (p, k) => Some (k, [], p, skipn (length p) s)
  | None => None
  end.

(* CharT::lex *)
Definition lex_char (s : text) : option lexres :=
  match s with
  | 39 :: r =>
      let body :=
        if starts [92; 110] r then Some (10, [39; 92; 110], skipn 2 r)
        else match r with [] => None | x :: r2 => Some (x, [39; x], r2) end in
      match body with
      | None => None
      | Some (c, lx, r2) =>
          match r2 with
          | 39 :: r3 => Some (CharT c, [], lx ++ [39], r3)
          | _ => Some (CharT c, [mkerr (blen lx) (blen lx) MissingClosingTick], lx, r2)
          end
      end
  | _ => None
  end.

(* HexT::lex *)
Definition lex_hex (s : text) : option lexres :=
  if starts [48; 120] s then
    let d := fst (span is_hex (skipn 2 s)) in
    let rest := snd (span is_hex (skipn 2 s)) in
    match d with
    | [] => Some (HexT (IntErr []), [mkerr 2 2 ExpectedHexNumber], [48; 120], rest)
    | _ =>
        if hex_value d <? u32_limit then Some (HexT (IntOk (hex_value d)), [], [48; 120] ++ d, rest)
        else Some (HexT (IntErr d), [mkerr 2 (2 + blen d) (InvalidIntLit ([48; 120] ++ d))],
                   [48; 120] ++ d, rest)
    end
  else None.

(* IntT::lex *)
Definition lex_int (s : text) : option lexres :=
  let d := fst (span is_digit s) in
  let rest := snd (span is_digit s) in
  match d with
  | [] => None
  | _ =>
      if dec_value d <? u32_limit then Some (IntT (IntOk (dec_value d)), [], d, rest)
      else Some (IntT (IntErr d), [mkerr 0 (blen d) (InvalidIntLit d)], d, rest)
  end.

(* Ident::lex *)
Definition lex_ident (s : text) : option lexres :=
  match s with
  | c :: r =>
      if is_ident_start c then
        Some (Ident (c :: fst (span is_alnum_trunc r)), [], c :: fst (span is_alnum_trunc r),
              snd (span is_alnum_trunc r))
      else None
  | [] => None
  end.

Definition lex_unknown (s : text) : option lexres :=
  match s with c :: r => Some (Unknown [c], [], [c], r) | [] => None end.

Definition orelse {A} (a : option A) (b : option A) : option A :=
  match a with Some _ => a | None => b end.

(* Token::lex: the outer alt, in order *)
Definition lex_raw (s : text) : option lexres :=
  orelse (lex_comment s) (orelse (lex_sym s) (orelse (lex_kw s) (orelse (lex_char s)
    (orelse (lex_hex s) (orelse (lex_int s) (orelse (lex_ident s) (lex_unknown s))))))).

Definition mk_token (off : N) (k : kind) (errs : list lerr) (lx : text) : token :=
  {| tk := k; ts := off; te := off + blen lx; terr := map (shift_err off) errs |}.

Definition eof_token (off : N) : token := {| tk := Eof; ts := off; te := off; terr := [] |}.

(* many0(preceded(multispace0, Token::lex)) followed by preceded(multispace0, Eof::lex).
   [None] is fuel exhaustion; [lex_total] proves it unreachable. *)
Fixpoint lex_from (fuel : nat) (off : N) (s : text) : option (list token) :=
  match fuel with
  | O => None
  | S f =>
      let ws := fst (span is_ws s) in
      let s1 := snd (span is_ws s) in
      let off1 := off + blen ws in
      match lex_raw s1 with
      | None => Some [eof_token off1]
      | Some (k, errs, lx, rest) =>
          match lex_from f (off1 + blen lx) rest with
          | Some tl => Some (mk_token off1 k errs lx :: tl)
          | None => None
          end
      end
  end.

Definition lex (s : text) : option (list token) := lex_from (S (length s)) 0 s.
