(* lsp4spl/src/features/completion.rs - `textDocument/completion` (`propose`), transcribed literally:
   the position classifier (`correct_index`, `token_before`, the signature / variable-declaration /
   statement test, the walk through nested statements) and the item constructors.  The Rust code
   iterates `HashMap`s (`search_*`), so the ORDER of the entry-derived items is unspecified; the model
   lists them in insertion order and every observer compares multisets.
   Panic sites: the token slices and `to_text_range` (Table.v sites), all explicit as `RFail`. *)
From Coq Require Import String.
From Spl Require Export Model.SemTok Base.Show.

Local Open Scope nat_scope.

(* lsp_types::CompletionItem, the fields the handler fills *)
Record item := {
  it_label : text;
  it_kind : N;                 (* CompletionItemKind *)
  it_detail : option text;
  it_doc : option text;        (* Documentation::MarkupContent { kind: Markdown, value } *)
  it_insert : option text;     (* insert_text; insert_text_format = SNIPPET exactly when present *)
}.

Definition kind_function : N := 3.
Definition kind_variable : N := 6.
Definition kind_keyword : N := 14.
Definition kind_snippet : N := 15.
Definition kind_struct : N := 22.

(* ---- Display of table entries (table.rs) ---- *)
Fixpoint show_dtype (d : dtype) : text :=
  match d with
  | DInt => str "int"
  | DBool => str "boolean"
  | DArray size base _ =>
      (str "array [" ++ (match size with Some n => print_dec n | None => str "_" end) ++ str "] of "
       ++ (match base with Some b => show_dtype b | None => str "_" end))%list
  end.

Definition show_odtype (d : option dtype) : text :=
  match d with Some t => show_dtype t | None => str "_" end.

Definition show_ventry (v : ventry) : text :=
  ((if ve_ref v then str "ref " else []) ++ id_val (ve_name v) ++ str ": " ++ show_odtype (ve_ty v))%list.

Fixpoint join_comma (l : list text) : text :=
  match l with
  | [] => []
  | [x] => x
  | x :: r => (x ++ str ", " ++ join_comma r)%list
  end.

Definition show_pentry (p : pentry) : text :=
  (str "proc " ++ id_val (pe_name p) ++ str "(" ++ join_comma (map show_ventry (pe_params p)) ++ str ")")%list.

Definition show_gentry (g : gentry) : text :=
  match g with GTypeE t => show_odtype (ten_ty t) | GProcE p => show_pentry p end.

Definition show_lentry (l : lentry) : text :=
  match l with LVar v | LParam v => show_ventry v end.

Definition gentry_doc (g : gentry) : option text :=
  match g with GTypeE t => ten_doc t | GProcE p => pe_doc p end.
Definition lentry_doc (l : lentry) : option text :=
  match l with LVar v | LParam v => ve_doc v end.

(* ---- mod items / mod snippets ---- *)
Definition kw_item (label : string) : item :=
  {| it_label := str label; it_kind := kind_keyword; it_detail := None; it_doc := None; it_insert := None |}.
Definition snippet (label : string) (t : text) : item :=
  {| it_label := str label; it_kind := kind_snippet; it_detail := None; it_doc := None; it_insert := Some t |}.

Definition nl4 : text := [10; 32; 32; 32; 32]%N.    (* "\n    " *)

Definition item_array := kw_item "array".
Definition item_of := kw_item "of".
Definition item_if := kw_item "if".
Definition item_else := kw_item "else".
Definition item_while := kw_item "while".
Definition item_type := kw_item "type".
Definition item_proc := kw_item "proc".
Definition item_var := kw_item "var".
Definition item_ref := kw_item "ref".

Definition snip_main := snippet "main" (str "proc main() {" ++ nl4 ++ str "$0" ++ [10%N] ++ str "}")%list.
Definition snip_array := snippet "array" (str "array [$1] of $0").
Definition snip_proc := snippet "proc" (str "proc $1($2) {" ++ nl4 ++ str "$0" ++ [10%N] ++ str "}")%list.
Definition snip_var := snippet "var" (str "var $1: $0;").
Definition snip_type := snippet "type" (str "type $1 = $0;").
(* the Rust identifiers are crossed over (`snippet!(r#if, "while", ..)`), labels and texts agree *)
Definition snip_if := snippet "while" (str "while ($1) {" ++ nl4 ++ str "$0" ++ [10%N] ++ str "}")%list.
Definition snip_while := snippet "if" (str "if ($1) {" ++ nl4 ++ str "$0" ++ [10%N] ++ str "}")%list.
Definition snip_else := snippet "else" (str "else {" ++ nl4 ++ str "$0" ++ [10%N] ++ str "}")%list.

(* ---- search_and_create_items! ---- *)
Definition entry_item {V} (show : V -> text) (doc : V -> option text) (kind : N) (kv : text * V) : item :=
  {| it_label := fst kv; it_kind := kind; it_detail := Some (show (snd kv));
     it_doc := match doc (snd kv) with Some d => Some (trim_start d) | None => None end;
     it_insert := None |}.

Definition is_type_entry (g : gentry) : bool := match g with GTypeE _ => true | GProcE _ => false end.
Definition is_proc_entry (g : gentry) : bool := match g with GProcE _ => true | GTypeE _ => false end.

Definition search_types (g : gtable) : list item :=
  map (entry_item show_gentry gentry_doc kind_struct) (filter (fun kv => is_type_entry (snd kv)) g).
Definition search_procedures (g : gtable) : list item :=
  map (entry_item show_gentry gentry_doc kind_function) (filter (fun kv => is_proc_entry (snd kv)) g).
Definition search_variables (l : ltable) : list item :=
  map (entry_item show_lentry lentry_doc kind_variable) l.

(* new_stmt(lookup_table) with global_table = Some(table) *)
Definition new_stmt (l : option ltable) (g : gtable) : list item :=
  [snip_if; snip_while; item_if; item_while]
  ++ (match l with Some t => search_variables t | None => [] end)
  ++ search_procedures g.

Definition new_global_declaration (g : gtable) : list item :=
  [snip_proc; snip_type; item_proc; item_type]
  ++ match lookup g s_main with
     | Some (GProcE _) => []
     | _ => [snip_main]
     end.

(* ---- tokens.rs: TokenList::token_before ---- *)
Fixpoint tb_loop (toks : list token) (index : N) (current : token) : token :=
  match toks with
  | [] => current
  | t :: r => if (index <=? ts t)%N then current else tb_loop r index t
  end.

Definition token_before (toks : list token) (index : N) : option token :=
  match toks with
  | [] => None
  | first :: _ => if (index <? ts first)%N then None else Some (tb_loop toks index first)
  end.

Definition correct_index (index : N) : N := if (0 <? index)%N then (index - 1)%N else 0%N.

(* ---- complete_type ---- *)
Definition complete_type (position : N) (toks : list token) (g : gtable) : option (list item) :=
  match token_before toks position with
  | None => None
  | Some last =>
      match tk last with
      | RBracket => Some [item_of]
      | EqT | KOf => Some ([snip_array; item_array] ++ search_types g)
      | _ => None
      end
  end.

(* ---- complete_vars ---- *)
Definition complete_vars (toks : list token) (position : N) (l : option ltable) (start : kind)
  : option (list item) :=
  match find (fun t => kind_eqb (tk t) start) toks with
  | Some st =>
      if (te st <=? position)%N then
        match l with Some lt => Some (search_variables lt) | None => None end
      else None
  | None => None
  end.

Definition is_if (s : stmt) : bool := match s with SIf _ _ _ _ => true | _ => false end.
Definition is_rcurly (k : kind) : bool := match k with RCurly => true | _ => false end.

(* the `.map(..).find(..)` of complete_statements for one element: the statement's own token slice
   and whether its text range contains the position *)
Definition stmt_slice (toks : list token) (s : stmt) (off : nat) : res (list token) :=
  do tl <- slice_from toks off;
  slice tl (info_range (stmt_info s)).

Definition stmt_here (toks : list token) (s : stmt) (off : nat) (position : N) : res (list token * bool) :=
  do sl <- stmt_slice toks s off;
  do tr <- info_text_range sl (stmt_info s);
  ROk (sl, in_range tr position).

(* complete_statement, with complete_statements for the body of a block inlined as [go] *)
Fixpoint complete_statement (s : stmt) (position : N) (toks : list token) (last : token)
         (last_stmt_is_if : bool) (l : option ltable) (g : gtable) {struct s} : res (option (list item)) :=
  if last_stmt_is_if && is_rcurly (tk last) then
    ROk (Some ([snip_else; item_else] ++ new_stmt l g))
  else
    match s with
    | SBlock body _ =>
        (fix go (stmts : list (stmt * nat)) (prev_if : bool) {struct stmts} : res (option (list item)) :=
           match stmts with
           | [] => ROk (Some (new_stmt l g))
           | (st, off) :: r =>
               do tl <- slice_from toks off;
               do sl <- slice tl (info_range (stmt_info st));
               do tr <- info_text_range sl (stmt_info st);
               if in_range tr position
               then complete_statement st position sl last prev_if l g
               else go r (is_if st)
           end) body false
    | SAssign _ _ _ => ROk (complete_vars toks position l Assign)
    | SCall _ _ _ => ROk (complete_vars toks position l LParen)
    | SIf _ thn els _ =>
        let try_branch (b : option (stmt * nat)) (otherwise : res (option (list item))) :=
          match b with
          | Some (st, off) =>
              do tl <- slice_from toks off;
              do sl <- slice tl (info_range (stmt_info st));
              do tr <- info_text_range sl (stmt_info st);
              if in_range tr position
              then complete_statement st position sl last false l g
              else otherwise
          | None => otherwise
          end in
        try_branch thn (try_branch els (ROk (complete_vars toks position l LParen)))
    | SWhile _ body _ =>
        match body with
        | Some (st, off) =>
            do tl <- slice_from toks off;
            do sl <- slice tl (info_range (stmt_info st));
            do tr <- info_text_range sl (stmt_info st);
            if in_range tr position
            then complete_statement st position sl last false l g
            else ROk (complete_vars toks position l LParen)
        | None => ROk (complete_vars toks position l LParen)
        end
    | SError _ | SEmpty _ => ROk (Some (new_stmt l g))
    end.

(* complete_statements *)
Fixpoint complete_statements (stmts : list (stmt * nat)) (position : N) (toks : list token) (last : token)
         (prev_if : bool) (l : option ltable) (g : gtable) : res (option (list item)) :=
  match stmts with
  | [] => ROk (Some (new_stmt l g))
  | (st, off) :: r =>
      do tl <- slice_from toks off;
      do sl <- slice tl (info_range (stmt_info st));
      do tr <- info_text_range sl (stmt_info st);
      if in_range tr position
      then complete_statement st position sl last prev_if l g
      else complete_statements r position toks last (is_if st) l g
  end.

Definition is_real_stmt (s : stmt * nat) : bool :=
  match fst s with SError _ | SEmpty _ => false | _ => true end.

Definition is_sig_end (t : token) : bool :=
  match tk t with RParen | LCurly => true | _ => false end.

(* ---- complete_procedure ---- *)
Definition complete_procedure (pd : procdecl) (position : N) (toks : list token) (g : gtable)
  : res (option (list item)) :=
  match token_before toks position with
  | None => ROk None
  | Some last =>
      let in_signature :=
        match find is_sig_end toks with
        | Some t => (position <? ts t)%N
        | None => true
        end in
      if in_signature then
        ROk (match tk last with
             | LParen | Comma => Some [item_ref]
             | Colon | KOf => Some (search_types g)
             | _ => None
             end)
      else
        let l := get_local_table pd g in
        do in_statements <-
          match find is_real_stmt (pd_stmts pd) with
          | Some (st, off) =>
              do tl <- slice_from toks off;
              do tr <- info_text_range tl (stmt_info st);
              ROk (fst tr <=? position)%N
          | None => ROk false
          end;
        if in_statements then complete_statements (pd_stmts pd) position toks last false l g
        else
          ROk (match tk last with
               | Colon | KOf => Some (search_types g)
               | Semic | LCurly => Some ([snip_var; item_var] ++ new_stmt l g)
               | _ => None
               end)
  end.

Definition is_semic (k : kind) : bool := match k with Semic => true | _ => false end.

(* ---- propose ---- *)
Definition propose (d : doc) (line col : N) : res (option (list item)) :=
  do c <- doc_cursor d line col;
  let g := d_table d in
  let toks := d_toks d in
  let position := correct_index (c_index c) in
  do found <- find_decl toks position (pg_decls (d_ast d));
  match found with
  | Some (gd, off) =>
      do tl <- slice_from toks off;
      match gd with
      | GType td =>
          do sl <- slice tl (info_range (td_info td));
          ROk (complete_type position sl g)
      | GProc pd =>
          do sl <- slice tl (info_range (pd_info pd));
          complete_procedure pd position sl g
      | GError _ => ROk (Some (new_global_declaration g))
      end
  | None =>
      match last (map Some (pg_decls (d_ast d))) None with
      | Some (GType td, off) =>
          do tl <- slice_from toks off;
          do sl <- slice tl (info_range (td_info td));
          match last (map Some sl) None with
          | Some lt =>
              if is_semic (tk lt) then ROk (Some (new_global_declaration g))
              else ROk (complete_type position tl g)
          | None => ROk (Some (new_global_declaration g))
          end
      | _ => ROk (Some (new_global_declaration g))
      end
  end.

(* ==========================================================================================
   Specification side (used by Proofs/CompletionProofs.v and by the judge): the four position
   classes of C16, decided from the tokens and the syntax tree of a document, and what the property
   prescribes there.  A cursor position is classified by the significant (non-comment) token that
   ends at or before it and the one that starts at or after it; a position inside a token or
   strictly inside a comment belongs to no class. *)
Definition is_comment (k : kind) : bool := match k with Comment _ => true | _ => false end.

Fixpoint indexed {A} (i : nat) (l : list A) : list (nat * A) :=
  match l with [] => [] | x :: r => (i, x) :: indexed (S i) r end.

Definition sig_tokens (toks : list token) : list (nat * token) :=
  filter (fun it => negb (is_comment (tk (snd it)))) (indexed 0 toks).

Fixpoint around (idx : N) (prev : option (nat * token)) (l : list (nat * token))
  : option (option (nat * token) * option (nat * token)) :=
  match l with
  | [] => Some (prev, None)
  | (i, k) :: r =>
      if (idx <=? ts k)%N then Some (prev, Some (i, k))
      else if (te k <=? idx)%N then around idx (Some (i, k)) r
      else None
  end.

Definition in_comment (toks : list token) (idx : N) : bool :=
  existsb (fun c => is_comment (tk c) && (ts c <? idx)%N && (idx <? te c)%N) toks.

Definition decl_of (decls : list (gdecl * nat)) (i : nat) : option (gdecl * nat) :=
  find (fun go => Nat.leb (snd go + i_s (gdecl_info (fst go))) i && Nat.ltb i (snd go + i_e (gdecl_info (fst go)))) decls.

(* absolute starts of the token ranges of all statements (nested ones included) and the absolute
   indices of the closing braces of all blocks *)
Fixpoint stmt_marks (base : nat) (s : stmt) : list nat * list nat :=
  let opt (r : option (stmt * nat)) : list nat * list nat :=
    match r with Some (x, off) => stmt_marks (base + off) x | None => ([], []) end in
  let here := base + i_s (stmt_info s) in
  match s with
  | SIf _ t e _ => (here :: fst (opt t) ++ fst (opt e), snd (opt t) ++ snd (opt e))
  | SWhile _ b _ => (here :: fst (opt b), snd (opt b))
  | SBlock body inf =>
      let inner :=
        (fix go (ss : list (stmt * nat)) : list nat * list nat :=
           match ss with
           | [] => ([], [])
           | (x, off) :: r => let m := stmt_marks (base + off) x in let n := go r in (fst m ++ fst n, snd m ++ snd n)
           end) body in
      (here :: fst inner, (base + i_e inf - 1) :: snd inner)
  | _ => ([here], [])
  end.

Definition proc_marks (pd : procdecl) (off : nat) : list nat * list nat :=
  fold_right (fun so acc => let m := stmt_marks (off + snd so) (fst so) in (fst m ++ fst acc, snd m ++ snd acc))
             ([], [off + i_e (pd_info pd) - 1]) (pd_stmts pd).

(* index of the first significant token at or after the token index a *)
Definition next_sig (sigs : list (nat * token)) (a : nat) : option nat :=
  match find (fun it => Nat.leb a (fst it)) sigs with Some (i, _) => Some i | None => None end.

Definition is_lcurly (k : kind) : bool := match k with LCurly => true | _ => false end.

Inductive pclass := PStmt (pd : procdecl) | PExpr (pd : procdecl) | PType | PTop.

Definition nat_in (x : nat) (l : list nat) : bool := existsb (Nat.eqb x) l.

Definition position_class (d : doc) (idx : N) : option pclass :=
  let toks := d_toks d in
  let sigs := sig_tokens toks in
  let decls := pg_decls (d_ast d) in
  if in_comment toks idx then None else
  match around idx None sigs with
  | None => None
  | Some (before, after) =>
      let top :=
        match before with
        | None => true
        | Some (i, _) => existsb (fun go => Nat.eqb (snd go + i_e (gdecl_info (fst go))) (S i)) decls
        end in
      if top then Some PTop else
      match before with
      | None => None
      | Some (i, k) =>
          match decl_of decls i with
          | Some (GProc pd, off) =>
              let body_start :=
                match find (fun it => Nat.leb (off + i_s (pd_info pd)) (fst it) && is_lcurly (tk (snd it))) sigs with
                | Some (b, _) => b
                | None => off + i_e (pd_info pd)
                end in
              let in_body := Nat.leb body_start i in
              match tk k with
              | Assign => Some (PExpr pd)
              | Colon => Some PType
              | _ =>
                  if in_body && match tk k with LParen => true | _ => false end then Some (PExpr pd)
                  else
                    let marks := proc_marks pd off in
                    let firsts := flat_map (fun a => match next_sig sigs a with Some j => [j] | None => [] end) (fst marks) in
                    match after with
                    | Some (j, _) =>
                        if in_body && (nat_in j firsts || nat_in j (snd marks)) then Some (PStmt pd) else None
                    | None => None
                    end
              end
          | _ => None
          end
      end
  end.

Definition item_eqb (a b : item) : bool :=
  let o (x y : option text) := match x, y with Some p, Some q => text_eqb p q | None, None => true | _, _ => false end in
  text_eqb (it_label a) (it_label b) && (it_kind a =? it_kind b)%N && o (it_detail a) (it_detail b)
  && o (it_doc a) (it_doc b) && o (it_insert a) (it_insert b).

Definition items_eqb (a b : list item) : bool := list_eqb item_eqb a b.

Definition is_var (i : item) : bool := (it_kind i =? kind_variable)%N.
Definition is_fun (i : item) : bool := (it_kind i =? kind_function)%N.
Definition is_struct (i : item) : bool := (it_kind i =? kind_struct)%N.

(* what C16 prescribes at a position of the given class, decided for one answer *)
Definition meets (d : doc) (c : pclass) (r : res (option (list item))) : bool :=
  let g := d_table d in
  match r with
  | ROk (Some items) =>
      match c with
      | PStmt pd =>
          items_eqb (filter is_var items) (match get_local_table pd g with Some lt => search_variables lt | None => [] end)
          && items_eqb (filter is_fun items) (search_procedures g)
      | PExpr pd =>
          items_eqb (filter is_var items) (match get_local_table pd g with Some lt => search_variables lt | None => [] end)
      | PType => items_eqb (filter is_struct items) (search_types g)
      | PTop => items_eqb items (new_global_declaration g)
      end
  | _ => false
  end.

(* a program the property speaks about: no diagnostics, except that `main` may be missing (the
   property covers the main snippet, which is offered exactly then) *)
Definition valid_doc (d : doc) : bool :=
  match doc_errors d with
  | Done [] => true
  | Done [(_, _, EBuild MainIsMissing)] => true
  | _ => false
  end.

(* 0 = no claim at this position (document with diagnostics, or position in no class),
   1 = the answer is what the property prescribes, 2 = it is not *)
Definition full_flag_of (d : doc) (line col : N) (answer : res (option (list item))) : N :=
  if valid_doc d then
    match position_class d (get_insertion_index line col (d_text d)) with
    | Some c => if meets d c answer then 1 else 2
    | None => 0
    end%N
  else 0%N.

Definition full_flag (d : doc) (line col : N) : N := full_flag_of d line col (propose d line col).

(* ---- executable well-formedness of the tree, as far as `propose` depends on it: every global
   declaration and every statement (they all sit behind a Reference) has a range that starts at its
   own Reference (i_s = 0), is not empty and lies inside its parent's range / the token vector
   (CompletionProofs.propose_total: then `propose` never panics) ---- *)
Fixpoint stmt_wf_b (s : stmt) : bool :=
  Nat.eqb (i_s (stmt_info s)) 0 && Nat.ltb 0 (i_e (stmt_info s)) &&
  let child (o : option (stmt * nat)) : bool :=
    match o with
    | Some (c, off) => Nat.leb (off + i_e (stmt_info c)) (i_e (stmt_info s)) && stmt_wf_b c
    | None => true
    end in
  match s with
  | SIf _ t e _ => child t && child e
  | SWhile _ b _ => child b
  | SBlock body _ =>
      (fix go (l : list (stmt * nat)) : bool :=
         match l with
         | [] => true
         | (c, off) :: r => Nat.leb (off + i_e (stmt_info c)) (i_e (stmt_info s)) && stmt_wf_b c && go r
         end) body
  | _ => true
  end.

Definition child_wf_b (len : nat) (co : stmt * nat) : bool :=
  Nat.leb (snd co + i_e (stmt_info (fst co))) len && stmt_wf_b (fst co).

Definition decl_cwf_b (toks : list token) (go : gdecl * nat) : bool :=
  Nat.eqb (i_s (gdecl_info (fst go))) 0 && Nat.ltb 0 (i_e (gdecl_info (fst go)))
  && Nat.leb (snd go + i_e (gdecl_info (fst go))) (length toks)
  && match fst go with
     | GProc pd => forallb (child_wf_b (i_e (pd_info pd))) (pd_stmts pd)
     | _ => true
     end.

Definition compl_wf_b (d : doc) : bool := forallb (decl_cwf_b (d_toks d)) (pg_decls (d_ast d)).
