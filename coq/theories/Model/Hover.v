(* lsp4spl/src/features/hover.rs - textDocument/hover, with the `Display` implementations of the
   table entries (spl_frontend/src/table.rs:294-386) and `ToSpl` (features.rs) that build the
   markdown text.

   hover(doc, position):
     cursor  = doc_cursor(position)              (Model/Cursor.v; can fail on a token slice)
     ident   = cursor.ident()                    the FIRST token whose byte range contains the index
     context = table entry of the enclosing global declaration
       Type context       -> global table lookup of the identifier
       Procedure context  -> features.rs lookup_table_for(global table, local table of the context
                             procedure, global_position).lookup(identifier): the local table first,
                             then the global table - but the global table ONLY when
                             cursor.is_global_position() (the previous non-comment token in front of
                             the first token under the cursor is `proc`, `type`, `:` or `of`: the name
                             of a global declaration / a name inside a type expression; Model/Cursor.v)
     answer  = ("```spl\n" ++ Display(entry) ++ "\n```" ++ documentation, as_pos_range(token range))
     documentation = "" without doc comment, else "\n---\n" ++ doc.trim_start() ++ "\n"
   where `doc` is the CONCATENATION of the doc comment contents (text after `//` up to, not
   including, the line feed - a carriage return of a CRLF line end stays in) without separator
   (table/build.rs get_documentation). *)
From Coq Require Import String.
From Spl Require Export Model.Cursor.
Local Open Scope N_scope.

(* ---- impl Display for DataType / VariableEntry / ProcedureEntry / TypeEntry / Entry ---- *)
Definition s_underscore : text := [95].

Fixpoint show_dtype (d : dtype) : text :=
  match d with
  | DInt => str "int"
  | DBool => str "boolean"
  | DArray size base _ =>
      str "array [" ++ match size with Some n => print_dec n | None => s_underscore end
      ++ str "] of " ++ match base with Some b => show_dtype b | None => s_underscore end
  end.

Definition show_opt_dtype (d : option dtype) : text :=
  match d with Some t => show_dtype t | None => s_underscore end.

Definition show_ventry (v : ventry) : text :=
  (if ve_ref v then str "ref " else []) ++ id_val (ve_name v) ++ str ": " ++ show_opt_dtype (ve_ty v).

(* [String]::join(sep) *)
Fixpoint join (sep : text) (l : list text) : text :=
  match l with
  | [] => []
  | [x] => x
  | x :: r => x ++ sep ++ join sep r
  end.

Definition show_pentry (p : pentry) : text :=
  str "proc " ++ id_val (pe_name p) ++ str "(" ++ join (str ", ") (map show_ventry (pe_params p)) ++ str ")".

Definition show_tentry (t : tentry) : text := show_opt_dtype (ten_ty t).

Definition show_entry (e : entry) : text :=
  match e with
  | EntProc p => show_pentry p
  | EntType t => show_tentry t
  | EntVar v | EntParam v => show_ventry v
  end.

(* impl TableEntry for Entry: doc() *)
Definition entry_doc (e : entry) : option text :=
  match e with
  | EntProc p => pe_doc p
  | EntType t => ten_doc t
  | EntVar v | EntParam v => ve_doc v
  end.

(* impl ToSpl for String *)
Definition to_spl (s : text) : text := str "```spl" ++ [10] ++ s ++ [10] ++ str "```".

(* the documentation part of create_hover *)
Definition hover_documentation (doc : option text) : text :=
  match doc with
  | None => []
  | Some d => [10] ++ str "---" ++ [10] ++ trim_start d ++ [10]
  end.

Definition prange := ((N * N) * (N * N))%type.

(* Hover { contents: Markup(markdown, value), range: Some(range) } as (value, range) *)
Definition create_hover (e : entry) (r : prange) : text * prange :=
  (to_spl (show_entry e) ++ hover_documentation (entry_doc e), r).

(* the entry hover looks up for an identifier, given the context and `global_position`
   (computed from the cursor BEFORE the match on the context; it has no effect in a Type context) *)
Definition hover_entry (d : doc) (ctx : gentry) (global_position : bool) (name : text) : option entry :=
  match ctx with
  | GTypeE _ => match lookup (d_table d) name with Some g => Some (entry_of_g g) | None => None end
  | GProcE p => lookup_for (d_table d) (pe_local p) global_position name
  end.

Definition hover (d : doc) (line col : N) : res (option (text * prange)) :=
  do c <- doc_cursor d line col;
  match cursor_ident c with
  | None => ROk None
  | Some (name, r) =>
      let global_position := is_global_position c in
      match c_ctx c with
      | None => ROk None
      | Some ctx =>
          match hover_entry d ctx global_position name with
          | Some e => ROk (Some (create_hover e (pos_range r (d_text d))))
          | None => ROk None
          end
      end
  end.

(* ---- the explicit predicate under which the handler is PROVED not to panic
   (Proofs/HoverProofs.v hover_total); a boolean so that the judge can evaluate it ---- *)
Local Open Scope nat_scope.

(* the token range of a declaration, relative to tokens[off..], can be turned into a text range *)
Definition decl_ok (n : nat) (x : gdecl * nat) : bool :=
  let i := gdecl_info (fst x) in
  let off := snd x in
  Nat.leb off n && (if Nat.ltb (i_s i) (i_e i) then Nat.leb (off + i_e i) n else Nat.ltb (off + i_e i) n).

Definition cursor_pre (d : doc) : bool := forallb (decl_ok (length (d_toks d))) (pg_decls (d_ast d)).
