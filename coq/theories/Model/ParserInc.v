(* spl_frontend::parser::update - the INCREMENTAL parser: every non-terminal takes `this`, the node
   of the old tree it may reuse (parser.rs `trait Parser { fn parse(this: Option<&Self>, ..) }`),
   together with parser/utility.rs `affected`, `many`, `parse_list`, `expect` (retry after an
   `Affected` error) and `Reference::parse` with its `inc_references` stack.
   The state is the TokenStream: position, reference_pos, error_buffer, inc_references; the
   TokenChange (deletion range, insertion length) is constant during one run.
   Errors carry their kind (Affected or not) and the input state at which they occurred.
   Panic sites: `TokenStream::advance` slicing past the end (reuse of a node that no longer fits),
   `CommaPreceded::new_wrapped`'s assert (an old list element with offset 0).
   With this = None everywhere and the change (0..0, |toks|) this is parser::parse; note that even
   then `Reference::parse` pops `inc_references` on every error (harmless on an empty stack). *)
From Coq Require Import String Ascii.
From Spl Require Export Model.Ast Base.Show Model.Parser.

Local Open Scope nat_scope.

Section ParserInc.
Variable toks : list token.
Variables ds de ilen : nat.      (* token_change.deletion_range = ds..de, insertion_len = ilen *)

Record ist := { ipos : nat; irefp : nat; iebuf : list err; incr : list nat }.

Inductive ires (A : Type) :=
| IOk (s : ist) (a : A)
| IErr (s : ist) (affected : bool)
| IPanic
| IFuel.
Arguments IOk {A}. Arguments IErr {A}. Arguments IPanic {A}. Arguments IFuel {A}.

Definition iparser (A : Type) := ist -> ires A.

Definition ibind {A B} (r : ires A) (k : ist -> A -> ires B) : ires B :=
  match r with IOk s a => k s a | IErr s b => IErr s b | IPanic => IPanic | IFuel => IFuel end.

Definition iadv (s : ist) (n : nat) : ist := {| ipos := ipos s + n; irefp := irefp s; iebuf := iebuf s; incr := incr s |}.
Definition iset_ebuf (s : ist) (b : list err) : ist := {| ipos := ipos s; irefp := irefp s; iebuf := b; incr := incr s |}.
Definition iset_refp (s : ist) (r : nat) : ist := {| ipos := ipos s; irefp := r; iebuf := iebuf s; incr := incr s |}.
Definition iset_incr (s : ist) (l : list nat) : ist := {| ipos := ipos s; irefp := irefp s; iebuf := iebuf s; incr := l |}.
Definition ipush_err (s : ist) (a b : nat) (m : pmsg) : ist :=
  iset_ebuf s (iebuf s ++ [ {| e_s := a; e_e := b; e_m := EParse m |} ]).

(* ---- nom combinators ---- *)
Definition i_map {A B} (f : A -> B) (p : iparser A) : iparser B :=
  fun s => ibind (p s) (fun s' a => IOk s' (f a)).
Definition i_alt {A} (p q : iparser A) : iparser A :=
  fun s => match p s with IErr _ _ => q s | r => r end.
Definition i_opt {A} (p : iparser A) : iparser (option A) :=
  fun s => match p s with IOk s' a => IOk s' (Some a) | IErr _ _ => IOk s None | IPanic => IPanic | IFuel => IFuel end.
Definition i_pair {A B} (p : iparser A) (q : iparser B) : iparser (A * B) :=
  fun s => ibind (p s) (fun s1 a => ibind (q s1) (fun s2 b => IOk s2 (a, b))).
(* Statement::parse_error: the error is re-issued with the original input (kind unchanged) *)
Definition i_restore {A} (p : iparser A) : iparser A :=
  fun s => match p s with IErr _ b => IErr s b | r => r end.
Definition i_preceded {A B} (p : iparser A) (q : iparser B) : iparser B := i_map snd (i_pair p q).
Definition i_terminated {A B} (p : iparser A) (q : iparser B) : iparser A := i_map fst (i_pair p q).
Fixpoint i_many0 {A} (fuel : nat) (p : iparser A) (s : ist) : ires (list A) :=
  match fuel with
  | O => IFuel
  | S f =>
      match p s with
      | IErr _ _ => IOk s []
      | IPanic => IPanic
      | IFuel => IFuel
      | IOk s' a =>
          if Nat.eqb (ipos s') (ipos s) then IErr s false
          else ibind (i_many0 f p s') (fun s2 l => IOk s2 (a :: l))
      end
  end.

(* ---- token level ---- *)
Definition icomments_at (p : nat) : list text := leading_comments (skipn p toks).
Definition i_comments : iparser (list text) :=
  fun s => let cs := icomments_at (ipos s) in IOk (iadv s (length cs)) cs.
Definition i_tag (f : kind -> bool) : iparser token :=
  fun s =>
    let s1 := iadv s (length (icomments_at (ipos s))) in
    match nth_error toks (ipos s1) with
    | None => IErr s1 false
    | Some t => if f (tk t) then IOk (iadv s1 1) t else IErr s false
    end.

(* ---- utility.rs ---- *)
Definition i_info {A} (p : iparser A) : iparser (A * info) :=
  fun s =>
    let start := ipos s - irefp s in
    match p (iset_ebuf s []) with
    | IOk s' a => IOk (iset_ebuf s' (iebuf s)) (a, {| i_s := start; i_e := ipos s' - irefp s; i_errs := iebuf s' |})
    | IErr s' b => IErr (iset_ebuf s' (iebuf s)) b
    | IPanic => IPanic
    | IFuel => IFuel
    end.

Definition iexpect_error (s : ist) (m : pmsg) : ist :=
  let ep := (ipos s - irefp s) - 1 in ipush_err s ep ep m.

(* expect(this, parser, msg): after an Affected error the parser is retried WITHOUT `this`, from the
   state the error carries *)
Definition i_expect {A T} (this : option T) (p : option T -> iparser A) (m : pmsg) : iparser (option A) :=
  fun s => match p this s with
           | IOk s' a => IOk s' (Some a)
           | IErr s' true =>
               match p None s' with
               | IOk s2 a => IOk s2 (Some a)
               | IErr s2 _ => IOk (iexpect_error s2 m) None
               | IPanic => IPanic
               | IFuel => IFuel
               end
           | IErr s' false => IOk (iexpect_error s' m) None
           | IPanic => IPanic
           | IFuel => IFuel
           end.
(* expect(None, inc(p), msg) *)
Definition i_expect0 {A} (p : iparser A) (m : pmsg) : iparser (option A) :=
  i_expect (@None unit) (fun _ => p) m.

(* Reference::parse(this, ..): the old offset is pushed only when `this` is present, but popped on
   EVERY error *)
Definition i_ref {A} (this : option (A * nat)) (p : option A -> iparser A) : iparser (A * nat) :=
  fun s =>
    let backup := irefp s in
    let s0 := match this with Some (_, off) => iset_incr s (incr s ++ [off]) | None => s end in
    let s1 := iset_refp s0 (ipos s0) in
    let offset := ipos s0 - backup in
    match p (option_map fst this) s1 with
    | IOk s' a =>
        let s2 := iset_refp s' backup in
        IOk (match this with Some _ => iset_incr s2 (removelast (incr s2)) | None => s2 end) (a, offset)
    | IErr s' b => IErr (iset_incr (iset_refp s' backup) (removelast (incr s'))) b
    | IPanic => IPanic
    | IFuel => IFuel
    end.

Definition i_confusable {A} (p : iparser A) (m : pmsg) : iparser A :=
  fun s => ibind (i_info p s) (fun s' ai => IOk (ipush_err s' (i_s (snd ai)) (i_e (snd ai)) m) (fst ai)).

(* look_ahead::* (always under `peek`).  They call Identifier::parse(None) and tag parsers, which
   neither push nor pop references, so they are the predicates of the scratch model. *)
Definition ila_tag := la_tag toks.
Definition i_peek_la (la : nat -> bool) : iparser unit :=
  fun s => if la (ipos s) then IOk s tt else IErr s false.

Fixpoint iignore_from (n : nat) (la : nat -> bool) (s : ist) : ires unit :=
  if la (ipos s) then IOk s tt
  else match n with
       | O => IErr s false
       | S n' => if Nat.ltb (ipos s) (length toks) then iignore_from n' la (iadv s 1) else IErr s false
       end.
Definition iskipped (s s' : ist) : list token := firstn (ipos s' - ipos s) (skipn (ipos s) toks).
Definition i_ignore0 (la : nat -> bool) : iparser (list token) :=
  fun s => ibind (iignore_from (S (length toks - ipos s)) la s) (fun s' _ => IOk s' (iskipped s s')).
Definition i_ignore1 (la : nat -> bool) : iparser (list token) :=
  fun s => if la (ipos s) then IErr s false else i_ignore0 la s.

(* ---- TokenChange ---- *)
Definition tc_overlaps (os oe : nat) : bool :=
  if Nat.leb de ds then                      (* deletion range is empty *)
    if Nat.eqb de os then false else Nat.leb os ds && Nat.ltb ds oe
  else Nat.ltb (Nat.max ds os) (Nat.min de oe).
Definition tc_deletes (os oe : nat) : bool := Nat.leb ds os && Nat.leb oe de.
Definition tc_out_of_range (p : nat) : bool := Nat.leb (de + ilen - (de - ds)) p.
Definition tc_new_pos (p : nat) : nat := if Nat.leb de p then p + ilen - (de - ds) else p.
Definition is_insertion_here (p : nat) : bool := Nat.leb ds p && Nat.ltb p (ds + ilen).
Definition is_partially_consumed (p start : nat) : bool :=
  if tc_out_of_range p then Nat.ltb (tc_new_pos start) p else false.
Definition tc_invalid (p rs re : nat) : bool :=
  tc_deletes rs re || is_insertion_here p || is_partially_consumed p rs.

Definition old_reference (s : ist) : nat := fold_left Nat.add (incr s) 0.

(* remove_messages on every AstInfo of a reused node *)
Definition keep_err (e : err) : bool := match e_m e with EParse _ => true | _ => false end.
Definition strip_info (i : info) : info := {| i_s := i_s i; i_e := i_e i; i_errs := filter keep_err (i_errs i) |}.
Definition strip_ident (i : ident) : ident := {| id_val := id_val i; id_info := strip_info (id_info i) |}.
Definition strip_intlit (i : intlit) : intlit := {| il_val := il_val i; il_info := strip_info (il_info i) |}.
Fixpoint strip_var (v : variable) : variable :=
  match v with
  | NamedVar i => NamedVar (strip_ident i)
  | ArrAccess a idx inf =>
      ArrAccess (strip_var a) (match idx with Some (e, o) => Some (strip_expr e, o) | None => None end) (strip_info inf)
  end
with strip_expr (e : expr) : expr :=
  match e with
  | EBin op l r inf => EBin op (strip_expr l) (strip_expr r) (strip_info inf)
  | EBrack x inf => EBrack (strip_expr x) (strip_info inf)
  | EInt i => EInt (strip_intlit i)
  | EUn op x inf => EUn op (strip_expr x) (strip_info inf)
  | EVar v => EVar (strip_var v)
  | EErr inf => EErr (strip_info inf)
  end.
Fixpoint strip_texpr (t : typeexpr) : typeexpr :=
  match t with
  | TNamed i => TNamed (strip_ident i)
  | TArray size base inf =>
      TArray (option_map strip_intlit size) (match base with Some (b, o) => Some (strip_texpr b, o) | None => None end)
             (strip_info inf)
  end.
Definition strip_oref {A} (f : A -> A) (r : option (A * nat)) : option (A * nat) :=
  match r with Some (x, o) => Some (f x, o) | None => None end.
Fixpoint strip_stmt (s : stmt) : stmt :=
  match s with
  | SEmpty inf => SEmpty (strip_info inf)
  | SAssign v e inf => SAssign (strip_var v) (strip_oref strip_expr e) (strip_info inf)
  | SCall n args inf => SCall (strip_ident n) (map (fun a => (strip_expr (fst a), snd a)) args) (strip_info inf)
  | SIf c t e inf =>
      SIf (strip_oref strip_expr c)
          (match t with Some (x, o) => Some (strip_stmt x, o) | None => None end)
          (match e with Some (x, o) => Some (strip_stmt x, o) | None => None end) (strip_info inf)
  | SWhile c b inf =>
      SWhile (strip_oref strip_expr c) (match b with Some (x, o) => Some (strip_stmt x, o) | None => None end) (strip_info inf)
  | SBlock body inf =>
      SBlock ((fix go (l : list (stmt * nat)) := match l with [] => [] | (x, o) :: r => (strip_stmt x, o) :: go r end) body)
             (strip_info inf)
  | SError inf => SError (strip_info inf)
  end.
Definition strip_vardecl (v : vardecl) : vardecl :=
  match v with
  | VValid doc name ty inf => VValid doc (option_map strip_ident name) (strip_oref strip_texpr ty) (strip_info inf)
  | VError inf => VError (strip_info inf)
  end.
Definition strip_paramdecl (p : paramdecl) : paramdecl :=
  match p with
  | PValid doc r name ty inf => PValid doc r (option_map strip_ident name) (strip_oref strip_texpr ty) (strip_info inf)
  | PError inf => PError (strip_info inf)
  end.
Definition strip_typedecl (d : typedecl) : typedecl :=
  {| td_doc := td_doc d; td_name := option_map strip_ident (td_name d); td_ty := strip_oref strip_texpr (td_ty d);
     td_info := strip_info (td_info d) |}.
Definition strip_procdecl (d : procdecl) : procdecl :=
  {| pd_doc := pd_doc d; pd_name := option_map strip_ident (pd_name d);
     pd_params := map (fun a => (strip_paramdecl (fst a), snd a)) (pd_params d);
     pd_vars := map (fun a => (strip_vardecl (fst a), snd a)) (pd_vars d);
     pd_stmts := map (fun a => (strip_stmt (fst a), snd a)) (pd_stmts d);
     pd_info := strip_info (pd_info d) |}.

(* affected(this, inner) *)
Definition i_affected {A} (this : option A) (inf : A -> info) (strip : A -> A) (inner : iparser A) : iparser A :=
  fun s =>
    match this with
    | None => inner s
    | Some t =>
        let old := old_reference s in
        let rs := i_s (inf t) + old in
        let re := i_e (inf t) + old in
        if tc_invalid (ipos s) rs re then IErr s true
        else if tc_overlaps rs (re + 1) then
          match inner s with
          | IOk s' a => IOk s' a
          | IErr s' _ => IErr s' true
          | IPanic => IPanic
          | IFuel => IFuel
          end
        else if Nat.leb (ipos s + (re - rs)) (length toks) then IOk (iadv s (re - rs)) (strip t)
        else IPanic
    end.

(* many(Some(old elements)): `parse_elem this` is Reference::<O>::parse(this, ..); `start_of r` is
   r.to_range().shift(r.offset).start *)
Section Many.
Context {A : Type}.
Variable parse_elem : option (A * nat) -> iparser (A * nat).
Variable start_of : A * nat -> nat.

(* parse_insertion: while location_offset < end_pos { O::parse(None) } *)
Fixpoint parse_insertion (fuel : nat) (end_pos : nat) (s : ist) (acc : list (A * nat)) : ires (list (A * nat)) * list (A * nat) :=
  if Nat.ltb (ipos s) end_pos then
    match fuel with
    | O => (IFuel, acc)
    | S f =>
        match parse_elem None s with
        | IOk s' a => parse_insertion f end_pos s' (acc ++ [a])
        | IErr s' b => (IErr s' b, acc)
        | IPanic => (IPanic, acc)
        | IFuel => (IFuel, acc)
        end
    end
  else (IOk s acc, acc).

Definition handle_insertions (fuel : nat) (parser_start : nat) (s : ist) (acc : list (A * nat)) :=
  let end_pos := if is_insertion_here (ipos s) then ds + ilen else tc_new_pos parser_start in
  parse_insertion fuel end_pos s acc.

Fixpoint many_old (fuel : nat) (olds : list (A * nat)) (s : ist) (acc : list (A * nat)) : ires (list (A * nat)) :=
  match olds with
  | [] =>
      (* many0(|input| Reference::parse(None, input)) *)
      ibind (i_many0 fuel (parse_elem None) s) (fun s' l => IOk s' (acc ++ l))
  | o :: rest =>
      match handle_insertions fuel (start_of o) s acc with
      | (IErr s' _, acc') => IOk s' acc'
      | (IPanic, _) => IPanic
      | (IFuel, _) => IFuel
      | (IOk s1 _, acc1) =>
          match parse_elem (Some o) s1 with
          | IErr _ true => many_old fuel rest s1 acc1
          | IErr _ false => IOk s1 acc1
          | IPanic => IPanic
          | IFuel => IFuel
          | IOk s2 a => many_old fuel rest s2 (acc1 ++ [a])
          end
      end
  end.

Definition i_many (fuel : nat) (olds : option (list (A * nat))) : iparser (list (A * nat)) :=
  fun s => many_old fuel (match olds with Some l => l | None => [] end) s [].
End Many.

Definition s_expression := Parser.s_expression.

(* ---- leaves ---- *)
Definition i_ident0 : iparser ident :=
  i_map (fun ti => {| id_val := show_kind (tk (fst ti)); id_info := snd ti |}) (i_info (i_tag is_ident)).
Definition i_ident (this : option ident) : iparser ident := i_affected this id_info strip_ident i_ident0.

Definition i_intlit0 : iparser intlit :=
  i_map (fun vi => {| il_val := fst vi; il_info := snd vi |})
    (i_info (i_map lit_value
       (i_alt (i_tag (fun k => match k with HexT _ => true | _ => false end))
       (i_alt (i_tag (fun k => match k with CharT _ => true | _ => false end))
              (i_tag (fun k => match k with IntT _ => true | _ => false end)))))).
Definition i_intlit (this : option intlit) : iparser intlit := i_affected this il_info strip_intlit i_intlit0.

(* ---- expressions: `this` is only used at the entry points (affected); inside, everything is
   parsed with None ---- *)
Definition i_rhs (p : iparser expr) (lhs : expr) (op : operator) : iparser expr :=
  fun s =>
    ibind (i_expect0 p (ExpectedToken s_expression) s) (fun s' rhs =>
      let p' := ipos s' - irefp s' in
      let ep := p' - 1 in
      let rhs' := match rhs with Some e => e | None => EErr (mkinfo ep ep) end in
      IOk s' (EBin op lhs rhs' (mkinfo (i_s (expr_info lhs)) p'))).

Fixpoint i_variable0 (fuel : nat) : iparser variable :=
  match fuel with
  | O => fun _ => IFuel
  | S f => fun s =>
      ibind (i_pair (i_info (i_map NamedVar (i_ident None)))
              (i_many0 f (i_info (i_preceded (i_tag (is_k LBracket))
                 (i_pair (i_expect (@None (expr * nat)) (fun t => i_ref t (fun _ => i_comparison f)) (ExpectedToken s_expression))
                         (i_expect0 (i_tag (is_k RBracket)) (MissingClosing 93%N)))))) s)
        (fun s' r =>
           let '((v0, vinfo), accesses) := r in
           IOk s' (fold_left (fun v a => ArrAccess v (fst (fst a)) (extend_range (snd a) vinfo)) accesses v0))
  end
with i_primary (fuel : nat) : iparser expr :=
  match fuel with
  | O => fun _ => IFuel
  | S f => fun s0 =>
      i_alt (i_map EInt (i_intlit None))
      (i_alt (i_map EVar (i_affected None var_info strip_var (i_variable0 f)))
        (fun s =>
           ibind (i_info (i_pair (i_info (i_tag (is_k LParen)))
                   (i_pair (i_expect0 (i_comparison f) (ExpectedToken s_expression))
                           (i_expect0 (i_tag (is_k RParen)) (MissingClosing 41%N)))) s)
             (fun s' r =>
                let '(((_, lp_info), (e, _)), inf) := r in
                let ep := i_e lp_info in
                IOk s' (EBrack (match e with Some x => x | None => EErr (mkinfo ep ep) end) inf)))) s0
  end
with i_factor (fuel : nat) : iparser expr :=
  match fuel with
  | O => fun _ => IFuel
  | S f => fun s0 =>
      i_alt (i_primary f)
        (i_map (fun ei => EUn OSub (fst ei) (snd ei)) (i_info (i_preceded (i_tag (is_k Minus)) (i_factor f)))) s0
  end
with i_mul_loop (fuel : nat) (s : ist) (lhs : expr) : ires expr :=
  match fuel with
  | O => IFuel
  | S f =>
      match i_tag is_mulop s with
      | IOk s1 op => ibind (i_rhs (i_factor f) lhs (op_of (tk op)) s1) (fun s2 e => i_mul_loop f s2 e)
      | IErr _ _ => IOk s lhs
      | IPanic => IPanic
      | IFuel => IFuel
      end
  end
with i_mul (fuel : nat) : iparser expr :=
  match fuel with
  | O => fun _ => IFuel
  | S f => fun s => ibind (i_factor f s) (fun s1 e => i_mul_loop f s1 e)
  end
with i_add_loop (fuel : nat) (s : ist) (lhs : expr) : ires expr :=
  match fuel with
  | O => IFuel
  | S f =>
      match i_tag is_addop s with
      | IOk s1 op => ibind (i_rhs (i_mul f) lhs (op_of (tk op)) s1) (fun s2 e => i_add_loop f s2 e)
      | IErr _ _ => IOk s lhs
      | IPanic => IPanic
      | IFuel => IFuel
      end
  end
with i_add (fuel : nat) : iparser expr :=
  match fuel with
  | O => fun _ => IFuel
  | S f => fun s => ibind (i_mul f s) (fun s1 e => i_add_loop f s1 e)
  end
with i_comparison (fuel : nat) : iparser expr :=
  match fuel with
  | O => fun _ => IFuel
  | S f => fun s =>
      ibind (i_add f s) (fun s1 e =>
        match i_tag is_cmpop s1 with
        | IOk s2 op => i_rhs (i_add f) e (op_of (tk op)) s2
        | IErr _ _ => IOk s1 e
        | IPanic => IPanic
        | IFuel => IFuel
        end)
  end.

Definition i_variable (fuel : nat) (this : option variable) : iparser variable :=
  i_affected this var_info strip_var (i_variable0 fuel).
Definition i_expr (fuel : nat) (this : option expr) : iparser expr :=
  i_affected this expr_info strip_expr (i_comparison fuel).
Definition i_ref_expr (fuel : nat) (this : option (expr * nat)) : iparser (expr * nat) :=
  i_ref this (i_expr fuel).

(* ---- type expressions ---- *)
Fixpoint i_texpr (fuel : nat) (this : option typeexpr) : iparser typeexpr :=
  match fuel with
  | O => fun _ => IFuel
  | S f => fun s0 =>
      let array_type (th : option typeexpr) : iparser typeexpr :=
        let size := match th with Some (TArray sz _ _) => sz | _ => None end in
        let base := match th with Some (TArray _ b _) => b | _ => None end in
        i_affected th texpr_info strip_texpr
          (i_map (fun r => let '((_, (_, (sz, (_, (_, b))))), inf) := r in TArray sz b inf)
             (i_info (i_pair (i_tag (is_k KArray))
                     (i_pair (i_expect0 (i_tag (is_k LBracket)) (ExpectedToken s_lbracket))
                     (i_pair (i_expect size i_intlit (ExpectedToken s_intlit))
                     (i_pair (i_expect0 (i_tag (is_k RBracket)) (MissingClosing 93%N))
                     (i_pair (i_expect0 (i_tag (is_k KOf)) (ExpectedToken s_of))
                             (i_expect base (fun t => i_ref t (i_texpr f)) (ExpectedToken s_typeexpr))))))))) in
      match this with
      | Some (TNamed name) => i_map TNamed (i_ident (Some name)) s0
      | Some (TArray _ _ _) => array_type this s0
      | None => i_alt (array_type None) (i_map TNamed (i_ident None)) s0
      end
  end.
Definition i_ref_texpr (fuel : nat) (this : option (typeexpr * nat)) : iparser (typeexpr * nat) :=
  i_ref this (i_texpr fuel).

Definition i_typedecl (fuel : nat) (this : option typedecl) : iparser typedecl :=
  i_affected this td_info strip_typedecl
    (i_map (fun r => let '((doc, (_, (name, (_, (ty, _))))), inf) := r in
                     {| td_doc := doc; td_name := name; td_ty := ty; td_info := inf |})
       (i_info (i_pair i_comments
               (i_pair (i_tag (is_k KType))
               (i_pair (i_expect (match this with Some d => td_name d | None => None end) i_ident (ExpectedToken s_identifier))
               (i_pair (i_expect0 (i_alt (i_tag (is_k EqT))
                                  (i_alt (i_confusable (i_tag (is_k Assign)) (ConfusedToken s_eq s_assign))
                                         (i_confusable (i_tag (is_k Colon)) (ConfusedToken s_eq s_colon))))
                          (ExpectedToken s_eq))
               (i_pair (i_expect (match this with Some d => td_ty d | None => None end) (i_ref_texpr fuel) (ExpectedToken s_typeexpr))
                       (i_expect0 (i_tag (is_k Semic)) MissingTrailingSemic)))))))).

Definition i_la_var_dec := la_var_dec toks.
Definition i_la_param := la_param toks.
Definition i_la_stmt := la_stmt toks.
Definition i_la_global := la_global toks.

Definition i_vardecl (fuel : nat) (this : option vardecl) : iparser vardecl :=
  let valid (th : option vardecl) : iparser vardecl :=
    let name := match th with Some (VValid _ n _ _) => n | _ => None end in
    let ty := match th with Some (VValid _ _ t _) => t | _ => None end in
    i_affected th vardecl_info strip_vardecl
      (i_map (fun r => let '((doc, (_, (n, (_, (t, _))))), inf) := r in VValid doc n t inf)
         (i_info (i_pair i_comments
                 (i_pair (i_tag (is_k KVar))
                 (i_pair (i_expect name i_ident (ExpectedToken s_identifier))
                 (i_pair (i_expect0 (i_alt (i_tag (is_k Colon))
                                    (i_alt (i_confusable (i_tag (is_k Assign)) (ConfusedToken s_colon s_assign))
                                           (i_confusable (i_tag (is_k EqT)) (ConfusedToken s_colon s_eq))))
                            (ExpectedToken s_colon))
                 (i_pair (i_expect ty (i_ref_texpr fuel) (ExpectedToken s_typeexpr))
                         (i_expect0 (i_tag (is_k Semic)) MissingTrailingSemic)))))))) in
  let perror : iparser vardecl :=
    i_map (fun r => let inf := snd r in
                    VError (info_append inf {| e_s := i_s inf; e_e := i_e inf; e_m := EParse (ExpectedToken s_vardec) |}))
      (i_info (i_ignore1 i_la_var_dec)) in
  match this with
  | Some (VValid _ _ _ _) => valid this
  | _ => i_alt (valid None) perror
  end.

Definition i_paramdecl (fuel : nat) (this : option paramdecl) : iparser paramdecl :=
  let valid (th : option paramdecl) : iparser paramdecl :=
    let name := match th with Some (PValid _ _ n _ _) => n | _ => None end in
    let ty := match th with Some (PValid _ _ _ t _) => t | _ => None end in
    i_map (fun r => let '((doc, (rn, (_, (t, _)))), inf) := r in PValid doc (fst rn) (snd rn) t inf)
      (i_info (i_pair i_comments
              (i_pair (i_alt (i_map (fun tn => (true, snd tn))
                                (i_pair (i_tag (is_k KRef)) (i_expect name i_ident (ExpectedToken s_identifier))))
                             (i_map (fun i => (false, Some i)) (i_ident name)))
              (i_pair (i_expect0 (i_tag (is_k Colon)) (ExpectedToken s_colon))
              (i_pair (i_expect ty (i_ref_texpr fuel) (ExpectedToken s_typeexpr))
                      (i_peek_la i_la_param)))))) in
  let perror : iparser paramdecl :=
    i_map (fun r => let inf := snd r in
                    PError (info_append inf {| e_s := i_s inf; e_e := i_e inf; e_m := EParse (ExpectedToken s_paramdec) |}))
      (i_info (i_ignore0 i_la_param)) in
  match this with
  | Some (PValid _ _ _ _ _) => i_affected this paramdecl_info strip_paramdecl (i_alt (valid this) perror)
  | _ => i_alt (valid None) perror
  end.

(* CommaPreceded<O> as (O * nat): the inner Reference; the wrapper Reference's offset is kept
   outside.  new_wrapped: offset o (must not be 0) becomes outer offset o-1, inner offset 1. *)
Section List.
Context {A : Type}.
Variable parse_one : option A -> iparser A.      (* O::parse *)
Variable inf : A -> info.

(* CommaPreceded::parse(this) = preceded(comma, Reference::parse(this.inner)) *)
Definition i_comma_preceded (this : option (A * nat)) : iparser (A * nat) :=
  i_preceded (i_tag (is_k Comma)) (i_ref this parse_one).
(* Reference::<CommaPreceded<O>>::parse *)
Definition i_cp_elem (this : option ((A * nat) * nat)) : iparser ((A * nat) * nat) :=
  i_ref this i_comma_preceded.
(* CommaPreceded::to_range = inner.to_range() widened by one at the end; only the start is used *)
Definition cp_start (r : (A * nat) * nat) : nat := i_s (inf (fst (fst r))) + snd r.

Definition i_list (fuel : nat) (olds : option (list (A * nat))) : iparser (list (A * nat)) :=
  fun s =>
    let first := match olds with Some (x :: _) => Some x | _ => None end in
    let rest := match olds with Some (_ :: r) => Some r | _ => None end in
    ibind (i_ref first parse_one s) (fun s1 head =>
      let zero := match rest with Some r => existsb (fun x => Nat.eqb (snd x) 0) r | None => false end in
      if zero then IPanic
      else
        let wrapped := option_map (map (fun x : A * nat => ((fst x, 1), snd x - 1))) rest in
        ibind (i_many i_cp_elem cp_start fuel wrapped s1)
          (fun s2 tail => IOk s2 (head :: map (fun r : (A * nat) * nat => (fst (fst r), snd r + snd (fst r))) tail))).
End List.

(* Argument: an expression; `this` is used only if it is not Expression::Error *)
Definition i_argument (fuel : nat) (this : option expr) : iparser expr :=
  let valid (th : option expr) := i_terminated (i_expr fuel th) (i_peek_la i_la_param) in
  let perror : iparser expr :=
    i_map (fun r => let inf := snd r in
                    EErr (info_append inf {| e_s := i_s inf; e_e := i_e inf; e_m := EParse (ExpectedToken s_expression) |}))
      (i_info (i_ignore0 i_la_param)) in
  match this with
  | Some (EErr _) | None => i_alt (valid None) perror
  | Some e => i_affected (Some e) expr_info strip_expr (i_alt (valid (Some e)) perror)
  end.

Definition i_call (fuel : nat) (this : option stmt) : iparser stmt :=
  let name := match this with Some (SCall n _ _) => Some n | _ => None end in
  let args := match this with Some (SCall _ a _) => Some a | _ => None end in
  i_affected this stmt_info strip_stmt
    (i_map (fun r => let '((n, (a, _)), inf) := r in SCall n a inf)
       (i_info (i_pair (i_terminated (i_ident name) (i_tag (is_k LParen)))
               (i_pair (i_alt (i_map (fun _ => []) (i_peek_la (ila_tag (fun k => match k with RParen | Semic | Eof => true | _ => false end))))
                              (i_list (i_argument fuel) expr_info fuel args))
               (i_pair (i_expect0 (i_tag (is_k RParen)) (MissingClosing 41%N))
                       (i_expect0 (i_tag (is_k Semic)) MissingTrailingSemic)))))).

Definition i_assign (fuel : nat) (this : option stmt) : iparser stmt :=
  let v := match this with Some (SAssign v _ _) => Some v | _ => None end in
  let e := match this with Some (SAssign _ e _) => e | _ => None end in
  i_affected this stmt_info strip_stmt
    (i_map (fun r => let '((v', (e', _)), inf) := r in SAssign v' e' inf)
       (i_info (i_pair (i_terminated (i_variable fuel v)
                          (i_alt (i_tag (is_k Assign))
                                 (i_confusable (i_tag (is_k EqT)) (ConfusedToken s_assign s_eq))))
               (i_pair (i_expect e (i_ref_expr fuel) (ExpectedToken s_expression))
                       (i_expect0 (i_tag (is_k Semic)) MissingTrailingSemic))))).

Definition stmt_start (r : stmt * nat) : nat := i_s (stmt_info (fst r)) + snd r.

Fixpoint i_stmt (fuel : nat) (this : option stmt) : iparser stmt :=
  match fuel with
  | O => fun _ => IFuel
  | S f => fun s0 =>
      let ref_stmt (t : option (stmt * nat)) : iparser (stmt * nat) := i_ref t (i_stmt f) in
      let p_if (th : option stmt) : iparser stmt :=
        let c := match th with Some (SIf c _ _ _) => c | _ => None end in
        let t := match th with Some (SIf _ t _ _) => t | _ => None end in
        let e := match th with Some (SIf _ _ e _) => e | _ => None end in
        i_affected th stmt_info strip_stmt
          (i_map (fun r => let '((_, (_, (c', (_, (t', e'))))), inf) := r in
                           SIf c' t' (match e' with Some x => x | None => None end) inf)
             (i_info (i_pair (i_tag (is_k KIf))
                     (i_pair (i_expect0 (i_tag (is_k LParen)) (MissingOpening 40%N))
                     (i_pair (i_expect c (i_ref_expr f) (ExpectedToken s_expression))
                     (i_pair (i_expect0 (i_tag (is_k RParen)) (MissingClosing 41%N))
                     (i_pair (i_expect t ref_stmt (ExpectedToken s_expression))
                             (i_opt (i_preceded (i_tag (is_k KElse))
                                       (i_expect e ref_stmt (ExpectedToken s_statement))))))))))) in
      let p_while (th : option stmt) : iparser stmt :=
        let c := match th with Some (SWhile c _ _) => c | _ => None end in
        let b := match th with Some (SWhile _ b _) => b | _ => None end in
        i_affected th stmt_info strip_stmt
          (i_map (fun r => let '((_, (_, (c', (_, b')))), inf) := r in SWhile c' b' inf)
             (i_info (i_pair (i_tag (is_k KWhile))
                     (i_pair (i_expect0 (i_tag (is_k LParen)) (MissingOpening 40%N))
                     (i_pair (i_expect c (i_ref_expr f) (ExpectedToken s_expression))
                     (i_pair (i_expect0 (i_tag (is_k RParen)) (MissingClosing 41%N))
                             (i_expect b ref_stmt (ExpectedToken s_expression)))))))) in
      let p_block (th : option stmt) : iparser stmt :=
        let body := match th with Some (SBlock b _) => Some b | _ => None end in
        i_affected th stmt_info strip_stmt
          (i_map (fun r => SBlock (fst (fst r)) (snd r))
             (i_info (i_preceded (i_tag (is_k LCurly))
                        (i_pair (i_many ref_stmt stmt_start f body)
                                (i_expect0 (i_tag (is_k RCurly)) (MissingClosing 125%N)))))) in
      match this with
      | Some (SIf _ _ _ _) => p_if this s0
      | Some (SWhile _ _ _) => p_while this s0
      | Some (SAssign _ _ _) => i_assign f this s0
      | Some (SCall _ _ _) => i_call f this s0
      | Some (SBlock _ _) => p_block this s0
      | _ =>
          i_alt (i_map (fun ti => SEmpty (snd ti)) (i_info (i_tag (is_k Semic))))
          (i_alt (p_if None)
          (i_alt (p_while None)
          (i_alt (p_block None)
          (i_alt (i_call f None)
          (i_alt (i_assign f None)
             (i_restore
             (i_map (fun r => let '((_, ignored), inf) := r in
                              SError (info_append inf {| e_s := i_s inf; e_e := i_e inf;
                                                         e_m := EParse (UnexpectedCharacters (show_tokens ignored)) |}))
                (i_info (i_pair i_comments (i_ignore1 i_la_stmt)))))))))) s0
      end
  end.

Definition vardecl_start (r : vardecl * nat) : nat := i_s (vardecl_info (fst r)) + snd r.

Definition i_procdecl (fuel : nat) (this : option procdecl) : iparser procdecl :=
  i_affected this pd_info strip_procdecl
    (i_map (fun r => let '((doc, (_, (name, (_, (params, (_, (_, (vars, (stmts, _))))))))), inf) := r in
                     {| pd_doc := doc; pd_name := name; pd_params := params; pd_vars := vars; pd_stmts := stmts; pd_info := inf |})
       (i_info (i_pair i_comments
               (i_pair (i_tag (is_k KProc))
               (i_pair (i_expect (match this with Some d => pd_name d | None => None end) i_ident (ExpectedToken s_identifier))
               (i_pair (i_expect0 (i_tag (is_k LParen)) (MissingOpening 40%N))
               (i_pair (i_alt (i_map (fun _ => []) (i_peek_la (ila_tag (fun k => match k with RParen | LCurly | Eof => true | _ => false end))))
                              (i_list (i_paramdecl fuel) paramdecl_info fuel (option_map pd_params this)))
               (i_pair (i_expect0 (i_tag (is_k RParen)) (MissingClosing 41%N))
               (i_pair (i_expect0 (i_tag (is_k LCurly)) (MissingOpening 123%N))
               (i_pair (i_many (fun t => i_ref t (i_vardecl fuel)) vardecl_start fuel (option_map pd_vars this))
               (i_pair (i_many (fun t => i_ref t (i_stmt fuel)) stmt_start fuel (option_map pd_stmts this))
                       (i_expect0 (i_tag (is_k RCurly)) (MissingClosing 125%N))))))))))))).

Definition i_gdecl (fuel : nat) (this : option gdecl) : iparser gdecl :=
  match this with
  | Some (GType td) => i_map GType (i_typedecl fuel (Some td))
  | Some (GProc pd) => i_map GProc (i_procdecl fuel (Some pd))
  | _ =>
      i_alt (i_map GType (i_typedecl fuel None))
      (i_alt (i_map GProc (i_procdecl fuel None))
         (i_map (fun r => let '(ignored, inf) := r in
                          GError (info_append inf {| e_s := i_s inf; e_e := i_e inf;
                                                     e_m := EParse (UnexpectedCharacters (show_tokens ignored)) |}))
            (i_info (i_ignore1 i_la_global))))
  end.

Definition gdecl_start (r : gdecl * nat) : nat := i_s (gdecl_info (fst r)) + snd r.

Definition i_eof_all : iparser unit :=
  fun s => ibind (i_tag (is_k Eof) s) (fun s' _ => if Nat.ltb (ipos s') (length toks) then IErr s' false else IOk s' tt).

Definition i_program (fuel : nat) (this : option program) : iparser program :=
  i_map (fun r => {| pg_decls := fst (fst r); pg_info := snd (fst r) |})
    (i_pair (i_info (i_many (fun t => i_ref t (i_gdecl fuel)) gdecl_start fuel (option_map pg_decls this))) i_eof_all).

End ParserInc.

Arguments IOk {A}. Arguments IErr {A}. Arguments IPanic {A}. Arguments IFuel {A}.

(* parser::update(program, TokenStream::new_with_change(tokens, change)) *)
Definition parse_update (old : program) (toks : list token) (ds de ilen : nat) : outcome program :=
  match i_program toks ds de ilen (parse_fuel toks) (Some old) {| ipos := 0; irefp := 0; iebuf := []; incr := [] |} with
  | IOk _ p => Done p
  | IErr _ _ => Panic
  | IPanic => Panic
  | IFuel => OutOfFuel
  end.

(* the same machinery without an old tree: parser::parse *)
Definition parse_via_inc (toks : list token) : outcome program :=
  match i_program toks 0 0 (length toks) (parse_fuel toks) None {| ipos := 0; irefp := 0; iebuf := []; incr := [] |} with
  | IOk _ p => Done p
  | IErr _ _ => Panic
  | IPanic => Panic
  | IFuel => OutOfFuel
  end.
