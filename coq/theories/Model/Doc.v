(* lsp4spl::document - position <-> index conversion and application of content changes.
   Positions are (line, UTF-16 column); indices are byte offsets into the UTF-8 text.
   u32 wrap-around of the line/column counters (texts with more than 2^32 lines or columns) is
   not modelled: the counters are unbounded here. *)
From Spl Require Export Base.Chars.

(* get_insertion_index(position, text) with the loop state (line, character, i) explicit *)
Fixpoint gii_from (pl pc : N) (line ch i : N) (s : text) : N :=
  match s with
  | [] => i
  | c :: r =>
      if (line =? pl) && (pc <=? ch) then i
      else if ((c =? 10) || (c =? 13)) && (line =? pl) then i
      else if c =? 10 then gii_from pl pc (line + 1) 0 (i + 1) r
      else if c =? 13 then
        match r with
        | c2 :: _ => if c2 =? 10 then gii_from pl pc line ch (i + 1) r
                     else gii_from pl pc (line + 1) 0 (i + 1) r
        | [] => gii_from pl pc (line + 1) 0 (i + 1) r
        end
      else gii_from pl pc line (ch + u16len c) (i + ulen c) r
  end.

Definition get_insertion_index (pl pc : N) (t : text) : N := gii_from pl pc 0 0 0 t.

(* as_position(index, text) *)
Fixpoint pos_from (index : N) (line ch i : N) (s : text) : N * N :=
  match s with
  | [] => (line, ch)
  | c :: r =>
      if index <=? i then (line, ch)
      else if c =? 10 then pos_from index (line + 1) 0 (i + 1) r
      else if c =? 13 then
        match r with
        | c2 :: _ => if c2 =? 10 then pos_from index line ch (i + 1) r
                     else pos_from index (line + 1) 0 (i + 1) r
        | [] => pos_from index (line + 1) 0 (i + 1) r
        end
      else pos_from index line (ch + u16len c) (i + ulen c) r
  end.

Definition as_position (index : N) (t : text) : N * N := pos_from index 0 0 0 t.

(* byte-offset surgery on a text; None = Rust would panic (not a char boundary / out of range) *)
Fixpoint split_bytes (n : N) (s : text) : option (text * text) :=
  if n =? 0 then Some ([], s) else
  match s with
  | [] => None
  | c :: r =>
      if n <? ulen c then None
      else match split_bytes (n - ulen c) r with
           | Some (a, b) => Some (c :: a, b)
           | None => None
           end
  end.

(* String::replace_range(a..b, ins) *)
Definition replace_bytes (s : text) (a b : N) (ins : text) : option text :=
  if b <? a then None else
  match split_bytes a s with
  | Some (pre, rest) =>
      match split_bytes (b - a) rest with
      | Some (_, post) => Some (pre ++ ins ++ post)
      | None => None
      end
  | None => None
  end.

(* a TextDocumentContentChangeEvent: optional range ((l1,c1),(l2,c2)) and the new text *)
Record change := { crange : option ((N * N) * (N * N)); ctext : text }.

(* one step of to_text_changes + AnalyzedSource::update on the text *)
Definition apply_change (t : text) (ch : change) : option text :=
  match crange ch with
  | Some ((l1, c1), (l2, c2)) =>
      replace_bytes t (get_insertion_index l1 c1 t) (get_insertion_index l2 c2 t) (ctext ch)
  | None => replace_bytes t 0 (blen t) (ctext ch)
  end.

(* a didChange notification: the changes are applied left to right, each to its predecessor's result *)
Fixpoint apply_changes (t : text) (chs : list change) : option text :=
  match chs with
  | [] => Some t
  | ch :: r => match apply_change t ch with Some t' => apply_changes t' r | None => None end
  end.
