(* spl_frontend::table (table.rs, table/initialization.rs) - data types, table entries, the two
   symbol tables and the predefined global entries.

   `HashMap<String, _>` is modelled as an association list in INSERTION order; the only operations
   the Rust code uses are `get` (lookup) and `entry(..)`/Vacant-insert (enter, which fails and
   leaves the map untouched when the key exists), so the iteration order is never observed by the
   modelled code (observers sort by key).  Every `Option` and every field of the Rust structs is
   kept; token-index ranges are pairs of nat. *)
From Coq Require Import String.
From Spl Require Export Model.Parser.
Local Open Scope nat_scope.

(* ---- panic sites of table/*.rs, error.rs (Identifier::to_error) and lib.rs ---- *)
Inductive site :=
| SiteParserCannotFail      (* parser.rs: .expect("Parser cannot fail") *)
| SiteMainNotProc           (* build.rs: panic!("'main' must be a procedure") *)
| SiteIdentEmpty            (* error.rs: assert!(end_pos > 0, "Identifier must contain at least one token") *)
| SiteNoEntry               (* semantic.rs: .expect("Named declaration without entry") *)
| SiteTokenIndex            (* lib.rs errors(): self.tokens[range.end], index out of bounds *)
| SiteTokenSlice            (* lib.rs errors(): &self.tokens[range], range end out of bounds *)
| SiteSliceEmpty.           (* lib.rs errors(): .expect("Token slice is empty") *)

Inductive res (A : Type) := ROk (a : A) | RFail (s : site).
Arguments ROk {A}. Arguments RFail {A}.

Definition rbind {A B} (r : res A) (k : A -> res B) : res B :=
  match r with ROk a => k a | RFail s => RFail s end.

Notation "'do' x <- e ; k" := (rbind e (fun x => k))
  (at level 200, x pattern, e at level 100, k at level 200, right associativity).

Definition to_outcome {A} (r : res A) : outcome A :=
  match r with ROk a => Done a | RFail _ => Panic end.

(* ---- DataType ---- *)
Inductive dtype :=
| DInt
| DBool
| DArray (size : option N) (base : option dtype) (creator : text).

Definition optN_eqb (a b : option N) : bool :=
  match a, b with
  | None, None => true
  | Some x, Some y => (x =? y)%N
  | _, _ => false
  end.

(* derive(PartialEq) *)
Fixpoint dt_eqb (a b : dtype) : bool :=
  match a, b with
  | DInt, DInt => true
  | DBool, DBool => true
  | DArray s1 b1 c1, DArray s2 b2 c2 =>
      optN_eqb s1 s2
      && match b1, b2 with
         | None, None => true
         | Some x, Some y => dt_eqb x y
         | _, _ => false
         end
      && text_eqb c1 c2
  | _, _ => false
  end.

Definition is_primitive (d : dtype) : bool :=
  match d with DInt | DBool => true | DArray _ _ _ => false end.

Definition range := (nat * nat)%type.
Definition range_eqb (a b : range) : bool := Nat.eqb (fst a) (fst b) && Nat.eqb (snd a) (snd b).
Definition shift_range (r : range) (off : nat) : range := (fst r + off, snd r + off).
Definition info_range (i : info) : range := (i_s i, i_e i).

(* ---- entries ---- *)
Record ventry := {
  ve_name : ident; ve_ref : bool; ve_ty : option dtype; ve_range : range; ve_doc : option text }.

Inductive lentry := LVar (v : ventry) | LParam (v : ventry).

Definition ltable := list (text * lentry).

Record tentry := {
  ten_name : ident; ten_ty : option dtype; ten_range : range; ten_doc : option text }.

Record pentry := {
  pe_name : ident; pe_local : ltable; pe_params : list ventry; pe_range : range; pe_doc : option text }.

Inductive gentry := GTypeE (t : tentry) | GProcE (p : pentry).

Definition gtable := list (text * gentry).

(* enum Entry<'a> *)
Inductive entry :=
| EntType (t : tentry) | EntProc (p : pentry) | EntVar (v : ventry) | EntParam (v : ventry).

Definition entry_of_g (g : gentry) : entry :=
  match g with GTypeE t => EntType t | GProcE p => EntProc p end.
Definition entry_of_l (l : lentry) : entry :=
  match l with LVar v => EntVar v | LParam v => EntParam v end.

(* ---- SymbolTable: lookup / enter ---- *)
Fixpoint lookup {V} (t : list (text * V)) (k : text) : option V :=
  match t with
  | [] => None
  | (k', v) :: r => if text_eqb k' k then Some v else lookup r k
  end.

(* enter: (table afterwards, true = Ok(()) / false = Err(KeyAlreadyExists)) *)
Definition enter {V} (t : list (text * V)) (k : text) (v : V) : list (text * V) * bool :=
  match lookup t k with
  | Some _ => (t, false)
  | None => (t ++ [(k, v)], true)
  end.

(* LookupTable::lookup: local first, then global *)
Definition lt_lookup (l : option ltable) (g : option gtable) (k : text) : option entry :=
  match (match l with Some t => lookup t k | None => None end) with
  | Some e => Some (entry_of_l e)
  | None =>
      match (match g with Some t => lookup t k | None => None end) with
      | Some e => Some (entry_of_g e)
      | None => None
      end
  end.

(* ---- table/initialization.rs ---- *)
Definition new_ident (s : text) : ident := {| id_val := s; id_info := mkinfo 0 0 |}.

Definition int_param (name : string) (is_ref : bool) : ventry :=
  {| ve_name := new_ident (str name); ve_ref := is_ref; ve_ty := Some DInt; ve_range := (0, 0); ve_doc := None |}.

Definition procedure_entry (name : string) (doc : text) (params : list ventry) : text * gentry :=
  (str name,
   GProcE {| pe_name := new_ident (str name); pe_local := []; pe_params := params;
             pe_range := (0, 0); pe_doc := Some doc |}).

Definition s_int := str "int".
Definition s_main := str "main".

(* documentation strings; non-ASCII letters as code points: 252 = u-umlaut, 246 = o-umlaut;
   10 = the line break inside the Rust string literal *)
Definition doc_printi := str "Gibt den Wert von i auf dem Textbildschirm aus.".
Definition doc_printc := str "Gibt das Zeichen mit dem ASCII-Code i auf dem Textbildschirm aus.".
Definition doc_readi :=
  (str "Liest eine ganze Zahl von der Tastatur ein und speichert sie in i." ++ [10]
   ++ str "Die Eingabe erfolgt zeilenweise gepuffert mit Echo.")%N.
Definition doc_readc :=
  (str "Liest ein Zeichen von der Tastatur ein und speichert seinen ASCII-Code in i." ++ [10]
   ++ str "Die Eingabe erfolgt ungepuffert und ohne Echo.")%N.
Definition doc_exit :=
  (str "Beendet das laufende Programm und kehrt nicht zum Aufrufer zur" ++ [252] ++ str "ck.")%N.
Definition doc_time :=
  (str "Gibt in i die seit dem Start des Programms vergangene Zeit in Sekun- den zur" ++ [252] ++ str "ck.")%N.
Definition doc_clearAll :=
  (str "L" ++ [246] ++ str "scht den Graphikbildschirm mit der Farbe color." ++ [10]
   ++ str "Farben werden durch Angabe der R-, G- und B-Komponenten nach dem Muster 0x00RRGGBB gebildet." ++ [10]
   ++ str "Es stehen also f" ++ [252] ++ str "r jede Komponente die Werte 0..255 zur Verf" ++ [252] ++ str "gung.")%N.
Definition doc_setPixel :=
  (str "Setzt den Pixel mit den Koordinaten x und y auf die Farbe color." ++ [10]
   ++ str "Grenzen: 0<= x <640, 0 <= y < 480.")%N.
Definition doc_drawLine :=
  (str "Zeichnet eine gerade Linie von (x1|y1) nach (x2|y2) mit der Farbe color." ++ [10]
   ++ str "Grenzen wie bei setPixel.")%N.
Definition doc_drawCircle :=
  str "Zeichnet einen Kreis um den Mittelpunkt (x0|y0) mit dem Radius radius und der Farbe color.".

(* GlobalTable::initialized(), in the order of the array literal *)
Definition initialized : gtable :=
  [ (s_int, GTypeE {| ten_name := new_ident s_int; ten_ty := Some DInt; ten_range := (0, 0); ten_doc := None |});
    procedure_entry "printi" doc_printi [int_param "i" false];
    procedure_entry "printc" doc_printc [int_param "i" false];
    procedure_entry "readi" doc_readi [int_param "i" true];
    procedure_entry "readc" doc_readc [int_param "i" true];
    procedure_entry "exit" doc_exit [];
    procedure_entry "time" doc_time [int_param "i" true];
    procedure_entry "clearAll" doc_clearAll [int_param "color" false];
    procedure_entry "setPixel" doc_setPixel [int_param "x" false; int_param "y" false; int_param "z" false];
    procedure_entry "drawLine" doc_drawLine
      [int_param "x1" false; int_param "y1" false; int_param "x2" false; int_param "y2" false; int_param "color" false];
    procedure_entry "drawCircle" doc_drawCircle
      [int_param "x0" false; int_param "y0" false; int_param "radius" false; int_param "color" false] ].

(* DEFAULT_ENTRIES / Entry::is_default *)
Definition default_entries : list text :=
  map str ["printi"; "printc"; "readi"; "readc"; "exit"; "time"; "clearAll"; "setPixel"; "drawLine"; "drawCircle"; "int"]%string.

Definition is_default (e : entry) : bool :=
  match e with
  | EntType t => existsb (text_eqb (id_val (ten_name t))) default_entries
  | EntProc p => existsb (text_eqb (id_val (pe_name p))) default_entries
  | _ => false
  end.

(* ---- AstInfo / Identifier helpers shared by build and analyze ---- *)
Definition mkerr_t (r : range) (m : emsg) : err := {| e_s := fst r; e_e := snd r; e_m := m |}.

Definition ident_append (i : ident) (x : err) : ident :=
  {| id_val := id_val i; id_info := info_append (id_info i) x |}.

(* Identifier::to_error *)
Definition to_error (i : ident) (m : text -> emsg) : res err :=
  let e := i_e (id_info i) in
  if Nat.eqb e 0 then RFail SiteIdentEmpty
  else ROk {| e_s := e - 1; e_e := e; e_m := m (id_val i) |}.

(* name.info.append_error(name.to_error(msg)) *)
Definition ident_flag (i : ident) (m : text -> emsg) : res ident :=
  do e <- to_error i m; ROk (ident_append i e).
