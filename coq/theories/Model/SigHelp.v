(* lsp4spl/src/features/signature_help.rs - textDocument/signatureHelp.

   signature_help(doc, position):
     cursor = doc_cursor(position)
     pd     = the FIRST procedure declaration whose text range (AstInfo::to_text_range on
              tokens[gd.offset..]) contains the cursor index           (type declarations are skipped
              without looking at their ranges)
     call   = find_call_stmt: depth-first, first match, through Block / If (then-branch before
              else-branch) / While, accumulating the Reference offsets; a call statement matches
              when ITS text range (leading comments of the statement included, up to the `;`)
              contains the index
     entry  = GLOBAL table lookup of the callee name; anything but a procedure -> no answer
     answer = label Display(entry), documentation "---\n" ++ doc.trim_start() ++ "\n" when the entry
              has a doc comment, one parameter label per parameter of the entry, active parameter
              = number of Comma tokens of the call statement's token slice that START before the
              index (None when the procedure has no parameters)
   Quirk kept: the answer is given for EVERY index inside the call statement's text range, not only
   between the parentheses (on the callee name, inside a comment in front of the statement, between
   `)` and `;`). *)
From Coq Require Import String.
From Spl Require Export Model.Hover.
Local Open Scope nat_scope.

Record sighelp := { sh_label : text; sh_doc : option text; sh_params : list text; sh_active : option N }.

(* the procedure that contains the cursor index *)
Fixpoint find_proc (toks : list token) (index : N) (l : list (gdecl * nat)) : res (option (procdecl * nat)) :=
  match l with
  | [] => ROk None
  | (GProc pd, off) :: r =>
      do sl <- slice_from toks off;
      do tr <- info_text_range sl (pd_info pd);
      if in_range tr index then ROk (Some (pd, off)) else find_proc toks index r
  | _ :: r => find_proc toks index r
  end.

(* (callee name, info of the call statement, accumulated offset) *)
Definition call_hit := (ident * info * nat)%type.

(* find_call_stmt_in_stmt *)
Fixpoint find_call_in_stmt (toks : list token) (index : N) (s : stmt) (offset : nat) : res (option call_hit) :=
  let in_opt (o : option (stmt * nat)) : res (option call_hit) :=
    match o with
    | Some (x, off) => find_call_in_stmt toks index x (offset + off)
    | None => ROk None
    end in
  match s with
  | SBlock body _ =>
      (fix go (l : list (stmt * nat)) : res (option call_hit) :=
         match l with
         | [] => ROk None
         | (x, off) :: r =>
             do h <- find_call_in_stmt toks index x (offset + off);
             match h with Some _ => ROk h | None => go r end
         end) body
  | SIf _ t e _ =>
      do h <- in_opt t;
      match h with Some _ => ROk h | None => in_opt e end
  | SWhile _ b _ => in_opt b
  | SCall name _ inf =>
      do sl <- slice_from toks offset;
      do tr <- info_text_range sl inf;
      if in_range tr index then ROk (Some (name, inf, offset)) else ROk None
  | _ => ROk None
  end.

(* find_call_stmt *)
Fixpoint find_call_in_stmts (toks : list token) (index : N) (l : list (stmt * nat)) (offset : nat)
  : res (option call_hit) :=
  match l with
  | [] => ROk None
  | (x, off) :: r =>
      do h <- find_call_in_stmt toks index x (offset + off);
      match h with Some _ => ROk h | None => find_call_in_stmts toks index r offset end
  end.

(* the loop of get_active_param *)
Fixpoint count_commas (toks : list token) (index : N) (acc : N) : N :=
  match toks with
  | [] => acc
  | t :: r =>
      if (index <=? ts t)%N then acc
      else count_commas r index (match tk t with Comma => (acc + 1)%N | _ => acc end)
  end.

Definition get_active_param (params : list text) (toks : list token) (index : N) : option N :=
  match params with
  | [] => None
  | _ :: _ => Some (count_commas toks index 0%N)
  end.

Definition sig_documentation (doc : option text) : option text :=
  match doc with
  | Some d => Some (str "---" ++ [10%N] ++ trim_start d ++ [10%N])
  | None => None
  end.

Definition signature_help (d : doc) (line col : N) : res (option sighelp) :=
  do c <- doc_cursor d line col;
  let toks := d_toks d in
  let index := c_index c in
  do p <- find_proc toks index (pg_decls (d_ast d));
  match p with
  | None => ROk None
  | Some (pd, pd_off) =>
      do h <- find_call_in_stmts toks index (pd_stmts pd) pd_off;
      match h with
      | None => ROk None
      | Some (name, inf, offset) =>
          match lookup (d_table d) (id_val name) with
          | Some (GProcE pe) =>
              let params := map show_ventry (pe_params pe) in
              do sl <- slice toks (shift_range (info_range inf) offset);
              ROk (Some {| sh_label := show_pentry pe; sh_doc := sig_documentation (pe_doc pe);
                           sh_params := params; sh_active := get_active_param params sl index |})
          | _ => ROk None
          end
      end
  end.
