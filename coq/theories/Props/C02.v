(* C02 - the server never crashes or goes silent.  Statements only.

   The model makes every panic site of the anchored code an explicit outcome, so "never panics"
   is a theorem, not an artefact of totalisation.  Proved for ALL Unicode texts:
     - the lexer always succeeds ("Lexing must not fail." is unreachable, no fuel exhaustion),
       its output ends with its only Eof token;
     - parsing the lexer's output always succeeds: "Parser cannot fail" and the "Incomplete data"
       arms are unreachable and the stated fuel suffices (C02_parse_ok, C02_parse_total);
     - hence AnalyzedSource::new up to the tree always returns (C02_new_tree_total);
     - table construction never reaches "'main' must be a procedure", semantic analysis never reaches
       "Named declaration without entry", and the only panic site the rest of AnalyzedSource::new can
       reach is the assert of Identifier::to_error - which is unreachable too, because every identifier
       node the parser creates has a non-empty range (C02_new_doc_total: AnalyzedSource::new never panics);
     - every diagnostic range collected from the tree lies inside the token vector, so the index and
       slice expressions of AnalyzedSource::errors() never panic, and every published byte range lies
       inside the document (C02_errors_total, C02_errors_inside, C02_analysis_total);
     - along every edit history the lexer part of AnalyzedSource::update never panics (C01_lexer_total).
   The incremental parser CAN panic after edits (known finding C01-incparse, class: predicted by the
   model); request handlers are covered per feature (C12-C17) and by the check's request fuzz.
   Process liveness, stack depth and allocation are observed by the check, not proved. *)
From Spl Require Import Model.Lexer Model.Parser Model.Update Model.Errors Proofs.LexerProofs Proofs.ParserTotal
  Proofs.ParserProofs Proofs.PipelineProofs Proofs.SemProofs Proofs.RangeProofs.

Theorem C02_lex_total : forall s : text, exists toks, lex s = Some toks.
Proof. exact lex_total. Qed.
Print Assumptions C02_lex_total.

Theorem C02_parse_ok : forall toks, EofLast toks -> exists prog, parse toks = Done prog.
Proof. exact parse_ok. Qed.
Print Assumptions C02_parse_ok.

Theorem C02_parse_total : forall s toks, lex s = Some toks -> exists prog, parse toks = Done prog.
Proof. intros s toks H. exact (parse_ok toks (lex_eoflast s toks H)). Qed.
Print Assumptions C02_parse_total.

Theorem C02_parse_fuel : forall toks, parse toks <> OutOfFuel.
Proof. exact T4_parse_fuel_suffices. Qed.
Print Assumptions C02_parse_fuel.

Theorem C02_new_tree_total : forall t, exists d, pnew t = Done d.
Proof. exact pnew_total. Qed.
Print Assumptions C02_new_tree_total.

Theorem C02_build_main : forall p, build_res p <> RFail SiteMainNotProc.
Proof. exact build_main_is_procedure. Qed.
Print Assumptions C02_build_main.

Theorem C02_analyze_entries : forall p0 p t, build_res p0 = ROk (p, t) -> analyze_res p t <> RFail SiteNoEntry.
Proof. exact analyze_after_build_has_entries. Qed.
Print Assumptions C02_analyze_entries.

(* AnalyzedSource::new never panics *)
Theorem C02_new_doc_total : forall t, exists d, new_doc_res t = ODone d.
Proof. exact new_doc_total. Qed.
Print Assumptions C02_new_doc_total.

(* AnalyzedSource::errors() never panics on an analysed document *)
Theorem C02_errors_total : forall t d, new_doc_res t = ODone d -> exists l, doc_errors_res d = ROk l.
Proof. exact doc_errors_total. Qed.
Print Assumptions C02_errors_total.

(* ... and every published range lies inside the document *)
Theorem C02_errors_inside : forall t d l,
  new_doc_res t = ODone d -> doc_errors_res d = ROk l ->
  Forall (fun y => (fst (fst y) <= snd (fst y) <= blen t)%N) l.
Proof. exact errors_inside. Qed.
Print Assumptions C02_errors_inside.

Theorem C02_analysis_total : forall t,
  exists d l, new_doc_res t = ODone d /\ doc_errors_res d = ROk l /\
              Forall (fun y => (fst (fst y) <= snd (fst y) <= blen t)%N) l.
Proof. exact analysis_total. Qed.
Print Assumptions C02_analysis_total.

(* non-vacuity: a broken text is analysed to a tree *)
Example C02_example :
  match pnew [112; 114; 111; 99; 32; 40; 32; 123; 32; 120; 32; 58; 61; 32; 59; 32; 39]%N with   (* "proc ( { x := ; '" *)
  | Done d => length (pg_decls (p_tree d)) = 1%nat
  | _ => False
  end.
Proof. vm_compute. reflexivity. Qed.
