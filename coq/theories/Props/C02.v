(* C02 - the server never crashes or goes silent.  Statements only.

   The model makes every panic site of the anchored code an explicit outcome, so "never panics"
   is a theorem, not an artefact of totalisation.  Proved for ALL Unicode texts:
     - the lexer always succeeds ("Lexing must not fail." is unreachable, no fuel exhaustion),
       its output ends with its only Eof token;
     - parsing the lexer's output always succeeds: "Parser cannot fail" and the "Incomplete data"
       arms are unreachable and the stated fuel suffices (C02_parse_ok, C02_parse_total);
     - hence AnalyzedSource::new up to the tree always returns (C02_new_tree_total);
     - table construction never reaches "'main' must be a procedure", semantic analysis never reaches
       "Named declaration without entry", and the only panic site the rest of AnalyzedSource::new can
       reach is the assert of Identifier::to_error - which is unreachable too, because every identifier
       node the parser creates has a non-empty range (C02_new_doc_total: AnalyzedSource::new never panics);
     - every diagnostic range collected from the tree lies inside the token vector, so the index and
       slice expressions of AnalyzedSource::errors() never panic, and every published byte range lies
       inside the document (C02_errors_total, C02_errors_inside, C02_analysis_total);
     - along every edit history the lexer part of AnalyzedSource::update never panics (C01_lexer_total);
     - request handlers: each handler is proved panic-free per feature (C12-C17) under an executable
       well-formedness predicate on the analysed document (Refs.nav_wf_b: go-to x4, references, rename,
       prepareRename; Hover.cursor_pre: hover; Completion.compl_wf_b: completion; Fold.fold_pre:
       foldingRange; SemTok.doc_wf_b: semanticTokens).  Every one of these predicates holds for the
       document AnalyzedSource::new builds from ANY text (C02_new_doc_nav_wf, C02_new_doc_cursor_pre,
       C02_new_doc_compl_wf, C02_new_doc_fold_pre, C02_new_doc_doc_wf; proofs in Proofs/Total*.v from
       the position discipline of the parser, T5 and R2), and signatureHelp - which has no predicate
       of its own - is total as well.  Hence on a freshly analysed document NO request handler panics,
       whatever the text and the position (C02_handlers_total, twelve handlers): every slice, index and `expect` of
       goto.rs, references.rs, hover.rs, signature_help.rs, completion.rs, fold.rs and
       semantic_tokens.rs is unreachable there;
     - the thirteenth handler, textDocument/formatting, lexes and parses the text itself and then walks the
       tree of ANY document - syntax errors included: error nodes are printed from their raw token slices -
       slicing the token vector with node ranges (`info.slice(tokens)`) and Reference offsets
       (`&tokens[offset..]`) and `expect`ing a literal token inside the slice of every int literal; each of
       these is a panic site of the model (Format.FPanic).  None is reachable: for every text and every
       option setting `format` answers (C02_format_total), because every tree the parser returns on a
       token list ending with its only Eof satisfies the printability predicate TotalFormatWf.ProgF
       (start <= end and end in bounds for every range the formatter reads, every Reference offset in
       bounds, a literal token in every int literal's slice; Proofs/TotalFormatWf.v, same parser
       invariant as R2) and the printers return on every such tree (Proofs/TotalFormat.v,
       C02_format_printers).  Probing the model with half-typed programs (empty text, `proc`, `proc main(`,
       `type t =`, `proc p() { a[ := 1; }`, `proc p(a: array [) {}`, unterminated char literal, stray
       tokens between declarations, comments inside every construct, deep nesting) found no failing input.
   The incremental parser CAN panic after edits (known finding C01-incparse, class: predicted by the
   model), so after an edit the handlers are covered by the check's request fuzz only.
   Process liveness, stack depth and allocation are observed by the check, not proved. *)
From Spl Require Import Model.Lexer Model.Parser Model.Update Model.Errors Proofs.LexerProofs Proofs.ParserTotal
  Proofs.ParserProofs Proofs.PipelineProofs Proofs.SemProofs Proofs.RangeProofs.
From Spl Require Import Model.Refs Model.Hover Model.SigHelp Model.Completion Model.Fold Model.SemTok
  Proofs.TotalCursor Proofs.TotalFold Proofs.TotalCompl Proofs.TotalNav.

Theorem C02_lex_total : forall s : text, exists toks, lex s = Some toks.
Proof. exact lex_total. Qed.
Print Assumptions C02_lex_total.

Theorem C02_parse_ok : forall toks, EofLast toks -> exists prog, parse toks = Done prog.
Proof. exact parse_ok. Qed.
Print Assumptions C02_parse_ok.

Theorem C02_parse_total : forall s toks, lex s = Some toks -> exists prog, parse toks = Done prog.
Proof. intros s toks H. exact (parse_ok toks (lex_eoflast s toks H)). Qed.
Print Assumptions C02_parse_total.

Theorem C02_parse_fuel : forall toks, parse toks <> OutOfFuel.
Proof. exact T4_parse_fuel_suffices. Qed.
Print Assumptions C02_parse_fuel.

Theorem C02_new_tree_total : forall t, exists d, pnew t = Done d.
Proof. exact pnew_total. Qed.
Print Assumptions C02_new_tree_total.

Theorem C02_build_main : forall p, build_res p <> RFail SiteMainNotProc.
Proof. exact build_main_is_procedure. Qed.
Print Assumptions C02_build_main.

Theorem C02_analyze_entries : forall p0 p t, build_res p0 = ROk (p, t) -> analyze_res p t <> RFail SiteNoEntry.
Proof. exact analyze_after_build_has_entries. Qed.
Print Assumptions C02_analyze_entries.

(* AnalyzedSource::new never panics *)
Theorem C02_new_doc_total : forall t, exists d, new_doc_res t = ODone d.
Proof. exact new_doc_total. Qed.
Print Assumptions C02_new_doc_total.

(* AnalyzedSource::errors() never panics on an analysed document *)
Theorem C02_errors_total : forall t d, new_doc_res t = ODone d -> exists l, doc_errors_res d = ROk l.
Proof. exact doc_errors_total. Qed.
Print Assumptions C02_errors_total.

(* ... and every published range lies inside the document *)
Theorem C02_errors_inside : forall t d l,
  new_doc_res t = ODone d -> doc_errors_res d = ROk l ->
  Forall (fun y => (fst (fst y) <= snd (fst y) <= blen t)%N) l.
Proof. exact errors_inside. Qed.
Print Assumptions C02_errors_inside.

Theorem C02_analysis_total : forall t,
  exists d l, new_doc_res t = ODone d /\ doc_errors_res d = ROk l /\
              Forall (fun y => (fst (fst y) <= snd (fst y) <= blen t)%N) l.
Proof. exact analysis_total. Qed.
Print Assumptions C02_analysis_total.

(* ---- request handlers on a freshly analysed document ---- *)

(* the well-formedness predicates of C12-C17 hold for the document of every text *)
Theorem C02_new_doc_nav_wf : forall t d, new_doc_res t = ODone d -> nav_wf_b d = true.
Proof. exact new_doc_nav_wf. Qed.
Print Assumptions C02_new_doc_nav_wf.

Theorem C02_new_doc_cursor_pre : forall t d, new_doc_res t = ODone d -> cursor_pre d = true.
Proof. exact new_doc_cursor_pre. Qed.
Print Assumptions C02_new_doc_cursor_pre.

Theorem C02_new_doc_compl_wf : forall t d, new_doc_res t = ODone d -> compl_wf_b d = true.
Proof. exact new_doc_compl_wf. Qed.
Print Assumptions C02_new_doc_compl_wf.

Theorem C02_new_doc_fold_pre : forall t d, new_doc_res t = ODone d -> fold_pre d = true.
Proof. exact new_doc_fold_pre. Qed.
Print Assumptions C02_new_doc_fold_pre.

Theorem C02_new_doc_doc_wf : forall t d, new_doc_res t = ODone d -> doc_wf_b d = true.
Proof. exact new_doc_doc_wf. Qed.
Print Assumptions C02_new_doc_doc_wf.

(* no request handler panics, whatever the text and the position *)
Theorem C02_handlers_total : forall t d (line col : N),
  new_doc_res t = ODone d ->
  (exists r, goto_declaration d line col = ROk r) /\
  (exists r, goto_definition d line col = ROk r) /\
  (exists r, goto_type_definition d line col = ROk r) /\
  (exists r, goto_implementation d line col = ROk r) /\
  (exists r, references d line col = ROk r) /\
  (exists r, rename d line col = ROk r) /\
  (exists r, prepare_rename d line col = ROk r) /\
  (exists r, hover d line col = ROk r) /\
  (exists r, signature_help d line col = ROk r) /\
  (exists r, propose d line col = ROk r) /\
  (exists r, fold d = ROk r) /\
  (exists r, semantic_tokens d = SOk r).
Proof. exact handlers_total. Qed.
Print Assumptions C02_handlers_total.

(* the predicates are not vacuous: they fail on a document whose tree does not belong to its tokens *)
Example C02_predicates_example :
  match new_doc_res [112; 114; 111; 99; 32; 109; 97; 105; 110; 40; 41; 123; 125]%N with   (* "proc main(){}" *)
  | ODone d =>
      let d' := {| d_text := d_text d; d_toks := firstn 3 (d_toks d); d_ast := d_ast d; d_table := d_table d |} in
      (nav_wf_b d, cursor_pre d, compl_wf_b d, fold_pre d) = (true, true, true, true) /\
      (nav_wf_b d', cursor_pre d', compl_wf_b d', fold_pre d') = (false, false, false, false) /\
      hover d' 0 6 = RFail SiteTokenSlice
  | _ => False
  end.
Proof. vm_compute. repeat split; reflexivity. Qed.

(* non-vacuity: a broken text is analysed to a tree *)
Example C02_example :
  match pnew [112; 114; 111; 99; 32; 40; 32; 123; 32; 120; 32; 58; 61; 32; 59; 32; 39]%N with   (* "proc ( { x := ; '" *)
  | Done d => length (pg_decls (p_tree d)) = 1%nat
  | _ => False
  end.
Proof. vm_compute. reflexivity. Qed.

(* ---- the thirteenth handler: textDocument/formatting (Model/Format.v is not imported here: its `do`
   notation clashes with the one of Model/Errors.v) ---- *)
From Spl Require Model.Format Proofs.FormatProofs Proofs.TotalFormatWf Proofs.TotalFormat.

(* `format` answers for every text and every option setting: neither Panic nor OutOfFuel *)
Theorem C02_format_total : forall doc ins ts, exists r, Format.format_request doc ins ts = Done r.
Proof. exact TotalFormat.format_total. Qed.
Print Assumptions C02_format_total.

Theorem C02_formatted_text_total : forall doc ins ts, exists out, FormatProofs.formatted_text doc ins ts = Done out.
Proof. exact TotalFormat.formatted_text_total. Qed.
Print Assumptions C02_formatted_text_total.

(* the parser side: every tree `parse` returns on a token list ending with its only Eof is printable ... *)
Theorem C02_parse_printable : forall toks prog,
  EofLast toks -> parse toks = Done prog -> TotalFormatWf.ProgF toks (length toks - 1) prog.
Proof. exact TotalFormatWf.parse_fwf. Qed.
Print Assumptions C02_parse_printable.

(* ... and the printers return on every such tree, for every option setting *)
Theorem C02_format_printers : forall toks p f,
  EofLast toks -> parse toks = Done p -> exists out, Format.fmt_program f p toks = Format.FOk out.
Proof. exact TotalFormat.fmt_parse_total. Qed.
Print Assumptions C02_format_printers.

(* the panic sites are real: the tree of "proc main(){x:=1;}" printed on a truncated token vector panics *)
Example C02_format_sites_real :
  match lex [112; 114; 111; 99; 32; 109; 97; 105; 110; 40; 41; 123; 120; 58; 61; 49; 59; 125]%N with
  | Some toks =>
      match parse toks with
      | Done p =>
          (exists out, Format.fmt_program (Format.options_of true 4) p toks = Format.FOk out) /\
          Format.fmt_program (Format.options_of true 4) p (firstn 3 toks) = Format.FPanic
      | _ => False
      end
  | None => False
  end.
Proof. vm_compute. split; [eexists; reflexivity | reflexivity]. Qed.
