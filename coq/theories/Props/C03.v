(* C03 - diagnostics are exactly what SPL prescribes, and point at the culprit.

   Spec/Typing.v : the static semantics of SPL as declarative judgements over the spl_frontend syntax tree and
                   symbol tables (scoping `binds`, `var_type`/`expr_type`, `wt_stmt`, declarations `wf_gdecls`,
                   `wf_program`, `well_typed`), and `att_program` (which error is attached where).
   Model/Build.v, Model/Semantic.v, Model/Errors.v : the analysis (table::build, table::analyze, errors()).
   Statements only; proofs in Proofs/TypingProofs.v.

   What is proved here, for ALL trees and tables (no parser, no lexer involved unless stated):
     - no false positive: well-formed declarations / well-typed bodies => build / analyze return the tree
       unchanged, nothing is attached (C03_build_sound, C03_analyze_sound, C03_no_false_positive_tree);
       with C04's round-trip theorem also for every TEXT that lexes to the tokens of a well-typed abstract
       program (C03_no_false_positive: the lexer's output is a hypothesis);
     - no false negative: if analyze attaches nothing to a clean tree, every analysed body is well-typed
       (C03_analyze_complete; C03_analyze_exact: iff, for well-formed declarations);
     - per rule: a node that violates exactly one premise of its rule gets exactly that rule's message at
       the node the rule names, with that node's range (C03_rule_*: 18 semantic, 10 declaration rules);
     - localisation: what errors() collects is each attached error shifted by the sum of the offsets of the
       enclosing References, nothing else (C03_localisation), and the byte range published for it
       (C03_published_range);
     - errors() cannot fail when the collected ranges lie within the token vector (C03_ranges_inside).
     - exactly one fault => exactly one diagnostic (C03_single_fault_stmt/_program, C03_single_semantic_fault,
       C03_statement_semantic);
     - exactly one DECLARATION fault (all ten declaration rules; Proofs/DeclFaults.v `decl_fault_program`, one
       constructor per way to violate a rule, the table the rest is checked against stated explicitly) => `build`
       returns the prescribed table and errors() exactly the prescribed diagnostics, on trees and from texts on
       (C03_single_declaration_fault, C03_single_declaration_fault_text, C03_main_is_missing_text,
       C03_main_is_not_a_procedure_text), hence the full statement of the property for the union of the semantic and
       the declaration faults (C03_statement_declaration, C03_full_statement_declaration); one example per rule.
     - exactly one SYNTAX fault - one required closing token is missing: the `;` of an assignment, a call statement, a
       variable or a type declaration, the `)` of a call statement or of the condition of an if / while, the `}` of a
       procedure body, the `)` of a parenthesised expression or the `]` of an index anywhere in an assignment, in the condition
       of an if / while or in an argument of a call (Proofs/SynFaults.v `fprog`, Proofs/SynFaultsE.v: one constructor per kind of fault) => the
       parser returns the mandated tree of the original program with exactly ONE error, the message of the missing token
       with the EMPTY range at the token in front of the gap (C03_missing_token, C03_missing_semicolon, C03_missing_paren,
       C03_missing_bracket, C03_missing_brace); if the original program is well-typed, build and analyze add nothing
       (C03_missing_token_analysis); from texts on: exactly one diagnostic, the empty byte range at the END of the token in
       front of the gap (C03_missing_token_text, C03_missing_semicolon_text, ..., C03_syntax_statement_holds); examples.
   NOT proved: the `]` of an array size, the `)` of a parameter list, missing opening tokens and `:` / `=` / `of`
   (tools/splfaults.py validates the ones it generates on generated programs). *)
From Spl Require Import Spec.Typing Model.Errors Proofs.TypingProofs.
Local Open Scope nat_scope.

(* ---- no false positive ---- *)

Theorem C03_analyze_sound : forall p G, wt_bodies G p -> analyze_res p G = ROk p /\ analyze p G = Done p.
Proof. intros p G H. split; [exact (analyze_sound p G H) | exact (analyze_sound_outcome p G H)]. Qed.
Print Assumptions C03_analyze_sound.

Theorem C03_build_sound : forall p G, wf_program p G -> build_res p = ROk (p, G) /\ build p = Done (p, G).
Proof. intros p G H. split; [exact (build_sound p G H) | exact (build_sound_outcome p G H)]. Qed.
Print Assumptions C03_build_sound.

(* the table maps every declared name to the entry made from its own declaration *)
Theorem C03_build_table : forall G ds es,
  wf_gdecls G ds es ->
  Forall2 (fun d ke => lookup (G ++ es) (fst ke) = Some (snd ke) /\ entry_of_decl d ke) ds es.
Proof. exact build_table_maps. Qed.
Print Assumptions C03_build_table.

Theorem C03_no_false_positive_tree : forall p G,
  tree_clean p = true -> well_typed p G ->
  build_res p = ROk (p, G) /\ analyze_res p G = ROk p /\ tree_errors p = [].
Proof. exact no_false_positive_tree. Qed.
Print Assumptions C03_no_false_positive_tree.

(* for every abstract program (Spec/Grammar.v: comments in any token gap) without the dangling-else shape,
   every text that lexes to its tokens, if the mandated tree is well-typed: no diagnostic at all *)
Theorem C03_no_false_positive : forall p t G,
  prog_ok p = true -> layout_of p t -> well_typed (expected p) G -> diagnostics t = Done [].
Proof. exact no_false_positive. Qed.
Print Assumptions C03_no_false_positive.

(* ---- no false negative ---- *)

Theorem C03_analyze_complete : forall p G,
  gtable_ok G -> tree_clean p = true -> analyze_res p G = ROk p -> wt_bodies G p.
Proof. exact analyze_complete. Qed.
Print Assumptions C03_analyze_complete.

Theorem C03_tables_resolved : forall p G, wf_program p G -> gtable_ok G.
Proof. exact wf_tables_ok. Qed.
Print Assumptions C03_tables_resolved.

Theorem C03_analyze_exact : forall p G,
  tree_clean p = true -> wf_program p G -> (analyze_res p G = ROk p <-> wt_bodies G p).
Proof. exact analyze_exact. Qed.
Print Assumptions C03_analyze_exact.

(* statement level, both directions, for any tables *)
Theorem C03_stmt_sound : forall L G s, wt_stmt L G s -> an_stmt (Some L) (Some G) s = ROk s.
Proof. exact an_stmt_sound. Qed.
Print Assumptions C03_stmt_sound.

Theorem C03_stmt_complete : forall L G s,
  ltable_ok L -> gtable_ok G -> clean_stmt s = true -> an_stmt (Some L) (Some G) s = ROk s -> wt_stmt L G s.
Proof. intros L G s HL HG. exact (an_stmt_complete L G HL HG s). Qed.
Print Assumptions C03_stmt_complete.

(* ---- per rule: semantic rules ---- *)

Theorem C03_rule_undefined_variable : forall L G i,
  unbound L G (id_val i) -> i_e (id_info i) <> 0 ->
  an_var (Some L) (Some G) (NamedVar i) =
  ROk (NamedVar (ident_append i (name_err i (ESem (UndefinedVariable (id_val i))))), None).
Proof. exact rule_undefined_variable. Qed.
Print Assumptions C03_rule_undefined_variable.

Theorem C03_rule_not_a_variable : forall L G i e,
  binds L G (id_val i) e -> (forall ve, ~ var_entry e ve) -> i_e (id_info i) <> 0 ->
  an_var (Some L) (Some G) (NamedVar i) =
  ROk (NamedVar (ident_append i (name_err i (ESem (NotAVariable (id_val i))))), None).
Proof. exact rule_not_a_variable. Qed.
Print Assumptions C03_rule_not_a_variable.

Theorem C03_rule_indexing_non_array : forall L G a e off inf t,
  var_type L G a t -> ~ is_array t -> expr_type L G e DInt ->
  an_var (Some L) (Some G) (ArrAccess a (Some (e, off)) inf) =
  ROk (ArrAccess a (Some (e, off)) (info_append inf (node_err inf IndexingNonArray)), None).
Proof. exact rule_indexing_non_array. Qed.
Print Assumptions C03_rule_indexing_non_array.

Theorem C03_rule_indexing_with_non_integer : forall L G a e off inf sz b c t,
  var_type L G a (DArray sz (Some b) c) -> expr_type L G e t -> t <> DInt ->
  an_var (Some L) (Some G) (ArrAccess a (Some (e, off)) inf) =
  ROk (ArrAccess a (Some (expr_append e (expr_err e IndexingWithNonInteger), off)) inf, Some b).
Proof. exact rule_indexing_with_non_integer. Qed.
Print Assumptions C03_rule_indexing_with_non_integer.

Theorem C03_rule_operator_different_types : forall L G op l r inf tl tr,
  expr_type L G l tl -> expr_type L G r tr -> (tl = DInt /\ tr <> DInt) \/ (tl <> DInt /\ tr = DInt) ->
  an_expr (Some L) (Some G) (EBin op l r inf) =
  ROk (EBin op l r (info_append inf (node_err inf OperatorDifferentTypes)), Some (bin_type op)).
Proof. exact rule_operator_different_types. Qed.
Print Assumptions C03_rule_operator_different_types.

Theorem C03_rule_arithmetic_non_integer : forall L G op l r inf tl tr,
  expr_type L G l tl -> expr_type L G r tr -> tl <> DInt -> tr <> DInt -> is_arithmetic op = true ->
  an_expr (Some L) (Some G) (EBin op l r inf) =
  ROk (EBin op l r (info_append inf (node_err inf ArithmeticOperatorNonInteger)), Some DInt).
Proof. exact rule_arithmetic_non_integer. Qed.
Print Assumptions C03_rule_arithmetic_non_integer.

Theorem C03_rule_comparison_non_integer : forall L G op l r inf tl tr,
  expr_type L G l tl -> expr_type L G r tr -> tl <> DInt -> tr <> DInt -> is_arithmetic op = false ->
  an_expr (Some L) (Some G) (EBin op l r inf) =
  ROk (EBin op l r (info_append inf (node_err inf ComparisonNonInteger)), Some DBool).
Proof. exact rule_comparison_non_integer. Qed.
Print Assumptions C03_rule_comparison_non_integer.

Theorem C03_rule_unary_non_integer : forall L G op a inf t,
  expr_type L G a t -> t <> DInt ->
  an_expr (Some L) (Some G) (EUn op a inf) =
  ROk (EUn op a (info_append inf (node_err inf ArithmeticOperatorNonInteger)), Some DInt).
Proof. exact rule_unary_non_integer. Qed.
Print Assumptions C03_rule_unary_non_integer.

Theorem C03_rule_assignment_different_types : forall L G v e off inf tl tr,
  var_type L G v tl -> expr_type L G e tr -> tl <> tr ->
  an_stmt (Some L) (Some G) (SAssign v (Some (e, off)) inf) =
  ROk (SAssign v (Some (e, off)) (info_append inf (node_err inf AssignmentHasDifferentTypes))).
Proof. exact rule_assignment_different_types. Qed.
Print Assumptions C03_rule_assignment_different_types.

Theorem C03_rule_assignment_requires_integers : forall L G v e off inf t,
  var_type L G v t -> expr_type L G e t -> t <> DInt ->
  an_stmt (Some L) (Some G) (SAssign v (Some (e, off)) inf) =
  ROk (SAssign v (Some (e, off)) (info_append inf (node_err inf AssignmentRequiresIntegers))).
Proof. exact rule_assignment_requires_integers. Qed.
Print Assumptions C03_rule_assignment_requires_integers.

Theorem C03_rule_if_condition : forall L G c oc t ot inf tc,
  expr_type L G c tc -> tc <> DBool -> wt_stmt L G t ->
  an_stmt (Some L) (Some G) (SIf (Some (c, oc)) (Some (t, ot)) None inf) =
  ROk (SIf (Some (expr_append c (expr_err c IfConditionMustBeBoolean), oc)) (Some (t, ot)) None inf).
Proof. exact rule_if_condition. Qed.
Print Assumptions C03_rule_if_condition.

Theorem C03_rule_if_else_condition : forall L G c oc t ot e oe inf tc,
  expr_type L G c tc -> tc <> DBool -> wt_stmt L G t -> wt_stmt L G e ->
  an_stmt (Some L) (Some G) (SIf (Some (c, oc)) (Some (t, ot)) (Some (e, oe)) inf) =
  ROk (SIf (Some (expr_append c (expr_err c IfConditionMustBeBoolean), oc)) (Some (t, ot)) (Some (e, oe)) inf).
Proof. exact rule_if_else_condition. Qed.
Print Assumptions C03_rule_if_else_condition.

Theorem C03_rule_while_condition : forall L G c oc b ob inf tc,
  expr_type L G c tc -> tc <> DBool -> wt_stmt L G b ->
  an_stmt (Some L) (Some G) (SWhile (Some (c, oc)) (Some (b, ob)) inf) =
  ROk (SWhile (Some (expr_append c (expr_err c WhileConditionMustBeBoolean), oc)) (Some (b, ob)) inf).
Proof. exact rule_while_condition. Qed.
Print Assumptions C03_rule_while_condition.

Theorem C03_rule_undefined_procedure : forall L G name args inf,
  unbound L G (id_val name) ->
  an_stmt (Some L) (Some G) (SCall name args inf) =
  ROk (SCall name args (info_append inf (node_err inf (UndefinedProcedure (id_val name))))).
Proof. exact rule_undefined_procedure. Qed.
Print Assumptions C03_rule_undefined_procedure.

Theorem C03_rule_call_of_non_procedure : forall L G name args inf e,
  binds L G (id_val name) e -> (forall pe, e <> EntProc pe) ->
  an_stmt (Some L) (Some G) (SCall name args inf) =
  ROk (SCall name args (info_append inf (node_err inf (CallOfNoneProcedure (id_val name))))).
Proof. exact rule_call_of_non_procedure. Qed.
Print Assumptions C03_rule_call_of_non_procedure.

Theorem C03_rule_too_few_arguments : forall L G name args inf pe ppre rest,
  binds L G (id_val name) (EntProc pe) -> pe_params pe = ppre ++ rest -> rest <> [] ->
  Forall2 (arg_ok L G) args ppre ->
  an_stmt (Some L) (Some G) (SCall name args inf) =
  ROk (SCall name args (info_append inf (node_err inf (TooFewArguments (id_val name))))).
Proof. exact rule_too_few_arguments. Qed.
Print Assumptions C03_rule_too_few_arguments.

Theorem C03_rule_too_many_arguments : forall L G name pre extra inf pe,
  binds L G (id_val name) (EntProc pe) -> extra <> [] -> Forall2 (arg_ok L G) pre (pe_params pe) ->
  an_stmt (Some L) (Some G) (SCall name (pre ++ extra) inf) =
  ROk (SCall name (pre ++ extra) (info_append inf (node_err inf (TooManyArguments (id_val name))))).
Proof. exact rule_too_many_arguments. Qed.
Print Assumptions C03_rule_too_many_arguments.

Theorem C03_rule_argument_type_mismatch : forall L G name inf pe pre ppre a off p post ppost t t2,
  binds L G (id_val name) (EntProc pe) -> pe_params pe = ppre ++ p :: ppost ->
  Forall2 (arg_ok L G) pre ppre -> Forall2 (arg_ok L G) post ppost ->
  expr_type L G a t -> ve_ty p = Some t2 -> t <> t2 -> (ve_ref p = true -> exists v, a = EVar v) ->
  an_stmt (Some L) (Some G) (SCall name (pre ++ (a, off) :: post) inf) =
  ROk (SCall name (pre ++ (expr_append a (expr_err a (ArgumentsTypeMismatch (id_val name) (S (length pre)))), off) :: post) inf).
Proof. exact rule_argument_type_mismatch. Qed.
Print Assumptions C03_rule_argument_type_mismatch.

Theorem C03_rule_argument_must_be_a_variable : forall L G name inf pe pre ppre a off p post ppost t,
  binds L G (id_val name) (EntProc pe) -> pe_params pe = ppre ++ p :: ppost ->
  Forall2 (arg_ok L G) pre ppre -> Forall2 (arg_ok L G) post ppost ->
  expr_type L G a t -> ve_ty p = Some t -> ve_ref p = true -> (forall v, a <> EVar v) ->
  an_stmt (Some L) (Some G) (SCall name (pre ++ (a, off) :: post) inf) =
  ROk (SCall name (pre ++ (expr_append a (expr_err a (ArgumentMustBeAVariable (id_val name) (S (length pre)))), off) :: post) inf).
Proof. exact rule_argument_must_be_a_variable. Qed.
Print Assumptions C03_rule_argument_must_be_a_variable.

(* ---- per rule: declaration rules ---- *)

Theorem C03_rule_undefined_type : forall l L G,
  (forall x, lt_lookup l (Some G) x = lt_lookup (Some L) (Some G) x) -> forall c i,
  id_val i <> s_int -> unbound L G (id_val i) -> i_e (id_info i) <> 0 ->
  get_data_type_te l (Some G) c (TNamed i) =
  ROk (TNamed (ident_append i (name_err i (EBuild (UndefinedType (id_val i))))), None).
Proof. exact rule_undefined_type. Qed.
Print Assumptions C03_rule_undefined_type.

Theorem C03_rule_not_a_type : forall l L G,
  (forall x, lt_lookup l (Some G) x = lt_lookup (Some L) (Some G) x) -> forall c i e,
  id_val i <> s_int -> binds L G (id_val i) e -> (forall te, e <> EntType te) -> i_e (id_info i) <> 0 ->
  get_data_type_te l (Some G) c (TNamed i) =
  ROk (TNamed (ident_append i (name_err i (EBuild (NotAType (id_val i))))), None).
Proof. exact rule_not_a_type. Qed.
Print Assumptions C03_rule_not_a_type.

Theorem C03_rule_redeclaration_as_type : forall G off d name te o t old,
  int_ok G -> td_name d = Some name -> id_val name <> s_main -> lookup G (id_val name) = Some old ->
  td_ty d = Some (te, o) -> denotes [] G (id_val name) te t -> i_e (id_info name) <> 0 ->
  build_typedecl d G off =
  ROk ({| td_doc := td_doc d;
          td_name := Some (ident_append name (name_err name (EBuild (RedeclarationAsType (id_val name)))));
          td_ty := td_ty d; td_info := td_info d |}, G).
Proof. exact rule_redeclaration_as_type. Qed.
Print Assumptions C03_rule_redeclaration_as_type.

Theorem C03_rule_redeclaration_as_procedure : forall G off d name L1 ps L2 old,
  int_ok G -> pd_name d = Some name -> lookup G (id_val name) = Some old ->
  wf_params G (id_val name) [] (pd_params d) L1 ps -> wf_vars G (id_val name) L1 (pd_vars d) L2 ->
  i_e (id_info name) <> 0 ->
  build_procdecl d G off =
  ROk ({| pd_doc := pd_doc d;
          pd_name := Some (ident_append name (name_err name (EBuild (RedeclarationAsProcedure (id_val name)))));
          pd_params := pd_params d; pd_vars := pd_vars d; pd_stmts := pd_stmts d; pd_info := pd_info d |}, G).
Proof. exact rule_redeclaration_as_procedure. Qed.
Print Assumptions C03_rule_redeclaration_as_procedure.

Theorem C03_rule_redeclaration_as_parameter : forall G pname L doc is_ref name te o inf off t old,
  int_ok G -> denotes [] G (anon_creator pname name) te t -> (is_array t -> is_ref = true) ->
  lookup L (id_val name) = Some old -> i_e (id_info name) <> 0 ->
  build_parameter (PValid doc is_ref (Some name) (Some (te, o)) inf, off) pname G L =
  ROk ((PValid doc is_ref (Some (ident_append name (name_err name (EBuild (RedeclarationAsParameter (id_val name))))))
          (Some (te, o)) inf, off), L,
       Some {| ve_name := name; ve_ref := is_ref; ve_ty := Some t; ve_range := shift_range (info_range inf) off;
               ve_doc := doc_of doc |}).
Proof. exact rule_redeclaration_as_parameter. Qed.
Print Assumptions C03_rule_redeclaration_as_parameter.

Theorem C03_rule_redeclaration_as_variable : forall G pname L doc name te o inf off t old,
  int_ok G -> denotes L G (anon_creator pname name) te t ->
  lookup L (id_val name) = Some old -> i_e (id_info name) <> 0 ->
  build_variable (VValid doc (Some name) (Some (te, o)) inf, off) pname G L =
  ROk ((VValid doc (Some (ident_append name (name_err name (EBuild (RedeclarationAsVariable (id_val name))))))
          (Some (te, o)) inf, off), L).
Proof. exact rule_redeclaration_as_variable. Qed.
Print Assumptions C03_rule_redeclaration_as_variable.

Theorem C03_rule_must_be_a_reference_parameter : forall G pname L doc name te o inf off t,
  int_ok G -> denotes [] G (anon_creator pname name) te t -> is_array t ->
  lookup L (id_val name) = None -> i_e (id_info name) <> 0 ->
  build_parameter (PValid doc false (Some name) (Some (te, o)) inf, off) pname G L =
  ROk ((PValid doc false (Some (ident_append name (name_err name (EBuild (MustBeAReferenceParameter (id_val name))))))
          (Some (te, o)) inf, off),
       L ++ [(id_val name, LParam {| ve_name := name; ve_ref := false; ve_ty := Some t;
                                     ve_range := shift_range (info_range inf) off; ve_doc := doc_of doc |})],
       Some {| ve_name := name; ve_ref := false; ve_ty := Some t; ve_range := shift_range (info_range inf) off;
               ve_doc := doc_of doc |}).
Proof. exact rule_must_be_a_reference_parameter. Qed.
Print Assumptions C03_rule_must_be_a_reference_parameter.

Theorem C03_rule_main_is_missing : forall p ds' G',
  build_gdecls (pg_decls p) initialized 0 = ROk (ds', G') -> lookup G' s_main = None ->
  build_res p = ROk ({| pg_decls := ds'; pg_info := info_append (pg_info p) (mkerr_t (0, 0) (EBuild MainIsMissing)) |}, G').
Proof. exact rule_main_is_missing. Qed.
Print Assumptions C03_rule_main_is_missing.

Theorem C03_rule_main_is_not_a_procedure : forall G off d name,
  td_name d = Some name -> id_val name = s_main -> i_e (id_info name) <> 0 ->
  build_typedecl d G off =
  ROk ({| td_doc := td_doc d; td_name := Some (ident_append name (name_err name (EBuild MainIsNotAProcedure)));
          td_ty := td_ty d; td_info := td_info d |}, G).
Proof. exact rule_main_is_not_a_procedure. Qed.
Print Assumptions C03_rule_main_is_not_a_procedure.

(* the range is main's name (last token of the identifier), made absolute with the declaration's start *)
Theorem C03_rule_main_must_not_have_parameters : forall p ds' G' main,
  build_gdecls (pg_decls p) initialized 0 = ROk (ds', G') -> lookup G' s_main = Some (GProcE main) ->
  pe_params main <> [] -> i_e (id_info (pe_name main)) <> 0 ->
  build_res p =
  ROk ({| pg_decls := ds';
          pg_info := info_append (pg_info p)
                       (mkerr_t (i_e (id_info (pe_name main)) - 1 + fst (pe_range main),
                                 i_e (id_info (pe_name main)) + fst (pe_range main))
                                (EBuild MainMustNotHaveParameters)) |}, G').
Proof. exact rule_main_must_not_have_parameters. Qed.
Print Assumptions C03_rule_main_must_not_have_parameters.

(* ---- exactly one fault => exactly one diagnostic ----
   Spec/Typing.v `fault_stmt L G s x`: s is well-typed except for exactly one violated premise of one rule at one
   node (17 semantic message kinds + unary minus; the fault may sit at any depth: in an operand, an index, an
   argument, a condition, a nested statement); x is the diagnostic SPL prescribes: that rule's message with the
   range of the node the rule names, made relative to s's Reference.  Then the analysis attaches exactly x. *)

Theorem C03_single_fault_stmt : forall L G s x,
  fault_stmt L G s x -> clean_stmt s = true ->
  exists s', an_stmt (Some L) (Some G) s = ROk s' /\ stmt_errors s' = [x].
Proof. exact fault_stmt_sound. Qed.
Print Assumptions C03_single_fault_stmt.

(* whole trees: declarations well-formed, all bodies well-typed except one statement with exactly one fault:
   build attaches nothing, analyze exactly one error, and errors() publishes it shifted to absolute tokens *)
Theorem C03_single_fault_program : forall p G y,
  tree_clean p = true -> fault_program p G y ->
  build_res p = ROk (p, G) /\ exists p', analyze_res p G = ROk p' /\ tree_errors p' = [y].
Proof. exact fault_program_sound. Qed.
Print Assumptions C03_single_fault_program.

(* from texts on (the lexer's output is a hypothesis): exactly one diagnostic, with the byte range of y's tokens *)
Theorem C03_single_semantic_fault : forall p t G y,
  prog_ok p = true -> fault_program (expected p) G y ->
  forall toks, lex t = Some toks -> map tk toks = flatten p ++ [Eof] ->
  forall r, byte_range toks y = ROk r -> diagnostics t = Done [r].
Proof. exact single_semantic_fault. Qed.
Print Assumptions C03_single_semantic_fault.

(* ---- localisation and ranges ---- *)

(* errors() of the tree: exactly the attached errors, each shifted by the sum n of the offsets of the
   References on the path from the root to the node that carries it *)
Theorem C03_localisation : forall p y,
  In y (tree_errors p) <-> exists n x, att_program p n x /\ y = shift_e n x.
Proof. exact tree_errors_located. Qed.
Print Assumptions C03_localisation.

(* the byte range published for a non-empty token range: start of its first token .. end of its last *)
Theorem C03_published_range : forall toks x first last,
  e_s x < e_e x -> nth_error toks (e_s x) = Some first -> nth_error toks (e_e x - 1) = Some last ->
  byte_range toks x = ROk (ts first, te last, e_m x).
Proof. exact byte_range_nonempty. Qed.
Print Assumptions C03_published_range.

(* errors() does not fail when every collected range is within the token vector (that this holds for the
   trees `parse` returns is the parser's obligation: C02) *)
Theorem C03_ranges_inside : forall d,
  Forall (range_inside (length (d_toks d))) (tree_errors (d_ast d)) -> exists r, doc_errors d = Done r.
Proof. exact doc_errors_ok. Qed.
Print Assumptions C03_ranges_inside.

(* ---- the full statement ----
   The statement of the property for a given notion of "single-fault variant": `single_fault p m (i, j)` = the abstract
   program p is valid SPL except for one added violation of the rule whose message is m, and the offending construct
   is the tokens i .. j-1 of `flatten p`.  (1) no diagnostic for valid programs; (2) exactly the one prescribed
   diagnostic, with the byte range of the culprit's tokens. *)
Definition C03_statement_for (single_fault : aprog -> emsg -> nat * nat -> Prop) : Prop :=
  (forall p t G, prog_ok p = true -> layout_of p t -> well_typed (expected p) G -> diagnostics t = Done []) /\
  (forall p t toks m i j first last,
     prog_ok p = true -> lex t = Some toks -> map tk toks = flatten p ++ [Eof] -> single_fault p m (i, j) ->
     nth_error toks i = Some first -> nth_error toks (j - 1) = Some last ->
     diagnostics t = Done [(ts first, te last, m)]).

(* PROVED for the semantic faults: the single-fault variants whose fault lies in a procedure body (17 message kinds
   + unary minus, at any depth), `fault_program` being their definition; the culprit is the token range of the
   prescribed diagnostic (the node the violated rule names) *)
Definition semantic_fault (p : aprog) (m : emsg) (r : nat * nat) : Prop :=
  exists G y, fault_program (expected p) G y /\ m = e_m y /\ r = (e_s y, e_e y) /\ e_s y < e_e y.

Theorem C03_statement_semantic : C03_statement_for semantic_fault.
Proof.
  split; [exact no_false_positive|].
  intros p t toks m i j first last Hok Hlex Hk [G [y [Hf [-> [[= -> ->] Hlt]]]]] Hfirst Hlast.
  eapply single_semantic_fault; try eassumption. apply byte_range_nonempty; assumption.
Qed.
Print Assumptions C03_statement_semantic.

(* The full statement of the property is C03_statement_for of the union of the semantic faults and the rest.  For the
   10 declaration rules the single-fault variants are `declaration_fault` (end of this file), and C03_full_statement
   declaration_fault is PROVED there (C03_full_statement_declaration).  The missing-token SYNTAX faults do not fit this
   shape (their tokens are not `flatten` of an abstract program, their culprit is an EMPTY range): they are defined and the
   statement is proved for them at the very end of this file (C03_syntax_statement_holds). *)
Definition C03_full_statement (declaration_or_syntax_fault : aprog -> emsg -> nat * nat -> Prop) : Prop :=
  C03_statement_for (fun p m r => semantic_fault p m r \/ declaration_or_syntax_fault p m r).

(* what remains open is exactly the second disjunct *)
Theorem C03_full_statement_reduces : forall dsf,
  C03_statement_for dsf -> C03_full_statement dsf.
Proof.
  intros dsf [_ H2]. destruct C03_statement_semantic as [H1 H2s]. split; [exact H1|].
  intros p t toks m i j first last Hok Hlex Hk [Hs | Hd]; [eapply H2s | eapply H2]; eassumption.
Qed.
Print Assumptions C03_full_statement_reduces.

(* ---- non-vacuity ---- *)
Open Scope N_scope.
Definition c0 : cs := [].
Definition c1 : cs := [[32; 110; 111; 116; 101]].              (* // note *)
Definition nm (s : text) := AName c0 s.
Definition e_f f := CAdd (AMul (MFac f)).
Definition lit n := FLit c0 (LDec n).
(* type v = array [3] of int;
   proc p(ref a: v, n: int) { var i: int; i := a[n] + 1; if (i < 2) p(a, i); }
   proc main() { var x: v; var j: int; // note
     j := 0; while (j # 3) { x[j] := -j; j := j + 1; } p(x, j * 2); } *)
Definition s_v := [118]. Definition s_p := [112]. Definition s_a := [97]. Definition s_n := [110].
Definition s_i := [105]. Definition s_x := [120]. Definition s_j := [106].
Definition ex_p : aprog :=
  {| a_decls :=
       [ DType c0 c0 s_v c0 (TArr c0 c0 c0 (LDec 3) c0 c0 (TName c0 s_int)) c0;
         DProc c0 c0 s_p c0 (Some (PRef c0 c0 s_a c0 (TName c0 s_v), [(c0, PVal c0 s_n c0 (TName c0 s_int))])) c0 c0
           [ {| v_c1 := c0; v_c2 := c0; v_x := s_i; v_c3 := c0; v_t := TName c0 s_int; v_c4 := c0 |} ]
           (SCons (SAsg (nm s_i) c0
                     (CAdd (ABin (AMul (MFac (FVar (AIndex (nm s_a) c0 (e_f (FVar (nm s_n))) c0)))) c0 APlus (MFac (lit 1)))) c0)
           (SCons (SIfT c0 c0 (CBin (AMul (MFac (FVar (nm s_i)))) c0 CLt (AMul (MFac (lit 2)))) c0
                     (SCal c0 s_p c0 (Some (e_f (FVar (nm s_a)), [(c0, e_f (FVar (nm s_i)))])) c0 c0))
            SNil)) c0;
         DProc c0 c0 s_main c0 None c0 c0
           [ {| v_c1 := c0; v_c2 := c0; v_x := s_x; v_c3 := c0; v_t := TName c0 s_v; v_c4 := c0 |};
             {| v_c1 := c0; v_c2 := c0; v_x := s_j; v_c3 := c0; v_t := TName c0 s_int; v_c4 := c0 |} ]
           (SCons (SAsg (AName c1 s_j) c0 (e_f (lit 0)) c0)
           (SCons (SWhl c0 c0 (CBin (AMul (MFac (FVar (nm s_j)))) c0 CNe (AMul (MFac (lit 3)))) c0
                     (SBlk c0 (SCons (SAsg (AIndex (nm s_x) c0 (e_f (FVar (nm s_j))) c0) c0 (e_f (FNeg c0 (FVar (nm s_j)))) c0)
                              (SCons (SAsg (nm s_j) c0 (CAdd (ABin (AMul (MFac (FVar (nm s_j)))) c0 APlus (MFac (lit 1)))) c0) SNil)) c0))
           (SCons (SCal c0 s_p c0 (Some (e_f (FVar (nm s_x)), [(c0, CAdd (AMul (MBin (MFac (FVar (nm s_j))) c0 MTimes (lit 2))))])) c0 c0)
            SNil))) c0 ];
     a_ceof := c0 |}.

Definition ex_tree : program := Eval vm_compute in expected ex_p.
Definition ex_table : gtable :=
  Eval vm_compute in match build_res ex_tree with ROk (_, g) => g | RFail _ => [] end.

Ltac solve_binds := apply lt_lookup_binds; vm_compute; reflexivity.
Ltac ops := first [reflexivity | left; reflexivity | right; ops].
Ltac ty :=
  lazymatch goal with
  | |- var_type _ _ (NamedVar _) _ =>
      eapply VT_name; [solve_binds | first [left; reflexivity | right; reflexivity] | reflexivity]
  | |- var_type _ _ (ArrAccess _ _ _) _ => eapply VT_index; [ty | ty]
  | |- expr_type _ _ (EInt _) _ => apply ET_lit
  | |- expr_type _ _ (EVar _) _ => apply ET_var; ty
  | |- expr_type _ _ (EBin _ _ _ _) _ => first [apply ET_arith; [ops | ty | ty] | apply ET_compare; [ops | ty | ty]]
  | |- expr_type _ _ (EUn _ _ _) _ => apply ET_neg; ty
  | |- expr_type _ _ (EBrack _ _) _ => apply ET_paren; ty
  end.
Ltac args :=
  lazymatch goal with
  | |- Forall2 _ [] _ => apply Forall2_nil
  | |- Forall2 _ (_ :: _) _ =>
      apply Forall2_cons; [eapply Arg_ok; [ty | reflexivity | first [discriminate | intros _; eexists; reflexivity]] | args]
  end.
Ltac st :=
  lazymatch goal with
  | |- wt_stmt _ _ (SEmpty _) => apply WT_empty
  | |- wt_stmt _ _ (SAssign _ _ _) => apply WT_assign; ty
  | |- wt_stmt _ _ (SCall _ _ _) => eapply WT_call; [solve_binds | cbn [pe_params]; args]
  | |- wt_stmt _ _ (SIf _ _ None _) => apply WT_if; [ty | st]
  | |- wt_stmt _ _ (SIf _ _ (Some _) _) => apply WT_if_else; [ty | st | st]
  | |- wt_stmt _ _ (SWhile _ _ _) => apply WT_while; [ty | st]
  | |- wt_stmt _ _ (SBlock _ _) => apply WT_block; st
  | |- wt_stmts _ _ [] => apply WT_nil
  | |- wt_stmts _ _ (_ :: _) => apply WT_cons; [st | st]
  end.
Ltac den :=
  lazymatch goal with
  | |- denotes _ _ _ (TNamed _) _ => eapply Den_name; [solve_binds | reflexivity]
  | |- denotes _ _ _ (TArray _ _ _) _ => eapply Den_array; den
  end.
Ltac no_array := intros [? [? [? ?]]]; discriminate.
Ltac pars :=
  lazymatch goal with
  | |- wf_params _ _ _ [] _ _ => apply WFP_nil
  | |- wf_params _ _ _ (_ :: _) _ _ =>
      eapply WFP_cons; [den | first [intros _; reflexivity | no_array] | vm_compute; reflexivity | pars]
  end.
Ltac vars :=
  lazymatch goal with
  | |- wf_vars _ _ _ [] _ => apply WFV_nil
  | |- wf_vars _ _ _ (_ :: _) _ => eapply WFV_cons; [den | vm_compute; reflexivity | vars]
  end.
Ltac decls :=
  lazymatch goal with
  | |- wf_gdecls _ [] _ => apply WFG_nil
  | |- wf_gdecls _ ((GType _, _) :: _) _ =>
      eapply WFG_cons;
      [eapply WF_type; [reflexivity | vm_compute; discriminate | vm_compute; reflexivity | reflexivity | den] | decls]
  | |- wf_gdecls _ ((GProc _, _) :: _) _ =>
      eapply WFG_cons; [eapply WF_proc; [reflexivity | vm_compute; reflexivity | cbn [pd_params]; pars | cbn [pd_vars]; vars] | decls]
  end.

(* the hypotheses of the no-false-positive theorems are satisfiable by a program with array types, reference
   parameters, recursion, nested control flow, and a comment ... *)
Example C03_ex_wf : wf_program ex_tree ex_table.
Proof.
  unfold wf_program. eexists. split; [unfold ex_tree; cbn [pg_decls]; decls|].
  split; [vm_compute; reflexivity|]. eexists. split; vm_compute; reflexivity.
Qed.

Example C03_ex_wt : wt_bodies ex_table ex_tree.
Proof.
  unfold wt_bodies, ex_tree. cbn [pg_decls].
  repeat (apply Forall_cons; [split; [unfold has_entry; cbn [fst pd_name]; try exact I; vm_compute; discriminate|]|]);
    [| | |apply Forall_nil].
  - exact I.
  - unfold wt_body. cbn [fst snd]. intros pe [name [Hn [Hl _]]]. injection Hn as <-. vm_compute in Hl. injection Hl as <-.
    cbn [pe_local pd_stmts]. st.
  - unfold wt_body. cbn [fst snd]. intros pe [name [Hn [Hl _]]]. injection Hn as <-. vm_compute in Hl. injection Hl as <-.
    cbn [pe_local pd_stmts]. st.
Qed.

(* ... and the conclusions are what the model computes (evaluated, independently of the theorems) *)
Example C03_ex_pipeline :
  tree_clean ex_tree = true /\ build_res ex_tree = ROk (ex_tree, ex_table) /\ analyze_res ex_tree ex_table = ROk ex_tree
  /\ tree_errors ex_tree = [].
Proof. vm_compute. repeat split; reflexivity. Qed.
Example C03_ex_instance : build_res ex_tree = ROk (ex_tree, ex_table) /\ analyze_res ex_tree ex_table = ROk ex_tree /\ tree_errors ex_tree = [].
Proof. apply C03_no_false_positive_tree; [vm_compute; reflexivity | split; [exact C03_ex_wf | exact C03_ex_wt]]. Qed.
Example C03_ex_complete : wt_bodies ex_table ex_tree.
Proof.
  apply C03_analyze_complete; [apply (C03_tables_resolved _ _ C03_ex_wf) | vm_compute; reflexivity | vm_compute; reflexivity].
Qed.

(* a real text through the whole model: no diagnostic for a valid program; for single faults exactly one, with
   the byte range of the culprit *)
From Coq Require Import String.
Definition diag_of (s : String.string) := diagnostics (str s).
Example C03_ex_text_valid :
  diag_of "type v = array [3] of int; proc p(ref a: v) { a[0] := 1; } proc main() { var x: v; p(x); }" = Done [].
Proof. vm_compute. reflexivity. Qed.
(* argument 1 of `q(x)` (the `x` at bytes 89..90) has an anonymous array type, the parameter the type v *)
Example C03_ex_text_fault_argument :
  diag_of "type v = array [3] of int; proc q(ref a: v) { } proc main() { var x: array [3] of int; q(x); }"%string
  = Done [(89, 90, ESem (ArgumentsTypeMismatch [113] 1%nat))].
Proof. vm_compute. reflexivity. Qed.
Example C03_ex_text_fault_index :
  diag_of "proc main() { var i: int; // c
i[0] := 1; }"%string = Done [(26, 35, ESem IndexingNonArray)].
Proof. vm_compute. reflexivity. Qed.
Example C03_ex_text_fault_main :
  diag_of "type t = int; proc main(a: t) { }"%string = Done [(19, 23, EBuild MainMustNotHaveParameters)].
Proof. vm_compute. reflexivity. Qed.

(* the rule theorems are not vacuous either: an instance each of a semantic and a declaration rule *)
Example C03_ex_rule_instance :
  an_stmt (Some []) (Some initialized) (SCall (x_ident 0 [] [113]) [] (mkinfo 0 4)) =
  ROk (SCall (x_ident 0 [] [113]) [] (info_append (mkinfo 0 4) (node_err (mkinfo 0 4) (UndefinedProcedure [113])))).
Proof. apply C03_rule_undefined_procedure. split; reflexivity. Qed.

(* exactly one fault: `j := x;` in main of the example program (x is an array) *)
Definition ex_local : ltable :=
  Eval vm_compute in match lookup ex_table s_main with Some (GProcE pe) => pe_local pe | _ => [] end.
Definition ex_bad : stmt := Eval vm_compute in x_stmt 0 (SAsg (nm s_j) c0 (e_f (FVar (nm s_x))) c0).
Example C03_ex_fault : fault_stmt ex_local ex_table ex_bad (node_err (mkinfo 0 4) AssignmentHasDifferentTypes).
Proof. unfold ex_bad. eapply FS_assign_types; [ty | ty | discriminate]. Qed.
Example C03_ex_fault_instance :
  exists s', an_stmt (Some ex_local) (Some ex_table) ex_bad = ROk s' /\
             stmt_errors s' = [{| e_s := 0%nat; e_e := 4%nat; e_m := ESem AssignmentHasDifferentTypes |}].
Proof. apply C03_single_fault_stmt; [exact C03_ex_fault | vm_compute; reflexivity]. Qed.
(* a fault at depth: `x[j + (1 < 2)] := 0;` - the operator rule inside an index inside the left-hand side *)
Definition ex_deep : stmt :=
  Eval vm_compute in
    x_stmt 0 (SAsg (AIndex (nm s_x) c0 (CAdd (ABin (AMul (MFac (FVar (nm s_j)))) c0 APlus
                                               (MFac (FPar c0 (CBin (AMul (MFac (lit 1))) c0 CLt (AMul (MFac (lit 2)))) c0)))) c0)
                   c0 (e_f (lit 0)) c0).
Example C03_ex_fault_deep :
  fault_stmt ex_local ex_table ex_deep (err_shift 2 (node_err (mkinfo 0 7) OperatorDifferentTypes)).
Proof.
  unfold ex_deep. eapply FS_assign_lhs; [|right; reflexivity|ty].
  eapply (FV_in_index _ _ _ _ _ _ _ (Some DInt)); [ty | | right; reflexivity].
  eapply (FE_different _ _ OAdd); [ty | ty | left; split; [reflexivity | discriminate]].
Qed.
Example C03_ex_fault_deep_instance :
  exists s', an_stmt (Some ex_local) (Some ex_table) ex_deep = ROk s' /\
             stmt_errors s' = [{| e_s := 2%nat; e_e := 9%nat; e_m := ESem OperatorDifferentTypes |}].
Proof. apply (C03_single_fault_stmt _ _ _ _ C03_ex_fault_deep). vm_compute. reflexivity. Qed.

(* localisation on a concrete tree: an error attached to the index expression of an assignment inside a
   procedure is published shifted by declaration offset + statement offset + index offset *)
Example C03_ex_localisation :
  let e := {| e_s := 0%nat; e_e := 1%nat; e_m := ESem IndexingWithNonInteger |} in
  let idx := EInt {| il_val := Some 1; il_info := info_append (mkinfo 0 1) e |} in
  let s := SAssign (ArrAccess (NamedVar (x_ident 0 [] s_x)) (Some (idx, 2%nat)) (mkinfo 0 4)) (Some (EInt (x_lit 0 [] (LDec 1)), 5%nat)) (mkinfo 0 7) in
  let p := {| pg_decls := [(GProc {| pd_doc := []; pd_name := Some (x_ident 1 [] s_main); pd_params := []; pd_vars := [];
                                     pd_stmts := [(s, 5%nat)]; pd_info := mkinfo 0 13 |}, 10%nat)];
              pg_info := mkinfo 0 23 |} in
  tree_errors p = [shift_e (10 + (5 + (2 + 0))) e].
Proof. vm_compute. reflexivity. Qed.

(* "Every range ever published lies inside the document", for EVERY text (Proofs/RangeProofs.v): the
   hypothesis of C03_ranges_inside is discharged for the trees AnalyzedSource::new produces. *)
From Spl Require Proofs.RangeProofs.
Theorem C03_every_published_range_inside : forall t,
  exists d l, new_doc_res t = ODone d /\ doc_errors_res d = ROk l /\
              Forall (fun y => (fst (fst y) <= snd (fst y) <= blen t)%N) l.
Proof. exact RangeProofs.analysis_total. Qed.
Print Assumptions C03_every_published_range_inside.

(* ------------------------------------------------------------------------------------------ *)
(* FROM TEXT.  C03_no_false_positive takes "the text lexes to the program's tokens" (layout_of) as a
   hypothesis.  With C06 conformance it is discharged for every rendering of a valid abstract program
   (Proofs/RenderProofs.v, Proofs/PipelineText.v; the definitions are explained in Props/C04.v): every layout
   - any whitespace gaps satisfying gaps_ok, comments in any token gap - of a valid program whose mandated
   tree is well-typed gets NO diagnostic from the whole pipeline lex; parse; build; analyze; errors. *)
From Spl Require Import Proofs.RenderProofs Proofs.PipelineText.

Theorem C03_text_no_false_positive : forall p gaps t G,
  prog_ok p = true -> aprog_valid p = true -> gaps_ok (flatten p) gaps -> render_kinds (flatten p) gaps = Some t ->
  well_typed (expected p) G -> diagnostics t = Done [].
Proof. exact text_no_false_positive. Qed.
Print Assumptions C03_text_no_false_positive.

(* ... in particular layout_of is inhabited by every such rendering *)
Theorem C03_text_layout_of : forall p gaps t,
  aprog_valid p = true -> gaps_ok (flatten p) gaps -> render_kinds (flatten p) gaps = Some t -> layout_of p t.
Proof. exact text_layout_of. Qed.
Print Assumptions C03_text_layout_of.

(* non-vacuity: the example program ex_p (array types, reference parameters, recursion, a comment) in its
   densest layout and in an odd one (tabs, CR LF, double blanks) *)
Definition ex_odd_gaps : list text :=
  map (fun i => nth (Nat.modulo i 3) [[9]; [13; 10; 32]; [32; 32]] []) (seq 0 (S (List.length (flatten ex_p)))).
Example C03_ex_text_hyps :
  prog_ok ex_p = true /\ aprog_valid ex_p = true /\
  gaps_ok (flatten ex_p) (min_gaps None (flatten ex_p)) /\ gaps_ok (flatten ex_p) ex_odd_gaps /\
  render_kinds (flatten ex_p) (min_gaps None (flatten ex_p))
  = Some (str "type v=array[3]of int;proc p(ref a:v,n:int){var i:int;i:=a[n]+1;if(i<2)p(a,i);}proc main(){var x:v;var j:int;// note
j:=0;while(j#3){x[j]:=-j;j:=j+1;}p(x,j*2);}").
Proof. vm_compute. repeat split; reflexivity. Qed.
Example C03_ex_text_diagnostics :
  option_map diagnostics (render_kinds (flatten ex_p) (min_gaps None (flatten ex_p))) = Some (Done []) /\
  option_map diagnostics (render_kinds (flatten ex_p) ex_odd_gaps) = Some (Done []).
Proof. vm_compute. split; reflexivity. Qed.
Example C03_ex_text_instance : forall t, render_kinds (flatten ex_p) ex_odd_gaps = Some t -> diagnostics t = Done [].
Proof.
  intros t Hr. apply (C03_text_no_false_positive ex_p ex_odd_gaps t ex_table); try (vm_compute; reflexivity); [exact Hr|].
  change (expected ex_p) with ex_tree. exact (conj C03_ex_wf C03_ex_wt).
Qed.

(* ------------------------------------------------------------------------------------------ *)
(* DECLARATION FAULTS.  Proofs/DeclFaults.v (read its header) defines `decl_fault_program p G ys`: the tree p is valid SPL
   except for ONE violation of ONE of the ten declaration rules, G is the table SPL prescribes for it, the rest of the
   program is well-formed and well-typed with respect to G, ys are the prescribed diagnostics (absolute token ranges):
     DF_decl          one faulty global declaration (`fault_gdecl`): UndefinedType / NotAType at the leaf of the type of a
                      type declaration, parameter or local variable; RedeclarationAsType / AsProcedure / AsParameter /
                      AsVariable; MustBeAReferenceParameter; MainIsNotAProcedure next to a procedure main: ONE diagnostic
     DF_main_type     `type main = ...` and no procedure main: MainIsMissing AND MainIsNotAProcedure (DESIGN 10.3)
     DF_main_missing  MainIsMissing alone: the EMPTY token range (0,0) = the empty byte range at the end of the first token
     DF_main_params   MainMustNotHaveParameters, on main's name. *)
From Spl Require Import Proofs.DeclFaults Proofs.DeclFaultsSound Proofs.DeclFaultsText.

(* trees: build returns the prescribed table, analyze changes nothing, errors() collects exactly ys *)
Theorem C03_single_declaration_fault : forall p G ys,
  tree_clean p = true -> decl_fault_program p G ys ->
  exists p1, build_res p = ROk (p1, G) /\ analyze_res p1 G = ROk p1 /\ tree_errors p1 = ys.
Proof. exact decl_fault_sound. Qed.
Print Assumptions C03_single_declaration_fault.

(* from texts on (the lexer's output is a hypothesis): exactly the prescribed diagnostics, as byte ranges *)
Theorem C03_single_declaration_fault_text : forall p t G ys,
  prog_ok p = true -> decl_fault_program (expected p) G ys ->
  forall toks, lex t = Some toks -> map tk toks = flatten p ++ [Eof] ->
  forall rs, byte_ranges toks ys = ROk rs -> diagnostics t = Done rs.
Proof. exact single_declaration_fault. Qed.
Print Assumptions C03_single_declaration_fault_text.

(* the byte range published for an EMPTY token range (i, i): empty, at the end of token i *)
Theorem C03_published_empty_range : forall toks x tok,
  e_s x = e_e x -> nth_error toks (e_e x) = Some tok -> byte_range toks x = ROk (te tok, te tok, e_m x).
Proof. exact byte_range_empty. Qed.
Print Assumptions C03_published_empty_range.

(* MainIsMissing: one diagnostic with the empty range at the end of the text's first token (there always is one) *)
Theorem C03_main_is_missing_text : forall p t G,
  prog_ok p = true -> decl_fault_program (expected p) G [mkerr_t (0%nat, 0%nat) (EBuild MainIsMissing)] ->
  forall toks tok0, lex t = Some toks -> map tk toks = flatten p ++ [Eof] -> nth_error toks 0 = Some tok0 ->
  diagnostics t = Done [(te tok0, te tok0, EBuild MainIsMissing)].
Proof. exact main_is_missing_text. Qed.
Print Assumptions C03_main_is_missing_text.

Theorem C03_first_token_exists : forall (p : aprog) (toks : list token),
  map tk toks = flatten p ++ [Eof] -> exists tok0, nth_error toks 0 = Some tok0.
Proof. exact first_token_exists. Qed.
Print Assumptions C03_first_token_exists.

(* `type main = ...` without a procedure main: both diagnostics, the second on the name *)
Theorem C03_main_is_not_a_procedure_text : forall p t G y,
  prog_ok p = true -> decl_fault_program (expected p) G [mkerr_t (0%nat, 0%nat) (EBuild MainIsMissing); y] ->
  (e_s y < e_e y)%nat ->
  forall toks tok0 first last, lex t = Some toks -> map tk toks = flatten p ++ [Eof] -> nth_error toks 0 = Some tok0 ->
  nth_error toks (e_s y) = Some first -> nth_error toks (e_e y - 1)%nat = Some last ->
  diagnostics t = Done [(te tok0, te tok0, EBuild MainIsMissing); (ts first, te last, e_m y)].
Proof. exact main_is_not_a_procedure_text. Qed.
Print Assumptions C03_main_is_not_a_procedure_text.

(* the single-fault variants with exactly one diagnostic on a non-empty culprit: the 8 rules of DF_decl (including
   MainIsNotAProcedure next to a procedure main) and MainMustNotHaveParameters *)
Definition declaration_fault (p : aprog) (m : emsg) (r : nat * nat) : Prop :=
  exists G y, decl_fault_program (expected p) G [y] /\ m = e_m y /\ r = (e_s y, e_e y) /\ (e_s y < e_e y)%nat.

Theorem C03_statement_declaration : C03_statement_for declaration_fault.
Proof.
  split; [exact no_false_positive|].
  intros p t toks m i j first last Hok Hlex Hk [G [y [Hf [-> [[= -> ->] Hlt]]]]] Hfirst Hlast.
  eapply single_declaration_fault_one; eassumption.
Qed.
Print Assumptions C03_statement_declaration.

(* the property for valid programs, single semantic faults and single declaration faults together *)
Theorem C03_full_statement_declaration : C03_full_statement declaration_fault.
Proof. exact (C03_full_statement_reduces _ C03_statement_declaration). Qed.
Print Assumptions C03_full_statement_declaration.

(* ---- non-vacuity: one program per declaration rule; the premises of its constructor hold, and the model computes
   the prescribed diagnostics on a text of the program (evaluated, independently of the theorems) ---- *)
Ltac dfx_bodies :=
  unfold wt_bodies; cbn [pg_decls];
  repeat (apply Forall_cons;
          [split; [unfold has_entry; cbn [fst pd_name]; try exact I; vm_compute; discriminate
                  | unfold wt_body; cbn [fst snd]; try exact I;
                    let pe := fresh "pe" in let name := fresh "name" in
                    let Hn := fresh "Hn" in let Hl := fresh "Hl" in let Hr := fresh "Hr" in
                    intros pe [name [Hn [Hl Hr]]]; injection Hn as <-; vm_compute in Hl;
                    first [discriminate Hl
                          | injection Hl as <-;
                            first [vm_compute in Hr; discriminate Hr | cbn [pe_local pd_stmts]; st]]] |]);
  apply Forall_nil.
Ltac dfx_mainok := eexists; split; vm_compute; reflexivity.
Ltac dfx_vc := vm_compute; reflexivity.
Ltac dfx_rest := [> decls | vm_compute; reflexivity | dfx_mainok | dfx_bodies | vm_compute; reflexivity].
Ltac dfx_vd := vm_compute; discriminate.
Definition dfx_main : adecl := DProc c0 c0 s_main c0 None c0 c0 [] SNil c0.
Definition dfx_p : adecl := DProc c0 c0 s_p c0 None c0 c0 [] SNil c0.
Definition s_dfoo := [102; 111; 111]. Definition s_dy := [121].
Definition dfx_var (x : text) (t : atype) : avardecl := {| v_c1 := c0; v_c2 := c0; v_x := x; v_c3 := c0; v_t := t; v_c4 := c0 |}.
Definition dfx_int := TName c0 s_int.

(* UndefinedType, below an array type of a type declaration: v is entered as `array [3] of <unknown>` *)
Definition dfx1 : aprog := {| a_decls := [DType c0 c0 s_v c0 (TArr c0 c0 c0 (LDec 3) c0 c0 (TName c0 s_dfoo)) c0; dfx_main]; a_ceof := c0 |}.
Definition dfx1_tree : program := Eval vm_compute in expected dfx1.
Definition dfx1_table : gtable := Eval vm_compute in built_table dfx1_tree.
Example C03_ex_undefined_type : decl_fault_program dfx1_tree dfx1_table [berr 8 9 (UndefinedType s_dfoo)].
Proof.
  eapply (DF_decl_eq _ _ []); [reflexivity | decls | ..].
  { eapply FG_type_texpr; [reflexivity | dfx_vd | dfx_vc | reflexivity |]. apply FT_array. apply FT_undefined; [split; dfx_vc | dfx_vd]. }
  all: dfx_rest.
Qed.
Example C03_ex_undefined_type_text :
  diag_of "type v = array [3] of foo; proc main() { }" = Done [(22, 25, EBuild (UndefinedType s_dfoo))].
Proof. dfx_vc. Qed.
(* ... and through the theorem: the text is a layout of dfx1, so the diagnostics are the byte ranges of the prescribed ones *)
Example C03_ex_undefined_type_instance :
  diag_of "type v = array [3] of foo; proc main() { }" = Done [(22, 25, EBuild (UndefinedType s_dfoo))].
Proof.
  pose (toks := match lex (str "type v = array [3] of foo; proc main() { }") with Some l => l | None => [] end).
  apply (C03_single_declaration_fault_text dfx1 _ dfx1_table _ eq_refl C03_ex_undefined_type toks); dfx_vc.
Qed.

(* NotAType, in a local variable: the type expression sees the variable x *)
Definition dfx2 : aprog :=
  {| a_decls := [DProc c0 c0 s_main c0 None c0 c0 [dfx_var s_x dfx_int; dfx_var s_dy (TName c0 s_x)] SNil c0]; a_ceof := c0 |}.
Definition dfx2_tree : program := Eval vm_compute in expected dfx2.
Definition dfx2_table : gtable := Eval vm_compute in built_table dfx2_tree.
Example C03_ex_not_a_type : decl_fault_program dfx2_tree dfx2_table [berr 13 14 (NotAType s_x)].
Proof.
  eapply (DF_decl_eq _ _ []); [reflexivity | decls | ..].
  { eapply FG_proc_var; [reflexivity | dfx_vc | cbn [pd_params]; pars |]. cbn [pd_vars]. eapply (FVS _ _ _ [_]); [vars | | vars].
    eapply FVD_type; [|dfx_vc]. eapply FT_not_a_type; [solve_binds | intros te; discriminate | dfx_vd]. }
  all: dfx_rest.
Qed.
Example C03_ex_not_a_type_text : diag_of "proc main() { var x: int; var y: x; }" = Done [(33, 34, EBuild (NotAType s_x))].
Proof. dfx_vc. Qed.

(* RedeclarationAsType *)
Definition dfx3 : aprog := {| a_decls := [DType c0 c0 s_v c0 dfx_int c0; DType c0 c0 s_v c0 dfx_int c0; dfx_main]; a_ceof := c0 |}.
Definition dfx3_tree : program := Eval vm_compute in expected dfx3.
Definition dfx3_table : gtable := Eval vm_compute in built_table dfx3_tree.
Example C03_ex_redeclaration_as_type : decl_fault_program dfx3_tree dfx3_table [berr 6 7 (RedeclarationAsType s_v)].
Proof.
  eapply (DF_decl_eq _ _ [_]); [reflexivity | decls | ..].
  { eapply FG_type_redeclared; [reflexivity | dfx_vd | dfx_vc | reflexivity | den | dfx_vd]. }
  all: dfx_rest.
Qed.
Example C03_ex_redeclaration_as_type_text :
  diag_of "type v = int; type v = int; proc main() { }" = Done [(19, 20, EBuild (RedeclarationAsType s_v))].
Proof. dfx_vc. Qed.

(* MustBeAReferenceParameter *)
Definition dfx4 : aprog :=
  {| a_decls := [DProc c0 c0 s_p c0 (Some (PVal c0 s_a c0 (TArr c0 c0 c0 (LDec 2) c0 c0 dfx_int), [])) c0 c0 [] SNil c0; dfx_main];
     a_ceof := c0 |}.
Definition dfx4_tree : program := Eval vm_compute in expected dfx4.
Definition dfx4_table : gtable := Eval vm_compute in built_table dfx4_tree.
Example C03_ex_must_be_a_reference_parameter : decl_fault_program dfx4_tree dfx4_table [berr 3 4 (MustBeAReferenceParameter s_a)].
Proof.
  eapply (DF_decl_eq _ _ []); [reflexivity | decls | ..].
  { eapply FG_proc_param; [reflexivity | dfx_vc | | cbn [pd_vars]; vars]. cbn [pd_params]. eapply (FPS _ _ _ []); [pars | | pars].
    eapply FP_must_be_reference; [den | eexists; eexists; eexists; reflexivity | dfx_vc | dfx_vd]. }
  all: dfx_rest.
Qed.
Example C03_ex_must_be_a_reference_parameter_text :
  diag_of "proc p(a: array [2] of int) { } proc main() { }" = Done [(7, 8, EBuild (MustBeAReferenceParameter s_a))].
Proof. dfx_vc. Qed.

(* RedeclarationAsProcedure *)
Definition dfx5 : aprog := {| a_decls := [dfx_p; dfx_p; dfx_main]; a_ceof := c0 |}.
Definition dfx5_tree : program := Eval vm_compute in expected dfx5.
Definition dfx5_table : gtable := Eval vm_compute in built_table dfx5_tree.
Example C03_ex_redeclaration_as_procedure : decl_fault_program dfx5_tree dfx5_table [berr 7 8 (RedeclarationAsProcedure s_p)].
Proof.
  eapply (DF_decl_eq _ _ [_]); [reflexivity | decls | ..].
  { eapply FG_proc_redeclared; [reflexivity | dfx_vc | cbn [pd_params]; pars | cbn [pd_vars]; vars | dfx_vd]. }
  all: dfx_rest.
Qed.
Example C03_ex_redeclaration_as_procedure_text :
  diag_of "proc p() { } proc p() { } proc main() { }" = Done [(18, 19, EBuild (RedeclarationAsProcedure s_p))].
Proof. dfx_vc. Qed.

(* RedeclarationAsParameter: the redeclared parameter still counts, the call passes two arguments *)
Definition dfx6 : aprog :=
  {| a_decls := [DProc c0 c0 s_p c0 (Some (PVal c0 s_a c0 dfx_int, [(c0, PVal c0 s_a c0 dfx_int)])) c0 c0 [] SNil c0;
                 DProc c0 c0 s_main c0 None c0 c0 []
                   (SCons (SCal c0 s_p c0 (Some (e_f (lit 1), [(c0, e_f (lit 2))])) c0 c0) SNil) c0];
     a_ceof := c0 |}.
Definition dfx6_tree : program := Eval vm_compute in expected dfx6.
Definition dfx6_table : gtable := Eval vm_compute in built_table dfx6_tree.
Example C03_ex_redeclaration_as_parameter : decl_fault_program dfx6_tree dfx6_table [berr 7 8 (RedeclarationAsParameter s_a)].
Proof.
  eapply (DF_decl_eq _ _ []); [reflexivity | decls | ..].
  { eapply FG_proc_param; [reflexivity | dfx_vc | | cbn [pd_vars]; vars]. cbn [pd_params]. eapply (FPS _ _ _ [_]); [pars | | pars].
    eapply FP_redeclared; [den | no_array | dfx_vc | dfx_vd]. }
  all: dfx_rest.
Qed.
Example C03_ex_redeclaration_as_parameter_text :
  diag_of "proc p(a: int, a: int) { } proc main() { p(1, 2); }" = Done [(15, 16, EBuild (RedeclarationAsParameter s_a))].
Proof. dfx_vc. Qed.

(* RedeclarationAsVariable *)
Definition dfx7 : aprog :=
  {| a_decls := [DProc c0 c0 s_main c0 None c0 c0 [dfx_var s_x dfx_int; dfx_var s_x dfx_int] SNil c0]; a_ceof := c0 |}.
Definition dfx7_tree : program := Eval vm_compute in expected dfx7.
Definition dfx7_table : gtable := Eval vm_compute in built_table dfx7_tree.
Example C03_ex_redeclaration_as_variable : decl_fault_program dfx7_tree dfx7_table [berr 11 12 (RedeclarationAsVariable s_x)].
Proof.
  eapply (DF_decl_eq _ _ []); [reflexivity | decls | ..].
  { eapply FG_proc_var; [reflexivity | dfx_vc | cbn [pd_params]; pars |]. cbn [pd_vars]. eapply (FVS _ _ _ [_]); [vars | | vars].
    eapply FVD_redeclared; [den | dfx_vc | dfx_vd]. }
  all: dfx_rest.
Qed.
Example C03_ex_redeclaration_as_variable_text :
  diag_of "proc main() { var x: int; var x: int; }" = Done [(30, 31, EBuild (RedeclarationAsVariable s_x))].
Proof. dfx_vc. Qed.

(* MainIsMissing: the empty range at the end of the first token `proc` *)
Definition dfx8 : aprog := {| a_decls := [dfx_p]; a_ceof := c0 |}.
Definition dfx8_tree : program := Eval vm_compute in expected dfx8.
Definition dfx8_table : gtable := Eval vm_compute in built_table dfx8_tree.
Example C03_ex_main_is_missing : decl_fault_program dfx8_tree dfx8_table [mkerr_t (0%nat, 0%nat) (EBuild MainIsMissing)].
Proof. eapply DF_main_missing; [unfold dfx8_tree; cbn [pg_decls]; decls | dfx_vc | dfx_vc | dfx_bodies]. Qed.
Example C03_ex_main_is_missing_text : diag_of "proc p() { }" = Done [(4, 4, EBuild MainIsMissing)].
Proof. dfx_vc. Qed.

(* MainIsNotAProcedure: without a procedure main (MainIsMissing as well), and next to one (one diagnostic) *)
Definition dfx9 : aprog := {| a_decls := [DType c0 c0 s_main c0 dfx_int c0]; a_ceof := c0 |}.
Definition dfx9_tree : program := Eval vm_compute in expected dfx9.
Definition dfx9_table : gtable := Eval vm_compute in built_table dfx9_tree.
Example C03_ex_main_is_not_a_procedure :
  decl_fault_program dfx9_tree dfx9_table [mkerr_t (0%nat, 0%nat) (EBuild MainIsMissing); berr 1 2 MainIsNotAProcedure].
Proof.
  eapply (DF_main_type _ _ [] _ 0%nat [] _ _ (x_ident 1 [] s_main));
    [reflexivity | decls | reflexivity | reflexivity | reflexivity | den | dfx_vd | decls | dfx_vc | dfx_vc | dfx_bodies].
Qed.
Example C03_ex_main_is_not_a_procedure_text :
  diag_of "type main = int;" = Done [(4, 4, EBuild MainIsMissing); (5, 9, EBuild MainIsNotAProcedure)].
Proof. dfx_vc. Qed.
Definition dfx9b : aprog := {| a_decls := [dfx_main; DType c0 c0 s_main c0 dfx_int c0]; a_ceof := c0 |}.
Definition dfx9b_tree : program := Eval vm_compute in expected dfx9b.
Definition dfx9b_table : gtable := Eval vm_compute in built_table dfx9b_tree.
Example C03_ex_main_is_not_a_procedure_only : decl_fault_program dfx9b_tree dfx9b_table [berr 7 8 MainIsNotAProcedure].
Proof.
  eapply (DF_decl_eq _ _ [_]); [reflexivity | decls | ..].
  { eapply FG_type_main; [reflexivity | reflexivity | reflexivity | den | dfx_vd]. }
  all: dfx_rest.
Qed.
Example C03_ex_main_is_not_a_procedure_only_text :
  diag_of "proc main() { } type main = int;" = Done [(21, 25, EBuild MainIsNotAProcedure)].
Proof. dfx_vc. Qed.

(* MainMustNotHaveParameters (the text is C03_ex_text_fault_main above, with t for v) *)
Definition dfx10 : aprog :=
  {| a_decls := [DType c0 c0 s_v c0 dfx_int c0; DProc c0 c0 s_main c0 (Some (PVal c0 s_a c0 (TName c0 s_v), [])) c0 c0 [] SNil c0];
     a_ceof := c0 |}.
Definition dfx10_tree : program := Eval vm_compute in expected dfx10.
Definition dfx10_table : gtable := Eval vm_compute in built_table dfx10_tree.
Example C03_ex_main_must_not_have_parameters : decl_fault_program dfx10_tree dfx10_table [berr 6 7 MainMustNotHaveParameters].
Proof.
  eapply (DF_main_params _ _ [_] _ 5%nat [] _ (x_ident 1 [] s_main));
    [reflexivity | reflexivity | reflexivity | discriminate | reflexivity | dfx_vd
     | unfold dfx10_tree; cbn [pg_decls]; decls | dfx_vc | dfx_bodies].
Qed.

(* the examples are instances of the statement: `declaration_fault` holds of them *)
Example C03_ex_declaration_fault : declaration_fault dfx6 (EBuild (RedeclarationAsParameter s_a)) (7%nat, 8%nat).
Proof. exists dfx6_table, (berr 7 8 (RedeclarationAsParameter s_a)). repeat split; [exact C03_ex_redeclaration_as_parameter | exact (le_n 8)]. Qed.

(* ------------------------------------------------------------------------------------------ *)
(* SYNTAX FAULTS: ONE required closing token is missing.  Proofs/SynFaults.v (read its header) describes a program with
   exactly one such fault as a zipper `fprog` through the abstract syntax, one constructor per kind of fault:
     FAsg, FCal          the `;` of an assignment / a call statement            (at any depth of one procedure body)
     FCalP               the `)` of the argument list of a call statement
     FIfP, FIfPE, FWhlP  the `)` of the condition of an if (without / with else) / a while
     FProcV              the `;` of a local variable declaration
     FProcC              the `}` of a procedure body (in front of `proc`, `type` or the end)
     FType               the `;` of a type declaration
     FAsgL, FAsgR, FIfC, FIfEC, FWhlC, FCalA   a fault INSIDE an expression - the left- or right-hand side of an assignment, the
                         condition of an if / while, an argument of a call - which is (Proofs/SynFaultsE.v, a zipper through the
                         expression syntax) FaParC: the `)` of a parenthesised expression, or VIdxC: the `]` of an index, at any depth
   `orig_prog p` is the valid program it stems from (the token put back), `gk_prog p` the kind of the missing token and
   `msg_of_kind` its message (`;` -> MissingTrailingSemic, `)` / `}` -> MissingClosing), `fflatten p` the token kinds,
   `gap_prog p` the index of the token in front of the gap, `fexpected p` the tree SPL's parser is to build (the mandated
   tree of the original: the node whose closing token is missing carries the error, everything behind the gap is one token
   further left), `fprog_ok p` = the original is a valid program and the token behind the gap (`gap_open`) is not the missing
   token itself (otherwise nothing is missing: it takes its place) and - behind `;`, `)`, `]` - does not continue an
   expression in front of the gap (otherwise the damaged text is also a damaged form of ANOTHER program: `x := (1 + 2 * 3;`
   from `(1 + 2) * 3` and from `(1 + 2 * 3)`; the model reports behind `3`).  These are the faults tools/splfaults.py
   generates (`missing_token`) plus the `}` and the faults inside expressions.
   NOT covered: the `]` of an array size, the `)` of a parameter list, opening tokens, `:` / `=` / `of`; evaluated, the model
   answers them with one diagnostic at the end of the token in front of the gap as well. *)
From Spl Require Import Proofs.SynFaultsE Proofs.SynFaultsEP Proofs.SynFaults Proofs.SynFaultsArgs Proofs.SynFaultsStmt Proofs.SynFaultsProg Proofs.SynFaultsText Proofs.SynFaultsSem.

(* the faulty token vector is the original one without the closing token behind token number gap_prog *)
Theorem C03_missing_token_tokens : forall p,
  ins (S (gap_prog p)) (gk_prog p) (fflatten p) = flatten (orig_prog p) /\ (gap_prog p < List.length (fflatten p))%nat.
Proof. intros p. split; [apply fflatten_ins | apply gap_prog_lt]. Qed.
Print Assumptions C03_missing_token_tokens.

(* tree level: on ANY token vector with these kinds the parser returns the mandated tree with exactly ONE error: the message
   of the missing token, with the EMPTY token range at the token in front of the gap *)
Theorem C03_missing_token : forall p toks,
  fprog_ok p = true -> map tk toks = fflatten p ++ [Eof] ->
  parse toks = Done (fexpected p) /\
  tree_errors (fexpected p) = [ {| e_s := gap_prog p; e_e := gap_prog p; e_m := EParse (msg_of_kind (gk_prog p)) |} ].
Proof. intros p toks Hok Hk. split; [exact (fparse p toks Hok Hk) | exact (fexpected_errors p)]. Qed.
Print Assumptions C03_missing_token.

(* no semantic follow-up: if the original program is well-typed, the tree of the faulty one is well-typed (with respect to
   the table build makes for it), so build and analyze return it unchanged *)
Theorem C03_missing_token_analysis : forall p G,
  fprog_ok p = true -> well_typed (expected (orig_prog p)) G ->
  exists G', well_typed (fexpected p) G' /\ build_res (fexpected p) = ROk (fexpected p, G') /\
             analyze_res (fexpected p) G' = ROk (fexpected p).
Proof.
  intros p G Hok Hwt. destruct (orig_well_typed p G Hok Hwt) as [G' Hwt']. exists G'. split; [exact Hwt'|].
  split; [apply build_sound, (proj1 Hwt') | apply analyze_sound, (proj2 Hwt')].
Qed.
Print Assumptions C03_missing_token_analysis.

(* from texts on: every text that lexes to the tokens of a well-typed program minus one of these closing tokens gets exactly
   ONE diagnostic, the message of the missing token, with the empty byte range at the END of the token in front of the gap *)
Theorem C03_missing_token_text : forall p t G toks tok,
  fprog_ok p = true -> well_typed (expected (orig_prog p)) G ->
  lex t = Some toks -> map tk toks = fflatten p ++ [Eof] -> nth_error toks (gap_prog p) = Some tok ->
  diagnostics t = Done [(te tok, te tok, EParse (msg_of_kind (gk_prog p)))].
Proof. exact missing_token_text_orig. Qed.
Print Assumptions C03_missing_token_text.

(* ... the token in front of the gap exists *)
Theorem C03_missing_token_exists : forall p toks,
  map tk toks = fflatten p ++ [Eof] -> exists tok, nth_error toks (gap_prog p) = Some tok.
Proof. exact gap_token. Qed.
Print Assumptions C03_missing_token_exists.

(* per family.  A and D: a missing `;` (statement, variable declaration, type declaration) *)
Theorem C03_missing_semicolon : forall p toks,
  fprog_ok p = true -> gk_prog p = Semic -> map tk toks = fflatten p ++ [Eof] ->
  parse toks = Done (fexpected p) /\
  tree_errors (fexpected p) = [ {| e_s := gap_prog p; e_e := gap_prog p; e_m := EParse MissingTrailingSemic |} ].
Proof. intros p toks Hok Hg Hk. pose proof (C03_missing_token p toks Hok Hk) as H. rewrite Hg in H. exact H. Qed.
Print Assumptions C03_missing_semicolon.

Theorem C03_missing_semicolon_text : forall p t G toks tok,
  fprog_ok p = true -> gk_prog p = Semic -> well_typed (expected (orig_prog p)) G ->
  lex t = Some toks -> map tk toks = fflatten p ++ [Eof] -> nth_error toks (gap_prog p) = Some tok ->
  diagnostics t = Done [(te tok, te tok, EParse MissingTrailingSemic)].
Proof.
  intros p t G toks tok Hok Hg Hwt Hlex Hk Htok. pose proof (C03_missing_token_text p t G toks tok Hok Hwt Hlex Hk Htok) as H.
  rewrite Hg in H. exact H.
Qed.
Print Assumptions C03_missing_semicolon_text.

(* B: a missing `)` (call statement, condition of if / while, parenthesised expression) *)
Theorem C03_missing_paren : forall p toks,
  fprog_ok p = true -> gk_prog p = RParen -> map tk toks = fflatten p ++ [Eof] ->
  parse toks = Done (fexpected p) /\
  tree_errors (fexpected p) = [ {| e_s := gap_prog p; e_e := gap_prog p; e_m := EParse (MissingClosing 41) |} ].
Proof. intros p toks Hok Hg Hk. pose proof (C03_missing_token p toks Hok Hk) as H. rewrite Hg in H. exact H. Qed.
Print Assumptions C03_missing_paren.

Theorem C03_missing_paren_text : forall p t G toks tok,
  fprog_ok p = true -> gk_prog p = RParen -> well_typed (expected (orig_prog p)) G ->
  lex t = Some toks -> map tk toks = fflatten p ++ [Eof] -> nth_error toks (gap_prog p) = Some tok ->
  diagnostics t = Done [(te tok, te tok, EParse (MissingClosing 41))].
Proof.
  intros p t G toks tok Hok Hg Hwt Hlex Hk Htok. pose proof (C03_missing_token_text p t G toks tok Hok Hwt Hlex Hk Htok) as H.
  rewrite Hg in H. exact H.
Qed.
Print Assumptions C03_missing_paren_text.

(* ... a missing `]` (index) *)
Theorem C03_missing_bracket : forall p toks,
  fprog_ok p = true -> gk_prog p = RBracket -> map tk toks = fflatten p ++ [Eof] ->
  parse toks = Done (fexpected p) /\
  tree_errors (fexpected p) = [ {| e_s := gap_prog p; e_e := gap_prog p; e_m := EParse (MissingClosing 93) |} ].
Proof. intros p toks Hok Hg Hk. pose proof (C03_missing_token p toks Hok Hk) as H. rewrite Hg in H. exact H. Qed.
Print Assumptions C03_missing_bracket.

Theorem C03_missing_bracket_text : forall p t G toks tok,
  fprog_ok p = true -> gk_prog p = RBracket -> well_typed (expected (orig_prog p)) G ->
  lex t = Some toks -> map tk toks = fflatten p ++ [Eof] -> nth_error toks (gap_prog p) = Some tok ->
  diagnostics t = Done [(te tok, te tok, EParse (MissingClosing 93))].
Proof.
  intros p t G toks tok Hok Hg Hwt Hlex Hk Htok. pose proof (C03_missing_token_text p t G toks tok Hok Hwt Hlex Hk Htok) as H.
  rewrite Hg in H. exact H.
Qed.
Print Assumptions C03_missing_bracket_text.

(* C: the missing `}` of a procedure body *)
Theorem C03_missing_brace : forall p toks,
  fprog_ok p = true -> gk_prog p = RCurly -> map tk toks = fflatten p ++ [Eof] ->
  parse toks = Done (fexpected p) /\
  tree_errors (fexpected p) = [ {| e_s := gap_prog p; e_e := gap_prog p; e_m := EParse (MissingClosing 125) |} ].
Proof. intros p toks Hok Hg Hk. pose proof (C03_missing_token p toks Hok Hk) as H. rewrite Hg in H. exact H. Qed.
Print Assumptions C03_missing_brace.

Theorem C03_missing_brace_text : forall p t G toks tok,
  fprog_ok p = true -> gk_prog p = RCurly -> well_typed (expected (orig_prog p)) G ->
  lex t = Some toks -> map tk toks = fflatten p ++ [Eof] -> nth_error toks (gap_prog p) = Some tok ->
  diagnostics t = Done [(te tok, te tok, EParse (MissingClosing 125))].
Proof.
  intros p t G toks tok Hok Hg Hwt Hlex Hk Htok. pose proof (C03_missing_token_text p t G toks tok Hok Hwt Hlex Hk Htok) as H.
  rewrite Hg in H. exact H.
Qed.
Print Assumptions C03_missing_brace_text.

(* the statement of the property for the syntax faults: (2) of C03_statement_for, with the culprit being the EMPTY range at
   the end of the token in front of the gap *)
Definition C03_syntax_statement : Prop :=
  forall p t G toks tok,
    fprog_ok p = true -> well_typed (expected (orig_prog p)) G ->
    lex t = Some toks -> map tk toks = fflatten p ++ [Eof] -> nth_error toks (gap_prog p) = Some tok ->
    diagnostics t = Done [(te tok, te tok, EParse (msg_of_kind (gk_prog p)))].
Theorem C03_syntax_statement_holds : C03_syntax_statement.
Proof. exact missing_token_text_orig. Qed.
Print Assumptions C03_syntax_statement_holds.

(* ---- non-vacuity: the example program ex_p with one closing token taken out, one example per kind of fault ---- *)
Definition sfx_type : adecl := Eval vm_compute in nth 0 (a_decls ex_p) (DType c0 c0 s_v c0 (TName c0 s_int) c0).
Definition sfx_p : adecl := Eval vm_compute in nth 1 (a_decls ex_p) sfx_type.
Definition sfx_main : adecl := Eval vm_compute in nth 2 (a_decls ex_p) sfx_type.
Definition sfx_vx := {| v_c1 := c0; v_c2 := c0; v_x := s_x; v_c3 := c0; v_t := TName c0 s_v; v_c4 := c0 |}.
Definition sfx_vj := {| v_c1 := c0; v_c2 := c0; v_x := s_j; v_c3 := c0; v_t := TName c0 s_int; v_c4 := c0 |}.
Definition sfx_j0 := SAsg (AName c1 s_j) c0 (e_f (lit 0)) c0.
Definition sfx_cond := CBin (AMul (MFac (FVar (nm s_j)))) c0 CNe (AMul (MFac (lit 3))).
Definition sfx_asg1 := SAsg (AIndex (nm s_x) c0 (e_f (FVar (nm s_j))) c0) c0 (e_f (FNeg c0 (FVar (nm s_j)))) c0.
Definition sfx_inc := CAdd (ABin (AMul (MFac (FVar (nm s_j)))) c0 APlus (MFac (lit 1))).
Definition sfx_asg2 := SAsg (nm s_j) c0 sfx_inc c0.
Definition sfx_blk := SBlk c0 (SCons sfx_asg1 (SCons sfx_asg2 SNil)) c0.
Definition sfx_args : aargs := Some (e_f (FVar (nm s_x)), [(c0, CAdd (AMul (MBin (MFac (FVar (nm s_j))) c0 MTimes (lit 2))))]).
Definition sfx_call := SCal c0 s_p c0 sfx_args c0 c0.
Definition sfx_in_main (b : fstmts) : fprog :=
  {| fp_pre := [sfx_type; sfx_p]; fp_decl := FProc c0 c0 s_main c0 None c0 c0 [sfx_vx; sfx_vj] b c0; fp_post := []; fp_ceof := c0 |}.
Definition sfx_in_blk (blk : fstmts) : fprog :=
  sfx_in_main (FLater sfx_j0 (FHere (FWhl c0 c0 sfx_cond c0 (FBlk c0 blk c0)) (SCons sfx_call SNil))).
(* FAsg: `j := j + 1` in front of `}`; `x[j] := -j` in front of a statement *)
Definition sfx1 : fprog := sfx_in_blk (FLater sfx_asg1 (FHere (FAsg (nm s_j) c0 sfx_inc) SNil)).
Definition sfx2 : fprog := sfx_in_blk (FHere (FAsg (AIndex (nm s_x) c0 (e_f (FVar (nm s_j))) c0) c0 (e_f (FNeg c0 (FVar (nm s_j))))) (SCons sfx_asg2 SNil)).
(* FCal / FCalP: the `;` / the `)` of `p(x, j * 2);` *)
Definition sfx3 : fprog := sfx_in_main (FLater sfx_j0 (FLater (SWhl c0 c0 sfx_cond c0 sfx_blk) (FHere (FCal c0 s_p c0 sfx_args c0) SNil))).
Definition sfx4 : fprog := sfx_in_main (FLater sfx_j0 (FLater (SWhl c0 c0 sfx_cond c0 sfx_blk) (FHere (FCalP c0 s_p c0 sfx_args c0) SNil))).
(* FWhlP: the `)` of `while (j # 3)` *)
Definition sfx5 : fprog := sfx_in_main (FLater sfx_j0 (FHere (FWhlP c0 c0 sfx_cond sfx_blk) (SCons sfx_call SNil))).
(* FIfP: the `)` of `if (i < 2)` in p *)
Definition sfx_i1 := SAsg (nm s_i) c0 (CAdd (ABin (AMul (MFac (FVar (AIndex (nm s_a) c0 (e_f (FVar (nm s_n))) c0)))) c0 APlus (MFac (lit 1)))) c0.
Definition sfx6 : fprog :=
  {| fp_pre := [sfx_type];
     fp_decl := FProc c0 c0 s_p c0 (Some (PRef c0 c0 s_a c0 (TName c0 s_v), [(c0, PVal c0 s_n c0 (TName c0 s_int))])) c0 c0
                  [ {| v_c1 := c0; v_c2 := c0; v_x := s_i; v_c3 := c0; v_t := TName c0 s_int; v_c4 := c0 |} ]
                  (FLater sfx_i1 (FHere (FIfP c0 c0 (CBin (AMul (MFac (FVar (nm s_i)))) c0 CLt (AMul (MFac (lit 2))))
                                           (SCal c0 s_p c0 (Some (e_f (FVar (nm s_a)), [(c0, e_f (FVar (nm s_i)))])) c0 c0)) SNil)) c0;
     fp_post := [sfx_main]; fp_ceof := c0 |}.
(* FProcV: the `;` of `var j: int` in main; FProcC: the `}` of p; FType: the `;` of the type declaration *)
Definition sfx_body := SCons sfx_j0 (SCons (SWhl c0 c0 sfx_cond c0 sfx_blk) (SCons sfx_call SNil)).
Definition sfx7 : fprog :=
  {| fp_pre := [sfx_type; sfx_p]; fp_decl := FProcV c0 c0 s_main c0 None c0 c0 [sfx_vx] c0 c0 s_j c0 (TName c0 s_int) [] sfx_body c0;
     fp_post := []; fp_ceof := c0 |}.
Definition sfx8 : fprog :=
  {| fp_pre := [sfx_type];
     fp_decl := FProcC c0 c0 s_p c0 (Some (PRef c0 c0 s_a c0 (TName c0 s_v), [(c0, PVal c0 s_n c0 (TName c0 s_int))])) c0 c0
                  [ {| v_c1 := c0; v_c2 := c0; v_x := s_i; v_c3 := c0; v_t := TName c0 s_int; v_c4 := c0 |} ]
                  (SCons sfx_i1 (SCons (SIfT c0 c0 (CBin (AMul (MFac (FVar (nm s_i)))) c0 CLt (AMul (MFac (lit 2)))) c0
                                           (SCal c0 s_p c0 (Some (e_f (FVar (nm s_a)), [(c0, e_f (FVar (nm s_i)))])) c0 c0)) SNil));
     fp_post := [sfx_main]; fp_ceof := c0 |}.
Definition sfx9 : fprog :=
  {| fp_pre := []; fp_decl := FType c0 c0 s_v c0 (TArr c0 c0 c0 (LDec 3) c0 c0 (TName c0 s_int)); fp_post := [sfx_p; sfx_main]; fp_ceof := c0 |}.
Definition sfx_all := [sfx1; sfx2; sfx3; sfx4; sfx5; sfx6; sfx7; sfx8; sfx9].
Example C03_ex_missing_token_hyps :
  Forall (fun p => orig_prog p = ex_p /\ fprog_ok p = true) sfx_all /\
  map gk_prog sfx_all = [Semic; Semic; Semic; RParen; RParen; RParen; Semic; RCurly; Semic] /\
  map gap_prog sfx_all = [90; 84; 100; 99; 75; 41; 64; 49; 8]%nat.
Proof. vm_compute. repeat constructor. Qed.
Lemma C03_ex_missing_token_wt : forall p, In p sfx_all -> well_typed (expected (orig_prog p)) ex_table.
Proof.
  intros p Hin. replace (orig_prog p) with ex_p.
  - change (expected ex_p) with ex_tree. exact (conj C03_ex_wf C03_ex_wt).
  - cbn [sfx_all In] in Hin. repeat (destruct Hin as [<-|Hin]; [vm_compute; reflexivity|]). destruct Hin.
Qed.
(* through the theorem: the text is a layout of the faulty token vector, the diagnostic is at the end of token gap_prog *)
Ltac sfx_instance p n txt :=
  let toks := fresh "toks" in let tok := fresh "tok" in
  pose (toks := match lex (str txt) with Some l => l | None => [] end);
  pose (tok := match nth_error toks n with Some x => x | None => {| tk := Eof; ts := 0; te := 0; terr := [] |} end);
  match goal with |- _ = Done [(?a, _, ?m)] => change a with (te tok); change m with (EParse (msg_of_kind (gk_prog p))) end;
  apply (C03_missing_token_text p _ ex_table toks tok);
  [vm_compute; reflexivity | apply C03_ex_missing_token_wt; cbn [sfx_all In]; tauto | vm_compute; reflexivity ..].

(* what the model computes (evaluated, independently of the theorems) ... *)
Example C03_ex_missing_token_texts :
  diag_of "type v=array[3]of int;proc p(ref a:v,n:int){var i:int;i:=a[n]+1;if(i<2)p(a,i);}proc main(){var x:v;var j:int;// note
j:=0;while(j#3){x[j]:=-j;j:=j+1}p(x,j*2);}" = Done [(148, 148, EParse MissingTrailingSemic)] /\
  diag_of "type v=array[3]of int;proc p(ref a:v,n:int){var i:int;i:=a[n]+1;if(i<2)p(a,i);}proc main(){var x:v;var j:int;// note
j:=0;while(j#3){x[j]:=-j j:=j+1;}p(x,j*2);}" = Done [(141, 141, EParse MissingTrailingSemic)] /\
  diag_of "type v=array[3]of int;proc p(ref a:v,n:int){var i:int;i:=a[n]+1;if(i<2)p(a,i);}proc main(){var x:v;var j:int;// note
j:=0;while(j#3){x[j]:=-j;j:=j+1;}p(x,j*2)}" = Done [(158, 158, EParse MissingTrailingSemic)] /\
  diag_of "type v=array[3]of int;proc p(ref a:v,n:int){var i:int;i:=a[n]+1;if(i<2)p(a,i);}proc main(){var x:v;var j:int;// note
j:=0;while(j#3){x[j]:=-j;j:=j+1;}p(x,j*2;}" = Done [(157, 157, EParse (MissingClosing 41))] /\
  diag_of "type v=array[3]of int;proc p(ref a:v,n:int){var i:int;i:=a[n]+1;if(i<2)p(a,i);}proc main(){var x:v;var j:int;// note
j:=0;while(j#3{x[j]:=-j;j:=j+1;}p(x,j*2);}" = Done [(131, 131, EParse (MissingClosing 41))] /\
  diag_of "type v=array[3]of int;proc p(ref a:v,n:int){var i:int;i:=a[n]+1;if(i<2 p(a,i);}proc main(){var x:v;var j:int;// note
j:=0;while(j#3){x[j]:=-j;j:=j+1;}p(x,j*2);}" = Done [(70, 70, EParse (MissingClosing 41))] /\
  diag_of "type v=array[3]of int;proc p(ref a:v,n:int){var i:int;i:=a[n]+1;if(i<2)p(a,i);}proc main(){var x:v;var j:int// note
j:=0;while(j#3){x[j]:=-j;j:=j+1;}p(x,j*2);}" = Done [(108, 108, EParse MissingTrailingSemic)] /\
  diag_of "type v=array[3]of int;proc p(ref a:v,n:int){var i:int;i:=a[n]+1;if(i<2)p(a,i);proc main(){var x:v;var j:int;// note
j:=0;while(j#3){x[j]:=-j;j:=j+1;}p(x,j*2);}" = Done [(78, 78, EParse (MissingClosing 125))] /\
  diag_of "type v=array[3]of int proc p(ref a:v,n:int){var i:int;i:=a[n]+1;if(i<2)p(a,i);}proc main(){var x:v;var j:int;// note
j:=0;while(j#3){x[j]:=-j;j:=j+1;}p(x,j*2);}" = Done [(21, 21, EParse MissingTrailingSemic)].
Proof. vm_compute. repeat split; reflexivity. Qed.
(* ... and through the theorem *)
Example C03_ex_missing_token_FAsg_brace :
  diag_of "type v=array[3]of int;proc p(ref a:v,n:int){var i:int;i:=a[n]+1;if(i<2)p(a,i);}proc main(){var x:v;var j:int;// note
j:=0;while(j#3){x[j]:=-j;j:=j+1}p(x,j*2);}" = Done [(148, 148, EParse MissingTrailingSemic)].
Proof. sfx_instance sfx1 90%nat "type v=array[3]of int;proc p(ref a:v,n:int){var i:int;i:=a[n]+1;if(i<2)p(a,i);}proc main(){var x:v;var j:int;// note
j:=0;while(j#3){x[j]:=-j;j:=j+1}p(x,j*2);}"%string. Qed.
Example C03_ex_missing_token_FAsg_stmt :
  diag_of "type v=array[3]of int;proc p(ref a:v,n:int){var i:int;i:=a[n]+1;if(i<2)p(a,i);}proc main(){var x:v;var j:int;// note
j:=0;while(j#3){x[j]:=-j j:=j+1;}p(x,j*2);}" = Done [(141, 141, EParse MissingTrailingSemic)].
Proof. sfx_instance sfx2 84%nat "type v=array[3]of int;proc p(ref a:v,n:int){var i:int;i:=a[n]+1;if(i<2)p(a,i);}proc main(){var x:v;var j:int;// note
j:=0;while(j#3){x[j]:=-j j:=j+1;}p(x,j*2);}"%string. Qed.
Example C03_ex_missing_token_FCal :
  diag_of "type v=array[3]of int;proc p(ref a:v,n:int){var i:int;i:=a[n]+1;if(i<2)p(a,i);}proc main(){var x:v;var j:int;// note
j:=0;while(j#3){x[j]:=-j;j:=j+1;}p(x,j*2)}" = Done [(158, 158, EParse MissingTrailingSemic)].
Proof. sfx_instance sfx3 100%nat "type v=array[3]of int;proc p(ref a:v,n:int){var i:int;i:=a[n]+1;if(i<2)p(a,i);}proc main(){var x:v;var j:int;// note
j:=0;while(j#3){x[j]:=-j;j:=j+1;}p(x,j*2)}"%string. Qed.
Example C03_ex_missing_token_FCalP :
  diag_of "type v=array[3]of int;proc p(ref a:v,n:int){var i:int;i:=a[n]+1;if(i<2)p(a,i);}proc main(){var x:v;var j:int;// note
j:=0;while(j#3){x[j]:=-j;j:=j+1;}p(x,j*2;}" = Done [(157, 157, EParse (MissingClosing 41))].
Proof. sfx_instance sfx4 99%nat "type v=array[3]of int;proc p(ref a:v,n:int){var i:int;i:=a[n]+1;if(i<2)p(a,i);}proc main(){var x:v;var j:int;// note
j:=0;while(j#3){x[j]:=-j;j:=j+1;}p(x,j*2;}"%string. Qed.
Example C03_ex_missing_token_FWhlP :
  diag_of "type v=array[3]of int;proc p(ref a:v,n:int){var i:int;i:=a[n]+1;if(i<2)p(a,i);}proc main(){var x:v;var j:int;// note
j:=0;while(j#3{x[j]:=-j;j:=j+1;}p(x,j*2);}" = Done [(131, 131, EParse (MissingClosing 41))].
Proof. sfx_instance sfx5 75%nat "type v=array[3]of int;proc p(ref a:v,n:int){var i:int;i:=a[n]+1;if(i<2)p(a,i);}proc main(){var x:v;var j:int;// note
j:=0;while(j#3{x[j]:=-j;j:=j+1;}p(x,j*2);}"%string. Qed.
Example C03_ex_missing_token_FIfP :
  diag_of "type v=array[3]of int;proc p(ref a:v,n:int){var i:int;i:=a[n]+1;if(i<2 p(a,i);}proc main(){var x:v;var j:int;// note
j:=0;while(j#3){x[j]:=-j;j:=j+1;}p(x,j*2);}" = Done [(70, 70, EParse (MissingClosing 41))].
Proof. sfx_instance sfx6 41%nat "type v=array[3]of int;proc p(ref a:v,n:int){var i:int;i:=a[n]+1;if(i<2 p(a,i);}proc main(){var x:v;var j:int;// note
j:=0;while(j#3){x[j]:=-j;j:=j+1;}p(x,j*2);}"%string. Qed.
Example C03_ex_missing_token_FProcV :
  diag_of "type v=array[3]of int;proc p(ref a:v,n:int){var i:int;i:=a[n]+1;if(i<2)p(a,i);}proc main(){var x:v;var j:int// note
j:=0;while(j#3){x[j]:=-j;j:=j+1;}p(x,j*2);}" = Done [(108, 108, EParse MissingTrailingSemic)].
Proof. sfx_instance sfx7 64%nat "type v=array[3]of int;proc p(ref a:v,n:int){var i:int;i:=a[n]+1;if(i<2)p(a,i);}proc main(){var x:v;var j:int// note
j:=0;while(j#3){x[j]:=-j;j:=j+1;}p(x,j*2);}"%string. Qed.
Example C03_ex_missing_token_FProcC :
  diag_of "type v=array[3]of int;proc p(ref a:v,n:int){var i:int;i:=a[n]+1;if(i<2)p(a,i);proc main(){var x:v;var j:int;// note
j:=0;while(j#3){x[j]:=-j;j:=j+1;}p(x,j*2);}" = Done [(78, 78, EParse (MissingClosing 125))].
Proof. sfx_instance sfx8 49%nat "type v=array[3]of int;proc p(ref a:v,n:int){var i:int;i:=a[n]+1;if(i<2)p(a,i);proc main(){var x:v;var j:int;// note
j:=0;while(j#3){x[j]:=-j;j:=j+1;}p(x,j*2);}"%string. Qed.
Example C03_ex_missing_token_FType :
  diag_of "type v=array[3]of int proc p(ref a:v,n:int){var i:int;i:=a[n]+1;if(i<2)p(a,i);}proc main(){var x:v;var j:int;// note
j:=0;while(j#3){x[j]:=-j;j:=j+1;}p(x,j*2);}" = Done [(21, 21, EParse MissingTrailingSemic)].
Proof. sfx_instance sfx9 8%nat "type v=array[3]of int proc p(ref a:v,n:int){var i:int;i:=a[n]+1;if(i<2)p(a,i);}proc main(){var x:v;var j:int;// note
j:=0;while(j#3){x[j]:=-j;j:=j+1;}p(x,j*2);}"%string. Qed.

(* ... inside expressions: the `)` of a parenthesis, the `]` of an index (leaves FaParC / VIdxC of Proofs/SynFaultsE.v), in the
   left- or right-hand side of an assignment or in the condition of an if / while.  The program:
     type v = array [3] of int;
     proc q(a: int, b: int, c: int) { }
     proc main() { var x: v; var j: int; j := 2 * (j + 1); x[j] := 0; q(x[j], (j), 0); while (x[(j)] < 3) j := j + 1; } *)
Definition sfq_j1 := CAdd (ABin (AMul (MFac (FVar (nm s_j)))) c0 APlus (MFac (lit 1))).
Definition sfq_s1 := SAsg (nm s_j) c0 (CAdd (AMul (MBin (MFac (lit 2)) c0 MTimes (FPar c0 sfq_j1 c0)))) c0.
Definition sfq_s2 := SAsg (AIndex (nm s_x) c0 (e_f (FVar (nm s_j))) c0) c0 (e_f (lit 0)) c0.
Definition sfq_s3 :=
  SWhl c0 c0 (CBin (AMul (MFac (FVar (AIndex (nm s_x) c0 (e_f (FPar c0 (e_f (FVar (nm s_j))) c0)) c0)))) c0 CLt (AMul (MFac (lit 3)))) c0
       (SAsg (nm s_j) c0 sfq_j1 c0).
Definition s_q := [113]. Definition s_b := [98]. Definition s_c := [99].
Definition sfq_xj := FVar (AIndex (nm s_x) c0 (e_f (FVar (nm s_j))) c0).
Definition sfq_s4 := SCal c0 s_q c0 (Some (e_f sfq_xj, [(c0, e_f (FPar c0 (e_f (FVar (nm s_j))) c0)); (c0, e_f (lit 0))])) c0 c0.
Definition sfq_q : adecl :=
  DProc c0 c0 s_q c0 (Some (PVal c0 s_a c0 (TName c0 s_int), [(c0, PVal c0 s_b c0 (TName c0 s_int)); (c0, PVal c0 s_c c0 (TName c0 s_int))]))
        c0 c0 [] SNil c0.
Definition ex_q : aprog :=
  {| a_decls := [sfx_type; sfq_q;
                 DProc c0 c0 s_main c0 None c0 c0 [sfx_vx; sfx_vj] (SCons sfq_s1 (SCons sfq_s2 (SCons sfq_s4 (SCons sfq_s3 SNil)))) c0];
     a_ceof := c0 |}.
Definition ex_q_tree : program := Eval vm_compute in expected ex_q.
Definition ex_q_table : gtable := Eval vm_compute in built_table ex_q_tree.
Example C03_ex_q_well_typed : well_typed (expected ex_q) ex_q_table.
Proof.
  change (expected ex_q) with ex_q_tree. split.
  - unfold wf_program. eexists. split; [unfold ex_q_tree; cbn [pg_decls]; decls|].
    split; [vm_compute; reflexivity|]. eexists. split; vm_compute; reflexivity.
  - unfold ex_q_tree. dfx_bodies.
Qed.
Definition sfq_in (b : fstmts) : fprog :=
  {| fp_pre := [sfx_type; sfq_q]; fp_decl := FProc c0 c0 s_main c0 None c0 c0 [sfx_vx; sfx_vj] b c0; fp_post := []; fp_ceof := c0 |}.
(* `j := 2 * (j + 1;`, `x[j := 0;`, `while (x[(j] < 3) ...`, `q(x[j, (j), 0);`, `q(x[j], (j, 0);` *)
Definition sfq1 : fprog := sfq_in (FHere (FAsgR (nm s_j) c0 (CmAdd (AdMul (MuR (MFac (lit 2)) c0 MTimes (FaParC c0 sfq_j1)))) c0) (SCons sfq_s2 (SCons sfq_s4 (SCons sfq_s3 SNil)))).
Definition sfq2 : fprog := sfq_in (FLater sfq_s1 (FHere (FAsgL (VIdxC (nm s_x) c0 (e_f (FVar (nm s_j)))) c0 (e_f (lit 0)) c0) (SCons sfq_s4 (SCons sfq_s3 SNil)))).
Definition sfq3 : fprog :=
  sfq_in (FLater sfq_s1 (FLater sfq_s2 (FLater sfq_s4 (FHere
    (FWhlC c0 c0 (CmL (AdMul (MuFac (FaVar (VIdx (nm s_x) c0 (CmAdd (AdMul (MuFac (FaParC c0 (e_f (FVar (nm s_j))))))) c0)))) c0 CLt (AMul (MFac (lit 3)))) c0
           (SAsg (nm s_j) c0 sfq_j1 c0)) SNil)))).
(* not a single-fault variant: behind the gap of `x[j + 1 := 0` (from `x[j] + 1`) stands `+`, which continues the index *)
Definition sfq4 : fprog :=
  sfq_in (FLater sfq_s1 (FLater sfq_s2 (FHere
    (FCalA c0 s_q c0 (FArgH (CmAdd (AdMul (MuFac (FaVar (VIdxC (nm s_x) c0 (e_f (FVar (nm s_j))))))))
                            [(c0, e_f (FPar c0 (e_f (FVar (nm s_j))) c0)); (c0, e_f (lit 0))]) c0 c0) (SCons sfq_s3 SNil)))).
Definition sfq5 : fprog :=
  sfq_in (FLater sfq_s1 (FLater sfq_s2 (FHere
    (FCalA c0 s_q c0 (FArgT (e_f sfq_xj) [] c0 (CmAdd (AdMul (MuFac (FaParC c0 (e_f (FVar (nm s_j))))))) [(c0, e_f (lit 0))]) c0 c0)
    (SCons sfq_s3 SNil)))).
Definition sfq_all := [sfq1; sfq2; sfq3; sfq4; sfq5].
Example C03_ex_missing_token_expr_hyps :
  Forall (fun p => orig_prog p = ex_q /\ fprog_ok p = true) sfq_all /\
  map gk_prog sfq_all = [RParen; RBracket; RParen; RBracket; RParen] /\ map gap_prog sfq_all = [49; 54; 78; 63; 67]%nat.
Proof. vm_compute. repeat constructor. Qed.
Lemma C03_ex_missing_token_expr_wt : forall p, In p sfq_all -> well_typed (expected (orig_prog p)) ex_q_table.
Proof.
  intros p Hin. replace (orig_prog p) with ex_q; [exact C03_ex_q_well_typed|].
  cbn [sfq_all In] in Hin. repeat (destruct Hin as [<-|Hin]; [vm_compute; reflexivity|]). destruct Hin.
Qed.
Ltac sfq_instance p n txt :=
  let toks := fresh "toks" in let tok := fresh "tok" in
  pose (toks := match lex (str txt) with Some l => l | None => [] end);
  pose (tok := match nth_error toks n with Some x => x | None => {| tk := Eof; ts := 0; te := 0; terr := [] |} end);
  match goal with |- _ = Done [(?a, _, ?m)] => change a with (te tok); change m with (EParse (msg_of_kind (gk_prog p))) end;
  apply (C03_missing_token_text p _ ex_q_table toks tok);
  [vm_compute; reflexivity | apply C03_ex_missing_token_expr_wt; cbn [sfq_all In]; tauto | vm_compute; reflexivity ..].
Example C03_ex_missing_token_paren_rhs :
  diag_of "type v=array[3]of int;proc q(a:int,b:int,c:int){}proc main(){var x:v;var j:int;j:=2*(j+1;x[j]:=0;q(x[j],(j),0);while(x[(j)]<3)j:=j+1;}" = Done [(88, 88, EParse (MissingClosing 41))].
Proof. sfq_instance sfq1 49%nat "type v=array[3]of int;proc q(a:int,b:int,c:int){}proc main(){var x:v;var j:int;j:=2*(j+1;x[j]:=0;q(x[j],(j),0);while(x[(j)]<3)j:=j+1;}"%string. Qed.
Example C03_ex_missing_token_index_lhs :
  diag_of "type v=array[3]of int;proc q(a:int,b:int,c:int){}proc main(){var x:v;var j:int;j:=2*(j+1);x[j:=0;q(x[j],(j),0);while(x[(j)]<3)j:=j+1;}" = Done [(93, 93, EParse (MissingClosing 93))].
Proof. sfq_instance sfq2 54%nat "type v=array[3]of int;proc q(a:int,b:int,c:int){}proc main(){var x:v;var j:int;j:=2*(j+1);x[j:=0;q(x[j],(j),0);while(x[(j)]<3)j:=j+1;}"%string. Qed.
Example C03_ex_missing_token_paren_in_index_in_condition :
  diag_of "type v=array[3]of int;proc q(a:int,b:int,c:int){}proc main(){var x:v;var j:int;j:=2*(j+1);x[j]:=0;q(x[j],(j),0);while(x[(j]<3)j:=j+1;}" = Done [(122, 122, EParse (MissingClosing 41))].
Proof. sfq_instance sfq3 78%nat "type v=array[3]of int;proc q(a:int,b:int,c:int){}proc main(){var x:v;var j:int;j:=2*(j+1);x[j]:=0;q(x[j],(j),0);while(x[(j]<3)j:=j+1;}"%string. Qed.
Example C03_ex_missing_token_index_in_first_argument :
  diag_of "type v=array[3]of int;proc q(a:int,b:int,c:int){}proc main(){var x:v;var j:int;j:=2*(j+1);x[j]:=0;q(x[j,(j),0);while(x[(j)]<3)j:=j+1;}" = Done [(103, 103, EParse (MissingClosing 93))].
Proof. sfq_instance sfq4 63%nat "type v=array[3]of int;proc q(a:int,b:int,c:int){}proc main(){var x:v;var j:int;j:=2*(j+1);x[j]:=0;q(x[j,(j),0);while(x[(j)]<3)j:=j+1;}"%string. Qed.
Example C03_ex_missing_token_paren_in_second_argument :
  diag_of "type v=array[3]of int;proc q(a:int,b:int,c:int){}proc main(){var x:v;var j:int;j:=2*(j+1);x[j]:=0;q(x[j],(j,0);while(x[(j)]<3)j:=j+1;}" = Done [(107, 107, EParse (MissingClosing 41))].
Proof. sfq_instance sfq5 67%nat "type v=array[3]of int;proc q(a:int,b:int,c:int){}proc main(){var x:v;var j:int;j:=2*(j+1);x[j]:=0;q(x[j],(j,0);while(x[(j)]<3)j:=j+1;}"%string. Qed.
(* what the model answers where the token behind the gap continues the expression (`x[j] + 1 := 0` is no program, but
   `x[j + 1] := 0` is one, and its damaged form is this text as well): still one diagnostic, behind the longer expression *)
Example C03_ex_missing_token_ambiguous :
  diag_of "type v=array[3]of int;proc q(a:int,b:int,c:int){}proc main(){var x:v;var j:int;j:=2*(j+1);x[j+1:=0;q(x[j],(j),0);while(x[(j)]<3)j:=j+1;}" = Done [(95, 95, EParse (MissingClosing 93))].
Proof. vm_compute. reflexivity. Qed.
